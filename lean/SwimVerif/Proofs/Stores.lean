/-
Lemmas for C13: association lists as finite maps, the ordered byte map (sortedness, range deletion, prefix
iteration), refinement of the in-memory node store and of the RocksDB plane model to id-indexed specifications.
-/
import SwimVerif.Model.Stores
import SwimVerif.Proofs.StoreKey

set_option linter.unusedVariables false
namespace SwimVerif.Store
open SwimVerif.Generated.Store

/-! ### association lists are finite maps -/

section alist
variable {κ α : Type} [DecidableEq κ]

theorem aget_filter (p : κ → Bool) (l : List (κ × α)) (k : κ) :
    aget (l.filter (fun e => p e.1)) k = if p k then aget l k else none := by
  induction l with
  | nil => simp [aget]
  | cons e t ih =>
    obtain ⟨a, b⟩ := e
    by_cases hp : p a
    · simp only [List.filter_cons, hp, ↓reduceIte, aget]
      by_cases hk : k = a
      · subst hk; simp [hp]
      · simp [hk, ih]
    · simp only [List.filter_cons, hp, aget, Bool.false_eq_true, ↓reduceIte]
      by_cases hk : k = a
      · subst hk; simp [hp, ih]
      · simp [hk, ih]

theorem aget_adel (l : List (κ × α)) (k k' : κ) : aget (adel l k) k' = if k' = k then none else aget l k' := by
  have := aget_filter (fun x => !decide (x = k)) l k'
  simp only [adel]
  rw [this]
  by_cases h : k' = k <;> simp [h]

theorem aget_aset (l : List (κ × α)) (k k' : κ) (v : α) :
    aget (aset l k v) k' = if k' = k then some v else aget l k' := by
  simp only [aset, aget]
  by_cases h : k' = k
  · simp [h]
  · simp [h, aget_adel]

theorem aget_mem {l : List (κ × α)} {k : κ} {v : α} (h : aget l k = some v) : (k, v) ∈ l := by
  induction l with
  | nil => simp [aget] at h
  | cons e t ih =>
    obtain ⟨a, b⟩ := e
    simp only [aget] at h
    by_cases hk : k = a
    · subst hk; simp at h; subst h; simp
    · simp [hk] at h; exact List.mem_cons_of_mem _ (ih h)

end alist

/-! ### ordered byte maps -/

theorem aget_bput (m : BMap) (k k' v : Bytes) : aget (bput m k v) k' = if k' = k then some v else aget m k' := by
  induction m with
  | nil => simp [bput, aget]
  | cons e t ih =>
    obtain ⟨a, b⟩ := e
    simp only [bput]
    by_cases h1 : blt k a = true
    · simp only [h1, ↓reduceIte, aget]
    · simp only [h1, Bool.false_eq_true, ↓reduceIte]
      by_cases h2 : k = a
      · subst h2
        simp only [↓reduceIte, aget]
        by_cases h3 : k' = k <;> simp [h3]
      · simp only [h2, ↓reduceIte, aget, ih]
        by_cases h3 : k' = a
        · subst h3
          have : ¬ k' = k := fun e => h2 e.symm
          simp [this]
        · simp [h3]

theorem aget_bdelRange (m : BMap) (a b k : Bytes) :
    aget (bdelRange m a b) k = if inRange a b k then none else aget m k := by
  have := aget_filter (fun x => !inRange a b x) m k
  simp only [bdelRange]
  rw [this]
  by_cases h : inRange a b k = true <;> simp [h]

theorem mem_bput {m : BMap} {k v : Bytes} {e : Bytes × Bytes} (h : e ∈ bput m k v) : e = (k, v) ∨ e ∈ m := by
  induction m with
  | nil => simp [bput] at h; left; exact h
  | cons x t ih =>
    obtain ⟨a, b⟩ := x
    simp only [bput] at h
    by_cases h1 : blt k a = true
    · simp only [h1, ↓reduceIte, List.mem_cons] at h
      rcases h with h | h | h
      · left; exact h
      · right; simp [h]
      · right; simp [h]
    · simp only [h1, Bool.false_eq_true, ↓reduceIte] at h
      by_cases h2 : k = a
      · simp only [h2, ↓reduceIte, List.mem_cons] at h
        rcases h with h | h
        · left; rw [h2]; exact h
        · right; simp [h]
      · simp only [h2, ↓reduceIte, List.mem_cons] at h
        rcases h with h | h
        · right; simp [h]
        · rcases ih h with h | h
          · left; exact h
          · right; simp [h]

/-- Strictly increasing keys (so: no duplicates). -/
def Sorted (m : BMap) : Prop := m.Pairwise (fun x y => blt x.1 y.1 = true)

theorem sorted_nil : Sorted [] := List.Pairwise.nil

theorem sorted_filter {m : BMap} (h : Sorted m) (p : Bytes × Bytes → Bool) : Sorted (m.filter p) :=
  List.Pairwise.filter p h

theorem sorted_adel {m : BMap} (h : Sorted m) (k : Bytes) : Sorted (adel m k) := sorted_filter h _

theorem sorted_bdelRange {m : BMap} (h : Sorted m) (a b : Bytes) : Sorted (bdelRange m a b) := sorted_filter h _

theorem sorted_bput {m : BMap} (h : Sorted m) (k v : Bytes) : Sorted (bput m k v) := by
  induction m with
  | nil => simp [bput, Sorted]
  | cons x t ih =>
    obtain ⟨a, b⟩ := x
    have ht : Sorted t := (List.pairwise_cons.mp h).2
    have ha : ∀ y ∈ t, blt a y.1 = true := (List.pairwise_cons.mp h).1
    simp only [bput]
    by_cases h1 : blt k a = true
    · simp only [h1, ↓reduceIte]
      apply List.pairwise_cons.mpr
      refine ⟨?_, h⟩
      intro y hy
      rcases List.mem_cons.mp hy with rfl | hy
      · exact h1
      · exact blt_trans _ _ _ h1 (ha y hy)
    · simp only [h1, Bool.false_eq_true, ↓reduceIte]
      by_cases h2 : k = a
      · subst h2
        simp only [↓reduceIte]
        exact List.pairwise_cons.mpr ⟨ha, ht⟩
      · simp only [h2, ↓reduceIte]
        apply List.pairwise_cons.mpr
        refine ⟨?_, ih ht⟩
        intro y hy
        rcases mem_bput hy with rfl | hy
        · rcases blt_total k a with h | h | h
          · exact absurd h h1
          · exact absurd h h2
          · exact h
        · exact ha y hy

/-! ### `seek` + `prefix_same_as_start` on a sorted map -/

theorem takeWhile_prefix_eq_filter (w : Nat) (t : Bytes) : ∀ (l : BMap), Sorted l → (∀ e ∈ l, blt e.1 t = false) →
    l.takeWhile (fun e => e.1.take w == t.take w) = l.filter (fun e => e.1.take w == t.take w) := by
  intro l
  induction l with
  | nil => intro _ _; rfl
  | cons x r ih =>
    intro hs hge
    have hr : Sorted r := (List.pairwise_cons.mp hs).2
    have hx : ∀ y ∈ r, blt x.1 y.1 = true := (List.pairwise_cons.mp hs).1
    have hger : ∀ e ∈ r, blt e.1 t = false := fun e he => hge e (List.mem_cons_of_mem _ he)
    by_cases hp : (x.1.take w == t.take w) = true
    · simp only [List.takeWhile_cons, hp, ↓reduceIte, List.filter_cons]
      rw [ih hr hger]
    · simp only [List.takeWhile_cons, hp, Bool.false_eq_true, ↓reduceIte, List.filter_cons]
      -- every later key has a strictly larger `w`-prefix than the target
      have hxt : blt x.1 t = false := hge x (List.mem_cons_self)
      have hne : x.1.take w ≠ t.take w := by simpa using hp
      have hgt : blt (t.take w) (x.1.take w) = true := by
        rcases blt_total (t.take w) (x.1.take w) with h | h | h
        · exact h
        · exact absurd h.symm hne
        · have := blt_take_mono w _ _ h; rw [hxt] at this; exact absurd this (by simp)
      symm
      apply List.filter_eq_nil_iff.mpr
      intro y hy
      have hxy := hx y hy
      have hyx : blt (y.1.take w) (x.1.take w) = false := by
        cases hb : blt (y.1.take w) (x.1.take w) with
        | false => rfl
        | true =>
          have := blt_take_mono w _ _ hb
          rw [blt_asymm _ _ hxy] at this
          exact absurd this (by simp)
      intro heq
      have heq : y.1.take w = t.take w := by simpa using heq
      rw [heq] at hyx
      rw [hgt] at hyx
      exact absurd hyx (by simp)

theorem bseekPrefix_eq_filter (w : Nat) (t : Bytes) : ∀ (m : BMap), Sorted m →
    bseekPrefix m w t = m.filter (fun e => ble t e.1 && (e.1.take w == t.take w)) := by
  intro m
  induction m with
  | nil => intro _; rfl
  | cons x r ih =>
    intro hs
    have hr : Sorted r := (List.pairwise_cons.mp hs).2
    have hx : ∀ y ∈ r, blt x.1 y.1 = true := (List.pairwise_cons.mp hs).1
    by_cases hlt : blt x.1 t = true
    · have := ih hr
      simp only [bseekPrefix] at this ⊢
      simp only [List.dropWhile_cons, hlt, ↓reduceIte, List.filter_cons, ble, Bool.not_true, Bool.false_and,
        Bool.false_eq_true]
      exact this
    · have hxt : blt x.1 t = false := by simpa using hlt
      have hge : ∀ e ∈ x :: r, blt e.1 t = false := by
        intro e he
        rcases List.mem_cons.mp he with rfl | he
        · exact hxt
        · cases hb : blt e.1 t with
          | false => rfl
          | true =>
            have := blt_trans _ _ _ (hx e he) hb
            rw [hxt] at this; exact absurd this (by simp)
      simp only [bseekPrefix, List.dropWhile_cons, hlt, Bool.false_eq_true, ↓reduceIte]
      rw [takeWhile_prefix_eq_filter w t (x :: r) hs hge]
      apply List.filter_congr
      intro e he
      simp [ble, hge e he]

/-! ### prefix iteration yields exactly one lane (ids below 2^56) -/

def id56 : Nat := 72057594037927936

theorem take_leBytes (w j : Nat) : ∀ n, (leBytes (w + j) n).take w = leBytes w n := by
  induction w with
  | zero => intro n; simp [leBytes]
  | succ w ih =>
    intro n
    have : w + 1 + j = (w + j) + 1 := by omega
    rw [this]
    simp only [leBytes, List.take_succ_cons, ih]

theorem prefix8_inj (a b : Nat) (ha : a < id56) (hb : b < id56)
    (h : (lanePrefixBytes a).take 8 = (lanePrefixBytes b).take 8) : a = b := by
  have e : idLen = 7 + 1 := rfl
  simp only [lanePrefixBytes, e, List.take_succ_cons, List.cons.injEq, true_and] at h
  rw [take_leBytes 7 1 a, take_leBytes 7 1 b] at h
  exact leBytes_inj 7 a b (by simpa [id56] using ha) (by simpa [id56] using hb) h

/-- The condition the iterator applies (`seek` position and 8-byte prefix equality), on a well-formed map key. -/
def iterCond (id : Nat) (k : Bytes) : Bool :=
  ble (StoreKey.ser (.map id none)) k &&
    (k.take prefixExtractorWidth == (StoreKey.ser (.map id none)).take prefixExtractorWidth)

theorem iterCond_lane (id id' : Nat) (h : id < id56) (h' : id' < id56) (k : Bytes) :
    iterCond id (StoreKey.ser (.map id' (some k))) = decide (id' = id) := by
  have hw : prefixExtractorWidth = 8 := rfl
  simp only [iterCond, ser_map_none, ser_map_some, hw]
  have ht : ∀ x r, (lanePrefixBytes x ++ r).take 8 = (lanePrefixBytes x).take 8 := by
    intro x r
    rw [List.take_append_of_le_length (by simp)]
  rw [ht]
  by_cases e : id' = id
  · subst e
    simp [ble_self_append]
  · have : (lanePrefixBytes id').take 8 ≠ (lanePrefixBytes id).take 8 := fun hh => e (prefix8_inj id' id h' h hh)
    simp [e, this]

/-- Every key of the `map_lanes` column family was written by `update_map` for an id below `bound`. -/
def WFMap (bound : Nat) (m : BMap) : Prop :=
  ∀ e ∈ m, ∃ id k, id < bound ∧ e.1 = StoreKey.ser (.map id (some k))

theorem wf_mono {b : Nat} {m : BMap} (h : WFMap b m) (p : Bytes × Bytes → Bool) : WFMap b (m.filter p) :=
  fun e he => h e (List.mem_filter.mp he).1

theorem wf_bput {b : Nat} {m : BMap} (h : WFMap b m) (id : Nat) (hid : id < b) (k v : Bytes) :
    WFMap b (bput m (StoreKey.ser (.map id (some k))) v) := by
  intro e he
  rcases mem_bput he with rfl | he
  · exact ⟨id, k, hid, rfl⟩
  · exact h e he

def stripKey (e : Bytes × Bytes) : Bytes × Bytes := (e.1.drop mapKeyPrefixSize, e.2)

theorem ser_map_some_split (id : Nat) (k : Bytes) :
    StoreKey.ser (.map id (some k)) = (lanePrefixBytes id ++ keyTag :: leBytes sizeLen k.length) ++ k := by
  simp [ser_map_some]

theorem strip_ser (id : Nat) (k : Bytes) : (StoreKey.ser (.map id (some k))).drop mapKeyPrefixSize = k := by
  rw [ser_map_some_split]
  apply List.drop_left'
  simp [sizeLen, mapKeyPrefixSize]

theorem ser_length_ge (id : Nat) (k : Bytes) : mapKeyPrefixSize ≤ (StoreKey.ser (.map id (some k))).length := by
  rw [ser_map_some_split]
  simp [sizeLen, mapKeyPrefixSize]
  omega

/-- Reading lane `id` through the iterator and stripping the 18-byte prefix gives, key for key, what is stored
under that lane's composite keys. -/
theorem aget_strip_iter (id : Nat) (hid : id < id56) (k : Bytes) : ∀ m : BMap, WFMap id56 m →
    aget ((m.filter (fun e => iterCond id e.1)).map stripKey) k = aget m (StoreKey.ser (.map id (some k))) := by
  intro m
  induction m with
  | nil => intro _; rfl
  | cons e r ih =>
    intro hwf
    have hr : WFMap id56 r := fun x hx => hwf x (List.mem_cons_of_mem _ hx)
    obtain ⟨id', k', hid', he⟩ := hwf e List.mem_cons_self
    obtain ⟨a, b⟩ := e
    simp only at he
    subst he
    simp only [List.filter_cons, iterCond_lane id id' hid hid']
    by_cases e1 : id' = id
    · subst e1
      simp only [decide_true, ↓reduceIte, List.map_cons, stripKey, strip_ser, aget, ih hr]
      by_cases e2 : k = k'
      · subst e2; simp
      · have : StoreKey.ser (.map id' (some k)) ≠ StoreKey.ser (.map id' (some k')) := by
          intro hh
          have := ser_injective _ _ (by simp [StoreKey.id, u64]; simp [id56] at hid'; omega)
            (by simp [StoreKey.id, u64]; simp [id56] at hid'; omega) hh
          simp at this
          exact e2 this
        simp [e2, this]
    · have : StoreKey.ser (.map id (some k)) ≠ StoreKey.ser (.map id' (some k')) := by
        intro hh
        have := ser_injective _ _ (by simp [StoreKey.id, u64]; simp [id56] at hid; omega)
          (by simp [StoreKey.id, u64]; simp [id56] at hid'; omega) hh
        simp at this
        exact e1 this.1.symm
      simp [e1, aget, this, ih hr]

theorem stripAll_ok (m : BMap) (b : Nat) (h : WFMap b m) : Rocks.stripAll m = .entries (m.map stripKey) := by
  have : (m.all fun e => decide (mapKeyPrefixSize ≤ e.1.length)) = true := by
    apply List.all_eq_true.mpr
    intro e he
    obtain ⟨id, k, _, hk⟩ := h e he
    simp [hk, ser_length_ge]
  simp only [Rocks.stripAll, this, ↓reduceIte]
  rfl

/-! ### specification: id-indexed items, each a value or a map (functions, no representation) -/

def fupd {α β : Type} [DecidableEq α] (f : α → β) (a : α) (b : β) : α → β := fun x => if x = a then b else f x

@[simp] theorem fupd_same {α β : Type} [DecidableEq α] (f : α → β) (a : α) (b : β) : fupd f a b a = b := by
  simp [fupd]

theorem fupd_other {α β : Type} [DecidableEq α] (f : α → β) (a x : α) (b : β) (h : x ≠ a) : fupd f a b x = f x := by
  simp [fupd, h]

theorem fupd_self_eq {α β : Type} [DecidableEq α] (f : α → β) (a : α) : fupd f a (f a) = f := by
  funext x; by_cases h : x = a <;> simp [fupd, h]

/-- Specification state of one node store (in-memory) / one plane (RocksDB: `ids` is keyed by the stored name). -/
structure Spec where
  ids : Bytes → Option Nat
  next : Nat
  vals : Nat → Option Bytes
  maps : Nat → Option (Bytes → Option Bytes)

inductive SOut
  | ok | errInvalidOp | ready | badOp
  | id (n : Nat)
  | some (v : Bytes)
  | none
  | entries (f : Bytes → Option Bytes)

/-- No key is enumerated twice. -/
def NoDupKeys (l : List (Bytes × Bytes)) : Prop := l.Pairwise (fun x y => x.1 ≠ y.1)

theorem sorted_noDup {l : BMap} (h : Sorted l) : NoDupKeys l :=
  List.Pairwise.imp (fun {x y} hxy e => by rw [e, blt_irrefl] at hxy; exact absurd hxy (by simp)) h

/-- Observable agreement: a `read_map` must enumerate exactly the map, every key once. -/
def outRel : Out → SOut → Prop
  | .ok, .ok => True
  | .ready, .ready => True
  | .badOp, .badOp => True
  | .errInvalidOp, .errInvalidOp => True
  | .id a, .id b => a = b
  | .some a, .some b => a = b
  | .none, .none => True
  | .entries l, .entries f => NoDupKeys l ∧ ∀ k, aget l k = f k
  | _, _ => False

/-- Pointwise agreement of two output sequences. -/
inductive OutsRel : List Out → List SOut → Prop
  | nil : OutsRel [] []
  | cons {a : Out} {b : SOut} {as : List Out} {bs : List SOut} : outRel a b → OutsRel as bs → OutsRel (a :: as) (b :: bs)

namespace InMem

/-- The typed specification the in-memory store implements: an id holds a value or a map, never both. -/
def specStep (s : Spec) : DOp → Spec × SOut
  | .idFor name =>
    match s.ids name with
    | .some id => (s, .id id)
    | .none => ({ s with ids := fupd s.ids name (.some s.next), next := s.next + 1 }, .id s.next)
  | .get id =>
    match s.vals id with
    | .some v => (s, .some v)
    | .none => if (s.maps id).isSome then (s, .errInvalidOp) else (s, .none)
  | .put id v =>
    if (s.vals id).isNone && (s.maps id).isSome then (s, .errInvalidOp)
    else ({ s with vals := fupd s.vals id (.some v) }, .ok)
  | .del id =>
    if (s.vals id).isNone && (s.maps id).isSome then (s, .errInvalidOp)
    else ({ s with vals := fupd s.vals id .none }, .ok)
  | .upd id k v =>
    match s.maps id with
    | .some m => ({ s with maps := fupd s.maps id (.some (fupd m k (.some v))) }, .ok)
    | .none =>
      if (s.vals id).isSome then (s, .errInvalidOp)
      else ({ s with maps := fupd s.maps id (.some (fupd (fun _ => .none) k (.some v))) }, .ok)
  | .rem id k =>
    match s.maps id with
    | .some m => ({ s with maps := fupd s.maps id (.some (fupd m k .none)) }, .ok)
    | .none => if (s.vals id).isSome then (s, .errInvalidOp) else (s, .ok)
  | .clr id =>
    if (s.maps id).isNone && (s.vals id).isSome then (s, .errInvalidOp)
    else ({ s with maps := fupd s.maps id .none }, .ok)
  | .read id =>
    match s.maps id with
    | .some m => (s, .entries m)
    | .none => if (s.vals id).isSome then (s, .errInvalidOp) else (s, .entries (fun _ => .none))

def abs (s : NodeState) : Spec where
  ids := aget s.ids
  next := s.counter
  vals := aget s.values
  maps := fun id => (aget s.maps id).map (fun m => aget m)

def spec0 : Spec := { ids := fun _ => .none, next := 0, vals := fun _ => .none, maps := fun _ => .none }

theorem abs_init : abs {} = spec0 := rfl

/-- Every stored `BTreeMap` is strictly ordered. -/
def Inv (s : NodeState) : Prop := ∀ id m, aget s.maps id = some m → Sorted m

theorem inv_init : Inv {} := by intro id m h; simp [aget] at h

theorem aget_bput_fun (m : BMap) (k v : Bytes) : aget (bput m k v) = fupd (aget m) k (some v) := by
  funext x; simp [aget_bput, fupd]

theorem aget_adel_fun (m : BMap) (k : Bytes) : aget (adel m k) = fupd (aget m) k none := by
  funext x; simp [aget_adel, fupd]

theorem aget_aset_fun {κ α : Type} [DecidableEq κ] (l : List (κ × α)) (k : κ) (v : α) :
    aget (aset l k v) = fupd (aget l) k (some v) := by
  funext x; simp [aget_aset, fupd]

theorem aget_adel_fun' {κ α : Type} [DecidableEq κ] (l : List (κ × α)) (k : κ) :
    aget (adel l k) = fupd (aget l) k none := by
  funext x; simp [aget_adel, fupd]

theorem maps_aset (l : List (Nat × BMap)) (id : Nat) (m : BMap) :
    (fun i => (aget (aset l id m) i).map (fun m => aget m)) =
      fupd (fun i => (aget l i).map (fun m => aget m)) id (some (aget m)) := by
  funext i; by_cases h : i = id <;> simp [aget_aset, fupd, h]

theorem maps_adel (l : List (Nat × BMap)) (id : Nat) :
    (fun i => (aget (adel l id) i).map (fun m => aget m)) =
      fupd (fun i => (aget l i).map (fun m => aget m)) id none := by
  funext i; by_cases h : i = id <;> simp [aget_adel, fupd, h]

theorem inv_aset {s : NodeState} (h : Inv s) (id : Nat) (m : BMap) (hm : Sorted m) :
    Inv { s with maps := aset s.maps id m } := by
  intro i m' hi
  simp only [aget_aset] at hi
  by_cases e : i = id
  · simp [e] at hi; subst hi; exact hm
  · simp [e] at hi; exact h i m' hi

theorem inv_adel {s : NodeState} (h : Inv s) (id : Nat) : Inv { s with maps := adel s.maps id } := by
  intro i m' hi
  simp only [aget_adel] at hi
  by_cases e : i = id
  · simp [e] at hi
  · simp [e] at hi; exact h i m' hi

/-- One operation of the in-memory node store is one operation of the specification. -/
theorem nodeStep_refines (s : NodeState) (hinv : Inv s) (d : DOp) :
    Inv (nodeStep s d).1 ∧ abs (nodeStep s d).1 = (specStep (abs s) d).1 ∧
      outRel (nodeStep s d).2 (specStep (abs s) d).2 := by
  cases d with
  | idFor name =>
    rcases h : aget s.ids name with _ | id
    · simp only [nodeStep, specStep, abs, h]
      refine ⟨hinv, ?_, rfl⟩
      simp only [aget_aset_fun]
    · simp only [nodeStep, specStep, abs, h]
      exact ⟨hinv, by simp, by simp [outRel]⟩
  | get id =>
    rcases h : aget s.values id with _ | v0 <;> rcases h2 : aget s.maps id with _ | m <;>
      simp [nodeStep, specStep, abs, hasKey, h, h2, outRel, hinv]
  | put id v =>
    rcases h : aget s.values id with _ | v0 <;> rcases h2 : aget s.maps id with _ | m <;>
      simp [nodeStep, specStep, abs, hasKey, h, h2, outRel, hinv, aget_aset_fun] <;> exact hinv
  | del id =>
    rcases h : aget s.values id with _ | v0 <;> rcases h2 : aget s.maps id with _ | m
    · simp only [nodeStep, specStep, abs, hasKey, h, h2, outRel, Option.isSome_none, Bool.false_eq_true, ↓reduceIte,
        Option.isNone_none, Option.map_none, Bool.and_false]
      refine ⟨hinv, ?_, trivial⟩
      have := fupd_self_eq (aget s.values) id
      rw [h] at this
      simp only [this]
    · simp [nodeStep, specStep, abs, hasKey, h, h2, outRel, hinv]
    · simp [nodeStep, specStep, abs, hasKey, h, h2, outRel, aget_adel_fun']; exact hinv
    · simp [nodeStep, specStep, abs, hasKey, h, h2, outRel, aget_adel_fun']; exact hinv
  | upd id k v =>
    rcases h2 : aget s.maps id with _ | m
    · rcases h : aget s.values id with _ | v0
      · simp only [nodeStep, specStep, abs, hasKey, h, h2, outRel, Option.isSome_none, Bool.false_eq_true,
          ↓reduceIte, Option.map_none]
        refine ⟨inv_aset hinv id _ (by simp [Sorted]), ?_, trivial⟩
        simp only [maps_aset]
        have : aget [(k, v)] = fupd (fun _ => none) k (some v) := by
          funext x; by_cases e : x = k <;> simp [aget, fupd, e]
        rw [this]
      · simp [nodeStep, specStep, abs, hasKey, h, h2, outRel, hinv]
    · simp only [nodeStep, specStep, abs, hasKey, h2, outRel, Option.map_some]
      refine ⟨inv_aset hinv id _ (sorted_bput (hinv id m h2) k v), ?_, trivial⟩
      simp only [maps_aset, aget_bput_fun]
  | rem id k =>
    rcases h2 : aget s.maps id with _ | m
    · rcases h : aget s.values id with _ | v0 <;>
        simp [nodeStep, specStep, abs, hasKey, h, h2, outRel, hinv]
    · simp only [nodeStep, specStep, abs, hasKey, h2, outRel, Option.map_some]
      refine ⟨inv_aset hinv id _ (sorted_adel (hinv id m h2) k), ?_, trivial⟩
      simp only [maps_aset, aget_adel_fun]
  | clr id =>
    rcases h2 : aget s.maps id with _ | m
    · rcases h : aget s.values id with _ | v0
      · simp only [nodeStep, specStep, abs, hasKey, h, h2, outRel, Option.isSome_none, Bool.false_eq_true,
          ↓reduceIte, Option.map_none, Option.isNone_none, Bool.and_false]
        refine ⟨hinv, ?_, trivial⟩
        have := fupd_self_eq (fun i => (aget s.maps i).map (fun m => aget m)) id
        simp only [h2, Option.map_none] at this
        simp only [this]
      · simp [nodeStep, specStep, abs, hasKey, h, h2, outRel, hinv]
    · simp only [nodeStep, specStep, abs, hasKey, h2, outRel, Option.isSome_some, ↓reduceIte, Option.map_some,
        Option.isNone_some, Bool.false_and, Bool.false_eq_true]
      exact ⟨inv_adel hinv id, by simp only [maps_adel], trivial⟩
  | read id =>
    rcases h2 : aget s.maps id with _ | m
    · rcases h : aget s.values id with _ | v0 <;>
        simp [nodeStep, specStep, abs, hasKey, h, h2, outRel, hinv, NoDupKeys, aget]
    · simp only [nodeStep, specStep, abs, hasKey, h2, outRel, Option.map_some]
      exact ⟨hinv, by simp, sorted_noDup (hinv id m h2), fun _ => by simp⟩

def nodeRun (s : NodeState) : List DOp → NodeState × List Out
  | [] => (s, [])
  | d :: ds => let r := nodeStep s d; let q := nodeRun r.1 ds; (q.1, r.2 :: q.2)

def specRun (s : Spec) : List DOp → Spec × List SOut
  | [] => (s, [])
  | d :: ds => let r := specStep s d; let q := specRun r.1 ds; (q.1, r.2 :: q.2)

theorem nodeRun_refines (ds : List DOp) : ∀ (s : NodeState), Inv s →
    Inv (nodeRun s ds).1 ∧ abs (nodeRun s ds).1 = (specRun (abs s) ds).1 ∧
      OutsRel (nodeRun s ds).2 (specRun (abs s) ds).2 := by
  induction ds with
  | nil => intro s h; exact ⟨h, rfl, OutsRel.nil⟩
  | cons d ds ih =>
    intro s h
    obtain ⟨h1, h2, h3⟩ := nodeStep_refines s h d
    obtain ⟨g1, g2, g3⟩ := ih (nodeStep s d).1 h1
    simp only [nodeRun, specRun]
    rw [h2] at g2 g3
    exact ⟨g1, g2, OutsRel.cons h3 g3⟩

end InMem

/-! ### RocksDB plane model refines the (untyped) specification, ids below 2^56 -/

namespace Rocks

/-- Specification of one plane: names (as stored: `lane/<uri>/<name>`) ↦ ids allocated from a counter; per id an
independent value slot and map. -/
def specStep (s : Spec) (uri : Bytes) : DOp → Spec × SOut
  | .idFor name =>
    match s.ids (laneKey uri name) with
    | .some id => (s, .id id)
    | .none => ({ s with ids := fupd s.ids (laneKey uri name) (.some (s.next + 1)), next := s.next + 1 }, .id (s.next + 1))
  | .get id =>
    match s.vals id with
    | .some v => (s, .some v)
    | .none => (s, .none)
  | .put id v => ({ s with vals := fupd s.vals id (.some v) }, .ok)
  | .del id => ({ s with vals := fupd s.vals id .none }, .ok)
  | .upd id k v => ({ s with maps := fupd s.maps id (.some (fupd ((s.maps id).getD (fun _ => .none)) k (.some v))) }, .ok)
  | .rem id k => ({ s with maps := fupd s.maps id (.some (fupd ((s.maps id).getD (fun _ => .none)) k .none)) }, .ok)
  | .clr id => ({ s with maps := fupd s.maps id (.some (fun _ => .none)) }, .ok)
  | .read id => (s, .entries ((s.maps id).getD (fun _ => .none)))

def DOp.idOk : DOp → Prop
  | .idFor _ => True
  | .get id | .put id _ | .del id | .upd id _ _ | .rem id _ | .clr id | .read id => id < id56

def abs (pl : Plane) : Spec where
  ids := aget pl.lanes
  next := pl.counter.getD counterInitial
  vals := fun id => if id < id56 then aget pl.vals (StoreKey.ser (.value id)) else .none
  maps := fun id => .some (fun k => if id < id56 then aget pl.maps (StoreKey.ser (.map id (.some k))) else .none)

structure Inv (pl : Plane) : Prop where
  sorted : Sorted pl.maps
  wf : WFMap id56 pl.maps
  count : ∀ c, pl.count = some c → c = pl.counter.getD counterInitial

theorem inv_init : Inv {} := ⟨sorted_nil, by intro e he; simp at he, by intro c h; simp at h⟩

theorem lt_u64_of_lt_id56 {n : Nat} (h : n < id56) : n < u64 := by simp [id56] at h; simp [u64]; omega

theorem ser_value_ne {a b : Nat} (ha : a < id56) (hb : b < id56) (h : a ≠ b) :
    StoreKey.ser (.value a) ≠ StoreKey.ser (.value b) := by
  intro hh
  have := ser_injective (.value a) (.value b) (lt_u64_of_lt_id56 ha) (lt_u64_of_lt_id56 hb) hh
  simp at this; exact h this

theorem ser_map_ne {a b : Nat} {k k' : Bytes} (ha : a < id56) (hb : b < id56) (h : ¬ (a = b ∧ k = k')) :
    StoreKey.ser (.map a (some k)) ≠ StoreKey.ser (.map b (some k')) := by
  intro hh
  have := ser_injective (.map a (some k)) (.map b (some k')) (lt_u64_of_lt_id56 ha) (lt_u64_of_lt_id56 hb) hh
  simp at this; exact h this

theorem vals_bput (m : BMap) (id : Nat) (hid : id < id56) (v : Bytes) :
    (fun i => if i < id56 then aget (bput m (StoreKey.ser (.value id)) v) (StoreKey.ser (.value i)) else none) =
      fupd (fun i => if i < id56 then aget m (StoreKey.ser (.value i)) else none) id (some v) := by
  funext i
  by_cases hi : i < id56
  · by_cases e : i = id
    · subst e; simp [hi, aget_bput]
    · simp [hi, aget_bput, fupd, e, ser_value_ne hi hid e]
  · have : i ≠ id := fun e => hi (e ▸ hid)
    simp [hi, fupd, this]

theorem vals_adel (m : BMap) (id : Nat) (hid : id < id56) :
    (fun i => if i < id56 then aget (adel m (StoreKey.ser (.value id))) (StoreKey.ser (.value i)) else none) =
      fupd (fun i => if i < id56 then aget m (StoreKey.ser (.value i)) else none) id none := by
  funext i
  by_cases hi : i < id56
  · by_cases e : i = id
    · subst e; simp [hi, aget_adel]
    · simp [hi, aget_adel, fupd, e, ser_value_ne hi hid e]
  · have : i ≠ id := fun e => hi (e ▸ hid)
    simp [hi, fupd, this]

/-- How a change of the `map_lanes` column family that only touches lane `id` shows in the abstraction. -/
theorem maps_change (m m' : BMap) (id : Nat) (hid : id < id56) (f : Bytes → Option Bytes)
    (hsame : ∀ i k, i < id56 → i ≠ id → aget m' (StoreKey.ser (.map i (some k))) = aget m (StoreKey.ser (.map i (some k))))
    (hnew : ∀ k, aget m' (StoreKey.ser (.map id (some k))) = f k) :
    (fun i => some (fun k => if i < id56 then aget m' (StoreKey.ser (.map i (some k))) else none)) =
      fupd (fun i => some (fun k => if i < id56 then aget m (StoreKey.ser (.map i (some k))) else none)) id (some f) := by
  funext i
  by_cases e : i = id
  · subst e
    simp only [fupd_same, Option.some.injEq]
    funext k
    simp [hid, hnew]
  · simp only [fupd, e, ↓reduceIte, Option.some.injEq]
    funext k
    by_cases hi : i < id56
    · simp [hi, hsame i k hi e]
    · simp [hi]

theorem planeStep_refines (pl : Plane) (hinv : Inv pl) (hopen : pl.count.isSome) (uri : Bytes) (d : DOp)
    (hd : DOp.idOk d) :
    Inv (planeStep pl uri d).1 ∧ (planeStep pl uri d).1.count.isSome ∧
      abs (planeStep pl uri d).1 = (specStep (abs pl) uri d).1 ∧
      outRel (planeStep pl uri d).2 (specStep (abs pl) uri d).2 := by
  have hci : counterInitial = 0 := rfl
  have hcs : counterStep = 1 := rfl
  cases d with
  | idFor name =>
    rcases h : aget pl.lanes (laneKey uri name) with _ | id
    · obtain ⟨c, hc⟩ := Option.isSome_iff_exists.mp hopen
      have hcc := hinv.count c hc
      simp only [planeStep, specStep, abs, h, hc, Option.getD_some, hcs]
      refine ⟨⟨hinv.sorted, hinv.wf, ?_⟩, by simp, ?_, ?_⟩
      · intro c' h'
        simp only [Option.some.injEq] at h'
        simp only [Option.getD_some]
        omega
      · simp only [InMem.aget_aset_fun, Option.getD_some, hcc]
      · simp [outRel, hcc]
    · simp only [planeStep, specStep, abs, h]
      exact ⟨hinv, hopen, by simp, by simp [outRel]⟩
  | get id =>
    have hid : id < id56 := hd
    rcases h : aget pl.vals (StoreKey.ser (.value id)) with _ | v <;>
      simp [planeStep, specStep, abs, h, hid, outRel, hinv, hopen]
  | put id v =>
    have hid : id < id56 := hd
    simp only [planeStep, specStep, abs, outRel]
    exact ⟨⟨hinv.sorted, hinv.wf, hinv.count⟩, hopen, by simp only [vals_bput _ id hid], trivial⟩
  | del id =>
    have hid : id < id56 := hd
    simp only [planeStep, specStep, abs, outRel]
    exact ⟨⟨hinv.sorted, hinv.wf, hinv.count⟩, hopen, by simp only [vals_adel _ id hid], trivial⟩
  | upd id k v =>
    have hid : id < id56 := hd
    simp only [planeStep, specStep, abs, outRel, Option.getD_some]
    refine ⟨⟨sorted_bput hinv.sorted _ _, wf_bput hinv.wf id hid k v, hinv.count⟩, hopen, ?_, trivial⟩
    rw [maps_change pl.maps _ id hid]
    · intro i k' hi hne
      rw [aget_bput]
      simp [ser_map_ne hi hid (fun h => hne h.1)]
    · intro k'
      rw [aget_bput]
      by_cases e : k' = k
      · subst e; simp
      · simp [fupd, e, hid, ser_map_ne hid hid (fun h => e h.2)]
  | rem id k =>
    have hid : id < id56 := hd
    simp only [planeStep, specStep, abs, outRel, Option.getD_some]
    refine ⟨⟨sorted_adel hinv.sorted _, wf_mono hinv.wf _, hinv.count⟩, hopen, ?_, trivial⟩
    rw [maps_change pl.maps _ id hid]
    · intro i k' hi hne
      rw [aget_adel]
      simp [ser_map_ne hi hid (fun h => hne h.1)]
    · intro k'
      rw [aget_adel]
      by_cases e : k' = k
      · subst e; simp
      · simp [fupd, e, hid, ser_map_ne hid hid (fun h => e h.2)]
  | clr id =>
    have hid : id < id56 := hd
    simp only [planeStep, specStep, abs, outRel]
    refine ⟨⟨sorted_bdelRange hinv.sorted _ _, wf_mono hinv.wf _, hinv.count⟩, hopen, ?_, trivial⟩
    rw [maps_change pl.maps _ id hid]
    · intro i k' hi hne
      rw [aget_bdelRange]
      have := inRange_lane id i (lt_u64_of_lt_id56 hid) (lt_u64_of_lt_id56 hi) k'
      have : inRange (StoreKey.ser (.map id none)) (mapUbound id) (StoreKey.ser (.map i (some k'))) = false := by
        cases hb : inRange (StoreKey.ser (.map id none)) (mapUbound id) (StoreKey.ser (.map i (some k'))) with
        | false => rfl
        | true => exact absurd (this.mp hb) hne
      simp [this]
    · intro k'
      rw [aget_bdelRange]
      have := (inRange_lane id id (lt_u64_of_lt_id56 hid) (lt_u64_of_lt_id56 hid) k').mpr rfl
      simp [this]
  | read id =>
    have hid : id < id56 := hd
    simp only [planeStep, specStep, abs, Option.getD_some]
    refine ⟨hinv, hopen, trivial, ?_⟩
    rw [bseekPrefix_eq_filter _ _ _ hinv.sorted]
    have hf : (pl.maps.filter fun e => ble (StoreKey.ser (.map id none)) e.1 &&
        (e.1.take prefixExtractorWidth == (StoreKey.ser (.map id none)).take prefixExtractorWidth)) =
        pl.maps.filter (fun e => iterCond id e.1) := rfl
    rw [hf, stripAll_ok _ id56 (wf_mono hinv.wf _)]
    simp only [outRel, hid, ↓reduceIte]
    constructor
    · -- distinct composite keys of one lane strip to distinct keys
      have hnd : NoDupKeys (pl.maps.filter (fun e => iterCond id e.1)) :=
        sorted_noDup (sorted_filter hinv.sorted _)
      have hlane : ∀ e ∈ pl.maps.filter (fun e => iterCond id e.1), ∃ k, e.1 = StoreKey.ser (.map id (some k)) := by
        intro e he
        obtain ⟨he1, he2⟩ := List.mem_filter.mp he
        obtain ⟨id', k, hid', hk⟩ := hinv.wf e he1
        rw [hk, iterCond_lane id id' hid hid'] at he2
        have : id' = id := by simpa using he2
        exact ⟨k, by rw [hk, this]⟩
      simp only [NoDupKeys, List.pairwise_map]
      refine List.Pairwise.imp_of_mem ?_ hnd
      intro x y hx hy hxy heq
      obtain ⟨kx, hkx⟩ := hlane x hx
      obtain ⟨ky, hky⟩ := hlane y hy
      simp only [stripKey, hkx, hky, strip_ser] at heq
      exact hxy (by rw [hkx, hky, heq])
    · intro k
      exact aget_strip_iter id hid k pl.maps hinv.wf

/-! #### the whole RocksDB store: handles, two planes, reopen points -/

structure SSt where
  p0 : Spec
  p1 : Spec
  slots : List (Nat × (Nat × Bytes))

def sget (s : SSt) (p : Nat) : Spec := if p = 0 then s.p0 else s.p1
def sset (s : SSt) (p : Nat) (t : Spec) : SSt := if p = 0 then { s with p0 := t } else { s with p1 := t }

/-- Specification of the store with handles: reopening changes nothing but the set of open handles. -/
def sstep (s : SSt) : Op → SSt × SOut
  | .opn slot p uri =>
    if (aget s.slots slot).isSome then (s, .badOp) else ({ s with slots := aset s.slots slot (p, uri) }, .ready)
  | .poll _ => (s, .badOp)
  | .drp slot =>
    match aget s.slots slot with
    | .some _ => ({ s with slots := adel s.slots slot }, .ok)
    | .none => (s, .badOp)
  | .data slot d =>
    match aget s.slots slot with
    | .some (p, uri) => let r := specStep (sget s p) uri d; (sset s p r.1, r.2)
    | .none => (s, .badOp)
  | .reopen => ({ s with slots := [] }, .ok)

def absSt (s : St) : SSt := { p0 := abs s.p0, p1 := abs s.p1, slots := s.slots }

def Op.idOk : Op → Prop
  | .data _ d => DOp.idOk d
  | _ => True

structure StInv (s : St) : Prop where
  i0 : Inv s.p0
  i1 : Inv s.p1
  opened : ∀ slot p uri, aget s.slots slot = some (p, uri) → (getPlane s p).count.isSome

theorem stInv_init : StInv init :=
  ⟨inv_init, inv_init, by intro slot p uri h; simp [init, aget] at h⟩

theorem inv_openPlane {pl : Plane} (h : Inv pl) : Inv (openPlane pl) := by
  unfold openPlane
  cases hc : pl.count with
  | some c => simpa [hc] using h
  | none => exact ⟨h.sorted, h.wf, by intro c hcc; simp at hcc; exact hcc.symm⟩

theorem abs_openPlane (pl : Plane) : abs (openPlane pl) = abs pl := by
  unfold openPlane
  cases hc : pl.count <;> rfl

theorem open_openPlane (pl : Plane) : (openPlane pl).count.isSome := by
  unfold openPlane
  cases hc : pl.count <;> simp [hc]

theorem inv_close {pl : Plane} (h : Inv pl) : Inv { pl with count := none } :=
  ⟨h.sorted, h.wf, by intro c hc; simp at hc⟩

theorem step_refines (s : St) (hinv : StInv s) (op : Op) (hop : Op.idOk op) :
    StInv (step s op).1 ∧ absSt (step s op).1 = (sstep (absSt s) op).1 ∧
      outRel (step s op).2 (sstep (absSt s) op).2 := by
  cases op with
  | opn slot p uri =>
    by_cases hs : (aget s.slots slot).isSome = true
    · simp only [step, sstep, absSt, hs, ↓reduceIte]
      exact ⟨hinv, by simp, by simp [outRel]⟩
    · simp only [step, sstep, absSt, hs, Bool.false_eq_true, ↓reduceIte]
      by_cases hp : p = 0
      · subst hp
        simp only [setPlane, getPlane, ↓reduceIte, abs_openPlane]
        refine ⟨⟨inv_openPlane hinv.i0, hinv.i1, ?_⟩, by simp, by simp [outRel]⟩
        intro sl q u hq
        simp only [aget_aset] at hq
        by_cases e : sl = slot
        · simp [e] at hq
          simp [getPlane, ← hq.1, open_openPlane]
        · simp [e] at hq
          have := hinv.opened sl q u hq
          by_cases hq0 : q = 0
          · simp [getPlane, hq0, open_openPlane]
          · simpa [getPlane, hq0] using this
      · simp only [setPlane, getPlane, hp, ↓reduceIte, abs_openPlane]
        refine ⟨⟨hinv.i0, inv_openPlane hinv.i1, ?_⟩, by simp, by simp [outRel]⟩
        intro sl q u hq
        simp only [aget_aset] at hq
        by_cases e : sl = slot
        · simp [e] at hq
          simp [getPlane, ← hq.1, hp, open_openPlane]
        · simp [e] at hq
          have := hinv.opened sl q u hq
          by_cases hq0 : q = 0
          · simpa [getPlane, hq0] using this
          · simp [getPlane, hq0, open_openPlane]
  | poll slot => exact ⟨hinv, rfl, trivial⟩
  | drp slot =>
    rcases h : aget s.slots slot with _ | x
    · simp only [step, sstep, absSt, h]
      exact ⟨hinv, by simp, by simp [outRel]⟩
    · simp only [step, sstep, absSt, h]
      refine ⟨⟨hinv.i0, hinv.i1, ?_⟩, by simp, by simp [outRel]⟩
      intro sl q u hq
      simp only [aget_adel] at hq
      by_cases e : sl = slot
      · simp [e] at hq
      · simp [e] at hq
        simpa [getPlane] using hinv.opened sl q u hq
  | reopen =>
    simp only [step, sstep, absSt]
    refine ⟨⟨inv_close hinv.i0, inv_close hinv.i1, ?_⟩, rfl, trivial⟩
    intro sl q u hq
    simp [aget] at hq
  | data slot d =>
    rcases h : aget s.slots slot with _ | ⟨p, uri⟩
    · simp only [step, sstep, absSt, h]
      exact ⟨hinv, by simp, by simp [outRel]⟩
    · have hopen := hinv.opened slot p uri h
      have hd : DOp.idOk d := hop
      simp only [step, sstep, absSt, h]
      by_cases hp : p = 0
      · subst hp
        simp only [getPlane, ↓reduceIte] at hopen
        obtain ⟨r1, r2, r3, r4⟩ := planeStep_refines s.p0 hinv.i0 hopen uri d hd
        simp only [getPlane, setPlane, sget, sset, ↓reduceIte]
        refine ⟨⟨r1, hinv.i1, ?_⟩, by rw [r3], r4⟩
        intro sl q u hq
        have := hinv.opened sl q u hq
        by_cases hq0 : q = 0
        · simpa [getPlane, hq0] using r2
        · simpa [getPlane, hq0] using this
      · simp only [getPlane, hp, ↓reduceIte] at hopen
        obtain ⟨r1, r2, r3, r4⟩ := planeStep_refines s.p1 hinv.i1 hopen uri d hd
        simp only [getPlane, setPlane, sget, sset, hp, ↓reduceIte]
        refine ⟨⟨hinv.i0, r1, ?_⟩, by rw [r3], r4⟩
        intro sl q u hq
        have := hinv.opened sl q u hq
        by_cases hq0 : q = 0
        · simpa [getPlane, hq0] using this
        · simpa [getPlane, hq0] using r2

def runOut (s : St) : List Op → St × List Out
  | [] => (s, [])
  | o :: os => let r := step s o; let q := runOut r.1 os; (q.1, r.2 :: q.2)

def srunOut (s : SSt) : List Op → SSt × List SOut
  | [] => (s, [])
  | o :: os => let r := sstep s o; let q := srunOut r.1 os; (q.1, r.2 :: q.2)

theorem run_refines (ops : List Op) : ∀ (s : St), StInv s → (∀ o ∈ ops, Op.idOk o) →
    StInv (runOut s ops).1 ∧ absSt (runOut s ops).1 = (srunOut (absSt s) ops).1 ∧
      OutsRel (runOut s ops).2 (srunOut (absSt s) ops).2 := by
  induction ops with
  | nil => intro s h _; exact ⟨h, rfl, OutsRel.nil⟩
  | cons o os ih =>
    intro s h hok
    obtain ⟨h1, h2, h3⟩ := step_refines s h o (hok o List.mem_cons_self)
    obtain ⟨g1, g2, g3⟩ := ih (step s o).1 h1 (fun x hx => hok x (List.mem_cons_of_mem _ hx))
    simp only [runOut, srunOut]
    rw [h2] at g2 g3
    exact ⟨g1, g2, OutsRel.cons h3 g3⟩

end Rocks

/-! ### what the specifications say: isolation, stable and collision-free ids -/

def DOp.target : DOp → Option Nat
  | .idFor _ => none
  | .get id | .put id _ | .del id | .upd id _ _ | .rem id _ | .clr id | .read id => some id

theorem InMem.spec_isolation (t : Spec) (d : DOp) (i : Nat) (h : DOp.target d ≠ some i) :
    (InMem.specStep t d).1.vals i = t.vals i ∧ (InMem.specStep t d).1.maps i = t.maps i := by
  cases d <;> simp only [DOp.target, ne_eq, Option.some.injEq, not_false_eq_true] at h <;>
    simp only [InMem.specStep] <;> (try split) <;> (try split) <;> simp [fupd, Ne.symm h]

theorem Rocks.spec_isolation (t : Spec) (uri : Bytes) (d : DOp) (i : Nat) (h : DOp.target d ≠ some i) :
    (Rocks.specStep t uri d).1.vals i = t.vals i ∧ (Rocks.specStep t uri d).1.maps i = t.maps i := by
  cases d <;> simp only [DOp.target, ne_eq, Option.some.injEq, not_false_eq_true] at h <;>
    simp only [Rocks.specStep] <;> (try split) <;> simp [fupd, Ne.symm h]

/-- Allocated ids lie in `[lo, next + lo)` and no id is given to two names. -/
structure IdsInv (lo : Nat) (t : Spec) : Prop where
  bound : ∀ nm n, t.ids nm = some n → n < t.next + lo
  inj : ∀ a b n, t.ids a = some n → t.ids b = some n → a = b

theorem InMem.ids_step (t : Spec) (h : IdsInv 0 t) (d : DOp) :
    IdsInv 0 (InMem.specStep t d).1 ∧ ∀ nm n, t.ids nm = some n → (InMem.specStep t d).1.ids nm = some n := by
  cases d with
  | idFor name =>
    rcases hn : t.ids name with _ | id
    · simp only [InMem.specStep, hn]
      refine ⟨⟨?_, ?_⟩, ?_⟩
      · intro nm n hnm
        show n < (t.next + 1) + 0
        simp only [fupd] at hnm
        by_cases e : nm = name
        · simp [e] at hnm; omega
        · simp [e] at hnm; have := h.bound nm n hnm; omega
      · intro a b n ha hb
        simp only [fupd] at ha hb
        by_cases ea : a = name <;> by_cases eb : b = name
        · rw [ea, eb]
        · simp [ea] at ha; simp [eb] at hb; have := h.bound b n hb; omega
        · simp [ea] at ha; simp [eb] at hb; have := h.bound a n ha; omega
        · simp [ea] at ha; simp [eb] at hb; exact h.inj a b n ha hb
      · intro nm n hnm
        have : nm ≠ name := fun e => by rw [e, hn] at hnm; exact absurd hnm (by simp)
        simp [fupd, this, hnm]
    · simp only [InMem.specStep, hn]
      exact ⟨h, fun _ _ hh => hh⟩
  | get id => simp only [InMem.specStep]; split <;> (try split) <;> exact ⟨h, fun _ _ hh => hh⟩
  | put id v => simp only [InMem.specStep]; split <;> exact ⟨⟨h.bound, h.inj⟩, fun _ _ hh => hh⟩
  | del id => simp only [InMem.specStep]; split <;> exact ⟨⟨h.bound, h.inj⟩, fun _ _ hh => hh⟩
  | upd id k v => simp only [InMem.specStep]; split <;> (try split) <;> exact ⟨⟨h.bound, h.inj⟩, fun _ _ hh => hh⟩
  | rem id k => simp only [InMem.specStep]; split <;> (try split) <;> exact ⟨⟨h.bound, h.inj⟩, fun _ _ hh => hh⟩
  | clr id => simp only [InMem.specStep]; split <;> exact ⟨⟨h.bound, h.inj⟩, fun _ _ hh => hh⟩
  | read id => simp only [InMem.specStep]; split <;> (try split) <;> exact ⟨h, fun _ _ hh => hh⟩

theorem Rocks.ids_step (t : Spec) (h : IdsInv 1 t) (uri : Bytes) (d : DOp) :
    IdsInv 1 (Rocks.specStep t uri d).1 ∧ ∀ nm n, t.ids nm = some n → (Rocks.specStep t uri d).1.ids nm = some n := by
  cases d with
  | idFor name =>
    rcases hn : t.ids (Rocks.laneKey uri name) with _ | id
    · simp only [Rocks.specStep, hn]
      refine ⟨⟨?_, ?_⟩, ?_⟩
      · intro nm n hnm
        show n < (t.next + 1) + 1
        simp only [fupd] at hnm
        by_cases e : nm = Rocks.laneKey uri name
        · simp [e] at hnm; omega
        · simp [e] at hnm; have := h.bound nm n hnm; omega
      · intro a b n ha hb
        simp only [fupd] at ha hb
        by_cases ea : a = Rocks.laneKey uri name <;> by_cases eb : b = Rocks.laneKey uri name
        · rw [ea, eb]
        · simp [ea] at ha; simp [eb] at hb; have := h.bound b n hb; omega
        · simp [ea] at ha; simp [eb] at hb; have := h.bound a n ha; omega
        · simp [ea] at ha; simp [eb] at hb; exact h.inj a b n ha hb
      · intro nm n hnm
        have : nm ≠ Rocks.laneKey uri name := fun e => by rw [e, hn] at hnm; exact absurd hnm (by simp)
        simp [fupd, this, hnm]
    · simp only [Rocks.specStep, hn]
      exact ⟨h, fun _ _ hh => hh⟩
  | get id => simp only [Rocks.specStep]; split <;> exact ⟨h, fun _ _ hh => hh⟩
  | put id v => exact ⟨⟨h.bound, h.inj⟩, fun _ _ hh => hh⟩
  | del id => exact ⟨⟨h.bound, h.inj⟩, fun _ _ hh => hh⟩
  | upd id k v => exact ⟨⟨h.bound, h.inj⟩, fun _ _ hh => hh⟩
  | rem id k => exact ⟨⟨h.bound, h.inj⟩, fun _ _ hh => hh⟩
  | clr id => exact ⟨⟨h.bound, h.inj⟩, fun _ _ hh => hh⟩
  | read id => exact ⟨h, fun _ _ hh => hh⟩

theorem idsInv_spec0 (lo : Nat) : IdsInv lo InMem.spec0 :=
  ⟨by intro nm n h; simp [InMem.spec0] at h, by intro a b n h; simp [InMem.spec0] at h⟩

theorem InMem.ids_run (ds : List DOp) : ∀ t, IdsInv 0 t →
    IdsInv 0 (InMem.specRun t ds).1 ∧ ∀ nm n, t.ids nm = some n → (InMem.specRun t ds).1.ids nm = some n := by
  induction ds with
  | nil => intro t h; exact ⟨h, fun _ _ hh => hh⟩
  | cons d ds ih =>
    intro t h
    obtain ⟨h1, h2⟩ := InMem.ids_step t h d
    obtain ⟨g1, g2⟩ := ih _ h1
    exact ⟨g1, fun nm n hh => g2 nm n (h2 nm n hh)⟩

theorem Rocks.ids_sstep (s : Rocks.SSt) (h0 : IdsInv 1 s.p0) (h1 : IdsInv 1 s.p1) (op : Op) :
    IdsInv 1 (Rocks.sstep s op).1.p0 ∧ IdsInv 1 (Rocks.sstep s op).1.p1 ∧
      (∀ nm n, s.p0.ids nm = some n → (Rocks.sstep s op).1.p0.ids nm = some n) ∧
      (∀ nm n, s.p1.ids nm = some n → (Rocks.sstep s op).1.p1.ids nm = some n) := by
  cases op with
  | opn slot p uri => simp only [Rocks.sstep]; split <;> exact ⟨h0, h1, fun _ _ hh => hh, fun _ _ hh => hh⟩
  | poll slot => exact ⟨h0, h1, fun _ _ hh => hh, fun _ _ hh => hh⟩
  | drp slot => simp only [Rocks.sstep]; split <;> exact ⟨h0, h1, fun _ _ hh => hh, fun _ _ hh => hh⟩
  | reopen => exact ⟨h0, h1, fun _ _ hh => hh, fun _ _ hh => hh⟩
  | data slot d =>
    simp only [Rocks.sstep]
    split
    · rename_i p uri _
      by_cases hp : p = 0
      · subst hp
        obtain ⟨a, b⟩ := Rocks.ids_step s.p0 h0 uri d
        simp only [Rocks.sget, Rocks.sset, ↓reduceIte]
        exact ⟨a, h1, b, fun _ _ hh => hh⟩
      · obtain ⟨a, b⟩ := Rocks.ids_step s.p1 h1 uri d
        simp only [Rocks.sget, Rocks.sset, hp, ↓reduceIte]
        exact ⟨h0, a, fun _ _ hh => hh, b⟩
    · exact ⟨h0, h1, fun _ _ hh => hh, fun _ _ hh => hh⟩

theorem Rocks.ids_srun (ops : List Op) : ∀ (s : Rocks.SSt), IdsInv 1 s.p0 → IdsInv 1 s.p1 →
    IdsInv 1 (Rocks.srunOut s ops).1.p0 ∧ IdsInv 1 (Rocks.srunOut s ops).1.p1 ∧
      (∀ nm n, s.p0.ids nm = some n → (Rocks.srunOut s ops).1.p0.ids nm = some n) ∧
      (∀ nm n, s.p1.ids nm = some n → (Rocks.srunOut s ops).1.p1.ids nm = some n) := by
  induction ops with
  | nil => intro s h0 h1; exact ⟨h0, h1, fun _ _ hh => hh, fun _ _ hh => hh⟩
  | cons o os ih =>
    intro s h0 h1
    obtain ⟨a0, a1, b0, b1⟩ := Rocks.ids_sstep s h0 h1 o
    obtain ⟨c0, c1, d0, d1⟩ := ih _ a0 a1
    exact ⟨c0, c1, fun nm n hh => d0 nm n (b0 nm n hh), fun nm n hh => d1 nm n (b1 nm n hh)⟩

/-- The stored name determines (uri, item name) when item names contain no `/` (the F10 class is exactly the rest). -/
theorem split_unique (x : Nat) : ∀ (a a' b b' : Bytes), x ∉ a → x ∉ a' → a ++ x :: b = a' ++ x :: b' → a = a' ∧ b = b' := by
  intro a
  induction a with
  | nil =>
    intro a' b b' _ h' h
    cases a' with
    | nil => simp at h; exact ⟨rfl, h⟩
    | cons y ys =>
      simp only [List.nil_append, List.cons_append, List.cons.injEq] at h
      exact absurd (by rw [h.1]; simp) h'
  | cons y ys ih =>
    intro a' b b' hx h' h
    cases a' with
    | nil =>
      simp only [List.nil_append, List.cons_append, List.cons.injEq] at h
      exact absurd (by rw [← h.1]; simp) hx
    | cons z zs =>
      simp only [List.cons_append, List.cons.injEq] at h
      have := ih zs b b' (fun m => hx (List.mem_cons_of_mem _ m)) (fun m => h' (List.mem_cons_of_mem _ m)) h.2
      exact ⟨by rw [h.1, this.1], this.2⟩

theorem laneKey_inj_of_no_slash (uri uri' name name' : Bytes) (h : 47 ∉ name) (h' : 47 ∉ name')
    (e : Rocks.laneKey uri name = Rocks.laneKey uri' name') : uri = uri' ∧ name = name' := by
  simp only [Rocks.laneKey] at e
  have e1 := List.append_cancel_left e
  simp only [List.cons.injEq, true_and] at e1
  -- split at the last `/`: reverse both sides
  have e2 := congrArg List.reverse e1
  simp only [List.reverse_append, List.reverse_cons, List.append_assoc, List.singleton_append] at e2
  have := split_unique 47 name.reverse name'.reverse uri.reverse uri'.reverse (by simpa using h) (by simpa using h') e2
  exact ⟨List.reverse_inj.mp this.2, List.reverse_inj.mp this.1⟩

end SwimVerif.Store
