/-
What the three `Uplinks` operations do to "lane `l` still has data waiting" (`hasData`) and which write they
return — the facts about one remote's queue that the link-language invariant needs (C04).
-/
import SwimVerif.Proofs.LinkLang

set_option linter.unusedSimpArgs false
set_option linter.unusedVariables false
namespace SwimVerif.WT

def vHas (up : Uplink ValueBp) : Bool := up.bp.pending || up.sendSynced
def lHas {α : Type} (up : Uplink (List α)) : Bool := !up.bp.isEmpty || up.sendSynced

/-- Something (a body or a `synced`) is waiting for lane `l` in the backpressure buffers. -/
def hasData (u : Uplinks) (l : Nat) : Bool :=
  (alGet u.value l).any vHas || (alGet u.supply l).any lHas || (alGet u.map l).any lHas

theorem hasData_congr {u u' : Uplinks} (hv : u'.value = u.value) (hs : u'.supply = u.supply) (hm : u'.map = u.map)
    (l : Nat) : hasData u' l = hasData u l := by
  simp [hasData, hv, hs, hm]

/-- With the writer at home nothing is waiting. -/
theorem hasData_home {u : Uplinks} (h : QInv u) (hh : u.writerHome = true) (l : Nat) : hasData u l = false := by
  have hq := (h.home hh).2
  have hv : (alGet u.value l).any vHas = false := by
    cases hg : alGet u.value l with
    | none => rfl
    | some up =>
      simp only [Option.any_some]
      cases hx : vHas up with
      | false => rfl
      | true =>
        have h1 := (h.value l up hg).1 (by simpa [vHas] using hx)
        have h2 := (h.value l up hg).2 h1
        rw [hq] at h2; simp at h2
  have hs : (alGet u.supply l).any lHas = false := by
    cases hg : alGet u.supply l with
    | none => rfl
    | some up =>
      simp only [Option.any_some]
      cases hx : lHas up with
      | false => rfl
      | true =>
        have h1 := (h.supply l up hg).1 (by simpa [lHas] using hx)
        have h2 := (h.supply l up hg).2 h1
        rw [hq] at h2; simp at h2
  have hm : (alGet u.map l).any lHas = false := by
    cases hg : alGet u.map l with
    | none => rfl
    | some up =>
      simp only [Option.any_some]
      cases hx : lHas up with
      | false => rfl
      | true =>
        have h1 := (h.map l up hg).1 (by simpa [lHas] using hx)
        have h2 := (h.map l up hg).2 h1
        rw [hq] at h2; simp at h2
  simp [hasData, hv, hs, hm]

/-! ### `push_special` -/

theorem pushSpecial_home (u : Uplinks) (a : Special) (reg : Registry) (h : u.writerHome = true) :
    u.pushSpecial a reg = ({ u with writerHome := false }, some (specialWrite reg a)) := by
  simp [Uplinks.pushSpecial, h]

theorem pushSpecial_away (u : Uplinks) (a : Special) (reg : Registry) (h : u.writerHome = false) :
    (u.pushSpecial a reg).2 = none ∧ (u.pushSpecial a reg).1.specialQueue = u.specialQueue ++ [a] ∧
    (u.pushSpecial a reg).1.writerHome = false ∧
    ∀ l, hasData (u.pushSpecial a reg).1 l = true →
      hasData u l = true ∧ ∀ id m, a = Special.unlinked id m → l ≠ id := by
  cases a with
  | linked id => simp [Uplinks.pushSpecial, h, hasData]
  | laneNotFound n => simp [Uplinks.pushSpecial, h, hasData]
  | unlinked id m =>
    refine ⟨by simp [Uplinks.pushSpecial, h], by simp [Uplinks.pushSpecial, h], by simp [Uplinks.pushSpecial, h], ?_⟩
    intro l hl
    by_cases hid : id = l
    · subst hid
      simp [Uplinks.pushSpecial, h, hasData] at hl
    · refine ⟨?_, ?_⟩
      · simpa [Uplinks.pushSpecial, h, hasData, alGet_alErase_ne _ hid] using hl
      · intro id' m' he
        cases he
        exact fun hh => hid hh.symm

/-! ### `push` -/

theorem push_home_linklanguplinks (u : Uplinks) (lane : Nat) (ev : Resp) (reg : Registry) (h : u.writerHome = true) :
    u.push lane ev reg = ({ u with writerHome := false }, some ⟨reg.nameFor lane, directNotes ev, some lane⟩) := by
  simp [Uplinks.push, h]

theorem push_away (u : Uplinks) (lane : Nat) (ev : Resp) (reg : Registry) (h : u.writerHome = false) :
    (u.push lane ev reg).2 = none ∧ (u.push lane ev reg).1.specialQueue = u.specialQueue ∧
    (u.push lane ev reg).1.writerHome = false ∧
    ∀ l, hasData (u.push lane ev reg).1 l = true → hasData u l = true ∨ l = lane := by
  have key : ∀ l, lane ≠ l → ∀ (u' : Uplinks),
      (alGet u'.value l = alGet u.value l) → (alGet u'.supply l = alGet u.supply l) →
      (alGet u'.map l = alGet u.map l) → hasData u' l = hasData u l := by
    intro l _ u' h1 h2 h3
    simp [hasData, h1, h2, h3]
  cases ev with
  | value b =>
    refine ⟨by simp [Uplinks.push, h], by simp [Uplinks.push, h], by simp [Uplinks.push, h], ?_⟩
    intro l hl
    by_cases hne : lane = l
    · exact Or.inr hne.symm
    · left
      rw [← hl]; symm
      apply key l hne <;> simp [Uplinks.push, h, alGet_alSet_ne _ _ hne]
  | supply b =>
    refine ⟨by simp [Uplinks.push, h], by simp [Uplinks.push, h], by simp [Uplinks.push, h], ?_⟩
    intro l hl
    by_cases hne : lane = l
    · exact Or.inr hne.symm
    · left
      rw [← hl]; symm
      apply key l hne <;> simp [Uplinks.push, h, alGet_alSet_ne _ _ hne]
  | map op =>
    refine ⟨by simp [Uplinks.push, h], by simp [Uplinks.push, h], by simp [Uplinks.push, h], ?_⟩
    intro l hl
    by_cases hne : lane = l
    · exact Or.inr hne.symm
    · left
      rw [← hl]; symm
      apply key l hne <;> simp [Uplinks.push, h, alGet_alSet_ne _ _ hne]
  | synced k =>
    cases k with
    | value =>
      refine ⟨by simp [Uplinks.push, h], by simp [Uplinks.push, h], by simp [Uplinks.push, h], ?_⟩
      intro l hl
      by_cases hne : lane = l
      · exact Or.inr hne.symm
      · left
        rw [← hl]; symm
        apply key l hne <;> simp [Uplinks.push, h, alGet_alSet_ne _ _ hne]
    | supply =>
      refine ⟨by simp [Uplinks.push, h], by simp [Uplinks.push, h], by simp [Uplinks.push, h], ?_⟩
      intro l hl
      by_cases hne : lane = l
      · exact Or.inr hne.symm
      · left
        rw [← hl]; symm
        apply key l hne <;> simp [Uplinks.push, h, alGet_alSet_ne _ _ hne]
    | map =>
      refine ⟨by simp [Uplinks.push, h], by simp [Uplinks.push, h], by simp [Uplinks.push, h], ?_⟩
      intro l hl
      by_cases hne : lane = l
      · exact Or.inr hne.symm
      · left
        rw [← hl]; symm
        apply key l hne <;> simp [Uplinks.push, h, alGet_alSet_ne _ _ hne]

theorem directNotes_data (ev : Resp) : ∀ x ∈ directNotes ev, isData x = true := by
  cases ev <;> simp [directNotes, isData]

/-! ### `replace_and_pop` -/

/-- One write-queue entry: nothing new is waiting afterwards, and a write is produced only for a lane that had
something waiting and consists of events / `synced` only. -/
theorem popEntry_spec (u : Uplinks) (k : Kind) (l0 : Nat) (reg : Registry) :
    (u.popEntry k l0 reg).1.specialQueue = u.specialQueue ∧
    (u.popEntry k l0 reg).1.writerHome = u.writerHome ∧
    (∀ l, hasData (u.popEntry k l0 reg).1 l = true → hasData u l = true) ∧
    (∀ w, (u.popEntry k l0 reg).2 = some w →
      hasData u l0 = true ∧ w.lane = reg.nameFor l0 ∧ ∀ x ∈ w.notes, isData x = true) := by
  cases k with
  | value =>
    simp only [Uplinks.popEntry]
    cases hg : alGet u.value l0 with
    | none => simp
    | some up =>
      simp only []
      refine ⟨trivial, trivial, ?_, ?_⟩
      · intro l hl
        by_cases hne : l0 = l
        · subst hne
          simp [hasData, vHas] at hl
          rcases hl with hl | hl <;> simp [hasData, hl]
        · simpa [hasData, alGet_alSet_ne _ _ hne] using hl
      · intro w hw
        cases hp : up.bp.pending <;> cases hs : up.sendSynced <;> simp [hp, hs] at hw
        · subst hw; simp [hasData, hg, vHas, hp, hs, isData]
        · subst hw; simp [hasData, hg, vHas, hp, hs, isData]
        · subst hw; simp [hasData, hg, vHas, hp, hs, isData]
  | supply =>
    simp only [Uplinks.popEntry]
    cases hg : alGet u.supply l0 with
    | none => simp
    | some up =>
      simp only []
      refine ⟨trivial, trivial, ?_, ?_⟩
      · intro l hl
        by_cases hne : l0 = l
        · subst hne
          cases hb : up.bp with
          | nil =>
            simp [hasData, lHas, hb] at hl
            rcases hl with hl | hl <;> simp [hasData, hl]
          | cons a as => simp [hasData, hg, lHas, hb]
        · simpa [hasData, alGet_alSet_ne _ _ hne] using hl
      · intro w hw
        cases hb : up.bp with
        | nil =>
          cases hs : up.sendSynced <;> simp [hb, hs] at hw
          subst hw; simp [hasData, hg, lHas, hb, hs, isData]
        | cons a as =>
          cases hs : up.sendSynced <;> simp [hb, hs] at hw
          · subst hw; simp [hasData, hg, lHas, hb, hs, isData]
          · subst hw; simp [hasData, hg, lHas, hb, hs, isData]
  | map =>
    simp only [Uplinks.popEntry]
    cases hg : alGet u.map l0 with
    | none => simp
    | some up =>
      simp only []
      cases hs : up.sendSynced with
      | true =>
        simp only [if_true]
        refine ⟨trivial, trivial, ?_, ?_⟩
        · intro l hl
          by_cases hne : l0 = l
          · subst hne
            simp [hasData, lHas] at hl
            simp [hasData, hg, lHas, hs]
          · simpa [hasData, alGet_alSet_ne _ _ hne] using hl
        · intro w hw
          simp at hw
          subst hw
          refine ⟨by simp [hasData, hg, lHas, hs], rfl, ?_⟩
          intro x hx
          simp at hx
          rcases hx with ⟨op, _, rfl⟩ | rfl <;> rfl
      | false =>
        simp only [Bool.false_eq_true, if_false]
        cases hb : up.bp with
        | nil =>
          simp only []
          refine ⟨trivial, trivial, ?_, by simp⟩
          intro l hl
          by_cases hne : l0 = l
          · subst hne
            simp [hasData, lHas] at hl
            rcases hl with hl | hl <;> simp [hasData, hl]
          · simpa [hasData, alGet_alSet_ne _ _ hne] using hl
        | cons op rest =>
          simp only []
          refine ⟨trivial, trivial, ?_, ?_⟩
          · intro l hl
            by_cases hne : l0 = l
            · subst hne
              simp [hasData, hg, lHas, hb]
            · simpa [hasData, alGet_alSet_ne _ _ hne] using hl
          · intro w hw
            simp at hw
            subst hw
            simp [hasData, hg, lHas, hb, isData]

theorem popLoop_spec (reg : Registry) : ∀ (fuel : Nat) (u : Uplinks),
    (u.popLoop reg fuel).1.specialQueue = u.specialQueue ∧
    (∀ l, hasData (u.popLoop reg fuel).1 l = true → hasData u l = true) ∧
    (∀ w, (u.popLoop reg fuel).2 = some w →
      ∃ l0, hasData u l0 = true ∧ w.lane = reg.nameFor l0 ∧ ∀ x ∈ w.notes, isData x = true) := by
  intro fuel
  induction fuel with
  | zero => intro u; simp [Uplinks.popLoop, hasData]
  | succ fuel ih =>
    intro u
    unfold Uplinks.popLoop
    cases hq : u.writeQueue with
    | nil => simp [hasData]
    | cons e rest =>
      obtain ⟨k0, l0⟩ := e
      simp only []
      have hp := popEntry_spec { u with writeQueue := rest } k0 l0 reg
      cases hr : (Uplinks.popEntry { u with writeQueue := rest } k0 l0 reg).2 with
      | some w =>
        simp only []
        refine ⟨hp.1, fun l hl => hp.2.2.1 l hl, ?_⟩
        intro w' hw'
        cases hw'
        exact ⟨l0, hp.2.2.2 w hr⟩
      | none =>
        simp only []
        have := ih (Uplinks.popEntry { u with writeQueue := rest } k0 l0 reg).1
        refine ⟨this.1.trans hp.1, fun l hl => hp.2.2.1 l (this.2.1 l hl), ?_⟩
        intro w hw
        obtain ⟨l1, h1, h2⟩ := this.2.2 w hw
        exact ⟨l1, hp.2.2.1 l1 h1, h2⟩

end SwimVerif.WT
