/-
C16 — truncation at the token level: the reader rejects every strict prefix of a written primitive token / attribute
name / map or array header.
-/
import SwimVerif.Proofs.MsgPackFuel

namespace SwimVerif.MsgPack
open SwimVerif.Recon

theorem prefix_len {p q r : List Nat} (hq : q ≠ []) (h : p ++ q = r) : p.length < r.length := by
  subst h
  have : 0 < q.length := List.length_pos_iff.mpr hq
  simp only [List.length_append]; omega

theorem takeN_short {k : Nat} {p : List Nat} (h : p.length < k) : takeN k p = none := by
  simp [takeN, h]

theorem rdU_short {k : Nat} {p : List Nat} (h : p.length < k) : rdU k p = none := by
  simp [rdU, takeN_short h]

theorem be1 {L : Nat} (h : L < 256) : be 1 L = [L] := by
  simp [be, leBytes, Nat.mod_eq_of_lt h]

/-- Splitting a strict prefix of `a ++ b`. -/
theorem prefix_split {p q a b : List Nat} (hq : q ≠ []) (h : p ++ q = a ++ b) :
    (∃ q', q' ≠ [] ∧ p ++ q' = a) ∨ (∃ p', p = a ++ p' ∧ p' ++ q = b) := by
  rcases List.append_eq_append_iff.mp h with ⟨a', h1, h2⟩ | ⟨c', h1, h2⟩
  · by_cases ha : a' = []
    · subst ha
      exact Or.inr ⟨[], by simpa using h1.symm, by simp [h2]⟩
    · exact Or.inl ⟨a', ha, h1.symm⟩
  · exact Or.inr ⟨c', h1, h2.symm⟩

/-- Reading a `k`-byte big-endian length off a strict prefix of `be k L ++ body`: incomplete, or the length and a
strict prefix of the body. -/
theorem rdU_prefix {k L : Nat} (hL : L < 256 ^ k) {body p q : List Nat} (hq : q ≠ []) (h : p ++ q = be k L ++ body) :
    rdU k p = none ∨ ∃ p', rdU k p = some (L, p') ∧ p' ++ q = body := by
  rcases prefix_split hq h with ⟨q', hq', h1⟩ | ⟨p', h1, h2⟩
  · left
    have := prefix_len hq' h1
    rw [be_length] at this
    exact rdU_short this
  · right
    exact ⟨p', by rw [h1, rdU_be k L hL], h2⟩

/-- No strict prefix of the bytes after the marker is accepted. -/
def TokRej (w : List Nat) : Prop :=
  ∀ m r, w = m :: r → ∀ p q, q ≠ [] → p ++ q = r → rdPrim m p = none

/-! ### integers -/

theorem rdUInt_short {k : Nat} {p : List Nat} (h : p.length < k) : rdUInt k p = none := by
  simp [rdUInt, rdU_short h]

theorem rdSInt_short {k : Nat} {p : List Nat} (h : p.length < k) : rdSInt k p = none := by
  simp [rdSInt, rdU_short h]

theorem int_rej (n : Int) : TokRej (wInt n) := by
  intro m r hw p q hq hpq
  have hlen := prefix_len hq hpq
  unfold wInt at hw
  repeat' split at hw
  all_goals (simp only [List.cons.injEq] at hw; obtain ⟨rfl, rfl⟩ := hw)
  all_goals simp only [List.length_nil, List.length_cons, be_length, Nat.zero_add] at hlen
  all_goals first
    | omega
    | simp [rdPrim, rdSInt_short hlen, rdUInt_short hlen]

/-! ### text and names -/

theorem rdStrBody_short {L : Nat} {p : List Nat} (h : p.length < L) : rdStrBody L p = none := by
  simp [rdStrBody, takeN_short h]

theorem rdText_short {L : Nat} {p : List Nat} (h : p.length < L) : rdText L p = none := by
  simp [rdText, rdStrBody_short h]

theorem rdLenText_prefix {k L : Nat} (hL : L < 256 ^ k) {body p q : List Nat} (hb : body.length = L) (hq : q ≠ [])
    (h : p ++ q = be k L ++ body) : rdLenText k p = none := by
  rcases rdU_prefix hL hq h with h1 | ⟨p', h1, h2⟩
  · simp [rdLenText, h1]
  · have := prefix_len hq h2
    simp [rdLenText, h1, rdText_short (hb ▸ this)]

theorem rdNameLen_prefix {k L : Nat} (hL : L < 256 ^ k) {body p q : List Nat} (hb : body.length = L) (hq : q ≠ [])
    (h : p ++ q = be k L ++ body) :
    rdU k p = none ∨ ∃ p', rdU k p = some (L, p') ∧ rdStrBody L p' = none := by
  rcases rdU_prefix hL hq h with h1 | ⟨p', h1, h2⟩
  · exact Or.inl h1
  · have := prefix_len hq h2
    exact Or.inr ⟨p', h1, rdStrBody_short (hb ▸ this)⟩

/-- The four shapes of a written string. -/
theorem wStr_shape (s : List Char) (hL : (utf8Enc s).length < U32) :
    ((utf8Enc s).length < 32 ∧ wStr s = (160 + (utf8Enc s).length) :: utf8Enc s) ∨
    ((utf8Enc s).length < 256 ∧ wStr s = 217 :: (be 1 (utf8Enc s).length ++ utf8Enc s)) ∨
    ((utf8Enc s).length < 65536 ∧ wStr s = 218 :: (be 2 (utf8Enc s).length ++ utf8Enc s)) ∨
    (wStr s = 219 :: (be 4 (utf8Enc s).length ++ utf8Enc s)) := by
  have hmod : (utf8Enc s).length % U32 = (utf8Enc s).length := Nat.mod_eq_of_lt hL
  unfold wStr wStrLen
  rw [hmod]
  by_cases c1 : (utf8Enc s).length < 32
  · left; rw [if_pos c1]; exact ⟨c1, rfl⟩
  rw [if_neg c1]
  by_cases c2 : (utf8Enc s).length < 256
  · right; left; rw [if_pos c2, be1 c2]; exact ⟨c2, rfl⟩
  rw [if_neg c2]
  by_cases c3 : (utf8Enc s).length < 65536
  · right; right; left; rw [if_pos c3]; exact ⟨c3, rfl⟩
  rw [if_neg c3]
  right; right; right; rfl

theorem text_rej (s : List Char) (hL : (utf8Enc s).length < U32) : TokRej (wStr s) := by
  have hU : U32 = 4294967296 := rfl
  intro m r hw p q hq hpq
  rcases wStr_shape s hL with ⟨c, h⟩ | ⟨c, h⟩ | ⟨c, h⟩ | h
  all_goals (rw [h] at hw; simp only [List.cons.injEq] at hw; obtain ⟨rfl, rfl⟩ := hw)
  · have := prefix_len hq hpq
    rw [rdPrim_fixstr _ _ (by omega) (by omega), Nat.add_sub_cancel_left]
    exact rdText_short this
  · have : ∀ x, rdPrim 217 x = rdLenText 1 x := by intro x; simp [rdPrim]
    rw [this]; exact rdLenText_prefix (by omega) rfl hq hpq
  · have : ∀ x, rdPrim 218 x = rdLenText 2 x := by intro x; simp [rdPrim]
    rw [this]; exact rdLenText_prefix (by simp only [Nat.reducePow]; omega) rfl hq hpq
  · have : ∀ x, rdPrim 219 x = rdLenText 4 x := by intro x; simp [rdPrim]
    rw [this]; exact rdLenText_prefix (by simp only [Nat.reducePow]; omega) rfl hq hpq

/-- Attribute names: every strict prefix of a written name is rejected. -/
theorem name_rej (s : List Char) (hL : (utf8Enc s).length < U32) (p q : List Nat) (hq : q ≠ [])
    (hpq : p ++ q = wStr s) : rdName p = none := by
  have hU : U32 = 4294967296 := rfl
  cases p with
  | nil => simp [rdName]
  | cons m p =>
    rcases wStr_shape s hL with ⟨c, h⟩ | ⟨c, h⟩ | ⟨c, h⟩ | h
    all_goals (rw [h] at hpq; simp only [List.cons_append, List.cons.injEq] at hpq; obtain ⟨rfl, hpq⟩ := hpq)
    · have := prefix_len hq hpq
      simp only [rdName]
      rw [if_pos (by omega), Nat.add_sub_cancel_left]
      exact rdStrBody_short this
    · simp only [rdName]
      rw [if_neg (by omega), if_pos trivial]
      rcases rdNameLen_prefix (k := 1) (by omega) rfl hq hpq with h1 | ⟨p', h1, h2⟩
      · simp [h1]
      · simp [h1, h2]
    · simp only [rdName]
      rw [if_neg (by omega), if_neg (by omega), if_pos trivial]
      rcases rdNameLen_prefix (k := 2) (by simp only [Nat.reducePow]; omega) rfl hq hpq with h1 | ⟨p', h1, h2⟩
      · simp [h1]
      · simp [h1, h2]
    · simp only [rdName]
      rw [if_neg (by omega), if_neg (by omega), if_neg (by omega), if_pos trivial]
      rcases rdNameLen_prefix (k := 4) (by simp only [Nat.reducePow]; omega) rfl hq hpq with h1 | ⟨p', h1, h2⟩
      · simp [h1]
      · simp [h1, h2]

/-! ### bin -/

theorem rdBlob_prefix {k L : Nat} (hL : L < 256 ^ k) {body p q : List Nat} (hb : body.length = L) (hq : q ≠ [])
    (h : p ++ q = be k L ++ body) : rdBlob k p = none := by
  rcases rdU_prefix hL hq h with h1 | ⟨p', h1, h2⟩
  · simp [rdBlob, h1]
  · have := prefix_len hq h2
    simp [rdBlob, h1, takeN_short (hb ▸ this)]

theorem data_rej (bs : List Nat) (hL : bs.length < U32) : TokRej (wBinLen bs.length ++ bs) := by
  have hU : U32 = 4294967296 := rfl
  have hmod : bs.length % U32 = bs.length := Nat.mod_eq_of_lt hL
  intro m r hw p q hq hpq
  unfold wBinLen at hw
  rw [hmod] at hw
  by_cases c2 : bs.length < 256
  · rw [if_pos c2, ← be1 c2] at hw
    simp only [List.cons_append, List.nil_append, List.cons.injEq] at hw
    obtain ⟨rfl, rfl⟩ := hw
    have : ∀ x, rdPrim 196 x = rdBlob 1 x := by intro x; simp [rdPrim]
    rw [this]; exact rdBlob_prefix (by omega) rfl hq hpq
  rw [if_neg c2] at hw
  by_cases c3 : bs.length < 65536
  · rw [if_pos c3] at hw
    simp only [List.cons_append, List.cons.injEq] at hw
    obtain ⟨rfl, rfl⟩ := hw
    have : ∀ x, rdPrim 197 x = rdBlob 2 x := by intro x; simp [rdPrim]
    rw [this]; exact rdBlob_prefix (by simp only [Nat.reducePow]; omega) rfl hq hpq
  rw [if_neg c3] at hw
  simp only [List.cons_append, List.cons.injEq] at hw
  obtain ⟨rfl, rfl⟩ := hw
  have : ∀ x, rdPrim 198 x = rdBlob 4 x := by intro x; simp [rdPrim]
  rw [this]; exact rdBlob_prefix (by simp only [Nat.reducePow]; omega) rfl hq hpq

end SwimVerif.MsgPack
