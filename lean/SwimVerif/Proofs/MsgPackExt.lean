/-
C16 — token level of the MessagePack byte model: ext headers (`write_ext_meta` ↔ fixext / ext8 / ext16 / ext32),
big-integer magnitudes (`to_bytes_be` / `from_bytes_be`), and `PrimRT`.
-/
import SwimVerif.Proofs.MsgPackStr

namespace SwimVerif.MsgPack
open SwimVerif.Recon

/-! ### magnitudes -/

theorem lt_pow_byteLen (m : Nat) : m < 256 ^ byteLen m := by
  unfold byteLen
  have h1 : m < 2 ^ (m.log2 + 1) := Nat.lt_log2_self
  have h2 : 2 ^ (m.log2 + 1) ≤ 2 ^ (8 * (m.log2 / 8 + 1)) := Nat.pow_le_pow_right (by omega) (by omega)
  have h3 : (256 : Nat) ^ (m.log2 / 8 + 1) = 2 ^ (8 * (m.log2 / 8 + 1)) := by
    rw [Nat.pow_mul]
  omega

theorem natBytes_length (m : Nat) : (natBytes m).length = byteLen m := by simp [natBytes, be_length]

/-- `BigUint::from_bytes_be (m.to_bytes_be()) = m`. -/
theorem beVal_natBytes (m : Nat) : beVal (natBytes m) = m := beVal_be _ _ (lt_pow_byteLen m)

theorem takeN_natBytes (m : Nat) (rest : List Nat) : takeN (byteLen m) (natBytes m ++ rest) = some (natBytes m, rest) := by
  have := takeN_append (natBytes m) rest
  rwa [natBytes_length] at this

/-! ### ext -/

/-- `write_ext_meta len ty` is read back (fixext 1/2/4/8/16, ext8, ext16, ext32) as "ext of `len` bytes", handing the
type byte and the payload to `read_ext`. -/
theorem wExtMeta_rt (len ty : Nat) (h : len < U32) :
    ∃ m r, wExtMeta len ty = m :: r ∧ isMapMarker m = false ∧ isArrMarker m = false ∧
      ∀ p, rdPrim m (r ++ p) = rdExtBody len (ty :: p) := by
  have hU : U32 = 4294967296 := rfl
  unfold wExtMeta
  by_cases c1 : len = 1
  · rw [if_pos c1]; subst c1
    exact ⟨212, [ty], rfl, by decide, by decide, fun p => by simp [rdPrim]⟩
  rw [if_neg c1]
  by_cases c2 : len = 2
  · rw [if_pos c2]; subst c2
    exact ⟨213, [ty], rfl, by decide, by decide, fun p => by simp [rdPrim]⟩
  rw [if_neg c2]
  by_cases c3 : len = 4
  · rw [if_pos c3]; subst c3
    exact ⟨214, [ty], rfl, by decide, by decide, fun p => by simp [rdPrim]⟩
  rw [if_neg c3]
  by_cases c4 : len = 8
  · rw [if_pos c4]; subst c4
    exact ⟨215, [ty], rfl, by decide, by decide, fun p => by simp [rdPrim]⟩
  rw [if_neg c4]
  by_cases c5 : len = 16
  · rw [if_pos c5]; subst c5
    exact ⟨216, [ty], rfl, by decide, by decide, fun p => by simp [rdPrim]⟩
  rw [if_neg c5]
  by_cases c6 : len < 256
  · rw [if_pos c6]
    refine ⟨199, [len, ty], rfl, by decide, by decide, ?_⟩
    intro p
    have : ∀ x, rdPrim 199 x = rdLenExt 1 x := by intro x; simp [rdPrim]
    rw [this]
    simp only [List.cons_append, List.nil_append, rdLenExt, rdU1]
  rw [if_neg c6]
  by_cases c7 : len < 65536
  · rw [if_pos c7]
    refine ⟨200, be 2 len ++ [ty], rfl, by decide, by decide, ?_⟩
    intro p
    have : ∀ x, rdPrim 200 x = rdLenExt 2 x := by intro x; simp [rdPrim]
    rw [this, List.append_assoc, rdLenExt, rdU_be 2 _ (by simp only [Nat.reducePow]; omega)]
    rfl
  rw [if_neg c7]
  refine ⟨201, be 4 len ++ [ty], rfl, by decide, by decide, ?_⟩
  intro p
  have : ∀ x, rdPrim 201 x = rdLenExt 4 x := by intro x; simp [rdPrim]
  rw [this, List.append_assoc, rdLenExt, rdU_be 4 _ (by simp only [Nat.reducePow]; omega)]
  rfl

theorem rdExtBody_big (m s : Nat) (rest : List Nat) :
    rdExtBody (byteLen m + 1) (0 :: s :: (natBytes m ++ rest)) =
      some (.int .big (if s = 0 then -(m : Int) else (m : Int)), rest) := by
  simp [rdExtBody, takeN_natBytes, beVal_natBytes]

theorem rdExtBody_ubig (m : Nat) (rest : List Nat) :
    rdExtBody (byteLen m) (1 :: (natBytes m ++ rest)) = some (.int .ubig (m : Int), rest) := by
  simp [rdExtBody, takeN_natBytes, beVal_natBytes]

/-- `BigInt`: ext type 0, sign byte, magnitude. -/
theorem big_rt (n : Int) (h : byteLen n.natAbs + 1 < U32) : TokRT (wBigInt n) (.int .big n) := by
  obtain ⟨m, r, hw, hm, ha, hrd⟩ := wExtMeta_rt (byteLen n.natAbs + 1) 0 h
  refine ⟨m, r ++ ((if n < 0 then 0 else 1) :: natBytes n.natAbs), by simp [wBigInt, hw], hm, ha, ?_⟩
  intro rest
  rw [List.append_assoc, hrd, List.cons_append, rdExtBody_big]
  by_cases hn : n < 0
  · rw [if_pos hn, if_pos rfl]
    have : -(n.natAbs : Int) = n := by omega
    rw [this]
  · rw [if_neg hn, if_neg (by decide)]
    have : (n.natAbs : Int) = n := by omega
    rw [this]

/-- `BigUint`: ext type 1, magnitude. -/
theorem ubig_rt (n : Int) (h0 : 0 ≤ n) (h : byteLen n.toNat < U32) : TokRT (wBigUint n) (.int .ubig n) := by
  obtain ⟨m, r, hw, hm, ha, hrd⟩ := wExtMeta_rt (byteLen n.toNat) 1 h
  refine ⟨m, r ++ natBytes n.toNat, by simp [wBigUint, hw], hm, ha, ?_⟩
  intro rest
  rw [List.append_assoc, hrd, rdExtBody_ubig]
  have : (n.toNat : Int) = n := by omega
  rw [this]

/-! ### all primitive tokens -/

theorem primRT : PrimRT := by
  intro v hr hok
  cases v with
  | extant => exact ⟨192, [], rfl, by decide, by decide, fun rest => by simp [rdPrim, mpNorm]⟩
  | bool b =>
    cases b
    · exact ⟨194, [], rfl, by decide, by decide, fun rest => by simp [rdPrim, mpNorm]⟩
    · exact ⟨195, [], rfl, by decide, by decide, fun rest => by simp [rdPrim, mpNorm]⟩
  | float d => simp [mpOk] at hok
  | record a i => simp [isRec] at hr
  | text s =>
    simp only [mpOk, decide_eq_true_eq] at hok
    have := text_rt s hok
    simpa [TokRT, wV, mpNorm] using this
  | data bs =>
    simp only [mpOk, Bool.and_eq_true, decide_eq_true_eq] at hok
    have := data_rt bs hok.1
    simpa [TokRT, wV, mpNorm] using this
  | int k n =>
    cases k with
    | big =>
      simp only [mpOk, kindOk, decide_eq_true_eq] at hok
      have := big_rt n hok
      simpa [TokRT, wV, mpNorm] using this
    | ubig =>
      simp only [mpOk, kindOk, Bool.and_eq_true, decide_eq_true_eq] at hok
      have := ubig_rt n hok.1 hok.2
      simpa [TokRT, wV, mpNorm] using this
    | i32 =>
      simp only [mpOk, kindOk, Bool.and_eq_true, decide_eq_true_eq] at hok
      have := wInt_rt n (by omega) (by omega)
      simpa [TokRT, wV, mpNorm] using this
    | i64 =>
      simp only [mpOk, kindOk, Bool.and_eq_true, decide_eq_true_eq] at hok
      have := wInt_rt n (by omega) (by omega)
      simpa [TokRT, wV, mpNorm] using this
    | u32 =>
      simp only [mpOk, kindOk, Bool.and_eq_true, decide_eq_true_eq] at hok
      have := wInt_rt n (by omega) (by omega)
      simpa [TokRT, wV, mpNorm] using this
    | u64 =>
      simp only [mpOk, kindOk, Bool.and_eq_true, decide_eq_true_eq] at hok
      have := wInt_rt n (by omega) (by omega)
      simpa [TokRT, wV, mpNorm] using this

end SwimVerif.MsgPack
