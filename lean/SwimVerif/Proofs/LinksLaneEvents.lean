/-
C20, event counter of one lane's reporter under any sequence of registry operations: what the snapshots returned +
what a replaced reporter took with it + what is still in the counter = what was in it + what was counted.
-/
import SwimVerif.Proofs.LinksEvents

set_option linter.unusedSimpArgs false
set_option linter.unusedVariables false
namespace SwimVerif.WT

/-- The event count in the reporter cell of lane `id` (0 if there is none). -/
def Links.laneEv (l : Links) (id : Nat) : Nat := ((alGet l.lane id).getD {}).events

/-- Lane `id` has an entry holding a reporter. -/
def Links.hasRep (l : Links) (id : Nat) : Bool :=
  match alGet l.forward id with
  | some e => e.hasReporter
  | none => false

/-- `count_single` / `count_broadcast` reach the reporter of lane `id`. -/
def Links.repCounts (l : Links) (id : Nat) : Bool := l.hasAgg && l.hasRep id

def laneAdded (l : Links) (id : Nat) : LOp → Nat
  | .countSingle id' => if id' = id then (if l.repCounts id then 0 + 1 else 0) else 0
  | .countBroadcast id' => if id' = id then (if l.repCounts id then (l.linkedFrom id).length else 0) else 0
  | _ => 0

def laneRead (l : Links) (id : Nat) : LOp → Nat
  | .snapshot => l.laneEv id
  | _ => 0

/-- Registering a reporter for a lane that already has a cell replaces the cell (a fresh reporter): its count goes
with the old one. Never happens in the write task (reporters are registered with the lane, at a fresh id). -/
def laneDropped (l : Links) (id : Nat) : LOp → Nat
  | .register id' => if id' = id then l.laneEv id else 0
  | _ => 0

theorem laneEv_congr {l l' : Links} (h : l'.lane = l.lane) (id : Nat) : l'.laneEv id = l.laneEv id := by
  unfold Links.laneEv; rw [h]

@[simp] theorem laneEv_setLaneLinks (l : Links) (id' n id : Nat) : (l.setLaneLinks id' n).laneEv id = l.laneEv id := by
  unfold Links.laneEv
  rw [setLaneLinks_lane]
  by_cases h : id' = id
  · subst h; simp
  · simp [h]

theorem laneEv_addLaneEvents (l : Links) (id' n id : Nat) :
    (l.addLaneEvents id' n).laneEv id = l.laneEv id + (if id' = id then n else 0) := by
  unfold Links.laneEv Links.addLaneEvents
  simp only [alGet_alSet]
  by_cases h : id' = id
  · subst h; simp
  · simp [h]

@[simp] theorem laneEv_setAgg (l : Links) (id : Nat) : l.setAgg.laneEv id = l.laneEv id :=
  laneEv_congr (setAgg_lane l) id

@[simp] theorem laneEv_updEntry (l : Links) (id' : Nat) (e : LaneLinks) (t id : Nat) :
    (l.updEntry id' e t).laneEv id = l.laneEv id := by
  unfold Links.updEntry
  simp only []
  split
  · rw [laneEv_setLaneLinks]; rfl
  · rfl

@[simp] theorem laneEv_addRemote (l : Links) (id' r id : Nat) : (l.addRemote id' r).laneEv id = l.laneEv id := by
  unfold Links.addRemote; split
  · rfl
  · simp

@[simp] theorem laneEv_removeFromLane (l : Links) (id' r id : Nat) : (l.removeFromLane id' r).laneEv id = l.laneEv id := by
  unfold Links.removeFromLane; split
  · rfl
  · split
    · simp
    · rfl

theorem laneEv_foldl_remove (lanes : List Nat) (r id : Nat) : ∀ l : Links,
    (lanes.foldl (fun acc id' => acc.removeFromLane id' r) l).laneEv id = l.laneEv id := by
  induction lanes with
  | nil => intro l; rfl
  | cons id' rest ih => intro l; simp only [List.foldl]; rw [ih]; simp

theorem laneEv_zeroFold (ps : List (Nat × LaneLinks)) (id : Nat) : ∀ acc : Links,
    (zeroFold ps acc).laneEv id = acc.laneEv id := by
  induction ps with
  | nil => intro acc; rfl
  | cons p rest ih =>
    intro acc
    simp only [zeroFold, List.foldl] at ih ⊢
    rw [ih]
    split
    · simp
    · rfl

theorem laneEv_map_zero (lane : List (Nat × Counters)) (id : Nat) :
    ((alGet (lane.map (fun (p : Nat × Counters) => (p.1, { p.2 with events := 0 }))) id).getD {}).events = 0 := by
  induction lane with
  | nil => rfl
  | cons p rest ih =>
    obtain ⟨k, v⟩ := p
    simp only [List.map_cons, alGet]
    by_cases hk : k = id
    · simp [hk]
    · simp only [hk, if_false]; exact ih

theorem laneEv_addEvents (l : Links) (id' : Nat) (b : Bool) (n id : Nat) :
    (l.addEvents id' b n).laneEv id = l.laneEv id + (if id' = id then (if b then n else 0) else 0) := by
  cases b with
  | false => simp [Links.addEvents, Links.laneEv]
  | true =>
    have : (l.addEvents id' true n).lane = (l.addLaneEvents id' n).lane := rfl
    rw [laneEv_congr this, laneEv_addLaneEvents]
    simp

theorem repCounts_false {l : Links} {id : Nat}
    (h : ∀ e, l.hasAgg = true → alGet l.forward id = some e → False) : l.repCounts id = false := by
  unfold Links.repCounts Links.hasRep
  cases ha : l.hasAgg with
  | false => rfl
  | true =>
    cases he : alGet l.forward id with
    | none => rfl
    | some e => exact absurd he (fun he => h e ha he)

theorem laneEv_countSingle (l : Links) (id' id : Nat) :
    (l.countSingle id').laneEv id = l.laneEv id + laneAdded l id (.countSingle id') := by
  unfold Links.countSingle laneAdded
  split
  · rename_i e ha he
    rw [laneEv_addEvents]
    by_cases h : id' = id
    · subst h; simp [Links.repCounts, Links.hasRep, ha, he]
    · simp [h]
  · rename_i hne
    by_cases h : id' = id
    · subst h; rw [repCounts_false (fun e ha he => hne e ha he)]; simp
    · simp [h]

theorem laneEv_countBroadcast (l : Links) (id' id : Nat) :
    (l.countBroadcast id').laneEv id = l.laneEv id + laneAdded l id (.countBroadcast id') := by
  unfold Links.countBroadcast laneAdded
  split
  · rename_i e ha he
    rw [laneEv_addEvents]
    by_cases h : id' = id
    · subst h; simp [Links.repCounts, Links.hasRep, Links.linkedFrom, ha, he]
    · simp [h]
  · rename_i hne
    by_cases h : id' = id
    · subst h; rw [repCounts_false (fun e ha he => hne e ha he)]; simp
    · simp [h]

theorem step_laneEvents (l : Links) (id : Nat) (op : LOp) :
    (lstep l op).laneEv id + laneRead l id op + laneDropped l id op = l.laneEv id + laneAdded l id op := by
  cases op with
  | register id' =>
    simp only [lstep, laneRead, laneDropped, laneAdded, Links.registerReporter, Links.laneEv, alGet_alSet]
    by_cases h : id' = id
    · subst h; simp
    · simp [h]
  | insert id' r =>
    have : (l.insert id' r).lane = ((l.addRemote id' r).setAgg).lane := rfl
    simp only [lstep, laneRead, laneDropped, laneAdded]
    rw [laneEv_congr this]; simp
  | remove id' r =>
    simp only [lstep, laneRead, laneDropped, laneAdded, Links.remove]
    have key : (l.removeCore id' r).laneEv id = l.laneEv id := by
      unfold Links.removeCore; split
      · simp
      · rfl
    split
    · split
      · show (l.removeCore id' r).laneEv id + 0 + 0 = _; omega
      · show (l.removeCore id' r).laneEv id + 0 + 0 = _; omega
    · omega
  | removeRemote r =>
    simp only [lstep, laneRead, laneDropped, laneAdded, Links.removeRemote, laneEv_setAgg, laneEv_foldl_remove]
    show l.laneEv id + 0 + 0 = l.laneEv id + 0
    omega
  | removeLane id' =>
    simp only [lstep, laneRead, laneDropped, laneAdded, Links.removeLane]
    split
    · rfl
    · rename_i e he
      have f := removeLane_fold_fields id' e.remotes (l.dropLane id' e, [])
      rw [laneEv_congr f.2.1]
      unfold Links.dropLane
      rw [laneEv_setAgg]
      split
      · rw [laneEv_setLaneLinks]; rfl
      · rfl
  | removeAll =>
    simp only [lstep, laneRead, laneDropped, laneAdded, Links.removeAllLinks, laneEv_zeroFold]
    unfold Links.removeAllBase
    split <;> rfl
  | countSingle id' =>
    have := laneEv_countSingle l id' id
    simp only [lstep, laneRead, laneDropped]
    omega
  | countBroadcast id' =>
    have := laneEv_countBroadcast l id' id
    simp only [lstep, laneRead, laneDropped]
    omega
  | snapshot =>
    simp only [lstep, laneRead, laneDropped, laneAdded, Links.snapshot]
    have : ({ l with agg := { l.agg with events := 0 },
                     lane := l.lane.map (fun (p : Nat × Counters) => (p.1, { p.2 with events := 0 })) } : Links).laneEv id
        = 0 := laneEv_map_zero l.lane id
    rw [this]; omega

def laneTotalAdded (id : Nat) : Links → List LOp → Nat
  | _, [] => 0
  | l, op :: rest => laneAdded l id op + laneTotalAdded id (lstep l op) rest

def laneTotalRead (id : Nat) : Links → List LOp → Nat
  | _, [] => 0
  | l, op :: rest => laneRead l id op + laneTotalRead id (lstep l op) rest

def laneTotalDropped (id : Nat) : Links → List LOp → Nat
  | _, [] => 0
  | l, op :: rest => laneDropped l id op + laneTotalDropped id (lstep l op) rest

theorem lane_counts_conserved (id : Nat) : ∀ (ops : List LOp) (l : Links),
    laneTotalRead id l ops + laneTotalDropped id l ops + (lrun l ops).laneEv id
      = l.laneEv id + laneTotalAdded id l ops := by
  intro ops
  induction ops with
  | nil => intro l; simp [laneTotalRead, laneTotalDropped, laneTotalAdded, lrun]
  | cons op rest ih =>
    intro l
    simp only [laneTotalRead, laneTotalDropped, laneTotalAdded, lrun, List.foldl]
    have h1 := ih (lstep l op)
    have h2 := step_laneEvents l id op
    simp only [lrun] at h1
    omega

end SwimVerif.WT
