/-
C09, structural part: the reference parser reads back what the compact printer writes (`parse ∘ print`),
for the fragment `Value.wf`.  Strong induction on the size of the value; fuel is bounded by `6 * size`.
-/
import SwimVerif.Proofs.ReconFloat

set_option linter.unusedSimpArgs false
set_option linter.unusedVariables false
namespace SwimVerif.Recon
open SwimVerif.Generated.Recon

/-! ## the fragment -/

mutual
def Value.size : Value → Nat
  | .record a i => 1 + a.size + i.size
  | _ => 1
def Attrs.size : Attrs → Nat
  | .nil => 0
  | .cons _ v r => 2 + v.size + r.size
def Items.size : Items → Nat
  | .nil => 0
  | .val v r => 1 + v.size + r.size
  | .slot k v r => 1 + k.size + v.size + r.size
end

/-- The items are exactly `[Extant]`. -/
def Items.isSoleExtant : Items → Bool
  | .val .extant .nil => true
  | _ => false

/-- The items are exactly one value item and it is a primitive (not `Extant`, not a record). -/
def Items.isSolePrim : Items → Bool
  | .val w .nil => w.isPrim
  | _ => false

/-- A record with attributes and exactly one slot (as an attribute's value: finding C09-N2). -/
def isAttrSoleSlot : Value → Bool
  | .record (.cons _ _ _) (.slot _ _ .nil) => true
  | _ => false

/-- A record with attributes and no items (as a slot key: finding C09-N3). -/
def isBareAttr : Value → Bool
  | .record (.cons _ _ _) .nil => true
  | _ => false

mutual
/-- The fragment on which print-then-parse is the identity (up to integer kinds) for the code as it is:
* floats are finite, as canonical shortest decimals (`Flt.isCanon`; f64 ↔ text itself is outside the model),
* blob bytes are bytes,
* a record with attributes and exactly one value item has a primitive there (finding C09-N1, not repaired); no record
  is `[Extant]` (the parser never produces one).
Attribute names are arbitrary (F7 repaired), as are attribute values (C09-N2 repaired) and slot keys (C09-N3 repaired). -/
def Value.wf : Value → Bool
  | .float f => f.isCanon
  | .data bs => bs.all (· < 256)
  | .record a i => a.wf && i.wf && !i.isSoleExtant && (a.isEmpty || !i.isSoleVal || i.isSolePrim)
  | _ => true
def Attrs.wf : Attrs → Bool
  | .nil => true
  | .cons _ v r => v.wf && r.wf
def Items.wf : Items → Bool
  | .nil => true
  | .val v r => v.wf && r.wf
  | .slot k v r => k.wf && v.wf && r.wf
end

theorem attrName_ident {n : List Char} (h : isIdentifier n = true) : attrName n = n := by
  simp [attrName, stringLiteral, h]


/-! ## first characters, primitives -/


/-- First characters of the text of a value that is not `Extant`. -/
def okStart (c : Char) : Bool :=
  c == '"' || isIdentStart c || isDigit c || c == '-' || c == '%' || c == '@' || c == '{' || c == '+' || c == '.'

/-- First characters of a primitive token. -/
def primStart (c : Char) : Bool :=
  c == '"' || isIdentStart c || isDigit c || c == '-' || c == '%' || c == '+' || c == '.'

theorem okStart_of_prim {c : Char} (h : primStart c = true) : okStart c = true := by
  simp only [primStart, okStart, Bool.or_eq_true] at h ⊢
  rcases h with (((((h | h) | h) | h) | h) | h) | h <;> simp [h]

theorem okStart_ne {c : Char} (h : okStart c = true) (x : Char) (hx : okStart x = false) : c ≠ x := by
  intro he; subst he; rw [h] at hx; cases hx

theorem primStart_ne {c : Char} (h : primStart c = true) (x : Char) (hx : primStart x = false) : c ≠ x := by
  intro he; subst he; rw [h] at hx; cases hx

theorem natChars_head (m : Nat) : ∃ d ds, natChars m = d :: ds ∧ isDigit d = true := by
  cases hn : natChars m with
  | nil => exact absurd hn (natChars_ne_nil m)
  | cons d ds => exact ⟨d, ds, rfl, natChars_digits m d (by simp [hn])⟩

/-- The text of a primitive (not `Extant`) starts with a token-start character. -/
theorem head_prim (i : Nat) {v : Value} (hp : v.isPrim = true) (hw : v.wf = true) :
    ∃ c t, printV .compact i v = c :: t ∧ primStart c = true := by
  cases v with
  | extant => simp [Value.isPrim] at hp
  | record a its => simp [Value.isPrim] at hp
  | float f =>
    cases f with
    | nan => simp [Value.wf, Flt.isCanon] at hw
    | inf b => simp [Value.wf, Flt.isCanon] at hw
    | fin neg m e =>
      have hl := lexPrim_ryuChars neg m e (Flt.canon_cases (by simpa [Value.wf] using hw)) TokEnd.nil
      rw [List.append_nil] at hl
      simp only [printV]
      cases hr : ryuChars (.fin neg m e) with
      | nil => rw [hr] at hl; simp [lexPrim] at hl
      | cons c t =>
        rw [hr] at hl
        refine ⟨c, t, rfl, ?_⟩
        rcases lexPrim_head hl with h | h | h | h | h | h | h <;> simp [primStart, h]
  | int k n =>
    cases n with
    | ofNat m =>
      obtain ⟨d, ds, hd, hdd⟩ := natChars_head m
      exact ⟨d, ds, by simp [printV, intChars, hd], by simp [primStart, hdd]⟩
    | negSucc m => exact ⟨'-', natChars (m + 1), by simp [printV, intChars], by decide⟩
  | bool b => cases b <;> simp [printV] <;> decide
  | text s =>
    cases hs : isIdentifier s
    · rw [show printV .compact i (.text s) = stringLiteral s from by simp [printV], stringLiteral_quoted hs]
      exact ⟨'"', _, rfl, by decide⟩
    · obtain ⟨hl, _⟩ := (quote_decision_agrees s).mp hs
      obtain ⟨c, r, rfl, hc, _⟩ := (lexIdent_eq_self_iff s).mp hl
      exact ⟨c, r, by simp [printV, stringLiteral, hs], by simp [primStart, hc]⟩
  | data bs => exact ⟨'%', b64Encode bs, by simp [printV], by decide⟩

/-- The text of any value other than `Extant` in the fragment starts with a value-start character. -/
theorem lexPrim_value (i : Nat) {v : Value} (hp : v.isPrim = true) (hw : v.wf = true) {rest : List Char}
    (hd : TokEnd rest) : lexPrim (printV .compact i v ++ rest) = some (.ok (v.norm, rest)) := by
  cases v with
  | extant => simp [Value.isPrim] at hp
  | record a its => simp [Value.isPrim] at hp
  | float f =>
    cases f with
    | nan => simp [Value.wf, Flt.isCanon] at hw
    | inf b => simp [Value.wf, Flt.isCanon] at hw
    | fin neg m e =>
      simpa [printV, Value.norm] using lexPrim_ryuChars neg m e (Flt.canon_cases (by simpa [Value.wf] using hw)) hd
  | int k n => simpa [printV, Value.norm] using lexPrim_int n hd
  | bool b => simpa [printV, Value.norm] using lexPrim_bool b hd
  | text s => simpa [printV, Value.norm] using lexPrim_text s hd
  | data bs =>
    have hb : ∀ b ∈ bs, b < 256 := by simpa [Value.wf] using hw
    simpa [printV, Value.norm] using lexPrim_data bs hb hd


/-! ## attribute bodies -/


/-- The items whose `attrBody` is `w` and which the attribute printer writes between the parentheses. -/
def bodyItems (w : Value) : Items :=
  match w with
  | .record .nil its => if its.length = 0 ∨ its.isSoleVal = true then .val w .nil else its
  | _ => .val w .nil

theorem Items.norm_length : (its : Items) → its.norm.length = its.length
  | .nil => rfl
  | .val v r => by simp [Items.norm, Items.length, Items.norm_length r]
  | .slot k v r => by simp [Items.norm, Items.length, Items.norm_length r]

theorem Items.norm_isSoleVal (its : Items) : its.norm.isSoleVal = its.isSoleVal := by
  cases its with
  | nil => rfl
  | val v r => cases r <;> simp [Items.norm, Items.isSoleVal]
  | slot k v r => cases r <;> simp [Items.norm, Items.isSoleVal]

theorem attrBody_of_not_sole {its : Items} (h0 : its.length ≠ 0) (h1 : its.isSoleVal = false) :
    attrBody its = .record .nil its := by
  cases its with
  | nil => simp [Items.length] at h0
  | val v r =>
    cases r with
    | nil => simp [Items.isSoleVal] at h1
    | val _ _ => rfl
    | slot _ _ _ => rfl
  | slot k v r => rfl

theorem attrBody_bodyItems (w : Value) : attrBody (bodyItems w).norm = w.norm := by
  unfold bodyItems
  split
  · rename_i its
    split
    · simp [Items.norm, attrBody]
    · rename_i h
      have h0 : its.length ≠ 0 := fun h' => h (Or.inl h')
      have h1 : its.isSoleVal = false := by
        cases hs : its.isSoleVal
        · rfl
        · exact absurd (Or.inr hs) h
      rw [attrBody_of_not_sole (by rw [Items.norm_length]; exact h0) (by rw [Items.norm_isSoleVal]; exact h1)]
      simp [Value.norm, Attrs.norm]
  · simp [Items.norm, attrBody]

theorem bodyItems_size (w : Value) : (bodyItems w).size ≤ w.size + 1 := by
  unfold bodyItems
  split
  · split
    · simp [Items.size]; omega
    · simp [Value.size, Attrs.size]; omega
  · simp [Items.size]; omega

theorem bodyItems_wf {w : Value} (hw : w.wf = true) : (bodyItems w).wf = true := by
  unfold bodyItems
  split
  · split
    · simp [Items.wf, hw]
    · simp only [Value.wf, Bool.and_eq_true] at hw
      exact hw.1.1.2
  · simp [Items.wf, hw]

theorem bodyItems_notSoleExtant {w : Value} (hne : w ≠ .extant) : (bodyItems w).isSoleExtant = false := by
  unfold bodyItems
  split
  · rename_i its
    split
    · simp [Items.isSoleExtant]
    · rename_i h
      cases its with
      | nil => simp [Items.length] at h
      | val v r =>
        cases r with
        | nil => simp [Items.isSoleVal] at h
        | val _ _ => cases v <;> rfl
        | slot _ _ _ => cases v <;> rfl
      | slot k v r => rfl
  · cases w <;> first | exact absurd rfl hne | rfl

/-! ## character facts -/


theorem close_cases (k : Kind) : k.close = ')' ∨ k.close = '}' := by cases k <;> simp [Kind.close]

theorem skipMulti_cons {c : Char} (h : isMulti c = false) (t : List Char) : skipMulti (c :: t) = c :: t := by
  simp [skipMulti, List.dropWhile, h]

theorem skipSpaces_cons {c : Char} (h : isSpace c = false) (t : List Char) : skipSpaces (c :: t) = c :: t := by
  simp [skipSpaces, List.dropWhile, h]

theorem close_not_multi (k : Kind) : isMulti k.close = false := by cases k <;> decide
theorem close_not_space (k : Kind) : isSpace k.close = false := by cases k <;> decide
theorem comma_ne_close (k : Kind) : (',' : Char) ≠ k.close := by cases k <;> decide
theorem colon_ne_close (k : Kind) : (':' : Char) ≠ k.close := by cases k <;> decide

theorem okStart_facts {c : Char} (h : okStart c = true) (k : Kind) :
    isMulti c = false ∧ isSpace c = false ∧ c ≠ k.close ∧ isSep c = false ∧ c ≠ ':' ∧
      (∀ t, lineEnding? (c :: t) = none) := by
  have n1 := okStart_ne h ' ' (by decide)
  have n2 := okStart_ne h '\t' (by decide)
  have n3 := okStart_ne h '\r' (by decide)
  have n4 := okStart_ne h '\n' (by decide)
  have n5 := okStart_ne h ')' (by decide)
  have n6 := okStart_ne h '}' (by decide)
  have n7 := okStart_ne h ',' (by decide)
  have n8 := okStart_ne h ';' (by decide)
  have n9 := okStart_ne h ':' (by decide)
  refine ⟨by simp [isMulti, n1, n2, n3, n4], by simp [isSpace, n1, n2], ?_, ?_, n9, ?_⟩
  · cases k <;> simp [Kind.close, n5, n6]
  · have hs : separators = [44, 59] := by decide
    simp only [isSep, hs, List.contains_cons, List.contains_nil, Bool.or_false, Bool.or_eq_false_iff, beq_eq_false_iff_ne]
    constructor
    · intro hh; apply n7; rw [← Char.ofNat_toNat c, hh]
    · intro hh; apply n8; rw [← Char.ofNat_toNat c, hh]
  · intro t
    unfold lineEnding?
    split
    · rename_i heq; simp only [List.cons.injEq] at heq; exact absurd heq.1 n4
    · rename_i heq; simp only [List.cons.injEq] at heq; exact absurd heq.1 n3
    · rfl


theorem sep_comma : isSep ',' = true := by decide
theorem comma_not_space : isSpace ',' = false := by decide
theorem comma_not_multi : isMulti ',' = false := by decide

theorem pItems_close (f : Nat) (k : Kind) (req : Bool) (rest : List Char) :
    pItems (f + 1) k req (k.close :: rest) = .ok (if req then .val .extant .nil else .nil, rest) := by
  rw [pItems]
  simp only [skipMulti_cons (close_not_multi k), ↓reduceIte]

theorem colon_facts (k : Kind) : isMulti ':' = false ∧ isSpace ':' = false ∧ isSep ':' = false := by decide

/-- The value part of a slot and whatever follows it. -/
theorem Attrs.append_cons_assoc (a : List Char) (b : Value) (r : Attrs) :
    (acc : Attrs) → (acc.append (.cons a b .nil)).append r = acc.append (.cons a b r)
  | .nil => by simp [Attrs.append]
  | .cons n v t => by simp [Attrs.append, Attrs.append_cons_assoc a b r t]

theorem at_facts : isSpace '@' = false ∧ isIdentChar '@' = false ∧ isIdentChar '(' = false := by decide

section
variable {f : Nat} {acc : Attrs} {c : Char} {t nm : List Char} (hq : c ≠ '"')
include hq

theorem pAttrs_ident_end (hlex : lexIdent (c :: t) = some (nm, [])) :
    pAttrs (f + 1) acc (c :: t) = .ok (.record (acc.append (.cons nm .extant .nil)) .nil, []) := by
  rw [pAttrs]
  · simp [hlex]
  · intro r1 h; simp only [List.cons.injEq] at h; exact hq h.1

theorem pAttrs_ident_body {r' rest : List Char} {its : Items} (hlex : lexIdent (c :: t) = some (nm, '(' :: r'))
    (hb : pItems f .ab false r' = .ok (its, rest)) :
    pAttrs (f + 1) acc (c :: t) = pAfterAttr f (acc.append (.cons nm (attrBody its) .nil)) rest := by
  rw [pAttrs]
  · simp [hlex, hb]
  · intro r1 h; simp only [List.cons.injEq] at h; exact hq h.1

theorem pAttrs_ident_nobody {x : Char} {xs : List Char} (hlex : lexIdent (c :: t) = some (nm, x :: xs))
    (hx : x ≠ '(') :
    pAttrs (f + 1) acc (c :: t) = pAfterAttr f (acc.append (.cons nm .extant .nil)) (x :: xs) := by
  rw [pAttrs]
  · simp only [hlex]
    split
    · rename_i heq; cases heq
    · rename_i heq; simp only [List.cons.injEq] at heq; exact absurd heq.1 hx
    · rfl
  · intro r1 h; simp only [List.cons.injEq] at h; exact hq h.1
end

theorem pElem_at (f : Nat) (r : List Char) : pElem (f + 1) ('@' :: r) = pAttrs f .nil r := by
  rw [pElem]

theorem pElem_brace {f : Nat} {r rest : List Char} {its : Items} (hb : pItems f .rb false r = .ok (its, rest)) :
    pElem (f + 1) ('{' :: r) = .ok (.record .nil its, rest) := by
  rw [pElem]; simp [hb]

theorem pElem_prim {f : Nat} {c : Char} {t : List Char} {r : Res (Value × List Char)} (h1 : c ≠ '@') (h2 : c ≠ '{')
    (hl : lexPrim (c :: t) = some r) : pElem (f + 1) (c :: t) = r := by
  rw [pElem]
  · simp [hl]
  · intro r1 h; simp only [List.cons.injEq] at h; exact h1 h.1
  · intro r1 h; simp only [List.cons.injEq] at h; exact h2 h.1

theorem pAfterAttr_brace {g : Nat} {A : Attrs} {r rest : List Char} {its : Items}
    (hb : pItems g .rb false r = .ok (its, rest)) :
    pAfterAttr (g + 1) A ('{' :: r) = .ok (.record A its, rest) := by
  rw [pAfterAttr]
  simp [skipSpaces_cons (show isSpace '{' = false by decide), hb]

theorem pAfterAttr_prim {g : Nat} {A : Attrs} {c : Char} {t rest : List Char} {w : Value}
    (hp : primStart c = true) (hl : lexPrim (c :: t) = some (.ok (w, rest))) :
    pAfterAttr (g + 1) A (' ' :: c :: t) = .ok (.record A (.val w .nil), rest) := by
  have h1 := primStart_ne hp '@' (by decide)
  have h2 := primStart_ne hp '{' (by decide)
  have h3 := primStart_ne hp ' ' (by decide)
  have h4 := primStart_ne hp '\t' (by decide)
  have hs : skipSpaces (' ' :: c :: t) = c :: t := by
    simp [skipSpaces, List.dropWhile, isSpace, h3, h4]
  rw [pAfterAttr]
  simp only [hs]
  split
  · rename_i heq; simp only [List.cons.injEq] at heq; exact absurd heq.1 h1
  · rename_i heq; simp only [List.cons.injEq] at heq; exact absurd heq.1 h2
  · simp [hl]

/-! ## fixed point -/


mutual
theorem Value.norm_norm : (v : Value) → v.norm.norm = v.norm
  | .extant => rfl
  | .int k n => by simp [Value.norm]
  | .float f => rfl
  | .bool b => rfl
  | .text s => rfl
  | .data bs => rfl
  | .record a i => by simp [Value.norm, Attrs.norm_norm a, Items.norm_norm i]
theorem Attrs.norm_norm : (a : Attrs) → a.norm.norm = a.norm
  | .nil => rfl
  | .cons n v r => by simp [Attrs.norm, Value.norm_norm v, Attrs.norm_norm r]
theorem Items.norm_norm : (i : Items) → i.norm.norm = i.norm
  | .nil => rfl
  | .val v r => by simp [Items.norm, Value.norm_norm v, Items.norm_norm r]
  | .slot k v r => by simp [Items.norm, Value.norm_norm k, Value.norm_norm v, Items.norm_norm r]
end

theorem Value.norm_isPrim (v : Value) : v.norm.isPrim = v.isPrim := by cases v <;> rfl
theorem Value.norm_extant_iff (v : Value) : v.norm = .extant ↔ v = .extant := by cases v <;> simp [Value.norm]
theorem Attrs.norm_isEmpty (a : Attrs) : a.norm.isEmpty = a.isEmpty := by cases a <;> rfl

theorem Items.norm_isSoleExtant (i : Items) : i.norm.isSoleExtant = i.isSoleExtant := by
  cases i with
  | nil => rfl
  | slot k v r => rfl
  | val v r => cases r <;> cases v <;> rfl

theorem Items.norm_isSolePrim (i : Items) : i.norm.isSolePrim = i.isSolePrim := by
  cases i with
  | nil => rfl
  | slot k v r => rfl
  | val v r => cases r <;> simp [Items.norm, Items.isSolePrim, Value.norm_isPrim]

theorem norm_isAttrSoleSlot (v : Value) : isAttrSoleSlot v.norm = isAttrSoleSlot v := by
  cases v with
  | record a i =>
    cases a with
    | nil => rfl
    | cons n w r =>
      cases i with
      | nil => rfl
      | val _ _ => rfl
      | slot k x t => cases t <;> rfl
  | _ => rfl

theorem norm_isBareAttr (v : Value) : isBareAttr v.norm = isBareAttr v := by
  cases v with
  | record a i => cases a <;> cases i <;> rfl
  | _ => rfl

mutual
theorem Value.wf_norm : (v : Value) → v.norm.wf = v.wf
  | .extant => rfl
  | .int k n => rfl
  | .float f => rfl
  | .bool b => rfl
  | .text s => rfl
  | .data bs => rfl
  | .record a i => by
    simp [Value.norm, Value.wf, Attrs.wf_norm a, Items.wf_norm i, Items.norm_isSoleExtant, Attrs.norm_isEmpty,
      Items.norm_isSoleVal, Items.norm_isSolePrim]
theorem Attrs.wf_norm : (a : Attrs) → a.norm.wf = a.wf
  | .nil => rfl
  | .cons n v r => by simp [Attrs.norm, Attrs.wf, Value.wf_norm v, Attrs.wf_norm r, norm_isAttrSoleSlot]
theorem Items.wf_norm : (i : Items) → i.norm.wf = i.wf
  | .nil => rfl
  | .val v r => by simp [Items.norm, Items.wf, Value.wf_norm v, Items.wf_norm r]
  | .slot k v r => by
    simp [Items.norm, Items.wf, Value.wf_norm k, Value.wf_norm v, Items.wf_norm r, norm_isBareAttr]
end

mutual
theorem Value.size_norm : (v : Value) → v.norm.size = v.size
  | .extant => rfl
  | .int k n => rfl
  | .float f => rfl
  | .bool b => rfl
  | .text s => rfl
  | .data bs => rfl
  | .record a i => by simp [Value.norm, Value.size, Attrs.size_norm a, Items.size_norm i]
theorem Attrs.size_norm : (a : Attrs) → a.norm.size = a.size
  | .nil => rfl
  | .cons n v r => by simp [Attrs.norm, Attrs.size, Value.size_norm v, Attrs.size_norm r]
theorem Items.size_norm : (i : Items) → i.norm.size = i.size
  | .nil => rfl
  | .val v r => by simp [Items.norm, Items.size, Value.size_norm v, Items.size_norm r]
  | .slot k v r => by simp [Items.norm, Items.size, Value.size_norm k, Value.size_norm v, Items.size_norm r]
end

/-! ## the built-in fuel of `parse` is enough -/


/-- Length of the compact text. -/
abbrev len (l : List Char) : Nat := l.length

theorem ident_length_pos {n : List Char} (h : isIdentifier n = true) : 1 ≤ n.length := by
  obtain ⟨hl, _⟩ := (quote_decision_agrees n).mp h
  obtain ⟨c, r, rfl, _, _⟩ := (lexIdent_eq_self_iff n).mp hl
  simp

theorem Items.length_zero_iff (its : Items) : its.length = 0 ↔ its = .nil := by
  cases its <;> simp [Items.length]

/-! ## attribute names, bare or quoted -/


theorem attrName_eq (n : List Char) : attrName n = stringLiteral n := by
  simp [attrName, show attrNamesRaw = false by decide]

section
variable {f : Nat} {acc : Attrs} {t nm : List Char}

theorem pAttrs_quoted_end (hlex : lexString ('"' :: t) = .ok (nm, [])) :
    pAttrs (f + 1) acc ('"' :: t) = .ok (.record (acc.append (.cons nm .extant .nil)) .nil, []) := by
  rw [pAttrs]
  simp [hlex, Res.map, show finalAttrNameQuoted = true by decide]

theorem pAttrs_quoted_body {r' rest : List Char} {its : Items} (hlex : lexString ('"' :: t) = .ok (nm, '(' :: r'))
    (hb : pItems f .ab false r' = .ok (its, rest)) :
    pAttrs (f + 1) acc ('"' :: t) = pAfterAttr f (acc.append (.cons nm (attrBody its) .nil)) rest := by
  rw [pAttrs]
  simp [hlex, Res.map, hb]

theorem pAttrs_quoted_nobody {x : Char} {xs : List Char} (hlex : lexString ('"' :: t) = .ok (nm, x :: xs))
    (hx : x ≠ '(') :
    pAttrs (f + 1) acc ('"' :: t) = pAfterAttr f (acc.append (.cons nm .extant .nil)) (x :: xs) := by
  rw [pAttrs]
  simp only [hlex, Res.map]
  split
  · rename_i heq; cases heq
  · rename_i heq; simp only [List.cons.injEq] at heq; exact absurd heq.1 hx
  · rfl
end

/-- The three ways an attribute name (bare or quoted, as `attrName` writes it) is followed. -/
theorem pAttrs_name_end (f : Nat) (acc : Attrs) (nm : List Char) :
    pAttrs (f + 1) acc (attrName nm) = .ok (.record (acc.append (.cons nm .extant .nil)) .nil, []) := by
  rw [attrName_eq]
  cases h : isIdentifier nm
  · rw [stringLiteral_quoted h]
    exact pAttrs_quoted_end (by simpa using lexString_escape nm [])
  · obtain ⟨hl, _⟩ := (quote_decision_agrees nm).mp h
    obtain ⟨c, cs, rfl, hc, _⟩ := (lexIdent_eq_self_iff nm).mp hl
    have hq : c ≠ '"' := by intro h'; subst h'; simp [quote_not_identStart] at hc
    have : stringLiteral (c :: cs) = c :: cs := by simp [stringLiteral, h]
    rw [this]
    exact pAttrs_ident_end hq hl

theorem pAttrs_name_body (f : Nat) (acc : Attrs) (nm : List Char) {r' rest : List Char} {its : Items}
    (hb : pItems f .ab false r' = .ok (its, rest)) :
    pAttrs (f + 1) acc (attrName nm ++ '(' :: r') = pAfterAttr f (acc.append (.cons nm (attrBody its) .nil)) rest := by
  rw [attrName_eq]
  cases h : isIdentifier nm
  · rw [stringLiteral_quoted h]
    simp only [List.cons_append, List.append_assoc, List.nil_append]
    exact pAttrs_quoted_body (lexString_escape nm _) hb
  · obtain ⟨hl, _⟩ := (quote_decision_agrees nm).mp h
    obtain ⟨c, cs, rfl, hc, _⟩ := (lexIdent_eq_self_iff nm).mp hl
    have hq : c ≠ '"' := by intro h'; subst h'; simp [quote_not_identStart] at hc
    have : stringLiteral (c :: cs) = c :: cs := by simp [stringLiteral, h]
    rw [this]
    have hlex := lexIdent_append hl (rest := '(' :: r') (by intro x hx; simp at hx; subst hx; decide)
    simp only [List.cons_append] at hlex ⊢
    exact pAttrs_ident_body hq hlex hb

theorem pAttrs_name_nobody (f : Nat) (acc : Attrs) (nm : List Char) {x : Char} {xs : List Char} (hx : x ≠ '(')
    (hstop : isIdentChar x = false) :
    pAttrs (f + 1) acc (attrName nm ++ x :: xs) = pAfterAttr f (acc.append (.cons nm .extant .nil)) (x :: xs) := by
  rw [attrName_eq]
  cases h : isIdentifier nm
  · rw [stringLiteral_quoted h]
    simp only [List.cons_append, List.append_assoc, List.nil_append]
    exact pAttrs_quoted_nobody (lexString_escape nm _) hx
  · obtain ⟨hl, _⟩ := (quote_decision_agrees nm).mp h
    obtain ⟨c, cs, rfl, hc, _⟩ := (lexIdent_eq_self_iff nm).mp hl
    have hq : c ≠ '"' := by intro h'; subst h'; simp [quote_not_identStart] at hc
    have : stringLiteral (c :: cs) = c :: cs := by simp [stringLiteral, h]
    rw [this]
    have hlex := lexIdent_append hl (rest := x :: xs) (by intro y hy; simp at hy; subst hy; exact hstop)
    simp only [List.cons_append] at hlex ⊢
    exact pAttrs_ident_nobody hq hlex hx

theorem attrName_length_pos (nm : List Char) : 1 ≤ (attrName nm).length := by
  rw [attrName_eq]
  cases h : isIdentifier nm
  · rw [stringLiteral_quoted h]; simp
  · have : stringLiteral nm = nm := by simp [stringLiteral, h]
    rw [this]; exact ident_length_pos h


end SwimVerif.Recon
