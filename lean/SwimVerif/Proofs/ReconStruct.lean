/-
C09, structural part: the reference parser reads back what the compact printer writes (`parse ∘ print`),
for the fragment `Value.wf`.  Strong induction on the size of the value; fuel is bounded by `6 * size`.
-/
import SwimVerif.Proofs.Recon

set_option linter.unusedSimpArgs false
set_option linter.unusedVariables false
namespace SwimVerif.Recon
open SwimVerif.Generated.Recon

/-! ## the fragment -/

mutual
def Value.size : Value → Nat
  | .record a i => 1 + a.size + i.size
  | _ => 1
def Attrs.size : Attrs → Nat
  | .nil => 0
  | .cons _ v r => 2 + v.size + r.size
def Items.size : Items → Nat
  | .nil => 0
  | .val v r => 1 + v.size + r.size
  | .slot k v r => 1 + k.size + v.size + r.size
end

/-- The items are exactly `[Extant]`. -/
def Items.isSoleExtant : Items → Bool
  | .val .extant .nil => true
  | _ => false

/-- The items are exactly one value item and it is a primitive (not `Extant`, not a record). -/
def Items.isSolePrim : Items → Bool
  | .val w .nil => w.isPrim
  | _ => false

/-- A record with attributes and exactly one slot (as an attribute's value: finding C09-N2). -/
def isAttrSoleSlot : Value → Bool
  | .record (.cons _ _ _) (.slot _ _ .nil) => true
  | _ => false

/-- A record with attributes and no items (as a slot key: finding C09-N3). -/
def isBareAttr : Value → Bool
  | .record (.cons _ _ _) .nil => true
  | _ => false

mutual
/-- The fragment on which print-then-parse is the identity (up to integer kinds) for the code as it is:
* no floats (f64 ↔ text is outside the model — open),
* blob bytes are bytes,
* attribute names are identifiers (F7),
* a record with attributes and exactly one value item has a primitive there (C09-N1); no record is `[Extant]`,
* an attribute's value is not a record with attributes and exactly one slot (C09-N2),
* a slot key is not a record with attributes and no items (C09-N3). -/
def Value.wf : Value → Bool
  | .float _ => false
  | .data bs => bs.all (· < 256)
  | .record a i => a.wf && i.wf && !i.isSoleExtant && (a.isEmpty || !i.isSoleVal || i.isSolePrim)
  | _ => true
def Attrs.wf : Attrs → Bool
  | .nil => true
  | .cons n v r => isIdentifier n && v.wf && !isAttrSoleSlot v && r.wf
def Items.wf : Items → Bool
  | .nil => true
  | .val v r => v.wf && r.wf
  | .slot k v r => k.wf && !isBareAttr k && v.wf && r.wf
end

/-! ## the compact layout -/

@[simp] theorem pad_compact : pad .compact = [] := rfl
@[simp] theorem startBlock_compact (i n : Nat) : startBlock .compact i n = [] := by simp [startBlock]
@[simp] theorem endBlock_compact (i : Nat) : endBlock .compact i = [] := rfl
@[simp] theorem itemPad_compact (i : Nat) (b : Bool) : itemPad .compact i b = [] := rfl
@[simp] theorem inner_compact (i n : Nat) : inner .compact i n = i := rfl

/-- In the compact layout the `brace_written` flag does not matter. -/
theorem printItems_br (j i : Nat) (f br : Bool) :
    (its : Items) → printItems .compact j i f br its = printItems .compact j i f true its
  | .nil => by simp [printItems]
  | .val v r => by simp [printItems, printItems_br j i false br r]
  | .slot k v r => by simp [printItems, printItems_br j i false br r]

/-- Items after the first one start with a comma. -/
theorem printItems_notFirst (j i : Nat) (its : Items) :
    printItems .compact j i false true its =
      (match its with | .nil => [] | _ => ',' :: printItems .compact j i true true its) := by
  cases its <;> simp [printItems]

theorem printV_record_nil (i : Nat) (its : Items) :
    printV .compact i (.record .nil its) = '{' :: (printItems .compact i i true true its ++ ['}']) := by
  simp [printV, Attrs.isEmpty]

theorem printAttrs_cons (i : Nat) (n : List Char) (v : Value) (r : Attrs) :
    printAttrs .compact i (.cons n v r) = '@' :: (attrName n ++ printA .compact i v ++ printAttrs .compact i r) := by
  cases r <;> simp [printAttrs, Attrs.isEmpty]

theorem printV_record_cons (i : Nat) (n : List Char) (v : Value) (r : Attrs) (its : Items) :
    printV .compact i (.record (.cons n v r) its) =
      printAttrs .compact i (.cons n v r) ++
        (if its.length = 0 then [] else if its.isSoleVal = true then ' ' :: printItems .compact i i true true its
         else '{' :: (printItems .compact i i true true its ++ ['}'])) := by
  simp [printV, Attrs.isEmpty, printItems_br i i true false]

theorem attrName_ident {n : List Char} (h : isIdentifier n = true) : attrName n = n := by
  simp [attrName, stringLiteral, h]


/-! ## first characters, primitives -/


/-- First characters of the text of a value that is not `Extant`. -/
def okStart (c : Char) : Bool :=
  c == '"' || isIdentStart c || isDigit c || c == '-' || c == '%' || c == '@' || c == '{'

/-- First characters of a primitive token. -/
def primStart (c : Char) : Bool := c == '"' || isIdentStart c || isDigit c || c == '-' || c == '%'

theorem okStart_of_prim {c : Char} (h : primStart c = true) : okStart c = true := by
  simp only [primStart, okStart, Bool.or_eq_true] at h ⊢
  rcases h with (((h | h) | h) | h) | h <;> simp [h]

theorem okStart_ne {c : Char} (h : okStart c = true) (x : Char) (hx : okStart x = false) : c ≠ x := by
  intro he; subst he; rw [h] at hx; cases hx

theorem primStart_ne {c : Char} (h : primStart c = true) (x : Char) (hx : primStart x = false) : c ≠ x := by
  intro he; subst he; rw [h] at hx; cases hx

theorem natChars_head (m : Nat) : ∃ d ds, natChars m = d :: ds ∧ isDigit d = true := by
  cases hn : natChars m with
  | nil => exact absurd hn (natChars_ne_nil m)
  | cons d ds => exact ⟨d, ds, rfl, natChars_digits m d (by simp [hn])⟩

/-- The text of a primitive (not `Extant`) starts with a token-start character. -/
theorem head_prim (i : Nat) {v : Value} (hp : v.isPrim = true) (hf : ∀ f, v ≠ .float f) :
    ∃ c t, printV .compact i v = c :: t ∧ primStart c = true := by
  cases v with
  | extant => simp [Value.isPrim] at hp
  | record a its => simp [Value.isPrim] at hp
  | float f => exact absurd rfl (hf f)
  | int k n =>
    cases n with
    | ofNat m =>
      obtain ⟨d, ds, hd, hdd⟩ := natChars_head m
      exact ⟨d, ds, by simp [printV, intChars, hd], by simp [primStart, hdd]⟩
    | negSucc m => exact ⟨'-', natChars (m + 1), by simp [printV, intChars], by decide⟩
  | bool b => cases b <;> simp [printV] <;> decide
  | text s =>
    cases hs : isIdentifier s
    · rw [show printV .compact i (.text s) = stringLiteral s from by simp [printV], stringLiteral_quoted hs]
      exact ⟨'"', _, rfl, by decide⟩
    · obtain ⟨hl, _⟩ := (quote_decision_agrees s).mp hs
      obtain ⟨c, r, rfl, hc, _⟩ := (lexIdent_eq_self_iff s).mp hl
      exact ⟨c, r, by simp [printV, stringLiteral, hs], by simp [primStart, hc]⟩
  | data bs => exact ⟨'%', b64Encode bs, by simp [printV], by decide⟩

/-- The text of any value other than `Extant` in the fragment starts with a value-start character. -/
theorem head_value (i : Nat) {v : Value} (hw : v.wf = true) (hne : v ≠ .extant) :
    ∃ c t, printV .compact i v = c :: t ∧ okStart c = true := by
  cases v with
  | extant => exact absurd rfl hne
  | float f => simp [Value.wf] at hw
  | record a its =>
    cases a with
    | nil => exact ⟨'{', _, printV_record_nil i its, by decide⟩
    | cons n w r =>
      rw [printV_record_cons, printAttrs_cons]
      exact ⟨'@', _, List.cons_append .., by decide⟩
  | int k n =>
    obtain ⟨c, t, h, hc⟩ := head_prim i (v := .int k n) rfl (by intro f h; cases h)
    exact ⟨c, t, h, okStart_of_prim hc⟩
  | bool b =>
    obtain ⟨c, t, h, hc⟩ := head_prim i (v := .bool b) rfl (by intro f h; cases h)
    exact ⟨c, t, h, okStart_of_prim hc⟩
  | text s =>
    obtain ⟨c, t, h, hc⟩ := head_prim i (v := .text s) rfl (by intro f h; cases h)
    exact ⟨c, t, h, okStart_of_prim hc⟩
  | data bs =>
    obtain ⟨c, t, h, hc⟩ := head_prim i (v := .data bs) rfl (by intro f h; cases h)
    exact ⟨c, t, h, okStart_of_prim hc⟩

/-- A primitive of the fragment followed by a delimiter is lexed back (with its integer kind normalised). -/
theorem lexPrim_value (i : Nat) {v : Value} (hp : v.isPrim = true) (hw : v.wf = true) {rest : List Char}
    (hd : TokEnd rest) : lexPrim (printV .compact i v ++ rest) = some (.ok (v.norm, rest)) := by
  cases v with
  | extant => simp [Value.isPrim] at hp
  | record a its => simp [Value.isPrim] at hp
  | float f => simp [Value.wf] at hw
  | int k n => simpa [printV, Value.norm] using lexPrim_int n hd
  | bool b => simpa [printV, Value.norm] using lexPrim_bool b hd
  | text s => simpa [printV, Value.norm] using lexPrim_text s hd
  | data bs =>
    have hb : ∀ b ∈ bs, b < 256 := by simpa [Value.wf] using hw
    simpa [printV, Value.norm] using lexPrim_data bs hb hd


/-! ## attribute bodies -/


/-- The items whose `attrBody` is `w` and which the attribute printer writes between the parentheses. -/
def bodyItems (w : Value) : Items :=
  match w with
  | .record .nil its => if its.length = 0 ∨ its.isSoleVal = true then .val w .nil else its
  | _ => .val w .nil

theorem Items.norm_length : (its : Items) → its.norm.length = its.length
  | .nil => rfl
  | .val v r => by simp [Items.norm, Items.length, Items.norm_length r]
  | .slot k v r => by simp [Items.norm, Items.length, Items.norm_length r]

theorem Items.norm_isSoleVal (its : Items) : its.norm.isSoleVal = its.isSoleVal := by
  cases its with
  | nil => rfl
  | val v r => cases r <;> simp [Items.norm, Items.isSoleVal]
  | slot k v r => cases r <;> simp [Items.norm, Items.isSoleVal]

theorem attrBody_of_not_sole {its : Items} (h0 : its.length ≠ 0) (h1 : its.isSoleVal = false) :
    attrBody its = .record .nil its := by
  cases its with
  | nil => simp [Items.length] at h0
  | val v r =>
    cases r with
    | nil => simp [Items.isSoleVal] at h1
    | val _ _ => rfl
    | slot _ _ _ => rfl
  | slot k v r => rfl

theorem attrBody_bodyItems (w : Value) : attrBody (bodyItems w).norm = w.norm := by
  unfold bodyItems
  split
  · rename_i its
    split
    · simp [Items.norm, attrBody]
    · rename_i h
      have h0 : its.length ≠ 0 := fun h' => h (Or.inl h')
      have h1 : its.isSoleVal = false := by
        cases hs : its.isSoleVal
        · rfl
        · exact absurd (Or.inr hs) h
      rw [attrBody_of_not_sole (by rw [Items.norm_length]; exact h0) (by rw [Items.norm_isSoleVal]; exact h1)]
      simp [Value.norm, Attrs.norm]
  · simp [Items.norm, attrBody]

theorem bodyItems_size (w : Value) : (bodyItems w).size ≤ w.size + 1 := by
  unfold bodyItems
  split
  · split
    · simp [Items.size]; omega
    · simp [Value.size, Attrs.size]; omega
  · simp [Items.size]; omega

theorem bodyItems_wf {w : Value} (hw : w.wf = true) : (bodyItems w).wf = true := by
  unfold bodyItems
  split
  · split
    · simp [Items.wf, hw]
    · simp only [Value.wf, Bool.and_eq_true] at hw
      exact hw.1.1.2
  · simp [Items.wf, hw]

theorem bodyItems_notSoleExtant {w : Value} (hne : w ≠ .extant) : (bodyItems w).isSoleExtant = false := by
  unfold bodyItems
  split
  · rename_i its
    split
    · simp [Items.isSoleExtant]
    · rename_i h
      cases its with
      | nil => simp [Items.length] at h
      | val v r =>
        cases r with
        | nil => simp [Items.isSoleVal] at h
        | val _ _ => cases v <;> rfl
        | slot _ _ _ => cases v <;> rfl
      | slot k v r => rfl
  · cases w <;> first | exact absurd rfl hne | rfl

/-- What the attribute printer writes for a value of the fragment: the items of its body in parentheses. -/
theorem printA_body (i : Nat) {w : Value} (hw : w.wf = true) (hne : w ≠ .extant) (hs : isAttrSoleSlot w = false) :
    printA .compact i w = '(' :: (printItems .compact i i true true (bodyItems w) ++ [')']) := by
  cases w with
  | extant => exact absurd rfl hne
  | float f => simp [Value.wf] at hw
  | int k n => simp [printA, bodyItems, printItems, printV]
  | bool b => simp [printA, bodyItems, printItems, printV]
  | text s => simp [printA, bodyItems, printItems, printV]
  | data bs => simp [printA, bodyItems, printItems, printV]
  | record a its =>
    cases a with
    | nil =>
      by_cases h0 : its.length = 0
      · have : its = .nil := by cases its <;> simp [Items.length] at h0 <;> rfl
        subst this
        simp [printA, bodyItems, printItems, printV, Attrs.isEmpty, Items.length]
      · by_cases h1 : its.isSoleVal = true
        · simp [printA, bodyItems, h0, h1, Attrs.isEmpty, printItems, printV_record_nil]
        · simp [printA, bodyItems, h0, h1, Attrs.isEmpty, printItems_br i i true false]
    | cons n v r =>
      have hss : its.isSoleSlot = false := by
        cases its with
        | nil => rfl
        | val _ _ => rfl
        | slot k x r' => cases r' <;> simp_all [isAttrSoleSlot, Items.isSoleSlot]
      simp [printA, bodyItems, printItems, printV_record_cons, Attrs.isEmpty, hss, printItems_br i i true false]


/-! ## character facts -/


theorem close_cases (k : Kind) : k.close = ')' ∨ k.close = '}' := by cases k <;> simp [Kind.close]

theorem skipMulti_cons {c : Char} (h : isMulti c = false) (t : List Char) : skipMulti (c :: t) = c :: t := by
  simp [skipMulti, List.dropWhile, h]

theorem skipSpaces_cons {c : Char} (h : isSpace c = false) (t : List Char) : skipSpaces (c :: t) = c :: t := by
  simp [skipSpaces, List.dropWhile, h]

theorem close_not_multi (k : Kind) : isMulti k.close = false := by cases k <;> decide
theorem close_not_space (k : Kind) : isSpace k.close = false := by cases k <;> decide
theorem comma_ne_close (k : Kind) : (',' : Char) ≠ k.close := by cases k <;> decide
theorem colon_ne_close (k : Kind) : (':' : Char) ≠ k.close := by cases k <;> decide

theorem okStart_facts {c : Char} (h : okStart c = true) (k : Kind) :
    isMulti c = false ∧ isSpace c = false ∧ c ≠ k.close ∧ isSep c = false ∧ c ≠ ':' ∧
      (∀ t, lineEnding? (c :: t) = none) := by
  have n1 := okStart_ne h ' ' (by decide)
  have n2 := okStart_ne h '\t' (by decide)
  have n3 := okStart_ne h '\r' (by decide)
  have n4 := okStart_ne h '\n' (by decide)
  have n5 := okStart_ne h ')' (by decide)
  have n6 := okStart_ne h '}' (by decide)
  have n7 := okStart_ne h ',' (by decide)
  have n8 := okStart_ne h ';' (by decide)
  have n9 := okStart_ne h ':' (by decide)
  refine ⟨by simp [isMulti, n1, n2, n3, n4], by simp [isSpace, n1, n2], ?_, ?_, n9, ?_⟩
  · cases k <;> simp [Kind.close, n5, n6]
  · have hs : separators = [44, 59] := by decide
    simp only [isSep, hs, List.contains_cons, List.contains_nil, Bool.or_false, Bool.or_eq_false_iff, beq_eq_false_iff_ne]
    constructor
    · intro hh; apply n7; rw [← Char.ofNat_toNat c, hh]
    · intro hh; apply n8; rw [← Char.ofNat_toNat c, hh]
  · intro t
    unfold lineEnding?
    split
    · rename_i heq; simp only [List.cons.injEq] at heq; exact absurd heq.1 n4
    · rename_i heq; simp only [List.cons.injEq] at heq; exact absurd heq.1 n3
    · rfl


/-! ## the induction -/


/-- What may follow the attributes of a record in the compact layout. -/
def AttrFollow (tail : List Char) : Prop :=
  ∀ c ∈ tail.head?, c = ' ' ∨ c = '{' ∨ c = ',' ∨ c = ':' ∨ c = ')' ∨ c = '}'

/-- Induction hypothesis: the three statements for everything of size at most `n`. -/
structure IH (n : Nat) : Prop where
  elem : ∀ v : Value, v.size ≤ n → v.wf = true → v ≠ .extant → ∀ (i fuel : Nat) (rest : List Char), Delim rest →
      (isBareAttr v = true → rest.head? ≠ some ':') → 6 * v.size ≤ fuel →
      pElem fuel (printV .compact i v ++ rest) = .ok (v.norm, rest)
  items : ∀ its : Items, its.size ≤ n → its.wf = true → ∀ (k : Kind) (i fuel : Nat) (rest : List Char) (req : Bool),
      (req = false → its.isSoleExtant = false) → (req = true → its ≠ .nil) → 6 * its.size + 1 ≤ fuel →
      pItems fuel k req (printItems .compact i i true true its ++ k.close :: rest) = .ok (its.norm, rest)
  attrs : ∀ (nm : List Char) (v : Value) (r : Attrs), (Attrs.cons nm v r).size ≤ n → (Attrs.cons nm v r).wf = true →
      ∀ (acc : Attrs) (i fuel : Nat) (tail : List Char) (R : Res (Value × List Char)) (F0 : Nat), AttrFollow tail →
      (∀ f, F0 ≤ f → pAfterAttr f (acc.append (Attrs.cons nm v r).norm) tail = R) → 1 ≤ F0 →
      6 * (Attrs.cons nm v r).size + F0 ≤ fuel →
      pAttrs fuel acc (nm ++ printA .compact i v ++ printAttrs .compact i r ++ tail) = R

/-- The text after an item: the closing delimiter, or a comma and the remaining items (which are then read back). -/
theorem tail_cases {n : Nat} (ih : IH n) (r : Items) (hs : r.size ≤ n) (hw : r.wf = true) (k : Kind) (i g : Nat)
    (rest : List Char) (hg : 6 * r.size + 1 ≤ g) :
    (r = .nil ∧ printItems .compact i i false true r ++ k.close :: rest = k.close :: rest) ∨
    (∃ t, printItems .compact i i false true r ++ k.close :: rest = ',' :: t ∧
      pItems g k true t = .ok (r.norm, rest)) := by
  rw [printItems_notFirst]
  cases r with
  | nil => left; simp
  | val v r' =>
    right
    exact ⟨_, rfl, ih.items _ hs hw k i g rest true (by simp) (by simp) hg⟩
  | slot k' v r' =>
    right
    exact ⟨_, rfl, ih.items _ hs hw k i g rest true (by simp) (by simp) hg⟩

theorem tail_delim (r : Items) (k : Kind) (i : Nat) (rest : List Char) :
    Delim (printItems .compact i i false true r ++ k.close :: rest) ∧
      (printItems .compact i i false true r ++ k.close :: rest).head? ≠ some ':' := by
  rw [printItems_notFirst]
  cases r with
  | nil =>
    constructor
    · intro c hc
      simp only [List.nil_append, List.head?_cons, Option.mem_def, Option.some.injEq] at hc
      subst hc; rcases close_cases k with h | h <;> simp [h]
    · simp only [List.nil_append, List.head?_cons, ne_eq, Option.some.injEq]
      exact fun h => colon_ne_close k h.symm
  | val v r' => exact ⟨by intro c hc; simp at hc; simp [← hc], by simp⟩
  | slot k' v r' => exact ⟨by intro c hc; simp at hc; simp [← hc], by simp⟩



theorem sep_comma : isSep ',' = true := by decide
theorem comma_not_space : isSpace ',' = false := by decide
theorem comma_not_multi : isMulti ',' = false := by decide

theorem pItems_close (f : Nat) (k : Kind) (req : Bool) (rest : List Char) :
    pItems (f + 1) k req (k.close :: rest) = .ok (if req then .val .extant .nil else .nil, rest) := by
  rw [pItems]
  simp only [skipMulti_cons (close_not_multi k), ↓reduceIte]

section
variable {n : Nat} (ih : IH n) (r : Items) (hs : r.size ≤ n) (hw : r.wf = true) (k : Kind) (i g : Nat)
  (rest : List Char) (hg : 6 * r.size + 1 ≤ g)
include ih hs hw hg

theorem after_value (v' : Value) :
    pAfterValue (g + 1) k v' (printItems .compact i i false true r ++ k.close :: rest) = .ok (.val v' r.norm, rest) := by
  rcases tail_cases ih r hs hw k i g rest hg with ⟨rfl, h⟩ | ⟨t, h, hp⟩
  · rw [h, pAfterValue]; simp [skipSpaces_cons (close_not_space k), Items.norm]
  · rw [h, pAfterValue]; simp [skipSpaces_cons comma_not_space, comma_ne_close k, sep_comma, hp]

theorem slot_extant (key' : Value) :
    pSlot (g + 1) k key' (printItems .compact i i false true r ++ k.close :: rest) =
      .ok (.slot key' .extant r.norm, rest) := by
  rcases tail_cases ih r hs hw k i g rest hg with ⟨rfl, h⟩ | ⟨t, h, hp⟩
  · rw [h, pSlot]; simp [skipSpaces_cons (close_not_space k), Items.norm]
  · rw [h, pSlot]; simp [skipSpaces_cons comma_not_space, comma_ne_close k, sep_comma, hp]

theorem after_slot (key' v' : Value) :
    pAfterSlot (g + 1) k key' v' (printItems .compact i i false true r ++ k.close :: rest) =
      .ok (.slot key' v' r.norm, rest) := by
  rcases tail_cases ih r hs hw k i g rest hg with ⟨rfl, h⟩ | ⟨t, h, hp⟩
  · rw [h, pAfterSlot]; simp [skipSpaces_cons (close_not_space k), Items.norm]
  · rw [h, pAfterSlot]; simp [skipSpaces_cons comma_not_space, comma_ne_close k, sep_comma, hp]

/-- An `Extant` value item: nothing is printed for it. -/
theorem item_extant (req : Bool) (hreq : req = false → r ≠ .nil) :
    pItems (g + 1) k req (printItems .compact i i false true r ++ k.close :: rest) =
      .ok (.val .extant r.norm, rest) := by
  rcases tail_cases ih r hs hw k i g rest hg with ⟨rfl, h⟩ | ⟨t, h, hp⟩
  · cases req
    · exact absurd rfl (hreq rfl)
    · rw [h, pItems_close]; simp [Items.norm]
  · rw [h, pItems]; simp [skipMulti_cons comma_not_multi, comma_ne_close k, sep_comma, hp]
end



theorem colon_facts (k : Kind) : isMulti ':' = false ∧ isSpace ':' = false ∧ isSep ':' = false := by decide

/-- The value part of a slot and whatever follows it. -/
theorem slot_value {n : Nat} (ih : IH n) (v : Value) (r : Items) (hvs : v.size ≤ n) (hrs : r.size ≤ n)
    (hvw : v.wf = true) (hrw : r.wf = true) (k : Kind) (i h : Nat) (rest : List Char) (key' : Value)
    (hh1 : 6 * v.size ≤ h) (hh2 : 6 * r.size + 2 ≤ h) :
    pSlot (h + 1) k key' (printV .compact i v ++ (printItems .compact i i false true r ++ k.close :: rest)) =
      .ok (.slot key' v.norm r.norm, rest) := by
  by_cases hve : v = .extant
  · subst hve
    simp only [printV, List.nil_append, Value.norm]
    exact slot_extant ih r hrs hrw k i h rest (by omega) key'
  · obtain ⟨c, t, hc, hok⟩ := head_value i hvw hve
    obtain ⟨f1, f2, f3, f4, f5, f6⟩ := okStart_facts hok k
    obtain ⟨td, tc⟩ := tail_delim r k i rest
    have he := ih.elem v hvs hvw hve i h _ td (fun _ => tc) hh1
    obtain ⟨h', rfl⟩ : ∃ h', h = h' + 1 := ⟨h - 1, by omega⟩
    have ha := after_slot ih r hrs hrw k i h' rest (by omega) key' v.norm
    rw [hc] at he ⊢
    simp only [List.cons_append] at he ⊢
    rw [pSlot]
    simp only [skipSpaces_cons f2, f3, ↓reduceIte, f4, Bool.false_eq_true, f6, he, ha]

theorem items_step {n : Nat} (ih : IH n) (its : Items) (hs : its.size ≤ n + 1) (hw : its.wf = true) (k : Kind)
    (i fuel : Nat) (rest : List Char) (req : Bool) (h1 : req = false → its.isSoleExtant = false)
    (h2 : req = true → its ≠ .nil) (hf : 6 * its.size + 1 ≤ fuel) :
    pItems fuel k req (printItems .compact i i true true its ++ k.close :: rest) = .ok (its.norm, rest) := by
  obtain ⟨f, rfl⟩ : ∃ f, fuel = f + 1 := ⟨fuel - 1, by omega⟩
  cases its with
  | nil =>
    cases req
    · simp [printItems, pItems_close, Items.norm]
    · exact absurd rfl (h2 rfl)
  | val v r =>
    simp only [Items.size] at hs hf
    simp only [Items.wf, Bool.and_eq_true] at hw
    simp only [printItems, ↓reduceIte, List.nil_append, List.append_assoc]
    by_cases hve : v = .extant
    · subst hve
      simp only [printV, List.nil_append, Items.norm, Value.norm]
      refine item_extant ih r (by omega) hw.2 k i f rest (by omega) req ?_
      intro hr hrn; subst hrn; have := h1 hr; simp [Items.isSoleExtant] at this
    · obtain ⟨c, t, hc, hok⟩ := head_value i hw.1 hve
      obtain ⟨f1, f2, f3, f4, f5, f6⟩ := okStart_facts hok k
      obtain ⟨td, tc⟩ := tail_delim r k i rest
      have he := ih.elem v (by omega) hw.1 hve i f _ td (fun _ => tc) (by omega)
      obtain ⟨g, rfl⟩ : ∃ g, f = g + 1 := ⟨f - 1, by omega⟩
      have ha := after_value ih r (by omega) hw.2 k i g rest (by omega) v.norm
      rw [hc] at he ⊢
      simp only [List.cons_append] at he ⊢
      rw [pItems]
      simp only [skipMulti_cons f1, f3, ↓reduceIte, f4, Bool.false_eq_true, f5, he, ha, Items.norm]
  | slot key v r =>
    simp only [Items.size] at hs hf
    simp only [Items.wf, Bool.and_eq_true, Bool.not_eq_true'] at hw
    obtain ⟨⟨⟨hkw, hkb⟩, hvw⟩, hrw⟩ := hw
    obtain ⟨c1, c2, c3⟩ := colon_facts k
    simp only [printItems, ↓reduceIte, List.nil_append, List.append_assoc, List.cons_append, pad_compact]
    by_cases hke : key = .extant
    · subst hke
      obtain ⟨g, rfl⟩ : ∃ g, f = g + 1 := ⟨f - 1, by omega⟩
      have hsv := slot_value ih v r (by omega) (by omega) hvw hrw k i g rest .extant (by omega) (by omega)
      simp only [printV, List.nil_append, Items.norm, Value.norm]
      rw [pItems]
      simp only [skipMulti_cons c1, colon_ne_close k, ↓reduceIte, c3, Bool.false_eq_true, hsv]
    · obtain ⟨c, t, hc, hok⟩ := head_value i hkw hke
      obtain ⟨f1, f2, f3, f4, f5, f6⟩ := okStart_facts hok k
      have td : Delim (':' :: (printV .compact i v ++ (printItems .compact i i false true r ++ k.close :: rest))) := by
        intro x hx; simp at hx; simp [← hx]
      have he := ih.elem key (by omega) hkw hke i f _ td (by intro hb; rw [hkb] at hb; cases hb) (by omega)
      obtain ⟨g, rfl⟩ : ∃ g, f = g + 1 := ⟨f - 1, by omega⟩
      obtain ⟨g', rfl⟩ : ∃ g', g = g' + 1 := ⟨g - 1, by omega⟩
      have hsv := slot_value ih v r (by omega) (by omega) hvw hrw k i g' rest key.norm (by omega) (by omega)
      have hav : pAfterValue (g' + 1 + 1) k key.norm
          (':' :: (printV .compact i v ++ (printItems .compact i i false true r ++ k.close :: rest))) =
          .ok (.slot key.norm v.norm r.norm, rest) := by
        rw [pAfterValue]
        simp only [skipSpaces_cons c2, colon_ne_close k, ↓reduceIte, c3, Bool.false_eq_true, hsv]
      rw [hc] at he ⊢
      simp only [List.cons_append] at he ⊢
      rw [pItems]
      simp only [skipMulti_cons f1, f3, ↓reduceIte, f4, Bool.false_eq_true, f5, he, hav, Items.norm]



theorem Attrs.append_cons_assoc (a : List Char) (b : Value) (r : Attrs) :
    (acc : Attrs) → (acc.append (.cons a b .nil)).append r = acc.append (.cons a b r)
  | .nil => by simp [Attrs.append]
  | .cons n v t => by simp [Attrs.append, Attrs.append_cons_assoc a b r t]

theorem at_facts : isSpace '@' = false ∧ isIdentChar '@' = false ∧ isIdentChar '(' = false := by decide

/-- After an attribute: the remaining attributes, then whatever the record continues with. -/
theorem attrs_cont {n : Nat} (ih : IH n) (nm : List Char) (v' : Value) (r : Attrs) (hrs : r.size ≤ n)
    (hrw : r.wf = true) (acc : Attrs) (i : Nat) (tail : List Char) (R : Res (Value × List Char)) (F0 : Nat)
    (hfol : AttrFollow tail)
    (hR : ∀ f, F0 ≤ f → pAfterAttr f (acc.append (.cons nm v' r.norm)) tail = R) (h1 : 1 ≤ F0)
    (f : Nat) (hf : 6 * r.size + F0 + 1 ≤ f) :
    pAfterAttr f (acc.append (.cons nm v' .nil)) (printAttrs .compact i r ++ tail) = R := by
  cases r with
  | nil =>
    simp only [printAttrs, List.nil_append]
    exact hR f (by omega)
  | cons n2 v2 r2 =>
    obtain ⟨g, rfl⟩ : ∃ g, f = g + 1 := ⟨f - 1, by omega⟩
    have hw2 := hrw
    simp only [Attrs.wf, Bool.and_eq_true] at hw2
    rw [printAttrs_cons, attrName_ident hw2.1.1.1]
    simp only [List.cons_append, List.append_assoc]
    rw [pAfterAttr]
    simp only [skipSpaces_cons at_facts.1]
    have := ih.attrs n2 v2 r2 hrs hrw (acc.append (.cons nm v' .nil)) i g tail R F0 hfol
      (by intro f' hf'; rw [Attrs.append_cons_assoc]; exact hR f' hf') h1 (by omega)
    simpa only [List.append_assoc] using this

section
variable {f : Nat} {acc : Attrs} {c : Char} {t nm : List Char} (hq : c ≠ '"')
include hq

theorem pAttrs_ident_end (hlex : lexIdent (c :: t) = some (nm, [])) :
    pAttrs (f + 1) acc (c :: t) = .ok (.record (acc.append (.cons nm .extant .nil)) .nil, []) := by
  rw [pAttrs]
  · simp [hlex]
  · intro r1 h; simp only [List.cons.injEq] at h; exact hq h.1

theorem pAttrs_ident_body {r' rest : List Char} {its : Items} (hlex : lexIdent (c :: t) = some (nm, '(' :: r'))
    (hb : pItems f .ab false r' = .ok (its, rest)) :
    pAttrs (f + 1) acc (c :: t) = pAfterAttr f (acc.append (.cons nm (attrBody its) .nil)) rest := by
  rw [pAttrs]
  · simp [hlex, hb]
  · intro r1 h; simp only [List.cons.injEq] at h; exact hq h.1

theorem pAttrs_ident_nobody {x : Char} {xs : List Char} (hlex : lexIdent (c :: t) = some (nm, x :: xs))
    (hx : x ≠ '(') :
    pAttrs (f + 1) acc (c :: t) = pAfterAttr f (acc.append (.cons nm .extant .nil)) (x :: xs) := by
  rw [pAttrs]
  · simp only [hlex]
    split
    · rename_i heq; cases heq
    · rename_i heq; simp only [List.cons.injEq] at heq; exact absurd heq.1 hx
    · rfl
  · intro r1 h; simp only [List.cons.injEq] at h; exact hq h.1
end

theorem attrs_step {n : Nat} (ih : IH n) (nm : List Char) (v : Value) (r : Attrs)
    (hs : (Attrs.cons nm v r).size ≤ n + 1) (hw : (Attrs.cons nm v r).wf = true) (acc : Attrs) (i fuel : Nat)
    (tail : List Char) (R : Res (Value × List Char)) (F0 : Nat) (hfol : AttrFollow tail)
    (hR : ∀ f, F0 ≤ f → pAfterAttr f (acc.append (Attrs.cons nm v r).norm) tail = R) (h1 : 1 ≤ F0)
    (hf : 6 * (Attrs.cons nm v r).size + F0 ≤ fuel) :
    pAttrs fuel acc (nm ++ printA .compact i v ++ printAttrs .compact i r ++ tail) = R := by
  obtain ⟨f, rfl⟩ : ∃ f, fuel = f + 1 := ⟨fuel - 1, by omega⟩
  simp only [Attrs.size] at hs hf
  simp only [Attrs.wf, Bool.and_eq_true, Bool.not_eq_true'] at hw
  obtain ⟨⟨⟨hnm, hvw⟩, hvs⟩, hrw⟩ := hw
  simp only [Attrs.norm] at hR
  have hcont := attrs_cont ih nm v.norm r (by omega) hrw acc i tail R F0 hfol hR h1
  obtain ⟨hl, hres⟩ := (quote_decision_agrees nm).mp hnm
  obtain ⟨c, cs, rfl, hc, hcs⟩ := (lexIdent_eq_self_iff _).mp hl
  have hq : c ≠ '"' := by intro h; subst h; simp [quote_not_identStart] at hc
  -- what follows the name never continues the identifier
  have hX : ∀ X : List Char, stopsAt isIdentChar X →
      lexIdent (c :: (cs ++ X)) = some (c :: cs, X) := fun X hX => lexIdent_append hl hX
  by_cases hve : v = .extant
  · subst hve
    simp only [printA, List.append_nil, Value.norm, List.append_assoc, List.cons_append] at hcont ⊢
    have hstop : stopsAt isIdentChar (printAttrs .compact i r ++ tail) := by
      cases r with
      | nil =>
        simp only [printAttrs, List.nil_append]
        intro x hx
        rcases hfol x hx with rfl | rfl | rfl | rfl | rfl | rfl <;> decide
      | cons n2 v2 r2 =>
        rw [printAttrs_cons]; intro x hx; simp at hx; subst hx; decide
    have hlex := hX _ hstop
    cases hXe : printAttrs .compact i r ++ tail with
    | nil =>
      -- end of the document right after the name
      have hr : r = .nil := by
        cases r with
        | nil => rfl
        | cons n2 v2 r2 => rw [printAttrs_cons] at hXe; simp at hXe
      subst hr
      have ht : tail = [] := by simpa [printAttrs] using hXe
      subst ht
      rw [hXe] at hlex
      rw [pAttrs_ident_end hq hlex]
      have hRF := hR F0 (Nat.le_refl _)
      obtain ⟨g, rfl⟩ : ∃ g, F0 = g + 1 := ⟨F0 - 1, by omega⟩
      rw [pAfterAttr] at hRF
      simp only [skipSpaces, List.dropWhile, lexPrim, endsRecord, ↓reduceIte, Attrs.norm] at hRF
      simpa [Value.norm] using hRF
    | cons x xs =>
      rw [hXe] at hlex hcont
      have hx : x ≠ '(' := by
        cases r with
        | nil =>
          simp only [printAttrs, List.nil_append] at hXe
          subst hXe
          rcases hfol x (by simp) with rfl | rfl | rfl | rfl | rfl | rfl <;> decide
        | cons n2 v2 r2 =>
          rw [printAttrs_cons] at hXe; simp at hXe; rw [← hXe.1]; decide
      rw [pAttrs_ident_nobody hq hlex hx]
      exact hcont f (by omega)
  · -- the attribute has a body
    rw [printA_body i hvw hve hvs]
    have hstop : stopsAt isIdentChar ('(' :: (printItems .compact i i true true (bodyItems v) ++ [')'] ++
        (printAttrs .compact i r ++ tail))) := by
      intro x hx; simp at hx; subst hx; decide
    have hlex := hX _ hstop
    have hb := ih.items (bodyItems v) (by have := bodyItems_size v; omega) (bodyItems_wf hvw) .ab i f
      (printAttrs .compact i r ++ tail) false (fun _ => bodyItems_notSoleExtant hve) (by intro h; cases h)
      (by have := bodyItems_size v; omega)
    simp only [Kind.close] at hb
    simp only [List.append_assoc, List.cons_append, List.nil_append] at hlex hb ⊢
    rw [pAttrs_ident_body hq hlex hb, attrBody_bodyItems]
    exact hcont f (by omega)



theorem pElem_at (f : Nat) (r : List Char) : pElem (f + 1) ('@' :: r) = pAttrs f .nil r := by
  rw [pElem]

theorem pElem_brace {f : Nat} {r rest : List Char} {its : Items} (hb : pItems f .rb false r = .ok (its, rest)) :
    pElem (f + 1) ('{' :: r) = .ok (.record .nil its, rest) := by
  rw [pElem]; simp [hb]

theorem pElem_prim {f : Nat} {c : Char} {t : List Char} {r : Res (Value × List Char)} (h1 : c ≠ '@') (h2 : c ≠ '{')
    (hl : lexPrim (c :: t) = some r) : pElem (f + 1) (c :: t) = r := by
  rw [pElem]
  · simp [hl]
  · intro r1 h; simp only [List.cons.injEq] at h; exact h1 h.1
  · intro r1 h; simp only [List.cons.injEq] at h; exact h2 h.1

theorem pAfterAttr_brace {g : Nat} {A : Attrs} {r rest : List Char} {its : Items}
    (hb : pItems g .rb false r = .ok (its, rest)) :
    pAfterAttr (g + 1) A ('{' :: r) = .ok (.record A its, rest) := by
  rw [pAfterAttr]
  simp [skipSpaces_cons (show isSpace '{' = false by decide), hb]

theorem pAfterAttr_prim {g : Nat} {A : Attrs} {c : Char} {t rest : List Char} {w : Value}
    (hp : primStart c = true) (hl : lexPrim (c :: t) = some (.ok (w, rest))) :
    pAfterAttr (g + 1) A (' ' :: c :: t) = .ok (.record A (.val w .nil), rest) := by
  have h1 := primStart_ne hp '@' (by decide)
  have h2 := primStart_ne hp '{' (by decide)
  have h3 := primStart_ne hp ' ' (by decide)
  have h4 := primStart_ne hp '\t' (by decide)
  have hs : skipSpaces (' ' :: c :: t) = c :: t := by
    simp [skipSpaces, List.dropWhile, isSpace, h3, h4]
  rw [pAfterAttr]
  simp only [hs]
  split
  · rename_i heq; simp only [List.cons.injEq] at heq; exact absurd heq.1 h1
  · rename_i heq; simp only [List.cons.injEq] at heq; exact absurd heq.1 h2
  · simp [hl]

theorem pAfterAttr_end {g : Nat} {A : Attrs} {rest : List Char} (hd : Delim rest) (hc : rest.head? ≠ some ':') :
    pAfterAttr (g + 1) A rest = .ok (.record A .nil, rest) := by
  rcases delim_cases hd with rfl | ⟨c, r, rfl, hcc⟩
  · rw [pAfterAttr] <;> simp [skipSpaces, lexPrim, endsRecord]
  · have hne : c ≠ ':' := by intro h; subst h; simp at hc
    have hfacts : isSpace c = false ∧ c ≠ '@' ∧ c ≠ '{' ∧ lexPrim (c :: r) = none ∧ endsRecord (c :: r) = true := by
      rcases hcc with rfl | rfl | rfl | rfl
      · refine ⟨by decide, by decide, by decide, ?_, ?_⟩
        · simp [lexPrim, show isIdentStart ',' = false by decide, show isDigit ',' = false by decide]
        · simp [endsRecord, show isSep ',' = true by decide]
      · exact absurd rfl hne
      · refine ⟨by decide, by decide, by decide, ?_, ?_⟩
        · simp [lexPrim, show isIdentStart ')' = false by decide, show isDigit ')' = false by decide]
        · simp [endsRecord]
      · refine ⟨by decide, by decide, by decide, ?_, ?_⟩
        · simp [lexPrim, show isIdentStart '}' = false by decide, show isDigit '}' = false by decide]
        · simp [endsRecord]
    obtain ⟨f1, f2, f3, f4, f5⟩ := hfacts
    rw [pAfterAttr]
    simp only [skipSpaces_cons f1]
    split
    · rename_i heq; simp only [List.cons.injEq] at heq; exact absurd heq.1 f2
    · rename_i heq; simp only [List.cons.injEq] at heq; exact absurd heq.1 f3
    · simp [f4, f5]



theorem elem_prim {f : Nat} (i : Nat) {v : Value} (hp : v.isPrim = true) (hw : v.wf = true) {rest : List Char}
    (hd : Delim rest) : pElem (f + 1) (printV .compact i v ++ rest) = .ok (v.norm, rest) := by
  have hl := lexPrim_value i hp hw hd.tok
  obtain ⟨c, t, hc, hps⟩ := head_prim i hp (by intro x hx; subst hx; simp [Value.wf] at hw)
  rw [hc] at hl ⊢
  simp only [List.cons_append] at hl ⊢
  exact pElem_prim (primStart_ne hps '@' (by decide)) (primStart_ne hps '{' (by decide)) hl

theorem elem_step {n : Nat} (ih : IH n) (v : Value) (hs : v.size ≤ n + 1) (hw : v.wf = true) (hne : v ≠ .extant)
    (i fuel : Nat) (rest : List Char) (hd : Delim rest) (hb : isBareAttr v = true → rest.head? ≠ some ':')
    (hf : 6 * v.size ≤ fuel) :
    pElem fuel (printV .compact i v ++ rest) = .ok (v.norm, rest) := by
  have hsz : 1 ≤ v.size := by cases v <;> simp [Value.size] <;> omega
  obtain ⟨f, rfl⟩ : ∃ f, fuel = f + 1 := ⟨fuel - 1, by omega⟩
  cases v with
  | extant => exact absurd rfl hne
  | float x => simp [Value.wf] at hw
  | int k m => exact elem_prim i rfl hw hd
  | bool b => exact elem_prim i rfl hw hd
  | text s => exact elem_prim i rfl hw hd
  | data bs => exact elem_prim i rfl hw hd
  | record a its =>
    simp only [Value.size] at hs hf
    simp only [Value.wf, Bool.and_eq_true, Bool.not_eq_true', Bool.or_eq_true] at hw
    obtain ⟨⟨⟨haw, hiw⟩, hnse⟩, hsole⟩ := hw
    cases a with
    | nil =>
      rw [printV_record_nil]
      simp only [List.cons_append, List.append_assoc]
      have hbi := ih.items its (by simp [Attrs.size] at hs; omega) hiw .rb i f rest false (fun _ => hnse)
        (by intro h; cases h) (by simp [Attrs.size] at hf; omega)
      simp only [Kind.close] at hbi
      simp only [List.cons_append, List.nil_append]
      rw [pElem_brace hbi]
      simp [Value.norm, Attrs.norm]
    | cons nm w r =>
      have hnmid : isIdentifier nm = true := by
        simp only [Attrs.wf, Bool.and_eq_true] at haw; exact haw.1.1.1
      rw [printV_record_cons, printAttrs_cons, attrName_ident hnmid]
      simp only [List.cons_append, List.append_assoc]
      rw [pElem_at]
      have key : ∀ (tail : List Char), AttrFollow tail →
          (∀ g, 6 * its.size + 2 ≤ g → pAfterAttr g (Attrs.cons nm w r).norm tail = .ok (.record (Attrs.cons nm w r).norm its.norm, rest)) →
          pAttrs f .nil (nm ++ (printA .compact i w ++ (printAttrs .compact i r ++ tail))) =
            .ok ((Value.record (Attrs.cons nm w r) its).norm, rest) := by
        intro tail hfol hR
        have := ih.attrs nm w r (by omega) haw .nil i f tail _ (6 * its.size + 2) hfol
          (by intro g hg; simpa [Attrs.append] using hR g hg) (by omega) (by omega)
        simpa [List.append_assoc, Value.norm] using this
      by_cases h0 : its.length = 0
      · have hnil : its = .nil := by cases its <;> simp [Items.length] at h0 <;> rfl
        subst hnil
        simp only [Items.length, ↓reduceIte, List.nil_append]
        refine key rest ?_ ?_
        · intro x hx; rcases hd x hx with h | h | h | h <;> simp [h]
        · intro g hg
          obtain ⟨g', rfl⟩ : ∃ g', g = g' + 1 := ⟨g - 1, by omega⟩
          simpa [Items.norm] using pAfterAttr_end (A := (Attrs.cons nm w r).norm) hd (hb rfl)
      · by_cases h1 : its.isSoleVal = true
        · -- exactly one value item: a primitive
          simp only [h0, ↓reduceIte, h1]
          cases its with
          | nil => simp [Items.length] at h0
          | slot _ _ _ => simp [Items.isSoleVal] at h1
          | val x xs =>
            cases xs with
            | val _ _ => simp [Items.isSoleVal] at h1
            | slot _ _ _ => simp [Items.isSoleVal] at h1
            | nil =>
              have hxp : x.isPrim = true := by
                rcases hsole with h | h
                · rcases h with h | h
                  · simp [Attrs.isEmpty] at h
                  · simp [Items.isSoleVal] at h
                · simpa [Items.isSolePrim] using h
              have hxw : x.wf = true := by simp only [Items.wf, Bool.and_eq_true] at hiw; exact hiw.1
              simp only [printItems, ↓reduceIte, List.nil_append, List.append_nil]
              obtain ⟨c, t, hc, hps⟩ := head_prim i hxp (by intro y hy; subst hy; simp [Value.wf] at hxw)
              have hl := lexPrim_value i hxp hxw hd.tok
              rw [hc] at hl ⊢
              simp only [List.cons_append] at hl ⊢
              refine key _ (by intro y hy; simp at hy; simp [← hy]) ?_
              intro g hg
              obtain ⟨g', rfl⟩ : ∃ g', g = g' + 1 := ⟨g - 1, by omega⟩
              simpa [Items.norm] using pAfterAttr_prim (A := (Attrs.cons nm w r).norm) hps hl
        · -- braces
          simp only [h0, ↓reduceIte, h1]
          try simp only [List.cons_append, List.append_assoc, List.nil_append]
          refine key _ (by intro y hy; simp at hy; simp [← hy]) ?_
          intro g hg
          obtain ⟨g', rfl⟩ : ∃ g', g = g' + 1 := ⟨g - 1, by omega⟩
          have hbi := ih.items its (by simp [Attrs.size] at hs; omega) hiw .rb i g' rest false (fun _ => hnse)
            (by intro h; cases h) (by omega)
          simp only [Kind.close] at hbi
          have := pAfterAttr_brace (A := (Attrs.cons nm w r).norm) hbi
          simpa [List.append_assoc] using this

theorem ih_all : ∀ n, IH n
  | 0 => {
      elem := by
        intro v hs; have : 1 ≤ v.size := by cases v <;> simp [Value.size] <;> omega
        omega
      items := by
        intro its hs hw k i fuel rest req h1 h2 hf
        cases its with
        | nil =>
          obtain ⟨f, rfl⟩ : ∃ f, fuel = f + 1 := ⟨fuel - 1, by omega⟩
          cases req
          · simp [printItems, pItems_close, Items.norm]
          · exact absurd rfl (h2 rfl)
        | val v r => simp [Items.size] at hs <;> omega
        | slot a b c => simp [Items.size] at hs <;> omega
      attrs := by intro nm v r hs; simp [Attrs.size] at hs <;> omega }
  | n + 1 =>
    have ih := ih_all n
    { elem := fun v hs hw hne i fuel rest hd hb hf => elem_step ih v hs hw hne i fuel rest hd hb hf
      items := fun its hs hw k i fuel rest req h1 h2 hf => items_step ih its hs hw k i fuel rest req h1 h2 hf
      attrs := fun nm v r hs hw acc i fuel tail R F0 hfol hR h1 hf =>
        attrs_step ih nm v r hs hw acc i fuel tail R F0 hfol hR h1 hf }


/-- **parse ∘ print (compact)** with explicit fuel: any fuel of at least `6 * size v` is enough. -/
theorem parseFuel_print_compact (v : Value) (hw : v.wf = true) (fuel : Nat) (hf : 6 * v.size ≤ fuel) :
    parseFuel fuel (print .compact v) = .ok v.norm := by
  unfold parseFuel print
  by_cases hve : v = .extant
  · subst hve; simp [printV, skipMulti, Value.norm]
  · obtain ⟨c, t, hc, hok⟩ := head_value 0 hw hve
    obtain ⟨f1, _⟩ := okStart_facts hok .rb
    have he := (ih_all v.size).elem v (Nat.le_refl _) hw hve 0 fuel [] Delim.nil (by simp) hf
    rw [List.append_nil] at he
    rw [hc] at he ⊢
    rw [skipMulti_cons f1]
    simp [he, Res.map]

/-! ## fixed point -/


mutual
theorem Value.norm_norm : (v : Value) → v.norm.norm = v.norm
  | .extant => rfl
  | .int k n => by simp [Value.norm]
  | .float f => rfl
  | .bool b => rfl
  | .text s => rfl
  | .data bs => rfl
  | .record a i => by simp [Value.norm, Attrs.norm_norm a, Items.norm_norm i]
theorem Attrs.norm_norm : (a : Attrs) → a.norm.norm = a.norm
  | .nil => rfl
  | .cons n v r => by simp [Attrs.norm, Value.norm_norm v, Attrs.norm_norm r]
theorem Items.norm_norm : (i : Items) → i.norm.norm = i.norm
  | .nil => rfl
  | .val v r => by simp [Items.norm, Value.norm_norm v, Items.norm_norm r]
  | .slot k v r => by simp [Items.norm, Value.norm_norm k, Value.norm_norm v, Items.norm_norm r]
end

theorem Value.norm_isPrim (v : Value) : v.norm.isPrim = v.isPrim := by cases v <;> rfl
theorem Value.norm_extant_iff (v : Value) : v.norm = .extant ↔ v = .extant := by cases v <;> simp [Value.norm]
theorem Attrs.norm_isEmpty (a : Attrs) : a.norm.isEmpty = a.isEmpty := by cases a <;> rfl

theorem Items.norm_isSoleExtant (i : Items) : i.norm.isSoleExtant = i.isSoleExtant := by
  cases i with
  | nil => rfl
  | slot k v r => rfl
  | val v r => cases r <;> cases v <;> rfl

theorem Items.norm_isSolePrim (i : Items) : i.norm.isSolePrim = i.isSolePrim := by
  cases i with
  | nil => rfl
  | slot k v r => rfl
  | val v r => cases r <;> simp [Items.norm, Items.isSolePrim, Value.norm_isPrim]

theorem norm_isAttrSoleSlot (v : Value) : isAttrSoleSlot v.norm = isAttrSoleSlot v := by
  cases v with
  | record a i =>
    cases a with
    | nil => rfl
    | cons n w r =>
      cases i with
      | nil => rfl
      | val _ _ => rfl
      | slot k x t => cases t <;> rfl
  | _ => rfl

theorem norm_isBareAttr (v : Value) : isBareAttr v.norm = isBareAttr v := by
  cases v with
  | record a i => cases a <;> cases i <;> rfl
  | _ => rfl

mutual
theorem Value.wf_norm : (v : Value) → v.norm.wf = v.wf
  | .extant => rfl
  | .int k n => rfl
  | .float f => rfl
  | .bool b => rfl
  | .text s => rfl
  | .data bs => rfl
  | .record a i => by
    simp [Value.norm, Value.wf, Attrs.wf_norm a, Items.wf_norm i, Items.norm_isSoleExtant, Attrs.norm_isEmpty,
      Items.norm_isSoleVal, Items.norm_isSolePrim]
theorem Attrs.wf_norm : (a : Attrs) → a.norm.wf = a.wf
  | .nil => rfl
  | .cons n v r => by simp [Attrs.norm, Attrs.wf, Value.wf_norm v, Attrs.wf_norm r, norm_isAttrSoleSlot]
theorem Items.wf_norm : (i : Items) → i.norm.wf = i.wf
  | .nil => rfl
  | .val v r => by simp [Items.norm, Items.wf, Value.wf_norm v, Items.wf_norm r]
  | .slot k v r => by
    simp [Items.norm, Items.wf, Value.wf_norm k, Value.wf_norm v, Items.wf_norm r, norm_isBareAttr]
end

mutual
theorem Value.size_norm : (v : Value) → v.norm.size = v.size
  | .extant => rfl
  | .int k n => rfl
  | .float f => rfl
  | .bool b => rfl
  | .text s => rfl
  | .data bs => rfl
  | .record a i => by simp [Value.norm, Value.size, Attrs.size_norm a, Items.size_norm i]
theorem Attrs.size_norm : (a : Attrs) → a.norm.size = a.size
  | .nil => rfl
  | .cons n v r => by simp [Attrs.norm, Attrs.size, Value.size_norm v, Attrs.size_norm r]
theorem Items.size_norm : (i : Items) → i.norm.size = i.size
  | .nil => rfl
  | .val v r => by simp [Items.norm, Items.size, Value.size_norm v, Items.size_norm r]
  | .slot k v r => by simp [Items.norm, Items.size, Value.size_norm k, Value.size_norm v, Items.size_norm r]
end

/-- One cycle reaches a fixed point: parsing the print of what the first cycle gave returns it unchanged. -/
theorem fixpoint_compact (v : Value) (hw : v.wf = true) (fuel : Nat) (hf : 6 * v.size ≤ fuel) :
    parseFuel fuel (print .compact v.norm) = .ok v.norm := by
  have := parseFuel_print_compact v.norm (by rw [Value.wf_norm]; exact hw) fuel (by rw [Value.size_norm]; exact hf)
  rwa [Value.norm_norm] at this


/-! ## the built-in fuel of `parse` is enough -/


/-- Length of the compact text. -/
abbrev len (l : List Char) : Nat := l.length

theorem ident_length_pos {n : List Char} (h : isIdentifier n = true) : 1 ≤ n.length := by
  obtain ⟨hl, _⟩ := (quote_decision_agrees n).mp h
  obtain ⟨c, r, rfl, _, _⟩ := (lexIdent_eq_self_iff n).mp hl
  simp

theorem Items.length_zero_iff (its : Items) : its.length = 0 ↔ its = .nil := by
  cases its <;> simp [Items.length]

mutual
theorem size_le_V (i : Nat) : (v : Value) → v.wf = true → v.size ≤ 2 * (printV .compact i v).length + 1
  | .extant, _ => by simp [Value.size]
  | .int k n, _ => by simp [Value.size]
  | .float f, _ => by simp [Value.size]
  | .bool b, _ => by simp [Value.size]
  | .text s, _ => by simp [Value.size]
  | .data bs, _ => by simp [Value.size]
  | .record a its, hw => by
    simp only [Value.wf, Bool.and_eq_true] at hw
    have ha := size_le_A i a hw.1.1.1
    have hi := size_le_I i its hw.1.1.2
    cases a with
    | nil =>
      rw [printV_record_nil]
      simp only [Value.size, Attrs.size, List.length_cons, List.length_append, List.length_nil]
      omega
    | cons n v r =>
      rw [printV_record_cons]
      simp only [Value.size, List.length_append]
      by_cases h0 : its.length = 0
      · have := (Items.length_zero_iff its).mp h0
        subst this
        simp [Items.size] at hi ⊢
        omega
      · by_cases h1 : its.isSoleVal = true
        · simp only [h0, ↓reduceIte, h1, List.length_cons]; omega
        · simp only [h0, ↓reduceIte, h1, Bool.false_eq_true, List.length_cons, List.length_append, List.length_nil]; omega
theorem size_le_A (i : Nat) : (a : Attrs) → a.wf = true → a.size ≤ 2 * (printAttrs .compact i a).length
  | .nil, _ => by simp [Attrs.size]
  | .cons n v r, hw => by
    simp only [Attrs.wf, Bool.and_eq_true, Bool.not_eq_true'] at hw
    have hn := ident_length_pos hw.1.1.1
    have hv := size_le_PA i v hw.1.1.2
    have hr := size_le_A i r hw.2
    rw [printAttrs_cons, attrName_ident hw.1.1.1]
    simp only [Attrs.size, List.length_cons, List.length_append]
    omega
theorem size_le_I (i : Nat) : (its : Items) → its.wf = true →
    its.size ≤ 2 * (printItems .compact i i true true its).length + 2 ∧
    its.size ≤ 2 * (printItems .compact i i false true its).length
  | .nil, _ => by simp [Items.size]
  | .val v r, hw => by
    simp only [Items.wf, Bool.and_eq_true] at hw
    have hv := size_le_V i v hw.1
    have hr := (size_le_I i r hw.2).2
    simp only [Items.size, printItems, ↓reduceIte, List.nil_append, List.length_append, itemPad_compact,
      Bool.false_eq_true, List.length_cons, List.length_nil]
    omega
  | .slot k v r, hw => by
    simp only [Items.wf, Bool.and_eq_true, Bool.not_eq_true'] at hw
    have hk := size_le_V i k hw.1.1.1
    have hv := size_le_V i v hw.1.2
    have hr := (size_le_I i r hw.2).2
    simp only [Items.size, printItems, ↓reduceIte, List.nil_append, List.length_append, itemPad_compact,
      Bool.false_eq_true, List.length_cons, List.length_nil, pad_compact]
    omega
/-- The attribute printer writes at least half a character per unit of size, minus nothing: `size v ≤ 2·len + 1`. -/
theorem size_le_PA (i : Nat) : (v : Value) → v.wf = true → v.size ≤ 2 * (printA .compact i v).length + 1
  | .extant, _ => by simp [Value.size]
  | .int k n, _ => by simp [Value.size]
  | .float f, _ => by simp [Value.size]
  | .bool b, _ => by simp [Value.size]
  | .text s, _ => by simp [Value.size]
  | .data bs, _ => by simp [Value.size]
  | .record a its, hw => by
    simp only [Value.wf, Bool.and_eq_true] at hw
    have ha := size_le_A i a hw.1.1.1
    have hi := size_le_I i its hw.1.1.2
    have hbr := printItems_br i i true false its
    cases a with
    | nil =>
      simp only [printA, Attrs.isEmpty, ↓reduceIte, Value.size, Attrs.size]
      by_cases h0 : its.length = 0
      · have := (Items.length_zero_iff its).mp h0
        subst this
        simp [Items.size, Items.length]
      · by_cases h1 : its.isSoleVal = true
        · simp only [h0, ↓reduceIte, h1, List.length_cons, List.length_append, startBlock_compact, inner_compact,
            endBlock_compact, List.length_nil]
          have : ("})".toList).length = 2 := by decide
          omega
        · simp only [h0, ↓reduceIte, h1, Bool.false_eq_true, List.length_cons, List.length_append, List.length_nil, hbr]; omega
    | cons n v r =>
      simp only [printA, Attrs.isEmpty, Bool.false_eq_true, ↓reduceIte, Value.size, List.length_cons,
        List.length_append, List.length_nil]
      by_cases h0 : its.length = 0
      · have := (Items.length_zero_iff its).mp h0
        subst this
        simp [Items.size, Items.length] at hi ⊢
        omega
      · by_cases h1 : (its.isSoleVal || its.isSoleSlot) = true
        · simp only [h0, ↓reduceIte, h1, List.length_cons, hbr]; omega
        · simp only [h0, ↓reduceIte, h1, Bool.false_eq_true, List.length_cons, List.length_append, List.length_nil,
            pad_compact, startBlock_compact, inner_compact, endBlock_compact]; omega
end


/-- **parse ∘ print (compact)** for `parse` itself. -/
theorem parse_print_compact (v : Value) (hw : v.wf = true) : parse (print .compact v) = .ok v.norm := by
  unfold parse
  apply parseFuel_print_compact v hw
  have := size_le_V 0 v hw
  unfold print
  omega

theorem parse_fixpoint_compact (v : Value) (hw : v.wf = true) : parse (print .compact v.norm) = .ok v.norm := by
  have := parse_print_compact v.norm (by rw [Value.wf_norm]; exact hw)
  rwa [Value.norm_norm] at this

end SwimVerif.Recon
