/-
C11 (multiplexer part): when `poll_next` answers `Pending`, no ready bit is left anywhere — so, by the readiness
invariant, every registered stream is parked with its waker. Needs (a) the bucket walk of `get_next_stream` gives up
only after a full cycle over empty buckets, (b) the `while let` loop of `poll_next` consumes a flag per iteration, so
the model's fuel never runs out.
-/
import SwimVerif.Proofs.MultiReaderReady

set_option linter.unusedSimpArgs false
set_option linter.unusedVariables false
namespace SwimVerif.MultiReader

/-- no ready bit anywhere -/
def NoFlags (st : St) : Prop := st.localF = [] ∧ st.queueF = [] ∧ ∀ b, st.buckets.getD b [] = []

/-! ### counting flags -/

def sumLen (bs : List (List Nat)) : Nat := (bs.map List.length).sum

theorem flagCount_eq (st : St) : flagCount st = st.localF.length + st.queueF.length + sumLen st.buckets := rfl

theorem sumLen_set_nil (bs : List (List Nat)) (c : Nat) :
    sumLen (bs.set c []) + (bs.getD c []).length = sumLen bs := by
  induction bs generalizing c with
  | nil => simp [sumLen]
  | cons x xs ih =>
    cases c with
    | zero => simp [sumLen]; omega
    | succ n =>
      have := ih n
      simp only [sumLen, List.set_cons_succ, List.map_cons, List.sum_cons, List.getD_cons_succ] at *
      omega

theorem sumLen_modify_le (bs : List (List Nat)) (c k : Nat) (f : List Nat → List Nat)
    (hf : ∀ x, (f x).length ≤ x.length + k) : sumLen (bs.modify c f) ≤ sumLen bs + k := by
  induction bs generalizing c with
  | nil => simp [sumLen]
  | cons x xs ih =>
    cases c with
    | zero =>
      have := hf x
      simp only [sumLen, List.modify_zero_cons, List.map_cons, List.sum_cons] at *
      omega
    | succ n =>
      have := ih n
      simp only [sumLen, List.modify_succ_cons, List.map_cons, List.sum_cons] at *
      omega

theorem length_fInsert_le (s : List Nat) (i : Nat) : (fInsert s i).length ≤ s.length + 1 := by
  unfold fInsert; split <;> simp

theorem length_fUnion_le (s t : List Nat) : (fUnion s t).length ≤ s.length + t.length := by
  unfold fUnion
  induction t generalizing s with
  | nil => simp
  | cons x xs ih =>
    simp only [List.foldl_cons, List.length_cons]
    have := ih (fInsert s x)
    have := length_fInsert_le s x
    omega

theorem length_fErase_lt (s : List Nat) (i : Nat) (h : i ∈ s) : (fErase s i).length < s.length := by
  unfold fErase
  induction s with
  | nil => simp at h
  | cons x xs ih =>
    rw [List.filter_cons]
    have hle := List.length_filter_le (fun y => decide (y ≠ i)) xs
    split
    · rename_i hp
      have e : x ≠ i := by simpa using hp
      have hx : i ∈ xs := by
        rcases List.mem_cons.mp h with h' | h'
        · exact absurd h'.symm e
        · exact h'
      have := ih hx
      simp only [List.length_cons]
      omega
    · simp only [List.length_cons]
      omega

theorem flagCount_enter (st : St) (c : Nat) (hl : st.localF = []) : flagCount (enter st c) = flagCount st := by
  simp only [flagCount_eq, enter, hl, List.length_nil]
  have := sumLen_set_nil st.buckets c
  omega

theorem flagCount_advance (fuel : Nat) (st : St) (start : Nat) (hl : st.localF = []) :
    flagCount (advance fuel st start).1 = flagCount st := by
  induction fuel generalizing st with
  | zero => rfl
  | succ n ih =>
    unfold advance
    by_cases h1 : (enter st (nextIdx st)).localF ≠ []
    · rw [if_pos h1]; exact flagCount_enter st _ hl
    · rw [if_neg h1]
      by_cases h2 : start = nextIdx st
      · rw [if_pos h2]; exact flagCount_enter st _ hl
      · rw [if_neg h2, ih _ (by simpa using h1)]; exact flagCount_enter st _ hl

theorem flagCount_flush (st : St) : flagCount (flush st) ≤ flagCount st := by
  unfold flush
  split
  · simp only [flagCount_eq, List.length_nil]
    have := sumLen_modify_le st.buckets st.cur st.queueF.length (fun s => fUnion s st.queueF)
      (fun x => length_fUnion_le x st.queueF)
    omega
  · exact Nat.le_refl _

theorem flagCount_popMin (st : St) (idx : Nat) (h : (popMin st).2 = some idx) :
    flagCount (popMin st).1 + 1 ≤ flagCount st := by
  unfold popMin at *
  cases hm : fMin st.localF with
  | none => simp [hm] at h
  | some m =>
    simp only [hm, flagCount_eq]
    have := length_fErase_lt st.localF m (fMin_mem _ _ hm)
    omega

theorem flush_localF (st : St) : (flush st).localF = st.localF := by unfold flush; split <;> rfl

theorem flagCount_getNext (st : St) (idx : Nat) (h : (getNext st).2 = some idx) :
    flagCount (getNext st).1 + 1 ≤ flagCount st := by
  unfold getNext at *
  by_cases h1 : st.localF ≠ []
  · rw [if_pos h1] at h ⊢; exact flagCount_popMin st idx h
  · rw [if_neg h1] at h ⊢
    have hl : (flush st).localF = [] := by rw [flush_localF]; simpa using h1
    have ha := flagCount_advance ((flush st).buckets.length + 1) (flush st) (flush st).cur hl
    have hf := flagCount_flush st
    generalize (advance ((flush st).buckets.length + 1) (flush st) (flush st).cur) = r at *
    by_cases h2 : r.2 = true
    · rw [if_pos h2] at h ⊢
      have := flagCount_popMin r.1 idx h
      omega
    · rw [if_neg h2] at h; cases h

/-! ### the bucket walk gives up only after a full cycle over empty buckets -/

/-- steps from bucket `x` until the walk is back at `start` (`len` buckets) -/
def remS (start len x : Nat) : Nat := if x < start then start - x else start + len - x

theorem remS_spec (start len x : Nat) :
    (x < start ∧ remS start len x = start - x) ∨ (start ≤ x ∧ remS start len x = start + len - x) := by
  unfold remS
  by_cases h : x < start
  · exact Or.inl ⟨h, by rw [if_pos h]⟩
  · exact Or.inr ⟨by omega, by rw [if_neg h]⟩

theorem nextIdx_spec (st : St) :
    (st.buckets.length ≤ st.cur + 1 ∧ nextIdx st = 0) ∨ (st.cur + 1 < st.buckets.length ∧ nextIdx st = st.cur + 1) := by
  unfold nextIdx
  by_cases h : st.buckets.length ≤ st.cur + 1
  · exact Or.inl ⟨h, by rw [if_pos h]⟩
  · exact Or.inr ⟨by omega, by rw [if_neg h]⟩

theorem advance_false (fuel : Nat) (st : St) (start : Nat)
    (hc : st.cur < st.buckets.length) (hs : start < st.buckets.length)
    (hl : st.localF = []) (hq : st.queueF = [])
    (hfuel : remS start st.buckets.length st.cur ≤ fuel)
    (hvis : ∀ y, y < st.buckets.length → y ≠ start →
      remS start st.buckets.length st.cur ≤ remS start st.buckets.length y → st.buckets.getD y [] = [])
    (hres : (advance fuel st start).2 = false) : NoFlags (advance fuel st start).1 := by
  induction fuel generalizing st with
  | zero =>
    rcases remS_spec start st.buckets.length st.cur with ⟨_, e⟩ | ⟨_, e⟩ <;> omega
  | succ n ih =>
    unfold advance at hres ⊢
    have hnlt := nextIdx_lt st hc
    have hnx := nextIdx_spec st
    have hrc := remS_spec start st.buckets.length st.cur
    have hrn := remS_spec start st.buckets.length (nextIdx st)
    by_cases h1 : (enter st (nextIdx st)).localF ≠ []
    · rw [if_pos h1] at hres; cases hres
    · rw [if_neg h1] at hres ⊢
      have hl' : st.buckets.getD (nextIdx st) [] = [] := by simpa [enter] using h1
      by_cases h2 : start = nextIdx st
      · rw [if_pos h2]
        refine ⟨by simpa [enter] using hl', hq, ?_⟩
        intro b
        simp only [enter, getD_set_list]
        by_cases e : nextIdx st = b
        · simp [e]
        · simp only [e, if_false]
          by_cases hb : b < st.buckets.length
          · apply hvis b hb (by rw [h2]; exact fun h => e h.symm)
            -- one step before `start`: every other bucket is at least as far
            have hrb := remS_spec start st.buckets.length b
            rcases hnx with ⟨_, _⟩ | ⟨_, _⟩ <;> rcases hrc with ⟨_, _⟩ | ⟨_, _⟩ <;>
              rcases hrb with ⟨_, _⟩ | ⟨_, _⟩ <;> omega
          · simp [List.getD_eq_getElem?_getD, List.getElem?_eq_none_iff.mpr (Nat.le_of_not_lt hb)]
      · rw [if_neg h2] at hres ⊢
        have hlen : (enter st (nextIdx st)).buckets.length = st.buckets.length := by simp [enter]
        have hcur : (enter st (nextIdx st)).cur = nextIdx st := rfl
        apply ih (enter st (nextIdx st))
        · rw [hlen]; exact hnlt
        · rw [hlen]; exact hs
        · simpa [enter] using hl'
        · exact hq
        · rw [hlen, hcur]
          rcases hnx with ⟨_, _⟩ | ⟨_, _⟩ <;> rcases hrc with ⟨_, _⟩ | ⟨_, _⟩ <;>
            rcases hrn with ⟨_, _⟩ | ⟨_, _⟩ <;> omega
        · intro y hy hne hle
          rw [hlen] at hy
          rw [hlen, hcur] at hle
          simp only [enter, getD_set_list]
          by_cases e : nextIdx st = y
          · simp [e]
          · simp only [e, if_false]
            apply hvis y hy hne
            have hry := remS_spec start st.buckets.length y
            rcases hnx with ⟨_, _⟩ | ⟨_, _⟩ <;> rcases hrc with ⟨_, _⟩ | ⟨_, _⟩ <;>
              rcases hrn with ⟨_, _⟩ | ⟨_, _⟩ <;> rcases hry with ⟨_, _⟩ | ⟨_, _⟩ <;> omega
        · exact hres


theorem advance_true (fuel : Nat) (st : St) (start : Nat) (h : (advance fuel st start).2 = true) :
    (advance fuel st start).1.localF ≠ [] := by
  induction fuel generalizing st with
  | zero => simp [advance] at h
  | succ n ih =>
    unfold advance at h ⊢
    by_cases h1 : (enter st (nextIdx st)).localF ≠ []
    · rw [if_pos h1]; exact h1
    · rw [if_neg h1] at h ⊢
      by_cases h2 : start = nextIdx st
      · rw [if_pos h2] at h; cases h
      · rw [if_neg h2] at h ⊢; exact ih _ h

theorem popMin_none (st : St) (h : (popMin st).2 = none) : st.localF = [] := by
  unfold popMin at h
  cases hm : fMin st.localF with
  | none => exact fMin_none _ hm
  | some m => simp [hm] at h

/-- `get_next_stream` answers `None` only when no flag is left -/
theorem getNext_none (st : St) (hw : WF st) (h : (getNext st).2 = none) : NoFlags (getNext st).1 := by
  unfold getNext at *
  by_cases h1 : st.localF ≠ []
  · rw [if_pos h1] at h; exact absurd (popMin_none st h) h1
  · rw [if_neg h1] at h ⊢
    have hl : st.localF = [] := by simpa using h1
    have f := flush_spec st hw hl
    obtain ⟨fw, _, _, fl, fq, _⟩ := f
    have hfalse := advance_false ((flush st).buckets.length + 1) (flush st) (flush st).cur fw.cur_lt fw.cur_lt fl fq
      (by rcases remS_spec (flush st).cur (flush st).buckets.length (flush st).cur with ⟨_, e⟩ | ⟨_, e⟩ <;> omega)
      (by
        intro y hy hne hle
        have := fw.cur_lt
        rcases remS_spec (flush st).cur (flush st).buckets.length (flush st).cur with ⟨_, e⟩ | ⟨_, e⟩ <;>
          rcases remS_spec (flush st).cur (flush st).buckets.length y with ⟨_, e'⟩ | ⟨_, e'⟩ <;> omega)
    have htrue := advance_true ((flush st).buckets.length + 1) (flush st) (flush st).cur
    generalize (advance ((flush st).buckets.length + 1) (flush st) (flush st).cur) = r at *
    by_cases h2 : r.2 = true
    · rw [if_pos h2] at h
      -- the walk stopped on a non-empty bucket, so `popMin` cannot answer `None`
      exfalso
      exact htrue h2 (popMin_none r.1 h)
    · rw [if_neg h2]
      exact hfalse (by simpa using h2)


/-! ### `poll_next` answering `Pending` -/

theorem wf_slabRemove (st : St) (key : Nat) (h : WF st) : WF (slabRemove st key) := by
  refine ⟨h.cur_lt, ?_, ?_, ?_, h.loc_lt, h.que_lt, h.buc_lt, h.wak_lt⟩
  · simp only [slabRemove, List.length_set]; exact h.cover
  · intro k s hk
    simp only [slabRemove, List.getElem?_set] at hk
    by_cases e : key = k
    · simp only [e, if_true] at hk
      split at hk <;> simp at hk
    · simp only [e, if_false] at hk; exact h.src_lt k s hk
  · intro k k' s hk hk'
    simp only [slabRemove, List.getElem?_set] at hk hk'
    by_cases e : key = k
    · simp only [e, if_true] at hk
      split at hk <;> simp at hk
    · by_cases e' : key = k'
      · simp only [e', if_true] at hk'
        split at hk' <;> simp at hk'
      · simp only [e, e', if_false] at hk hk'
        exact h.inj k k' s hk hk'

theorem wf_park (st : St) (s idx : Nat) (h : WF st) (hidx : idx < bucketSize) : WF (park st s idx) := by
  refine ⟨h.cur_lt, h.cover, ?_, h.inj, h.loc_lt, h.que_lt, h.buc_lt, ?_⟩
  · intro k s' hk
    simp only [park, setSource, List.length_modify]; exact h.src_lt k s' hk
  · intro s' b i hwk
    simp only [park, setSource, getD_modify] at hwk
    split at hwk
    · simp only [Option.some.injEq, Prod.mk.injEq] at hwk
      rw [← hwk.2]; exact hidx
    · exact h.wak_lt s' b i hwk

/-- with enough fuel for the flags that are set, `Pending` is answered only when no flag is left -/
theorem pollNext_pending (fuel : Nat) (st : St) (hw : WF st) (hfuel : flagCount st + 1 ≤ fuel)
    (hres : (pollNext fuel st).2 = .pending) : NoFlags (pollNext fuel st).1 := by
  induction fuel generalizing st with
  | zero => omega
  | succ n ih =>
    unfold pollNext at hres ⊢
    have g := getNext_spec st hw
    have gnone := getNext_none st hw
    have gcount := flagCount_getNext st
    generalize hgs : (getNext st).1 = st1 at *
    generalize hgo : (getNext st).2 = o at *
    obtain ⟨gw, _, _, gsome, _⟩ := g
    cases o with
    | none =>
      simp only at hres ⊢
      split
      · rename_i he; rw [if_pos he] at hres; cases hres
      · exact gnone rfl
    | some idx =>
      simp only at hres ⊢
      have hc := gcount idx rfl
      have hidx := (gsome idx rfl).1
      cases hsl : slabGet st1 (idx + st1.cur * bucketSize) with
      | none =>
        rw [hsl] at hres
        simp only at hres ⊢
        exact ih st1 gw (by omega) hres
      | some s =>
        rw [hsl] at hres
        simp only at hres ⊢
        cases hq : (st1.sources.getD s {}).q with
        | cons x rest => rw [hq] at hres; cases hres
        | nil =>
          rw [hq] at hres
          simp only at hres ⊢
          by_cases hcl : (st1.sources.getD s {}).closed = true
          · rw [if_pos hcl] at hres ⊢
            exact ih _ (wf_slabRemove st1 _ gw) (by
              have : flagCount (slabRemove st1 (idx + st1.cur * bucketSize)) = flagCount st1 := rfl
              omega) hres
          · rw [if_neg hcl] at hres ⊢
            exact ih _ (wf_park st1 s idx gw hidx) (by
              have : flagCount (park st1 s idx) = flagCount st1 := rfl
              omega) hres

/-- no flag + readiness invariant ⇒ every registered stream is parked -/
theorem all_parked_of_noFlags (st : St) (hr : Ready st none) (hn : NoFlags st) (k s : Nat)
    (hk : st.entries[k]? = some (Entry.occ s)) : parked st k s := by
  rcases hr k s (by simp) hk with hf | hp
  · exfalso
    unfold flagged at hf
    obtain ⟨h1, h2, h3⟩ := hn
    rw [h1, h2, h3] at hf
    simp at hf
  · exact hp

end SwimVerif.MultiReader
