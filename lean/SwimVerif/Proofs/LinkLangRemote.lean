/-
The link-language invariant of ONE remote (C04): what is still owed to the remote (write in flight, then the
special queue, then buffered data), read per lane name, is accepted by the checker from the current state of
that key, and ends "open" whenever the lane is linked or still has data waiting.

`b n` = current checker state of (this remote, lane name `n`); `Lk l` = this remote is linked to lane id `l`.
-/
import SwimVerif.Proofs.LinkLangUplinks

set_option linter.unusedSimpArgs false
set_option linter.unusedVariables false
namespace SwimVerif.WT

/-- The notes of a write if it is addressed to lane name `n`. -/
def wNotes (n : Nat) (w : Write) : List Note := if w.lane = some n then w.notes else []

def spNotes (reg : Registry) (n : Nat) (q : List Special) : List Note :=
  q.flatMap (fun a => wNotes n (specialWrite reg a))

def inflNotes (n : Nat) : Option Write → List Note
  | some w => wNotes n w
  | none => []

/-- Notes for lane name `n` that are already committed: the write in flight, then the special queue. -/
def pend (reg : Registry) (u : Uplinks) (infl : Option Write) (n : Nat) : List Note :=
  inflNotes n infl ++ spNotes reg n u.specialQueue

def spValid (reg : Registry) : Special → Prop
  | .linked id => id < reg.length
  | .unlinked id _ => id < reg.length
  | .laneNotFound _ => True

/-- A write carries a lane name; the name is registered unless the write is a lane-not-found answer. -/
def wValid (reg : Registry) (w : Write) : Prop :=
  ∃ n, w.lane = some n ∧ (n ∈ reg ∨ w.notes = [Note.unlinked .notFound])

/-- A (possibly orphaned) write in flight is acceptable in checker state `b`. -/
def wOk (reg : Registry) (b : Nat → Bool) (w : Write) : Prop :=
  ∃ n, w.lane = some n ∧ (n ∈ reg ∨ w.notes = [Note.unlinked .notFound]) ∧ runNotes (b n) w.notes ≠ none

def schedI (w : Option Write) (infl : Option Write) : Option Write :=
  match w with
  | some x => some x
  | none => infl

structure PInv (reg : Registry) (b : Nat → Bool) (Lk : Nat → Prop) (u : Uplinks) (infl : Option Write) : Prop where
  q : QInv u
  w : u.writerHome = true ↔ infl = none
  vi : ∀ w, infl = some w → wValid reg w
  vs : ∀ a ∈ u.specialQueue, spValid reg a
  vd : ∀ l, hasData u l = true → l < reg.length
  vl : ∀ l, Lk l → l < reg.length
  lang : ∀ n, n ∈ reg → runNotes (b n) (pend reg u infl n) ≠ none
  opn : ∀ l n, reg.nameFor l = some n → (hasData u l = true ∨ Lk l) →
    runNotes (b n) (pend reg u infl n) = some true

/-! ### registry facts -/

theorem nameFor_lt {reg : Registry} {l : Nat} (h : l < reg.length) : ∃ n, reg.nameFor l = some n ∧ n ∈ reg := by
  refine ⟨reg[l], ?_, List.getElem_mem h⟩
  simp [Registry.nameFor, h]

theorem nameFor_mem {reg : Registry} {l n : Nat} (h : reg.nameFor l = some n) : n ∈ reg ∧ l < reg.length := by
  unfold Registry.nameFor at h
  refine ⟨List.mem_of_getElem? h, ?_⟩
  rcases List.getElem?_eq_some_iff.mp h with ⟨hl, _⟩
  exact hl

theorem nameFor_inj {reg : Registry} (hn : reg.Nodup) {l l' n : Nat} (h : reg.nameFor l = some n)
    (h' : reg.nameFor l' = some n) : l = l' := by
  have hl := (nameFor_mem h).2
  unfold Registry.nameFor at h h'
  exact (List.getElem?_inj hl hn).mp (h.trans h'.symm)

theorem nameFor_append {reg : Registry} {l : Nat} (h : l < reg.length) (name : Nat) :
    Registry.nameFor (reg ++ [name]) l = reg.nameFor l := by
  unfold Registry.nameFor
  exact List.getElem?_append_left h

theorem specialWrite_append {reg : Registry} {a : Special} (h : spValid reg a) (name : Nat) :
    specialWrite (reg ++ [name]) a = specialWrite reg a := by
  cases a with
  | linked id => simp [specialWrite, nameFor_append (show id < reg.length from h)]
  | unlinked id m => simp [specialWrite, nameFor_append (show id < reg.length from h)]
  | laneNotFound n => rfl

theorem specialWrite_valid {reg : Registry} {a : Special} (h : spValid reg a) : wValid reg (specialWrite reg a) := by
  cases a with
  | linked id =>
    obtain ⟨n, h1, h2⟩ := nameFor_lt (show id < reg.length from h)
    exact ⟨n, h1, Or.inl h2⟩
  | unlinked id m =>
    obtain ⟨n, h1, h2⟩ := nameFor_lt (show id < reg.length from h)
    exact ⟨n, h1, Or.inl h2⟩
  | laneNotFound n => exact ⟨n, rfl, Or.inr rfl⟩

theorem spNotes_append (reg : Registry) (n : Nat) (q : List Special) (a : Special) :
    spNotes reg n (q ++ [a]) = spNotes reg n q ++ wNotes n (specialWrite reg a) := by
  simp [spNotes, List.flatMap_append]

theorem spNotes_reg_append {reg : Registry} (n name : Nat) : ∀ (q : List Special), (∀ a ∈ q, spValid reg a) →
    spNotes (reg ++ [name]) n q = spNotes reg n q := by
  intro q
  induction q with
  | nil => intro _; rfl
  | cons a q ih =>
    intro h
    have ha := h a (by simp)
    have hq : ∀ x ∈ q, spValid reg x := fun x hx => h x (by simp [hx])
    have := ih hq
    simp only [spNotes, List.flatMap_cons] at this ⊢
    rw [this, specialWrite_append ha]

/-- For an unregistered name only lane-not-found answers can be owed. -/
theorem pend_unreg {reg : Registry} {b : Nat → Bool} {Lk : Nat → Prop} {u : Uplinks} {infl : Option Write}
    (h : PInv reg b Lk u infl) {n : Nat} (hn : n ∉ reg) :
    ∀ x ∈ pend reg u infl n, x = Note.unlinked .notFound := by
  intro x hx
  simp only [pend, List.mem_append] at hx
  rcases hx with hx | hx
  · cases hi : infl with
    | none => rw [hi] at hx; simp [inflNotes] at hx
    | some w =>
      rw [hi] at hx
      obtain ⟨m, hm, hv⟩ := h.vi w hi
      simp only [inflNotes, wNotes] at hx
      split at hx
      · rename_i hl
        rw [hm] at hl
        cases hl
        rcases hv with hv | hv
        · exact absurd hv hn
        · rw [hv] at hx; simpa using hx
      · simp at hx
  · simp only [spNotes, List.mem_flatMap] at hx
    obtain ⟨a, ha, hx⟩ := hx
    obtain ⟨m, hm, hv⟩ := specialWrite_valid (h.vs a ha)
    simp only [wNotes] at hx
    split at hx
    · rename_i hl
      rw [hm] at hl
      cases hl
      rcases hv with hv | hv
      · exact absurd hv hn
      · rw [hv] at hx; simpa using hx
    · simp at hx

/-! ### simple transformations -/

theorem pinv_init (reg : Registry) (b : Nat → Bool) (Lk : Nat → Prop) (hL : ∀ l, ¬ Lk l) : PInv reg b Lk {} none := by
  refine ⟨qinv_init, by simp, by simp, by simp, ?_, fun l h => absurd h (hL l), ?_, ?_⟩
  · intro l h; simp [hasData] at h
  · intro n _; simp [pend, inflNotes, spNotes, runNotes]
  · intro l n _ h
    rcases h with h | h
    · simp [hasData] at h
    · exact absurd h (hL l)

theorem pinv_mono {reg : Registry} {b : Nat → Bool} {Lk Lk' : Nat → Prop} {u : Uplinks} {infl : Option Write}
    (h : PInv reg b Lk u infl) (hL : ∀ l, Lk' l → Lk l) : PInv reg b Lk' u infl :=
  ⟨h.q, h.w, h.vi, h.vs, h.vd, fun l hl => h.vl l (hL l hl), h.lang,
   fun l n hn hd => h.opn l n hn (hd.imp id (hL l))⟩

theorem pinv_congr {reg : Registry} {b b' : Nat → Bool} {Lk : Nat → Prop} {u : Uplinks} {infl : Option Write}
    (h : PInv reg b Lk u infl) (hb : ∀ n, n ∈ reg → b' n = b n) : PInv reg b' Lk u infl :=
  ⟨h.q, h.w, h.vi, h.vs, h.vd, h.vl, fun n hn => by rw [hb n hn]; exact h.lang n hn,
   fun l n hn hd => by rw [hb n (nameFor_mem hn).1]; exact h.opn l n hn hd⟩

theorem pinv_reg_append {reg : Registry} {b : Nat → Bool} {Lk : Nat → Prop} {u : Uplinks} {infl : Option Write}
    (h : PInv reg b Lk u infl) (name : Nat) (hfresh : name ∉ reg) : PInv (reg ++ [name]) b Lk u infl := by
  have hp : ∀ n, pend (reg ++ [name]) u infl n = pend reg u infl n := by
    intro n; simp only [pend]; rw [spNotes_reg_append n name _ h.vs]
  have hlen : (reg ++ [name]).length = reg.length + 1 := by simp
  refine ⟨h.q, h.w, ?_, ?_, ?_, ?_, ?_, ?_⟩
  · intro w hw
    obtain ⟨n, h1, h2⟩ := h.vi w hw
    exact ⟨n, h1, h2.imp (fun hm => List.mem_append_left _ hm) id⟩
  · intro a ha
    have := h.vs a ha
    cases a with
    | linked id => have : id < reg.length := this; show id < _; omega
    | unlinked id m => have : id < reg.length := this; show id < _; omega
    | laneNotFound n => trivial
  · intro l hl; have := h.vd l hl; omega
  · intro l hl; have := h.vl l hl; omega
  · intro n hn
    rw [hp]
    by_cases hr : n ∈ reg
    · exact h.lang n hr
    · rw [runNotes_notFound _ _ (pend_unreg h hr)]; simp
  · intro l n hn hd
    rw [hp]
    have hl : l < reg.length := by
      rcases hd with hd | hd
      · exact h.vd l hd
      · exact h.vl l hd
    rw [nameFor_append hl] at hn
    exact h.opn l n hn hd

/-- The write in flight is acceptable now. -/
theorem pinv_infl_ok {reg : Registry} {b : Nat → Bool} {Lk : Nat → Prop} {u : Uplinks} {w : Write}
    (h : PInv reg b Lk u (some w)) : wOk reg b w := by
  obtain ⟨n, h1, h2⟩ := h.vi w rfl
  refine ⟨n, h1, h2, ?_⟩
  rcases h2 with h2 | h2
  · have := h.lang n h2
    simp only [pend, inflNotes, wNotes, h1, if_true] at this
    rw [runNotes_append] at this
    intro hn
    rw [hn] at this
    simp at this
  · rw [h2]; simp [runNotes, frameOk]

/-! ### `push_special` -/

theorem pushSpecial_core {reg : Registry} {b : Nat → Bool} {Lk : Nat → Prop} {u : Uplinks} {infl : Option Write}
    (h : PInv reg b Lk u infl) (a : Special) (hv : spValid reg a) :
    QInv (u.pushSpecial a reg).1 ∧
    ((u.pushSpecial a reg).1.writerHome = true ↔ schedI (u.pushSpecial a reg).2 infl = none) ∧
    (∀ w, schedI (u.pushSpecial a reg).2 infl = some w → wValid reg w) ∧
    (∀ x ∈ (u.pushSpecial a reg).1.specialQueue, spValid reg x) ∧
    (∀ l, hasData (u.pushSpecial a reg).1 l = true →
      hasData u l = true ∧ ∀ id m, a = Special.unlinked id m → l ≠ id) ∧
    (∀ n, pend reg (u.pushSpecial a reg).1 (schedI (u.pushSpecial a reg).2 infl) n =
      pend reg u infl n ++ wNotes n (specialWrite reg a)) := by
  refine ⟨qinv_pushSpecial h.q a reg, ?_⟩
  cases hh : u.writerHome with
  | true =>
    have hi : infl = none := h.w.mp hh
    have hs : u.specialQueue = [] := (h.q.home hh).1
    rw [pushSpecial_home u a reg hh]
    subst hi
    refine ⟨by simp [schedI], ?_, ?_, ?_, ?_⟩
    · intro w hw
      simp only [schedI, Option.some.injEq] at hw
      subst hw
      exact specialWrite_valid hv
    · intro x hx
      simp only [hs] at hx
      simp at hx
    · intro l hl
      have : hasData u l = false := hasData_home h.q hh l
      have h2 : hasData { u with writerHome := false } l = hasData u l := rfl
      rw [h2, this] at hl
      simp at hl
    · intro n
      simp [pend, schedI, inflNotes, hs, spNotes]
  | false =>
    obtain ⟨h1, h2, h3, h4⟩ := pushSpecial_away u a reg hh
    have hi : infl ≠ none := fun hn => by have := h.w.mpr hn; rw [hh] at this; simp at this
    rw [h1]
    refine ⟨by simp [schedI, h3, hi], ?_, ?_, h4, ?_⟩
    · intro w hw; exact h.vi w hw
    · intro x hx
      rw [h2] at hx
      simp only [List.mem_append, List.mem_singleton] at hx
      rcases hx with hx | hx
      · exact h.vs x hx
      · subst hx; exact hv
    · intro n
      simp only [pend, schedI, h2, spNotes_append, List.append_assoc]

theorem wNotes_linked {reg : Registry} {id m : Nat} (h : reg.nameFor id = some m) (n : Nat) :
    wNotes n (specialWrite reg (.linked id)) = if m = n then [Note.linked] else [] := by
  simp [wNotes, specialWrite, h]

theorem wNotes_unlinked {reg : Registry} {id m : Nat} (h : reg.nameFor id = some m) (n : Nat) (msg : UnlinkMsg) :
    wNotes n (specialWrite reg (.unlinked id msg)) = if m = n then [Note.unlinked msg] else [] := by
  simp [wNotes, specialWrite, h]

theorem wNotes_notFound (reg : Registry) (name n : Nat) :
    wNotes n (specialWrite reg (.laneNotFound name)) = if name = n then [Note.unlinked .notFound] else [] := by
  simp [wNotes, specialWrite]

/-- A `linked` is queued (or sent): the lane may be linked afterwards. -/
theorem pinv_linked {reg : Registry} {b : Nat → Bool} {Lk Lk' : Nat → Prop} {u : Uplinks} {infl : Option Write}
    (h : PInv reg b Lk u infl) (id : Nat) (hid : id < reg.length) (hL : ∀ l, Lk' l → Lk l ∨ l = id) :
    PInv reg b Lk' (u.pushSpecial (.linked id) reg).1 (schedI (u.pushSpecial (.linked id) reg).2 infl) := by
  obtain ⟨c1, c2, c3, c4, c5, c6⟩ := pushSpecial_core h (.linked id) hid
  obtain ⟨m, hm, hmr⟩ := nameFor_lt hid
  refine ⟨c1, c2, c3, c4, fun l hl => h.vd l (c5 l hl).1, ?_, ?_, ?_⟩
  · intro l hl
    rcases hL l hl with h1 | h1
    · exact h.vl l h1
    · rw [h1]; exact hid
  · intro n hn
    rw [c6, wNotes_linked hm]
    split
    · rw [runNotes_snoc_linked _ _ (h.lang n hn)]; simp
    · rw [List.append_nil]; exact h.lang n hn
  · intro l n hn hd
    rw [c6, wNotes_linked hm]
    split
    · exact runNotes_snoc_linked _ _ (h.lang n (nameFor_mem hn).1)
    · rename_i hne
      rw [List.append_nil]
      apply h.opn l n hn
      rcases hd with hd | hd
      · exact Or.inl (c5 l hd).1
      · rcases hL l hd with h1 | h1
        · exact Or.inr h1
        · subst h1
          rw [hm] at hn
          exact absurd (Option.some.inj hn) hne

/-- An `unlinked` is queued (or sent) for a lane that is linked: the lane is not linked afterwards and its
waiting data are gone. -/
theorem pinv_unlinked {reg : Registry} {b : Nat → Bool} {Lk Lk' : Nat → Prop} {u : Uplinks} {infl : Option Write}
    (h : PInv reg b Lk u infl) (hnd : reg.Nodup) (id : Nat) (msg : UnlinkMsg) (hid : Lk id)
    (hL : ∀ l, Lk' l → Lk l ∧ l ≠ id) :
    PInv reg b Lk' (u.pushSpecial (.unlinked id msg) reg).1
      (schedI (u.pushSpecial (.unlinked id msg) reg).2 infl) := by
  have hlt := h.vl id hid
  obtain ⟨c1, c2, c3, c4, c5, c6⟩ := pushSpecial_core h (.unlinked id msg) hlt
  obtain ⟨m, hm, hmr⟩ := nameFor_lt hlt
  have hopen := h.opn id m hm (Or.inr hid)
  refine ⟨c1, c2, c3, c4, fun l hl => h.vd l (c5 l hl).1, fun l hl => h.vl l (hL l hl).1, ?_, ?_⟩
  · intro n hn
    rw [c6, wNotes_unlinked hm]
    split
    · rename_i he; subst he
      exact runNotes_snoc_unlinked _ _ msg hopen
    · rw [List.append_nil]; exact h.lang n hn
  · intro l n hn hd
    have hne : l ≠ id := by
      rcases hd with hd | hd
      · exact (c5 l hd).2 id msg rfl
      · exact (hL l hd).2
    have hmn : ¬ m = n := by
      intro he; subst he
      exact hne (nameFor_inj hnd hn hm)
    rw [c6, wNotes_unlinked hm, if_neg hmn, List.append_nil]
    apply h.opn l n hn
    rcases hd with hd | hd
    · exact Or.inl (c5 l hd).1
    · exact Or.inr (hL l hd).1

/-- A lane-not-found answer changes nothing. -/
theorem pinv_notFound {reg : Registry} {b : Nat → Bool} {Lk : Nat → Prop} {u : Uplinks} {infl : Option Write}
    (h : PInv reg b Lk u infl) (name : Nat) :
    PInv reg b Lk (u.pushSpecial (.laneNotFound name) reg).1
      (schedI (u.pushSpecial (.laneNotFound name) reg).2 infl) := by
  obtain ⟨c1, c2, c3, c4, c5, c6⟩ := pushSpecial_core h (.laneNotFound name) trivial
  have key : ∀ n, runNotes (b n) (pend reg u infl n ++ wNotes n (specialWrite reg (.laneNotFound name))) =
      runNotes (b n) (pend reg u infl n) := by
    intro n
    rw [wNotes_notFound]
    split
    · exact runNotes_snoc_notFound _ _
    · rw [List.append_nil]
  refine ⟨c1, c2, c3, c4, fun l hl => h.vd l (c5 l hl).1, h.vl, ?_, ?_⟩
  · intro n hn; rw [c6, key]; exact h.lang n hn
  · intro l n hn hd
    rw [c6, key]
    exact h.opn l n hn (hd.imp (fun x => (c5 l x).1) id)

end SwimVerif.WT
