/-
C20, per-lane event accounting over write-task runs, and the runtime's discipline (`liveOk`) under which every
response routed to a remote is counted — once by the lane's reporter and once by the aggregate reporter.
-/
import SwimVerif.Proofs.LinksWTLane

set_option linter.unusedSimpArgs false
set_option linter.unusedVariables false
namespace SwimVerif.WT

/-! ### a lane keeps its reporter until the lane is removed -/

theorem hasRep_congr {l l' : Links} (h : l'.forward = l.forward) (id : Nat) : l'.hasRep id = l.hasRep id := by
  unfold Links.hasRep; rw [h]

theorem hasRep_alSet {l l' : Links} {id' : Nat} {e' : LaneLinks} (h : l'.forward = alSet l.forward id' e') (id : Nat) :
    l'.hasRep id = if id' = id then e'.hasReporter else l.hasRep id := by
  unfold Links.hasRep
  rw [h, alGet_alSet]
  by_cases hh : id' = id <;> simp [hh]

theorem hasRep_getD (l : Links) (id : Nat) : ((alGet l.forward id).getD {}).hasReporter = l.hasRep id := by
  unfold Links.hasRep; cases alGet l.forward id <;> rfl

theorem hasRep_addRemote (l : Links) (id' r id : Nat) : (l.addRemote id' r).hasRep id = l.hasRep id := by
  unfold Links.addRemote
  split
  · rw [hasRep_alSet (l := l) rfl id]
    by_cases hh : id' = id
    · subst hh; simp [hasRep_getD]
    · simp [hh]
  · rw [hasRep_alSet (l := l) (updEntry_forward _ _ _ _) id]
    by_cases hh : id' = id
    · subst hh; simp [hasRep_getD]
    · simp [hh]

theorem hasRep_removeFromLane (l : Links) (id' r id : Nat) : (l.removeFromLane id' r).hasRep id = l.hasRep id := by
  unfold Links.removeFromLane
  split
  · rfl
  · rename_i e he
    split
    · rw [hasRep_alSet (l := l) (updEntry_forward _ _ _ _) id]
      by_cases hh : id' = id
      · subst hh; simp [Links.hasRep, he]
      · simp [hh]
    · rfl

theorem hasRep_foldl_remove (lanes : List Nat) (r id : Nat) : ∀ l : Links,
    (lanes.foldl (fun acc id' => acc.removeFromLane id' r) l).hasRep id = l.hasRep id := by
  induction lanes with
  | nil => intro l; rfl
  | cons id' rest ih => intro l; simp only [List.foldl]; rw [ih, hasRep_removeFromLane]

theorem hasRep_removeCore (l : Links) (id' r id : Nat) : (l.removeCore id' r).hasRep id = l.hasRep id := by
  unfold Links.removeCore
  split
  · rw [hasRep_congr (setAgg_forward _), hasRep_removeFromLane]
  · rfl

/-- Every operation except removing the lane keeps the lane's reporter. -/
theorem hasRep_lstep {l : Links} {id : Nat} (h : l.hasRep id = true) (op : LOp) (h1 : op ≠ .removeLane id) :
    (lstep l op).hasRep id = true := by
  cases op with
  | register id' =>
    simp only [lstep]
    rw [hasRep_alSet (l := l) (l' := l.registerReporter id') rfl id]
    split
    · rfl
    · exact h
  | insert id' r =>
    have : (l.insert id' r).forward = (l.addRemote id' r).forward := by simp [Links.insert]
    simp only [lstep]
    rw [hasRep_congr this, hasRep_addRemote]; exact h
  | remove id' r =>
    have key := (hasRep_removeCore l id' r id).trans h
    simp only [lstep, Links.remove]
    split
    · split
      · exact (hasRep_congr (l := l.removeCore id' r) rfl id).trans key
      · exact (hasRep_congr (l := l.removeCore id' r) rfl id).trans key
    · exact key
  | removeRemote r =>
    simp only [lstep, Links.removeRemote]
    rw [hasRep_congr (setAgg_forward _), hasRep_foldl_remove]
    exact (hasRep_congr (l := l) rfl id).trans h
  | removeLane id' =>
    have hne : id' ≠ id := by intro hh; apply h1; rw [hh]
    simp only [lstep, Links.removeLane]
    split
    · exact h
    · rename_i e he
      have f := removeLane_fold_fields id' e.remotes (l.dropLane id' e, [])
      rw [hasRep_congr f.1]
      have hf : (l.dropLane id' e).forward = alErase l.forward id' := by
        unfold Links.dropLane; rw [setAgg_forward]; split <;> rfl
      unfold Links.hasRep at h ⊢
      rw [hf, alGet_alErase_ne _ hne]
      exact h
  | removeAll =>
    simp only [lstep, Links.removeAllLinks]
    have bf : l.removeAllBase.forward = l.forward.map clearEntry := by unfold Links.removeAllBase; split <;> rfl
    rw [hasRep_congr (zeroFold_fields l.forward l.removeAllBase).1]
    unfold Links.hasRep at h ⊢
    rw [bf, alGet_map_clearEntry]
    cases hg : alGet l.forward id with
    | none => simp [hg] at h
    | some e => simpa [hg] using h
  | countSingle id' =>
    simp only [lstep]
    rw [hasRep_congr (countSingle_forward l id')]; exact h
  | countBroadcast id' =>
    simp only [lstep]
    rw [hasRep_congr (countBroadcast_forward l id')]; exact h
  | snapshot => exact h

theorem hasRep_lrun (id : Nat) : ∀ (ops : List LOp) (l : Links), l.hasRep id = true →
    (∀ op, op ∈ ops → op ≠ .removeLane id) → (lrun l ops).hasRep id = true := by
  intro ops
  induction ops with
  | nil => intro l h _; exact h
  | cons op rest ih =>
    intro l h hn
    apply ih _ _ (fun o ho => hn o (List.mem_cons_of_mem _ ho))
    exact hasRep_lstep h op (hn op List.mem_cons_self)

/-! ### the runtime's discipline with introspection on -/

/-- Every lane is registered with a reporter; a lane produces responses only once registered and no longer after it
has failed (`n` lanes registered so far, `failed` the lanes that failed). Decidable, on the input alone. -/
def liveOk : Nat → List Nat → List Ev → Bool
  | _, _, [] => true
  | n, failed, e :: rest =>
    match e with
    | .lane _ rep => rep && liveOk (n + 1) failed rest
    | .laneFailed id => liveOk n (id :: failed) rest
    | .event lane _ _ => decide (lane < n) && !failed.contains lane && liveOk n failed rest
    | _ => liveOk n failed rest

structure Live (n : Nat) (failed : List Nat) (s : St) : Prop where
  len : s.reg.length = n
  rep : ∀ id, id < n → id ∉ failed → s.links.hasRep id = true

theorem live_init (agg : Bool) : Live 0 [] { links := { hasAgg := agg } } := ⟨rfl, fun id h => absurd h (by omega)⟩

theorem hasRep_step_keep {s : St} {e : Ev} {id : Nat} (h : s.links.hasRep id = true) (hne : e ≠ .laneFailed id) :
    (step s e).1.links.hasRep id = true := by
  rw [(step_links_reg s e).1]
  apply hasRep_lrun id _ _ h
  intro op hop heq
  subst heq
  exact hne (stepOps_removeLane s e id hop)

theorem hasRep_step_lane (s : St) (name : Nat) : (step s (.lane name true)).1.links.hasRep s.reg.length = true := by
  rw [(step_links_reg s _).1]
  simp only [stepOps, if_true, lrun, List.foldl, lstep]
  rw [hasRep_alSet (l := s.links) (l' := s.links.registerReporter s.reg.length) rfl]
  simp

/-- The state and the bookkeeping of `liveOk` after one event. -/
def liveN (n : Nat) : Ev → Nat
  | .lane _ _ => n + 1
  | _ => n
def liveFailed (failed : List Nat) : Ev → List Nat
  | .laneFailed id => id :: failed
  | _ => failed
def liveHead (n : Nat) (failed : List Nat) : Ev → Bool
  | .lane _ rep => rep
  | .event lane _ _ => decide (lane < n) && !failed.contains lane
  | _ => true

theorem liveOk_cons (n : Nat) (failed : List Nat) (e : Ev) (rest : List Ev) :
    liveOk n failed (e :: rest) = (liveHead n failed e && liveOk (liveN n e) (liveFailed failed e) rest) := by
  cases e <;> simp [liveOk, liveHead, liveN, liveFailed]

theorem live_step {n : Nat} {failed : List Nat} {s : St} (h : Live n failed s) (e : Ev)
    (hh : liveHead n failed e = true) : Live (liveN n e) (liveFailed failed e) (step s e).1 := by
  constructor
  · rw [(step_links_reg s e).2]
    cases e <;> simp [liveN, h.len]
  · intro id hid hnf
    by_cases hfail : e = .laneFailed id
    · subst hfail; simp [liveFailed] at hnf
    · by_cases hlt : id < n
      · have hnf' : id ∉ failed := by
          intro hm; apply hnf; cases e <;> simp [liveFailed, hm]
        exact hasRep_step_keep (h.rep id hlt hnf') hfail
      · -- the lane being registered
        cases e with
        | lane name rep =>
          simp only [liveHead] at hh; subst hh
          simp only [liveN] at hid
          have : id = s.reg.length := by rw [h.len]; omega
          subst this
          exact hasRep_step_lane s name
        | _ => simp only [liveN] at hid; omega

theorem live_evOk {n : Nat} {failed : List Nat} {s : St} (h : Live n failed s) (e : Ev)
    (hh : liveHead n failed e = true) : evOk s e = true := by
  cases e with
  | event lane target resp =>
    cases target with
    | none => rfl
    | some r =>
      simp only [liveHead, Bool.and_eq_true, decide_eq_true_eq] at hh
      simp only [evOk, decide_eq_true_eq, h.len]; exact hh.1
  | _ => rfl

theorem live_envOk : ∀ (evs : List Ev) (n : Nat) (failed : List Nat) (s : St), Live n failed s →
    liveOk n failed evs = true → EnvOk s evs := by
  intro evs
  induction evs with
  | nil => intro n failed s _ _; trivial
  | cons e rest ih =>
    intro n failed s h hl
    rw [liveOk_cons, Bool.and_eq_true] at hl
    exact ⟨live_evOk h e hl.1, ih _ _ _ (live_step h e hl.1) hl.2⟩

end SwimVerif.WT
