/-
C20, event counters of the aggregate reporter over whole write-task runs: what the snapshots returned + what is
still in the counter + the responses that were routed without being counted = the responses routed to remotes.
The only responses routed but not counted are those of a lane that has no entry in the registry at that moment
(`count_single` looks the entry up before `handle_event` creates it) — none when every lane has a reporter.
-/
import SwimVerif.Proofs.LinksWTInv

set_option linter.unusedSimpArgs false
set_option linter.unusedVariables false
namespace SwimVerif.WT

/-! ### `hasAgg` never changes -/

@[simp] theorem updEntry_hasAgg (l : Links) (id : Nat) (e : LaneLinks) (t : Nat) : (l.updEntry id e t).hasAgg = l.hasAgg := by
  unfold Links.updEntry; simp only []; split <;> rfl
@[simp] theorem addRemote_hasAgg (l : Links) (id r : Nat) : (l.addRemote id r).hasAgg = l.hasAgg := by
  unfold Links.addRemote; split <;> simp
@[simp] theorem removeFromLane_hasAgg (l : Links) (id r : Nat) : (l.removeFromLane id r).hasAgg = l.hasAgg := by
  unfold Links.removeFromLane; split <;> (try split) <;> simp

theorem foldl_remove_hasAgg (lanes : List Nat) (r : Nat) : ∀ l : Links,
    (lanes.foldl (fun acc id => acc.removeFromLane id r) l).hasAgg = l.hasAgg := by
  induction lanes with
  | nil => intro l; rfl
  | cons id rest ih => intro l; simp only [List.foldl]; rw [ih]; simp

theorem lstep_hasAgg (l : Links) (op : LOp) : (lstep l op).hasAgg = l.hasAgg := by
  cases op with
  | register id => rfl
  | insert id r => simp [lstep, Links.insert]
  | remove id r =>
    have key : (l.removeCore id r).hasAgg = l.hasAgg := by unfold Links.removeCore; split <;> simp
    simp only [lstep, Links.remove]
    split
    · split <;> exact key
    · exact key
  | removeRemote r => simp only [lstep, Links.removeRemote, setAgg_hasAgg, foldl_remove_hasAgg]
  | removeLane id =>
    simp only [lstep, Links.removeLane]
    split
    · rfl
    · rename_i e he
      rw [(removeLane_fold_fields id e.remotes (l.dropLane id e, [])).2.2.1]
      unfold Links.dropLane
      rw [setAgg_hasAgg]; split <;> rfl
  | removeAll =>
    simp only [lstep, Links.removeAllLinks]
    rw [(zeroFold_fields l.forward l.removeAllBase).2.2.1]
    unfold Links.removeAllBase; split <;> rfl
  | countSingle id =>
    simp only [lstep, Links.countSingle]
    split
    · rename_i e _ _; cases e.hasReporter <;> rfl
    · rfl
  | countBroadcast id =>
    simp only [lstep, Links.countBroadcast]
    split
    · rename_i e _ _; cases e.hasReporter <;> rfl
    · rfl
  | snapshot => rfl

theorem lrun_hasAgg : ∀ (ops : List LOp) (l : Links), (lrun l ops).hasAgg = l.hasAgg := by
  intro ops
  induction ops with
  | nil => intro l; rfl
  | cons op rest ih => intro l; simp only [lrun, List.foldl] at ih ⊢; rw [ih, lstep_hasAgg]

theorem step_hasAgg (s : St) (e : Ev) : (step s e).1.links.hasAgg = s.links.hasAgg := by
  rw [(step_links_reg s e).1, lrun_hasAgg]

theorem run_hasAgg : ∀ (evs : List Ev) (s : St), (run s evs).links.hasAgg = s.links.hasAgg := by
  intro evs
  induction evs with
  | nil => intro s; rfl
  | cons e rest ih => intro s; simp only [run, List.foldl] at ih ⊢; rw [ih, step_hasAgg]

/-! ### what a step reads, routes and misses -/

/-- the event count of the aggregate reporter returned by the snapshot of a step (0 if the step takes none) -/
def snapAgg (o : Out) : Nat :=
  match o.snap with
  | some p => p.1.events
  | none => 0

/-- Responses handed to the uplinks of remotes (`push_write` calls) by one step. -/
def routed (s : St) : Ev → Nat
  | .event lane (some r) _ => if (s.remote? r).isNone then 0 else 1
  | .event lane none _ => (s.links.linkedFrom lane).length
  | _ => 0

/-- `count_single` / `count_broadcast` tell the aggregate reporter: there is one, and the lane has an entry. -/
def Links.countsFor (l : Links) (lane : Nat) : Bool := l.hasAgg && (alGet l.forward lane).isSome

/-- Responses routed by a step that the aggregate reporter is not told about. -/
def missed (s : St) : Ev → Nat
  | .event lane (some r) _ => if (s.remote? r).isNone then 0 else if s.links.countsFor lane then 0 else 1
  | .event lane none _ => if s.links.hasAgg then 0 else (s.links.linkedFrom lane).length
  | _ => 0

theorem step_snap (s : St) (e : Ev) :
    (step s e).2.snap = (match e with | .snapshot => some (s.links.agg, s.links.lane) | _ => none) := by
  cases e with
  | lane name rep => rfl
  | attach r => simp only [step]; split <;> rfl
  | link r name => cases h1 : s.reg.idFor name <;> cases h2 : s.remote? r <;> simp [step, h1, h2]
  | unlink r name =>
    cases h1 : s.reg.idFor name with
    | none => simp [step, h1]
    | some id => cases h2 : s.links.isLinked r id <;> simp [step, h1, h2]
  | unknown r name => rfl
  | event lane target resp =>
    cases target with
    | some r => simp only [step]; split; rfl; split <;> rfl
    | none => simp only [step]; split <;> rfl
  | done r ok =>
    cases h1 : s.remote? r with
    | none => simp only [step, h1, stepOrphan]; split <;> rfl
    | some rem =>
      cases h2 : rem.inflight with
      | none => simp only [step, h1, h2, stepOrphan]; split <;> rfl
      | some w => cases ok <;> simp [step, h1, h2]
  | laneFailed lane => rfl
  | prune r => cases h1 : alGet s.links.backwards r <;> simp [step, h1]
  | stop => rfl
  | snapshot => rfl

theorem step_totalRead (s : St) (e : Ev) : totalRead s.links (stepOps s e) = snapAgg (step s e).2 := by
  unfold snapAgg
  rw [step_snap]
  cases e with
  | lane name rep => cases rep <;> simp [stepOps, totalRead, aggRead]
  | attach r => simp [stepOps, totalRead]
  | link r name =>
    cases h1 : s.reg.idFor name <;> cases h2 : s.remote? r <;> simp [stepOps, linkOps, h1, h2, totalRead, aggRead]
  | unlink r name =>
    cases h1 : s.reg.idFor name with
    | none => simp [stepOps, unlinkOps, h1, totalRead]
    | some id => cases h2 : s.links.isLinked r id <;> simp [stepOps, unlinkOps, h1, h2, totalRead, aggRead]
  | unknown r name => simp [stepOps, totalRead]
  | event lane target resp =>
    cases target with
    | some r =>
      simp only [stepOps, eventOps]
      split
      · simp [totalRead]
      · split <;> simp [totalRead, aggRead]
    | none => simp only [stepOps, eventOps]; split <;> simp [totalRead, aggRead]
  | done r ok =>
    cases h1 : s.remote? r with
    | none => simp [stepOps, doneOps, h1, totalRead]
    | some rem =>
      cases h2 : rem.inflight with
      | none => simp [stepOps, doneOps, h1, h2, totalRead]
      | some w => cases ok <;> simp [stepOps, doneOps, h1, h2, totalRead, aggRead]
  | laneFailed lane => simp [stepOps, totalRead, aggRead]
  | prune r => cases h1 : alGet s.links.backwards r <;> simp [stepOps, pruneOps, h1, totalRead, aggRead]
  | stop => simp [stepOps, totalRead, aggRead]
  | snapshot => simp [stepOps, totalRead, aggRead]

theorem aggAdded_countSingle (l : Links) (lane : Nat) :
    aggAdded l (.countSingle lane) = if l.countsFor lane then 0 + 1 else 0 := by
  unfold aggAdded Links.countsFor
  cases ha : l.hasAgg <;> cases hg : alGet l.forward lane <;> simp [hg]

theorem aggAdded_countBroadcast (l : Links) (lane : Nat) :
    aggAdded l (.countBroadcast lane) = if l.hasAgg then (l.linkedFrom lane).length else 0 := by
  unfold aggAdded Links.linkedFrom
  cases ha : l.hasAgg <;> cases hg : alGet l.forward lane <;> simp [hg]

theorem step_totalAdded (s : St) (e : Ev) : totalAdded s.links (stepOps s e) + missed s e = routed s e := by
  cases e with
  | lane name rep => cases rep <;> simp [stepOps, totalAdded, aggAdded, missed, routed]
  | attach r => simp [stepOps, totalAdded, missed, routed]
  | link r name =>
    cases h1 : s.reg.idFor name <;> cases h2 : s.remote? r <;>
      simp [stepOps, linkOps, h1, h2, totalAdded, aggAdded, missed, routed]
  | unlink r name =>
    cases h1 : s.reg.idFor name with
    | none => simp [stepOps, unlinkOps, h1, totalAdded, missed, routed]
    | some id =>
      cases h2 : s.links.isLinked r id <;> simp [stepOps, unlinkOps, h1, h2, totalAdded, aggAdded, missed, routed]
  | unknown r name => simp [stepOps, totalAdded, missed, routed]
  | event lane target resp =>
    cases target with
    | some r =>
      simp only [stepOps, eventOps, missed, routed]
      by_cases hr : (s.remote? r).isNone = true
      · simp [hr, totalAdded]
      · simp only [hr, if_false]
        have h0 : ∀ l : Links, aggAdded l (.insert lane r) = 0 := fun _ => rfl
        simp only [Bool.false_eq_true, if_false]
        by_cases hl : (s.links.countSingle lane).isLinked r lane = true
        · rw [if_pos hl]
          simp only [totalAdded, aggAdded_countSingle]
          split <;> omega
        · rw [if_neg hl]
          simp only [totalAdded, aggAdded_countSingle, h0]
          split <;> omega
    | none =>
      simp only [stepOps, eventOps, missed, routed]
      split
      · rename_i hemp
        have : (s.links.linkedFrom lane).length = 0 := by simpa using hemp
        simp [totalAdded, this]
      · simp only [totalAdded, aggAdded_countBroadcast]; split <;> omega
  | done r ok =>
    cases h1 : s.remote? r with
    | none => simp [stepOps, doneOps, h1, totalAdded, missed, routed]
    | some rem =>
      cases h2 : rem.inflight with
      | none => simp [stepOps, doneOps, h1, h2, totalAdded, missed, routed]
      | some w => cases ok <;> simp [stepOps, doneOps, h1, h2, totalAdded, aggAdded, missed, routed]
  | laneFailed lane => simp [stepOps, totalAdded, aggAdded, missed, routed]
  | prune r =>
    cases h1 : alGet s.links.backwards r <;> simp [stepOps, pruneOps, h1, totalAdded, aggAdded, missed, routed]
  | stop => simp [stepOps, totalAdded, aggAdded, missed, routed]
  | snapshot => simp [stepOps, totalAdded, aggAdded, missed, routed]

/-- One step: snapshot + new counter + routed-but-uncounted = old counter + routed. -/
theorem step_agg_events (s : St) (e : Ev) :
    snapAgg (step s e).2 + (step s e).1.links.agg.events + missed s e = s.links.agg.events + routed s e := by
  have h1 := counts_conserved (stepOps s e) s.links
  rw [← (step_links_reg s e).1, step_totalRead] at h1
  have h2 := step_totalAdded s e
  omega

/-! ### sums over a run -/

def wtSnapAgg : St → List Ev → Nat
  | _, [] => 0
  | s, e :: rest => snapAgg (step s e).2 + wtSnapAgg (step s e).1 rest

def wtRouted : St → List Ev → Nat
  | _, [] => 0
  | s, e :: rest => routed s e + wtRouted (step s e).1 rest

def wtMissed : St → List Ev → Nat
  | _, [] => 0
  | s, e :: rest => missed s e + wtMissed (step s e).1 rest

theorem run_agg_events : ∀ (evs : List Ev) (s : St),
    wtSnapAgg s evs + (run s evs).links.agg.events + wtMissed s evs = s.links.agg.events + wtRouted s evs := by
  intro evs
  induction evs with
  | nil => intro s; simp [wtSnapAgg, wtMissed, wtRouted, run]
  | cons e rest ih =>
    intro s
    have h1 := ih (step s e).1
    have h2 := step_agg_events s e
    simp only [wtSnapAgg, wtMissed, wtRouted, run, List.foldl] at h1 ⊢
    omega

end SwimVerif.WT
