/-
C09, the incremental path: every streaming token parser is *stable* (once it has answered on the text seen so far, more
input after it changes nothing), hence so is one call of the automaton, hence the decoders give the same result however
the text is cut into chunks — and that result is the one-shot parser's.
-/
import SwimVerif.Model.ReconInc
import SwimVerif.Proofs.Recon

set_option linter.unusedSimpArgs false
set_option linter.unusedVariables false
set_option linter.unusedSectionVars false
namespace SwimVerif.ReconInc
open SwimVerif.Recon SwimVerif.ReconEq

/-- A streaming parser whose verdict on the text seen so far is final: once it has answered `ok` or `err`, more input
after it changes nothing (only `inc` may still become anything). -/
def LxStable {α : Type} (f : List Char → Lx α) : Prop :=
  ∀ p q, (∀ a r, f p = .ok a r → f (p ++ q) = .ok a (r ++ q)) ∧ (f p = .err → f (p ++ q) = .err)

theorem dropWhile_append_of_ne_nil {p : Char → Bool} {l : List Char} (q : List Char) (h : l.dropWhile p ≠ []) :
    (l ++ q).dropWhile p = l.dropWhile p ++ q ∧ (l ++ q).takeWhile p = l.takeWhile p := by
  induction l with
  | nil => simp at h
  | cons c l ih =>
    by_cases hc : p c = true
    · simp only [List.dropWhile, hc, List.cons_append, List.takeWhile] at h ⊢
      obtain ⟨h1, h2⟩ := ih h
      exact ⟨h1, by rw [h2]⟩
    · have hc' : p c = false := by simpa using hc
      simp [List.dropWhile, List.takeWhile, hc']

theorem scanString_append : ∀ (r : List Char) {body rest : List Char} (q : List Char),
    scanString r = some (body, rest) → scanString (r ++ q) = some (body, rest ++ q)
  | [], _, _, _, h => by simp [scanString] at h
  | c :: r, body, rest, q, h => by
    rw [scanString.eq_def] at h ⊢
    simp only [List.cons_append] at h ⊢
    by_cases h1 : c = '"'
    · simp only [h1, ↓reduceIte, Option.some.injEq, Prod.mk.injEq] at h ⊢
      exact ⟨h.1, by rw [h.2]⟩
    · by_cases h2 : c = '\\'
      · simp only [h1, ↓reduceIte, h2] at h ⊢
        cases r with
        | nil => simp at h
        | cons d r' =>
          simp only [List.cons_append] at h ⊢
          cases hs : scanString r' with
          | none => rw [hs] at h; simp at h
          | some pr =>
            rw [hs] at h
            simp only [Option.map_some, Option.some.injEq, Prod.mk.injEq] at h
            rw [scanString_append r' q (show scanString r' = some (pr.1, pr.2) from hs)]
            simp only [show ¬(('\\' : Char) = '"') by decide, ↓reduceIte, Option.map_some, Option.some.injEq,
              Prod.mk.injEq] at h ⊢
            obtain ⟨ha, hb⟩ := h
            subst ha; subst hb; simp
      · simp only [h1, ↓reduceIte, h2] at h ⊢
        cases hs : scanString r with
        | none => rw [hs] at h; simp at h
        | some pr =>
          rw [hs] at h
          simp only [Option.map_some, Option.some.injEq, Prod.mk.injEq] at h
          rw [scanString_append r q (show scanString r = some (pr.1, pr.2) from hs)]
          obtain ⟨ha, hb⟩ := h
          subst ha; subst hb; simp
termination_by r => r.length

theorem lexStr_stable : LxStable lexStr := by
  intro p q
  cases p with
  | nil => constructor <;> (intros; simp_all [lexStr])
  | cons c r =>
    by_cases hc : c = '"'
    · subst hc
      simp only [lexStr, List.cons_append, ↓reduceIte]
      cases hs : scanString r with
      | none => constructor <;> (intros; simp_all)
      | some pr =>
        rw [scanString_append r q (show scanString r = some (pr.1, pr.2) from hs)]
        simp only
        cases unescape pr.1 <;> constructor <;> (intros; simp_all)
    · constructor <;> (intros; simp_all [lexStr])

theorem lexIdentM_stable : LxStable (lexIdentM true) := by
  intro p q
  cases p with
  | nil => constructor <;> (intros; simp_all [lexIdentM])
  | cons c r =>
    by_cases hc : isIdentStart c = true
    · simp only [lexIdentM, List.cons_append, hc, ↓reduceIte, Bool.true_and]
      by_cases he : (r.dropWhile isIdentChar).isEmpty = true
      · constructor <;> (intros; simp_all)
      · have hne : r.dropWhile isIdentChar ≠ [] := by
          intro h; rw [h] at he; simp at he
        obtain ⟨h1, h2⟩ := dropWhile_append_of_ne_nil q hne
        have he' : ((r ++ q).dropWhile isIdentChar).isEmpty = false := by
          rw [h1]; cases hd : r.dropWhile isIdentChar with
          | nil => exact absurd hd hne
          | cons _ _ => simp
        rw [h1] at he'
        simp only [he, Bool.false_eq_true, ↓reduceIte, h1, h2, he']
        constructor
        · intro a r' h; cases h; rfl
        · intro h; cases h
    · constructor <;> (intros; simp_all [lexIdentM])

theorem lineEndM_stable : LxStable lineEndM := by
  intro p q
  unfold lineEndM
  constructor
  · intro a r h
    split at h <;> simp_all
  · intro h
    split at h
    · cases h
    · cases h
    · cases h
    · cases h
    · rename_i h1 h2 h3 h4
      cases p with
      | nil => exact absurd rfl h1
      | cons c r =>
        simp only [List.cons_append]
        split
        · rename_i heq; cases heq
        · rename_i r' heq; simp only [List.cons.injEq] at heq; exact absurd (by rw [heq.1]) (h2 r)
        · rename_i heq
          simp only [List.cons.injEq] at heq
          cases r with
          | nil => exact absurd (by rw [heq.1]) h3
          | cons d r' => simp at heq
        · rename_i r' heq
          simp only [List.cons.injEq] at heq
          cases r with
          | nil => exact absurd (by rw [heq.1]) h3
          | cons d r'' =>
            simp only [List.cons_append, List.cons.injEq] at heq
            exact absurd (by rw [heq.1, heq.2.1]) (h4 r'')
        · rfl


theorem stripSign_append {p : List Char} (hp : p ≠ []) (q : List Char) :
    stripSign (p ++ q) = ((stripSign p).1, (stripSign p).2 ++ q) := by
  cases p with
  | nil => exact absurd rfl hp
  | cons c r =>
    by_cases hc : c = '-'
    · subst hc; simp [stripSign]
    · have h1 : stripSign (c :: r) = (false, c :: r) := by
        unfold stripSign
        split
        · rename_i heq; simp only [List.cons.injEq] at heq; exact absurd heq.1 hc
        · rfl
      have h2 : stripSign (c :: r ++ q) = (false, c :: r ++ q) := by
        unfold stripSign
        split
        · rename_i heq; simp only [List.cons_append, List.cons.injEq] at heq; exact absurd heq.1 hc
        · rfl
      rw [h1, h2]

theorem lexRadixM_stable (tc tC : Char) (isD : Char → Bool) (radix : Nat) :
    LxStable (lexRadixM true tc tC isD radix) := by
  intro p q
  cases p with
  | nil => constructor <;> (intros; simp_all [lexRadixM, stripSign])
  | cons c0 r0 =>
    have hs := stripSign_append (p := c0 :: r0) (by simp) q
    unfold lexRadixM
    rw [hs]
    generalize (stripSign (c0 :: r0)).1 = neg
    generalize (stripSign (c0 :: r0)).2 = s
    cases s with
    | nil => constructor <;> (intros; simp_all)
    | cons c s1 =>
      cases s1 with
      | nil =>
        by_cases hc : c = '0'
        · constructor <;> (intros; simp_all)
        · cases q with
          | nil => constructor <;> (intros; simp_all)
          | cons t q' => constructor <;> (intros; simp_all)
      | cons t r' =>
        simp only [List.cons_append]
        by_cases hcond : c = '0' ∧ (t = tc ∨ t = tC)
        · simp only [hcond, true_and, ↓reduceIte, and_self]
          by_cases hd : r'.dropWhile isD = []
          · rw [hd]
            cases ht : r'.takeWhile isD <;> constructor <;> (intros; simp_all)
          · obtain ⟨h1, h2⟩ := dropWhile_append_of_ne_nil q hd
            rw [h1, h2]
            cases hdd : r'.dropWhile isD with
            | nil => exact absurd hdd hd
            | cons x rest =>
              cases ht : r'.takeWhile isD with
              | nil => constructor <;> (intros; simp_all)
              | cons d ds =>
                simp only [List.cons_append]
                constructor
                · intro a r h; cases h; rfl
                · intro h; cases h
        · simp only [hcond, ↓reduceIte]
          constructor <;> (intros; simp_all)


/-- Closes the routine cases of a stability proof. -/
macro "stab" : tactic =>
  `(tactic| (constructor <;> (intros; simp_all; try (first | done | (subst_vars; simp) | (rename_i h; obtain ⟨_, h2⟩ := h; subst h2; simp)))))

theorem LxStable.ok {α : Type} {f : List Char → Lx α} (h : LxStable f) {p : List Char} {a : α} {r : List Char}
    (hp : f p = .ok a r) (q : List Char) : f (p ++ q) = .ok a (r ++ q) := (h p q).1 a r hp

theorem LxStable.err {α : Type} {f : List Char → Lx α} (h : LxStable f) {p : List Char}
    (hp : f p = .err) (q : List Char) : f (p ++ q) = .err := (h p q).2 hp

theorem lexAttr_tail (nm : List Char) (r' q : List Char) :
    (∀ a r, (match r' with
        | [] => (Lx.inc : Lx (List Char × Bool))
        | p :: r'' => if p = '(' then Lx.ok (nm, true) r'' else Lx.ok (nm, false) (p :: r'')) = .ok a r →
      (match r' ++ q with
        | [] => (Lx.inc : Lx (List Char × Bool))
        | p :: r'' => if p = '(' then Lx.ok (nm, true) r'' else Lx.ok (nm, false) (p :: r'')) = .ok a (r ++ q)) ∧
    ((match r' with
        | [] => (Lx.inc : Lx (List Char × Bool))
        | p :: r'' => if p = '(' then Lx.ok (nm, true) r'' else Lx.ok (nm, false) (p :: r'')) = .err →
      (match r' ++ q with
        | [] => (Lx.inc : Lx (List Char × Bool))
        | p :: r'' => if p = '(' then Lx.ok (nm, true) r'' else Lx.ok (nm, false) (p :: r'')) = .err) := by
  cases r' with
  | nil => stab
  | cons x r'' =>
    simp only [List.cons_append]
    by_cases hx : x = '('
    · simp only [hx, ↓reduceIte]; stab
    · simp only [hx, ↓reduceIte]; stab

theorem lexAttr_stable : LxStable lexAttr := by
  intro p q
  cases p with
  | nil => constructor <;> (intros; simp_all [lexAttr])
  | cons c r =>
    by_cases hc : c = '@'
    · subst hc
      simp only [lexAttr, lexName, List.cons_append, ↓reduceIte]
      cases hs : lexStr r with
      | inc => stab
      | ok nm r' =>
        rw [lexStr_stable.ok hs q]
        exact lexAttr_tail nm r' q
      | err =>
        rw [lexStr_stable.err hs q]
        simp only
        cases hi : lexIdentM true r with
        | inc => stab
        | err => rw [lexIdentM_stable.err hi q]; stab
        | ok nm r' =>
          rw [lexIdentM_stable.ok hi q]
          exact lexAttr_tail nm r' q
    · constructor <;> (intros; simp_all [lexAttr])

theorem peekTerminator_stable : LxStable peekTerminator := by
  intro p q
  cases p with
  | nil => constructor <;> (intros; simp_all [peekTerminator])
  | cons c r =>
    simp only [peekTerminator, List.cons_append]
    by_cases hc : (isSep c || c = ')' || c = '}' || c = ':') = true
    · simp only [hc, ↓reduceIte]; stab
    · simp only [hc, Bool.false_eq_true, ↓reduceIte]
      cases hl : lineEndM (c :: r) with
      | inc => stab
      | err =>
        have := lineEndM_stable.err hl q
        simp only [List.cons_append] at this
        rw [this]; stab
      | ok a b =>
        have := lineEndM_stable.ok hl q
        simp only [List.cons_append] at this
        rw [this]; stab


/-- One call of the automaton is stable: a verdict (`ok` with its events and new stack, `err`, `panic`, `fin`) on the
text seen so far is not changed by more input after it. -/
def StepStable (f : List Char → Step) : Prop :=
  ∀ p q, (∀ evs am st r, f p = .ok evs am st r → f (p ++ q) = .ok evs am st (r ++ q)) ∧
    (f p = .err → f (p ++ q) = .err) ∧ (f p = .panic → f (p ++ q) = .panic) ∧ (f p = .fin → f (p ++ q) = .fin)

macro "sstab" : tactic =>
  `(tactic| (refine ⟨?_, ?_, ?_, ?_⟩ <;>
      (intros; simp_all; try (first | done | (subst_vars; simp) |
        (rename_i h; obtain ⟨_, _, _, h2⟩ := h; subst h2; simp)))))

theorem endBody_append (k : Kind) (evs : List Event) (below : List PS) (rest q : List Char) :
    (∀ e am st r, endBody k evs below rest = .ok e am st r → endBody k evs below (rest ++ q) = .ok e am st (r ++ q)) ∧
    (endBody k evs below rest = .err → endBody k evs below (rest ++ q) = .err) ∧
    (endBody k evs below rest = .panic → endBody k evs below (rest ++ q) = .panic) ∧
    (endBody k evs below rest = .fin → endBody k evs below (rest ++ q) = .fin) := by
  cases k
  · simp only [endBody]; sstab
  · simp only [endBody]
    cases popAfterItem below <;> sstab

theorem attrStep_stable (primary : Bool) (cur : PS) (below : List PS) : StepStable (attrStep primary cur below) := by
  intro p q
  unfold attrStep
  cases hl : lexAttr p with
  | inc => sstab
  | err => rw [lexAttr_stable.err hl q]; sstab
  | ok a r =>
    rw [lexAttr_stable.ok hl q]
    obtain ⟨nm, b⟩ := a
    cases b <;> cases primary <;> sstab


section steps
variable (hP : LxStable (lexPrimM true))
include hP

theorem stepInitS_stable (below : List PS) : StepStable (stepInitS below) := by
  intro p q
  unfold stepInitS
  cases hl : lexPrimM true p with
  | inc => sstab
  | ok e r => rw [hP.ok hl q]; sstab
  | err =>
    rw [hP.err hl q]
    simp only
    have ha := attrStep_stable false .init below p q
    cases hs : attrStep false .init below p with
    | inc => sstab
    | fin => rw [ha.2.2.2 hs]; sstab
    | panic => rw [ha.2.2.1 hs]; sstab
    | ok evs am st r => rw [ha.1 _ _ _ _ hs]; sstab
    | err =>
      rw [ha.2.1 hs]
      simp only
      cases p with
      | nil => simp [lexPrimM, lexStr] at hl
      | cons c r =>
        simp only [List.cons_append]
        by_cases hc : c = '{'
        · subst hc; sstab
        · refine ⟨?_, ?_, ?_, ?_⟩ <;> intro <;> split <;> simp_all

theorem stepAfterAttr_stable (below : List PS) : StepStable (stepAfterAttr below) := by
  intro p q
  unfold stepAfterAttr
  cases hl : lexPrimM true p with
  | inc => sstab
  | ok e r => rw [hP.ok hl q]; cases popAfterItem below <;> sstab
  | err =>
    rw [hP.err hl q]
    simp only
    cases p with
    | nil => simp [lexPrimM, lexStr] at hl
    | cons c r =>
      have ha := attrStep_stable false .afterAttr below (c :: r) q
      cases hs : attrStep false .afterAttr below (c :: r) with
      | inc => sstab
      | fin => rw [ha.2.2.2 hs]; sstab
      | panic => rw [ha.2.2.1 hs]; sstab
      | ok evs am st r' => rw [ha.1 _ _ _ _ hs]; sstab
      | err =>
        rw [ha.2.1 hs]
        simp only [List.cons_append]
        by_cases hc : c = '{'
        · subst hc; sstab
        · have hm : ∀ (t : List Char) (X Y : Step), (match c :: t with | '{' :: rest => X | _ => Y) = Y := by
            intro t X Y; split
            · rename_i heq; simp only [List.cons.injEq] at heq; exact absurd heq.1 hc
            · rfl
          have hpk := peekTerminator_stable (c :: r) q
          simp only [List.cons_append] at hpk
          cases hk : peekTerminator (c :: r) with
          | inc =>
            refine ⟨?_, ?_, ?_, ?_⟩ <;> intro <;> split <;> simp_all
          | err =>
            have := hpk.2 hk
            refine ⟨?_, ?_, ?_, ?_⟩ <;> intro <;> split <;> simp_all
          | ok a b =>
            have := hpk.1 a b hk
            cases popAfterItem below <;>
              (refine ⟨?_, ?_, ?_, ?_⟩ <;> intro <;> split <;> simp_all)

omit hP in
theorem attrOrBrace_stable (cur : PS) (below : List PS) (c : Char) (rest q : List Char) :
    (∀ evs am st r, (match attrStep true cur below (c :: rest) with
        | .err => if c = '{' then Step.ok [.startBody] false (.body .rb .startOrNl :: cur :: below) rest else .err
        | r => r) = .ok evs am st r →
      (match attrStep true cur below (c :: (rest ++ q)) with
        | .err => if c = '{' then Step.ok [.startBody] false (.body .rb .startOrNl :: cur :: below) (rest ++ q) else .err
        | r => r) = .ok evs am st (r ++ q)) ∧
    ((match attrStep true cur below (c :: rest) with
        | .err => if c = '{' then Step.ok [.startBody] false (.body .rb .startOrNl :: cur :: below) rest else .err
        | r => r) = .err →
      (match attrStep true cur below (c :: (rest ++ q)) with
        | .err => if c = '{' then Step.ok [.startBody] false (.body .rb .startOrNl :: cur :: below) (rest ++ q) else .err
        | r => r) = .err) ∧
    ((match attrStep true cur below (c :: rest) with
        | .err => if c = '{' then Step.ok [.startBody] false (.body .rb .startOrNl :: cur :: below) rest else .err
        | r => r) = .panic →
      (match attrStep true cur below (c :: (rest ++ q)) with
        | .err => if c = '{' then Step.ok [.startBody] false (.body .rb .startOrNl :: cur :: below) (rest ++ q) else .err
        | r => r) = .panic) ∧
    ((match attrStep true cur below (c :: rest) with
        | .err => if c = '{' then Step.ok [.startBody] false (.body .rb .startOrNl :: cur :: below) rest else .err
        | r => r) = .fin →
      (match attrStep true cur below (c :: (rest ++ q)) with
        | .err => if c = '{' then Step.ok [.startBody] false (.body .rb .startOrNl :: cur :: below) (rest ++ q) else .err
        | r => r) = .fin) := by
  have ha := attrStep_stable true cur below (c :: rest) q
  simp only [List.cons_append] at ha
  cases hs : attrStep true cur below (c :: rest) with
  | inc => sstab
  | fin => rw [ha.2.2.2 hs]; sstab
  | panic => rw [ha.2.2.1 hs]; sstab
  | ok evs am st r' => rw [ha.1 _ _ _ _ hs]; sstab
  | err => rw [ha.2.1 hs]; by_cases hc : c = '{' <;> sstab

theorem stepNotAfterItem_stable (k : Kind) (req : Bool) (cur : PS) (below : List PS) :
    StepStable (stepNotAfterItem k req cur below) := by
  intro p q
  unfold stepNotAfterItem
  cases hl : lexPrimM true p with
  | inc => sstab
  | ok e r => rw [hP.ok hl q]; sstab
  | err =>
    rw [hP.err hl q]
    simp only
    cases p with
    | nil => simp [lexPrimM, lexStr] at hl
    | cons c rest =>
      simp only [List.cons_append]
      by_cases h1 : isSep c = true
      · simp only [h1, ↓reduceIte]; sstab
      · by_cases h2 : c = ':'
        · simp only [h1, Bool.false_eq_true, ↓reduceIte, h2]; sstab
        · by_cases h3 : c = k.close
          · simp only [h1, Bool.false_eq_true, ↓reduceIte, h2]
            rw [if_pos h3, if_pos h3]
            exact endBody_append k _ below rest q
          · simp only [h1, Bool.false_eq_true, ↓reduceIte, h2, h3]
            exact attrOrBrace_stable cur below c rest q

theorem stepSlotValue_stable (k : Kind) (cur : PS) (below : List PS) : StepStable (stepSlotValue k cur below) := by
  intro p q
  unfold stepSlotValue
  cases hl : lexPrimM true p with
  | inc => sstab
  | ok e r => rw [hP.ok hl q]; sstab
  | err =>
    rw [hP.err hl q]
    simp only
    cases hle : lineEndM p with
    | inc => sstab
    | ok a b => rw [lineEndM_stable.ok hle q]; sstab
    | err =>
      rw [lineEndM_stable.err hle q]
      simp only
      cases p with
      | nil => simp [lexPrimM, lexStr] at hl
      | cons c rest =>
        simp only [List.cons_append]
        by_cases h1 : isSep c = true
        · simp only [h1, ↓reduceIte]; sstab
        · by_cases h3 : c = k.close
          · simp only [h1, Bool.false_eq_true, ↓reduceIte]
            rw [if_pos h3, if_pos h3]
            exact endBody_append k _ below rest q
          · simp only [h1, Bool.false_eq_true, ↓reduceIte, h3]
            exact attrOrBrace_stable cur below c rest q

omit hP in
theorem stepAfterItem_stable (k : Kind) (slotOk : Bool) (below : List PS) : StepStable (stepAfterItem k slotOk below) := by
  intro p q
  unfold stepAfterItem
  cases hle : lineEndM p with
  | inc => sstab
  | ok a b => rw [lineEndM_stable.ok hle q]; sstab
  | err =>
    rw [lineEndM_stable.err hle q]
    simp only
    cases p with
    | nil => simp [lineEndM] at hle
    | cons c rest =>
      simp only [List.cons_append]
      by_cases h1 : isSep c = true
      · simp only [h1, ↓reduceIte]; sstab
      · by_cases h2 : (slotOk && decide (c = ':')) = true
        · simp only [h1, Bool.false_eq_true, ↓reduceIte, h2]; sstab
        · by_cases h3 : c = k.close
          · simp only [h1, Bool.false_eq_true, ↓reduceIte, h2]
            rw [if_pos h3, if_pos h3]
            exact endBody_append k _ below rest q
          · simp only [h1, Bool.false_eq_true, ↓reduceIte, h2, h3]; sstab

end steps


theorem skip_append {f : Char → Bool} {p : List Char} {x : Char} {i1 : List Char} (h : p.dropWhile f = x :: i1)
    (q : List Char) : (p ++ q).dropWhile f = x :: (i1 ++ q) := by
  have := (dropWhile_append_of_ne_nil (p := f) q (l := p) (by rw [h]; simp)).1
  rw [this, h]; rfl

theorem istep_stable (hP : LxStable (lexPrimM true)) (stack : List PS) : StepStable (istep stack) := by
  intro p q
  cases stack with
  | nil => simp only [istep]; sstab
  | cons top below =>
    cases hs : skipSpaces p with
    | nil => simp only [istep, hs]; sstab
    | cons x i1 =>
      have hs' := skip_append (f := isSpace) (p := p) hs q
      have hs'' : skipSpaces (p ++ q) = x :: (i1 ++ q) := hs'
      cases top with
      | init =>
        simp only [istep, hs, hs'']
        cases hm : skipMulti (x :: i1) with
        | nil => simp only [hm]; sstab
        | cons y i2 =>
          have hm' : skipMulti (x :: (i1 ++ q)) = y :: (i2 ++ q) := skip_append (f := isMulti) (p := x :: i1) hm q
          simp only [hm']
          exact stepInitS_stable hP below (y :: i2) q
      | afterAttr =>
        simp only [istep, hs, hs'']
        exact stepAfterAttr_stable hP below (x :: i1) q
      | body k st =>
        cases st with
        | startOrNl =>
          simp only [istep, hs, hs'']
          cases hm : skipMulti (x :: i1) with
          | nil => simp only [hm]; sstab
          | cons y i2 =>
            have hm' : skipMulti (x :: (i1 ++ q)) = y :: (i2 ++ q) := skip_append (f := isMulti) (p := x :: i1) hm q
            simp only [hm']
            exact stepNotAfterItem_stable hP k false _ below (y :: i2) q
        | afterSep =>
          simp only [istep, hs, hs'']
          cases hm : skipMulti (x :: i1) with
          | nil => simp only [hm]; sstab
          | cons y i2 =>
            have hm' : skipMulti (x :: (i1 ++ q)) = y :: (i2 ++ q) := skip_append (f := isMulti) (p := x :: i1) hm q
            simp only [hm']
            exact stepNotAfterItem_stable hP k true _ below (y :: i2) q
        | afterValue =>
          simp only [istep, hs, hs'']
          exact stepAfterItem_stable k true below (x :: i1) q
        | afterSlot =>
          simp only [istep, hs, hs'']
          exact stepAfterItem_stable k false below (x :: i1) q
        | slot =>
          simp only [istep, hs, hs'']
          exact stepSlotValue_stable hP k _ below (x :: i1) q


theorem mu_append (st st' : List PS) (rest p q : List Char) :
    (mu st' (rest ++ q) < mu st (p ++ q)) ↔ (mu st' rest < mu st p) := by
  simp only [mu, List.length_append]; omega

/-- **Chunk insensitivity of `decode_inner`.**  Run it on the text seen so far (`p`): if it asked for more input, the run
on the longer text continues from where it stopped; otherwise the run on the longer text gives the same verdict (with
the extra text left unconsumed). -/
theorem decodeInner_ext (hP : LxStable (lexPrimM true)) (st : List PS) (m : MSt) (p q : List Char) :
    decodeInner st m (p ++ q) =
      (if (decodeInner st m p).2.2.2 = .none then
        decodeInner (decodeInner st m p).1 (decodeInner st m p).2.1 ((decodeInner st m p).2.2.1 ++ q)
       else ((decodeInner st m p).1, (decodeInner st m p).2.1, (decodeInner st m p).2.2.1 ++ q, (decodeInner st m p).2.2.2)) := by
  induction st, m, p using decodeInner.induct with
  | case1 st m p evs am st' rest hs hlt m' hf ih =>
    -- ok step, events fed, continue
    have hst := (istep_stable hP st p q).1 _ _ _ _ hs
    rw [decodeInner.eq_def st m p, decodeInner.eq_def st m (p ++ q)]
    simp only [hs, hst, hlt, (mu_append st st' rest p q).mpr hlt, ↓reduceIte, hf]
    exact ih
  | case2 st m p evs am st' rest hs hlt m' v hf =>
    have hst := (istep_stable hP st p q).1 _ _ _ _ hs
    rw [decodeInner.eq_def st m p, decodeInner.eq_def st m (p ++ q)]
    simp [hs, hst, hlt, (mu_append st st' rest p q).mpr hlt, hf]
  | case3 st m p evs am st' rest hs hlt m' hf =>
    have hst := (istep_stable hP st p q).1 _ _ _ _ hs
    rw [decodeInner.eq_def st m p, decodeInner.eq_def st m (p ++ q)]
    simp [hs, hst, hlt, (mu_append st st' rest p q).mpr hlt, hf]
  | case4 st m p evs am st' rest hs hlt =>
    have hst := (istep_stable hP st p q).1 _ _ _ _ hs
    have hlt' : ¬ mu st' (rest ++ q) < mu st (p ++ q) := fun h => hlt ((mu_append st st' rest p q).mp h)
    rw [decodeInner.eq_def st m p, decodeInner.eq_def st m (p ++ q)]
    simp [hs, hst, hlt, hlt']
  | case5 st m p hs v hfl =>
    have hst := (istep_stable hP st p q).2.2.2 hs
    rw [decodeInner.eq_def st m p, decodeInner.eq_def st m (p ++ q)]
    simp [hs, hst, hfl]
  | case6 st m p hs hfl =>
    have hst := (istep_stable hP st p q).2.2.2 hs
    rw [decodeInner.eq_def st m p, decodeInner.eq_def st m (p ++ q)]
    simp [hs, hst, hfl]
  | case7 st m p hs =>
    rw [decodeInner.eq_def st m p]
    simp [hs]
  | case8 st m p hs =>
    have hst := (istep_stable hP st p q).2.1 hs
    rw [decodeInner.eq_def st m p, decodeInner.eq_def st m (p ++ q)]
    simp [hs, hst]
  | case9 st m p hs =>
    have hst := (istep_stable hP st p q).2.2.1 hs
    rw [decodeInner.eq_def st m p, decodeInner.eq_def st m (p ++ q)]
    simp [hs, hst]


/-- A run that asked for more input is a fixed point: run again on what it left, it asks again at once. -/
theorem decodeInner_none_idem (st : List PS) (m : MSt) (p : List Char) :
    (decodeInner st m p).2.2.2 = .none →
    decodeInner (decodeInner st m p).1 (decodeInner st m p).2.1 (decodeInner st m p).2.2.1 = decodeInner st m p := by
  induction st, m, p using decodeInner.induct with
  | case1 st m p evs am st' rest hs hlt m' hf ih =>
    rw [decodeInner.eq_def st m p]
    simp only [hs, hlt, ↓reduceIte, hf]
    exact ih
  | case2 st m p evs am st' rest hs hlt m' v hf =>
    rw [decodeInner.eq_def st m p]; simp [hs, hlt, hf]
  | case3 st m p evs am st' rest hs hlt m' hf =>
    rw [decodeInner.eq_def st m p]; simp [hs, hlt, hf]
  | case4 st m p evs am st' rest hs hlt =>
    rw [decodeInner.eq_def st m p]; simp [hs, hlt]
  | case5 st m p hs v hfl => rw [decodeInner.eq_def st m p]; simp [hs, hfl]
  | case6 st m p hs hfl => rw [decodeInner.eq_def st m p]; simp [hs, hfl]
  | case7 st m p hs =>
    intro _
    rw [decodeInner.eq_def st m p]
    simp only [hs]
    rw [decodeInner.eq_def st m p]
    simp only [hs]
  | case8 st m p hs => rw [decodeInner.eq_def st m p]; simp [hs]
  | case9 st m p hs => rw [decodeInner.eq_def st m p]; simp [hs]

/-- The bare decoder: feeding the chunks one by one is feeding them all at once. -/
theorem rawRun_merge (hP : LxStable (lexPrimM true)) :
    ∀ (cs : List (List Char)) (d : Raw) (buf c : List Char),
      rawRun d buf (c :: cs) = rawRun d buf [c ++ cs.flatten]
  | [], d, buf, c => by simp
  | c2 :: cs', d, buf, c => by
    have ih := rawRun_merge hP cs'
    have hext := decodeInner_ext hP d.stack d.m (buf ++ c) (c2 ++ cs'.flatten)
    have hflat : (c2 :: cs').flatten = c2 ++ cs'.flatten := by simp
    rw [hflat]
    rw [rawRun, rawRun]
    simp only [Raw.decode]
    rw [show buf ++ (c ++ (c2 ++ cs'.flatten)) = (buf ++ c) ++ (c2 ++ cs'.flatten) by simp]
    rw [hext]
    cases hd : decodeInner d.stack d.m (buf ++ c) with
    | mk st' r1 =>
      obtain ⟨m', rest, o⟩ := r1
      cases o with
      | none =>
        simp only [↓reduceIte]
        rw [ih { stack := st', m := m' } rest c2, rawRun]
        simp only [Raw.decode]
        rcases h2 : decodeInner st' m' (rest ++ (c2 ++ cs'.flatten)) with ⟨a, b, r, o2⟩
        cases o2 <;> simp
      | value v => simp
      | err => simp
      | panic => simp
      | fuel => simp


/-- What `ParseIterator` + `parse_recognize_with` do when the incremental parser says `Incomplete`. -/
def finalOne (st : List PS) (m : MSt) (inp : List Char) : Out :=
  match finalStep st inp with
  | .ok evs _ _ _ =>
    (match feedAll m evs with
     | (m', none) => (match m'.flush with | some v => .value v | none => .err)
     | (_, some (some v)) => .value v
     | (_, some none) => .err)
  | .panic => .panic
  | _ => .err

/-- The one-shot parser is `decode_inner` on the whole text, then the final-segment parser if it asked for more. -/
theorem oneFrom_eq (st : List PS) (m : MSt) (T : List Char) :
    oneFrom st m T =
      (match decodeInner st m T with
       | (st', m', rest, .none) => finalOne st' m' rest
       | (_, _, _, o) => o) := by
  induction st, m, T using decodeInner.induct with
  | case1 st m p evs am st' rest hs hlt m' hf ih =>
    rw [oneFrom.eq_def, decodeInner.eq_def st m p]
    simp only [hs, hlt, ↓reduceIte, hf]
    exact ih
  | case2 st m p evs am st' rest hs hlt m' v hf =>
    rw [oneFrom.eq_def, decodeInner.eq_def st m p]; simp [hs, hlt, hf]
  | case3 st m p evs am st' rest hs hlt m' hf =>
    rw [oneFrom.eq_def, decodeInner.eq_def st m p]; simp [hs, hlt, hf]
  | case4 st m p evs am st' rest hs hlt =>
    rw [oneFrom.eq_def, decodeInner.eq_def st m p]; simp [hs, hlt]
  | case5 st m p hs v hfl => rw [oneFrom.eq_def, decodeInner.eq_def st m p]; simp [hs, hfl]
  | case6 st m p hs hfl => rw [oneFrom.eq_def, decodeInner.eq_def st m p]; simp [hs, hfl]
  | case7 st m p hs =>
    rw [oneFrom.eq_def, decodeInner.eq_def st m p]
    simp only [hs, finalOne]
    cases hfs : finalStep st p with
    | ok evs am' st2 r2 =>
      simp only
      rcases hfa : feedAll m evs with ⟨m', o⟩
      cases o with
      | none => simp only; cases m'.flush <;> rfl
      | some r => cases r <;> rfl
    | fin => rfl
    | inc => rfl
    | err => rfl
    | panic => rfl
  | case8 st m p hs => rw [oneFrom.eq_def, decodeInner.eq_def st m p]; simp [hs]
  | case9 st m p hs => rw [oneFrom.eq_def, decodeInner.eq_def st m p]; simp [hs]


theorem finalStep_ne_inc (st : List PS) (inp : List Char) : finalStep st inp ≠ .inc := by
  unfold finalStep
  repeat' split
  all_goals (intro h; cases h)

theorem finalStep_noFinal {st : List PS} (h : hasFinal st = false) (inp : List Char) : finalStep st inp = .err := by
  unfold finalStep
  split
  · simp [hasFinal] at h
  · simp [hasFinal] at h
  · rfl

/-- "Need more input" at the very end of the input counts as an error. -/
def cls : Out → Out
  | .none => .err
  | o => o

/-- The recogniser cannot be flushed while the parser is in a nested state: when `decode_inner`, started afresh, stops
asking for more input with a stack other than `[Init]` / `[AfterAttr]`, `try_flush` has nothing to give. -/
def FlushCoupled : Prop :=
  ∀ (T : List Char) (st : List PS) (m : MSt) (rest : List Char),
    decodeInner [.init] {} T = (st, m, rest, .none) → hasFinal st = false → m.flush = none

/-- End of input for a decoder that asked for more: `decode_eof` and the one-shot parser's final step agree. -/
theorem decodeEof_eq_finalOne (st : List PS) (m : MSt) (rest : List Char)
    (hD : decodeInner st m rest = (st, m, rest, .none)) (hfl : hasFinal st = false → m.flush = none) :
    cls (({ stack := st, m := m } : Raw).decodeEof rest rest.isEmpty).2 = cls (finalOne st m rest) := by
  simp only [Raw.decodeEof, hD, finalOne]
  cases hf : hasFinal st with
  | false =>
    simp only [Bool.false_eq_true, ↓reduceIte, hfl hf, finalStep_noFinal hf]
    cases rest.isEmpty <;> rfl
  | true =>
    simp only [↓reduceIte]
    cases hfs : finalStep st rest with
    | inc => exact absurd hfs (finalStep_ne_inc st rest)
    | fin => rfl
    | err => rfl
    | panic => rfl
    | ok evs am st2 rem2 =>
      simp only
      rcases hfa : feedAll m evs with ⟨m', o⟩
      cases o with
      | some r => cases r <;> rfl
      | none =>
        simp only
        cases am with
        | true => simp only [↓reduceIte]; cases m'.flush <;> rfl
        | false =>
          simp only [Bool.false_eq_true, ↓reduceIte]
          cases m'.flush with
          | some v => rfl
          | none => cases rest.isEmpty <;> rfl


/-- The whole text in one chunk, then end of input: the one-shot parser's result. -/
theorem rawRun_single (hC : FlushCoupled) (T : List Char) :
    cls (rawRun {} [] [T]) = cls (parseOne T) := by
  rw [rawRun, parseOne, oneFrom_eq]
  simp only [Raw.decode, List.nil_append]
  rcases hD : decodeInner [.init] {} T with ⟨st, m, rest, o⟩
  cases o with
  | none =>
    simp only [rawRun]
    have hid := decodeInner_none_idem [.init] {} T (by rw [hD])
    rw [hD] at hid
    simp only at hid
    exact decodeEof_eq_finalOne st m rest hid (hC T st m rest hD)
  | value v => rfl
  | err => rfl
  | panic => rfl
  | fuel => rfl

/-- **Incremental = one-shot (bare decoder, characters).**  However the text is cut into chunks, `decode` after every
chunk and `decode_eof` at the end give the one-shot parser's result (`Ok(None)` at the end of the input counted as an
error). -/
theorem rawRun_eq_parseOne (hP : LxStable (lexPrimM true)) (hC : FlushCoupled) (c : List Char) (cs : List (List Char)) :
    cls (rawRun {} [] (c :: cs)) = cls (parseOne (c :: cs).flatten) := by
  rw [rawRun_merge hP cs {} [] c]
  have : (c :: cs).flatten = c ++ cs.flatten := by simp
  rw [this]
  exact rawRun_single hC _


/-! ## `WithLenRecognizerDecoder`: a frame costs exactly its announced length -/

/-- Bytes of the current frame body the decoder still has to take from the input (`none` = between frames). -/
def WLState.owed : WLState → Option Nat
  | .header => none
  | .body r => some r
  | .afterBody r _ => some r
  | .discarding r _ => some r

theorem decodeB_len (d : Raw) (buf : List Nat) : (d.decodeB buf).2.1.length ≤ buf.length := by
  unfold Raw.decodeB
  split
  · simp
  · split; simp only [List.length_drop]; omega

theorem decodeEofB_len (d : Raw) (buf : List Nat) : (d.decodeEofB buf).2.1.length ≤ buf.length := by
  unfold Raw.decodeEofB
  split
  · simp
  · split; simp only [List.length_drop]; omega

/-- `consume_bounded` takes from the buffer exactly the bytes it reports, never more than the message still has. -/
theorem consumeBounded_spec (inner : Raw) (remaining : Nat) (src : List Nat) :
    (consumeBounded inner remaining src).2.1.length ≤ src.length ∧
    src.length - (consumeBounded inner remaining src).2.1.length = (consumeBounded inner remaining src).2.2.1 ∧
    (consumeBounded inner remaining src).2.2.1 ≤ remaining := by
  simp only [consumeBounded]
  have hpart : (src.take (min remaining src.length)).length = min remaining src.length := by
    simp only [List.length_take]; omega
  have hr : ∀ r : Raw × List Nat × Out, r.2.1.length ≤ (src.take (min remaining src.length)).length →
      (if remaining = (src.take (min remaining src.length)).length - r.2.1.length then src.drop (min remaining src.length)
        else r.2.1 ++ src.drop (min remaining src.length)).length ≤ src.length ∧
      src.length - (if remaining = (src.take (min remaining src.length)).length - r.2.1.length then
          src.drop (min remaining src.length) else r.2.1 ++ src.drop (min remaining src.length)).length =
        (src.take (min remaining src.length)).length - r.2.1.length ∧
      (src.take (min remaining src.length)).length - r.2.1.length ≤ remaining := by
    intro r hle
    rw [hpart] at hle ⊢
    split
    · simp only [List.length_drop]; omega
    · simp only [List.length_append, List.length_drop]; omega
  by_cases he : remaining ≤ (src.take (min remaining src.length)).length
  · simp only [he, ↓reduceIte]
    exact hr _ (decodeEofB_len inner _)
  · simp only [he, ↓reduceIte]
    exact hr _ (decodeB_len inner _)

/-- What one `decode` call does to a frame that still owes `r` bytes. -/
structure Accounted (r : Nat) (src : List Nat) (res : WL × List Nat × Out) : Prop where
  len : res.2.1.length ≤ src.length
  /-- the frame is finished exactly when its `r` bytes have been taken — not one more -/
  done : res.1.state = .header → src.length - res.2.1.length = r
  /-- otherwise the debt shrinks by what was taken, and nothing is delivered yet -/
  more : res.1.state ≠ .header →
    res.1.state.owed = some (r - (src.length - res.2.1.length)) ∧ src.length - res.2.1.length ≤ r ∧ res.2.2 = .none

theorem WL_decode_owed : ∀ (fuel : Nat) (w : WL) (src : List Nat) (r : Nat), w.state.owed = some r →
    w.state ≠ .header → Accounted r src (WL.decode fuel w src)
  | 0, w, src, r, h, hne => by
    refine ⟨by simp [WL.decode], fun hh => absurd hh (by simpa [WL.decode] using hne), fun _ => ?_⟩
    simp [WL.decode, h]
  | fuel + 1, w, src, r, h, hne => by
    cases hs : w.state with
    | header => exact absurd hs hne
    | afterBody rem v =>
      rw [hs] at h; simp only [WLState.owed, Option.some.injEq] at h; subst h
      simp only [WL.decode, hs]
      by_cases hle : rem ≤ src.length
      · simp only [hle, ↓reduceIte]
        refine ⟨?_, ?_, ?_⟩
        · simp
        · intro _; simp only [List.length_drop]; omega
        · intro hh; exact absurd rfl hh
      · simp only [hle, ↓reduceIte]
        refine ⟨?_, ?_, ?_⟩
        · simp
        · intro hh; cases hh
        · intro _
          refine ⟨?_, ?_, rfl⟩
          · simp only [WLState.owed, List.length_nil, Option.some.injEq]; omega
          · simp only [List.length_nil]; omega
    | discarding rem e =>
      rw [hs] at h; simp only [WLState.owed, Option.some.injEq] at h; subst h
      simp only [WL.decode, hs]
      by_cases hle : rem ≤ src.length
      · simp only [hle, ↓reduceIte]
        refine ⟨?_, ?_, ?_⟩
        · simp
        · intro _; simp only [List.length_drop]; omega
        · intro hh; exact absurd rfl hh
      · simp only [hle, ↓reduceIte]
        refine ⟨?_, ?_, ?_⟩
        · simp
        · intro hh; cases hh
        · intro _
          refine ⟨?_, ?_, rfl⟩
          · simp only [WLState.owed, List.length_nil, Option.some.injEq]; omega
          · simp only [List.length_nil]; omega
    | body rem =>
      rw [hs] at h; simp only [WLState.owed, Option.some.injEq] at h; subst h
      obtain ⟨c1, c2, c3⟩ := consumeBounded_spec w.inner rem src
      simp only [WL.decode, hs]
      rcases hcb : consumeBounded w.inner rem src with ⟨inner', src', consumed, o⟩
      rw [hcb] at c1 c2 c3
      simp only at c1 c2 c3
      -- after an error: skip the rest of the frame
      have herr : ∀ e : Out, Accounted rem src
          (if rem - consumed ≤ src'.length then
            (({ inner := inner', state := .header } : WL), src'.drop (rem - consumed), e)
           else WL.decode fuel { inner := inner', state := .discarding (rem - consumed - src'.length) e } []) := by
        intro e
        by_cases hle : rem - consumed ≤ src'.length
        · simp only [hle, ↓reduceIte]
          refine ⟨?_, ?_, ?_⟩
          · simp only [List.length_drop]; omega
          · intro _; simp only [List.length_drop]; omega
          · intro hh; exact absurd rfl hh
        · simp only [hle, ↓reduceIte]
          have ih := WL_decode_owed fuel { inner := inner', state := .discarding (rem - consumed - src'.length) e } []
            (rem - consumed - src'.length) rfl (by simp)
          refine ⟨?_, ?_, ?_⟩
          · have := ih.len; simp only [List.length_nil] at this; omega
          · intro hh
            have := ih.done hh
            have hl := ih.len
            simp only [List.length_nil] at this hl
            omega
          · intro hh
            obtain ⟨i1, i2, i3⟩ := ih.more hh
            have hl := ih.len
            simp only [List.length_nil] at i1 i2 hl
            refine ⟨?_, ?_, i3⟩
            · rw [i1]; congr 1; omega
            · omega
      cases o with
      | value v =>
        simp only
        have ih := WL_decode_owed fuel { inner := inner', state := .afterBody (rem - consumed) (.value v) } src'
          (rem - consumed) rfl (by simp)
        refine ⟨?_, ?_, ?_⟩
        · have := ih.len; omega
        · intro hh; have := ih.done hh; have hl := ih.len; omega
        · intro hh
          obtain ⟨i1, i2, i3⟩ := ih.more hh
          have hl := ih.len
          refine ⟨?_, ?_, i3⟩
          · rw [i1]; congr 1; omega
          · omega
      | none =>
        simp only
        refine ⟨?_, ?_, ?_⟩
        · exact c1
        · intro hh; cases hh
        · intro _
          refine ⟨?_, ?_, rfl⟩
          · show some (rem - consumed) = some (rem - (src.length - src'.length)); congr 1; omega
          · show src.length - src'.length ≤ rem; omega
      | err => exact herr .err
      | panic => exact herr .panic
      | fuel => exact herr .fuel


/-- **A frame costs its header and exactly its announced length.**  One `decode` call on a decoder that is between
frames: with fewer than 8 bytes nothing happens; otherwise the frame announces `n = beNat (first 8 bytes)`, it is
finished exactly when `8 + n` bytes have been taken, and until then nothing is delivered. -/
theorem WL_frame (fuel : Nat) (w : WL) (src : List Nat) (hw : w.state = .header) (h8 : 8 ≤ src.length) :
    let res := WL.decode (fuel + 1) w src
    res.2.1.length ≤ src.length ∧
    (res.1.state = .header → src.length - res.2.1.length = 8 + beNat (src.take 8)) ∧
    (res.1.state ≠ .header →
      res.1.state.owed = some (8 + beNat (src.take 8) - (src.length - res.2.1.length)) ∧
      src.length - res.2.1.length ≤ 8 + beNat (src.take 8) ∧ res.2.2 = .none) := by
  have hlt : ¬ src.length < 8 := by omega
  simp only [WL.decode, hw, hlt, ↓reduceIte]
  have ih := WL_decode_owed fuel { w with state := .body (beNat (src.take 8)) } (src.drop 8) (beNat (src.take 8)) rfl
    (by simp)
  have hl := ih.len
  simp only [List.length_drop] at hl
  refine ⟨by omega, ?_, ?_⟩
  · intro hh
    have := ih.done hh
    simp only [List.length_drop] at this
    omega
  · intro hh
    obtain ⟨i1, i2, i3⟩ := ih.more hh
    simp only [List.length_drop] at i1 i2
    refine ⟨?_, ?_, i3⟩
    · rw [i1]; congr 1; omega
    · omega

/-! ## floats and blobs: the remaining streaming tokens -/

theorem stripPlusMinus_append {p : List Char} (hp : p ≠ []) (q : List Char) :
    stripPlusMinus (p ++ q) = ((stripPlusMinus p).1, (stripPlusMinus p).2 ++ q) := by
  cases p with
  | nil => exact absurd rfl hp
  | cons c r =>
    by_cases h1 : c = '-'
    · subst h1; simp [stripPlusMinus]
    · by_cases h2 : c = '+'
      · subst h2; simp [stripPlusMinus]
      · have e1 : ∀ t : List Char, stripPlusMinus (c :: t) = (false, c :: t) := by
          intro t; unfold stripPlusMinus
          split
          · rename_i heq; simp only [List.cons.injEq] at heq; exact absurd heq.1 h1
          · rename_i heq; simp only [List.cons.injEq] at heq; exact absurd heq.1 h2
          · rfl
        rw [List.cons_append, e1, e1]; rfl

/-- The optional exponent, when the streaming parser does not run into the end of the input. -/
theorem exponent_ext {r : List Char} (h : expInc r = false) (q : List Char) :
    expInc (r ++ q) = false ∧
    lexExponent (r ++ q) = (lexExponent r).map (fun t => (t.1, t.2.1, t.2.2 ++ q)) := by
  cases r with
  | nil => simp [expInc] at h
  | cons c r' =>
    simp only [List.cons_append]
    by_cases hc : c = 'e' ∨ c = 'E'
    · simp only [expInc, hc, ↓reduceIte] at h ⊢
      simp only [lexExponent, hc, ↓reduceIte]
      cases r' with
      | nil => simp at h
      | cons s r'' =>
        simp only [List.cons_append] at h ⊢
        have hsp := stripPlusMinus_append (p := s :: r'') (by simp) q
        simp only [List.cons_append] at hsp
        rw [hsp]
        simp only
        generalize (stripPlusMinus (s :: r'')).2 = r3 at h ⊢
        generalize (stripPlusMinus (s :: r'')).1 = en
        have hne : r3.dropWhile isDigit ≠ [] := by
          intro h0; rw [h0] at h; simp at h
        obtain ⟨h1, h2⟩ := dropWhile_append_of_ne_nil q hne
        rw [h1, h2]
        cases hd : r3.dropWhile isDigit with
        | nil => exact absurd hd hne
        | cons x xs =>
          constructor
          · simp
          · cases ht : r3.takeWhile isDigit <;> simp
    · simp only [expInc, hc, ↓reduceIte, lexExponent]
      simp


theorem fltInc_eq (inp : List Char) : fltInc inp = fltIncBody (stripPlusMinus inp).2 := rfl

theorem map_lexExponent {r q : List Char} {neg : Bool} {I Fr : List Char}
    (h : lexExponent (r ++ q) = (lexExponent r).map (fun t => (t.1, t.2.1, t.2.2 ++ q))) :
    (match lexExponent (r ++ q) with
      | some (en, eds, rest) => some (mkFloat neg I Fr en eds, rest)
      | none => none) =
    (match lexExponent r with
      | some (en, eds, rest) => some (mkFloat neg I Fr en eds, rest)
      | none => none).map (fun (t : Value × List Char) => (t.1, t.2 ++ q)) := by
  rw [h]
  cases lexExponent r with
  | none => rfl
  | some t => obtain ⟨a, b, c⟩ := t; rfl

/-- The float body, when the streaming parser does not run into the end of the input. -/
theorem floatBody_ext (neg : Bool) {r : List Char} (h : fltIncBody r = false) (q : List Char) :
    fltIncBody (r ++ q) = false ∧
    lexFloatBody neg (r ++ q) = (lexFloatBody neg r).map (fun t => (t.1, t.2 ++ q)) := by
  cases r with
  | nil => simp [fltIncBody] at h
  | cons c0 r0 =>
    by_cases hd0 : (c0 :: r0).dropWhile isDigit = []
    · -- all digits: incomplete
      exfalso
      unfold fltIncBody at h
      simp only [hd0] at h
      cases ht : (c0 :: r0).takeWhile isDigit with
      | nil =>
        have := List.takeWhile_append_dropWhile (p := isDigit) (l := c0 :: r0)
        rw [ht, hd0] at this; simp at this
      | cons a b => rw [ht] at h; simp at h
    · obtain ⟨e1, e2⟩ := dropWhile_append_of_ne_nil q hd0
      cases hdr : (c0 :: r0).dropWhile isDigit with
      | nil => exact absurd hdr hd0
      | cons x r1 =>
        cases ht : (c0 :: r0).takeWhile isDigit with
        | cons d ds =>
          -- integer digits, then `x`
          unfold fltIncBody lexFloatBody at *
          simp only [List.cons_append] at e1 e2 ⊢
          simp only [ht, hdr] at h
          simp only [e1, e2, ht, hdr, List.cons_append]
          by_cases hx : x = '.'
          · subst hx
            simp only at h ⊢
            by_cases hemp : (r1.dropWhile isDigit).isEmpty = true
            · simp [hemp] at h
            · have hne : r1.dropWhile isDigit ≠ [] := by intro h0; rw [h0] at hemp; simp at hemp
              obtain ⟨g1, g2⟩ := dropWhile_append_of_ne_nil q hne
              simp only [hemp, Bool.false_eq_true, ↓reduceIte] at h
              obtain ⟨x1, x2⟩ := exponent_ext h q
              have hemp' : ((r1.dropWhile isDigit ++ q).isEmpty) = false := by
                cases hh : r1.dropWhile isDigit with
                | nil => exact absurd hh hne
                | cons _ _ => simp
              simp only [g1, g2, hemp', Bool.false_eq_true, ↓reduceIte, x1, true_and]
              exact map_lexExponent x2
          · simp [hx] at h
            obtain ⟨x1, x2⟩ := exponent_ext h q
            simp only [List.cons_append] at x1 x2
            simp [hx, x1]
            rw [x2]
            cases lexExponent (x :: r1) with
            | none => rfl
            | some t => obtain ⟨a, b, c⟩ := t; rfl
        | nil =>
          -- no integer digits: `.digits` or nothing
          have hc0 : isDigit c0 = false := by
            cases hdg : isDigit c0 with
            | false => rfl
            | true => simp [List.takeWhile, hdg] at ht
          have hxr : x = c0 ∧ r1 = r0 := by
            simp [List.dropWhile, hc0] at hdr; exact ⟨hdr.1.symm, hdr.2.symm⟩
          obtain ⟨rfl, rfl⟩ := hxr
          unfold fltIncBody lexFloatBody at *
          simp only [List.cons_append] at e1 e2 ⊢
          simp only [ht, hdr] at h
          simp only [e1, e2, ht, hdr, List.cons_append]
          by_cases hx : x = '.'
          · subst hx
            simp only at h ⊢
            cases hdr2 : r1.dropWhile isDigit with
            | nil => simp [hdr2] at h
            | cons y r3 =>
              have hne : r1.dropWhile isDigit ≠ [] := by rw [hdr2]; simp
              obtain ⟨g1, g2⟩ := dropWhile_append_of_ne_nil q hne
              rw [hdr2] at g1
              cases ht2 : r1.takeWhile isDigit with
              | nil => simp [ht2, hdr2, g1, g2]
              | cons f fs =>
                simp [ht2, hdr2] at h
                obtain ⟨x1, x2⟩ := exponent_ext h q
                simp only [List.cons_append] at x1 x2
                simp [ht2, hdr2, g1, g2, x1]
                rw [x2]
                cases lexExponent (y :: r3) with
                | none => rfl
                | some t => obtain ⟨a, b, c⟩ := t; rfl
          · simp [hx]


theorem lexFloatM_stable : LxStable (lexFloatM true) := by
  intro p q
  unfold lexFloatM
  by_cases hinc : fltInc p = true
  · simp only [hinc, Bool.and_self, ↓reduceIte]; stab
  · have hinc' : fltInc p = false := by simpa using hinc
    have hp : p ≠ [] := by intro h; subst h; simp [fltInc, fltIncBody, stripPlusMinus] at hinc'
    rw [fltInc_eq] at hinc'
    obtain ⟨b1, b2⟩ := floatBody_ext (stripPlusMinus p).1 hinc' q
    have hsp := stripPlusMinus_append hp q
    have hincq : fltInc (p ++ q) = false := by rw [fltInc_eq, hsp]; exact b1
    have hlf : lexFloat (p ++ q) = (lexFloat p).map (fun t => (t.1, t.2 ++ q)) := by
      unfold lexFloat; rw [hsp]; exact b2
    have hincp : fltInc p = false := by rw [fltInc_eq]; exact hinc'
    simp only [hincp, hincq, Bool.and_false, Bool.false_eq_true, ↓reduceIte, hlf, Bool.true_and]
    cases hl : lexFloat p with
    | none => stab
    | some t =>
      obtain ⟨v, rest⟩ := t
      simp only [Option.map_some]
      cases v with
      | float f =>
        simp only
        cases rest with
        | nil => stab
        | cons x xs => stab
      | _ => stab


theorem lexDecimalM_stable : LxStable (lexDecimalM true) := by
  intro p q
  cases p with
  | nil => constructor <;> (intros; simp_all [lexDecimalM])
  | cons c0 r0 =>
    have hs := stripSign_append (p := c0 :: r0) (by simp) q
    have hfl := lexFloatM_stable (c0 :: r0) q
    simp only [List.cons_append] at hs hfl
    unfold lexDecimalM
    simp only [List.cons_append, hs]
    generalize (stripSign (c0 :: r0)).1 = neg
    cases hs2 : (stripSign (c0 :: r0)).2 with
    | nil => stab
    | cons x r =>
      simp only [List.cons_append]
      by_cases hd : (x :: r).dropWhile isDigit = []
      · -- only digits so far
        have ht : (x :: r).takeWhile isDigit = x :: r := by
          have := List.takeWhile_append_dropWhile (p := isDigit) (l := x :: r)
          rw [hd, List.append_nil] at this; exact this
        rw [hd, ht]; stab
      · obtain ⟨e1, e2⟩ := dropWhile_append_of_ne_nil q hd
        simp only [List.cons_append] at e1 e2
        rw [e1, e2]
        cases hdr : (x :: r).dropWhile isDigit with
        | nil => exact absurd hdr hd
        | cons c rest =>
          simp only [List.cons_append]
          cases ht : (x :: r).takeWhile isDigit with
          | nil => exact hfl
          | cons d ds =>
            simp only
            by_cases hc : c = '.' ∨ c = 'e' ∨ c = 'E'
            · simp only [hc, ↓reduceIte]; exact hfl
            · simp only [hc, ↓reduceIte]; stab

theorem lexNumM_stable : LxStable (lexNumM true) := by
  intro p q
  cases p with
  | nil => constructor <;> (intros; simp_all [lexNumM])
  | cons c0 r0 =>
    have hb := lexRadixM_stable 'b' 'B' isBinDigit 2 (c0 :: r0) q
    have hx := lexRadixM_stable 'x' 'X' isHexDigit 16 (c0 :: r0) q
    have hd := lexDecimalM_stable (c0 :: r0) q
    simp only [List.cons_append] at hb hx hd
    unfold lexNumM
    simp only [List.cons_append]
    cases h1 : lexRadixM true 'b' 'B' isBinDigit 2 (c0 :: r0) with
    | inc => stab
    | ok a r => rw [hb.1 a r h1]; stab
    | err =>
      rw [hb.2 h1]
      simp only
      cases h2 : lexRadixM true 'x' 'X' isHexDigit 16 (c0 :: r0) with
      | inc => stab
      | ok a r => rw [hx.1 a r h2]; stab
      | err => rw [hx.2 h2]; exact hd


/-- Four characters that are not a whole base64 block: what `lexB64` does depends on them only; the tail passes through. -/
theorem lexB64_nonblock (a b c d : Char) (t q : List Char) (f f' : Nat)
    (h : (isB64 a && isB64 b && isB64 c && isB64 d) = false) :
    lexB64 (f' + 1) (a :: b :: c :: d :: (t ++ q)) =
      (lexB64 (f + 1) (a :: b :: c :: d :: t)).map (fun r => (r.1, r.2 ++ q)) := by
  simp only [isB64] at h
  simp only [lexB64]
  cases ha : b64Val? a <;> cases hb : b64Val? b <;> cases hc : b64Val? c <;> cases hd : b64Val? d <;>
    simp_all <;> (repeat' split) <;> simp_all


set_option maxHeartbeats 1000000 in
/-- Fewer than four characters that cannot be the beginning of anything base64: nothing is taken, whatever follows. -/
theorem b64_short (r q : List Char) (f f' : Nat) (hlen : r.length < 4) (hall : r.all isB64 = false)
    (hfin : b64FinalInc r = false) :
    b64Inc (f' + 1) (r ++ q) = false ∧ lexB64 (f' + 1) (r ++ q) = some ([], r ++ q) ∧ lexB64 (f + 1) r = some ([], r) := by
  rcases r with _ | ⟨a, _ | ⟨b, _ | ⟨c, _ | ⟨d, r'⟩⟩⟩⟩
  · simp at hall
  · -- [a]
    simp only [List.all_cons, List.all_nil, Bool.and_true, b64FinalInc] at hall hfin
    rcases q with _ | ⟨x, _ | ⟨y, _ | ⟨z, q'⟩⟩⟩ <;>
      simp_all [b64Inc, b64FinalInc, lexB64, isB64] <;> (cases h : b64Val? a <;> simp_all)
  · -- [a, b]
    simp only [List.all_cons, List.all_nil, Bool.and_true, b64FinalInc] at hall hfin
    rcases q with _ | ⟨x, _ | ⟨y, q'⟩⟩ <;>
      simp_all [b64Inc, b64FinalInc, lexB64, isB64] <;>
      (cases h : b64Val? a <;> cases h2 : b64Val? b <;> simp_all)
  · -- [a, b, c]
    simp only [List.all_cons, List.all_nil, Bool.and_true, b64FinalInc] at hall hfin
    rcases q with _ | ⟨x, q'⟩ <;>
      simp_all [b64Inc, b64FinalInc, lexB64, isB64] <;>
      (cases h : b64Val? a <;> cases h2 : b64Val? b <;> cases h3 : b64Val? c <;> simp_all) <;>
      (try (cases h4 : b64Val? x <;> simp_all))
  · simp at hlen; omega


theorem isB64_some {c : Char} (h : isB64 c = true) : ∃ x, b64Val? c = some x := by
  simp only [isB64] at h
  cases hb : b64Val? c with
  | none => rw [hb] at h; simp at h
  | some x => exact ⟨x, rfl⟩

theorem b64Inc_short {r : List Char} (g : Nat) (hlen : r.length < 4) (h : b64Inc (g + 1) r = false) :
    r.all isB64 = false ∧ b64FinalInc r = false := by
  rcases r with _ | ⟨a, _ | ⟨b, _ | ⟨c, _ | ⟨d, r'⟩⟩⟩⟩
  · simp [b64Inc] at h
  · simp only [b64Inc] at h; split at h <;> simp_all
  · simp only [b64Inc] at h; split at h <;> simp_all
  · simp only [b64Inc] at h; split at h <;> simp_all
  · simp at hlen; omega

/-- The base64 part of a blob, when the streaming parser does not run into the end of the input. -/
theorem b64_ext : ∀ (f f' : Nat) (r q : List Char), r.length < 4 * f → (r ++ q).length < 4 * f' →
    b64Inc f r = false →
    b64Inc f' (r ++ q) = false ∧ lexB64 f' (r ++ q) = (lexB64 f r).map (fun t => (t.1, t.2 ++ q))
  | 0, _, r, q, h1, _, _ => by omega
  | g + 1, 0, r, q, _, h2, _ => by omega
  | g + 1, g' + 1, r, q, h1, h2, hinc => by
    by_cases hlen : r.length < 4
    · obtain ⟨ha, hf⟩ := b64Inc_short g hlen hinc
      have hs := b64_short r q g g' hlen ha hf
      exact ⟨hs.1, by rw [hs.2.1, hs.2.2]; rfl⟩
    · rcases r with _ | ⟨a, _ | ⟨b, _ | ⟨c, _ | ⟨d, r'⟩⟩⟩⟩
      · simp at hlen
      · simp at hlen
      · simp at hlen
      · simp at hlen
      · by_cases h4 : (isB64 a && isB64 b && isB64 c && isB64 d) = true
        · simp only [Bool.and_eq_true] at h4
          obtain ⟨⟨⟨h4a, h4b⟩, h4c⟩, h4d⟩ := h4
          obtain ⟨x, hx⟩ := isB64_some h4a
          obtain ⟨y, hy⟩ := isB64_some h4b
          obtain ⟨z, hz⟩ := isB64_some h4c
          obtain ⟨w, hw⟩ := isB64_some h4d
          simp only [b64Inc, h4a, h4b, h4c, h4d, Bool.and_self, ↓reduceIte] at hinc
          simp only [List.length_cons, List.length_append] at h1 h2
          obtain ⟨i1, i2⟩ := b64_ext g g' r' q (by omega) (by simp only [List.length_append]; omega) hinc
          constructor
          · simp only [List.cons_append, b64Inc, h4a, h4b, h4c, h4d, Bool.and_self, ↓reduceIte]; exact i1
          · simp only [List.cons_append, lexB64, hx, hy, hz, hw, i2]
            cases lexB64 g r' with
            | none => rfl
            | some t => obtain ⟨bs, rest⟩ := t; rfl
        · have h4' : (isB64 a && isB64 b && isB64 c && isB64 d) = false := by simpa using h4
          constructor
          · simp only [List.cons_append, b64Inc, h4', Bool.false_eq_true, ↓reduceIte]
          · exact lexB64_nonblock a b c d r' q g g' h4'


theorem lexBlobM_stable : LxStable (lexBlobM true) := by
  intro p q
  cases p with
  | nil => constructor <;> (intros; simp_all [lexBlobM])
  | cons c r =>
    unfold lexBlobM
    simp only [List.cons_append]
    by_cases hc : c = '%'
    · simp only [hc, ↓reduceIte, Bool.true_and]
      by_cases hinc : b64Inc (r.length + 1) r = true
      · simp only [hinc, ↓reduceIte]; stab
      · have hinc' : b64Inc (r.length + 1) r = false := by simpa using hinc
        obtain ⟨e1, e2⟩ := b64_ext (r.length + 1) ((r ++ q).length + 1) r q (by omega) (by omega) hinc'
        simp only [hinc', Bool.false_eq_true, ↓reduceIte, e1, e2]
        cases lexB64 (r.length + 1) r with
        | none => stab
        | some t => obtain ⟨bs, rest⟩ := t; stab
    · simp only [hc, ↓reduceIte]; stab

/-- **Token level**: the four primitive tokens, as the streaming automaton tries them, are stable. -/
theorem lexPrimM_stable : LxStable (lexPrimM true) := by
  intro p q
  unfold lexPrimM
  cases h1 : lexStr p with
  | inc => stab
  | ok a r => rw [lexStr_stable.ok h1 q]; stab
  | err =>
    rw [lexStr_stable.err h1 q]
    simp only
    cases h2 : lexIdentM true p with
    | inc => stab
    | ok a r => rw [lexIdentM_stable.ok h2 q]; stab
    | err =>
      rw [lexIdentM_stable.err h2 q]
      simp only
      cases h3 : lexNumM true p with
      | inc => stab
      | ok a r => rw [lexNumM_stable.ok h3 q]; stab
      | err =>
        rw [lexNumM_stable.err h3 q]
        simp only
        cases h4 : lexBlobM true p with
        | inc => stab
        | ok a r => rw [lexBlobM_stable.ok h4 q]; stab
        | err => rw [lexBlobM_stable.err h4 q]; stab


end SwimVerif.ReconInc
