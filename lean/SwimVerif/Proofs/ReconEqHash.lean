/-
C15 helper lemmas: the event-level `HashParser` (`hashEvs`, implicit-record decision by look-ahead on the events, as
the repaired `is_implicit_record` does) gives, on the printers' layout of ANY value (`evsG`: implicit attribute bodies
wherever they are allowed), exactly the hasher calls of the canonical stream — so the printers' layout and the fully
braced layout of equal values hash alike.
-/
import SwimVerif.Proofs.ReconEqMat

namespace SwimVerif.ReconEq
open SwimVerif.Recon

variable {ch : List Char → Bool}

/-- Hasher calls of a list of events. -/
def callsE (es : List Event) : List HTok := es.flatMap evCalls

theorem callsE_append (a b : List Event) : callsE (a ++ b) = callsE a ++ callsE b := by simp [callsE]
theorem callsE_cons (e : Event) (es : List Event) : callsE (e :: es) = evCalls e ++ callsE es := by simp [callsE]

/-- The events of an attribute's body in the printers' layout. -/
def bodyG (ch : List Char → Bool) (n : List Char) (v : Value) : List Event :=
  match v with
  | .extant => []
  | .record .nil i =>
    if ch n && implicitBody (.record .nil i) then evsGI ch i else .startBody :: (evsGI ch i ++ [.endRecord])
  | w => evsG ch w

theorem evsGA_cons (n : List Char) (v : Value) (r : Attrs) :
    evsGA ch (.cons n v r) = (.startAttr n :: (bodyG ch n v ++ [.endAttr])) ++ evsGA ch r := by
  cases v with
  | record a i => cases a <;> simp [evsGA, bodyG]
  | _ => simp [evsGA, bodyG]

/-! ### `implicitLook` step by step -/

theorem look_nil (d vals : Nat) : implicitLook d vals [] = false := rfl

theorem look_startAttr (d vals : Nat) (n : List Char) (es : List Event) :
    implicitLook d vals (.startAttr n :: es) = implicitLook (d + 1) vals es := rfl

theorem look_endAttr_succ (d vals : Nat) (es : List Event) :
    implicitLook (d + 1) vals (.endAttr :: es) = implicitLook d vals es := by
  simp [implicitLook]

theorem look_endAttr_zero (vals : Nat) (es : List Event) : implicitLook 0 vals (.endAttr :: es) = false := by
  simp [implicitLook]

theorem look_startBody_succ (d vals : Nat) (es : List Event) :
    implicitLook (d + 1) vals (.startBody :: es) = implicitLook (d + 2) vals es := by
  simp [implicitLook]

theorem look_startBody_zero (vals : Nat) (es : List Event) :
    implicitLook 0 vals (.startBody :: es) = if 1 ≤ vals then true else implicitLook 1 (vals + 1) es := by
  simp [implicitLook]

theorem look_endRecord_succ (d vals : Nat) (es : List Event) :
    implicitLook (d + 1) vals (.endRecord :: es) = implicitLook d vals es := by
  simp [implicitLook]

theorem look_slot_succ (d vals : Nat) (es : List Event) :
    implicitLook (d + 1) vals (.slot :: es) = implicitLook (d + 1) vals es := by
  simp [implicitLook]

theorem look_slot_zero (vals : Nat) (es : List Event) : implicitLook 0 vals (.slot :: es) = true := by
  simp [implicitLook]

theorem look_prim_succ (d vals : Nat) (e : Event) (he : e.isPrim = true) (es : List Event) :
    implicitLook (d + 1) vals (e :: es) = implicitLook (d + 1) vals es := by
  cases e <;> simp [Event.isPrim] at he <;> simp [implicitLook]

theorem look_prim_zero (vals : Nat) (e : Event) (he : e.isPrim = true) (es : List Event) :
    implicitLook 0 vals (e :: es) = if 1 ≤ vals then true else implicitLook 0 (vals + 1) es := by
  cases e <;> simp [Event.isPrim] at he <;> simp [implicitLook]

/-! ### below the top level of the body a whole value is skipped -/

mutual
theorem lookV : (x : Value) → (d vals : Nat) → (tail : List Event) →
    implicitLook (d + 1) vals (evsG ch x ++ tail) = implicitLook (d + 1) vals tail
  | .extant, d, vals, tail => by simp [evsG, implicitLook]
  | .int _ _, d, vals, tail => by simp [evsG, implicitLook]
  | .float _, d, vals, tail => by simp [evsG, implicitLook]
  | .bool _, d, vals, tail => by simp [evsG, implicitLook]
  | .text _, d, vals, tail => by simp [evsG, implicitLook]
  | .data _, d, vals, tail => by simp [evsG, implicitLook]
  | .record a i, d, vals, tail => by
    simp only [evsG, List.append_assoc, List.cons_append]
    rw [lookA a, look_startBody_succ, lookI i]
    simp only [List.nil_append, List.cons_append]
    rw [look_endRecord_succ]
theorem lookA : (a : Attrs) → (d vals : Nat) → (tail : List Event) →
    implicitLook (d + 1) vals (evsGA ch a ++ tail) = implicitLook (d + 1) vals tail
  | .nil, d, vals, tail => by simp [evsGA]
  | .cons n .extant r, d, vals, tail => by
    rw [evsGA_cons]
    simp only [bodyG, List.nil_append, List.cons_append, List.append_assoc]
    rw [look_startAttr, look_endAttr_succ, lookA r]
  | .cons n (.record .nil i) r, d, vals, tail => by
    rw [evsGA_cons]
    simp only [bodyG]
    split
    · simp only [List.cons_append, List.append_assoc]
      rw [look_startAttr, lookI i]
      simp only [List.nil_append, List.cons_append]
      rw [look_endAttr_succ, lookA r]
    · simp only [List.cons_append, List.append_assoc]
      rw [look_startAttr, look_startBody_succ, lookI i]
      simp only [List.nil_append, List.cons_append]
      rw [look_endRecord_succ, look_endAttr_succ, lookA r]
  | .cons n (.record (.cons m w q) i) r, d, vals, tail => by
    rw [evsGA_cons]
    simp only [bodyG, List.cons_append, List.append_assoc]
    rw [look_startAttr, lookV (.record (.cons m w q) i)]
    simp only [List.nil_append, List.cons_append]
    rw [look_endAttr_succ, lookA r]
  | .cons n (.int k z) r, d, vals, tail => by
    rw [evsGA_cons]
    simp only [bodyG, List.cons_append, List.append_assoc]
    rw [look_startAttr, lookV (.int k z)]
    simp only [List.nil_append, List.cons_append]
    rw [look_endAttr_succ, lookA r]
  | .cons n (.float f) r, d, vals, tail => by
    rw [evsGA_cons]
    simp only [bodyG, List.cons_append, List.append_assoc]
    rw [look_startAttr, lookV (.float f)]
    simp only [List.nil_append, List.cons_append]
    rw [look_endAttr_succ, lookA r]
  | .cons n (.bool b) r, d, vals, tail => by
    rw [evsGA_cons]
    simp only [bodyG, List.cons_append, List.append_assoc]
    rw [look_startAttr, lookV (.bool b)]
    simp only [List.nil_append, List.cons_append]
    rw [look_endAttr_succ, lookA r]
  | .cons n (.text t) r, d, vals, tail => by
    rw [evsGA_cons]
    simp only [bodyG, List.cons_append, List.append_assoc]
    rw [look_startAttr, lookV (.text t)]
    simp only [List.nil_append, List.cons_append]
    rw [look_endAttr_succ, lookA r]
  | .cons n (.data bs) r, d, vals, tail => by
    rw [evsGA_cons]
    simp only [bodyG, List.cons_append, List.append_assoc]
    rw [look_startAttr, lookV (.data bs)]
    simp only [List.nil_append, List.cons_append]
    rw [look_endAttr_succ, lookA r]
theorem lookI : (i : Items) → (d vals : Nat) → (tail : List Event) →
    implicitLook (d + 1) vals (evsGI ch i ++ tail) = implicitLook (d + 1) vals tail
  | .nil, d, vals, tail => by simp [evsGI]
  | .val v r, d, vals, tail => by
    simp only [evsGI, List.append_assoc]
    rw [lookV v, lookI r]
  | .slot k v r, d, vals, tail => by
    simp only [evsGI, List.append_assoc, List.cons_append]
    rw [lookV k, look_slot_succ, lookV v, lookI r]
end

/-- The body of an attribute, one level down, is skipped. -/
theorem lookB (n : List Char) (v : Value) (d vals : Nat) (tail : List Event) :
    implicitLook (d + 1) vals (bodyG ch n v ++ tail) = implicitLook (d + 1) vals tail := by
  cases v with
  | record a i =>
    cases a with
    | nil =>
      simp only [bodyG]
      split
      · exact lookI i d vals tail
      · have := lookV (ch := ch) (.record .nil i) d vals tail
        simpa [evsG, evsGA] using this
    | cons m w q => exact lookV _ d vals tail
  | extant => simp [bodyG]
  | _ => exact lookV _ d vals tail

/-- Attributes at the top level of the body do not count as values (the record they belong to does, at its `StartBody`). -/
theorem lookA0 : (a : Attrs) → (vals : Nat) → (tail : List Event) →
    implicitLook 0 vals (evsGA ch a ++ tail) = implicitLook 0 vals tail
  | .nil, vals, tail => by simp [evsGA]
  | .cons n v r, vals, tail => by
    rw [evsGA_cons]
    simp only [List.cons_append, List.append_assoc]
    rw [look_startAttr, lookB n v 0]
    simp only [List.nil_append, List.cons_append]
    rw [look_endAttr_succ, lookA0 r]

/-- A value at the top level of the body: it is the second one (then the body is an implicit record) or it counts as one. -/
theorem lookV0 (x : Value) (vals : Nat) (tail : List Event) :
    implicitLook 0 vals (evsG ch x ++ tail) = if 1 ≤ vals then true else implicitLook 0 (vals + 1) tail := by
  cases x with
  | record a i =>
    simp only [evsG, List.append_assoc, List.cons_append]
    rw [lookA0 a, look_startBody_zero]
    split
    · rfl
    · rw [lookI i 0]
      simp only [List.nil_append, List.cons_append]
      rw [look_endRecord_succ]
  | extant => simp [evsG, implicitLook]
  | int _ _ => simp [evsG, implicitLook]
  | float _ => simp [evsG, implicitLook]
  | bool _ => simp [evsG, implicitLook]
  | text _ => simp [evsG, implicitLook]
  | data _ => simp [evsG, implicitLook]

/-- The look-ahead decides "implicit record" exactly for the bodies that are written without braces. -/
theorem look_body (n : List Char) (v : Value) (tail : List Event) :
    implicitLook 0 0 (bodyG ch n v ++ .endAttr :: tail) = (ch n && implicitBody v) := by
  cases v with
  | extant => simp [bodyG, implicitBody, look_endAttr_zero]
  | int _ _ => simp [bodyG, implicitBody, lookV0, look_endAttr_zero]
  | float _ => simp [bodyG, implicitBody, lookV0, look_endAttr_zero]
  | bool _ => simp [bodyG, implicitBody, lookV0, look_endAttr_zero]
  | text _ => simp [bodyG, implicitBody, lookV0, look_endAttr_zero]
  | data _ => simp [bodyG, implicitBody, lookV0, look_endAttr_zero]
  | record a i =>
    cases a with
    | cons m w q => simp [bodyG, implicitBody, lookV0, look_endAttr_zero]
    | nil =>
      by_cases hc : ch n = true
      · cases i with
        | nil =>
          simp [bodyG, implicitBody, evsGI, look_startBody_zero, look_endRecord_succ, look_endAttr_zero]
        | val x r =>
          cases r with
          | nil =>
            have h := lookV0 (ch := ch) (.record .nil (.val x .nil)) 0 (.endAttr :: tail)
            simp only [evsG, evsGA, List.nil_append, List.cons_append, List.append_assoc] at h
            simp [bodyG, implicitBody, h, look_endAttr_zero]
          | val y r' =>
            simp only [bodyG, implicitBody, hc, Bool.and_self, ↓reduceIte, evsGI, List.append_assoc]
            rw [lookV0 x, lookV0 y]
            simp
          | slot k y r' =>
            simp only [bodyG, implicitBody, hc, Bool.and_self, ↓reduceIte, evsGI, List.append_assoc]
            rw [lookV0 x, lookV0 k]
            simp
        | slot k x r =>
          cases r with
          | nil =>
            simp only [bodyG, implicitBody, hc, Bool.and_self, ↓reduceIte, evsGI, List.append_assoc, List.cons_append]
            rw [lookV0 k]
            simp [look_slot_zero]
          | val y r' =>
            simp only [bodyG, implicitBody, hc, Bool.and_self, ↓reduceIte, evsGI, List.append_assoc, List.cons_append]
            rw [lookV0 k]
            simp [look_slot_zero]
          | slot k' y r' =>
            simp only [bodyG, implicitBody, hc, Bool.and_self, ↓reduceIte, evsGI, List.append_assoc, List.cons_append]
            rw [lookV0 k]
            simp [look_slot_zero]
      · have hc' : ch n = false := by simpa using hc
        have h := lookV0 (ch := ch) (.record .nil i) 0 (.endAttr :: tail)
        simp only [evsG, evsGA, List.nil_append, List.cons_append, List.append_assoc] at h
        simp [bodyG, hc', h, look_endAttr_zero]

/-! ### the hash of the printers' layout is the hash of the canonical stream -/

theorem hashEvs_prim (cb : List Bool) (e : Event) (he : e.isPrim = true) (es : List Event) :
    hashEvs cb (e :: es) = evCalls e ++ hashEvs cb es := by
  cases e <;> simp [Event.isPrim] at he <;> rfl

theorem hashEvs_startBody (cb : List Bool) (es : List Event) :
    hashEvs cb (.startBody :: es) = evCalls .startBody ++ hashEvs cb es := rfl
theorem hashEvs_endRecord (cb : List Bool) (es : List Event) :
    hashEvs cb (.endRecord :: es) = evCalls .endRecord ++ hashEvs cb es := rfl
theorem hashEvs_slot (cb : List Bool) (es : List Event) :
    hashEvs cb (.slot :: es) = evCalls .slot ++ hashEvs cb es := rfl

mutual
theorem hashV : (x : Value) → (cb : List Bool) → (tail : List Event) →
    hashEvs cb (evsG ch x ++ tail) = callsE (evsV x) ++ hashEvs cb tail
  | .extant, cb, tail => by simp [evsG, evsV, callsE, hashEvs]
  | .int _ _, cb, tail => by simp [evsG, evsV, callsE, hashEvs]
  | .float _, cb, tail => by simp [evsG, evsV, callsE, hashEvs]
  | .bool _, cb, tail => by simp [evsG, evsV, callsE, hashEvs]
  | .text _, cb, tail => by simp [evsG, evsV, callsE, hashEvs]
  | .data _, cb, tail => by simp [evsG, evsV, callsE, hashEvs]
  | .record a i, cb, tail => by
    simp only [evsG, evsV, List.append_assoc, List.cons_append, callsE_append, callsE_cons]
    rw [hashA a, hashEvs_startBody, hashI i]
    simp only [List.nil_append, List.cons_append]
    rw [hashEvs_endRecord]
    simp [callsE]
theorem hashA : (a : Attrs) → (cb : List Bool) → (tail : List Event) →
    hashEvs cb (evsGA ch a ++ tail) = callsE (evsA a) ++ hashEvs cb tail
  | .nil, cb, tail => by simp [evsGA, evsA, callsE]
  | .cons n .extant r, cb, tail => by
    rw [evsGA_cons, evsA_cons]
    simp only [bodyG, bodyEvs, List.nil_append, List.cons_append, List.append_assoc, callsE_append, callsE_cons]
    have hl : implicitLook 0 0 (.endAttr :: (evsGA ch r ++ tail)) = false := look_endAttr_zero _ _
    simp only [hashEvs, hl, Bool.false_eq_true, ↓reduceIte]
    rw [hashA r]
    try simp [callsE]
  | .cons n (.record .nil i) r, cb, tail => by
    rw [evsGA_cons, evsA_cons]
    have hl := look_body (ch := ch) n (.record .nil i) (evsGA ch r ++ tail)
    by_cases hb : (ch n && implicitBody (.record .nil i)) = true
    · have hbp : bodyG ch n (.record .nil i) = evsGI ch i := by simp only [bodyG, hb, ↓reduceIte]
      rw [hbp] at hl ⊢
      simp only [List.cons_append, List.append_assoc, List.nil_append]
      simp only [hashEvs, hl, hb, ↓reduceIte]
      rw [hashI i]
      simp only [hashEvs]
      rw [hashA r]
      simp [callsE, bodyEvs, evsV, evsA]
    · have hbp : bodyG ch n (.record .nil i) = .startBody :: (evsGI ch i ++ [.endRecord]) := by
        simp only [bodyG, hb, Bool.false_eq_true, ↓reduceIte]
      rw [hbp] at hl ⊢
      simp only [List.cons_append, List.append_assoc, List.nil_append] at hl ⊢
      simp only [Bool.not_eq_true] at hb
      simp only [hashEvs, hl, hb, Bool.false_eq_true, ↓reduceIte]
      rw [hashI i]
      simp only [List.cons_append, List.nil_append, hashEvs]
      rw [hashA r]
      simp [callsE, bodyEvs, evsV, evsA]
  | .cons n (.record (.cons m w q) i) r, cb, tail => by
    rw [evsGA_cons, evsA_cons]
    have hl := look_body (ch := ch) n (.record (.cons m w q) i) (evsGA ch r ++ tail)
    simp only [bodyG, implicitBody, Bool.and_false] at hl
    simp only [bodyG, bodyEvs, List.cons_append, List.append_assoc, List.nil_append]
    simp only [hashEvs, hl, Bool.false_eq_true, ↓reduceIte]
    rw [hashV (.record (.cons m w q) i)]
    simp only [hashEvs]
    rw [hashA r]
    simp [callsE]
  | .cons n (.int k z) r, cb, tail => by
    rw [evsGA_cons, evsA_cons]
    have hl := look_body (ch := ch) n (.int k z) (evsGA ch r ++ tail)
    simp only [bodyG, implicitBody, Bool.and_false] at hl
    simp only [bodyG, bodyEvs, List.cons_append, List.append_assoc, List.nil_append]
    simp only [hashEvs, hl, Bool.false_eq_true, ↓reduceIte]
    rw [hashV (.int k z)]
    simp only [hashEvs]
    rw [hashA r]
    simp [callsE]
  | .cons n (.float f) r, cb, tail => by
    rw [evsGA_cons, evsA_cons]
    have hl := look_body (ch := ch) n (.float f) (evsGA ch r ++ tail)
    simp only [bodyG, implicitBody, Bool.and_false] at hl
    simp only [bodyG, bodyEvs, List.cons_append, List.append_assoc, List.nil_append]
    simp only [hashEvs, hl, Bool.false_eq_true, ↓reduceIte]
    rw [hashV (.float f)]
    simp only [hashEvs]
    rw [hashA r]
    simp [callsE]
  | .cons n (.bool b) r, cb, tail => by
    rw [evsGA_cons, evsA_cons]
    have hl := look_body (ch := ch) n (.bool b) (evsGA ch r ++ tail)
    simp only [bodyG, implicitBody, Bool.and_false] at hl
    simp only [bodyG, bodyEvs, List.cons_append, List.append_assoc, List.nil_append]
    simp only [hashEvs, hl, Bool.false_eq_true, ↓reduceIte]
    rw [hashV (.bool b)]
    simp only [hashEvs]
    rw [hashA r]
    simp [callsE]
  | .cons n (.text t) r, cb, tail => by
    rw [evsGA_cons, evsA_cons]
    have hl := look_body (ch := ch) n (.text t) (evsGA ch r ++ tail)
    simp only [bodyG, implicitBody, Bool.and_false] at hl
    simp only [bodyG, bodyEvs, List.cons_append, List.append_assoc, List.nil_append]
    simp only [hashEvs, hl, Bool.false_eq_true, ↓reduceIte]
    rw [hashV (.text t)]
    simp only [hashEvs]
    rw [hashA r]
    simp [callsE]
  | .cons n (.data bs) r, cb, tail => by
    rw [evsGA_cons, evsA_cons]
    have hl := look_body (ch := ch) n (.data bs) (evsGA ch r ++ tail)
    simp only [bodyG, implicitBody, Bool.and_false] at hl
    simp only [bodyG, bodyEvs, List.cons_append, List.append_assoc, List.nil_append]
    simp only [hashEvs, hl, Bool.false_eq_true, ↓reduceIte]
    rw [hashV (.data bs)]
    simp only [hashEvs]
    rw [hashA r]
    simp [callsE]
theorem hashI : (i : Items) → (cb : List Bool) → (tail : List Event) →
    hashEvs cb (evsGI ch i ++ tail) = callsE (evsI i) ++ hashEvs cb tail
  | .nil, cb, tail => by simp [evsGI, evsI, callsE]
  | .val v r, cb, tail => by
    simp only [evsGI, evsI, List.append_assoc, callsE_append]
    rw [hashV v, hashI r]
  | .slot k v r, cb, tail => by
    simp only [evsGI, evsI, List.append_assoc, List.cons_append, callsE_append, callsE_cons]
    rw [hashV k, hashEvs_slot, hashV v, hashI r]
    try simp
end

/-- The event-level hash of any layout of a value is the hash of its canonical stream. -/
theorem hashEvs_layout (v : Value) : hashEvs [] (evsG ch v) = callsE (evsV v) := by
  have := hashV (ch := ch) v [] []
  simpa [hashEvs] using this

end SwimVerif.ReconEq
