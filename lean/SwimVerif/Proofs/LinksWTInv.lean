/-
C20 for the whole write task: `WT.step` keeps `LInv` of the registry, provided responses addressed to a remote come
from registered lanes (`EnvOk`; in the runtime a lane id only ever comes from the stream of a registered lane).
The side condition of the registry theorems — a reporter is registered while nothing is linked to the lane — is
discharged by the invariant `NoUnreg`: no remote is linked to a lane id that has not been assigned yet.
-/
import SwimVerif.Proofs.LinksWT

set_option linter.unusedSimpArgs false
set_option linter.unusedVariables false
namespace SwimVerif.WT

/-! ### which operations can make a lane's remote set non-empty -/

theorem linkedFrom_congr {l l' : Links} (h : l'.forward = l.forward) (id : Nat) : l'.linkedFrom id = l.linkedFrom id := by
  unfold Links.linkedFrom; rw [h]

theorem linkedFrom_updEntry_ne (l : Links) {id id' : Nat} (e : LaneLinks) (t : Nat) (h : id' ≠ id) :
    (l.updEntry id' e t).linkedFrom id = l.linkedFrom id := by
  unfold Links.linkedFrom
  rw [updEntry_forward, alGet_alSet_ne _ _ h]

theorem linkedFrom_register (l : Links) (id' id : Nat) : (l.registerReporter id').linkedFrom id = l.linkedFrom id := by
  unfold Links.linkedFrom Links.registerReporter
  simp only [alGet_alSet]
  by_cases h : id' = id
  · subst h; simp only [if_true]; cases alGet l.forward id' <;> rfl
  · simp only [h, if_false]

theorem linkedFrom_addRemote_ne (l : Links) {id id' : Nat} (r : Nat) (h : id' ≠ id) :
    (l.addRemote id' r).linkedFrom id = l.linkedFrom id := by
  unfold Links.addRemote
  split
  · unfold Links.linkedFrom; simp only []; rw [alGet_alSet_ne _ _ h]
  · exact linkedFrom_updEntry_ne l _ _ h

theorem linkedFrom_insert_ne (l : Links) {id id' : Nat} (r : Nat) (h : id' ≠ id) :
    (l.insert id' r).linkedFrom id = l.linkedFrom id := by
  have : (l.insert id' r).forward = (l.addRemote id' r).forward := by simp [Links.insert]
  rw [linkedFrom_congr this, linkedFrom_addRemote_ne l r h]

theorem empty_removeFromLane {l : Links} {id : Nat} (h : l.linkedFrom id = []) (id' r : Nat) :
    (l.removeFromLane id' r).linkedFrom id = [] := by
  unfold Links.removeFromLane
  split
  · exact h
  · rename_i e he
    split
    · rename_i hc
      by_cases hid : id' = id
      · subst hid
        unfold Links.linkedFrom at h
        rw [he] at h
        simp only [] at h
        rw [h] at hc
        simp at hc
      · rw [linkedFrom_updEntry_ne l _ _ hid]; exact h
    · exact h

theorem empty_foldl_remove (lanes : List Nat) (r id : Nat) : ∀ l : Links, l.linkedFrom id = [] →
    (lanes.foldl (fun acc id' => acc.removeFromLane id' r) l).linkedFrom id = [] := by
  induction lanes with
  | nil => intro l h; exact h
  | cons id' rest ih => intro l h; exact ih _ (empty_removeFromLane h id' r)

theorem empty_removeCore {l : Links} {id : Nat} (h : l.linkedFrom id = []) (id' r : Nat) :
    (l.removeCore id' r).linkedFrom id = [] := by
  unfold Links.removeCore
  split
  · rw [linkedFrom_congr (setAgg_forward _)]; exact empty_removeFromLane h id' r
  · exact h

theorem empty_remove {l : Links} {id : Nat} (h : l.linkedFrom id = []) (id' r : Nat) :
    (l.remove id' r).1.linkedFrom id = [] := by
  have key := empty_removeCore h id' r
  unfold Links.remove
  split
  · split
    · exact (linkedFrom_congr (l := l.removeCore id' r) rfl id).trans key
    · exact (linkedFrom_congr (l := l.removeCore id' r) rfl id).trans key
  · exact key

theorem empty_removeRemote {l : Links} {id : Nat} (h : l.linkedFrom id = []) (r : Nat) :
    (l.removeRemote r).linkedFrom id = [] := by
  unfold Links.removeRemote
  simp only []
  rw [linkedFrom_congr (setAgg_forward _)]
  apply empty_foldl_remove
  exact (linkedFrom_congr (l := l) rfl id).trans h

theorem empty_removeLane {l : Links} {id : Nat} (h : l.linkedFrom id = []) (id' : Nat) :
    (l.removeLane id').1.linkedFrom id = [] := by
  unfold Links.removeLane
  split
  · exact h
  · rename_i e he
    have f := removeLane_fold_fields id' e.remotes (l.dropLane id' e, [])
    rw [linkedFrom_congr f.1]
    have hf : (l.dropLane id' e).forward = alErase l.forward id' := by
      unfold Links.dropLane; rw [setAgg_forward]; split <;> rfl
    unfold Links.linkedFrom at h ⊢
    rw [hf, alGet_alErase]
    by_cases hid : id' = id
    · rw [if_pos hid]
    · rw [if_neg hid]; exact h

theorem empty_removeAll (l : Links) (id : Nat) : l.removeAllLinks.1.linkedFrom id = [] := by
  unfold Links.removeAllLinks
  simp only []
  have bf : l.removeAllBase.forward = l.forward.map clearEntry := by unfold Links.removeAllBase; split <;> rfl
  rw [linkedFrom_congr (zeroFold_fields l.forward l.removeAllBase).1]
  unfold Links.linkedFrom
  rw [bf]
  cases hg : alGet (l.forward.map clearEntry) id with
  | none => rfl
  | some e2 =>
    obtain ⟨e, _, rfl⟩ := alGet_map_clear _ _ _ hg
    rfl

theorem addEvents_forward (l : Links) (id : Nat) (b : Bool) (n : Nat) : (l.addEvents id b n).forward = l.forward := by
  cases b <;> rfl

theorem countSingle_forward (l : Links) (id : Nat) : (l.countSingle id).forward = l.forward := by
  unfold Links.countSingle; split
  · exact addEvents_forward _ _ _ _
  · rfl

theorem countBroadcast_forward (l : Links) (id : Nat) : (l.countBroadcast id).forward = l.forward := by
  unfold Links.countBroadcast; split
  · exact addEvents_forward _ _ _ _
  · rfl

/-- The lanes an operation may add a link to. -/
def LOp.target : LOp → Option Nat
  | .insert id _ => some id
  | _ => none

/-- Only `insert id _` can make the remote set of lane `id` non-empty. -/
theorem empty_lstep {l : Links} {id : Nat} (h : l.linkedFrom id = []) (op : LOp) (ht : op.target ≠ some id) :
    (lstep l op).linkedFrom id = [] := by
  cases op with
  | register id' => simp only [lstep]; rw [linkedFrom_register]; exact h
  | insert id' r =>
    simp only [lstep]
    have : id' ≠ id := by intro hh; apply ht; simp [LOp.target, hh]
    rw [linkedFrom_insert_ne l r this]; exact h
  | remove id' r => exact empty_remove h id' r
  | removeRemote r => exact empty_removeRemote h r
  | removeLane id' => exact empty_removeLane h id'
  | removeAll => exact empty_removeAll l id
  | countSingle id' => simp only [lstep]; rw [linkedFrom_congr (countSingle_forward l id')]; exact h
  | countBroadcast id' => simp only [lstep]; rw [linkedFrom_congr (countBroadcast_forward l id')]; exact h
  | snapshot => exact h

theorem empty_lrun (id : Nat) : ∀ (ops : List LOp) (l : Links), l.linkedFrom id = [] →
    (∀ op, op ∈ ops → op.target ≠ some id) → (lrun l ops).linkedFrom id = [] := by
  intro ops
  induction ops with
  | nil => intro l h _; exact h
  | cons op rest ih =>
    intro l h ht
    exact ih _ (empty_lstep h op (ht op List.mem_cons_self)) (fun o ho => ht o (List.mem_cons_of_mem _ ho))

/-! ### the environment assumption and the invariant of the write task -/

/-- Responses addressed to a remote come from lanes that have been registered (decidable, on the input alone). -/
def evOk (s : St) : Ev → Bool
  | .event lane (some _) _ => decide (lane < s.reg.length)
  | _ => true

def EnvOk : St → List Ev → Prop
  | _, [] => True
  | s, e :: rest => evOk s e = true ∧ EnvOk (step s e).1 rest

/-- `EnvOk` as a Boolean function of the input. -/
def envOk : St → List Ev → Bool
  | _, [] => true
  | s, e :: rest => evOk s e && envOk (step s e).1 rest

theorem envOk_EnvOk : ∀ (evs : List Ev) (s : St), envOk s evs = true → EnvOk s evs := by
  intro evs
  induction evs with
  | nil => intro s _; trivial
  | cons e rest ih =>
    intro s h
    simp only [envOk, Bool.and_eq_true] at h
    exact ⟨h.1, ih _ h.2⟩

/-- No remote is linked to a lane id that has not been assigned yet. -/
def NoUnreg (s : St) : Prop := ∀ id, s.reg.length ≤ id → s.links.linkedFrom id = []

structure WInv (s : St) : Prop where
  l : LInv s.links
  u : NoUnreg s

theorem idFor_lt {reg : Registry} {name id : Nat} (h : reg.idFor name = some id) : id < reg.length := by
  unfold Registry.idFor at h
  simp only [] at h
  split at h
  · cases h; assumption
  · cases h

/-- Every link a step creates is to a registered lane. -/
theorem stepOps_target (s : St) (e : Ev) (hok : evOk s e = true) :
    ∀ op, op ∈ stepOps s e → ∀ id, op.target = some id → id < s.reg.length := by
  intro op hop id ht
  cases e with
  | lane name rep => cases rep <;> simp [stepOps] at hop; subst hop; simp [LOp.target] at ht
  | attach r => simp [stepOps] at hop
  | link r name =>
    simp only [stepOps, linkOps] at hop
    cases h1 : s.reg.idFor name with
    | none => simp [h1] at hop
    | some id' =>
      cases h2 : s.remote? r with
      | none => simp [h1, h2] at hop
      | some rem =>
        simp [h1, h2] at hop; subst hop
        simp [LOp.target] at ht; subst ht
        exact idFor_lt h1
  | unlink r name =>
    simp only [stepOps, unlinkOps] at hop
    cases h1 : s.reg.idFor name with
    | none => simp [h1] at hop
    | some id' =>
      cases h2 : s.links.isLinked r id' <;> simp [h1, h2] at hop
      subst hop; simp [LOp.target] at ht
  | unknown r name => simp [stepOps] at hop
  | event lane target resp =>
    cases target with
    | none =>
      simp only [stepOps, eventOps] at hop
      split at hop
      · simp at hop
      · simp at hop; subst hop; simp [LOp.target] at ht
    | some r =>
      simp only [evOk, decide_eq_true_eq] at hok
      simp only [stepOps, eventOps] at hop
      split at hop
      · simp at hop
      · split at hop
        · simp at hop; subst hop; simp [LOp.target] at ht
        · simp at hop
          rcases hop with rfl | rfl
          · simp [LOp.target] at ht
          · simp [LOp.target] at ht; subst ht; exact hok
  | done r ok =>
    simp only [stepOps, doneOps] at hop
    cases h1 : s.remote? r with
    | none => simp [h1] at hop
    | some rem =>
      cases h2 : rem.inflight with
      | none => simp [h1, h2] at hop
      | some w => cases ok <;> simp [h1, h2] at hop; subst hop; simp [LOp.target] at ht
  | laneFailed lane => simp [stepOps] at hop; subst hop; simp [LOp.target] at ht
  | prune r =>
    simp only [stepOps, pruneOps] at hop
    cases h1 : alGet s.links.backwards r <;> simp [h1] at hop
    subst hop; simp [LOp.target] at ht
  | stop => simp [stepOps] at hop; subst hop; simp [LOp.target] at ht
  | snapshot => simp [stepOps] at hop; subst hop; simp [LOp.target] at ht

/-- The registry operations of a step are admissible: the only `register` is for the lane id being assigned, to
which nothing is linked. -/
theorem stepOps_admissible {s : St} (hu : NoUnreg s) (e : Ev) : Admissible s.links (stepOps s e) := by
  cases e with
  | lane name rep =>
    cases rep
    · simp [stepOps, Admissible]
    · simp only [stepOps, if_true, Admissible, admissible, and_true]
      exact hu _ (Nat.le_refl _)
  | attach r => simp [stepOps, Admissible]
  | link r name =>
    simp only [stepOps, linkOps]
    cases h1 : s.reg.idFor name <;> cases h2 : s.remote? r <;> simp [Admissible, admissible]
  | unlink r name =>
    simp only [stepOps, unlinkOps]
    cases h1 : s.reg.idFor name with
    | none => simp [Admissible]
    | some id => cases h2 : s.links.isLinked r id <;> simp [h2, Admissible, admissible]
  | unknown r name => simp [stepOps, Admissible]
  | event lane target resp =>
    cases target with
    | none => simp only [stepOps, eventOps]; split <;> simp [Admissible, admissible]
    | some r =>
      simp only [stepOps, eventOps]
      split
      · simp [Admissible]
      · split <;> simp [Admissible, admissible]
  | done r ok =>
    simp only [stepOps, doneOps]
    cases h1 : s.remote? r with
    | none => simp [Admissible]
    | some rem =>
      cases h2 : rem.inflight with
      | none => simp [h2, Admissible]
      | some w => cases ok <;> simp [h2, Admissible, admissible]
  | laneFailed lane => simp [stepOps, Admissible, admissible]
  | prune r =>
    simp only [stepOps, pruneOps]
    cases h1 : alGet s.links.backwards r <;> simp [Admissible, admissible]
  | stop => simp [stepOps, Admissible, admissible]
  | snapshot => simp [stepOps, Admissible, admissible]

theorem reg_length_step (s : St) (e : Ev) : s.reg.length ≤ (step s e).1.reg.length := by
  rw [(step_links_reg s e).2]
  cases e <;> simp

theorem winv_step {s : St} (h : WInv s) (e : Ev) (hok : evOk s e = true) : WInv (step s e).1 := by
  constructor
  · rw [(step_links_reg s e).1]
    exact linv_run _ _ h.l (stepOps_admissible h.u e)
  · intro id hid
    have hle := reg_length_step s e
    rw [(step_links_reg s e).1]
    apply empty_lrun id _ _ (h.u id (by omega))
    intro op hop ht
    have := stepOps_target s e hok op hop id ht
    omega

theorem winv_run : ∀ (evs : List Ev) (s : St), WInv s → EnvOk s evs → WInv (run s evs) := by
  intro evs
  induction evs with
  | nil => intro s h _; exact h
  | cons e rest ih =>
    intro s h hok
    exact ih _ (winv_step h e hok.1) hok.2

theorem winv_init (agg : Bool) : WInv { links := { hasAgg := agg } } :=
  ⟨linv_init agg, fun id _ => rfl⟩

end SwimVerif.WT
