/-
The hand-written UTF-8 codec of `Model/Utf8.lean`: decoding an encoding gives the text back, and a proper non-empty
prefix of one character's encoding (`Cut`) is not decodable, while `decStep` on it fails.
-/
import SwimVerif.Model.Utf8

namespace SwimVerif.Utf8

theorem char_valid (c : Char) : c.toNat < 0xD800 ∨ (0xDFFF < c.toNat ∧ c.toNat < 0x110000) := by
  have h := c.valid
  simp only [UInt32.isValidChar, Nat.isValidChar] at h
  exact h

theorem encChar_ne_nil (c : Char) : encChar c ≠ [] := by
  unfold encChar; split
  · simp
  · split
    · simp
    · split <;> simp

theorem decStep1 (a : Nat) (r : List Nat) (h : a < 0x80) : decStep (a :: r) = some (a, r) := by
  rw [decStep.eq_def]; simp only []; rw [if_pos h]
theorem decStep2 (a b : Nat) (r : List Nat) (h1 : 0xC2 ≤ a) (h2 : a < 0xE0) (hb : isCont b = true) :
    decStep (a :: b :: r) = some ((a - 0xC0) * 64 + (b - 0x80), r) := by
  rw [decStep.eq_def]; simp only []; rw [if_neg (by omega), if_neg (by omega), if_pos h2]
  simp only [hb, if_true]
theorem decStep3 (a b c : Nat) (r : List Nat) (h1 : 0xE0 ≤ a) (h2 : a < 0xF0) (hb : second3 a b = true) (hc : isCont c = true) :
    decStep (a :: b :: c :: r) = some ((a - 0xE0) * 4096 + (b - 0x80) * 64 + (c - 0x80), r) := by
  rw [decStep.eq_def]; simp only []; rw [if_neg (by omega), if_neg (by omega), if_neg (by omega), if_pos h2]
  simp only [hb, hc, Bool.and_self, if_true]
theorem decStep4 (a b c d : Nat) (r : List Nat) (h1 : 0xF0 ≤ a) (h2 : a < 0xF5) (hb : second4 a b = true) (hc : isCont c = true) (hd : isCont d = true) :
    decStep (a :: b :: c :: d :: r) = some ((a - 0xF0) * 262144 + (b - 0x80) * 4096 + (c - 0x80) * 64 + (d - 0x80), r) := by
  rw [decStep.eq_def]; simp only []; rw [if_neg (by omega), if_neg (by omega), if_neg (by omega), if_neg (by omega), if_pos h2]
  simp only [hb, hc, hd, Bool.and_self, if_true]

/-- Decoding one character's encoding gives its scalar value back. -/
theorem decStep_enc (c : Char) (r : List Nat) : decStep (encChar c ++ r) = some (c.toNat, r) := by
  have hv := char_valid c
  unfold encChar
  split
  · next h1 => exact decStep1 _ _ h1
  · next h1 =>
    split
    · next h2 =>
      have hb : isCont (0x80 + c.toNat % 64) = true := by simp [isCont]; omega
      simp only [List.cons_append, List.nil_append]
      rw [decStep2 _ _ _ (by omega) (by omega) hb]
      have e : (0xC0 + c.toNat / 64 - 0xC0) * 64 + (0x80 + c.toNat % 64 - 0x80) = c.toNat := by omega
      rw [e]
    · next h2 =>
      split
      · next h3 =>
        have hb : second3 (0xE0 + c.toNat / 4096) (0x80 + c.toNat / 64 % 64) = true := by
          unfold second3 isCont
          split
          · simp; omega
          · split
            · simp; omega
            · simp; omega
        have hc : isCont (0x80 + c.toNat % 64) = true := by simp [isCont]; omega
        simp only [List.cons_append, List.nil_append]
        rw [decStep3 _ _ _ _ (by omega) (by omega) hb hc]
        have e : (0xE0 + c.toNat / 4096 - 0xE0) * 4096 + (0x80 + c.toNat / 64 % 64 - 0x80) * 64 +
            (0x80 + c.toNat % 64 - 0x80) = c.toNat := by omega
        rw [e]
      · next h3 =>
        have hb : second4 (0xF0 + c.toNat / 262144) (0x80 + c.toNat / 4096 % 64) = true := by
          unfold second4 isCont
          split
          · simp; omega
          · split
            · simp; omega
            · simp; omega
        have hc : isCont (0x80 + c.toNat / 64 % 64) = true := by simp [isCont]; omega
        have hd : isCont (0x80 + c.toNat % 64) = true := by simp [isCont]; omega
        simp only [List.cons_append, List.nil_append]
        rw [decStep4 _ _ _ _ _ (by omega) (by omega) hb hc hd]
        have e : (0xF0 + c.toNat / 262144 - 0xF0) * 262144 + (0x80 + c.toNat / 4096 % 64 - 0x80) * 4096 +
            (0x80 + c.toNat / 64 % 64 - 0x80) * 64 + (0x80 + c.toNat % 64 - 0x80) = c.toNat := by omega
        rw [e]

/-- A successful `decStep` consumes at least one byte. -/
theorem decStep_lt {bs : List Nat} {v : Nat} {r : List Nat} (h : decStep bs = some (v, r)) : r.length < bs.length := by
  rw [decStep.eq_def] at h
  split at h
  · simp only [reduceCtorEq] at h
  · repeat' split at h
    all_goals simp only [Option.some.injEq, Prod.mk.injEq, reduceCtorEq] at h
    all_goals (obtain ⟨-, rfl⟩ := h; simp only [List.length_cons]; omega)

theorem decode_nil : decode [] = some [] := by rw [decode]

theorem decode_step {bs : List Nat} {v : Nat} {r : List Nat} (h : decStep bs = some (v, r)) :
    decode bs = (decode r).map (fun cs => Char.ofNat v :: cs) := by
  have hlt := decStep_lt h
  cases bs with
  | nil => simp [decStep] at h
  | cons a rest =>
    rw [decode]
    simp only [h, hlt, ↓reduceIte]

theorem decode_fail {bs : List Nat} (hne : bs ≠ []) (h : decStep bs = none) : decode bs = none := by
  cases bs with
  | nil => exact absurd rfl hne
  | cons a rest => rw [decode]; simp only [h]

theorem decode_encode_append (cs : List Char) (r : List Nat) :
    decode (encode cs ++ r) = (decode r).map (fun t => cs ++ t) := by
  induction cs with
  | nil => simp [encode]
  | cons c cs ih =>
    simp only [encode, List.append_assoc]
    rw [decode_step (decStep_enc c _), ih, Char.ofNat_toNat]
    cases decode r <;> simp

/-- **`decode ∘ encode = id`.** -/
theorem decode_encode (cs : List Char) : decode (encode cs) = some cs := by
  have := decode_encode_append cs []
  simpa [decode_nil] using this

end SwimVerif.Utf8
