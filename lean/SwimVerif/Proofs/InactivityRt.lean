/-
Helper lemmas for the composed model of the agent runtime's inactivity discipline (`Model/InactivityRt.lean`).
-/
import SwimVerif.Model.InactivityRt
import SwimVerif.Proofs.TimeoutCoord

set_option linter.unusedVariables false
namespace SwimVerif.InactRt
open SwimVerif

/-! ### the coordinator at API granularity (three parties, nobody inside a call) -/

structure CIdle (c : Coord.St) : Prop where
  inv : Coord.Inv c
  n3 : c.n = 3
  idle : ∀ (i : Nat) (v : Coord.Voter), c.voters[i]? = some v → v.pc = .idle

theorem cidle_init : CIdle (Coord.init 3) := by
  refine ⟨Coord.inv_init 3 (by decide) (by decide), rfl, ?_⟩
  intro i v hv
  simp only [Coord.init, List.getElem?_replicate] at hv
  split at hv
  · cases hv; rfl
  · cases hv

theorem cidle_get {c : Coord.St} (h : CIdle c) {i : Nat} (hi : i < 3) :
    ∃ b, c.voters[i]? = some { voted := b, pc := .idle } := by
  have hl : i < c.voters.length := by rw [h.inv.len, h.n3]; exact hi
  refine ⟨(c.voters[i]).voted, ?_⟩
  have hv : c.voters[i]? = some c.voters[i] := List.getElem?_eq_getElem hl
  have := h.idle i _ hv
  rw [hv]
  congr 1
  cases hvi : c.voters[i] with
  | mk voted pc => rw [hvi] at this; simp at this; rw [this]

theorem stepAct_vote_eq {c : Coord.St} {i : Nat} {b : Bool} (hv : c.voters[i]? = some { voted := b, pc := .idle }) :
    Coord.stepAct c i .vote = Coord.doVote c i { voted := b, pc := .idle } .idle := by
  simp [Coord.stepAct, hv]

theorem cidle_vote {c : Coord.St} (h : CIdle c) {i : Nat} (hi : i < 3) : CIdle (Coord.stepAct c i .vote).1 := by
  obtain ⟨b, hv⟩ := cidle_get h hi
  refine ⟨Coord.inv_stepAct h.inv i .vote, by rw [Coord.n_stepAct]; exact h.n3, ?_⟩
  intro j w hw
  rw [stepAct_vote_eq hv, Coord.doVote_get] at hw
  split at hw
  · cases hw; rfl
  · exact h.idle j w hw

theorem votedAt_vote {c : Coord.St} (h : CIdle c) {i : Nat} (hi : i < 3) (j : Nat) :
    Coord.votedAt (Coord.stepAct c i .vote).1 j = (decide (i = j) || Coord.votedAt c j) := by
  obtain ⟨b, hv⟩ := cidle_get h hi
  have hl : i < c.voters.length := by rw [h.inv.len, h.n3]; exact hi
  rw [stepAct_vote_eq hv, Coord.votedAt_doVote]
  by_cases hij : i = j
  · subst hij; simp [hl]
  · simp [hij]

theorem vote_told_flags {c : Coord.St} (h : CIdle c) {i : Nat} (hi : i < 3)
    (ht : (Coord.stepAct c i .vote).2 = .unanimous) : (Coord.stepAct c i .vote).1.flags = Coord.allMask 3 := by
  obtain ⟨b, hv⟩ := cidle_get h hi
  rw [stepAct_vote_eq hv] at ht ⊢
  rw [Coord.doVote_res] at ht
  split at ht
  · rename_i hf
    rw [Coord.doVote_flags, hf, h.n3]
    exact Coord.inverse_or_flag 3 i hi
  · cases ht

/-- The whole `rescind` call of party `i`, in closed form. -/
theorem apiRescind_eq {c : Coord.St} (h : CIdle c) {i : Nat} (hi : i < 3) {b : Bool}
    (hv : c.voters[i]? = some { voted := b, pc := .idle }) :
    Coord.apiRescind c i =
      if b = true then
        if c.flags = Coord.allMask 3 then (c, .unanimous)
        else (Coord.setVoter { c with flags := c.flags &&& Coord.notU8 (Coord.flagOf i) } i { voted := false, pc := .idle },
              .pending)
      else (c, .pending) := by
  have hl : i < c.voters.length := by rw [h.inv.len, h.n3]; exact hi
  have h2 : ¬ Coord.inverseOf c.n i < Generated.twoVotersLim := by
    rw [Coord.two_party_iff c.n i h.inv.n2 h.inv.n8 (by rw [h.n3]; exact hi), h.n3]; decide
  have hall : Coord.inverseOf c.n i ||| Coord.flagOf i = Coord.allMask 3 := by
    rw [h.n3]; exact Coord.inverse_or_flag 3 i hi
  cases b with
  | false => simp [Coord.apiRescind, Coord.stepAct, hv]
  | true =>
    by_cases hf : c.flags = Coord.allMask 3
    · simp [Coord.apiRescind, Coord.stepAct, hv, h2, hall, hf]
    · have h1 : Coord.stepAct c i .rescind =
          (Coord.setVoter c i { voted := true, pc := .loaded c.flags }, .cont) := by
        simp [Coord.stepAct, hv, h2, hall, hf]
      have hv' : (Coord.setVoter c i { voted := true, pc := .loaded c.flags }).voters[i]? =
          some { voted := true, pc := .loaded c.flags } := by
        rw [Coord.setVoter_get]; simp [hl]
      have h2' : Coord.stepAct (Coord.setVoter c i { voted := true, pc := .loaded c.flags }) i .cas =
          (Coord.setVoter { Coord.setVoter c i { voted := true, pc := .loaded c.flags } with
              flags := c.flags &&& Coord.notU8 (Coord.flagOf i) } i { voted := false, pc := .idle }, .pending) := by
        simp [Coord.stepAct, hv']
      simp only [Coord.apiRescind, h1, h2', if_true, hf, if_false]
      simp [Coord.setVoter, List.set_set]

theorem rescind_cases {c : Coord.St} (h : CIdle c) {i : Nat} (hi : i < 3) :
    ((Coord.apiRescind c i).2 = .unanimous ∧ (Coord.apiRescind c i).1 = c ∧ c.flags = Coord.allMask 3) ∨
    ((Coord.apiRescind c i).2 = .pending ∧ CIdle (Coord.apiRescind c i).1 ∧
      Coord.votedAt (Coord.apiRescind c i).1 i = false ∧
      (∀ j, j ≠ i → Coord.votedAt (Coord.apiRescind c i).1 j = Coord.votedAt c j) ∧
      (Coord.apiRescind c i).1.flags ≠ Coord.allMask 3) := by
  obtain ⟨b, hv⟩ := cidle_get h hi
  have hl : i < c.voters.length := by rw [h.inv.len, h.n3]; exact hi
  have hinv : Coord.Inv (Coord.apiRescind c i).1 := by
    unfold Coord.apiRescind
    simp only []
    split
    · exact Coord.inv_stepAct (Coord.inv_stepAct h.inv i .rescind) i .cas
    · exact Coord.inv_stepAct h.inv i .rescind
  have hnotall : ∀ c' : Coord.St, Coord.Inv c' → c'.n = 3 → Coord.votedAt c' i = false → c'.flags ≠ Coord.allMask 3 := by
    intro c' hi' hn hvf hfa
    have := (Coord.flags_all_iff hi').mp (by rw [hfa, hn]) i (by rw [hn]; exact hi)
    rw [hvf] at this; exact absurd this (by decide)
  cases b with
  | false =>
    right
    have hstep : Coord.apiRescind c i = (c, .pending) := by rw [apiRescind_eq h hi hv]; simp
    have hvi : Coord.votedAt c i = false := by rw [Coord.votedAt_of_get hv]
    rw [hstep]
    exact ⟨rfl, h, hvi, fun _ _ => rfl, hnotall c h.inv h.n3 hvi⟩
  | true =>
    by_cases hf : c.flags = Coord.allMask 3
    · left
      have hstep : Coord.apiRescind c i = (c, .unanimous) := by rw [apiRescind_eq h hi hv]; simp [hf]
      rw [hstep]; exact ⟨rfl, rfl, hf⟩
    · right
      have hstep : Coord.apiRescind c i =
          (Coord.setVoter { c with flags := c.flags &&& Coord.notU8 (Coord.flagOf i) } i { voted := false, pc := .idle },
            .pending) := by rw [apiRescind_eq h hi hv]; simp [hf]
      rw [hstep] at hinv ⊢
      have hvf : Coord.votedAt (Coord.setVoter { c with flags := c.flags &&& Coord.notU8 (Coord.flagOf i) } i
          { voted := false, pc := .idle }) i = false := by
        rw [Coord.votedAt_setVoter]; simp [hl]
      refine ⟨rfl, ⟨hinv, h.n3, ?_⟩, hvf, ?_, hnotall _ hinv h.n3 hvf⟩
      · intro j w hw
        rw [Coord.setVoter_get] at hw
        split at hw
        · cases hw; rfl
        · exact h.idle j w hw
      · intro j hj
        rw [Coord.votedAt_setVoter]
        have : ¬ (i = j ∧ i < c.voters.length) := fun hh => hj hh.1.symm
        simp [this, Coord.votedAt]

/-! ### the invariant of the composed model (everything but the stop record) -/

structure Core (s : St) : Prop where
  c : CIdle s.coord
  cr : s.coord = Coord.run (Coord.init 3) s.cevs
  vr : Coord.votedAt s.coord 0 = s.rVoted
  vw : Coord.votedAt s.coord 1 = s.wVoted
  vh : Coord.votedAt s.coord 2 = s.hVoted
  /-- a blocked task has no outstanding vote -/
  rb : s.rBusy = true → s.rVoted = false
  hb : s.hBusy = true → s.hVoted = false
  /-- an outstanding vote was cast a full timeout after the task's last activity -/
  ra : s.rVoted = true → s.rAct + s.T ≤ s.now
  wa : s.wVoted = true → s.wAct + s.T ≤ s.now
  ha : s.hVoted = true → s.hAct + s.T ≤ s.now
  /-- a running timer expires a full timeout after the task's last activity, or later -/
  rd : s.rBusy = false → s.rAct + s.T ≤ s.rDl
  wd : s.wEnabled = true → s.wAct + s.T ≤ s.wDl
  hd : s.hBusy = false → s.hAct + s.T ≤ s.hDl
  an : s.rAct ≤ s.now ∧ s.wAct ≤ s.now ∧ s.hAct ≤ s.now
  /-- the write task knows every remote that is still attached -/
  sub : ∀ r, r ∈ s.attached → r ∈ s.wRemotes
  /-- a running timer expires at most a timeout from now -/
  dr : s.rBusy = false → s.rDl ≤ s.now + s.T
  dh : s.hBusy = false → s.hDl ≤ s.now + s.T
  dw : s.wEnabled = true → s.wDl ≤ s.now + s.T
  /-- the write task's timer is disabled only while its vote is cast -/
  ew : s.wVoted = false → s.wEnabled = true

theorem core_init (T : Nat) : Core (init T) := by
  refine ⟨cidle_init, rfl, ?_, ?_, ?_, ?_, ?_, ?_, ?_, ?_, ?_, ?_, ?_, ?_, ?_, ?_, ?_, ?_, ?_⟩ <;>
    simp [init, Coord.votedAt_replicate]

/-! plain updates -/

theorem core_addRemote {s : St} (h : Core s) (r : Nat) : Core (addRemote s r) := by
  have hs : ∀ x, x ∈ (addRemote s r).attached → x ∈ (addRemote s r).wRemotes := by
    intro x hx
    simp only [addRemote, List.mem_cons] at hx ⊢
    rcases hx with rfl | hx
    · exact Or.inl rfl
    · exact Or.inr (h.sub x hx)
  exact { h with sub := hs }

theorem core_delAttached {s : St} (h : Core s) (r : Nat) : Core (delAttached s r) := by
  have hs : ∀ x, x ∈ (delAttached s r).attached → x ∈ (delAttached s r).wRemotes := by
    intro x hx
    simp only [delAttached, List.mem_filter] at hx
    exact h.sub x hx.1
  exact { h with sub := hs }

theorem core_addLink {s : St} (h : Core s) (l r : Nat) : Core (addLink s l r) := { h with }
theorem core_delLink {s : St} (h : Core s) (l r : Nat) : Core (delLink s l r) := { h with }
theorem core_setHFill {s : St} (h : Core s) (n : Nat) : Core (setHFill s n) := { h with }
theorem core_setLq {s : St} (h : Core s) (l : Nat) (q : List Frame) : Core (setLq s l q) := by
  unfold setLq; split
  · exact { h with }
  · exact { h with }

theorem core_dropRemote {s : St} (h : Core s) (r : Nat) (hr : r ∉ s.attached) : Core (dropRemote s r) := by
  have hs : ∀ x, x ∈ (dropRemote s r).attached → x ∈ (dropRemote s r).wRemotes := by
    intro x hx
    simp only [dropRemote, List.mem_filter]
    refine ⟨h.sub x hx, ?_⟩
    have : x ≠ r := fun e => hr (e ▸ hx)
    simp [this]
  exact { h with sub := hs }

theorem core_setNow {s : St} (h : Core s) (t : Nat) : Core (setNow s t) :=
  { h with
    ra := fun hv => Nat.le_trans (h.ra hv) (Nat.le_max_left _ _)
    wa := fun hv => Nat.le_trans (h.wa hv) (Nat.le_max_left _ _)
    ha := fun hv => Nat.le_trans (h.ha hv) (Nat.le_max_left _ _)
    an := ⟨Nat.le_trans h.an.1 (Nat.le_max_left _ _), Nat.le_trans h.an.2.1 (Nat.le_max_left _ _),
           Nat.le_trans h.an.2.2 (Nat.le_max_left _ _)⟩
    dr := fun hb => Nat.le_trans (h.dr hb) (Nat.add_le_add_right (Nat.le_max_left _ _) _)
    dh := fun hb => Nat.le_trans (h.dh hb) (Nat.add_le_add_right (Nat.le_max_left _ _) _)
    dw := fun hb => Nat.le_trans (h.dw hb) (Nat.add_le_add_right (Nat.le_max_left _ _) _) }

/-! timers -/

theorem core_readRearm {s : St} (h : Core s) : Core (readRearm s) :=
  { h with rd := fun _ => Nat.add_le_add_right h.an.1 _, dr := fun _ => Nat.le_refl _ }
theorem core_httpRearm {s : St} (h : Core s) : Core (httpRearm s) :=
  { h with hd := fun _ => Nat.add_le_add_right h.an.2.2 _, dh := fun _ => Nat.le_refl _ }
theorem core_writeReset {s : St} (h : Core s) : Core (writeReset s) :=
  { h with wd := fun _ => Nat.add_le_add_right h.an.2.1 _, dw := fun _ => Nat.le_refl _ }

theorem core_readBlock {s : St} (h : Core s) (l : Nat) (hv : s.rVoted = false) : Core (readBlock s l) :=
  { h with rb := fun _ => hv, rd := fun hb => by simp [readBlock] at hb, dr := fun hb => by simp [readBlock] at hb }
theorem core_readUnblock {s : St} (h : Core s) : Core (readUnblock s) :=
  { h with rb := fun hb => by simp [readUnblock, readRearm] at hb, rd := fun _ => Nat.add_le_add_right h.an.1 _,
           dr := fun _ => Nat.le_refl _ }
theorem core_httpBlock {s : St} (h : Core s) (hv : s.hVoted = false) : Core (httpBlock s) :=
  { h with hb := fun _ => hv, hd := fun hb => by simp [httpBlock] at hb, dh := fun hb => by simp [httpBlock] at hb }
theorem core_httpUnblock {s : St} (h : Core s) : Core (httpUnblock s) :=
  { h with hb := fun hb => by simp [httpUnblock, httpRearm] at hb, hd := fun _ => Nat.add_le_add_right h.an.2.2 _,
           dh := fun _ => Nat.le_refl _ }

/-! votes and rescinds -/

theorem run_append (c : Coord.St) (a b : List Coord.Ev) : Coord.run c (a ++ b) = Coord.run (Coord.run c a) b := by
  simp [Coord.run, List.foldl_append]

theorem apiRescind_run (c : Coord.St) (i : Nat) : (Coord.apiRescind c i).1 = Coord.run c (rescindEvs c i) := by
  unfold Coord.apiRescind rescindEvs
  simp only []
  split <;> simp [Coord.run, Coord.step]

theorem told_iff {c : Coord.St} (h : CIdle c) {i : Nat} (hi : i < 3) :
    ((Coord.apiRescind c i).2 == Coord.Res.unanimous) = true ↔ (Coord.apiRescind c i).2 = .unanimous := by
  simp

/-- a `rescind` that is told `Unanimous` changes nothing -/
theorem core_rescindAs_told {s : St} (h : Core s) {i : Nat} (hi : i < 3) (ht : rescindTold s i = true) :
    Core (rescindAs s i) ∧ (rescindAs s i).coord = s.coord := by
  have hc : (Coord.apiRescind s.coord i).1 = s.coord := by
    rcases rescind_cases h.c hi with hl | hr
    · exact hl.2.1
    · simp [rescindTold, hr.1] at ht
  have hcr : (rescindAs s i).coord = Coord.run (Coord.init 3) (rescindAs s i).cevs := by
    show (Coord.apiRescind s.coord i).1 = Coord.run (Coord.init 3) (s.cevs ++ rescindEvs s.coord i)
    rw [run_append, ← h.cr, apiRescind_run]
  have hcc : (rescindAs s i).coord = s.coord := hc
  refine ⟨⟨hcc ▸ h.c, hcr, hcc ▸ h.vr, hcc ▸ h.vw, hcc ▸ h.vh, h.rb, h.hb, h.ra, h.wa, h.ha, h.rd, h.wd, h.hd, h.an, h.sub, h.dr, h.dh, h.dw, h.ew⟩, hcc⟩

/-- a `rescind` that is told `UnanimityPending`: the party's vote is gone, the others' are untouched -/
theorem rescindAs_pending {s : St} (h : Core s) {i : Nat} (hi : i < 3) (ht : rescindTold s i = false) :
    CIdle (rescindAs s i).coord ∧ (rescindAs s i).coord = Coord.run (Coord.init 3) (rescindAs s i).cevs ∧
    Coord.votedAt (rescindAs s i).coord i = false ∧
    (∀ j, j ≠ i → Coord.votedAt (rescindAs s i).coord j = Coord.votedAt s.coord j) := by
  have hcr : (rescindAs s i).coord = Coord.run (Coord.init 3) (rescindAs s i).cevs := by
    show (Coord.apiRescind s.coord i).1 = Coord.run (Coord.init 3) (s.cevs ++ rescindEvs s.coord i)
    rw [run_append, ← h.cr, apiRescind_run]
  rcases rescind_cases h.c hi with hl | hr
  · simp [rescindTold, hl.1] at ht
  · exact ⟨hr.2.1, hcr, hr.2.2.1, hr.2.2.2.1⟩

theorem core_readRescind {s : St} (h : Core s) :
    Core (readRescind s).1 ∧ ((readRescind s).2 = false → (readRescind s).1.rVoted = false) := by
  unfold readRescind
  by_cases hv : s.rVoted = true
  · rw [if_pos hv]
    by_cases ht : rescindTold s READ = true
    · rw [if_pos ht]; exact ⟨(core_rescindAs_told h (by decide) ht).1, by simp⟩
    · rw [if_neg ht]
      have ht' : rescindTold s READ = false := by simpa using ht
      obtain ⟨hc, hcr, h0, hoth⟩ := rescindAs_pending h (i := READ) (by decide) ht'
      refine ⟨⟨hc, hcr, h0, ?_, ?_, fun _ => rfl, h.hb, fun hh => by simp at hh, h.wa, h.ha, ?_, h.wd, h.hd, ?_, h.sub,
        fun _ => Nat.le_refl _, h.dh, h.dw, h.ew⟩, fun _ => rfl⟩
      · exact (hoth 1 (by decide)).trans h.vw
      · exact (hoth 2 (by decide)).trans h.vh
      · intro _; exact Nat.le_refl _
      · exact ⟨Nat.le_refl _, h.an.2.1, h.an.2.2⟩
  · rw [if_neg hv]
    have hv' : s.rVoted = false := by simpa using hv
    refine ⟨{ h with ra := fun hh => by simp [hv'] at hh, rd := fun _ => Nat.le_refl _,
                     an := ⟨Nat.le_refl _, h.an.2.1, h.an.2.2⟩, dr := fun _ => Nat.le_refl _ }, fun _ => hv'⟩

theorem core_httpRescind {s : St} (h : Core s) :
    Core (httpRescind s).1 ∧ ((httpRescind s).2 = false → (httpRescind s).1.hVoted = false) := by
  unfold httpRescind
  by_cases hv : s.hVoted = true
  · rw [if_pos hv]
    by_cases ht : rescindTold s HTTP = true
    · rw [if_pos ht]; exact ⟨(core_rescindAs_told h (by decide) ht).1, by simp⟩
    · rw [if_neg ht]
      have ht' : rescindTold s HTTP = false := by simpa using ht
      obtain ⟨hc, hcr, h0, hoth⟩ := rescindAs_pending h (i := HTTP) (by decide) ht'
      refine ⟨⟨hc, hcr, ?_, ?_, h0, h.rb, fun _ => rfl, h.ra, h.wa, fun hh => by simp at hh, h.rd, h.wd, ?_, ?_, h.sub,
        h.dr, fun _ => Nat.le_refl _, h.dw, h.ew⟩, fun _ => rfl⟩
      · exact (hoth 0 (by decide)).trans h.vr
      · exact (hoth 1 (by decide)).trans h.vw
      · intro _; exact Nat.le_refl _
      · exact ⟨h.an.1, h.an.2.1, Nat.le_refl _⟩
  · rw [if_neg hv]
    have hv' : s.hVoted = false := by simpa using hv
    refine ⟨{ h with ha := fun hh => by simp [hv'] at hh, hd := fun _ => Nat.le_refl _,
                     an := ⟨h.an.1, h.an.2.1, Nat.le_refl _⟩, dh := fun _ => Nat.le_refl _ }, fun _ => hv'⟩

theorem core_writeAct {s : St} (h : Core s) : Core (writeAct s) := by
  have hw := core_writeReset h
  unfold writeAct writeRescind
  generalize hs1 : writeReset s = s1 at hw ⊢
  have hdl : s1.wDl = s1.now + s1.T := by rw [← hs1]; rfl
  by_cases hv : s1.wVoted = true
  · rw [if_pos hv]
    by_cases ht : rescindTold s1 WRITE = true
    · rw [if_pos ht]
      exact { (core_rescindAs_told hw (by decide) ht).1 with }
    · rw [if_neg ht]
      have ht' : rescindTold s1 WRITE = false := by simpa using ht
      obtain ⟨hc, hcr, h0, hoth⟩ := rescindAs_pending hw (i := WRITE) (by decide) ht'
      refine ⟨hc, hcr, ?_, h0, ?_, hw.rb, hw.hb, hw.ra, fun hh => by simp at hh, hw.ha, hw.rd, ?_, hw.hd, ?_, hw.sub,
        hw.dr, hw.dh, fun _ => Nat.le_of_eq hdl, fun _ => rfl⟩
      · exact (hoth 0 (by decide)).trans hw.vr
      · exact (hoth 2 (by decide)).trans hw.vh
      · intro _; exact Nat.le_of_eq hdl.symm
      · exact ⟨hw.an.1, Nat.le_refl _, hw.an.2.2⟩
  · rw [if_neg hv]
    have hv' : s1.wVoted = false := by simpa using hv
    exact { hw with wa := fun hh => by simp [hv'] at hh, wd := fun _ => Nat.le_of_eq hdl.symm,
                    an := ⟨hw.an.1, Nat.le_refl _, hw.an.2.2⟩ }

theorem run_vote (c : Coord.St) (i : Nat) : Coord.run c [.act i .vote] = (Coord.stepAct c i .vote).1 := rfl

theorem voteAs_facts {s : St} (h : Core s) {i : Nat} (hi : i < 3) :
    CIdle (voteAs s i).coord ∧ (voteAs s i).coord = Coord.run (Coord.init 3) (voteAs s i).cevs ∧
    (∀ j, Coord.votedAt (voteAs s i).coord j = (decide (i = j) || Coord.votedAt s.coord j)) := by
  refine ⟨cidle_vote h.c hi, ?_, votedAt_vote h.c hi⟩
  show (Coord.stepAct s.coord i .vote).1 = Coord.run (Coord.init 3) (s.cevs ++ [.act i .vote])
  rw [run_append, ← h.cr, run_vote]

theorem core_fireRead {s : St} (h : Core s) (hb : s.rBusy = false) : Core (fireRead s) := by
  have h1 : Core { s with now := max s.now s.rDl } := core_setNow h s.rDl
  obtain ⟨hc, hcr, hv⟩ := voteAs_facts h1 (i := READ) (by decide)
  have hrd := h.rd hb
  refine ⟨hc, hcr, ?_, ?_, ?_, fun hh => by simp [fireRead, voteAs, hb] at hh, h.hb, ?_, h1.wa, h1.ha, ?_, h.wd, h.hd, h1.an, h.sub,
    fun _ => Nat.le_refl _, h1.dh, h1.dw, h.ew⟩
  · exact hv 0
  · exact (hv 1).trans h.vw
  · exact (hv 2).trans h.vh
  · intro _; show s.rAct + s.T ≤ max s.now s.rDl; omega
  · intro _; show s.rAct + s.T ≤ max s.now s.rDl + s.T; have := h.an.1; omega

theorem core_fireHttp {s : St} (h : Core s) (hb : s.hBusy = false) : Core (fireHttp s) := by
  have h1 : Core { s with now := max s.now s.hDl } := core_setNow h s.hDl
  have hhd := h.hd hb
  unfold fireHttp
  by_cases hvt : s.hVoted = true
  · rw [if_pos hvt]
    exact { h1 with hd := fun _ => by show s.hAct + s.T ≤ max s.now s.hDl + s.T; have := h.an.2.2; omega,
                    dh := fun _ => Nat.le_refl _ }
  · rw [if_neg hvt]
    obtain ⟨hc, hcr, hv⟩ := voteAs_facts h1 (i := HTTP) (by decide)
    refine ⟨hc, hcr, ?_, ?_, ?_, h.rb, fun hh => by simp [voteAs, hb] at hh, h1.ra, h1.wa, ?_, h.rd, h.wd, ?_, h1.an, h.sub,
      h1.dr, fun _ => Nat.le_refl _, h1.dw, h.ew⟩
    · rw [hv]; exact h.vr
    · rw [hv]; exact h.vw
    · rw [hv]; rfl
    · intro _; show s.hAct + s.T ≤ max s.now s.hDl; omega
    · intro _; show s.hAct + s.T ≤ max s.now s.hDl + s.T; have := h.an.2.2; omega

theorem core_fireWrite {s : St} (h : Core s) (he : s.wEnabled = true) : Core (fireWrite s) := by
  have h1 : Core { s with now := max s.now s.wDl } := core_setNow h s.wDl
  have hwd := h.wd he
  unfold fireWrite
  by_cases hem : s.wRemotes.isEmpty = true
  · rw [if_pos hem]
    exact { h1 with }
  · rw [if_neg hem]
    obtain ⟨hc, hcr, hv⟩ := voteAs_facts h1 (i := WRITE) (by decide)
    refine ⟨hc, hcr, ?_, ?_, ?_, h.rb, h.hb, h1.ra, ?_, h1.ha, h.rd, fun hh => by simp at hh, h.hd, h1.an, h.sub,
      h1.dr, h1.dh, fun hh => by simp at hh, fun hh => by simp at hh⟩
    · rw [hv]; exact h.vr
    · rw [hv]; rfl
    · rw [hv]; exact h.vh
    · intro _; show s.wAct + s.T ≤ max s.now s.wDl; omega

/-! ### fields that the pieces leave alone -/

section fields
local macro "fld" : tactic => `(tactic| (first | rfl | (split <;> first | rfl | (split <;> first | rfl | (split <;> rfl)))))

@[simp] theorem stop_addRemote (s : St) (r : Nat) : (addRemote s r).stop = s.stop := rfl
@[simp] theorem stop_delAttached (s : St) (r : Nat) : (delAttached s r).stop = s.stop := rfl
@[simp] theorem stop_addLink (s : St) (l r : Nat) : (addLink s l r).stop = s.stop := rfl
@[simp] theorem stop_delLink (s : St) (l r : Nat) : (delLink s l r).stop = s.stop := rfl
@[simp] theorem stop_dropRemote (s : St) (r : Nat) : (dropRemote s r).stop = s.stop := rfl
@[simp] theorem stop_setLq (s : St) (l : Nat) (q : List Frame) : (setLq s l q).stop = s.stop := by unfold setLq; fld
@[simp] theorem stop_setHFill (s : St) (n : Nat) : (setHFill s n).stop = s.stop := rfl
@[simp] theorem stop_readRescind (s : St) : (readRescind s).1.stop = s.stop := by unfold readRescind; fld
@[simp] theorem stop_readRearm (s : St) : (readRearm s).stop = s.stop := rfl
@[simp] theorem stop_readBlock (s : St) (l : Nat) : (readBlock s l).stop = s.stop := rfl
@[simp] theorem stop_readUnblock (s : St) : (readUnblock s).stop = s.stop := rfl
@[simp] theorem stop_fireRead (s : St) : (fireRead s).stop = s.stop := rfl
@[simp] theorem stop_writeReset (s : St) : (writeReset s).stop = s.stop := rfl
@[simp] theorem stop_writeRescind (s : St) : (writeRescind s).stop = s.stop := by unfold writeRescind; fld
@[simp] theorem stop_writeAct (s : St) : (writeAct s).stop = s.stop := by simp [writeAct]
@[simp] theorem stop_httpRescind (s : St) : (httpRescind s).1.stop = s.stop := by unfold httpRescind; fld
@[simp] theorem stop_httpRearm (s : St) : (httpRearm s).stop = s.stop := rfl
@[simp] theorem stop_httpBlock (s : St) : (httpBlock s).stop = s.stop := rfl
@[simp] theorem stop_httpUnblock (s : St) : (httpUnblock s).stop = s.stop := rfl
@[simp] theorem stop_fireHttp (s : St) : (fireHttp s).stop = s.stop := by unfold fireHttp; fld
@[simp] theorem stop_feed (s : St) (l : Nat) (f : Frame) : (feed s l f).stop = s.stop := by
  unfold feed; split <;> simp
@[simp] theorem stop_foldDrop (rs : List Nat) (s : St) : (rs.foldl dropRemote s).stop = s.stop := by
  induction rs generalizing s with
  | nil => rfl
  | cons r rs ih => simp [List.foldl, ih]
@[simp] theorem stop_dispatch (s : St) (op : Op) : (dispatch s op).stop = s.stop := by
  cases op <;> simp only [dispatch] <;> (repeat' split) <;> simp

@[simp] theorem hBusy_addRemote (s : St) (r : Nat) : (addRemote s r).hBusy = s.hBusy := rfl
@[simp] theorem hBusy_delAttached (s : St) (r : Nat) : (delAttached s r).hBusy = s.hBusy := rfl
@[simp] theorem hBusy_addLink (s : St) (l r : Nat) : (addLink s l r).hBusy = s.hBusy := rfl
@[simp] theorem hBusy_delLink (s : St) (l r : Nat) : (delLink s l r).hBusy = s.hBusy := rfl
@[simp] theorem hBusy_dropRemote (s : St) (r : Nat) : (dropRemote s r).hBusy = s.hBusy := rfl
@[simp] theorem hBusy_setLq (s : St) (l : Nat) (q : List Frame) : (setLq s l q).hBusy = s.hBusy := by unfold setLq; fld
@[simp] theorem hBusy_readRescind (s : St) : (readRescind s).1.hBusy = s.hBusy := by unfold readRescind; fld
@[simp] theorem hBusy_readRearm (s : St) : (readRearm s).hBusy = s.hBusy := rfl
@[simp] theorem hBusy_readBlock (s : St) (l : Nat) : (readBlock s l).hBusy = s.hBusy := rfl
@[simp] theorem hBusy_readUnblock (s : St) : (readUnblock s).hBusy = s.hBusy := rfl
@[simp] theorem hBusy_fireRead (s : St) : (fireRead s).hBusy = s.hBusy := rfl
@[simp] theorem hBusy_writeReset (s : St) : (writeReset s).hBusy = s.hBusy := rfl
@[simp] theorem hBusy_writeRescind (s : St) : (writeRescind s).hBusy = s.hBusy := by unfold writeRescind; fld
@[simp] theorem hBusy_writeAct (s : St) : (writeAct s).hBusy = s.hBusy := by simp [writeAct]
@[simp] theorem hBusy_fireWrite (s : St) : (fireWrite s).hBusy = s.hBusy := by unfold fireWrite; fld
@[simp] theorem hBusy_fireHttp (s : St) : (fireHttp s).hBusy = s.hBusy := by unfold fireHttp; fld
@[simp] theorem hBusy_settle (s : St) : (settle s).hBusy = s.hBusy := by unfold settle; fld
@[simp] theorem hBusy_setNow (s : St) (t : Nat) : (setNow s t).hBusy = s.hBusy := rfl
@[simp] theorem hBusy_feed (s : St) (l : Nat) (f : Frame) : (feed s l f).hBusy = s.hBusy := by
  unfold feed; split <;> simp
@[simp] theorem hBusy_foldDrop (rs : List Nat) (s : St) : (rs.foldl dropRemote s).hBusy = s.hBusy := by
  induction rs generalizing s with
  | nil => rfl
  | cons r rs ih => simp [List.foldl, ih]
@[simp] theorem hBusy_dispatch (s : St) (op : Op) : (dispatch s op).hBusy = s.hBusy := by
  cases op <;> simp only [dispatch] <;> (repeat' split) <;> simp
@[simp] theorem hBusy_fire (s : St) (t : Task) : (fire s t).hBusy = s.hBusy := by cases t <;> simp [fire]

@[simp] theorem rVoted_setLq (s : St) (l : Nat) (q : List Frame) : (setLq s l q).rVoted = s.rVoted := by unfold setLq; fld
@[simp] theorem attached_dropRemote (s : St) (r : Nat) : (dropRemote s r).attached = s.attached := rfl
end fields

/-! ### composite steps keep the invariant -/

theorem core_feed {s : St} (h : Core s) (hv : s.rVoted = false) (l : Nat) (f : Frame) : Core (feed s l f) := by
  unfold feed; split
  · exact core_readRearm (core_setLq h _ _)
  · exact core_readBlock (core_setLq h _ _) l (by simpa using hv)

theorem core_dispatch {s : St} (h : Core s) (hv : s.rVoted = false) (op : Op) : Core (dispatch s op) := by
  cases op <;> simp only [dispatch] <;> (repeat' split) <;>
    first
    | exact h
    | exact core_feed h hv _ _
    | exact core_readRearm h
    | exact core_readRearm (core_writeReset h)
    | exact core_readRearm (core_writeAct h)
    | exact core_readRearm (core_writeAct (core_addLink h _ _))
    | exact core_readRearm (core_writeAct (core_delLink h _ _))

theorem core_envelope {s : St} (h : Core s) (r : Nat) (op : Op) : Core (envelope s r op).1 := by
  unfold envelope
  split
  · split
    · exact (core_readRescind h).1
    · rename_i hne
      exact core_dispatch (core_readRescind h).1 ((core_readRescind h).2 (by simpa using hne)) op
  · exact h

theorem core_foldDrop {s : St} (h : Core s) (rs : List Nat) (hrs : ∀ r, r ∈ rs → r ∉ s.attached) :
    Core (rs.foldl dropRemote s) := by
  induction rs generalizing s with
  | nil => exact h
  | cons r rs ih =>
    simp only [List.foldl]
    apply ih (core_dropRemote h r (hrs r (List.mem_cons_self)))
    intro x hx
    rw [attached_dropRemote]
    exact hrs x (List.mem_cons_of_mem _ hx)

theorem deadTargets_not_attached (s : St) (l : Nat) : ∀ r, r ∈ deadTargets s l → r ∉ s.attached := by
  intro r hr
  simp only [deadTargets, List.mem_map, List.mem_filter] at hr
  obtain ⟨p, ⟨_, hp⟩, rfl⟩ := hr
  simp at hp
  exact hp.2

theorem core_step0 {s : St} (h : Core s) (op : Op) (hop : ∀ k, op ≠ .adv k) : Core (step0 s op).1 := by
  cases op with
  | adv k => exact absurd rfl (hop k)
  | attach r => simp only [step0]; split; exact h; exact core_readRearm (core_addRemote h r)
  | detach r =>
    simp only [step0]; split
    · split
      · exact core_readRearm (core_delAttached h r)
      · exact core_delAttached h r
    · exact h
  | link r l => exact core_envelope h r _
  | unlink r l => exact core_envelope h r _
  | sync r l => exact core_envelope h r _
  | cmd r l => exact core_envelope h r _
  | take l =>
    simp only [step0]; split
    · exact h
    · split
      · exact core_readUnblock (core_setLq h _ _)
      · exact core_setLq h _ _
  | ev l => exact core_foldDrop (core_writeAct h) _ (deadTargets_not_attached _ l)
  | synced l r =>
    simp only [step0]; split
    · split
      · exact core_addLink (core_writeAct h) l r
      · rename_i hna
        exact core_dropRemote (core_addLink (core_writeAct h) l r) r (by simpa [addLink] using hna)
    · exact core_writeAct h
  | http known =>
    simp only [step0]; split
    · exact h
    · split
      · exact (core_httpRescind h).1
      · rename_i hne
        have hv := (core_httpRescind h).2 (by simpa using hne)
        split
        · split
          · exact core_httpRearm (core_setHFill (core_httpRescind h).1 1)
          · exact core_httpBlock (core_httpRescind h).1 hv
        · exact core_httpRearm (core_httpRescind h).1
  | httpread =>
    simp only [step0]; split
    · exact h
    · split
      · exact core_httpUnblock h
      · exact core_setHFill h 0

theorem stop_step0 (s : St) (op : Op) (hop : ∀ k, op ≠ .adv k) : (step0 s op).1.stop = s.stop := by
  cases op with
  | adv k => exact absurd rfl (hop k)
  | link r l => simp only [step0, envelope]; (repeat' split) <;> simp
  | unlink r l => simp only [step0, envelope]; (repeat' split) <;> simp
  | sync r l => simp only [step0, envelope]; (repeat' split) <;> simp
  | cmd r l => simp only [step0, envelope]; (repeat' split) <;> simp
  | _ => simp only [step0] <;> (repeat' split) <;> simp [readUnblock, httpUnblock]

/-! ### the full invariant: the stop record -/

structure RInv (s : St) : Prop where
  core : Core s
  /-- still running ⇒ not every flag is set -/
  st_none : s.stop = none → s.coord.flags ≠ Coord.allMask 3
  /-- stopped by the vote ⇒ every flag is set, and the state is frozen at the stop -/
  st_un : ∀ st, s.stop = some st → st.kind = .unanimous →
    s.coord.flags = Coord.allMask 3 ∧ st.time = s.now ∧ st.ret = !(s.hBusy || s.rBusy)
  /-- stopped without a vote ⇒ the write task knew no remote and its own timer had expired -/
  st_nr : ∀ st, s.stop = some st → st.kind = .noRemotes →
    s.wRemotes = [] ∧ s.wAct + s.T ≤ st.time ∧ st.time ≤ s.now

theorem rinv_init (T : Nat) : RInv (init T) :=
  ⟨core_init T, fun _ => by show Generated.coordInit ≠ Coord.allMask 3; decide, fun st h => by simp [init] at h, fun st h => by simp [init] at h⟩

theorem rinv_settle_none {s : St} (h : Core s) (hs : s.stop = none) : RInv (settle s) := by
  unfold settle
  simp only [hs, Option.isSome_none, Bool.false_eq_true, if_false]
  split
  · rename_i hf
    refine ⟨{ h with }, fun hh => by simp at hh, ?_, ?_⟩
    · intro st hst hk
      simp at hst
      subst hst
      exact ⟨hf, rfl, by simp⟩
    · intro st hst hk
      simp at hst
      subst hst
      cases hk
  · rename_i hf
    exact ⟨h, fun _ => hf, fun st hst => by simp [hs] at hst, fun st hst => by simp [hs] at hst⟩

theorem rinv_settle {s : St} (h : RInv s) : RInv (settle s) := by
  cases hs : s.stop with
  | none => exact rinv_settle_none h.core hs
  | some st => unfold settle; simp [hs]; exact h

theorem pick_http {s : St} {t : Nat} (h : pick s t = some .http) : s.hBusy = false := by
  unfold pick at h
  split at h
  · rename_i hc; simp [hDue] at hc; exact hc.1.1.1
  · split at h
    · cases h
    · split at h <;> cases h

theorem pick_read {s : St} {t : Nat} (h : pick s t = some .read) : s.rBusy = false := by
  unfold pick at h
  split at h
  · cases h
  · split at h
    · rename_i hc; simp [rDue] at hc; exact hc.1.1
    · split at h <;> cases h

theorem pick_write {s : St} {t : Nat} (h : pick s t = some .write) : s.wEnabled = true := by
  unfold pick at h
  split at h
  · cases h
  · split at h
    · cases h
    · split at h
      · rename_i hc; simp [wDue] at hc; exact hc.1
      · cases h

theorem rinv_fire {s : St} (h : RInv s) (hs : s.stop = none) {target : Nat} {t : Task} (hp : pick s target = some t) :
    RInv (settle (fire s t)) := by
  cases t with
  | http =>
    exact rinv_settle_none (core_fireHttp h.core (pick_http hp)) (by simp [fire, hs])
  | read =>
    exact rinv_settle_none (core_fireRead h.core (pick_read hp)) (by simp [fire, hs])
  | write =>
    have he := pick_write hp
    have hc := core_fireWrite h.core he
    simp only [fire]
    by_cases hem : s.wRemotes.isEmpty = true
    · have hst : (fireWrite s).stop = some { kind := .noRemotes, time := max s.now s.wDl, ret := !(s.hBusy || s.rBusy), writeSaw := false } := by
        unfold fireWrite; rw [if_pos hem]
      have hset : settle (fireWrite s) = fireWrite s := by unfold settle; simp [hst]
      rw [hset]
      refine ⟨hc, fun hh => by simp [hst] at hh, ?_, ?_⟩
      · intro st hh hk; rw [hst] at hh; cases hh; cases hk
      · intro st hh _
        rw [hst] at hh; cases hh
        have hwd := h.core.wd he
        unfold fireWrite; rw [if_pos hem]
        refine ⟨List.isEmpty_iff.mp hem, ?_, Nat.le_refl _⟩
        show s.wAct + s.T ≤ max s.now s.wDl
        omega
    · have hst : (fireWrite s).stop = none := by unfold fireWrite; rw [if_neg hem]; exact hs
      exact rinv_settle_none hc hst

theorem rinv_setNow {s : St} (h : RInv s) (hs : s.stop = none) (t : Nat) : RInv (setNow s t) :=
  ⟨core_setNow h.core t, h.st_none, fun st hh => by simp [setNow, hs] at hh, fun st hh => by simp [setNow, hs] at hh⟩

theorem rinv_advLoop (fuel target : Nat) {s : St} (h : RInv s) : RInv (advLoop fuel target s) := by
  induction fuel generalizing s with
  | zero =>
    unfold advLoop
    cases hs : s.stop with
    | none => simp; exact rinv_setNow h hs target
    | some st => simp; exact h
  | succ fuel ih =>
    unfold advLoop
    cases hs : s.stop with
    | some st => simp; exact h
    | none =>
      simp only [Option.isSome_none, Bool.false_eq_true, if_false]
      cases hp : pick s target with
      | none => exact rinv_setNow h hs target
      | some t => exact ih (rinv_fire h hs hp)

theorem rinv_step {s : St} (h : RInv s) (op : Op) : RInv (step s op).1 := by
  unfold step
  cases hs : s.stop with
  | some st => simp; exact h
  | none =>
    simp only [Option.isSome_none, Bool.false_eq_true, if_false]
    by_cases hop : ∃ k, op = .adv k
    · obtain ⟨k, rfl⟩ := hop
      exact rinv_settle (rinv_advLoop _ _ h)
    · have hop' : ∀ k, op ≠ .adv k := fun k e => hop ⟨k, e⟩
      exact rinv_settle_none (core_step0 h.core op hop') (by rw [stop_step0 s op hop']; exact hs)

theorem rinv_run {s : St} (h : RInv s) (ops : List Op) : RInv (run s ops) := by
  induction ops generalizing s with
  | nil => exact h
  | cons op ops ih => exact ih (rinv_step h op)

/-! ### a blocked task stays blocked until the agent reads -/

section busy
local macro "fld" : tactic => `(tactic| (first | rfl | (split <;> first | rfl | (split <;> first | rfl | (split <;> rfl)))))

@[simp] theorem rBusy_addLink (s : St) (l r : Nat) : (addLink s l r).rBusy = s.rBusy := by unfold addLink; fld
@[simp] theorem rBusy_dropRemote (s : St) (r : Nat) : (dropRemote s r).rBusy = s.rBusy := by unfold dropRemote; fld
@[simp] theorem rBusy_writeReset (s : St)  : (writeReset s ).rBusy = s.rBusy := by unfold writeReset; fld
@[simp] theorem rBusy_writeRescind (s : St)  : (writeRescind s ).rBusy = s.rBusy := by unfold writeRescind; fld
@[simp] theorem rBusy_httpRearm (s : St)  : (httpRearm s ).rBusy = s.rBusy := by unfold httpRearm; fld
@[simp] theorem rBusy_setHFill (s : St) (n : Nat) : (setHFill s n).rBusy = s.rBusy := by unfold setHFill; fld
@[simp] theorem rBusy_httpBlock (s : St)  : (httpBlock s ).rBusy = s.rBusy := by unfold httpBlock; fld
@[simp] theorem rBusy_httpUnblock (s : St)  : (httpUnblock s ).rBusy = s.rBusy := by unfold httpUnblock; fld
@[simp] theorem rBusy_fireRead (s : St)  : (fireRead s ).rBusy = s.rBusy := by unfold fireRead; fld
@[simp] theorem rBusy_fireWrite (s : St)  : (fireWrite s ).rBusy = s.rBusy := by unfold fireWrite; fld
@[simp] theorem rBusy_fireHttp (s : St)  : (fireHttp s ).rBusy = s.rBusy := by unfold fireHttp; fld
@[simp] theorem rBusy_settle (s : St)  : (settle s ).rBusy = s.rBusy := by unfold settle; fld
@[simp] theorem rBusy_setNow (s : St) (t : Nat) : (setNow s t).rBusy = s.rBusy := by unfold setNow; fld
@[simp] theorem rBusy_httpRescind (s : St) : (httpRescind s).1.rBusy = s.rBusy := by unfold httpRescind; fld
@[simp] theorem rBusy_writeAct (s : St) : (writeAct s).rBusy = s.rBusy := by simp [writeAct]
@[simp] theorem rBusy_setLq (s : St) (l : Nat) (q : List Frame) : (setLq s l q).rBusy = s.rBusy := by unfold setLq; fld
@[simp] theorem rBusy_foldDrop (rs : List Nat) (s : St) : (rs.foldl dropRemote s).rBusy = s.rBusy := by
  induction rs generalizing s with
  | nil => rfl
  | cons r rs ih => simp [List.foldl, ih]
@[simp] theorem rBusy_fire (s : St) (t : Task) : (fire s t).rBusy = s.rBusy := by cases t <;> simp [fire]
@[simp] theorem busyLane_addLink (s : St) (l r : Nat) : (addLink s l r).busyLane = s.busyLane := by unfold addLink; fld
@[simp] theorem busyLane_dropRemote (s : St) (r : Nat) : (dropRemote s r).busyLane = s.busyLane := by unfold dropRemote; fld
@[simp] theorem busyLane_writeReset (s : St)  : (writeReset s ).busyLane = s.busyLane := by unfold writeReset; fld
@[simp] theorem busyLane_writeRescind (s : St)  : (writeRescind s ).busyLane = s.busyLane := by unfold writeRescind; fld
@[simp] theorem busyLane_httpRearm (s : St)  : (httpRearm s ).busyLane = s.busyLane := by unfold httpRearm; fld
@[simp] theorem busyLane_setHFill (s : St) (n : Nat) : (setHFill s n).busyLane = s.busyLane := by unfold setHFill; fld
@[simp] theorem busyLane_httpBlock (s : St)  : (httpBlock s ).busyLane = s.busyLane := by unfold httpBlock; fld
@[simp] theorem busyLane_httpUnblock (s : St)  : (httpUnblock s ).busyLane = s.busyLane := by unfold httpUnblock; fld
@[simp] theorem busyLane_fireRead (s : St)  : (fireRead s ).busyLane = s.busyLane := by unfold fireRead; fld
@[simp] theorem busyLane_fireWrite (s : St)  : (fireWrite s ).busyLane = s.busyLane := by unfold fireWrite; fld
@[simp] theorem busyLane_fireHttp (s : St)  : (fireHttp s ).busyLane = s.busyLane := by unfold fireHttp; fld
@[simp] theorem busyLane_settle (s : St)  : (settle s ).busyLane = s.busyLane := by unfold settle; fld
@[simp] theorem busyLane_setNow (s : St) (t : Nat) : (setNow s t).busyLane = s.busyLane := by unfold setNow; fld
@[simp] theorem busyLane_httpRescind (s : St) : (httpRescind s).1.busyLane = s.busyLane := by unfold httpRescind; fld
@[simp] theorem busyLane_writeAct (s : St) : (writeAct s).busyLane = s.busyLane := by simp [writeAct]
@[simp] theorem busyLane_setLq (s : St) (l : Nat) (q : List Frame) : (setLq s l q).busyLane = s.busyLane := by unfold setLq; fld
@[simp] theorem busyLane_foldDrop (rs : List Nat) (s : St) : (rs.foldl dropRemote s).busyLane = s.busyLane := by
  induction rs generalizing s with
  | nil => rfl
  | cons r rs ih => simp [List.foldl, ih]
@[simp] theorem busyLane_fire (s : St) (t : Task) : (fire s t).busyLane = s.busyLane := by cases t <;> simp [fire]

theorem hBusy_advLoop (fuel target : Nat) (s : St) : (advLoop fuel target s).hBusy = s.hBusy := by
  induction fuel generalizing s with
  | zero => unfold advLoop; split <;> simp
  | succ fuel ih =>
    unfold advLoop
    split
    · rfl
    · split
      · simp
      · rw [ih]; simp

theorem rBusy_advLoop (fuel target : Nat) (s : St) :
    (advLoop fuel target s).rBusy = s.rBusy ∧ (advLoop fuel target s).busyLane = s.busyLane := by
  induction fuel generalizing s with
  | zero => unfold advLoop; split <;> simp
  | succ fuel ih =>
    unfold advLoop
    split
    · exact ⟨rfl, rfl⟩
    · split
      · simp
      · rw [(ih _).1, (ih _).2]; simp

theorem hBusy_step {s : St} (hb : s.hBusy = true) {op : Op} (hop : op ≠ .httpread) : (step s op).1.hBusy = true := by
  unfold step
  split
  · exact hb
  · rw [hBusy_settle]
    cases op with
    | httpread => exact absurd rfl hop
    | adv k => simp only [step0]; rw [hBusy_advLoop]; exact hb
    | http known => simp [step0, hb]
    | link r l => simp only [step0, envelope]; (repeat' split) <;> simp [hb]
    | unlink r l => simp only [step0, envelope]; (repeat' split) <;> simp [hb]
    | sync r l => simp only [step0, envelope]; (repeat' split) <;> simp [hb]
    | cmd r l => simp only [step0, envelope]; (repeat' split) <;> simp [hb]
    | _ => simp only [step0] <;> (repeat' split) <;> simp [hb]

theorem hBusy_run {s : St} (hb : s.hBusy = true) (ops : List Op) (hops : ∀ op, op ∈ ops → op ≠ .httpread) :
    (run s ops).hBusy = true := by
  induction ops generalizing s with
  | nil => exact hb
  | cons op ops ih =>
    exact ih (hBusy_step hb (hops op List.mem_cons_self)) (fun o ho => hops o (List.mem_cons_of_mem _ ho))

theorem rBusy_step {s : St} (hb : s.rBusy = true) {op : Op} (hop : op ≠ .take s.busyLane) :
    (step s op).1.rBusy = true ∧ (step s op).1.busyLane = s.busyLane := by
  unfold step
  split
  · exact ⟨hb, rfl⟩
  · rw [rBusy_settle, busyLane_settle]
    cases op with
    | adv k => simp only [step0]; rw [(rBusy_advLoop _ _ s).1, (rBusy_advLoop _ _ s).2]; exact ⟨hb, rfl⟩
    | take l =>
      have hl : ¬ (s.busyLane = l) := fun e => hop (e ▸ rfl)
      simp only [step0]
      split
      · exact ⟨hb, rfl⟩
      · simp [hb, hl]
    | attach r => simp [step0, hb]
    | detach r => simp [step0, canSend, hb]
    | link r l => simp [step0, envelope, canSend, hb]
    | unlink r l => simp [step0, envelope, canSend, hb]
    | sync r l => simp [step0, envelope, canSend, hb]
    | cmd r l => simp [step0, envelope, canSend, hb]
    | _ => simp only [step0] <;> (repeat' split) <;> simp [hb]

theorem rBusy_run {s : St} (hb : s.rBusy = true) (ops : List Op) (hops : ∀ op, op ∈ ops → op ≠ .take s.busyLane) :
    (run s ops).rBusy = true := by
  induction ops generalizing s with
  | nil => exact hb
  | cons op ops ih =>
    have h1 := rBusy_step hb (hops op List.mem_cons_self)
    exact ih h1.1 (fun o ho => by rw [h1.2]; exact hops o (List.mem_cons_of_mem _ ho))

theorem run_app (s : St) (a b : List Op) : run s (a ++ b) = run (run s a) b := by
  simp [run, List.foldl_append]

end busy

/-! ### liveness: when nobody is busy and nothing happens for a full timeout, the runtime stops -/

section live
local macro "fld" : tactic => `(tactic| (first | rfl | (split <;> first | rfl | (split <;> first | rfl | (split <;> rfl)))))

@[simp] theorem T_settle (s : St) : (settle s).T = s.T := by unfold settle; fld
@[simp] theorem now_settle (s : St) : (settle s).now = s.now := by unfold settle; fld
@[simp] theorem hDl_settle (s : St) : (settle s).hDl = s.hDl := by unfold settle; fld
@[simp] theorem rDl_settle (s : St) : (settle s).rDl = s.rDl := by unfold settle; fld
@[simp] theorem wDl_settle (s : St) : (settle s).wDl = s.wDl := by unfold settle; fld
@[simp] theorem hVoted_settle (s : St) : (settle s).hVoted = s.hVoted := by unfold settle; fld
@[simp] theorem rVoted_settle (s : St) : (settle s).rVoted = s.rVoted := by unfold settle; fld
@[simp] theorem wVoted_settle (s : St) : (settle s).wVoted = s.wVoted := by unfold settle; fld
@[simp] theorem wEnabled_settle (s : St) : (settle s).wEnabled = s.wEnabled := by unfold settle; fld

/-- how often a `timeout(T, …)` that is re-armed on expiry can still fire before `target` (`T ≥ 100`) -/
def mH (s : St) (now0 target : Nat) : Nat := if hDue s target then (target - max s.hDl now0) / 100 + 1 else 0
def mR (s : St) (now0 target : Nat) : Nat := if rDue s target then (target - max s.rDl now0) / 100 + 1 else 0
def mW (s : St) (target : Nat) : Nat := if wDue s target then 1 else 0

structure Prog (s : St) (now0 target fuel : Nat) : Prop where
  inv : RInv s
  up : s.stop = none
  hb : s.hBusy = false
  rb : s.rBusy = false
  t100 : 100 ≤ s.T
  n0 : now0 ≤ s.now
  hv : s.hVoted = true ∨ s.hDl ≤ target
  rv : s.rVoted = true ∨ s.rDl ≤ target
  wv : s.wVoted = true ∨ (s.wEnabled = true ∧ s.wDl ≤ target)
  fuel : mH s now0 target + mR s now0 target + mW s target ≤ fuel

theorem all_voted_flags {s : St} (h : Core s) (hr : s.rVoted = true) (hw : s.wVoted = true) (hh : s.hVoted = true) :
    s.coord.flags = Coord.allMask 3 := by
  have := (Coord.flags_all_iff h.c.inv).mpr (by
    intro i hi
    rw [h.c.n3] at hi
    have : i = 0 ∨ i = 1 ∨ i = 2 := by omega
    rcases this with rfl | rfl | rfl
    · exact h.vr.trans hr
    · exact h.vw.trans hw
    · exact h.vh.trans hh)
  rw [this, h.c.n3]

/-- while the runtime is up and nobody is busy, some timer is due -/
theorem prog_due {s : St} {now0 target fuel : Nat} (p : Prog s now0 target fuel) :
    hDue s target = true ∨ rDue s target = true ∨ wDue s target = true := by
  by_cases h1 : hDue s target = true
  · exact Or.inl h1
  by_cases h2 : rDue s target = true
  · exact Or.inr (Or.inl h2)
  by_cases h3 : wDue s target = true
  · exact Or.inr (Or.inr h3)
  exfalso
  have hh : s.hVoted = true := by
    rcases p.hv with h | h
    · exact h
    · simp [hDue, p.hb, h] at h1
  have hr : s.rVoted = true := by
    rcases p.rv with h | h
    · exact h
    · simp [rDue, p.rb, h] at h2
  have hw : s.wVoted = true := by
    rcases p.wv with h | h
    · exact h
    · simp [wDue, h.1, h.2] at h3
  exact p.inv.st_none p.up (all_voted_flags p.inv.core hr hw hh)

theorem pick_some_of_due {s : St} {target : Nat}
    (h : hDue s target = true ∨ rDue s target = true ∨ wDue s target = true) : ∃ t, pick s target = some t := by
  unfold pick
  split
  · exact ⟨_, rfl⟩
  · split
    · exact ⟨_, rfl⟩
    · split
      · exact ⟨_, rfl⟩
      · rename_i h1 h2 h3
        exfalso
        -- nothing is due in the order of `pick`
        cases hh : hDue s target <;> cases hr : rDue s target <;> cases hw : wDue s target <;>
          simp_all <;> omega

theorem pick_due {s : St} {target : Nat} {t : Task} (h : pick s target = some t) :
    (t = .http → hDue s target = true) ∧ (t = .read → rDue s target = true) ∧ (t = .write → wDue s target = true) := by
  unfold pick at h
  split at h
  · rename_i hc
    cases h
    simp only [Bool.and_eq_true] at hc
    refine ⟨fun _ => hc.1.1, ?_, ?_⟩ <;> intro e <;> cases e
  · split at h
    · rename_i hc
      cases h
      simp only [Bool.and_eq_true] at hc
      refine ⟨?_, fun _ => hc.1, ?_⟩ <;> intro e <;> cases e
    · split at h
      · rename_i hc
        cases h
        refine ⟨?_, ?_, fun _ => hc⟩ <;> intro e <;> cases e
      · cases h

theorem advLoop_stopped (fuel target : Nat) (s : St) (h : s.stop.isSome = true) : advLoop fuel target s = s := by
  cases fuel <;> unfold advLoop <;> simp [h]

theorem prog_fire {s : St} {now0 target fuel : Nat} (p : Prog s now0 target (fuel + 1)) {t : Task}
    (hp : pick s target = some t) (hup : (settle (fire s t)).stop = none) :
    Prog (settle (fire s t)) now0 target fuel := by
  have hinv := rinv_fire p.inv p.up hp
  have hdue := pick_due hp
  have hT := p.t100
  have hn0 := p.n0
  have hfuel := p.fuel
  cases t with
  | http =>
    have hd := hdue.1 rfl
    have hdl : s.hDl ≤ target := by simp [hDue] at hd; exact hd.2
    have e1 : (settle (fire s .http)).hDl = max s.now s.hDl + s.T := by
      simp only [hDl_settle, fire]; unfold fireHttp; split <;> rfl
    have e2 : (settle (fire s .http)).hVoted = true := by
      simp only [hVoted_settle, fire]; unfold fireHttp; split
      · assumption
      · rfl
    have e3 : (settle (fire s .http)).now = max s.now s.hDl := by
      simp only [now_settle, fire]; unfold fireHttp; split <;> rfl
    have eT : (settle (fire s .http)).T = s.T := by
      simp only [T_settle, fire]; unfold fireHttp; split <;> rfl
    have er : rDue (settle (fire s .http)) target = rDue s target ∧ (settle (fire s .http)).rDl = s.rDl ∧
        (settle (fire s .http)).rVoted = s.rVoted := by
      simp only [rDue, rBusy_settle, rDl_settle, rVoted_settle, fire]
      unfold fireHttp; split <;> exact ⟨rfl, rfl, rfl⟩
    have ew : wDue (settle (fire s .http)) target = wDue s target ∧ (settle (fire s .http)).wDl = s.wDl ∧
        (settle (fire s .http)).wVoted = s.wVoted ∧ (settle (fire s .http)).wEnabled = s.wEnabled := by
      simp only [wDue, wEnabled_settle, wDl_settle, wVoted_settle, fire]
      unfold fireHttp; split <;> exact ⟨rfl, rfl, rfl, rfl⟩
    refine ⟨hinv, hup, by simp [p.hb], by simp [p.rb], by rw [eT]; exact hT, by rw [e3]; omega, Or.inl e2,
      by rw [er.2.2, er.2.1]; exact p.rv, by rw [ew.2.2.1, ew.2.2.2, ew.2.1]; exact p.wv, ?_⟩
    have hmr : mR (settle (fire s .http)) now0 target = mR s now0 target := by simp only [mR, er.1, er.2.1]
    have hmw : mW (settle (fire s .http)) target = mW s target := by simp only [mW, ew.1]
    have hmh0 : mH s now0 target = (target - max s.hDl now0) / 100 + 1 := by simp only [mH, hd, if_true]
    have hmh : mH (settle (fire s .http)) now0 target + 1 ≤ mH s now0 target := by
      rw [hmh0]
      unfold mH
      split
      · rename_i hd'
        have hdl' : (settle (fire s .http)).hDl ≤ target := by simp [hDue] at hd'; rw [hDl_settle]; exact hd'.2
        rw [e1] at hdl' ⊢
        omega
      · omega
    rw [hmr, hmw]; omega
  | read =>
    have hd := hdue.2.1 rfl
    have hdl : s.rDl ≤ target := by simp [rDue] at hd; exact hd.2
    have e1 : (settle (fire s .read)).rDl = max s.now s.rDl + s.T := by simp only [rDl_settle, fire]; rfl
    have e2 : (settle (fire s .read)).rVoted = true := by simp only [rVoted_settle, fire]; rfl
    have e3 : (settle (fire s .read)).now = max s.now s.rDl := by simp only [now_settle, fire]; rfl
    have eT : (settle (fire s .read)).T = s.T := by simp only [T_settle, fire]; rfl
    have eh : hDue (settle (fire s .read)) target = hDue s target ∧ (settle (fire s .read)).hDl = s.hDl ∧
        (settle (fire s .read)).hVoted = s.hVoted := by
      simp only [hDue, hBusy_settle, hDl_settle, hVoted_settle, fire]; exact ⟨rfl, rfl, rfl⟩
    have ew : wDue (settle (fire s .read)) target = wDue s target ∧ (settle (fire s .read)).wDl = s.wDl ∧
        (settle (fire s .read)).wVoted = s.wVoted ∧ (settle (fire s .read)).wEnabled = s.wEnabled := by
      simp only [wDue, wEnabled_settle, wDl_settle, wVoted_settle, fire]; exact ⟨rfl, rfl, rfl, rfl⟩
    refine ⟨hinv, hup, by simp [p.hb], by simp [p.rb], by rw [eT]; exact hT, by rw [e3]; omega,
      by rw [eh.2.2, eh.2.1]; exact p.hv, Or.inl e2, by rw [ew.2.2.1, ew.2.2.2, ew.2.1]; exact p.wv, ?_⟩
    have hmh : mH (settle (fire s .read)) now0 target = mH s now0 target := by simp only [mH, eh.1, eh.2.1]
    have hmw : mW (settle (fire s .read)) target = mW s target := by simp only [mW, ew.1]
    have hmr0 : mR s now0 target = (target - max s.rDl now0) / 100 + 1 := by simp only [mR, hd, if_true]
    have hmr : mR (settle (fire s .read)) now0 target + 1 ≤ mR s now0 target := by
      rw [hmr0]
      unfold mR
      split
      · rename_i hd'
        have hdl' : (settle (fire s .read)).rDl ≤ target := by simp [rDue] at hd'; rw [rDl_settle]; exact hd'.2
        rw [e1] at hdl' ⊢
        omega
      · omega
    rw [hmh, hmw]; omega
  | write =>
    have hd := hdue.2.2 rfl
    have hne : ¬ s.wRemotes.isEmpty = true := by
      intro hem
      have : (settle (fire s .write)).stop ≠ none := by
        simp only [fire]
        have hst : (fireWrite s).stop.isSome = true := by unfold fireWrite; rw [if_pos hem]; rfl
        unfold settle; rw [if_pos hst]
        intro hh; rw [hh] at hst; cases hst
      exact this hup
    have efw : fire s .write = { voteAs { s with now := max s.now s.wDl } WRITE with
        wVoted := true, wEnabled := false, wSaw := voteTold { s with now := max s.now s.wDl } WRITE } := by
      simp only [fire]; unfold fireWrite; rw [if_neg hne]
    have e2 : (settle (fire s .write)).wVoted = true := by rw [wVoted_settle, efw]
    have e4 : (settle (fire s .write)).wEnabled = false := by rw [wEnabled_settle, efw]
    have e3 : (settle (fire s .write)).now = max s.now s.wDl := by rw [now_settle, efw]; rfl
    have eT : (settle (fire s .write)).T = s.T := by rw [T_settle, efw]; rfl
    have eh : hDue (settle (fire s .write)) target = hDue s target ∧ (settle (fire s .write)).hDl = s.hDl ∧
        (settle (fire s .write)).hVoted = s.hVoted := by
      simp only [hDue, hBusy_settle, hDl_settle, hVoted_settle]; rw [efw]; exact ⟨rfl, rfl, rfl⟩
    have er : rDue (settle (fire s .write)) target = rDue s target ∧ (settle (fire s .write)).rDl = s.rDl ∧
        (settle (fire s .write)).rVoted = s.rVoted := by
      simp only [rDue, rBusy_settle, rDl_settle, rVoted_settle]; rw [efw]; exact ⟨rfl, rfl, rfl⟩
    refine ⟨hinv, hup, by simp [p.hb], by simp [p.rb], by rw [eT]; exact hT, by rw [e3]; omega,
      by rw [eh.2.2, eh.2.1]; exact p.hv, by rw [er.2.2, er.2.1]; exact p.rv, Or.inl e2, ?_⟩
    have hmh : mH (settle (fire s .write)) now0 target = mH s now0 target := by simp only [mH, eh.1, eh.2.1]
    have hmr : mR (settle (fire s .write)) now0 target = mR s now0 target := by simp only [mR, er.1, er.2.1]
    have hmw0 : mW s target = 1 := by simp only [mW, hd, if_true]
    have hmw : mW (settle (fire s .write)) target = 0 := by unfold mW wDue; rw [e4]; simp
    rw [hmh, hmr, hmw]; omega

theorem prog_advLoop (now0 target : Nat) (fuel : Nat) {s : St} (p : Prog s now0 target fuel) :
    (advLoop fuel target s).stop.isSome = true := by
  induction fuel generalizing s with
  | zero =>
    exfalso
    have hf := p.fuel
    rcases prog_due p with h | h | h
    · simp [mH, h] at hf
    · simp [mR, h] at hf
    · simp [mW, h] at hf
  | succ fuel ih =>
    obtain ⟨t, hp⟩ := pick_some_of_due (prog_due p)
    unfold advLoop
    simp only [p.up, Option.isSome_none, Bool.false_eq_true, if_false, hp]
    cases hst : (settle (fire s t)).stop with
    | some st => rw [advLoop_stopped _ _ _ (by rw [hst]; rfl), hst]; rfl
    | none => exact ih (prog_fire p hp hst)

end live

/-- the timeout is a constant of the run -/
theorem T_run : ∀ (s : St) (ops : List Op), (run s ops).T = s.T := by
  intro s ops
  have hstep : ∀ (s : St) (op : Op), (step s op).1.T = s.T := by
    intro s op
    -- `T` is never written: follow the definitions
    unfold step
    split
    · rfl
    · have hset : ∀ x : St, (settle x).T = x.T := by intro x; unfold settle; split; rfl; split <;> rfl
      rw [hset]
      have hadv : ∀ fuel target (x : St), (advLoop fuel target x).T = x.T := by
        intro fuel target
        induction fuel with
        | zero => intro x; unfold advLoop; split <;> rfl
        | succ fuel ih =>
          intro x; unfold advLoop
          split
          · rfl
          · split
            · rfl
            · rename_i t _
              rw [ih, hset]
              cases t <;> simp only [fire]
              · unfold fireHttp; split <;> rfl
              · rfl
              · unfold fireWrite; split <;> rfl
      have hwa : ∀ x : St, (writeAct x).T = x.T := by
        intro x; unfold writeAct writeRescind; split
        · split <;> rfl
        · rfl
      have hfd : ∀ (rs : List Nat) (x : St), (rs.foldl dropRemote x).T = x.T := by
        intro rs; induction rs with
        | nil => intro x; rfl
        | cons r rs ih => intro x; simp only [List.foldl]; rw [ih]; rfl
      have hlq : ∀ (x : St) l q, (setLq x l q).T = x.T := by intro x l q; unfold setLq; split <;> rfl
      have hrr : ∀ x : St, (readRescind x).1.T = x.T := by
        intro x; unfold readRescind; split
        · split <;> rfl
        · rfl
      have hhr : ∀ x : St, (httpRescind x).1.T = x.T := by
        intro x; unfold httpRescind; split
        · split <;> rfl
        · rfl
      have hfeed : ∀ (x : St) l f, (feed x l f).T = x.T := by
        intro x l f; unfold feed; split
        · show (setLq x l [f]).T = x.T; exact hlq _ _ _
        · show (setLq x l (lq x l ++ [f])).T = x.T; exact hlq _ _ _
      have hdisp : ∀ (x : St) (o : Op), (dispatch x o).T = x.T := by
        intro x o
        cases o <;> simp only [dispatch] <;> (repeat' split) <;>
          first
          | rfl
          | exact hfeed _ _ _
          | (show (writeAct _).T = _; rw [hwa]; rfl)
          | (show (writeAct _).T = _; rw [hwa])
      have henv : ∀ (x : St) r (o : Op), (envelope x r o).1.T = x.T := by
        intro x r o; unfold envelope
        split
        · split
          · exact hrr x
          · show (dispatch _ o).T = x.T; rw [hdisp, hrr]
        · rfl
      cases op with
      | adv k => exact hadv _ _ _
      | link r l => exact henv _ _ _
      | unlink r l => exact henv _ _ _
      | sync r l => exact henv _ _ _
      | cmd r l => exact henv _ _ _
      | ev l => simp only [step0]; rw [hfd, hwa]
      | synced l r =>
        simp only [step0]; split
        · split
          · show (writeAct s).T = s.T; exact hwa s
          · show (writeAct s).T = s.T; exact hwa s
        · exact hwa s
      | take l =>
        simp only [step0]; split
        · rfl
        · split
          · show (setLq s l _).T = s.T; exact hlq _ _ _
          · exact hlq _ _ _
      | http known =>
        simp only [step0]; split
        · rfl
        · split
          · exact hhr s
          · split
            · split
              · show (httpRescind s).1.T = s.T; exact hhr s
              · show (httpRescind s).1.T = s.T; exact hhr s
            · show (httpRescind s).1.T = s.T; exact hhr s
      | _ => simp only [step0] <;> (repeat' split) <;> rfl
  induction ops generalizing s with
  | nil => rfl
  | cons op ops ih => simp only [run, List.foldl] at *; rw [ih, hstep]

end SwimVerif.InactRt
