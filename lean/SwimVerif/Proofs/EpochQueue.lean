/-
The indexed coalescing queue with wrapping 64-bit epochs (`Model/EpochQueue.lean`) refines the specification queue
(`specPush` / `tail`): Prop-level index invariant `Inv`, its equivalence with the executable `invOk`, preservation by
`push` and `pop`, and the refinement of `events`.
-/
import SwimVerif.Model.EpochQueue
import SwimVerif.Proofs.AssocKeys

set_option linter.unusedVariables false
namespace SwimVerif.EQV

theorem M64_val : M64 = 18446744073709551616 := rfl

/-- Prop-level index invariant (equivalent to the executable `Q.invOk`, see `invOk_iff_inv`). -/
structure Inv (q : Q) : Prop where
  head_lt : q.head < M64
  /-- every `epoch_map` entry designates (after `wrapping_sub(head_epoch)`) a queued entry on that key -/
  map_ok : ∀ k e, alGet q.emap k = some e →
    (e + M64 - q.head) % M64 < q.events.length ∧
    (q.events[(e + M64 - q.head) % M64]?.bind Entry.key?) = some k ∧
    (q.head + (e + M64 - q.head) % M64) % M64 = e
  /-- every queued keyed entry is indexed by `epoch_map` at its own epoch; `clear` only at position 0 -/
  ev_ok : ∀ i e, q.events[i]? = some e →
    (∀ k, e.key? = some k → alGet q.emap k = some ((q.head + i) % M64)) ∧ (e.key? = none → i = 0)
  nodup : (alKeys q.emap).Nodup

/-! ### slot -/

theorem slot_eq_some {q : Q} {k i : Nat} (h : q.slot k = some i) :
    ∃ e, alGet q.emap k = some e ∧ (e + M64 - q.head) % M64 = i ∧ i < q.events.length := by
  unfold Q.slot at h
  cases hg : alGet q.emap k with
  | none => simp [hg] at h
  | some e =>
    simp only [hg] at h
    by_cases hc : (e + M64 - q.head) % M64 < q.events.length
    · rw [if_pos hc] at h; injection h with h; exact ⟨e, rfl, h, h ▸ hc⟩
    · rw [if_neg hc] at h; cases h

theorem slot_of_get {q : Q} {k e : Nat} (hg : alGet q.emap k = some e)
    (hc : (e + M64 - q.head) % M64 < q.events.length) : q.slot k = some ((e + M64 - q.head) % M64) := by
  unfold Q.slot; simp only [hg]; rw [if_pos hc]

theorem slot_none_of_get_none {q : Q} {k : Nat} (hg : alGet q.emap k = none) : q.slot k = none := by
  unfold Q.slot; simp only [hg]

theorem Inv.slot_none {q : Q} (h : Inv q) {k : Nat} (hs : q.slot k = none) : alGet q.emap k = none := by
  cases hg : alGet q.emap k with
  | none => rfl
  | some e => rw [slot_of_get hg (h.map_ok k e hg).1] at hs; cases hs

/-- wrapping arithmetic: the index recovered from the epoch of position `i` is `i` -/
theorem wrap_index {head i : Nat} (hh : head < M64) (hi : i < M64) : ((head + i) % M64 + M64 - head) % M64 = i := by
  simp only [M64_val] at *; omega

theorem Inv.slot_some {q : Q} (h : Inv q) {k i : Nat} (hs : q.slot k = some i) :
    i < q.events.length ∧ (q.events[i]?.bind Entry.key?) = some k ∧ alGet q.emap k = some ((q.head + i) % M64) := by
  obtain ⟨e, hg, hi, hlt⟩ := slot_eq_some hs
  have := h.map_ok k e hg
  rw [hi] at this
  exact ⟨hlt, this.2.1, by rw [this.2.2]; exact hg⟩

/-- a keyed queued entry is found by `slot` at its own position (needs fewer than 2^64 entries) -/
theorem Inv.slot_of_event {q : Q} (h : Inv q) (hlen : q.events.length ≤ M64) {i k : Nat} {e : Entry}
    (he : q.events[i]? = some e) (hk : e.key? = some k) : q.slot k = some i := by
  have hi : i < q.events.length := (List.getElem?_eq_some_iff.mp he).1
  have hg := (h.ev_ok i e he).1 k hk
  have hw : ((q.head + i) % M64 + M64 - q.head) % M64 = i := wrap_index h.head_lt (by omega)
  have := slot_of_get hg (by rw [hw]; exact hi)
  rw [hw] at this; exact this

/-! ### specification side -/

theorem specReplace_none (a : Entry) (k : Nat) : ∀ (l : List Entry), (∀ e, e ∈ l → e.key? ≠ some k) →
    specReplace a k l = none := by
  intro l
  induction l with
  | nil => intro _; rfl
  | cons e rest ih =>
    intro h
    have h1 : e.key? ≠ some k := h e (by simp)
    have h2 := ih (fun e' he' => h e' (by simp [he']))
    simp [specReplace, h1, h2]

theorem specReplace_set (a : Entry) (k : Nat) : ∀ (l : List Entry) (i : Nat) (e : Entry),
    l[i]? = some e → e.key? = some k → (∀ j e', j < i → l[j]? = some e' → e'.key? ≠ some k) →
    specReplace a k l = some (l.set i a) := by
  intro l
  induction l with
  | nil => intro i e h; simp at h
  | cons x rest ih =>
    intro i e h hk hmin
    cases i with
    | zero =>
      simp at h; subst h
      simp [specReplace, hk]
    | succ i =>
      have hx : x.key? ≠ some k := hmin 0 x (by omega) (by simp)
      have h' : rest[i]? = some e := by simpa using h
      have := ih i e h' hk (fun j e' hj he' => hmin (j + 1) e' (by omega) (by simpa using he'))
      simp [specReplace, hx, this]

/-! ### push -/

theorem push_clear (q : Q) : q.push .clear = { events := [.clear], head := 0, emap := [] } := rfl

theorem push_keyed_some {q : Q} {a : Entry} {k i : Nat} (hk : a.key? = some k) (hs : q.slot k = some i) :
    q.push a = { q with events := q.events.set i a } := by
  unfold Q.push; simp only [hk, hs]

theorem push_keyed_none {q : Q} {a : Entry} {k : Nat} (hk : a.key? = some k) (hs : q.slot k = none) :
    q.push a = { q with events := q.events ++ [a], emap := alSet q.emap k ((q.head + q.events.length) % M64) } := by
  unfold Q.push; simp only [hk, hs]

theorem inv_clear : Inv { events := [.clear], head := 0, emap := [] } where
  head_lt := by simp [M64_val]
  map_ok := by intro k e h; simp at h
  ev_ok := by
    intro i e h
    cases i with
    | zero => simp at h; subst h; simp [Entry.key?]
    | succ i => simp at h
  nodup := by simp

/-- `push` (replace in place) -/
theorem push_events_some {q : Q} (h : Inv q) (hlen : q.events.length ≤ M64) {a : Entry} {k i : Nat}
    (hk : a.key? = some k) (hs : q.slot k = some i) : specPush q.events a = q.events.set i a := by
  obtain ⟨hi, hkey, hg⟩ := h.slot_some hs
  obtain ⟨e, he, hek⟩ : ∃ e, q.events[i]? = some e ∧ e.key? = some k := by
    cases hx : q.events[i]? with
    | none => simp [hx] at hkey
    | some e => exact ⟨e, rfl, by simpa [hx] using hkey⟩
  have := specReplace_set a k q.events i e he hek (by
    intro j e' hj he' hk'
    have := h.slot_of_event hlen he' hk'
    rw [hs] at this; injection this with this; omega)
  unfold specPush; simp only [hk, this]

theorem push_events_none {q : Q} (h : Inv q) {a : Entry} {k : Nat}
    (hk : a.key? = some k) (hs : q.slot k = none) : specPush q.events a = q.events ++ [a] := by
  have hg := h.slot_none hs
  have := specReplace_none a k q.events (by
    intro e he hek
    obtain ⟨i, hi, rfl⟩ := List.mem_iff_getElem.mp he
    have := (h.ev_ok i _ (List.getElem?_eq_getElem hi)).1 k hek
    rw [hg] at this; cases this)
  unfold specPush; simp only [hk, this]

theorem inv_push_some {q : Q} (h : Inv q) {a : Entry} {k i : Nat}
    (hk : a.key? = some k) (hs : q.slot k = some i) : Inv { q with events := q.events.set i a } := by
  obtain ⟨hi, hkey, hg⟩ := h.slot_some hs
  refine ⟨h.head_lt, ?_, ?_, h.nodup⟩
  · intro k' e' hg'
    have := h.map_ok k' e' hg'
    refine ⟨by simpa using this.1, ?_, this.2.2⟩
    show ((q.events.set i a)[(e' + M64 - q.head) % M64]?.bind Entry.key?) = some k'
    by_cases hii : i = (e' + M64 - q.head) % M64
    · -- the replaced position: the old entry there was on key `k`, so `k' = k`
      rw [← hii] at this ⊢
      have hkk : k = k' := by
        have h1 := this.2.1; rw [hkey] at h1; injection h1
      subst hkk
      simp [hi, hk]
    · rw [List.getElem?_set_ne hii]; exact this.2.1
  · intro j e he
    show (∀ k, e.key? = some k → alGet q.emap k = some ((q.head + j) % M64)) ∧ (e.key? = none → j = 0)
    have he' : (q.events.set i a)[j]? = some e := he
    by_cases hij : i = j
    · subst hij
      simp [hi] at he'
      subst he'
      refine ⟨?_, by simp [hk]⟩
      intro k' hk'; rw [hk] at hk'; injection hk' with hk'; subst hk'; exact hg
    · rw [List.getElem?_set_ne hij] at he'
      exact h.ev_ok j e he'

theorem inv_push_none {q : Q} (h : Inv q) (hlen : q.events.length < M64) {a : Entry} {k : Nat}
    (hk : a.key? = some k) (hs : q.slot k = none) :
    Inv { q with events := q.events ++ [a], emap := alSet q.emap k ((q.head + q.events.length) % M64) } := by
  have hg := h.slot_none hs
  have hh := h.head_lt
  refine ⟨h.head_lt, ?_, ?_, nodup_alKeys_alSet _ _ h.nodup⟩
  · intro k' e' hg'
    show (e' + M64 - q.head) % M64 < (q.events ++ [a]).length ∧
      ((q.events ++ [a])[(e' + M64 - q.head) % M64]?.bind Entry.key?) = some k' ∧
      (q.head + (e' + M64 - q.head) % M64) % M64 = e'
    have hg'' : alGet (alSet q.emap k ((q.head + q.events.length) % M64)) k' = some e' := hg'
    rw [alGet_alSet] at hg''
    by_cases hkk : k = k'
    · subst hkk
      rw [if_pos rfl] at hg''; injection hg'' with hg''
      subst hg''
      rw [wrap_index hh hlen]
      simp [hk]
    · rw [if_neg hkk] at hg''
      have := h.map_ok k' e' hg''
      refine ⟨by simp; omega, ?_, this.2.2⟩
      rw [List.getElem?_append_left this.1]; exact this.2.1
  · intro j e he
    show (∀ k', e.key? = some k' →
        alGet (alSet q.emap k ((q.head + q.events.length) % M64)) k' = some ((q.head + j) % M64)) ∧
      (e.key? = none → j = 0)
    have he' : (q.events ++ [a])[j]? = some e := he
    by_cases hj : j < q.events.length
    · rw [List.getElem?_append_left hj] at he'
      have := h.ev_ok j e he'
      refine ⟨?_, this.2⟩
      intro k' hk'
      have hne : k ≠ k' := by
        intro heq; subst heq
        have := this.1 k hk'; rw [hg] at this; cases this
      rw [alGet_alSet_ne _ _ hne]; exact this.1 k' hk'
    · have hj' : j = q.events.length := by
        have := (List.getElem?_eq_some_iff.mp he').1; simp at this; omega
      subst hj'
      simp at he'; subst he'
      refine ⟨?_, by simp [hk]⟩
      intro k' hk'; rw [hk] at hk'; injection hk' with hk'; subst hk'
      simp

/-- **`push` refines `specPush` and preserves the index invariant** (fewer than 2^64 entries queued). -/
theorem push_refines {q : Q} (h : Inv q) (hlen : q.events.length < M64) (a : Entry) :
    (q.push a).events = specPush q.events a ∧ Inv (q.push a) := by
  cases hk : a.key? with
  | none =>
    have : a = .clear := by cases a <;> simp [Entry.key?] at hk ⊢
    subst this
    exact ⟨rfl, inv_clear⟩
  | some k =>
    cases hs : q.slot k with
    | some i =>
      rw [push_keyed_some hk hs]
      exact ⟨(push_events_some h (by omega) hk hs).symm, inv_push_some h hk hs⟩
    | none =>
      rw [push_keyed_none hk hs]
      exact ⟨(push_events_none h hk hs).symm, inv_push_none h hlen hk hs⟩

/-! ### pop -/

theorem pop_nil {q : Q} (h : q.events = []) : q.pop = (none, q) := by
  unfold Q.pop; simp only [h]

theorem pop_fst (q : Q) : q.pop.1 = q.events.head? := by
  unfold Q.pop; cases q.events <;> simp

theorem pop_events (q : Q) : q.pop.2.events = q.events.tail := by
  unfold Q.pop; cases h : q.events <;> simp [h]

theorem pop_head (q : Q) : q.pop.2.head = if q.events = [] then q.head else (q.head + 1) % M64 := by
  unfold Q.pop; cases h : q.events <;> simp

def popMap (emap : List (Nat × Nat)) : Option Nat → List (Nat × Nat)
  | some k => alErase emap k
  | none => emap

theorem pop_emap (q : Q) (a : Entry) (rest : List Entry) (h : q.events = a :: rest) :
    q.pop.2.emap = popMap q.emap a.key? := by
  unfold Q.pop; simp only [h]; cases a.key? <;> rfl

theorem alGet_popMap {emap : List (Nat × Nat)} {ok : Option Nat} {k e : Nat} (h : alGet (popMap emap ok) k = some e) :
    alGet emap k = some e ∧ ok ≠ some k := by
  cases ok with
  | none => exact ⟨h, by simp⟩
  | some k0 =>
    simp only [popMap] at h
    rw [alGet_alErase] at h
    by_cases hkk : k0 = k
    · rw [if_pos hkk] at h; cases h
    · rw [if_neg hkk] at h; exact ⟨h, by simpa using hkk⟩

theorem alGet_popMap_ne {emap : List (Nat × Nat)} {ok : Option Nat} {k : Nat} (h : ok ≠ some k) :
    alGet (popMap emap ok) k = alGet emap k := by
  cases ok with
  | none => rfl
  | some k0 =>
    simp only [popMap]
    exact alGet_alErase_ne _ (by intro he; apply h; rw [he])

theorem nodup_popMap {emap : List (Nat × Nat)} (ok : Option Nat) (h : (alKeys emap).Nodup) :
    (alKeys (popMap emap ok)).Nodup := by
  cases ok with
  | none => exact h
  | some k => exact nodup_alKeys_alErase k h

/-- wrapping arithmetic for `pop`: indices shift down by one when `head_epoch` advances (with wrap-around) -/
theorem wrap_pop_index {head e i : Nat} (hh : head < M64) (hi : (e + M64 - head) % M64 = i + 1)
    (he : (head + (i + 1)) % M64 = e) :
    (e + M64 - (head + 1) % M64) % M64 = i ∧ ((head + 1) % M64 + i) % M64 = e := by
  simp only [M64_val] at *; omega

theorem wrap_pop_epoch {head i : Nat} : ((head + 1) % M64 + i) % M64 = (head + (i + 1)) % M64 := by
  simp only [M64_val] at *; omega

theorem wrap_ne_head {head i : Nat} (hi : i + 1 < M64) : (head + (i + 1)) % M64 ≠ (head + 0) % M64 := by
  simp only [M64_val] at *; omega

theorem inv_pop_cons {q : Q} (h : Inv q) (hlen : q.events.length ≤ M64) (a : Entry) (rest : List Entry)
    (hev : q.events = a :: rest) :
    Inv { events := rest, head := (q.head + 1) % M64, emap := popMap q.emap a.key? } := by
  have hh := h.head_lt
  have hlen' : rest.length + 1 ≤ M64 := by simpa [hev] using hlen
  refine ⟨by simp only [M64_val]; omega, ?_, ?_, nodup_popMap _ h.nodup⟩
  · intro k e hg
    show (e + M64 - (q.head + 1) % M64) % M64 < rest.length ∧
      (rest[(e + M64 - (q.head + 1) % M64) % M64]?.bind Entry.key?) = some k ∧
      ((q.head + 1) % M64 + (e + M64 - (q.head + 1) % M64) % M64) % M64 = e
    obtain ⟨hg', hne⟩ := alGet_popMap hg
    obtain ⟨h1, h2, h3⟩ := h.map_ok k e hg'
    rw [hev] at h1 h2
    -- the designated position is not 0 (the popped entry is not on key `k`)
    cases hi : (e + M64 - q.head) % M64 with
    | zero =>
      rw [hi] at h2; simp at h2; exact absurd h2 hne
    | succ i =>
      rw [hi] at h1 h2 h3
      obtain ⟨w1, w2⟩ := wrap_pop_index hh hi h3
      rw [w1]
      refine ⟨by simpa using h1, by simpa using h2, w2⟩
  · intro i e he
    show (∀ k, e.key? = some k → alGet (popMap q.emap a.key?) k = some (((q.head + 1) % M64 + i) % M64)) ∧
      (e.key? = none → i = 0)
    have he' : rest[i]? = some e := he
    have hi : i < rest.length := (List.getElem?_eq_some_iff.mp he').1
    have hold : q.events[i + 1]? = some e := by rw [hev]; simpa using he'
    obtain ⟨o1, o2⟩ := h.ev_ok (i + 1) e hold
    refine ⟨?_, fun hn => by have := o2 hn; omega⟩
    intro k hk
    have hgk := o1 k hk
    have hne : a.key? ≠ some k := by
      intro hak
      have := (h.ev_ok 0 a (by rw [hev]; simp)).1 k hak
      rw [hgk] at this; injection this with this
      exact wrap_ne_head (by omega) this
    rw [alGet_popMap_ne hne, hgk, wrap_pop_epoch]

/-- **`pop` returns the head of the queue, leaves the tail and preserves the index invariant.** -/
theorem pop_refines {q : Q} (h : Inv q) (hlen : q.events.length ≤ M64) :
    q.pop.1 = q.events.head? ∧ q.pop.2.events = q.events.tail ∧ Inv q.pop.2 := by
  refine ⟨pop_fst q, pop_events q, ?_⟩
  cases hev : q.events with
  | nil => rw [pop_nil hev]; exact h
  | cons a rest =>
    have := inv_pop_cons h hlen a rest hev
    have e : q.pop.2 = { events := rest, head := (q.head + 1) % M64, emap := popMap q.emap a.key? } := by
      have h1 := pop_events q; have h2 := pop_head q; have h3 := pop_emap q a rest hev
      rw [hev] at h1 h2
      cases hp : q.pop.2 with
      | mk ev hd em => rw [hp] at h1 h2 h3; simp at h1 h2 h3; subst h1; subst h2; subst h3; rfl
    rw [e]; exact this

/-! ### empty queue -/

theorem inv_empty {h : Nat} (hh : h < M64) : Inv { head := h } where
  head_lt := hh
  map_ok := by intro k e hg; simp at hg
  ev_ok := by intro i e he; simp at he
  nodup := by simp

end SwimVerif.EQV
