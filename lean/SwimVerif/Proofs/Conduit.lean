import SwimVerif.Model.Conduit

set_option linter.unusedSimpArgs false
namespace SwimVerif.Conduit

/-- The invariant carrying C12: FIFO prefix, bound, and the single-waker-slot discipline. -/
structure Inv (s : St) : Prop where
  fifo : s.readout ++ s.data = s.written
  bounded : s.data.length ≤ s.cap
  capPos : 1 ≤ s.cap
  waitR : s.waitR = true → s.waker = some .R ∧ s.data = [] ∧ s.closed = false
  waitW : s.waitW = true → s.waker = some .W ∧ s.data.length = s.cap ∧ s.closed = false

theorem inv_init (cap : Nat) (h : 1 ≤ cap) : Inv (init cap) := by
  constructor <;> simp [init, h]

/-- What is needed of a state on which `wake` is about to be called. -/
structure PreInv (s : St) : Prop where
  fifo : s.readout ++ s.data = s.written
  bounded : s.data.length ≤ s.cap
  capPos : 1 ≤ s.cap
  waitR : s.waitR = true → s.waker = some .R
  waitW : s.waitW = true → s.waker = some .W

theorem inv_wake {s : St} (h : PreInv s) : Inv (wake s).1 := by
  obtain ⟨h1, h2, h3, h4, h5⟩ := h
  unfold wake
  split <;> constructor <;> simp_all

theorem inv_budget {s : St} (h : Inv s) (b : Option Nat) : Inv { s with budget := b } := by
  obtain ⟨h1, h2, h3, h4, h5⟩ := h
  constructor <;> simp_all

theorem inv_pollRead {s : St} (h : Inv s) (k : Nat) : Inv (pollRead s k).1 := by
  obtain ⟨h1, h2, h3, h4, h5⟩ := h
  unfold pollRead
  simp only [consumeBudget, trackPending, wakeOut]
  by_cases hb : (budgetStep s.budget).snd = false
  · simp only [hb, ↓reduceIte]; constructor <;> simp_all
  · simp only [hb, ↓reduceIte]
    by_cases hd : s.data = []
    · simp only [hd, ↓reduceIte]
      by_cases hc : s.closed = true
      · simp only [hc, ↓reduceIte]; constructor <;> simp_all
      · simp only [hc, ↓reduceIte]; constructor <;> simp_all <;> grind
    · simp only [hd, ↓reduceIte]
      by_cases hk : 0 < min s.data.length k
      · simp only [hk, ↓reduceIte]
        apply inv_wake
        constructor <;> simp_all <;> grind
      · simp only [hk, ↓reduceIte]; constructor <;> simp_all

theorem inv_pollWrite {s : St} (h : Inv s) (bs : List Nat) : Inv (pollWrite s bs).1 := by
  obtain ⟨h1, h2, h3, h4, h5⟩ := h
  unfold pollWrite
  simp only [consumeBudget, trackPending, wakeOut]
  by_cases hb : (budgetStep s.budget).snd = false
  · simp only [hb, ↓reduceIte]; constructor <;> simp_all
  · simp only [hb, ↓reduceIte]
    by_cases hc : s.closed = true
    · simp only [hc, ↓reduceIte]; constructor <;> simp_all
    · simp only [hc, ↓reduceIte]
      by_cases he : bs = []
      · simp only [he, ↓reduceIte]; constructor <;> simp_all
      · simp only [he, ↓reduceIte]
        by_cases hf : s.cap - s.data.length = 0
        · simp only [hf, ↓reduceIte]; constructor <;> simp_all <;> grind
        · simp only [hf, ↓reduceIte]
          apply inv_wake
          constructor <;> simp_all <;> grind

theorem inv_pollFlush {s : St} (h : Inv s) : Inv (pollFlush s).1 := by
  obtain ⟨h1, h2, h3, h4, h5⟩ := h
  unfold pollFlush
  simp only [consumeBudget]
  split <;> constructor <;> simp_all

theorem inv_closeOut {s : St} (h : Inv s) (r : Res) : Inv (closeOut s r).1 := by
  obtain ⟨h1, h2, h3, h4, h5⟩ := h
  unfold closeOut wakeOut
  apply inv_wake
  constructor <;> simp_all

theorem inv_pollShutdown {s : St} (h : Inv s) : Inv (pollShutdown s).1 := by
  unfold pollShutdown
  simp only [consumeBudget]
  split
  · obtain ⟨h1, h2, h3, h4, h5⟩ := h; constructor <;> simp_all
  · apply inv_closeOut
    obtain ⟨h1, h2, h3, h4, h5⟩ := h; constructor <;> simp_all

theorem inv_step {s : St} (h : Inv s) (op : Op) : Inv (step s op).1 := by
  cases op with
  | read k => simp only [step]; split; exact inv_pollRead h k; exact h
  | write bs => simp only [step]; split; exact inv_pollWrite h bs; exact h
  | flush => simp only [step]; split; exact inv_pollFlush h; exact h
  | shutdown => simp only [step]; split; exact inv_pollShutdown h; exact h
  | dropR =>
    simp only [step]; split
    · apply inv_closeOut; obtain ⟨h1, h2, h3, h4, h5⟩ := h; constructor <;> simp_all
    · exact h
  | dropW =>
    simp only [step]; split
    · apply inv_closeOut; obtain ⟨h1, h2, h3, h4, h5⟩ := h; constructor <;> simp_all
    · exact h
  | setBudget n => exact inv_budget h _

theorem inv_run {s : St} (h : Inv s) (ops : List Op) : Inv (run s ops) := by
  induction ops generalizing s with
  | nil => exact h
  | cons op ops ih => exact ih (inv_step h op)

/-! ### Field lemmas -/

@[simp] theorem wake_cap (s : St) : (wake s).1.cap = s.cap := by unfold wake; split <;> rfl
@[simp] theorem wake_data (s : St) : (wake s).1.data = s.data := by unfold wake; split <;> rfl
@[simp] theorem wake_closed (s : St) : (wake s).1.closed = s.closed := by unfold wake; split <;> rfl
@[simp] theorem wake_written (s : St) : (wake s).1.written = s.written := by unfold wake; split <;> rfl
@[simp] theorem wake_readout (s : St) : (wake s).1.readout = s.readout := by unfold wake; split <;> rfl
theorem wake_wokeR (s : St) : (wake s).2.1 = decide (s.waker = some .R) := by
  unfold wake; split <;> simp_all
theorem wake_wokeW (s : St) : (wake s).2.2 = decide (s.waker = some .W) := by
  unfold wake; split <;> simp_all

/-- Facts preserved by every step: capacity constant; once closed, stays closed and accepts nothing. -/
def Stable (s t : St) : Prop := t.cap = s.cap ∧ (s.closed = true → t.closed = true ∧ t.written = s.written)

theorem stable_pollRead (s : St) (k : Nat) : Stable s (pollRead s k).1 := by
  fun_cases pollRead s k <;> simp_all +zetaDelta [Stable, wakeOut, consumeBudget, trackPending]
theorem stable_pollWrite (s : St) (bs : List Nat) : Stable s (pollWrite s bs).1 := by
  fun_cases pollWrite s bs <;> simp_all +zetaDelta [Stable, wakeOut, consumeBudget, trackPending]
theorem stable_pollFlush (s : St) : Stable s (pollFlush s).1 := by
  fun_cases pollFlush s <;> simp_all +zetaDelta [Stable, wakeOut, consumeBudget, trackPending]
theorem stable_pollShutdown (s : St) : Stable s (pollShutdown s).1 := by
  fun_cases pollShutdown s <;> simp_all +zetaDelta [Stable, closeOut, wakeOut, consumeBudget, trackPending]

theorem stable_step (s : St) (op : Op) : Stable s (step s op).1 := by
  cases op <;> simp only [step] <;> (try split) <;>
    first
    | exact stable_pollRead _ _ | exact stable_pollWrite _ _ | exact stable_pollFlush _
    | exact stable_pollShutdown _ | simp [Stable, closeOut, wakeOut]

theorem progress_reader_step {s : St} (hi : Inv s) (op : Op) (hw : s.waitR = true)
    (hp : (step s op).1.data ≠ [] ∨ (step s op).1.closed = true) : (step s op).2.wokeR = true := by
  obtain ⟨h1, h2, h3, h4, h5⟩ := hi
  obtain ⟨w1, w2, w3⟩ := h4 hw
  cases op with
  | read k =>
    simp only [step] at hp ⊢; split at hp <;> (try split) <;> revert hp
    all_goals first
      | (fun_cases pollRead s k <;>
          simp_all +zetaDelta [wakeOut, consumeBudget, trackPending, selfWake, wake_wokeR])
      | (simp_all [naOut])
  | write bs =>
    simp only [step] at hp ⊢; split at hp <;> (try split) <;> revert hp
    all_goals first
      | (fun_cases pollWrite s bs <;>
          simp_all +zetaDelta [wakeOut, consumeBudget, trackPending, selfWake, wake_wokeR])
      | (simp_all [naOut])
  | flush =>
    simp only [step] at hp ⊢; split at hp <;> (try split) <;> revert hp
    all_goals first
      | (fun_cases pollFlush s <;>
          simp_all +zetaDelta [wakeOut, consumeBudget, trackPending, selfWake, wake_wokeR])
      | (simp_all [naOut])
  | shutdown =>
    simp only [step] at hp ⊢; split at hp <;> (try split) <;> revert hp
    all_goals first
      | (fun_cases pollShutdown s <;>
          simp_all +zetaDelta [closeOut, wakeOut, consumeBudget, trackPending, selfWake, wake_wokeR])
      | (simp_all [naOut])
  | dropR => simp only [step] at hp ⊢; split at hp <;> (try split) <;> simp_all [closeOut, wakeOut, naOut, wake_wokeR]
  | dropW => simp only [step] at hp ⊢; split at hp <;> (try split) <;> simp_all [closeOut, wakeOut, naOut, wake_wokeR]
  | setBudget n => simp_all [step]

theorem progress_writer_step {s : St} (hi : Inv s) (op : Op) (hw : s.waitW = true)
    (hp : (step s op).1.data.length < s.cap ∨ (step s op).1.closed = true) : (step s op).2.wokeW = true := by
  obtain ⟨h1, h2, h3, h4, h5⟩ := hi
  obtain ⟨w1, w2, w3⟩ := h5 hw
  cases op with
  | read k =>
    simp only [step] at hp ⊢; split at hp <;> (try split) <;> revert hp
    all_goals first
      | (fun_cases pollRead s k <;>
          simp_all +zetaDelta [wakeOut, consumeBudget, trackPending, selfWake, wake_wokeW] <;> grind)
      | (simp_all [naOut] <;> grind)
  | write bs =>
    simp only [step] at hp ⊢; split at hp <;> (try split) <;> revert hp
    all_goals first
      | (fun_cases pollWrite s bs <;>
          simp_all +zetaDelta [wakeOut, consumeBudget, trackPending, selfWake, wake_wokeW] <;> grind)
      | (simp_all [naOut] <;> grind)
  | flush =>
    simp only [step] at hp ⊢; split at hp <;> (try split) <;> revert hp
    all_goals first
      | (fun_cases pollFlush s <;>
          simp_all +zetaDelta [wakeOut, consumeBudget, trackPending, selfWake, wake_wokeW] <;> grind)
      | (simp_all [naOut] <;> grind)
  | shutdown =>
    simp only [step] at hp ⊢; split at hp <;> (try split) <;> revert hp
    all_goals first
      | (fun_cases pollShutdown s <;>
          simp_all +zetaDelta [closeOut, wakeOut, consumeBudget, trackPending, selfWake, wake_wokeW] <;> grind)
      | (simp_all [naOut] <;> grind)
  | dropR => simp only [step] at hp ⊢; split at hp <;> (try split) <;> simp_all [closeOut, wakeOut, naOut, wake_wokeW] <;> grind
  | dropW => simp only [step] at hp ⊢; split at hp <;> (try split) <;> simp_all [closeOut, wakeOut, naOut, wake_wokeW] <;> grind
  | setBudget n => simp_all [step] <;> grind

end SwimVerif.Conduit
