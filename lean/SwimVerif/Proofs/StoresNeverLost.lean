/-
C13: with the FC13a fix the in-memory store never loses a node state — an entry marked `InUse` always has a holder
(a running instance, or a pending open whose channel already carries the handed-over state), for every op sequence.

Invariant `LInv` = the hand-over invariant `HInv` plus
* `k`: every live oneshot channel (receiver alive) is owned by exactly the pending open that waits on it;
* `l`: every `InUse` entry has a holder.
-/
import SwimVerif.Proofs.StoresHandover

set_option linter.unusedVariables false
set_option linter.unusedSimpArgs false
namespace SwimVerif.Store.InMem

/-- `(p, u)` has a holder in `s`. -/
def Held (s : St) (p : Nat) (u : Bytes) : Prop :=
  (∃ a st, aget s.slots a = some (.live p u st)) ∨
  (∃ a c st, aget s.slots a = some (.waiting p u c) ∧ aget s.chans c = some (.full st))

structure LInv (s : St) : Prop where
  h : HInv s
  k : ∀ c x, aget s.chans c = some x → ∃ a p u, aget s.slots a = some (.waiting p u c)
  l : ∀ p u, isInUse (aget s.nodes (p, u)) = true → Held s p u

theorem linv_init : LInv init :=
  ⟨hinv_init, by intro c x h; simp [init, aget] at h, by intro p u h; simp [init, aget] at h⟩

theorem held_live {s : St} {a p : Nat} {u : Bytes} {st : NodeState} (h : aget s.slots a = some (.live p u st)) :
    Held s p u := Or.inl ⟨a, st, h⟩

theorem held_wait {s : St} {a p c : Nat} {u : Bytes} {st : NodeState} (h : aget s.slots a = some (.waiting p u c))
    (hc : aget s.chans c = some (.full st)) : Held s p u := Or.inr ⟨a, c, st, h, hc⟩

/-! ### data ops -/

theorem linv_data (s : St) (h : LInv s) (slot : Nat) (d : DOp) : LInv (step s (.data slot d)).1 := by
  have hh := hinv_step s h.h (.data slot d)
  rcases hs : aget s.slots slot with _ | ⟨p0, uri, st⟩ | ⟨p0, uri, c0⟩
  · have e : (step s (.data slot d)).1 = s := by simp [step, hs]
    rw [e]; exact h
  · have e : (step s (.data slot d)).1 = { s with slots := aset s.slots slot (.live p0 uri (nodeStep st d).1) } := by
      simp [step, hs]
    rw [e] at hh ⊢
    refine ⟨hh, ?_, ?_⟩
    · intro c x hc
      obtain ⟨a, p', u', ha⟩ := h.k c x hc
      refine ⟨a, p', u', ?_⟩
      have : a ≠ slot := by intro e; rw [e, hs] at ha; cases ha
      simp [aget_aset, this, ha]
    · intro p u hu
      rcases h.l p u hu with ⟨a, st', ha⟩ | ⟨a, c, st', ha, hc⟩
      · by_cases e : a = slot
        · subst e
          rw [hs] at ha
          cases ha
          exact held_live (a := a) (st := (nodeStep st d).1) (by simp [aget_aset])
        · exact held_live (a := a) (st := st') (by simp [aget_aset, e, ha])
      · have e : a ≠ slot := by intro e; rw [e, hs] at ha; cases ha
        exact held_wait (a := a) (c := c) (st := st') (by simp [aget_aset, e, ha]) hc
  · have e : (step s (.data slot d)).1 = s := by simp [step, hs]
    rw [e]; exact h

/-! ### open -/

theorem dropSender_full (chans : List (Nat × Chan)) (w : Option Nat) (c : Nat) (st : NodeState)
    (hc : aget chans c = some (.full st)) : aget (dropSender chans w) c = some (.full st) := by
  cases w with
  | none => exact hc
  | some c0 =>
    simp only [dropSender]
    split
    · rename_i he
      simp only [aget_aset]
      by_cases e : c = c0
      · subst e; rw [hc] at he; cases he
      · simp [e, hc]
    · exact hc

theorem dropSender_some (chans : List (Nat × Chan)) (w : Option Nat) (c : Nat) (x : Chan)
    (hc : aget (dropSender chans w) c = some x) : ∃ y, aget chans c = some y := by
  cases w with
  | none => exact ⟨x, hc⟩
  | some c0 =>
    simp only [dropSender] at hc
    split at hc
    · rename_i he
      simp only [aget_aset] at hc
      by_cases e : c = c0
      · subst e; exact ⟨_, he⟩
      · simp [e] at hc; exact ⟨x, hc⟩
    · exact ⟨x, hc⟩

theorem linv_open (s : St) (h : LInv s) (slot p : Nat) (uri : Bytes) : LInv (step s (.opn slot p uri)).1 := by
  have hh := hinv_step s h.h (.opn slot p uri)
  refine ⟨hh, ?_, ?_⟩
  all_goals
    simp only [step]
    split
    · first | exact h.k | exact h.l
    rename_i hfree
    have hfree' : aget s.slots slot = none := by
      cases hx : aget s.slots slot with
      | none => rfl
      | some x => simp [hx] at hfree
    have hne : ∀ a sl, aget s.slots a = some sl → a ≠ slot := by
      intro a sl ha e; rw [e, hfree'] at ha; cases ha
    simp only [openNode]
  · -- k
    split
    · intro c x hc
      obtain ⟨a, p', u', ha⟩ := h.k c x hc
      exact ⟨a, p', u', by simp [aget_aset, hne a _ ha, ha]⟩
    · rename_i w hw
      intro c x hc
      simp only [aget_aset] at hc
      by_cases e : c = s.nextChan
      · exact ⟨slot, p, uri, by simp [aget_aset, e]⟩
      · simp only [e, ↓reduceIte] at hc
        obtain ⟨y, hy⟩ := dropSender_some _ _ _ _ hc
        obtain ⟨a, p', u', ha⟩ := h.k c y hy
        exact ⟨a, p', u', by simp [aget_aset, hne a _ ha, ha]⟩
    · intro c x hc
      obtain ⟨a, p', u', ha⟩ := h.k c x hc
      exact ⟨a, p', u', by simp [aget_aset, hne a _ ha, ha]⟩
  · -- l
    have keep : ∀ (s' : St) (p' : Nat) (u' : Bytes), Held s p' u' →
        (∀ a sl, aget s.slots a = some sl → aget s'.slots a = some sl) →
        (∀ c st, aget s.chans c = some (.full st) → c < s.nextChan → aget s'.chans c = some (.full st)) →
        Held s' p' u' := by
      intro s' p' u' hd hsl hch
      rcases hd with ⟨a, st', ha⟩ | ⟨a, c, st', ha, hc⟩
      · exact held_live (hsl a _ ha)
      · exact held_wait (hsl a _ ha) (hch c st' hc (h.h.i8 a p' u' c ha))
    split
    · rename_i st hn
      intro p' u' hu
      simp only [aget_aset] at hu
      by_cases e : (p', u') = (p, uri)
      · cases e
        exact held_live (a := slot) (st := st) (by simp [aget_aset])
      · simp only [e, ↓reduceIte] at hu
        exact keep _ p' u' (h.l p' u' hu) (fun a sl ha => by simp [aget_aset, hne a sl ha, ha]) (fun c st hc _ => hc)
    · rename_i w hn
      intro p' u' hu
      have hu' : isInUse (aget s.nodes (p', u')) = true := by
        simp only [aget_aset] at hu
        by_cases e : (p', u') = (p, uri)
        · cases e; rw [hn]; rfl
        · simpa [e] using hu
      refine keep _ p' u' (h.l p' u' hu') (fun a sl ha => by simp [aget_aset, hne a sl ha, ha]) ?_
      intro c st hc hlt
      have : c ≠ s.nextChan := Nat.ne_of_lt hlt
      simp only [aget_aset, this, ↓reduceIte]
      exact dropSender_full _ _ _ _ hc
    · rename_i hn
      intro p' u' hu
      simp only [aget_aset] at hu
      by_cases e : (p', u') = (p, uri)
      · cases e
        exact held_live (a := slot) (st := {}) (by simp [aget_aset])
      · simp only [e, ↓reduceIte] at hu
        exact keep _ p' u' (h.l p' u' hu) (fun a sl ha => by simp [aget_aset, hne a sl ha, ha]) (fun c st hc _ => hc)

/-! ### poll -/

theorem linv_poll (s : St) (h : LInv s) (slot : Nat) : LInv (step s (.poll slot)).1 := by
  have hh := hinv_step s h.h (.poll slot)
  rcases hs : aget s.slots slot with _ | ⟨p0, uri, st⟩ | ⟨p, uri, c⟩
  · have e : (step s (.poll slot)).1 = s := by simp [step, hs]
    rw [e]; exact h
  · have e : (step s (.poll slot)).1 = s := by simp [step, hs]
    rw [e]; exact h
  · have hne : ∀ a p' u' c', aget s.slots a = some (.waiting p' u' c') → c' ≠ c → a ≠ slot := by
      intro a p' u' c' ha hc e; rw [e, hs] at ha; cases ha; exact hc rfl
    have huniq : ∀ a p' u', aget s.slots a = some (.waiting p' u' c) → a = slot :=
      fun a p' u' ha => h.h.i5 a slot p' u' p uri c ha hs
    rcases hc : aget s.chans c with _ | _ | st | _
    · have e : (step s (.poll slot)).1 = s := by simp [step, hs, pollSlot, hc]
      rw [e]; exact h
    · have e : (step s (.poll slot)).1 = s := by simp [step, hs, pollSlot, hc]
      rw [e]; exact h
    · have e : (step s (.poll slot)).1 =
          { s with chans := adel s.chans c, slots := aset s.slots slot (.live p uri st) } := by
        simp [step, hs, pollSlot, hc]
      rw [e] at hh ⊢
      refine ⟨hh, ?_, ?_⟩
      · intro c' x hx
        simp only [aget_adel] at hx
        by_cases ec : c' = c
        · simp [ec] at hx
        · simp only [ec, ↓reduceIte] at hx
          obtain ⟨a, p', u', ha⟩ := h.k c' x hx
          exact ⟨a, p', u', by simp [aget_aset, hne a p' u' c' ha ec, ha]⟩
      · intro p' u' hu
        rcases h.l p' u' hu with ⟨a, st', ha⟩ | ⟨a, c', st', ha, hc'⟩
        · have : a ≠ slot := by intro e; rw [e, hs] at ha; cases ha
          exact held_live (a := a) (st := st') (by simp [aget_aset, this, ha])
        · by_cases ea : a = slot
          · subst ea
            rw [hs] at ha
            cases ha
            exact held_live (a := a) (st := st) (by simp [aget_aset])
          · have ec : c' ≠ c := by intro e; subst e; exact ea (huniq a p' u' ha)
            exact held_wait (a := a) (c := c') (st := st') (by simp [aget_aset, ea, ha]) (by simp [aget_adel, ec, hc'])
    · have e : (step s (.poll slot)).1 = { s with chans := adel s.chans c, slots := adel s.slots slot } := by
        simp [step, hs, pollSlot, hc]
      rw [e] at hh ⊢
      refine ⟨hh, ?_, ?_⟩
      · intro c' x hx
        simp only [aget_adel] at hx
        by_cases ec : c' = c
        · simp [ec] at hx
        · simp only [ec, ↓reduceIte] at hx
          obtain ⟨a, p', u', ha⟩ := h.k c' x hx
          exact ⟨a, p', u', by simp [aget_adel, hne a p' u' c' ha ec, ha]⟩
      · intro p' u' hu
        rcases h.l p' u' hu with ⟨a, st', ha⟩ | ⟨a, c', st', ha, hc'⟩
        · have : a ≠ slot := by intro e; rw [e, hs] at ha; cases ha
          exact held_live (a := a) (st := st') (by simp [aget_adel, this, ha])
        · have ec : c' ≠ c := by intro e; subst e; rw [hc] at hc'; cases hc'
          have ea := hne a p' u' c' ha ec
          exact held_wait (a := a) (c := c') (st := st') (by simp [aget_adel, ea, ha]) (by simp [aget_adel, ec, hc'])

/-! ### drop -/

theorem dropLive_send (s : St) (slot p : Nat) (uri : Bytes) (st : NodeState) (c : Nat) (x : Chan)
    (hn : aget s.nodes (p, uri) = some (.inUse (some c))) (hc : aget s.chans c = some x) :
    dropLive s slot p uri st =
      { s with chans := aset s.chans c (.full st), nodes := aset s.nodes (p, uri) (.inUse .none),
               slots := adel s.slots slot } := by
  simp [dropLive, hn, hc]

theorem dropLive_idle (s : St) (slot p : Nat) (uri : Bytes) (st : NodeState)
    (hn : ∀ c x, aget s.nodes (p, uri) = some (.inUse (some c)) → aget s.chans c = some x → False) :
    dropLive s slot p uri st = { s with nodes := aset s.nodes (p, uri) (.idle st), slots := adel s.slots slot } := by
  simp only [dropLive]
  split
  · rename_i c hn'
    split
    · rename_i x hx; exact absurd hx (fun hx => hn c x hn' hx)
    · rfl
  · rfl

/-- The two new clauses across `Drop for InMemoryNodePersistence`, from a state in which the dropped slot no longer
owns a live channel (either it is a running instance, or its channel has just been taken out). -/
theorem dropLive_kl (s : St) (slot p : Nat) (uri : Bytes) (st : NodeState)
    (hk : ∀ c x, aget s.chans c = some x → ∃ a p u, aget s.slots a = some (.waiting p u c))
    (hi4 : ∀ c a p1 u1, aget s.nodes (p, uri) = some (.inUse (some c)) →
      aget s.slots a = some (.waiting p1 u1 c) → p1 = p ∧ u1 = uri)
    (hnone : ∀ p1 u1 c, aget s.slots slot = some (.waiting p1 u1 c) → aget s.chans c = none)
    (hslot : ∀ p1 u1 st1, aget s.slots slot = some (.live p1 u1 st1) → p1 = p ∧ u1 = uri)
    (hslot' : ∀ p1 u1 c, aget s.slots slot = some (.waiting p1 u1 c) → p1 = p ∧ u1 = uri)
    (hl : ∀ p' u', (p', u') ≠ (p, uri) → isInUse (aget s.nodes (p', u')) = true → Held s p' u') :
    (∀ c x, aget (dropLive s slot p uri st).chans c = some x →
      ∃ a p' u', aget (dropLive s slot p uri st).slots a = some (.waiting p' u' c)) ∧
    (∀ p' u', isInUse (aget (dropLive s slot p uri st).nodes (p', u')) = true →
      Held (dropLive s slot p uri st) p' u') := by
  have f1 : ∀ c x, aget s.chans c = some x → ∃ a p' u', a ≠ slot ∧ aget s.slots a = some (.waiting p' u' c) := by
    intro c x hx
    obtain ⟨a, p', u', ha⟩ := hk c x hx
    refine ⟨a, p', u', ?_, ha⟩
    intro e; rw [e] at ha; rw [hnone p' u' c ha] at hx; cases hx
  have f2 : ∀ p' u', (p', u') ≠ (p, uri) → isInUse (aget s.nodes (p', u')) = true →
      (∃ a st', a ≠ slot ∧ aget s.slots a = some (.live p' u' st')) ∨
      (∃ a c st', a ≠ slot ∧ aget s.slots a = some (.waiting p' u' c) ∧ aget s.chans c = some (.full st')) := by
    intro p' u' hne hu
    rcases hl p' u' hne hu with ⟨a, st', ha⟩ | ⟨a, c, st', ha, hc⟩
    · refine Or.inl ⟨a, st', ?_, ha⟩
      intro e; rw [e] at ha; obtain ⟨rfl, rfl⟩ := hslot _ _ _ ha; exact hne rfl
    · refine Or.inr ⟨a, c, st', ?_, ha, hc⟩
      intro e; rw [e] at ha; obtain ⟨rfl, rfl⟩ := hslot' _ _ _ ha; exact hne rfl
  by_cases hsend : ∃ c x, aget s.nodes (p, uri) = some (.inUse (some c)) ∧ aget s.chans c = some x
  · obtain ⟨c1, x1, hn, hc1⟩ := hsend
    rw [dropLive_send s slot p uri st c1 x1 hn hc1]
    constructor
    · intro c x hx
      simp only [aget_aset] at hx
      have : ∃ y, aget s.chans c = some y := by
        by_cases e : c = c1
        · subst e; exact ⟨x1, hc1⟩
        · simp only [e, ↓reduceIte] at hx; exact ⟨x, hx⟩
      obtain ⟨y, hy⟩ := this
      obtain ⟨a, p', u', hne, ha⟩ := f1 c y hy
      exact ⟨a, p', u', by simp [aget_adel, hne, ha]⟩
    · intro p' u' hu
      by_cases e : (p', u') = (p, uri)
      · cases e
        obtain ⟨a, p1, u1, hne, ha⟩ := f1 c1 x1 hc1
        obtain ⟨rfl, rfl⟩ := hi4 c1 a p1 u1 hn ha
        exact held_wait (a := a) (c := c1) (st := st) (by simp [aget_adel, hne, ha]) (by simp [aget_aset])
      · simp only [aget_aset, e, ↓reduceIte] at hu
        rcases f2 p' u' e hu with ⟨a, st', hne, ha⟩ | ⟨a, c, st', hne, ha, hc⟩
        · exact held_live (a := a) (st := st') (by simp [aget_adel, hne, ha])
        · by_cases ec : c = c1
          · subst ec
            exact held_wait (a := a) (c := c) (st := st) (by simp [aget_adel, hne, ha]) (by simp [aget_aset])
          · exact held_wait (a := a) (c := c) (st := st') (by simp [aget_adel, hne, ha]) (by simp [aget_aset, ec, hc])
  · rw [dropLive_idle s slot p uri st (fun c x h1 h2 => hsend ⟨c, x, h1, h2⟩)]
    constructor
    · intro c x hx
      obtain ⟨a, p', u', hne, ha⟩ := f1 c x hx
      exact ⟨a, p', u', by simp [aget_adel, hne, ha]⟩
    · intro p' u' hu
      by_cases e : (p', u') = (p, uri)
      · cases e
        simp [aget_aset] at hu
      · simp only [aget_aset, e, ↓reduceIte] at hu
        rcases f2 p' u' e hu with ⟨a, st', hne, ha⟩ | ⟨a, c, st', hne, ha, hc⟩
        · exact held_live (a := a) (st := st') (by simp [aget_adel, hne, ha])
        · exact held_wait (a := a) (c := c) (st := st') (by simp [aget_adel, hne, ha]) hc

theorem linv_drop (s : St) (h : LInv s) (slot : Nat) : LInv (step s (.drp slot)).1 := by
  have hh := hinv_step s h.h (.drp slot)
  rcases hs : aget s.slots slot with _ | ⟨p, uri, st⟩ | ⟨p, uri, c⟩
  · have e : (step s (.drp slot)).1 = s := by simp [step, hs]
    rw [e]; exact h
  · have e : (step s (.drp slot)).1 = dropLive s slot p uri st := by simp [step, hs]
    rw [e] at hh ⊢
    obtain ⟨r1, r2⟩ := dropLive_kl s slot p uri st h.k
      (fun c a p1 u1 hn ha => h.h.i4 p uri c a p1 u1 hn ha)
      (fun p1 u1 c ha => by rw [hs] at ha; cases ha)
      (fun p1 u1 st1 ha => by rw [hs] at ha; cases ha; exact ⟨rfl, rfl⟩)
      (fun p1 u1 c ha => by rw [hs] at ha; cases ha)
      (fun p' u' _ hu => h.l p' u' hu)
    exact ⟨hh, r1, r2⟩
  · have huniq : ∀ a p' u', aget s.slots a = some (.waiting p' u' c) → a = slot :=
      fun a p' u' ha => h.h.i5 a slot p' u' p uri c ha hs
    by_cases hfull : ∃ st, aget s.chans c = some (.full st)
    · obtain ⟨st, hc⟩ := hfull
      have e : (step s (.drp slot)).1 = dropLive { s with chans := adel s.chans c } slot p uri st := by
        simp [step, hs, hc]
      rw [e] at hh ⊢
      obtain ⟨r1, r2⟩ := dropLive_kl { s with chans := adel s.chans c } slot p uri st
        (fun c' x hx => by
          simp only [aget_adel] at hx
          by_cases ec : c' = c
          · simp [ec] at hx
          · simp only [ec, ↓reduceIte] at hx; exact h.k c' x hx)
        (fun c' a p1 u1 hn ha => h.h.i4 p uri c' a p1 u1 hn ha)
        (fun p1 u1 c' ha => by
          have ha' : aget s.slots slot = some (.waiting p1 u1 c') := ha
          rw [hs] at ha'; cases ha'; simp [aget_adel])
        (fun p1 u1 st1 ha => by
          have ha' : aget s.slots slot = some (.live p1 u1 st1) := ha
          rw [hs] at ha'; cases ha')
        (fun p1 u1 c' ha => by
          have ha' : aget s.slots slot = some (.waiting p1 u1 c') := ha
          rw [hs] at ha'; cases ha'; exact ⟨rfl, rfl⟩)
        (fun p' u' hne hu => by
          rcases h.l p' u' hu with ⟨a, st', ha⟩ | ⟨a, c', st', ha, hc'⟩
          · exact held_live (a := a) (st := st') ha
          · have ec : c' ≠ c := by
              intro e; subst e
              have := huniq a p' u' ha
              subst this
              rw [hs] at ha; cases ha; exact hne rfl
            exact held_wait (a := a) (c := c') (st := st') ha (by simp [aget_adel, ec, hc']))
      exact ⟨hh, r1, r2⟩
    · have e : (step s (.drp slot)).1 = { s with chans := adel s.chans c, slots := adel s.slots slot } := by
        simp only [step, hs]
        split
        · rename_i st hc; exact absurd ⟨st, hc⟩ hfull
        · rfl
      rw [e] at hh ⊢
      refine ⟨hh, ?_, ?_⟩
      · intro c' x hx
        simp only [aget_adel] at hx
        by_cases ec : c' = c
        · simp [ec] at hx
        · simp only [ec, ↓reduceIte] at hx
          obtain ⟨a, p', u', ha⟩ := h.k c' x hx
          have : a ≠ slot := by intro e; rw [e, hs] at ha; cases ha; exact ec rfl
          exact ⟨a, p', u', by simp [aget_adel, this, ha]⟩
      · intro p' u' hu
        rcases h.l p' u' hu with ⟨a, st', ha⟩ | ⟨a, c', st', ha, hc'⟩
        · have : a ≠ slot := by intro e; rw [e, hs] at ha; cases ha
          exact held_live (a := a) (st := st') (by simp [aget_adel, this, ha])
        · have ec : c' ≠ c := by intro e; subst e; exact hfull ⟨st', hc'⟩
          have ea : a ≠ slot := by intro e; rw [e, hs] at ha; cases ha; exact ec rfl
          exact held_wait (a := a) (c := c') (st := st') (by simp [aget_adel, ea, ha]) (by simp [aget_adel, ec, hc'])

theorem linv_step (s : St) (h : LInv s) (op : Op) : LInv (step s op).1 := by
  cases op with
  | opn slot p uri => exact linv_open s h slot p uri
  | poll slot => exact linv_poll s h slot
  | drp slot => exact linv_drop s h slot
  | data slot d => exact linv_data s h slot d
  | reopen => exact h

theorem linv_run (ops : List Op) : ∀ s, LInv s → LInv (run s ops) := by
  induction ops with
  | nil => intro s h; exact h
  | cons o os ih => intro s h; exact ih _ (linv_step s h o)

end SwimVerif.Store.InMem
