/-
Helper lemmas for the composed model of the downlink runtime's "no consumers" discipline (`Model/InactivityDl.lean`).
-/
import SwimVerif.Model.InactivityDl
import SwimVerif.Proofs.TimeoutCoord

set_option linter.unusedVariables false
namespace SwimVerif.InactDl
open SwimVerif

/-! ### the two-party coordinator at API granularity -/

structure CIdle2 (c : Coord.St) : Prop where
  inv : Coord.Inv c
  n2 : c.n = 2
  idle : ∀ (i : Nat) (v : Coord.Voter), c.voters[i]? = some v → v.pc = .idle

theorem cidle2_init : CIdle2 (Coord.init 2) := by
  refine ⟨Coord.inv_init 2 (by decide) (by decide), rfl, ?_⟩
  intro i v hv
  simp only [Coord.init, List.getElem?_replicate] at hv
  split at hv
  · cases hv; rfl
  · cases hv

theorem cidle2_get {c : Coord.St} (h : CIdle2 c) {i : Nat} (hi : i < 2) :
    ∃ b, c.voters[i]? = some { voted := b, pc := .idle } := by
  have hl : i < c.voters.length := by rw [h.inv.len, h.n2]; exact hi
  refine ⟨(c.voters[i]).voted, ?_⟩
  have hv : c.voters[i]? = some c.voters[i] := List.getElem?_eq_getElem hl
  have := h.idle i _ hv
  rw [hv]
  congr 1
  cases hvi : c.voters[i] with
  | mk voted pc => rw [hvi] at this; simp at this; rw [this]

theorem stepAct_vote_eq2 {c : Coord.St} {i : Nat} {b : Bool} (hv : c.voters[i]? = some { voted := b, pc := .idle }) :
    Coord.stepAct c i .vote = Coord.doVote c i { voted := b, pc := .idle } .idle := by
  simp [Coord.stepAct, hv]

theorem cidle2_vote {c : Coord.St} (h : CIdle2 c) {i : Nat} (hi : i < 2) : CIdle2 (Coord.stepAct c i .vote).1 := by
  obtain ⟨b, hv⟩ := cidle2_get h hi
  refine ⟨Coord.inv_stepAct h.inv i .vote, by rw [Coord.n_stepAct]; exact h.n2, ?_⟩
  intro j w hw
  rw [stepAct_vote_eq2 hv, Coord.doVote_get] at hw
  split at hw
  · cases hw; rfl
  · exact h.idle j w hw

theorem votedAt_vote2 {c : Coord.St} (h : CIdle2 c) {i : Nat} (hi : i < 2) (j : Nat) :
    Coord.votedAt (Coord.stepAct c i .vote).1 j = (decide (i = j) || Coord.votedAt c j) := by
  obtain ⟨b, hv⟩ := cidle2_get h hi
  have hl : i < c.voters.length := by rw [h.inv.len, h.n2]; exact hi
  rw [stepAct_vote_eq2 hv, Coord.votedAt_doVote]
  by_cases hij : i = j
  · subst hij; simp [hl]
  · simp [hij]

/-- The whole `rescind` call of party `i` (two parties: a single `compare_exchange(flag, INIT)`). -/
theorem apiRescind_eq2 {c : Coord.St} (h : CIdle2 c) {i : Nat} (hi : i < 2) {b : Bool}
    (hv : c.voters[i]? = some { voted := b, pc := .idle }) :
    Coord.apiRescind c i =
      if b = true then
        if c.flags = Coord.flagOf i then
          (Coord.setVoter { c with flags := Generated.coordInit } i { voted := false, pc := .idle }, .pending)
        else (c, .unanimous)
      else (c, .pending) := by
  have h2 : Coord.inverseOf c.n i < Generated.twoVotersLim := by
    rw [Coord.two_party_iff c.n i h.inv.n2 h.inv.n8 (by rw [h.n2]; exact hi)]; exact h.n2
  cases b with
  | false => simp [Coord.apiRescind, Coord.stepAct, hv]
  | true =>
    by_cases hf : c.flags = Coord.flagOf i
    · simp [Coord.apiRescind, Coord.stepAct, hv, h2, hf]
    · simp [Coord.apiRescind, Coord.stepAct, hv, h2, hf]

theorem rescind_cases2 {c : Coord.St} (h : CIdle2 c) {i : Nat} (hi : i < 2) :
    ((Coord.apiRescind c i).2 = .unanimous ∧ (Coord.apiRescind c i).1 = c ∧ c.flags = Coord.allMask 2) ∨
    ((Coord.apiRescind c i).2 = .pending ∧ CIdle2 (Coord.apiRescind c i).1 ∧
      Coord.votedAt (Coord.apiRescind c i).1 i = false ∧
      (∀ j, j ≠ i → Coord.votedAt (Coord.apiRescind c i).1 j = Coord.votedAt c j) ∧
      (Coord.apiRescind c i).1.flags ≠ Coord.allMask 2) := by
  obtain ⟨b, hv⟩ := cidle2_get h hi
  have hl : i < c.voters.length := by rw [h.inv.len, h.n2]; exact hi
  have hinv : Coord.Inv (Coord.apiRescind c i).1 := by
    unfold Coord.apiRescind
    simp only []
    split
    · exact Coord.inv_stepAct (Coord.inv_stepAct h.inv i .rescind) i .cas
    · exact Coord.inv_stepAct h.inv i .rescind
  have hnotall : ∀ c' : Coord.St, Coord.Inv c' → c'.n = 2 → Coord.votedAt c' i = false → c'.flags ≠ Coord.allMask 2 := by
    intro c' hi' hn hvf hfa
    have := (Coord.flags_all_iff hi').mp (by rw [hfa, hn]) i (by rw [hn]; exact hi)
    rw [hvf] at this; exact absurd this (by decide)
  cases b with
  | false =>
    right
    have hstep : Coord.apiRescind c i = (c, .pending) := by rw [apiRescind_eq2 h hi hv]; simp
    have hvi : Coord.votedAt c i = false := by rw [Coord.votedAt_of_get hv]
    rw [hstep]
    exact ⟨rfl, h, hvi, fun _ _ => rfl, hnotall c h.inv h.n2 hvi⟩
  | true =>
    by_cases hf : c.flags = Coord.flagOf i
    · right
      have hstep : Coord.apiRescind c i =
          (Coord.setVoter { c with flags := Generated.coordInit } i { voted := false, pc := .idle }, .pending) := by
        rw [apiRescind_eq2 h hi hv]; simp [hf]
      rw [hstep] at hinv ⊢
      have hvf : Coord.votedAt (Coord.setVoter { c with flags := Generated.coordInit } i
          { voted := false, pc := .idle }) i = false := by
        rw [Coord.votedAt_setVoter]; simp [hl]
      refine ⟨rfl, ⟨hinv, h.n2, ?_⟩, hvf, ?_, hnotall _ hinv h.n2 hvf⟩
      · intro j w hw
        rw [Coord.setVoter_get] at hw
        split at hw
        · cases hw; rfl
        · exact h.idle j w hw
      · intro j hj
        rw [Coord.votedAt_setVoter]
        have : ¬ (i = j ∧ i < c.voters.length) := fun hh => hj hh.1.symm
        simp [this, Coord.votedAt]
    · left
      have hstep : Coord.apiRescind c i = (c, .unanimous) := by rw [apiRescind_eq2 h hi hv]; simp [hf]
      rw [hstep]
      refine ⟨rfl, rfl, ?_⟩
      -- our flag is set and the flags are not just our flag: the other party's flag is set too
      have hvi : Coord.votedAt c i = true := by rw [Coord.votedAt_of_get hv]
      have hall : ∀ j, j < c.n → Coord.votedAt c j = true := by
        intro j hj
        rw [h.n2] at hj
        by_cases hji : j = i
        · rw [hji]; exact hvi
        · cases hvj : Coord.votedAt c j with
          | true => rfl
          | false =>
            exfalso; apply hf
            apply Nat.eq_of_testBit_eq
            intro k
            rw [h.inv.bits k, Coord.testBit_flagOf, h.n2]
            by_cases hk : k < 2
            · have : k = i ∨ k = j := by omega
              rcases this with rfl | rfl
              · simp [hk, hvi]
              · simp [hk, hvj]; exact fun e => hji e.symm
            · have : ¬ i = k := by omega
              simp [hk, this]
      have := (Coord.flags_all_iff h.inv).mpr hall
      rw [this, h.n2]

/-! ### the invariant of the composed model -/

structure DInv (s : St) : Prop where
  c : CIdle2 s.coord
  vr : Coord.votedAt s.coord 0 = s.rVoted
  vw : Coord.votedAt s.coord 1 = s.wVoted
  /-- a task with an outstanding vote knows no consumer -/
  rc : s.rVoted = true → s.rCons = []
  wc : s.wVoted = true → s.wCons = []
  /-- a timeout only runs while the task knows no consumer -/
  rt : s.rTimer.isSome = true → s.rCons = []
  rh : s.rHeld = true → s.rCons = []
  wt : s.wTimer.isSome = true → s.wCons = []
  /-- both tasks know every consumer that is still attached -/
  lw : ∀ c, c ∈ s.live → c ∈ s.wCons
  lr : ∀ c, c ∈ s.live → c ∈ s.rCons
  st_none : s.stop = none → s.coord.flags ≠ Coord.allMask 2
  st_some : ∀ t, s.stop = some t → s.coord.flags = Coord.allMask 2

theorem dinv_init (T : Nat) : DInv (init T) := by
  refine ⟨cidle2_init, ?_, ?_, ?_, ?_, ?_, ?_, ?_, ?_, ?_, ?_, ?_⟩ <;>
    first
    | (simp [init, Coord.votedAt_replicate]; done)
    | (intro _; show Generated.coordInit ≠ Coord.allMask 2; decide)

theorem dinv_settle {s : St} (h : DInv s) : DInv (settle s) := by
  unfold settle
  split
  · exact h
  · split
    · rename_i hf
      exact { h with st_none := fun hh => by simp at hh, st_some := fun _ _ => hf }
    · exact h

/-- everything but the stop clauses, for a state that is still running -/
theorem dinv_of_running {s s' : St} (h : DInv s) (hs : s'.stop = s.stop) (hsn : s.stop = none)
    (c : CIdle2 s'.coord) (vr : Coord.votedAt s'.coord 0 = s'.rVoted) (vw : Coord.votedAt s'.coord 1 = s'.wVoted)
    (rc : s'.rVoted = true → s'.rCons = []) (wc : s'.wVoted = true → s'.wCons = [])
    (rt : s'.rTimer.isSome = true → s'.rCons = []) (rh : s'.rHeld = true → s'.rCons = [])
    (wt : s'.wTimer.isSome = true → s'.wCons = [])
    (lw : ∀ c, c ∈ s'.live → c ∈ s'.wCons) (lr : ∀ c, c ∈ s'.live → c ∈ s'.rCons) : DInv (settle s') := by
  have hs' : s'.stop = none := hs.trans hsn
  unfold settle
  simp only [hs', Option.isSome_none, Bool.false_eq_true, if_false]
  split
  · rename_i hf
    exact ⟨c, vr, vw, rc, wc, rt, rh, wt, lw, lr, fun hh => by simp at hh, fun _ _ => hf⟩
  · rename_i hf
    exact ⟨c, vr, vw, rc, wc, rt, rh, wt, lw, lr, fun _ => hf, fun t ht => by simp [hs'] at ht⟩

theorem dinv_fireRead {s : St} (h : DInv s) (hs : s.stop = none) (hr : s.rTimer.isSome = true) :
    DInv (settle (fireRead s)) := by
  have hc := cidle2_vote h.c (i := READ) (by decide)
  have hv := votedAt_vote2 h.c (i := READ) (by decide)
  exact dinv_of_running h (s' := fireRead s) rfl hs hc (hv 0) ((hv 1).trans h.vw) (fun _ => h.rt hr) h.wc
    (fun hh => by simp [fireRead, voteAs] at hh) (fun hh => h.rh hh) h.wt h.lw h.lr

theorem dinv_fireWrite {s : St} (h : DInv s) (hs : s.stop = none) (hw : s.wTimer.isSome = true) :
    DInv (settle (fireWrite s)) := by
  have hc := cidle2_vote h.c (i := WRITE) (by decide)
  have hv := votedAt_vote2 h.c (i := WRITE) (by decide)
  exact dinv_of_running h (s' := fireWrite s) rfl hs hc ((hv 0).trans h.vr) (hv 1) h.rc (fun _ => h.wt hw)
    h.rt h.rh (fun hh => by simp [fireWrite, voteAs] at hh) h.lw h.lr

theorem rDue_some {s : St} {t : Nat} (h : rDue s t = true) : s.rTimer.isSome = true := by
  unfold rDue at h; split at h
  · rename_i d hd; rw [hd]; rfl
  · cases h

theorem wDue_some {s : St} {t : Nat} (h : wDue s t = true) : s.wTimer.isSome = true := by
  unfold wDue at h; split at h
  · rename_i d hd; rw [hd]; rfl
  · cases h

theorem dinv_now {s : St} (h : DInv s) (t : Nat) : DInv { s with now := t } := { h with }

theorem dinv_advLoop (fuel target : Nat) {s : St} (h : DInv s) : DInv (advLoop fuel target s) := by
  induction fuel generalizing s with
  | zero =>
    unfold advLoop
    by_cases hs : s.stop.isSome = true
    · rw [if_pos hs]; exact h
    · rw [if_neg hs]; exact dinv_now h _
  | succ fuel ih =>
    unfold advLoop
    by_cases hs0 : s.stop.isSome = true
    · rw [if_pos hs0]; exact h
    · rw [if_neg hs0]
      have hs : s.stop = none := by
        cases hst : s.stop with
        | none => rfl
        | some t => simp [hst] at hs0
      split
      · rename_i hc
        simp only [Bool.and_eq_true] at hc
        exact ih (dinv_fireRead h hs (rDue_some hc.1))
      · split
        · rename_i hc
          exact ih (dinv_fireWrite h hs (wDue_some hc))
        · exact dinv_now h _

/-- a new consumer at the read task, in a state that is still running -/
theorem readNew_facts {s : St} (h : DInv s) (hs : s.stop = none) (c : Nat) :
    CIdle2 (readNewConsumer s c).coord ∧
    Coord.votedAt (readNewConsumer s c).coord 0 = (readNewConsumer s c).rVoted ∧
    Coord.votedAt (readNewConsumer s c).coord 1 = s.wVoted ∧
    (readNewConsumer s c).rVoted = false ∧ (readNewConsumer s c).rCons = c :: s.rCons ∧
    (readNewConsumer s c).rTimer = none ∧ (readNewConsumer s c).rHeld = false ∧
    (readNewConsumer s c).coord.flags ≠ Coord.allMask 2 ∧
    (readNewConsumer s c).wVoted = s.wVoted ∧ (readNewConsumer s c).wCons = s.wCons ∧
    (readNewConsumer s c).wTimer = s.wTimer ∧ (readNewConsumer s c).live = s.live ∧
    (readNewConsumer s c).stop = s.stop := by
  unfold readNewConsumer
  by_cases hv : s.rVoted = true
  · rw [if_pos hv]
    rcases rescind_cases2 h.c (i := READ) (by decide) with hl | hr
    · exact absurd hl.2.2 (h.st_none hs)
    · have ht : rescindTold (rAdd s c) READ = false := by simp [rescindTold, rAdd, hr.1]
      rw [ht, if_neg (by decide)]
      exact ⟨hr.2.1, hr.2.2.1, (hr.2.2.2.1 1 (by decide)).trans h.vw, rfl, rfl, rfl, rfl, hr.2.2.2.2, rfl, rfl, rfl, rfl, rfl⟩
  · rw [if_neg hv]
    have hv' : s.rVoted = false := by simpa using hv
    exact ⟨h.c, h.vr, h.vw, hv', rfl, rfl, rfl, h.st_none hs, rfl, rfl, rfl, rfl, rfl⟩

theorem dinv_attach {s : St} (h : DInv s) (hs : s.stop = none) (c : Nat) :
    DInv (settle (addLive (writeNewConsumer (readNewConsumer s c) c) c)) := by
  obtain ⟨rc1, rvr, rvw, rv, rcons, rtm, rhd, rfl1, rwv, rwc, rwt, rlive, rstop⟩ := readNew_facts h hs c
  generalize hs1 : readNewConsumer s c = s1 at *
  -- the write task
  have key : CIdle2 (writeNewConsumer s1 c).coord ∧
      Coord.votedAt (writeNewConsumer s1 c).coord 0 = s1.rVoted ∧
      Coord.votedAt (writeNewConsumer s1 c).coord 1 = (writeNewConsumer s1 c).wVoted ∧
      (writeNewConsumer s1 c).wVoted = false ∧ (writeNewConsumer s1 c).wCons = c :: s1.wCons ∧
      (writeNewConsumer s1 c).wTimer = none ∧ (writeNewConsumer s1 c).rVoted = s1.rVoted ∧
      (writeNewConsumer s1 c).rCons = s1.rCons ∧ (writeNewConsumer s1 c).rTimer = s1.rTimer ∧
      (writeNewConsumer s1 c).rHeld = s1.rHeld ∧ (writeNewConsumer s1 c).live = s1.live ∧
      (writeNewConsumer s1 c).stop = s1.stop := by
    unfold writeNewConsumer
    by_cases hv : s1.wVoted = true
    · rw [if_pos hv]
      rcases rescind_cases2 rc1 (i := WRITE) (by decide) with hl | hr
      · exact absurd hl.2.2 rfl1
      · have ht : rescindTold (wAdd s1 c) WRITE = false := by simp [rescindTold, wAdd, hr.1]
        rw [ht, if_neg (by decide)]
        exact ⟨hr.2.1, (hr.2.2.2.1 0 (by decide)).trans rvr, hr.2.2.1, rfl, rfl, rfl, rfl, rfl, rfl, rfl, rfl, rfl⟩
    · rw [if_neg hv]
      have hv' : s1.wVoted = false := by simpa using hv
      exact ⟨rc1, rvr, rvw.trans rwv.symm, hv', rfl, rfl, rfl, rfl, rfl, rfl, rfl, rfl⟩
  obtain ⟨wc2, wvr, wvw, wv, wcons, wtm, wrv, wrc, wrt, wrh, wlive, wstop⟩ := key
  generalize hs2 : writeNewConsumer s1 c = s2 at *
  refine dinv_of_running h (s' := addLive s2 c) (by show s2.stop = s.stop; rw [wstop, rstop]) hs wc2
    (by show _ = s2.rVoted; rw [wrv]; exact wvr) wvw ?_ ?_ ?_ ?_ ?_ ?_ ?_
  · intro hh; have : s2.rVoted = true := hh; rw [wrv, rv] at this; cases this
  · intro hh; have : s2.wVoted = true := hh; rw [wv] at this; cases this
  · intro hh; have : s2.rTimer.isSome = true := hh; rw [wrt, rtm] at this; cases this
  · intro hh; have : s2.rHeld = true := hh; rw [wrh, rhd] at this; cases this
  · intro hh; have : s2.wTimer.isSome = true := hh; rw [wtm] at this; cases this
  · intro x hx
    have hx' : x = c ∨ x ∈ s2.live := by simpa [addLive] using hx
    show x ∈ s2.wCons
    rw [wcons, rwc]
    rcases hx' with rfl | hx'
    · exact List.mem_cons_self
    · rw [wlive, rlive] at hx'; exact List.mem_cons_of_mem _ (h.lw x hx')
  · intro x hx
    have hx' : x = c ∨ x ∈ s2.live := by simpa [addLive] using hx
    show x ∈ s2.rCons
    rw [wrc, rcons]
    rcases hx' with rfl | hx'
    · exact List.mem_cons_self
    · rw [wlive, rlive] at hx'; exact List.mem_cons_of_mem _ (h.lr x hx')

theorem dinv_readEvent {s : St} (h : DInv s) (hs : s.stop = none) : DInv (settle (readEvent s)) := by
  unfold readEvent
  split
  · rename_i hh
    exact dinv_of_running h (s' := { s with rHeld := false, rTimer := some (s.now + s.T) }) rfl hs h.c h.vr h.vw h.rc
      h.wc (fun _ => h.rh hh) (fun x => by simp at x) h.wt h.lw h.lr
  · split
    · exact dinv_settle h
    · rename_i hnh hnt
      have hrv : s.rVoted = false := by
        cases hv : s.rVoted with
        | false => rfl
        | true => simp [hv] at hnt
      have hrt : s.rTimer.isSome = false := by
        cases ht : s.rTimer.isSome with
        | false => rfl
        | true => simp [ht] at hnt
      split
      · rename_i hem
        refine dinv_of_running h (s' := { s with rCons := [], rHeld := true }) rfl hs h.c h.vr h.vw (fun _ => rfl) h.wc
          (fun _ => rfl) (fun _ => rfl) h.wt h.lw ?_
        intro x hx
        have hx' : x ∈ s.live := hx
        have : x ∈ alive s := by
          simp only [alive, List.mem_filter]
          exact ⟨h.lr x hx', by simpa using hx'⟩
        rw [List.isEmpty_iff.mp hem] at this; cases this
      · refine dinv_of_running h (s' := { s with rCons := alive s }) rfl hs h.c h.vr h.vw
          (fun hh => by have : s.rVoted = true := hh; rw [hrv] at this; cases this) h.wc
          (fun hh => by have : s.rTimer.isSome = true := hh; rw [hrt] at this; cases this)
          (fun hh => by have : s.rHeld = true := hh; exact absurd this hnh) h.wt h.lw ?_
        intro x hx
        have hx' : x ∈ s.live := hx
        show x ∈ alive s
        simp only [alive, List.mem_filter]
        exact ⟨h.lr x hx', by simpa using hx'⟩

theorem dinv_dropc {s : St} (h : DInv s) (hs : s.stop = none) (c : Nat) :
    DInv (settle (if (delLive s c).wCons.isEmpty then wArm (delLive s c) else delLive s c)) := by
  have hlw : ∀ x, x ∈ (delLive s c).live → x ∈ (delLive s c).wCons := by
    intro x hx
    simp only [delLive, List.mem_filter] at hx ⊢
    exact ⟨h.lw x hx.1, hx.2⟩
  have hlr : ∀ x, x ∈ (delLive s c).live → x ∈ (delLive s c).rCons := by
    intro x hx
    simp only [delLive, List.mem_filter] at hx
    exact h.lr x hx.1
  have hwc : s.wVoted = true → (delLive s c).wCons = [] := by
    intro hv; simp [delLive, h.wc hv]
  have hwt : s.wTimer.isSome = true → (delLive s c).wCons = [] := by
    intro hv; simp [delLive, h.wt hv]
  split
  · rename_i hem
    exact dinv_of_running h (s' := wArm (delLive s c)) rfl hs h.c h.vr h.vw h.rc hwc h.rt h.rh
      (fun _ => List.isEmpty_iff.mp hem) hlw hlr
  · exact dinv_of_running h (s' := delLive s c) rfl hs h.c h.vr h.vw h.rc hwc h.rt h.rh hwt hlw hlr

theorem dinv_step {s : St} (h : DInv s) (op : Op) : DInv (step s op).1 := by
  unfold step
  cases hs : s.stop with
  | some t => simp; exact h
  | none =>
    simp only [Option.isSome_none, Bool.false_eq_true, if_false]
    cases op with
    | attach c => simp only [step0]; split; exact dinv_settle h; exact dinv_attach h hs c
    | dropc c => simp only [step0]; split; exact dinv_dropc h hs c; exact dinv_settle h
    | ev => exact dinv_readEvent h hs
    | cmd c => exact dinv_settle h
    | adv k => exact dinv_settle (dinv_advLoop _ _ h)

theorem dinv_run {s : St} (h : DInv s) (ops : List Op) : DInv (run s ops) := by
  induction ops generalizing s with
  | nil => exact h
  | cons op ops ih => exact ih (dinv_step h op)

/-! a consumer that is attached stays attached until it is dropped -/

theorem live_settle (s : St) : (settle s).live = s.live := by unfold settle; split; rfl; split <;> rfl

theorem live_advLoop (fuel target : Nat) (s : St) : (advLoop fuel target s).live = s.live := by
  induction fuel generalizing s with
  | zero => unfold advLoop; split <;> rfl
  | succ fuel ih =>
    unfold advLoop
    split
    · rfl
    · split
      · rw [ih, live_settle]; rfl
      · split
        · rw [ih, live_settle]; rfl
        · rfl

theorem live_readNew (s : St) (c : Nat) : (readNewConsumer s c).live = s.live := by
  unfold readNewConsumer; split
  · split <;> rfl
  · rfl
theorem live_writeNew (s : St) (c : Nat) : (writeNewConsumer s c).live = s.live := by
  unfold writeNewConsumer; split
  · split <;> rfl
  · rfl
theorem live_readEvent (s : St) : (readEvent s).live = s.live := by
  unfold readEvent; split; rfl; split; rfl; split <;> rfl

theorem live_step {s : St} {c : Nat} (hc : c ∈ s.live) {op : Op} (hop : op ≠ .dropc c) : c ∈ (step s op).1.live := by
  unfold step
  split
  · exact hc
  · rw [live_settle]
    cases op with
    | attach x =>
      simp only [step0]; split
      · exact hc
      · show c ∈ x :: (writeNewConsumer (readNewConsumer s x) x).live
        rw [live_writeNew, live_readNew]; exact List.mem_cons_of_mem _ hc
    | dropc x =>
      have hx : c ≠ x := fun e => hop (e ▸ rfl)
      simp only [step0]; split
      · have : c ∈ (delLive s x).live := by simp [delLive, hc, hx]
        split
        · exact this
        · exact this
      · exact hc
    | ev => simp only [step0]; rw [live_readEvent]; exact hc
    | cmd x => exact hc
    | adv k => simp only [step0]; rw [live_advLoop]; exact hc

theorem live_run {s : St} {c : Nat} (hc : c ∈ s.live) (ops : List Op) (hops : ∀ op, op ∈ ops → op ≠ .dropc c) :
    c ∈ (run s ops).live := by
  induction ops generalizing s with
  | nil => exact hc
  | cons op ops ih =>
    exact ih (live_step hc (hops op List.mem_cons_self)) (fun o ho => hops o (List.mem_cons_of_mem _ ho))

theorem run_app (s : St) (a b : List Op) : run s (a ++ b) = run (run s a) b := by
  simp [run, List.foldl_append]

end SwimVerif.InactDl
