/-
C16 — token level of the MessagePack byte model: integers (`write_sint` / `write_u64` ↔ the ten integer markers),
bool / nil, bin headers.
-/
import SwimVerif.Proofs.MsgPackBytes

namespace SwimVerif.MsgPack
open SwimVerif.Recon

theorem rdU1 (b : Nat) (rest : List Nat) : rdU 1 (b :: rest) = some (b, rest) := by
  simp [rdU, takeN, beVal, leVal]

theorem rdUInt_be (k n : Nat) (h : n < 256 ^ k) (rest : List Nat) :
    rdUInt k (be k n ++ rest) = some (mkInt n, rest) := by
  simp [rdUInt, rdU_be k n h]

theorem rdSInt_be (k n : Nat) (h : n < 256 ^ k) (rest : List Nat) :
    rdSInt k (be k n ++ rest) =
      some (mkInt (if n < 256 ^ k / 2 then (n : Int) else (n : Int) - (256 ^ k : Nat)), rest) := by
  simp [rdSInt, rdU_be k n h]

theorem rdUInt1 (b : Nat) (rest : List Nat) : rdUInt 1 (b :: rest) = some (mkInt b, rest) := by
  simp [rdUInt, rdU1]

theorem rdSInt1 (b : Nat) (rest : List Nat) :
    rdSInt 1 (b :: rest) = some (mkInt (if b < 128 then (b : Int) else (b : Int) - 256), rest) := by
  simp [rdSInt, rdU1]

/-- The shape of a primitive round trip for a token list `w` read back as `v`. -/
def TokRT (w : List Nat) (v : Value) : Prop :=
  ∃ m r, w = m :: r ∧ isMapMarker m = false ∧ isArrMarker m = false ∧
    ∀ rest, rdPrim m (r ++ rest) = some (v, rest)

theorem notMap_of {m : Nat} (h : m < 128 ∨ (144 ≤ m ∧ m ≠ 222 ∧ m ≠ 223)) : isMapMarker m = false := by
  simp [isMapMarker]; omega

theorem notArr_of {m : Nat} (h : m < 144 ∨ (160 ≤ m ∧ m ≠ 220 ∧ m ≠ 221)) : isArrMarker m = false := by
  simp [isArrMarker]; omega

theorem rdPrim_fixpos (m : Nat) (r : List Nat) (h : m < 128) : rdPrim m r = some (mkInt m, r) := by
  simp [rdPrim, h]

theorem rdPrim_fixneg (m : Nat) (r : List Nat) (h1 : 224 ≤ m) (h2 : m < 256) :
    rdPrim m r = some (mkInt ((m : Int) - 256), r) := by
  unfold rdPrim
  repeat (rw [if_neg (by omega)])
  rw [if_pos ⟨h1, h2⟩]

theorem rdPrim_fixstr (m : Nat) (r : List Nat) (h1 : 160 ≤ m) (h2 : m < 192) :
    rdPrim m r = rdText (m - 160) r := by
  unfold rdPrim
  rw [if_neg (by omega), if_neg (by omega), if_pos h2]

theorem wInt_neg_rt (n : Int) (h1 : -9223372036854775808 ≤ n) (h2 : n < 0) : TokRT (wInt n) (mkInt n) := by
  unfold wInt
  rw [if_pos h2]
  by_cases c1 : -32 ≤ n
  · rw [if_pos c1]
    have hm : (((256 + n).toNat : Nat) : Int) = 256 + n := by omega
    refine ⟨(256 + n).toNat, [], rfl, notMap_of (by omega), notArr_of (by omega), ?_⟩
    intro rest
    rw [List.nil_append, rdPrim_fixneg _ _ (by omega) (by omega), hm]
    refine congrArg (fun z => some (mkInt z, rest)) ?_; omega
  rw [if_neg c1]
  by_cases c2 : -128 ≤ n
  · rw [if_pos c2]
    have hm : (((256 + n).toNat : Nat) : Int) = 256 + n := by omega
    refine ⟨208, [(256 + n).toNat], rfl, by decide, by decide, ?_⟩
    intro rest
    have : rdPrim 208 ([(256 + n).toNat] ++ rest) = rdSInt 1 ((256 + n).toNat :: rest) := by simp [rdPrim]
    rw [this, rdSInt1, if_neg (by omega), hm]
    refine congrArg (fun z => some (mkInt z, rest)) ?_; omega
  rw [if_neg c2]
  by_cases c3 : -32768 ≤ n
  · rw [if_pos c3]
    have hm : (((65536 + n).toNat : Nat) : Int) = 65536 + n := by omega
    refine ⟨209, be 2 (65536 + n).toNat, rfl, by decide, by decide, ?_⟩
    intro rest
    have : ∀ x, rdPrim 209 x = rdSInt 2 x := by intro x; simp [rdPrim]
    rw [this, rdSInt_be 2 _ (by simp only [Nat.reducePow]; omega)]
    simp only [Nat.reducePow, Nat.reduceDiv]
    rw [if_neg (by omega), hm]
    refine congrArg (fun z => some (mkInt z, rest)) ?_; omega
  rw [if_neg c3]
  by_cases c4 : -2147483648 ≤ n
  · rw [if_pos c4]
    have hm : (((4294967296 + n).toNat : Nat) : Int) = 4294967296 + n := by omega
    refine ⟨210, be 4 (4294967296 + n).toNat, rfl, by decide, by decide, ?_⟩
    intro rest
    have : ∀ x, rdPrim 210 x = rdSInt 4 x := by intro x; simp [rdPrim]
    rw [this, rdSInt_be 4 _ (by simp only [Nat.reducePow]; omega)]
    simp only [Nat.reducePow, Nat.reduceDiv]
    rw [if_neg (by omega), hm]
    refine congrArg (fun z => some (mkInt z, rest)) ?_; omega
  rw [if_neg c4]
  have hm : (((18446744073709551616 + n).toNat : Nat) : Int) = 18446744073709551616 + n := by omega
  refine ⟨211, be 8 (18446744073709551616 + n).toNat, rfl, by decide, by decide, ?_⟩
  intro rest
  have : ∀ x, rdPrim 211 x = rdSInt 8 x := by intro x; simp [rdPrim]
  rw [this, rdSInt_be 8 _ (by simp only [Nat.reducePow]; omega)]
  simp only [Nat.reducePow, Nat.reduceDiv]
  rw [if_neg (by omega), hm]
  refine congrArg (fun z => some (mkInt z, rest)) ?_; omega

theorem wInt_pos_rt (n : Int) (h1 : 0 ≤ n) (h2 : n ≤ 18446744073709551615) : TokRT (wInt n) (mkInt n) := by
  unfold wInt
  rw [if_neg (by omega)]
  have hm : ((n.toNat : Nat) : Int) = n := by omega
  by_cases c1 : n < 128
  · rw [if_pos c1]
    refine ⟨n.toNat, [], rfl, notMap_of (by omega), notArr_of (by omega), ?_⟩
    intro rest
    rw [List.nil_append, rdPrim_fixpos _ _ (by omega), hm]
  rw [if_neg c1]
  by_cases c2 : n < 256
  · rw [if_pos c2]
    refine ⟨204, [n.toNat], rfl, by decide, by decide, ?_⟩
    intro rest
    have : ∀ x, rdPrim 204 x = rdUInt 1 x := by intro x; simp [rdPrim]
    rw [this, List.cons_append, List.nil_append, rdUInt1, hm]
  rw [if_neg c2]
  by_cases c3 : n < 65536
  · rw [if_pos c3]
    refine ⟨205, be 2 n.toNat, rfl, by decide, by decide, ?_⟩
    intro rest
    have : ∀ x, rdPrim 205 x = rdUInt 2 x := by intro x; simp [rdPrim]
    rw [this, rdUInt_be 2 _ (by simp only [Nat.reducePow]; omega), hm]
  rw [if_neg c3]
  by_cases c4 : n < 4294967296
  · rw [if_pos c4]
    refine ⟨206, be 4 n.toNat, rfl, by decide, by decide, ?_⟩
    intro rest
    have : ∀ x, rdPrim 206 x = rdUInt 4 x := by intro x; simp [rdPrim]
    rw [this, rdUInt_be 4 _ (by simp only [Nat.reducePow]; omega), hm]
  rw [if_neg c4]
  refine ⟨207, be 8 n.toNat, rfl, by decide, by decide, ?_⟩
  intro rest
  have : ∀ x, rdPrim 207 x = rdUInt 8 x := by intro x; simp [rdPrim]
  rw [this, rdUInt_be 8 _ (by simp only [Nat.reducePow]; omega), hm]

/-- All machine integers: `write_sint` / `write_u64` ↔ fixpos, `cc cd ce cf`, fixneg, `d0 d1 d2 d3`. -/
theorem wInt_rt (n : Int) (h1 : -9223372036854775808 ≤ n) (h2 : n ≤ 18446744073709551615) :
    TokRT (wInt n) (mkInt n) := by
  by_cases h : n < 0
  · exact wInt_neg_rt n h1 h
  · exact wInt_pos_rt n (by omega) h2

end SwimVerif.MsgPack
