/-
C15 helper lemmas, event level: the comparator `cmpLoop` (`incremental_compare` + `ValueValidator`) on ALL event
streams — reflexive, symmetric, and never `Some(true)` when a stream ends in an error item.
-/
import SwimVerif.Proofs.ReconEq

namespace SwimVerif.ReconEq
open SwimVerif.Recon

/-! ## event equality -/

theorem Num.beq_refl (n : Num) : n.beq n = true := by
  cases n <;> simp [Num.beq, Num.intVal, fltEq_refl]

theorem Num.beq_symm (n m : Num) : n.beq m = m.beq n := by
  cases n <;> cases m <;> simp [Num.beq, Num.intVal, fltEq_symm] <;> exact beq_comm' _ _

theorem Event.beq_refl (e : Event) : e.beq e = true := by
  cases e <;> simp [Event.beq, Num.beq_refl]

theorem Event.beq_symm (e f : Event) : e.beq f = f.beq e := by
  cases e <;> cases f <;> simp [Event.beq, Num.beq_symm] <;> exact beq_comm' _ _

/-- Events that compare equal are fed to the validator identically (it only looks at the kind of event). -/
theorem VV.feed_congr (v : VV) (e f : Event) (h : e.beq f = true) : v.feed e = v.feed f := by
  cases e <;> cases f <;> simp [Event.beq] at h <;>
    (unfold VV.feed; cases v.state <;> simp [Event.isPrim])

/-! ## the validator's equality -/

theorem stacksEq_refl (fuel : Nat) (l : List BuilderState) : stacksEq fuel l l = true := by
  induction fuel generalizing l with
  | zero => simp [stacksEq]
  | succ n ih =>
    cases l with
    | nil => simp [stacksEq]
    | cons s ss => simp [stacksEq, ih]

theorem stacksEq_symm (fuel : Nat) (a b : List BuilderState) : stacksEq fuel a b = stacksEq fuel b a := by
  induction fuel generalizing a b with
  | zero => simp [stacksEq]
  | succ n ih =>
    cases a with
    | nil => cases b <;> simp [stacksEq]
    | cons s ss =>
      cases b with
      | nil => simp [stacksEq]
      | cons o os =>
        simp only [stacksEq]
        rw [ih]
        by_cases h : (absorbNoKey ss s.items.itemsLen s.attrs).1 = (absorbNoKey os o.items.itemsLen o.attrs).1 ∧
            (absorbNoKey ss s.items.itemsLen s.attrs).2.1 = (absorbNoKey os o.items.itemsLen o.attrs).2.1
        · have h' : (absorbNoKey os o.items.itemsLen o.attrs).1 = (absorbNoKey ss s.items.itemsLen s.attrs).1 ∧
              (absorbNoKey os o.items.itemsLen o.attrs).2.1 = (absorbNoKey ss s.items.itemsLen s.attrs).2.1 :=
            ⟨h.1.symm, h.2.symm⟩
          rw [if_pos h, if_pos h']
        · have h' : ¬ ((absorbNoKey os o.items.itemsLen o.attrs).1 = (absorbNoKey ss s.items.itemsLen s.attrs).1 ∧
              (absorbNoKey os o.items.itemsLen o.attrs).2.1 = (absorbNoKey ss s.items.itemsLen s.attrs).2.1) :=
            fun e => h ⟨e.1.symm, e.2.symm⟩
          rw [if_neg h, if_neg h']

theorem VV.beq_symm (a b : VV) : a.beq b = b.beq a := by
  unfold VV.beq
  by_cases h : a.slotKey = b.slotKey
  · have h' : b.slotKey = a.slotKey := h.symm
    rw [if_pos h, if_pos h']
    cases a.state <;> cases b.state <;> simp
    rw [stacksEq_symm]
    congr 1
    omega
  · have h' : ¬ b.slotKey = a.slotKey := fun e => h e.symm
    rw [if_neg h, if_neg h']

/-- A validator equals itself unless it is `Invalid`. -/
theorem VV.beq_self (v : VV) : v.beq v = true ∨ v.state = .invalid := by
  unfold VV.beq
  cases h : v.state <;> simp [stacksEq_refl]

theorem afterIter_symm (v1 v2 : VV) : afterIter v1 v2 = afterIter v2 v1 := by
  unfold afterIter
  rw [VV.beq_symm v1 v2]
  by_cases h : v1.state = .invalid ∧ v2.state = .invalid
  · have h' : v2.state = .invalid ∧ v1.state = .invalid := ⟨h.2, h.1⟩
    simp [h, h']
  · have h' : ¬ (v2.state = .invalid ∧ v1.state = .invalid) := fun e => h ⟨e.2, e.1⟩
    simp [h, h']

/-- After feeding the same thing to the same validator: carry on, or give up with `None`. -/
theorem afterIter_self (v : VV) : afterIter v v = none ∨ afterIter v v = some none := by
  unfold afterIter
  rcases VV.beq_self v with h | h
  · simp [h]
  · by_cases hb : v.beq v = true
    · simp [hb]
    · simp [hb, h]

theorem afterIter_none (v1 v2 : VV) (h : afterIter v1 v2 = none) : v1.beq v2 = true := by
  unfold afterIter at h
  by_cases hb : v1.beq v2 = true
  · exact hb
  · simp [hb] at h
    split at h <;> simp at h

/-! ## reflexivity -/

theorem cmpLoop_refl (fuel : Nat) (v : VV) (s : List SItem) (hf : s.length < fuel) (hv : v.beq v = true) :
    cmpLoop fuel v v s s = none ∨ cmpLoop fuel v v s s = some true := by
  induction fuel generalizing v s with
  | zero => omega
  | succ n ih =>
    cases s with
    | nil => simp [cmpLoop, hv]
    | cons x r =>
      cases x with
      | bad => simp [cmpLoop]
      | ev e =>
        simp only [cmpLoop, Event.beq_refl, ↓reduceIte]
        rcases afterIter_self (v.feed e).1 with h | h
        · rw [h]
          exact ih _ r (by simp at hf; omega) (afterIter_none _ _ h)
        · rw [h]; simp

/-! ## an error item is never `Some(true)` -/

theorem skipIf_bad (t : Event) (v : VV) (e : Event) (rest : List SItem) (p : VV × Event × List SItem)
    (h : skipIf t v e rest = some p) : SItem.bad ∈ rest → SItem.bad ∈ p.2.2 := by
  unfold skipIf at h
  split at h
  · split at h
    · simp at h
      intro hb
      subst h
      simpa using hb
    · simp at h
  · simp at h
    subst h
    exact id

theorem skipBoth_bad (v : VV) (e : Event) (rest : List SItem) (p : VV × Event × List SItem)
    (h : skipBoth v e rest = some p) : SItem.bad ∈ rest → SItem.bad ∈ p.2.2 := by
  unfold skipBoth at h
  split at h
  · simp at h
  · rename_i q hq
    intro hb
    exact skipIf_bad _ _ _ _ _ h (skipIf_bad _ _ _ _ _ hq hb)

theorem cmpLoop_bad (fuel : Nat) (v1 v2 : VV) (a b : List SItem) (hb : SItem.bad ∈ a ∨ SItem.bad ∈ b) :
    cmpLoop fuel v1 v2 a b ≠ some true := by
  induction fuel generalizing v1 v2 a b with
  | zero => simp [cmpLoop]
  | succ n ih =>
    cases a with
    | nil =>
      cases b with
      | nil => simp at hb
      | cons y rb =>
        cases y with
        | bad => simp [cmpLoop]
        | ev e2 =>
          simp only [cmpLoop]
          have hb' : SItem.bad ∈ ([] : List SItem) ∨ SItem.bad ∈ rb := by simpa using hb
          split
          · rename_i r hr
            unfold afterIter at hr
            split at hr
            · simp at hr
            · split at hr <;> simp at hr <;> subst hr <;> simp
          · exact ih _ _ _ _ hb'
    | cons x ra =>
      cases x with
      | bad => cases b with
        | nil => simp [cmpLoop]
        | cons y rb => cases y <;> simp [cmpLoop]
      | ev e1 =>
        cases b with
        | nil =>
          simp only [cmpLoop]
          have hb' : SItem.bad ∈ ra ∨ SItem.bad ∈ ([] : List SItem) := by simpa using hb
          split
          · rename_i r hr
            unfold afterIter at hr
            split at hr
            · simp at hr
            · split at hr <;> simp at hr <;> subst hr <;> simp
          · exact ih _ _ _ _ hb'
        | cons y rb =>
          cases y with
          | bad => simp [cmpLoop]
          | ev e2 =>
            have hb' : SItem.bad ∈ ra ∨ SItem.bad ∈ rb := by simpa using hb
            simp only [cmpLoop]
            split
            · split
              · rename_i r hr
                unfold afterIter at hr
                split at hr
                · simp at hr
                · split at hr <;> simp at hr <;> subst hr <;> simp
              · exact ih _ _ _ _ hb'
            · split
              · rename_i p1 p2 h1 h2
                split
                · split
                  · split
                    · rename_i r hr
                      unfold afterIter at hr
                      split at hr
                      · simp at hr
                      · split at hr <;> simp at hr <;> subst hr <;> simp
                    · apply ih
                      rcases hb' with h | h
                      · exact Or.inl (skipBoth_bad _ _ _ _ h1 h)
                      · exact Or.inr (skipBoth_bad _ _ _ _ h2 h)
                  · simp
                · simp
              · simp

/-! ## symmetry -/

theorem cmpLoop_symm (fuel : Nat) (v1 v2 : VV) (a b : List SItem) :
    cmpLoop fuel v1 v2 a b = cmpLoop fuel v2 v1 b a := by
  induction fuel generalizing v1 v2 a b with
  | zero => simp [cmpLoop]
  | succ n ih =>
    cases a with
    | nil =>
      cases b with
      | nil => simp [cmpLoop, VV.beq_symm v1 v2]
      | cons y rb =>
        cases y with
        | bad => simp [cmpLoop]
        | ev e2 =>
          simp only [cmpLoop]
          rw [afterIter_symm, ih]
    | cons x ra =>
      cases x with
      | bad =>
        cases b with
        | nil => simp [cmpLoop]
        | cons y rb => cases y <;> simp [cmpLoop]
      | ev e1 =>
        cases b with
        | nil =>
          simp only [cmpLoop]
          rw [afterIter_symm, ih]
        | cons y rb =>
          cases y with
          | bad => simp [cmpLoop]
          | ev e2 =>
            simp only [cmpLoop]
            rw [Event.beq_symm e1 e2, afterIter_symm, ih]
            split
            · rfl
            · cases h1 : skipBoth v1 e1 ra with
              | none => cases h2 : skipBoth v2 e2 rb <;> simp
              | some p1 =>
                cases h2 : skipBoth v2 e2 rb with
                | none => simp
                | some p2 =>
                  simp only []
                  rw [Event.beq_symm p1.2.1 p2.2.1, afterIter_symm, ih]
                  by_cases hf : (p1.1.feed p1.2.1).2 = (p2.1.feed p2.2.1).2
                  · have hf' : (p2.1.feed p2.2.1).2 = (p1.1.feed p1.2.1).2 := hf.symm
                    rw [if_pos hf, if_pos hf']
                  · have hf' : ¬ (p2.1.feed p2.2.1).2 = (p1.1.feed p1.2.1).2 := fun e => hf e.symm
                    rw [if_neg hf, if_neg hf']

/-! ## the public functions -/

theorem stream_bad (p : List Event × Term) : SItem.bad ∈ stream p ↔ p.2 ≠ .fin := by
  unfold stream
  by_cases h : p.2 = .fin <;> simp [h]

theorem stream_length (p : List Event × Term) : (stream p).length ≤ p.1.length + 1 := by
  unfold stream
  by_cases h : p.2 = .fin <;> simp [h]

theorem VV.init_beq : (({} : VV).beq {}) = true := by decide


/-! ## streams that agree event by event (the same tokens in any spelling, the same layout of bodies) -/

/-- Two stream items agree: both error items, or events that compare equal. -/
def itemAgree : SItem → SItem → Bool
  | .ev e, .ev f => e.beq f
  | .bad, .bad => true
  | _, _ => false

/-- Two streams agree item by item. -/
def streamsAgree : List SItem → List SItem → Bool
  | [], [] => true
  | x :: a, y :: b => itemAgree x y && streamsAgree a b
  | _, _ => false

theorem cmpLoop_agree (fuel : Nat) (v : VV) (a b : List SItem) (hf : a.length < fuel) (hv : v.beq v = true)
    (h : streamsAgree a b = true) : cmpLoop fuel v v a b = none ∨ cmpLoop fuel v v a b = some true := by
  induction fuel generalizing v a b with
  | zero => omega
  | succ n ih =>
    cases a with
    | nil =>
      cases b with
      | nil => simp [cmpLoop, hv]
      | cons y rb => simp [streamsAgree] at h
    | cons x ra =>
      cases b with
      | nil => simp [streamsAgree] at h
      | cons y rb =>
        simp only [streamsAgree, Bool.and_eq_true] at h
        cases x with
        | bad => cases y <;> simp [itemAgree] at h <;> simp [cmpLoop]
        | ev e =>
          cases y with
          | bad => simp [itemAgree] at h
          | ev f =>
            have hef : e.beq f = true := by simpa [itemAgree] using h.1
            simp only [cmpLoop, hef, ↓reduceIte]
            rw [← VV.feed_congr v e f hef]
            rcases afterIter_self (v.feed e).1 with h' | h'
            · rw [h']
              exact ih _ ra rb (by simp at hf; omega) (afterIter_none _ _ h') h.2
            · rw [h']; simp

theorem incrementalCompare_agree (a b : List SItem) (h : streamsAgree a b = true) :
    incrementalCompare a b = none ∨ incrementalCompare a b = some true :=
  cmpLoop_agree _ _ _ _ (by omega) VV.init_beq h

theorem incrementalCompare_refl (s : List SItem) :
    incrementalCompare s s = none ∨ incrementalCompare s s = some true :=
  cmpLoop_refl _ _ _ (by omega) VV.init_beq

theorem incrementalCompare_symm (a b : List SItem) : incrementalCompare a b = incrementalCompare b a := by
  unfold incrementalCompare
  rw [cmpLoop_symm, Nat.add_comm a.length b.length]

theorem incrementalCompare_bad (a b : List SItem) (hb : SItem.bad ∈ a ∨ SItem.bad ∈ b) :
    incrementalCompare a b ≠ some true := cmpLoop_bad _ _ _ _ _ hb

theorem compareRecon_refl (a : List Char) : compareRecon a a = true := by
  unfold compareRecon compareOf
  rcases incrementalCompare_refl (stream (eventsOf (run a))) with h | h <;> simp [h]

theorem compareRecon_symm (a b : List Char) : compareRecon a b = compareRecon b a := by
  unfold compareRecon compareOf
  rw [incrementalCompare_symm, beq_comm' a b]

theorem compareRecon_invalid (a b : List Char) (h : (events a).2 ≠ .fin ∨ (events b).2 ≠ .fin) :
    compareRecon a b = (a == b) := by
  by_cases hab : a = b
  · subst hab
    simp [compareRecon_refl]
  · have hne : (a == b) = false := by simp [hab]
    have hb : SItem.bad ∈ stream (events a) ∨ SItem.bad ∈ stream (events b) := by
      rcases h with h | h
      · exact Or.inl ((stream_bad _).2 h)
      · exact Or.inr ((stream_bad _).2 h)
    have := incrementalCompare_bad _ _ hb
    unfold compareRecon compareOf
    rw [hne]
    change (match incrementalCompare (stream (events a)) (stream (events b)) with
      | some r => r
      | none => false) = false
    cases hc : incrementalCompare (stream (events a)) (stream (events b)) with
    | none => rfl
    | some r =>
      cases r with
      | false => rfl
      | true => exact absurd hc this

end SwimVerif.ReconEq

namespace SwimVerif.ReconEq
open SwimVerif.Recon

/-! ## canonical streams of equal values agree event by event -/

theorem evsAgree_refl (a : List Event) : evsAgree a a = true := by
  induction a with
  | nil => rfl
  | cons e r ih => simp [evsAgree, Event.beq_refl, ih]

theorem evsAgree_append (a a' b b' : List Event) (h1 : evsAgree a a' = true) (h2 : evsAgree b b' = true) :
    evsAgree (a ++ b) (a' ++ b') = true := by
  induction a generalizing a' with
  | nil => cases a' <;> simp [evsAgree] at h1 ⊢; exact h2
  | cons e r ih =>
    cases a' with
    | nil => simp [evsAgree] at h1
    | cons f r' =>
      simp only [evsAgree, Bool.and_eq_true, List.cons_append] at h1 ⊢
      exact ⟨h1.1, ih r' h1.2⟩

theorem evsAgree_cons (e f : Event) (a b : List Event) (h1 : e.beq f = true) (h2 : evsAgree a b = true) :
    evsAgree (e :: a) (f :: b) = true := by simp [evsAgree, h1, h2]

theorem streamsAgree_of_evs (a b : List Event) (h : evsAgree a b = true) :
    streamsAgree (stream (a, .fin)) (stream (b, .fin)) = true := by
  simp only [stream, ↓reduceIte, List.append_nil]
  induction a generalizing b with
  | nil => cases b <;> simp [evsAgree] at h ⊢; rfl
  | cons e r ih =>
    cases b with
    | nil => simp [evsAgree] at h
    | cons f r' =>
      simp only [evsAgree, Bool.and_eq_true] at h
      simp only [List.map_cons, streamsAgree, itemAgree, h.1, Bool.true_and]
      exact ih r' h.2

mutual
theorem evsV_agree : (v w : Value) → veq v w = true → evsAgree (evsV v) (evsV w) = true
  | .extant, w, h => by cases w <;> simp [veq] at h; rfl
  | .int k n, w, h => by
    cases w <;> simp [veq] at h
    subst h; exact evsAgree_refl _
  | .float f, w, h => by
    cases w <;> simp [veq] at h
    simp [evsV, evsAgree, Event.beq, Num.beq, h]
  | .bool b, w, h => by
    cases w <;> simp [veq] at h
    subst h; exact evsAgree_refl _
  | .text s, w, h => by
    cases w <;> simp [veq] at h
    subst h; exact evsAgree_refl _
  | .data bs, w, h => by
    cases w <;> simp [veq] at h
    subst h; exact evsAgree_refl _
  | .record a i, w, h => by
    cases w <;> simp [veq] at h
    simp only [evsV]
    exact evsAgree_append _ _ _ _ (evsA_agree a _ h.1)
      (evsAgree_cons _ _ _ _ rfl (evsAgree_append _ _ _ _ (evsI_agree i _ h.2) (evsAgree_refl _)))
theorem body_agree : (v w : Value) → veq v w = true → evsAgree (bodyEvs v) (bodyEvs w) = true
  | .extant, w, h => by cases w <;> simp [veq] at h; rfl
  | .int k n, w, h => by
    have := evsV_agree (.int k n) w h
    cases w <;> simp [veq] at h
    simpa [bodyEvs] using this
  | .float f, w, h => by
    have := evsV_agree (.float f) w h
    cases w <;> simp [veq] at h
    simpa [bodyEvs] using this
  | .bool b, w, h => by
    have := evsV_agree (.bool b) w h
    cases w <;> simp [veq] at h
    simpa [bodyEvs] using this
  | .text s, w, h => by
    have := evsV_agree (.text s) w h
    cases w <;> simp [veq] at h
    simpa [bodyEvs] using this
  | .data bs, w, h => by
    have := evsV_agree (.data bs) w h
    cases w <;> simp [veq] at h
    simpa [bodyEvs] using this
  | .record a i, w, h => by
    have := evsV_agree (.record a i) w h
    cases w <;> simp [veq] at h
    simpa [bodyEvs] using this
theorem evsA_agree : (a b : Attrs) → aeq a b = true → evsAgree (evsA a) (evsA b) = true
  | .nil, b, h => by cases b <;> simp [aeq] at h; rfl
  | .cons n v r, b, h => by
    cases b with
    | nil => simp [aeq] at h
    | cons n' v' r' =>
      simp only [aeq, Bool.and_eq_true, beq_iff_eq] at h
      obtain ⟨⟨hn, hv⟩, hr⟩ := h
      subst hn
      rw [evsA_cons, evsA_cons]
      exact evsAgree_append _ _ _ _
        (evsAgree_cons _ _ _ _ (Event.beq_refl _) (evsAgree_append _ _ _ _ (body_agree v v' hv) (evsAgree_refl _)))
        (evsA_agree r r' hr)
theorem evsI_agree : (i j : Items) → ieq i j = true → evsAgree (evsI i) (evsI j) = true
  | .nil, j, h => by cases j <;> simp [ieq] at h; rfl
  | .val v r, j, h => by
    cases j with
    | nil => simp [ieq] at h
    | slot _ _ _ => simp [ieq] at h
    | val v' r' =>
      simp only [ieq, Bool.and_eq_true] at h
      simp only [evsI]
      exact evsAgree_append _ _ _ _ (evsV_agree v v' h.1) (evsI_agree r r' h.2)
  | .slot k v r, j, h => by
    cases j with
    | nil => simp [ieq] at h
    | val _ _ => simp [ieq] at h
    | slot k' v' r' =>
      simp only [ieq, Bool.and_eq_true] at h
      simp only [evsI]
      exact evsAgree_append _ _ _ _ (evsV_agree k k' h.1.1)
        (evsAgree_cons _ _ _ _ rfl (evsAgree_append _ _ _ _ (evsV_agree v v' h.1.2) (evsI_agree r r' h.2)))
end

/-- Canonical streams of equal values never compare `Some(false)`. -/
theorem canonical_complete (v w : Value) (h : veq v w = true) :
    incrementalCompare (stream (evsV v, .fin)) (stream (evsV w, .fin)) = none ∨
    incrementalCompare (stream (evsV v, .fin)) (stream (evsV w, .fin)) = some true :=
  incrementalCompare_agree _ _ (streamsAgree_of_evs _ _ (evsV_agree v w h))

end SwimVerif.ReconEq
