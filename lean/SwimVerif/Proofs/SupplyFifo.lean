import SwimVerif.Proofs.UplinkFlow

set_option linter.unusedSimpArgs false
set_option linter.unusedVariables false
namespace SwimVerif.WT

/-! ### C14: a supply lane's items reach the remote exactly once, in order -/

/-- Operations compatible with "lane `l` is a supply lane that stays linked": it is never unlinked, and only
supply items / supply `synced` are pushed for it. -/
def supplyOp (l : Nat) : UOp → Prop
  | .special a => ∀ m, a ≠ .unlinked l m
  | .push lane r => lane = l → (∃ b, r = .supply b) ∨ r = .synced .supply
  | .done => True

structure SInv (l : Nat) (s : USys) : Prop where
  fifo : bodiesFor l s.sent ++ bufSupply s.up l = pushedBodies l s.pushed
  nov : bufValue s.up l = []
  nom : bufMap s.up l = []

theorem sinv_init (l : Nat) : SInv l {} := by
  constructor <;> simp [USys.sent, bodiesFor, bufSupply, bufValue, bufMap, alGet, pushedBodies]

theorem sinv_step (reg : Registry) (l : Nat) {s : USys} (hu : UInv s) (h : SInv l s) (op : UOp)
    (hop : supplyOp l op) : SInv l (ustep reg s op) := by
  cases op with
  | special a =>
    simp only [ustep]
    obtain ⟨e1, e2, e3⟩ := bufs_pushSpecial s.up a reg l hop
    refine ⟨?_, by rw [e1]; exact h.nov, by rw [e3]; exact h.nom⟩
    rw [sent_eq, e2]
    simp only []
    have hw := write_pushSpecial s.up a reg l
    have hf := h.fifo
    rw [sent_eq] at hf
    cases hr : (s.up.pushSpecial a reg).2 with
    | none => simp only [hr]; exact hf
    | some w =>
      simp only [hr] at hw ⊢
      rw [hw]
      -- a special write is produced only when the writer was home, i.e. nothing was in flight
      have hhome : s.up.writerHome = true := by
        cases hh : s.up.writerHome with
        | true => rfl
        | false => simp [Uplinks.pushSpecial, hh] at hr
      have hin := hu.w.mp hhome
      rw [hin] at hf
      simpa [writeBodies] using hf
  | push lane resp =>
    simp only [ustep]
    have hf := h.fifo
    rw [sent_eq] at hf
    by_cases hl : lane = l
    · subst hl
      cases hh : s.up.writerHome with
      | true =>
        obtain ⟨e1, e2, e3, e4⟩ := push_home s.up lane resp reg lane hh
        have hin := hu.w.mp hh
        obtain ⟨b1, b2, b3⟩ := bufs_empty_of_home hu hh lane
        refine ⟨?_, by rw [e1]; exact h.nov, by rw [e3]; exact h.nom⟩
        rw [sent_eq, e2, pushedBodies_append, pushedBodies_single]
        simp only [if_true]
        rw [hin] at hf
        simp only [writeBodies, List.append_nil, b2] at hf
        have hw : (s.up.push lane resp reg).2 = some ⟨reg.nameFor lane, directNotes resp, some lane⟩ := by
          simp [Uplinks.push, hh]
        simp only [hw]
        rw [← hw, e4, b2]
        simp only [if_true, List.append_nil]
        rw [hf]
      | false =>
        rcases hop rfl with ⟨b, rfl⟩ | rfl
        · obtain ⟨e1, e2, e3, e4⟩ := push_away_supply s.up lane b reg hh
          refine ⟨?_, by rw [e1]; exact h.nov, by rw [e3]; exact h.nom⟩
          rw [sent_eq, e2, pushedBodies_append, pushedBodies_single]
          have hw : (s.up.push lane (.supply b) reg).2 = none := by simp [Uplinks.push, hh]
          simp only [hw, if_true, respBody?, Option.toList]
          rw [← List.append_assoc, hf]
        · obtain ⟨e1, e2, e3, e4⟩ := push_away_synced s.up lane .supply reg hh
          refine ⟨?_, by rw [e1]; exact h.nov, by rw [e3]; exact h.nom⟩
          rw [sent_eq, e2, pushedBodies_append, pushedBodies_single]
          have hw : (s.up.push lane (.synced .supply) reg).2 = none := by
            simp [Uplinks.push, hh]
          simp only [hw, if_true, respBody?, Option.toList, List.append_nil]
          exact hf
    · obtain ⟨e1, e2, e3, e4⟩ := push_other s.up lane resp reg l hl
      refine ⟨?_, by rw [e1]; exact h.nov, by rw [e3]; exact h.nom⟩
      rw [sent_eq, e2, pushedBodies_append, pushedBodies_single]
      simp only [hl, if_false, List.append_nil]
      cases hr : (s.up.push lane resp reg).2 with
      | none => simp only [hr]; exact hf
      | some w =>
        simp only [hr] at e4 ⊢
        rw [e4]
        have hhome : s.up.writerHome = true := by
          cases hh : s.up.writerHome with
          | true => rfl
          | false =>
            cases resp with
            | synced k => cases k <;> simp [Uplinks.push, hh] at hr
            | value b => simp [Uplinks.push, hh] at hr
            | supply b => simp [Uplinks.push, hh] at hr
            | map op => simp [Uplinks.push, hh] at hr
        have hin := hu.w.mp hhome
        rw [hin] at hf
        simpa [writeBodies] using hf
  | done =>
    simp only [ustep]
    cases hi : s.inflight with
    | none => simpa [hi] using h
    | some w =>
      simp only []
      obtain ⟨wv, ws, wm, hw, hv, hs, hm⟩ := (split_replaceAndPop s.up reg l).ex
      rw [h.nov] at hv
      rw [h.nom] at hm
      have hv' : wv = [] ∧ bufValue (s.up.replaceAndPop reg).1 l = [] := by
        simpa [List.append_eq_nil_iff] using hv
      have hm' : wm = [] ∧ bufMap (s.up.replaceAndPop reg).1 l = [] := by
        simpa [List.append_eq_nil_iff] using hm
      refine ⟨?_, hv'.2, hm'.2⟩
      rw [sent_eq]
      simp only []
      rw [bodiesFor_append, hw, hv'.1, hm'.1]
      simp only [List.nil_append, List.append_nil]
      have hf := h.fifo
      rw [sent_eq, hi] at hf
      simp only [writeBodies] at hf
      rw [List.append_assoc, hs, hf]

theorem sinv_run (reg : Registry) (l : Nat) : ∀ (ops : List UOp) (s : USys), UInv s → SInv l s →
    (∀ op, op ∈ ops → supplyOp l op) → SInv l (urun reg s ops) := by
  intro ops
  induction ops with
  | nil => intro s _ h _; exact h
  | cons op rest ih =>
    intro s hu h hall
    exact ih _ (uinv_step reg hu op) (sinv_step reg l hu h op (hall op List.mem_cons_self))
      (fun o ho => hall o (List.mem_cons_of_mem _ ho))

end SwimVerif.WT
