/-
Helper lemmas for C18 (route patterns): percent codec round trip, `split('/')` of a rendered route,
`apply`/`unapply_parts` inversion, non-empty bindings, completeness of the ambiguity check.
-/
import SwimVerif.Model.RouteMon

set_option linter.unusedSimpArgs false
set_option linter.unusedVariables false
namespace SwimVerif.Route

/-! ### percent codec -/
theorem hexDig_hexUp : ∀ n, n < 16 → hexDig (hexUp n) = some n := by decide

theorem pctDecode_cons_ne (b : Nat) (tl : Bytes) (h : b ≠ 37) : pctDecode (b :: tl) = b :: pctDecode tl := by
  rw [pctDecode]
  intro _ _ _ hb _
  exact h hb

theorem pctDecode_esc (h l : Nat) (x y : Nat) (rest : Bytes) (hx : hexDig h = some x) (hy : hexDig l = some y) :
    pctDecode (37 :: h :: l :: rest) = (x * 16 + y) :: pctDecode rest := by
  rw [pctDecode]
  simp [hx, hy]

theorem shouldEncode_37 : shouldEncode 37 = true := by decide

theorem pctDecode_encByte (b : Nat) (hb : b < 256) (rest : Bytes) :
    pctDecode (encByte b ++ rest) = b :: pctDecode rest := by
  unfold encByte
  split
  · have h1 : b / 16 < 16 := by omega
    have h2 : b % 16 < 16 := by omega
    simp only [List.cons_append, List.nil_append]
    rw [pctDecode_esc _ _ _ _ _ (hexDig_hexUp _ h1) (hexDig_hexUp _ h2)]
    congr 1
    omega
  · rename_i hne
    have : b ≠ 37 := by
      intro h; subst h; exact hne shouldEncode_37
    simp only [List.cons_append, List.nil_append]
    exact pctDecode_cons_ne _ _ this

theorem pct_roundtrip (bs : Bytes) (hb : ∀ b ∈ bs, b < 256) : pctDecode (pctEncode bs) = bs := by
  induction bs with
  | nil => rfl
  | cons b rest ih =>
    simp only [pctEncode]
    rw [pctDecode_encByte b (hb b (by simp))]
    rw [ih (fun x hx => hb x (by simp [hx]))]

/-! ### `split` of a joined route -/
theorem splitSlash_ne_nil (bs : Bytes) : splitSlash bs ≠ [] := by
  induction bs with
  | nil => simp [splitSlash]
  | cons b tl ih =>
    simp only [splitSlash]
    split
    · split <;> simp
    · simp

theorem splitSlash_slash (tl : Bytes) : splitSlash (47 :: tl) = [] :: splitSlash tl := by
  simp only [splitSlash]
  split
  · rename_i h; simp [h]
  · rename_i h; exact absurd h (splitSlash_ne_nil tl)

/-- A `/`-free prefix is glued to the first item. -/
theorem splitSlash_append (x t : Bytes) (hx : ∀ b ∈ x, b ≠ 47) :
    splitSlash (x ++ t) = (x ++ (splitSlash t).headD []) :: (splitSlash t).tail := by
  induction x with
  | nil =>
    cases h : splitSlash t with
    | nil => exact absurd h (splitSlash_ne_nil t)
    | cons c m => simp [h]
  | cons b x ih =>
    have hb : b ≠ 47 := hx b (by simp)
    have ih' := ih (fun c hc => hx c (by simp [hc]))
    simp only [List.cons_append, splitSlash]
    rw [ih']
    simp [hb]

/-- `route` text of segments that have all been rendered: every item preceded by `/` except a relative first. -/
def joinParts (absolute : Bool) : Bool → List Bytes → Bytes
  | _, [] => []
  | first, x :: xs => (if !first || absolute then [47] else []) ++ x ++ joinParts absolute false xs

theorem splitSlash_join_false (absolute : Bool) (xs : List Bytes) (hx : ∀ x ∈ xs, ∀ b ∈ x, b ≠ 47) :
    splitSlash (joinParts absolute false xs) = [] :: xs := by
  induction xs with
  | nil => simp [joinParts, splitSlash]
  | cons x xs ih =>
    have ih' := ih (fun y hy => hx y (by simp [hy]))
    simp only [joinParts, Bool.not_false, Bool.true_or, ↓reduceIte, List.cons_append, List.nil_append]
    rw [splitSlash_slash, splitSlash_append x _ (hx x (by simp)), ih']
    simp

theorem splitSlash_join_abs (x : Bytes) (xs : List Bytes) (hx : ∀ y ∈ x :: xs, ∀ b ∈ y, b ≠ 47) :
    splitSlash (joinParts true true (x :: xs)) = [] :: x :: xs := by
  simp only [joinParts, Bool.not_true, Bool.or_true, ↓reduceIte, List.cons_append, List.nil_append]
  rw [splitSlash_slash, splitSlash_append x _ (hx x (by simp)),
    splitSlash_join_false true xs (fun y hy => hx y (by simp [hy]))]
  simp

theorem splitSlash_join_rel (x : Bytes) (xs : List Bytes) (hx : ∀ y ∈ x :: xs, ∀ b ∈ y, b ≠ 47) :
    splitSlash (joinParts false true (x :: xs)) = x :: xs := by
  simp only [joinParts, Bool.not_true, Bool.or_false, Bool.false_eq_true, ↓reduceIte, List.nil_append]
  rw [splitSlash_append x _ (hx x (by simp)),
    splitSlash_join_false false xs (fun y hy => hx y (by simp [hy]))]
  simp

/-! ### `apply` then `unapply_parts` -/
def valOf (m : KV) (n : Bytes) : Bytes := (kvGet n m).getD []

def partOf (m : KV) : Seg → Bytes
  | .lit l => l
  | .param n => pctEncode (valOf m n)

/-- Pattern side of `PatWF` used by the inversion theorem. -/
def Seg.rtOk : Seg → Bool
  | .lit l => !l.contains 47
  | .param n => pctNormal n && isStr n

/-- Map side: the parameter is bound to a non-empty string. -/
def Seg.bound (m : KV) : Seg → Bool
  | .lit _ => true
  | .param n => match kvGet n m with
    | some v => !v.isEmpty && isStr v && v.all (· < 256)
    | none => false

theorem applySegs_bound (m : KV) (absolute : Bool) (segs : List Seg) (first : Bool)
    (hb : ∀ s ∈ segs, s.bound m = true) :
    applySegs m absolute first segs = (joinParts absolute first (segs.map (partOf m)), []) := by
  induction segs generalizing first with
  | nil => rfl
  | cons s ss ih =>
    have ih' := ih false (fun t ht => hb t (by simp [ht]))
    have hs := hb s (by simp)
    cases s with
    | lit l => simp [applySegs, applySeg, ih', joinParts, partOf]
    | param n =>
      simp only [Seg.bound] at hs
      cases hg : kvGet n m with
      | none => simp [hg] at hs
      | some v =>
        simp only [hg, Bool.and_eq_true, Bool.not_eq_eq_eq_not, Bool.not_true] at hs
        simp [applySegs, applySeg, hg, hs.1.1, ih', joinParts, partOf, valOf]

theorem hexUp_ne_47 (n : Nat) : hexUp n ≠ 47 := by
  unfold hexUp; split <;> omega

theorem shouldEncode_47 : shouldEncode 47 = true := by decide

theorem pctEncode_no_slash (v : Bytes) : ∀ b ∈ pctEncode v, b ≠ 47 := by
  induction v with
  | nil => simp [pctEncode]
  | cons c rest ih =>
    intro b hb
    simp only [pctEncode, List.mem_append] at hb
    rcases hb with hb | hb
    · unfold encByte at hb
      split at hb
      · simp at hb
        rcases hb with rfl | rfl | rfl
        · omega
        · exact hexUp_ne_47 _
        · exact hexUp_ne_47 _
      · rename_i hne
        simp at hb
        subst hb
        intro h; subst h; exact hne shouldEncode_47
    · exact ih b hb

theorem partOf_no_slash (m : KV) (s : Seg) (hs : s.rtOk = true) : ∀ b ∈ partOf m s, b ≠ 47 := by
  cases s with
  | lit l =>
    simp only [Seg.rtOk, Bool.not_eq_eq_eq_not, Bool.not_true] at hs
    intro b hb h; subst h
    simp [partOf] at hb
    simp [hb] at hs
  | param n => exact pctEncode_no_slash _

def insAll (m : KV) : List Seg → KV → KV
  | [], acc => acc
  | .lit _ :: ss, acc => insAll m ss acc
  | .param n :: ss, acc => insAll m ss (kvInsert n (valOf m n) acc)

theorem isStr_lossy {v : Bytes} (h : isStr v = true) : lossy v = v := by
  simpa [isStr] using h

theorem unapplyParts_applied (m : KV) (segs : List Seg) (acc : KV)
    (hw : ∀ s ∈ segs, s.rtOk = true) (hb : ∀ s ∈ segs, s.bound m = true) :
    unapplyParts segs (segs.map (partOf m)) acc = some (insAll m segs acc) := by
  induction segs generalizing acc with
  | nil => rfl
  | cons s ss ih =>
    have ih' := fun a => ih a (fun t ht => hw t (by simp [ht])) (fun t ht => hb t (by simp [ht]))
    have hs := hb s (by simp)
    have hws := hw s (by simp)
    cases s with
    | lit l => simp [unapplyParts, partOf, insAll, ih']
    | param n =>
      simp only [Seg.bound] at hs
      cases hg : kvGet n m with
      | none => simp [hg] at hs
      | some v =>
        simp only [hg, Bool.and_eq_true, Bool.not_eq_eq_eq_not, Bool.not_true, List.all_eq_true,
          decide_eq_true_eq] at hs
        simp only [Seg.rtOk, Bool.and_eq_true, pctNormal, beq_iff_eq] at hws
        have hv : decodeLossy (pctEncode v) = v := by
          unfold decodeLossy; rw [pct_roundtrip v hs.2, isStr_lossy hs.1.2]
        have hn : decodeLossy n = n := by
          unfold decodeLossy; rw [hws.1, isStr_lossy hws.2]
        have hne : v.isEmpty = false := hs.1.1
        simp only [List.map_cons, partOf, valOf, hg, Option.getD_some, unapplyParts, hv, hn, hne, insAll]
        simpa [partOf, valOf] using ih' _

def segParams (segs : List Seg) : List Bytes := segs.filterMap Seg.name?

theorem kvInsert_fresh (k v : Bytes) (acc : KV) (h : ∀ e ∈ acc, e.1 ≠ k) : kvInsert k v acc = acc ++ [(k, v)] := by
  induction acc with
  | nil => rfl
  | cons e rest ih =>
    obtain ⟨k', v'⟩ := e
    have h1 : k' ≠ k := h (k', v') (by simp)
    simp [kvInsert, h1, ih (fun e he => h e (by simp [he]))]

theorem insAll_nodup (m : KV) (segs : List Seg) (acc : KV)
    (hnd : (segParams segs).Nodup) (hfresh : ∀ e ∈ acc, e.1 ∉ segParams segs) :
    insAll m segs acc = acc ++ (segParams segs).map (fun n => (n, valOf m n)) := by
  induction segs generalizing acc with
  | nil => simp [insAll, segParams]
  | cons s ss ih =>
    cases s with
    | lit l =>
      simp only [insAll]
      have : segParams (Seg.lit l :: ss) = segParams ss := by
        simp only [segParams]; rw [List.filterMap_cons]; rfl
      rw [this] at hnd hfresh ⊢
      exact ih acc hnd hfresh
    | param n =>
      have hp : segParams (Seg.param n :: ss) = n :: segParams ss := by simp [segParams, Seg.name?]
      rw [hp] at hnd hfresh ⊢
      simp only [insAll]
      rw [List.nodup_cons] at hnd
      rw [kvInsert_fresh n _ acc (fun e he h => hfresh e he (by simp [h]))]
      rw [ih _ hnd.2]
      · simp
      · intro e he
        simp only [List.mem_append, List.mem_singleton] at he
        rcases he with he | rfl
        · intro hin; exact hfresh e he (by simp [hin])
        · exact hnd.1

theorem mem_kvInsert {k v : Bytes} {acc : KV} {e : Bytes × Bytes} (h : e ∈ kvInsert k v acc) :
    e = (k, v) ∨ e ∈ acc := by
  induction acc with
  | nil => simp [kvInsert] at h; exact Or.inl h
  | cons x rest ih =>
    obtain ⟨k', v'⟩ := x
    simp only [kvInsert] at h
    split at h
    · simp at h; rcases h with h | h
      · exact Or.inl h
      · exact Or.inr (by simp [h])
    · simp at h; rcases h with h | h
      · exact Or.inr (by simp [h])
      · rcases ih h with h | h
        · exact Or.inl h
        · exact Or.inr (by simp [h])

theorem unapplyParts_nonempty (segs : List Seg) (parts : List Bytes) (acc r : KV)
    (h : unapplyParts segs parts acc = some r) (hacc : ∀ e ∈ acc, e.2 ≠ []) : ∀ e ∈ r, e.2 ≠ [] := by
  induction segs generalizing parts acc with
  | nil =>
    cases parts with
    | nil => simp [unapplyParts] at h; subst h; exact hacc
    | cons p ps => simp [unapplyParts] at h
  | cons s ss ih =>
    cases parts with
    | nil => cases s <;> simp [unapplyParts] at h
    | cons p ps =>
      cases s with
      | lit l =>
        simp only [unapplyParts] at h
        split at h
        · exact ih ps acc h hacc
        · simp at h
      | param n =>
        simp only [unapplyParts] at h
        split at h
        · simp at h
        · rename_i hne
          apply ih ps _ h
          intro e he
          rcases mem_kvInsert he with rfl | he
          · intro h0; simp at h0; simp [h0] at hne
          · exact hacc e he

/-! ### ambiguity -/

/-- Two segment lists that both match one list of parts are reported ambiguous, when literals are compared
percent-decoded. -/
theorem ambSegs_complete (s1 s2 : List Seg) (parts : List Bytes) (a1 a2 r1 r2 : KV)
    (h1 : unapplyParts s1 parts a1 = some r1) (h2 : unapplyParts s2 parts a2 = some r2) :
    ambSegs s1 s2 = true := by
  induction s1 generalizing s2 parts a1 a2 with
  | nil =>
    cases parts with
    | nil =>
      cases s2 with
      | nil => rfl
      | cons t ts => cases t <;> simp [unapplyParts] at h2
    | cons p ps => simp [unapplyParts] at h1
  | cons s ss ih =>
    cases parts with
    | nil => cases s <;> simp [unapplyParts] at h1
    | cons p ps =>
      cases s2 with
      | nil => simp [unapplyParts] at h2
      | cons t ts =>
        cases s with
        | lit l =>
          simp only [unapplyParts] at h1
          split at h1
          · rename_i hl
            cases t with
            | lit l2 =>
              simp only [unapplyParts] at h2
              split at h2
              · rename_i hl2
                simp only [ambSegs, ← hl, ← hl2, ↓reduceIte]
                exact ih ts ps a1 a2 h1 h2
              · simp at h2
            | param n2 =>
              simp only [unapplyParts] at h2
              split at h2
              · simp at h2
              · simp only [ambSegs]; exact ih ts ps a1 _ h1 h2
          · simp at h1
        | param n =>
          simp only [unapplyParts] at h1
          split at h1
          · simp at h1
          · cases t with
            | lit l2 =>
              simp only [unapplyParts] at h2
              split at h2
              · simp only [ambSegs]; exact ih ts ps _ a2 h1 h2
              · simp at h2
            | param n2 =>
              simp only [unapplyParts] at h2
              split at h2
              · simp at h2
              · simp only [ambSegs]; exact ih ts ps _ _ h1 h2

theorem pctDecode_eq_nil {l : Bytes} (h : pctDecode l = []) : l = [] := by
  cases l with
  | nil => rfl
  | cons b tl =>
    unfold pctDecode at h
    split at h
    · split at h <;> simp at h
    · simp at h

def Seg.litNonempty : Seg → Bool
  | .lit l => !l.isEmpty
  | .param _ => true

theorem unapplyUri_parts {p : Pat} {sch : Option Bytes} {path : Bytes} {r : KV}
    (h : p.unapplyUri sch path = some r) :
    ∃ parts, unapplyParts p.segs parts [] = some r ∧
      ((p.absolute = true ∧ splitSlash path = [] :: parts) ∨ (p.absolute = false ∧ splitSlash path = parts)) := by
  unfold Pat.unapplyUri at h
  split at h
  · simp at h
  · simp only at h
    split at h
    · rename_i habs
      split at h
      · rename_i first rest hsp
        split at h
        · rename_i he
          have : first = [] := by simpa using he
          subst this
          exact ⟨rest, h, Or.inl ⟨habs, hsp⟩⟩
        · simp at h
      · simp at h
    · rename_i habs
      exact ⟨_, h, Or.inr ⟨by simpa using habs, rfl⟩⟩

theorem decodeLossy_nil : decodeLossy [] = [] := by decide

theorem unapplyParts_empty_first (segs : List Seg) (ps : List Bytes) (acc r : KV)
    (hne : ∀ s ∈ segs, s.litNonempty = true) (h : unapplyParts segs ([] :: ps) acc = some r) : False := by
  cases segs with
  | nil => simp [unapplyParts] at h
  | cons s ss =>
    cases s with
    | param n => simp [unapplyParts, decodeLossy_nil] at h
    | lit l =>
      simp only [unapplyParts] at h
      split at h
      · rename_i hl
        have : l = [] := pctDecode_eq_nil (by rw [← hl]; rfl)
        have hs := hne (.lit l) (by simp)
        simp [Seg.litNonempty, this] at hs
      · simp at h

theorem areAmbiguous_complete (p q : Pat) (sch : Option Bytes) (path : Bytes) (r1 r2 : KV)
    (lp : ∀ s ∈ p.segs, s.litNonempty = true) (lq : ∀ s ∈ q.segs, s.litNonempty = true)
    (hp : p.unapplyUri sch path = some r1) (hq : q.unapplyUri sch path = some r2) :
    areAmbiguous p q = true := by
  obtain ⟨ps1, h1, c1⟩ := unapplyUri_parts hp
  obtain ⟨ps2, h2, c2⟩ := unapplyUri_parts hq
  unfold areAmbiguous
  rcases c1 with ⟨_, e1⟩ | ⟨_, e1⟩ <;> rcases c2 with ⟨_, e2⟩ | ⟨_, e2⟩
  · have : ps1 = ps2 := by rw [e1] at e2; simpa using e2
    subst this
    exact ambSegs_complete _ _ _ _ _ _ _ h1 h2
  · rw [e1] at e2; subst e2
    exact (unapplyParts_empty_first _ _ _ _ lq h2).elim
  · rw [e2] at e1; subst e1
    exact (unapplyParts_empty_first _ _ _ _ lp h1).elim
  · have : ps1 = ps2 := by rw [e1] at e2; exact e2
    subst this
    exact ambSegs_complete _ _ _ _ _ _ _ h1 h2

/-! ### `RoutePattern::parse` invariants -/

/-- What `parse` guarantees about a finished segment. -/
def segGood (s : Segment) : Prop := s.str ≠ [] ∧ 47 ∉ s.str ∧ (s.parameter = true → 58 ∉ s.str)

/-- A first literal segment of a relative, scheme-less pattern cannot be read as `scheme:`. -/
def firstGood (s : Segment) : Prop :=
  s.parameter = false → ∃ b tl, s.str = b :: tl ∧ (isAlpha b = false ∨ 58 ∉ tl)

def curOk (segments : List Segment) (scheme : Option Bytes) (absolute : Bool) : PState → Prop
  | .start => segments = [] ∧ scheme = none ∧ absolute = false
  | .schemeOrLiteral _ acc =>
    segments = [] ∧ scheme = none ∧ absolute = false ∧ 47 ∉ acc ∧ 58 ∉ acc ∧ ∃ b tl, acc = b :: tl
  | .afterScheme => segments = [] ∧ scheme ≠ none
  | .segmentStart => segments = [] → scheme = none → absolute = false → False
  | .literal _ acc =>
    47 ∉ acc ∧ acc ≠ [] ∧
      (segments = [] → scheme = none → absolute = false → ∃ b tl, acc = b :: tl ∧ isAlpha b = false)
  | .parameter _ acc => 47 ∉ acc ∧ 58 ∉ acc
  | .failed _ => True

structure PInv (a : PAcc) : Prop where
  segs : ∀ s ∈ a.segments, segGood s
  cur : curOk a.segments a.scheme a.absolute a.st
  first : a.scheme = none → a.absolute = false → ∀ s rest, a.segments = s :: rest → firstGood s

theorem pinv_init : PInv {} := ⟨by simp, by simp [curOk], by simp⟩

theorem pinv_transition (a : PAcc) (c offset : Nat) (h : PInv a) : PInv (transition a c offset) := by
  obtain ⟨st, scheme, absolute, segments⟩ := a
  obtain ⟨hs, hc, hf⟩ := h
  simp only at hs hc hf
  cases st <;> simp only [curOk] at hc <;> simp only [transition] <;> (repeat' split) <;>
    first
    | (constructor <;> simp_all [curOk, segGood, firstGood] <;> done)
    | skip
  all_goals
    first
    | (refine ⟨?_, ?_, ?_⟩ <;> simp_all [curOk, segGood, firstGood, List.mem_append] <;> grind)
    | (refine ⟨?_, ?_, ?_⟩
       · simp_all [curOk, segGood, firstGood, List.mem_append] <;> grind
       · simp_all [curOk, segGood, firstGood, List.mem_append]
       · cases segments with
         | nil => simp_all [curOk, segGood, firstGood, List.mem_append] <;> grind
         | cons s0 rest0 =>
           intro h1 h2 s rest heq
           simp only [List.cons_append, List.cons.injEq] at heq
           exact hf h1 h2 s rest0 (by rw [heq.1]))


theorem pinv_loop (a : PAcc) (offset : Nat) (s : Bytes) (a' : PAcc) (off' : Nat)
    (h : parseLoop a offset s = .ok (a', off')) (hi : PInv a) : PInv a' := by
  induction s generalizing a offset with
  | nil => simp [parseLoop] at h; obtain ⟨rfl, rfl⟩ := h; exact hi
  | cons c rest ih =>
    simp only [parseLoop] at h
    split at h
    · simp at h
    · exact ih _ _ h (pinv_transition a c offset hi)

/-- Result of `ParseState::end`: every segment is good and the first one cannot be mistaken for a scheme. -/
theorem pinv_end (a : PAcc) (offset : Nat) (segs : List Segment) (hi : PInv a)
    (h : parseEnd a offset = .ok segs) :
    (∀ s ∈ segs, segGood s) ∧
      (a.scheme = none → a.absolute = false → ∀ s rest, segs = s :: rest → firstGood s) := by
  obtain ⟨st, scheme, absolute, segments⟩ := a
  obtain ⟨hs, hc, hf⟩ := hi
  simp only at hs hc hf
  cases st <;> simp only [curOk] at hc <;> simp only [parseEnd] at h <;> (repeat' split at h) <;>
    simp at h <;> subst h
  all_goals
    first
    | exact ⟨hs, hf⟩
    | (refine ⟨?_, ?_⟩
       · simp_all [segGood, firstGood, List.mem_append] <;> grind
       · cases segments with
         | nil => simp_all [segGood, firstGood, List.mem_append] <;> grind
         | cons s0 rest0 =>
           intro h1 h2 s rest heq
           simp only [List.cons_append, List.cons.injEq] at heq
           exact hf h1 h2 s rest0 (by rw [heq.1]))

def segNames (segs : List Segment) : List Bytes :=
  segs.filterMap fun s => if s.parameter then some s.str else none

theorem dupCheck_nodup (seen : List Bytes) (segs : List Segment) (h : dupCheck seen segs = .ok ()) :
    ((segNames segs).map decodeLossy).Nodup ∧ ∀ n ∈ (segNames segs).map decodeLossy, n ∉ seen := by
  induction segs generalizing seen with
  | nil => simp [segNames]
  | cons s rest ih =>
    simp only [dupCheck] at h
    split at h
    · rename_i hp
      split at h
      · simp at h
      · rename_i hns
        have := ih _ h
        have hn : segNames (s :: rest) = s.str :: segNames rest := by simp [segNames, hp]
        rw [hn, List.map_cons]
        refine ⟨List.nodup_cons.mpr ⟨?_, this.1⟩, ?_⟩
        · intro hin; exact (this.2 _ hin) (by simp)
        · intro n hn'
          simp only [List.mem_cons] at hn'
          rcases hn' with rfl | hn'
          · simpa using hns
          · intro hs; exact (this.2 n hn') (by simp [hs])
    · rename_i hp
      have hn : segNames (s :: rest) = segNames rest := by simp [segNames, hp]
      rw [hn]; exact ih _ h

theorem nodup_of_map_nodup {α β : Type} (f : α → β) (xs : List α) (h : (xs.map f).Nodup) : xs.Nodup := by
  induction xs with
  | nil => exact List.nodup_nil
  | cons x rest ih =>
    simp only [List.map_cons, List.nodup_cons] at h
    refine List.nodup_cons.mpr ⟨?_, ih h.2⟩
    intro hin; exact h.1 (List.mem_map.mpr ⟨x, hin, rfl⟩)

def Seg.structOk : Seg → Bool
  | .lit l => !l.isEmpty && !l.contains 47
  | .param n => !n.isEmpty && !n.contains 47 && !n.contains 58

/-- Everything `RoutePattern::parse` guarantees about an accepted pattern (names are pairwise different even
after percent-decoding). -/
def Pat.structOk (p : Pat) : Bool :=
  p.segs.all Seg.structOk && nodupB p.params && firstLitOk p && nodupB (p.params.map decodeLossy)

theorem nodup_nodupB (xs : List Bytes) (h : xs.Nodup) : nodupB xs = true := by
  induction xs with
  | nil => rfl
  | cons x rest ih =>
    rw [List.nodup_cons] at h
    simp [nodupB, ih h.2, h.1]

theorem toSeg_structOk (s : Segment) (h : segGood s) : s.toSeg.structOk = true := by
  obtain ⟨h1, h2, h3⟩ := h
  unfold Segment.toSeg
  split
  · rename_i hp; simp [Seg.structOk, h1, h2, h3 hp]
  · simp [Seg.structOk, h1, h2]

theorem params_map_toSeg (segs : List Segment) :
    (segs.map Segment.toSeg).filterMap Seg.name? = segNames segs := by
  induction segs with
  | nil => rfl
  | cons s rest ih =>
    simp only [List.map_cons, segNames] at ih ⊢
    rw [List.filterMap_cons, List.filterMap_cons, ih]
    unfold Segment.toSeg
    by_cases hp : s.parameter = true <;> simp [hp, Seg.name?]

theorem parsePattern_structOk (s : Bytes) (p : Pat) (h : parsePattern s = .ok p) : p.structOk = true := by
  unfold parsePattern at h
  split at h
  · simp at h
  · rename_i a offset hloop
    have hinv := pinv_loop _ _ _ _ _ hloop pinv_init
    split at h
    · simp at h
    · rename_i segments hend
      obtain ⟨hgood, hfirst⟩ := pinv_end a offset segments hinv hend
      split at h
      · simp at h
      · rename_i hdup
        simp only [Except.ok.injEq] at h
        subst h
        have hnd := (dupCheck_nodup [] segments hdup).1
        simp only [Pat.structOk, Bool.and_eq_true, List.all_eq_true, List.mem_map, forall_exists_index, and_imp,
          forall_apply_eq_imp_iff₂]
        refine ⟨⟨⟨fun s hs => toSeg_structOk s (hgood s hs), ?_⟩, ?_⟩, ?_⟩
        rotate_left
        rotate_left
        · apply nodup_nodupB
          simp only [Pat.params]
          rw [params_map_toSeg]; exact hnd
        · apply nodup_nodupB
          simp only [Pat.params]
          rw [params_map_toSeg]; exact nodup_of_map_nodup _ _ hnd
        · unfold firstLitOk
          simp only
          split
          · rename_i b tl rest hsch habs hsegs
            cases segments with
            | nil => simp at hsegs
            | cons s0 rest0 =>
              simp only [List.map_cons, List.cons.injEq] at hsegs
              have hf := hfirst hsch habs s0 rest0 rfl
              unfold Segment.toSeg at hsegs
              split at hsegs
              · simp at hsegs
              · rename_i hp
                simp only [Seg.lit.injEq] at hsegs
                obtain ⟨b', tl', hstr, hor⟩ := hf (by simpa using hp)
                rw [hsegs.1] at hstr
                simp only [List.cons.injEq] at hstr
                obtain ⟨rfl, rfl⟩ := hstr
                rcases hor with h | h <;> simp [h]
          · rfl

/-! ### plane -/

theorem buildOk_pairwise (ps : List Pat) (h : buildOk ps = true) :
    ps.Pairwise (fun p q => areAmbiguous p q = false) := by
  induction ps with
  | nil => exact List.Pairwise.nil
  | cons p rest ih =>
    simp only [buildOk, Bool.and_eq_true, List.all_eq_true, Bool.not_eq_eq_eq_not, Bool.not_true] at h
    exact List.Pairwise.cons (fun q hq => h.1 q hq) (ih h.2)

theorem findRoute_some (ps : List Pat) (sch : Option Bytes) (path : Bytes) (i : Nat) (kv : KV)
    (h : findRoute ps sch path = some (i, kv)) :
    ∃ p, ps[i]? = some p ∧ p.unapplyUri sch path = some kv := by
  induction ps generalizing i with
  | nil => simp [findRoute] at h
  | cons p rest ih =>
    simp only [findRoute] at h
    split at h
    · rename_i kv' hm
      simp at h
      obtain ⟨rfl, rfl⟩ := h
      exact ⟨p, by simp, hm⟩
    · cases hf : findRoute rest sch path with
      | none => simp [hf] at h
      | some r =>
        simp [hf] at h
        obtain ⟨rfl, rfl⟩ := h
        obtain ⟨q, hq, hm⟩ := ih r.1 hf
        exact ⟨q, by simpa using hq, hm⟩

/-! ### inversion at the level of `Pat` -/

/-- `PatWF` (decidable), the part the inversion needs: at least one segment, literals free of `/`, parameter names
that percent-decoding leaves alone (`apply` looks a name up raw, `unapply` reports it decoded) and that are
pairwise different. Everything except name normality is guaranteed by `RoutePattern::parse`. -/
def Pat.rtWf (p : Pat) : Bool := !p.segs.isEmpty && p.segs.all Seg.rtOk && nodupB p.params

/-- The map binds every parameter of the pattern to a non-empty string. -/
def Pat.boundBy (p : Pat) (m : KV) : Bool := p.segs.all (Seg.bound m)

theorem nodupB_nodup (xs : List Bytes) (h : nodupB xs = true) : xs.Nodup := by
  induction xs with
  | nil => exact List.nodup_nil
  | cons x rest ih =>
    simp only [nodupB, Bool.and_eq_true, Bool.not_eq_eq_eq_not, Bool.not_true] at h
    rw [List.nodup_cons]
    refine ⟨?_, ih h.2⟩
    intro hin
    simp only [List.contains_eq_mem, decide_eq_false_iff_not, decide_eq_true_eq] at h
    exact h.1 hin

/-- The path that `apply` writes. -/
def Pat.pathOf (p : Pat) (m : KV) : Bytes := joinParts p.absolute true (p.segs.map (partOf m))

theorem unapply_apply_core (p : Pat) (m : KV) (hwf : p.rtWf = true) (hb : p.boundBy m = true) :
    p.apply m = .ok (schemePrefix p.scheme ++ p.pathOf m) ∧
      ∀ sch, sch = p.scheme ∨ sch = none →
        p.unapplyUri sch (p.pathOf m) = some (p.params.map fun n => (n, valOf m n)) := by
  simp only [Pat.rtWf, Bool.and_eq_true, Bool.not_eq_eq_eq_not, Bool.not_true, List.all_eq_true] at hwf
  simp only [Pat.boundBy, List.all_eq_true] at hb
  obtain ⟨⟨hne, hw⟩, hnd⟩ := hwf
  have hnd' : (segParams p.segs).Nodup := nodupB_nodup _ hnd
  have happ := applySegs_bound m p.absolute p.segs true hb
  unfold Pat.pathOf
  refine ⟨?_, ?_⟩
  · simp [Pat.apply, happ]
  · intro sch hsch
    have hclash : schemeClash p.scheme sch = false := by
      rcases hsch with rfl | rfl
      · cases p.scheme <;> simp [schemeClash]
      · cases p.scheme <;> simp [schemeClash]
    have hun := unapplyParts_applied m p.segs [] hw hb
    rw [insAll_nodup m p.segs [] hnd' (by simp)] at hun
    have hslash : ∀ y ∈ p.segs.map (partOf m), ∀ b ∈ y, b ≠ 47 := by
      intro y hy
      simp only [List.mem_map] at hy
      obtain ⟨s, hs, rfl⟩ := hy
      exact partOf_no_slash m s (hw s hs)
    have hparams : segParams p.segs = p.params := rfl
    rw [hparams] at hun
    have hmapne : p.segs.map (partOf m) ≠ [] := by
      intro h0; simp at h0; simp [h0] at hne
    generalize p.segs.map (partOf m) = parts at hun hslash hmapne
    cases parts with
    | nil => exact absurd rfl hmapne
    | cons x xs =>
      unfold Pat.unapplyUri
      simp only [hclash, Bool.false_eq_true, ↓reduceIte]
      cases habs : p.absolute with
      | true =>
        simp only [↓reduceIte]
        rw [splitSlash_join_abs _ _ hslash]
        simpa using hun
      | false =>
        simp only [Bool.false_eq_true, ↓reduceIte]
        rw [splitSlash_join_rel _ _ hslash]
        simpa using hun

/-! ### the `RouteUri` parser on a rendered route -/

theorem pathChar_47 : pathChar 47 = false := by decide
theorem pathChar_37 : pathChar 37 = false := by decide
theorem schemaChar_58 : schemaChar 58 = false := by decide
theorem schemaChar_47 : schemaChar 47 = false := by decide
theorem isAlpha_47 : isAlpha 47 = false := by decide
theorem isAlpha_37 : isAlpha 37 = false := by decide
theorem isHex_hexUp : ∀ n, n < 16 → isHex (hexUp n) = true := by decide

theorem eatPath_slash (t : Bytes) : eatPath (47 :: t) = 47 :: t := by
  rw [eatPath.eq_def]; simp [pathChar_47]

theorem eatPath_path (b : Nat) (t : Bytes) (h : pathChar b = true) : eatPath (b :: t) = eatPath t := by
  rw [eatPath.eq_def]; simp [h]

theorem eatPath_esc (h l : Nat) (t : Bytes) (hh : isHex h = true) (hl : isHex l = true) :
    eatPath (37 :: h :: l :: t) = eatPath t := by
  rw [eatPath.eq_def]; simp [pathChar_37, hh, hl]

/-- A fully accepted prefix is skipped. -/
theorem eatPath_append (x t : Bytes) (hx : eatPath x = []) : eatPath (x ++ t) = eatPath t := by
  fun_induction eatPath x
  case case1 => rfl
  case case2 b tl hb ih => simp only [List.cons_append]; rw [eatPath_path _ _ hb]; exact ih hx
  case case3 h l rest hhl hb ih =>
    simp only [Bool.and_eq_true] at hhl
    simp only [List.cons_append]; rw [eatPath_esc _ _ _ hhl.1 hhl.2]; exact ih hx
  case case4 => simp at hx
  case case5 => simp at hx


/-- Bytes that survive `apply` + the URI parser: escaped by `apply`, or accepted raw by `is_path_char`. -/
def uriSafe (v : Bytes) : Bool := v.all fun b => shouldEncode b || pathChar b

/-- Table fact (re-checked against the source on every run): every ASCII byte is escaped by `apply` or accepted
raw by `is_path_char` — in particular `~`, which `URL_ENCODE` leaves alone. -/
theorem all_ascii_safe : ∀ b, b < 128 → (shouldEncode b || pathChar b) = true := by decide

theorem uriSafe_all (v : Bytes) : uriSafe v = true := by
  simp only [uriSafe, List.all_eq_true]
  intro b _
  by_cases hb : b < 128
  · exact all_ascii_safe b hb
  · have : shouldEncode b = true := by simp [shouldEncode]; left; omega
    simp [this]

theorem eatPath_encByte (b : Nat) (t : Bytes) (hb : b < 256) (hs : (shouldEncode b || pathChar b) = true) :
    eatPath (encByte b ++ t) = eatPath t := by
  unfold encByte
  split
  · simp only [List.cons_append, List.nil_append]
    exact eatPath_esc _ _ _ (isHex_hexUp _ (by omega)) (isHex_hexUp _ (by omega))
  · rename_i hne
    simp only [hne, Bool.false_or] at hs
    simp only [List.cons_append, List.nil_append]
    exact eatPath_path _ _ hs

theorem eatPath_pctEncode (v t : Bytes) (hb : ∀ b ∈ v, b < 256) (hs : uriSafe v = true) :
    eatPath (pctEncode v ++ t) = eatPath t := by
  induction v with
  | nil => rfl
  | cons b rest ih =>
    simp only [uriSafe, List.all_cons, Bool.and_eq_true] at hs
    simp only [pctEncode, List.append_assoc]
    rw [eatPath_encByte b _ (hb b (by simp)) hs.1]
    exact ih (fun c hc => hb c (by simp [hc])) (by simpa [uriSafe] using hs.2)

theorem segOk_pctEncode (v : Bytes) (hb : ∀ b ∈ v, b < 256) (hs : uriSafe v = true) : segOk (pctEncode v) = true := by
  have := eatPath_pctEncode v [] hb hs
  simp only [List.append_nil] at this
  simp [segOk, this, eatPath]

/-- `joinParts _ false xs` is empty or starts with `/`: `path_char` stops there. -/
theorem eatPath_join_false (absolute : Bool) (xs : List Bytes) :
    eatPath (joinParts absolute false xs) = joinParts absolute false xs := by
  cases xs with
  | nil => rfl
  | cons x xs => simp [joinParts, eatPath_slash]

theorem join_false_length (absolute : Bool) (xs : List Bytes) :
    xs.length ≤ (joinParts absolute false xs).length := by
  induction xs with
  | nil => simp [joinParts]
  | cons x xs ih => simp [joinParts]; omega

theorem eatMoreSegs_join (absolute : Bool) (xs : List Bytes) (fuel : Nat) (hf : xs.length ≤ fuel)
    (hx : ∀ x ∈ xs, segOk x = true) : eatMoreSegs fuel (joinParts absolute false xs) = [] := by
  induction xs generalizing fuel with
  | nil => cases fuel <;> simp [eatMoreSegs, joinParts]
  | cons x xs ih =>
    cases fuel with
    | zero => simp at hf
    | succ fuel =>
      have hxo : eatPath x = [] := by simpa [segOk] using hx x (by simp)
      simp only [joinParts, Bool.not_false, Bool.true_or, ↓reduceIte, List.cons_append, List.nil_append,
        List.append_assoc, eatMoreSegs]
      rw [eatPath_append x _ hxo, eatPath_join_false]
      exact ih fuel (by simpa using hf) (fun y hy => hx y (by simp [hy]))

theorem eatPathSegments_join (absolute : Bool) (x : Bytes) (xs : List Bytes) (hne : x ≠ [])
    (hx : ∀ y ∈ x :: xs, segOk y = true) :
    eatPathSegments (x ++ joinParts absolute false xs) = some [] := by
  have hxo : eatPath x = [] := by simpa [segOk] using hx x (by simp)
  unfold eatPathSegments
  simp only
  rw [eatPath_append x _ hxo, eatPath_join_false]
  have hlen : (joinParts absolute false xs).length < (x ++ joinParts absolute false xs).length := by
    cases x with
    | nil => exact absurd rfl hne
    | cons b tl => simp; omega
  simp only [hlen, ↓reduceIte]
  rw [eatMoreSegs_join absolute xs _ (join_false_length absolute xs) (fun y hy => hx y (by simp [hy]))]

theorem eatPathAll_join (absolute : Bool) (x : Bytes) (xs : List Bytes) (hne : x ≠ [])
    (hx : ∀ y ∈ x :: xs, segOk y = true) (hns : ∀ b ∈ x, b ≠ 47) :
    eatPathAll (joinParts absolute true (x :: xs)) = some [] := by
  cases absolute with
  | true =>
    simp only [joinParts, Bool.not_true, Bool.or_true, ↓reduceIte, List.cons_append, List.nil_append,
      List.append_assoc, eatPathAll]
    rw [eatPathSegments_join true x xs hne hx]
  | false =>
    simp only [joinParts, Bool.not_true, Bool.or_false, Bool.false_eq_true, ↓reduceIte, List.nil_append]
    cases x with
    | nil => exact absurd rfl hne
    | cons b tl =>
      have hb : b ≠ 47 := hns b (by simp)
      have := eatPathSegments_join false (b :: tl) xs hne hx
      simp only [List.cons_append] at this ⊢
      unfold eatPathAll
      split
      · rename_i heq; simp at heq; exact absurd heq.1 hb
      · exact this


theorem eatSchema_all (tl rest : Bytes) (h : tl.all schemaChar = true) :
    eatSchema (tl ++ 58 :: rest) = 58 :: rest := by
  induction tl with
  | nil => simp [eatSchema, schemaChar_58]
  | cons c tl ih =>
    simp only [List.all_cons, Bool.and_eq_true] at h
    simp [eatSchema, h.1, ih h.2]

theorem eatScheme_some (b : Nat) (tl rest : Bytes) (hb : isAlpha b = true) (h : tl.all schemaChar = true) :
    eatScheme (b :: tl ++ 58 :: rest) = some (b :: tl, rest) := by
  simp only [eatScheme, List.cons_append, hb, ↓reduceIte, eatSchema_all tl rest h]
  simp
  have : tl.length + (rest.length + 1) - rest.length = tl.length + 1 := by omega
  rw [this]
  simp [List.take_append]

theorem eatSchema_no_colon (tl rest : Bytes) (h : 58 ∉ tl) (hr : rest = [] ∨ ∃ r', rest = 47 :: r') :
    ∀ after, eatSchema (tl ++ rest) ≠ 58 :: after := by
  induction tl with
  | nil =>
    intro after
    rcases hr with rfl | ⟨r', rfl⟩
    · simp [eatSchema]
    · simp [eatSchema, schemaChar_47]
  | cons c tl ih =>
    intro after
    have hc : c ≠ 58 := fun e => h (by simp [e])
    have ih' := ih (fun e => h (by simp [e]))
    simp only [List.cons_append, eatSchema]
    split
    · exact ih' after
    · simp [hc]

theorem eatScheme_none (b : Nat) (tl rest : Bytes) (h : isAlpha b = false ∨ 58 ∉ tl)
    (hr : rest = [] ∨ ∃ r', rest = 47 :: r') : eatScheme (b :: tl ++ rest) = none := by
  simp only [eatScheme, List.cons_append]
  split
  · rename_i hb
    rcases h with h | h
    · simp [h] at hb
    · have := eatSchema_no_colon tl rest h hr
      split
      · rename_i after heq; exact absurd heq (this after)
      · rfl
  · rfl

theorem parseUri_scheme (b : Nat) (tl path : Bytes) (hb : isAlpha b = true) (h : tl.all schemaChar = true)
    (hp : eatPathAll path = some []) :
    parseUri (b :: tl ++ 58 :: path) = some ⟨some (b :: tl), path, none, none⟩ := by
  unfold parseUri
  simp only [eatScheme_some b tl path hb h, hp]
  simp

theorem parseUri_noscheme (path : Bytes) (hs : eatScheme path = none) (hp : eatPathAll path = some []) :
    parseUri path = some ⟨none, path, none, none⟩ := by
  unfold parseUri
  simp only [hs, hp]
  simp

/-! ### `apply` then `unapply_str` -/

theorem hexUp_ne_58 (n : Nat) : hexUp n ≠ 58 := by
  unfold hexUp; split <;> omega

theorem shouldEncode_58 : shouldEncode 58 = true := by decide

theorem pctEncode_no_colon (v : Bytes) : 58 ∉ pctEncode v := by
  induction v with
  | nil => simp [pctEncode]
  | cons c rest ih =>
    intro hb
    simp only [pctEncode, List.mem_append] at hb
    rcases hb with hb | hb
    · unfold encByte at hb
      split at hb
      · simp at hb
        rcases hb with hb | hb
        · exact hexUp_ne_58 _ hb.symm
        · exact hexUp_ne_58 _ hb.symm
      · rename_i hne
        simp at hb
        subst hb
        exact hne shouldEncode_58
    · exact ih hb

theorem pctEncode_ne_nil (v : Bytes) (h : v ≠ []) : pctEncode v ≠ [] := by
  cases v with
  | nil => exact absurd rfl h
  | cons b rest =>
    simp only [pctEncode, encByte]
    split <;> simp

/-- `Pat.wf` (scheme, literals and names acceptable to the URI parser; see `Model/RouteMon.lean`) plus distinct
names. -/
def Pat.strWf (p : Pat) : Bool := p.wf && nodupB p.params

theorem strWf_rtWf (p : Pat) (h : p.strWf = true) : p.rtWf = true := by
  simp only [Pat.strWf, Pat.wf, Bool.and_eq_true, List.all_eq_true, Bool.not_eq_eq_eq_not, Bool.not_true] at h
  simp only [Pat.rtWf, Bool.and_eq_true, List.all_eq_true, Bool.not_eq_eq_eq_not, Bool.not_true]
  refine ⟨⟨h.1.1.1.2, ?_⟩, h.2⟩
  intro s hs
  have := h.1.1.2 s hs
  cases s <;> simp_all [Seg.wf, Seg.rtOk]

theorem parseUri_apply (p : Pat) (m : KV) (hwf : p.strWf = true) (hb : p.boundBy m = true) :
    parseUri (schemePrefix p.scheme ++ p.pathOf m) = some ⟨p.scheme, p.pathOf m, none, none⟩ := by
  simp only [Pat.strWf, Pat.wf, Bool.and_eq_true, List.all_eq_true, Bool.not_eq_eq_eq_not, Bool.not_true] at hwf
  obtain ⟨⟨⟨⟨hsch, hne⟩, hsegs⟩, hfirst⟩, hnd⟩ := hwf
  simp only [Pat.boundBy, List.all_eq_true] at hb
  -- every rendered part is accepted in full by `path_segment`, is non-empty and `/`-free
  have hpart : ∀ s ∈ p.segs, segOk (partOf m s) = true ∧ partOf m s ≠ [] ∧ (∀ b ∈ partOf m s, b ≠ 47) := by
    intro s hs
    have hw := hsegs s hs
    have hbs := hb s hs
    cases s with
    | lit l =>
      simp only [Seg.wf, Bool.and_eq_true, Bool.not_eq_eq_eq_not, Bool.not_true] at hw
      refine ⟨hw.2, ?_, ?_⟩
      · intro h0; simp [partOf] at h0; simp [h0] at hw
      · exact partOf_no_slash m _ (by simpa [Seg.rtOk] using hw.1.2)
    | param n =>
      simp only [Seg.bound] at hbs
      cases hg : kvGet n m with
      | none => simp [hg] at hbs
      | some v =>
        simp only [hg, Bool.and_eq_true, Bool.not_eq_eq_eq_not, Bool.not_true, List.all_eq_true,
          decide_eq_true_eq] at hbs
        have hv : valOf m n = v := by simp [valOf, hg]
        simp only [partOf, hv]
        refine ⟨segOk_pctEncode v hbs.2 (uriSafe_all v), pctEncode_ne_nil v ?_, pctEncode_no_slash v⟩
        intro h0; simp [h0] at hbs
  cases hsg : p.segs with
  | nil => simp [hsg] at hne
  | cons s ss =>
    have hx := hpart s (by simp [hsg])
    have hall : ∀ y ∈ partOf m s :: ss.map (partOf m), segOk y = true := by
      intro y hy
      simp only [List.mem_cons, List.mem_map] at hy
      rcases hy with rfl | ⟨t, ht, rfl⟩
      · exact hx.1
      · exact (hpart t (by simp [hsg, ht])).1
    have hpath : eatPathAll (p.pathOf m) = some [] := by
      simp only [Pat.pathOf, hsg, List.map_cons]
      exact eatPathAll_join p.absolute _ _ hx.2.1 hall hx.2.2
    cases hs : p.scheme with
    | some sc =>
      rw [hs] at hsch
      cases sc with
      | nil => simp [schemeOk] at hsch
      | cons b tl =>
        simp only [schemeOk, Bool.and_eq_true] at hsch
        have := parseUri_scheme b tl (p.pathOf m) hsch.1 hsch.2 hpath
        simpa [schemePrefix] using this
    | none =>
      simp only [schemePrefix, List.nil_append]
      apply parseUri_noscheme _ _ hpath
      simp only [Pat.pathOf, hsg, List.map_cons]
      cases habs : p.absolute with
      | true =>
        simp [joinParts, eatScheme, isAlpha_47]
      | false =>
        simp only [joinParts, Bool.not_true, Bool.or_false, Bool.false_eq_true, ↓reduceIte, List.nil_append]
        have hrest : joinParts false false (ss.map (partOf m)) = [] ∨
            ∃ r', joinParts false false (ss.map (partOf m)) = 47 :: r' := by
          cases ss.map (partOf m) with
          | nil => exact Or.inl rfl
          | cons y ys => exact Or.inr ⟨y ++ joinParts false false ys, by simp [joinParts]⟩
        cases hpo : partOf m s with
        | nil => exact absurd hpo hx.2.1
        | cons b tl =>
          apply eatScheme_none b tl _ _ hrest
          cases s with
          | lit l =>
            simp only [partOf] at hpo
            subst hpo
            simp only [firstLitOk, hs, habs, hsg] at hfirst
            simp only [Bool.or_eq_true, Bool.not_eq_eq_eq_not, Bool.not_true] at hfirst
            rcases hfirst with h | h
            · exact Or.inl h
            · exact Or.inr (by simpa using h)
          | param n =>
            right
            have := pctEncode_no_colon (valOf m n)
            simp only [partOf] at hpo
            rw [hpo] at this
            intro hin; exact this (by simp [hin])

/-! ### one binding per parameter -/

theorem unapplyParts_length (segs : List Seg) (parts : List Bytes) (acc r : KV)
    (h : unapplyParts segs parts acc = some r)
    (hnd : ((segParams segs).map decodeLossy).Nodup)
    (hfresh : ∀ e ∈ acc, e.1 ∉ (segParams segs).map decodeLossy) :
    r.length = acc.length + (segParams segs).length := by
  induction segs generalizing parts acc with
  | nil =>
    cases parts with
    | nil => simp [unapplyParts] at h; subst h; simp [segParams]
    | cons p ps => simp [unapplyParts] at h
  | cons s ss ih =>
    cases parts with
    | nil => cases s <;> simp [unapplyParts] at h
    | cons p ps =>
      cases s with
      | lit l =>
        have hp : segParams (Seg.lit l :: ss) = segParams ss := by
          simp only [segParams]; rw [List.filterMap_cons]; rfl
        rw [hp] at hnd hfresh ⊢
        simp only [unapplyParts] at h
        split at h
        · exact ih ps acc h hnd hfresh
        · simp at h
      | param n =>
        have hp : segParams (Seg.param n :: ss) = n :: segParams ss := by simp [segParams, Seg.name?]
        rw [hp] at hnd hfresh ⊢
        simp only [List.map_cons, List.nodup_cons] at hnd
        simp only [unapplyParts] at h
        split at h
        · simp at h
        · rw [kvInsert_fresh _ _ acc (fun e he heq => hfresh e he (by simp [heq]))] at h
          have := ih ps _ h hnd.2 (by
            intro e he
            simp only [List.mem_append, List.mem_singleton] at he
            rcases he with he | rfl
            · intro hin; exact hfresh e he (by simp at hin ⊢; exact Or.inr hin)
            · exact hnd.1)
          rw [this]; simp; omega

/-! ### pattern text of a pattern value (used by the open parse/render statements) -/

def Seg.text : Seg → Bytes
  | .lit l => l
  | .param n => 58 :: n

/-- The pattern text of a pattern value. -/
def Pat.render (p : Pat) : Bytes := schemePrefix p.scheme ++ joinParts p.absolute true (p.segs.map Seg.text)

def Seg.noColonStart : Seg → Bool
  | .lit (58 :: _) => false
  | _ => true

def patSchemeOk : Option Bytes → Bool
  | none => true
  | some [] => false
  | some (b :: tl) => isAlpha b && !tl.contains 58 && !tl.contains 47

def Pat.renderable (p : Pat) : Bool :=
  p.structOk && p.segs.all Seg.noColonStart && patSchemeOk p.scheme &&
    (if p.segs.isEmpty then p.scheme.isSome && !p.absolute else true)

end SwimVerif.Route
