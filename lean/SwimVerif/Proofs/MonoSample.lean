/-
Monotone (non-strict) index sampling of one list by another, used by the composed C01 statement: every element of `D`
sits at some position of `L`, and the positions never go backwards. Positional, so a value that occurs twice in `L`
does not blur the statement. `List.Sublist` is the strict special case.
-/
namespace SwimVerif

/-- `D` samples `L` monotonically: there are positions `idx` (one per element of `D`), non-decreasing, with
`L[idx[k]] = D[k]`. -/
def MonoSample {α : Type} (D L : List α) : Prop :=
  ∃ idx : List Nat, idx.Pairwise (· ≤ ·) ∧ idx.map (fun i => L[i]?) = D.map some

namespace MonoSample
variable {α : Type}

theorem nil (L : List α) : MonoSample [] L := ⟨[], List.Pairwise.nil, rfl⟩

theorem sub {D' D L : List α} (hs : D'.Sublist D) (h : MonoSample D L) : MonoSample D' L := by
  obtain ⟨idx, hp, hm⟩ := h
  have h1 : (D'.map some).Sublist (idx.map (fun i => L[i]?)) := by rw [hm]; exact hs.map some
  obtain ⟨idx', hsub, he⟩ := List.sublist_map_iff.mp h1
  exact ⟨idx', hp.sublist hsub, he.symm⟩

theorem idx_lt {D L : List α} {idx : List Nat} (hm : idx.map (fun i => L[i]?) = D.map some) :
    ∀ i, i ∈ idx → i < L.length := by
  intro i hi
  have h1 : L[i]? ∈ idx.map (fun i => L[i]?) := List.mem_map.mpr ⟨i, hi, rfl⟩
  rw [hm] at h1
  obtain ⟨d, _, hd⟩ := List.mem_map.mp h1
  exact (List.getElem?_eq_some_iff.mp hd.symm).1

theorem map_append_left {D L : List α} {idx : List Nat} (hm : idx.map (fun i => L[i]?) = D.map some) (L' : List α) :
    idx.map (fun i => (L ++ L')[i]?) = D.map some := by
  rw [← hm]
  apply List.map_congr_left
  intro i hi
  exact List.getElem?_append_left (idx_lt hm i hi)

/-- the sampled list may grow on the right -/
theorem mono {D L : List α} (h : MonoSample D L) (L' : List α) : MonoSample D (L ++ L') := by
  obtain ⟨idx, hp, hm⟩ := h
  exact ⟨idx, hp, map_append_left hm L'⟩

/-- sampling the newest element (again) keeps the sampling monotone -/
theorem last {D L : List α} (h : MonoSample D L) (x : α) (hx : L.getLast? = some x) : MonoSample (D ++ [x]) L := by
  obtain ⟨idx, hp, hm⟩ := h
  have hlt := idx_lt hm
  have hne : L ≠ [] := by intro h0; simp [h0] at hx
  have hpos : 0 < L.length := List.length_pos_iff.mpr hne
  refine ⟨idx ++ [L.length - 1], ?_, ?_⟩
  · rw [List.pairwise_append]
    refine ⟨hp, List.pairwise_singleton _ _, ?_⟩
    intro a ha b hb
    simp at hb; subst hb
    have := hlt a ha
    omega
  · rw [List.map_append, List.map_append, hm]
    congr 1
    simp only [List.map_cons, List.map_nil]
    rw [← List.getLast?_eq_getElem?, hx]

/-- a new element appended to both -/
theorem snoc {D L : List α} (h : MonoSample D L) (x : α) : MonoSample (D ++ [x]) (L ++ [x]) :=
  (h.mono [x]).last x (by simp)

/-- the strict special case -/
theorem of_sublist {D L : List α} (h : D.Sublist L) : MonoSample D L := by
  induction h with
  | slnil => exact nil _
  | @cons l₁ l₂ a _ ih =>
    obtain ⟨idx, hp, hm⟩ := ih
    refine ⟨idx.map (· + 1), ?_, ?_⟩
    · rw [List.pairwise_map]; exact hp.imp (by intro a b h; omega)
    · rw [List.map_map, ← hm]; apply List.map_congr_left; intro i _; simp
  | @cons_cons l₁ l₂ a _ ih =>
    obtain ⟨idx, hp, hm⟩ := ih
    refine ⟨0 :: idx.map (· + 1), ?_, ?_⟩
    · rw [List.pairwise_cons]
      refine ⟨by intro b _; omega, ?_⟩
      rw [List.pairwise_map]; exact hp.imp (by intro a b h; omega)
    · simp only [List.map_cons, List.getElem?_cons_zero, List.map_map]
      congr 1

/-- unpacked: positions as a function, monotone, hitting the elements -/
theorem unpack {D L : List α} (h : MonoSample D L) :
    ∃ f : Nat → Nat, (∀ j k, j ≤ k → k < D.length → f j ≤ f k) ∧ ∀ k (hk : k < D.length), L[f k]? = some D[k] := by
  obtain ⟨idx, hp, hm⟩ := h
  have hlen : idx.length = D.length := by simpa using congrArg List.length hm
  refine ⟨fun k => idx[k]?.getD 0, ?_, ?_⟩
  · intro j k hjk hk
    have hk' : k < idx.length := hlen ▸ hk
    have hj' : j < idx.length := by omega
    simp only [List.getElem?_eq_getElem hk', List.getElem?_eq_getElem hj', Option.getD_some]
    rcases Nat.lt_or_eq_of_le hjk with h1 | h1
    · exact List.pairwise_iff_getElem.mp hp j k hj' hk' h1
    · subst h1; exact Nat.le_refl _
  · intro k hk
    have hk' : k < idx.length := hlen ▸ hk
    simp only [List.getElem?_eq_getElem hk', Option.getD_some]
    have := congrArg (fun l => l[k]?) hm
    simp only [List.getElem?_map, List.getElem?_eq_getElem hk', List.getElem?_eq_getElem hk, Option.map_some] at this
    exact Option.some.inj this

end MonoSample
end SwimVerif
