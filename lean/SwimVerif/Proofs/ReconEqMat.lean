/-
C15 helper lemmas: `ValueMaterializer` on the canonical event stream of a value gives the value back (with the integer
kinds the parser chooses): `evsV` is a right inverse of `materialize`.
-/
import SwimVerif.Proofs.ReconEqValid

namespace SwimVerif.ReconEq
open SwimVerif.Recon

/-- The materializer gives an integer the kind `classify` says (C09's `Value.norm`). -/
theorem numValue_numOfInt (n : Int) : numValue (numOfInt n) = .int (classify n) n := by
  by_cases hn : n < 0
  · have hm : ((n.natAbs : Nat) : Int) = -n := by omega
    have hnn : -(-n) = n := by omega
    have h0 : ¬ (0 ≤ n) := by omega
    by_cases hA : -2147483648 ≤ n
    · have c1 : -n ≤ 18446744073709551615 := by omega
      have c2 : -n ≤ 9223372036854775807 := by omega
      have c3 : n ≤ 2147483647 := by omega
      simp [numOfInt, mkInt, hn, hm, hnn, classify, numValue, i32Max, i64Max, u64Max, h0, hA, c1, c2, c3]
      all_goals omega
    · by_cases hB : -9223372036854775807 ≤ n
      · have c1 : -n ≤ 18446744073709551615 := by omega
        have c2 : -n ≤ 9223372036854775807 := by omega
        simp [numOfInt, mkInt, hn, hm, hnn, classify, numValue, i32Max, i64Max, u64Max, h0, hA, hB, c1, c2]
        all_goals omega
      · by_cases hC : -n ≤ 18446744073709551615
        · have c2 : ¬ (-n ≤ 9223372036854775807) := by omega
          simp [numOfInt, mkInt, hn, hm, hnn, classify, numValue, i32Max, i64Max, u64Max, h0, hA, hB, hC, c2]
          all_goals omega
        · simp [numOfInt, mkInt, hn, hm, hnn, classify, numValue, i32Max, i64Max, u64Max, h0, hA, hB, hC]
  · have hm : ((n.natAbs : Nat) : Int) = n := by omega
    have h0 : 0 ≤ n := by omega
    by_cases hA : n ≤ 2147483647
    · have c1 : n ≤ 18446744073709551615 := by omega
      simp [numOfInt, mkInt, hn, hm, classify, numValue, i32Max, i64Max, u64Max, h0, hA, c1]
      all_goals omega
    · by_cases hB : n ≤ 9223372036854775807
      · have c1 : n ≤ 18446744073709551615 := by omega
        simp [numOfInt, mkInt, hn, hm, classify, numValue, i32Max, i64Max, u64Max, h0, hA, hB, c1]
        all_goals omega
      · by_cases hC : n ≤ 18446744073709551615
        · have c4 : ¬ (n ≤ 4294967295) := by omega
          simp [numOfInt, mkInt, hn, hm, classify, numValue, i32Max, i64Max, u64Max, h0, hA, hB, hC, c4]
          all_goals omega
        · simp [numOfInt, mkInt, hn, hm, classify, numValue, i32Max, i64Max, u64Max, h0, hA, hB, hC]

/-- Feed events until the recognizer answers. -/
def mfeedAll : MSt → List Event → MSt × Option (Option Value)
  | m, [] => (m, none)
  | m, e :: es =>
    match m.feed e with
    | (m', none) => mfeedAll m' es
    | (m', some r) => (m', some r)

theorem materialize_eq (m : MSt) (es : List Event) (t : Term) :
    materialize m es t = (match mfeedAll m es with
      | (_, some r) => r
      | (m', none) => if t = .fin then m'.flush else none) := by
  induction es generalizing m with
  | nil => simp [materialize, mfeedAll]
  | cons e r ih =>
    simp only [materialize, mfeedAll]
    cases h : m.feed e with
    | mk m' o =>
      cases o with
      | none => simp [ih]
      | some x => simp

abbrev M (stack : List RB) (sk : Option Value) : MSt := { stack := stack, slotKey := sk }
abbrev B (key : RKey) (attrs : List (List Char × Value)) (items : List It) (inBody : Bool) : RB :=
  { key := key, attrs := attrs, items := items, inBody := inBody }

def mkIt (sk : Option Value) (v : Value) : It :=
  match sk with
  | some k => .slot k v
  | none => .val v

def mkey (sk : Option Value) : RKey :=
  match sk with
  | some k => .slot k
  | none => .noKey

/-- The reversed item list of a builder after the items `i` were added to `acc`. -/
def revItems (acc : List It) : Items → List It
  | .nil => acc
  | .val v r => revItems (.val v.norm :: acc) r
  | .slot k v r => revItems (.slot k.norm v.norm :: acc) r

def revAttrs (acc : List (List Char × Value)) : Attrs → List (List Char × Value)
  | .nil => acc
  | .cons n v r => revAttrs ((n, v.norm) :: acc) r

theorem toItems_revItems : (i : Items) → (acc : List It) → (z : Items) →
    toItems (revItems acc i) z = toItems acc (i.norm.append z)
  | .nil, acc, z => by simp [revItems, Items.norm, Items.append]
  | .val v r, acc, z => by
    simp only [revItems, Items.norm, Items.append]
    rw [toItems_revItems r]
    rfl
  | .slot k v r, acc, z => by
    simp only [revItems, Items.norm, Items.append]
    rw [toItems_revItems r]
    rfl

theorem toAttrs_revAttrs : (a : Attrs) → (acc : List (List Char × Value)) → (z : Attrs) →
    toAttrs (revAttrs acc a) z = toAttrs acc (a.norm.append z)
  | .nil, acc, z => by simp [revAttrs, Attrs.norm, Attrs.append]
  | .cons n v r, acc, z => by
    simp only [revAttrs, Attrs.norm, Attrs.append]
    rw [toAttrs_revAttrs r]
    rfl

theorem Items.append_nil' : (i : Items) → i.append .nil = i
  | .nil => rfl
  | .val v r => by simp [Items.append, Items.append_nil' r]
  | .slot k v r => by simp [Items.append, Items.append_nil' r]

theorem Attrs.append_nil' : (a : Attrs) → a.append .nil = a
  | .nil => rfl
  | .cons n v r => by simp [Attrs.append, Attrs.append_nil' r]

theorem mkRecord_rev (a : Attrs) (i : Items) : mkRecord (revAttrs [] a) (revItems [] i) = .record a.norm i.norm := by
  unfold mkRecord
  rw [toAttrs_revAttrs, toItems_revItems]
  simp [toAttrs, toItems, Items.append_nil', Attrs.append_nil']

/-! ### single steps -/

theorem mfeed_prim (key : RKey) (attrs : List (List Char × Value)) (items : List It) (rest : List RB)
    (sk : Option Value) (e : Event) (v : Value) (he : primValue e = some v) :
    (M (B key attrs items true :: rest) sk).feed e = (M (B key attrs (mkIt sk v :: items) true :: rest) none, none) := by
  unfold MSt.feed
  simp only [he]
  cases sk <;> rfl

theorem mfeed_startBody_inBody (key : RKey) (attrs : List (List Char × Value)) (items : List It) (rest : List RB)
    (sk : Option Value) :
    (M (B key attrs items true :: rest) sk).feed .startBody
      = (M (B (mkey sk) [] [] true :: B key attrs items true :: rest) none, none) := by
  cases sk <;> rfl

theorem mfeed_startBody_header (key : RKey) (attrs : List (List Char × Value)) (items : List It) (rest : List RB) :
    (M (B key attrs items false :: rest) none).feed .startBody = (M (B key attrs items true :: rest) none, none) := rfl

theorem mfeed_startAttr_inBody (key : RKey) (attrs : List (List Char × Value)) (items : List It) (rest : List RB)
    (sk : Option Value) (n : List Char) :
    (M (B key attrs items true :: rest) sk).feed (.startAttr n)
      = (M (B (mkey sk) [] [] false :: B key attrs items true :: rest) none).feed (.startAttr n) := by
  cases sk <;> rfl

theorem mfeed_startAttr_header (key : RKey) (attrs : List (List Char × Value)) (items : List It) (rest : List RB)
    (n : List Char) :
    (M (B key attrs items false :: rest) none).feed (.startAttr n)
      = (M (B (.attr n) [] [] true :: B key attrs items false :: rest) none, none) := rfl

theorem mfeed_endAttr_empty (n : List Char) (key : RKey) (attrs : List (List Char × Value)) (items : List It)
    (rest : List RB) :
    (M (B (.attr n) [] [] true :: B key attrs items false :: rest) none).feed .endAttr
      = (M (B key ((n, .extant) :: attrs) items false :: rest) none, none) := rfl

theorem mfeed_endAttr_one (n : List Char) (w : Value) (key : RKey) (attrs : List (List Char × Value)) (items : List It)
    (rest : List RB) :
    (M (B (.attr n) [] [.val w] true :: B key attrs items false :: rest) none).feed .endAttr
      = (M (B key ((n, w) :: attrs) items false :: rest) none, none) := rfl

theorem mfeed_slot (key : RKey) (attrs : List (List Char × Value)) (items : List It) (rest : List RB) (w : Value) :
    (M (B key attrs (.val w :: items) true :: rest) none).feed .slot
      = (M (B key attrs items true :: rest) (some w), none) := rfl

theorem mfeed_endRecord (sk : Option Value) (a : List (List Char × Value)) (c : List It) (key : RKey)
    (attrs : List (List Char × Value)) (items : List It) (rest : List RB) :
    (M (B (mkey sk) a c true :: B key attrs items true :: rest) none).feed .endRecord
      = (M (B key attrs (mkIt sk (mkRecord a c) :: items) true :: rest) none, none) := by
  cases sk <;> rfl

theorem primValue_evsV (x : Value) (h : ∀ a i, x ≠ .record a i) : ∃ e, evsV x = [e] ∧ primValue e = some x.norm := by
  cases x with
  | record a i => exact absurd rfl (h a i)
  | extant => exact ⟨_, rfl, rfl⟩
  | int k n => exact ⟨_, rfl, by simp [primValue, numValue_numOfInt, Value.norm]⟩
  | float f => exact ⟨_, rfl, rfl⟩
  | bool b => exact ⟨_, rfl, rfl⟩
  | text s => exact ⟨_, rfl, rfl⟩
  | data bs => exact ⟨_, rfl, rfl⟩

theorem norm_ne_extant (v : Value) (h : v ≠ .extant) : v.norm ≠ .extant := by
  cases v <;> simp [Value.norm] at h ⊢

mutual
theorem mfeedAll_value : (x : Value) → (key : RKey) → (attrs : List (List Char × Value)) → (items : List It) →
    (rest : List RB) → (sk : Option Value) → (tail : List Event) →
    mfeedAll (M (B key attrs items true :: rest) sk) (evsV x ++ tail)
      = mfeedAll (M (B key attrs (mkIt sk x.norm :: items) true :: rest) none) tail
  | .record .nil i, key, attrs, items, rest, sk, tail => by
    simp only [evsV, evsA, List.nil_append, List.cons_append, List.append_assoc, mfeedAll]
    rw [mfeed_startBody_inBody]
    simp only []
    rw [mfeedAll_items i, mfeedAll, mfeed_endRecord]
    simp only []
    have := mkRecord_rev .nil i
    simp only [revAttrs] at this
    rw [this]
    rfl
  | .record (.cons n v r) i, key, attrs, items, rest, sk, tail => by
    have h1 : mfeedAll (M (B key attrs items true :: rest) sk) (evsV (.record (.cons n v r) i) ++ tail)
        = mfeedAll (M (B (mkey sk) [] [] false :: B key attrs items true :: rest) none)
            (evsV (.record (.cons n v r) i) ++ tail) := by
      simp only [evsV, evsA_cons, List.cons_append, List.append_assoc, mfeedAll]
      rw [mfeed_startAttr_inBody]
    rw [h1]
    simp only [evsV, List.append_assoc, List.cons_append]
    rw [mfeedAll_attrs (.cons n v r), mfeedAll, mfeed_startBody_header]
    simp only []
    rw [mfeedAll_items i, mfeedAll, mfeed_endRecord]
    simp only []
    rw [mkRecord_rev]
    rfl
  | .extant, key, attrs, items, rest, sk, tail => by
    simp only [evsV, List.cons_append, List.nil_append, mfeedAll]
    rw [mfeed_prim _ _ _ _ _ _ .extant rfl]
    rfl
  | .int k n, key, attrs, items, rest, sk, tail => by
    simp only [evsV, List.cons_append, List.nil_append, mfeedAll]
    rw [mfeed_prim _ _ _ _ _ _ (.int (classify n) n) (by simp [primValue, numValue_numOfInt])]
    rfl
  | .float f, key, attrs, items, rest, sk, tail => by
    simp only [evsV, List.cons_append, List.nil_append, mfeedAll]
    rw [mfeed_prim _ _ _ _ _ _ (.float f) rfl]
    rfl
  | .bool b, key, attrs, items, rest, sk, tail => by
    simp only [evsV, List.cons_append, List.nil_append, mfeedAll]
    rw [mfeed_prim _ _ _ _ _ _ (.bool b) rfl]
    rfl
  | .text s, key, attrs, items, rest, sk, tail => by
    simp only [evsV, List.cons_append, List.nil_append, mfeedAll]
    rw [mfeed_prim _ _ _ _ _ _ (.text s) rfl]
    rfl
  | .data bs, key, attrs, items, rest, sk, tail => by
    simp only [evsV, List.cons_append, List.nil_append, mfeedAll]
    rw [mfeed_prim _ _ _ _ _ _ (.data bs) rfl]
    rfl
theorem mfeedAll_attrs : (a : Attrs) → (key : RKey) → (attrs : List (List Char × Value)) → (items : List It) →
    (rest : List RB) → (tail : List Event) →
    mfeedAll (M (B key attrs items false :: rest) none) (evsA a ++ tail)
      = mfeedAll (M (B key (revAttrs attrs a) items false :: rest) none) tail
  | .nil, key, attrs, items, rest, tail => by simp [evsA, revAttrs]
  | .cons n v r, key, attrs, items, rest, tail => by
    rw [evsA_cons]
    simp only [List.cons_append, List.append_assoc, mfeedAll]
    rw [mfeed_startAttr_header]
    simp only []
    by_cases hv : v = .extant
    · subst hv
      rw [bodyEvs_extant]
      simp only [List.nil_append, List.cons_append, mfeedAll]
      rw [mfeed_endAttr_empty]
      simp only []
      rw [mfeedAll_attrs r]
      rfl
    · rw [bodyEvs_of_ne v hv, mfeedAll_value v]
      simp only [List.nil_append, List.cons_append, mfeedAll, mkIt]
      rw [mfeed_endAttr_one]
      simp only []
      rw [mfeedAll_attrs r]
      rfl
theorem mfeedAll_items : (i : Items) → (key : RKey) → (attrs : List (List Char × Value)) → (items : List It) →
    (rest : List RB) → (tail : List Event) →
    mfeedAll (M (B key attrs items true :: rest) none) (evsI i ++ tail)
      = mfeedAll (M (B key attrs (revItems items i) true :: rest) none) tail
  | .nil, key, attrs, items, rest, tail => by simp [evsI, revItems]
  | .val v r, key, attrs, items, rest, tail => by
    simp only [evsI, List.append_assoc]
    rw [mfeedAll_value v, mfeedAll_items r]
    rfl
  | .slot k v r, key, attrs, items, rest, tail => by
    simp only [evsI, List.append_assoc, List.cons_append]
    rw [mfeedAll_value k]
    simp only [mkIt, mfeedAll]
    rw [mfeed_slot]
    simp only []
    rw [mfeedAll_value v, mfeedAll_items r]
    rfl
end

/-- The canonical stream of a value is read back as the value (integers in the kinds the parser chooses). -/
theorem materialize_evsV (x : Value) : materialize {} (evsV x) .fin = some x.norm := by
  rw [materialize_eq]
  cases x with
  | record a i =>
    cases a with
    | nil =>
      have h := mfeedAll_items i .noKey [] [] [] [.endRecord]
      simp only [evsV, evsA, List.nil_append, mfeedAll]
      have h0 : (({} : MSt).feed .startBody) = (M [B .noKey [] [] true] none, none) := rfl
      rw [h0]
      simp only []
      rw [h]
      simp only [mfeedAll]
      have h1 : (M [B .noKey [] (revItems [] i) true] none).feed .endRecord
          = (M [] none, some (some (mkRecord [] (revItems [] i)))) := rfl
      rw [h1]
      simp only []
      have := mkRecord_rev .nil i
      simp only [revAttrs] at this
      rw [this]
      rfl
    | cons n v r =>
      have h0 : mfeedAll {} (evsV (.record (.cons n v r) i))
          = mfeedAll (M [B .noKey [] [] false] none) (evsV (.record (.cons n v r) i)) := by
        simp only [evsV, evsA_cons, List.cons_append, List.append_assoc, mfeedAll]
        rfl
      rw [h0]
      simp only [evsV]
      rw [mfeedAll_attrs (.cons n v r), mfeedAll, mfeed_startBody_header]
      simp only []
      rw [mfeedAll_items i]
      simp only [mfeedAll]
      have h1 : (M [B .noKey (revAttrs [] (.cons n v r)) (revItems [] i) true] none).feed .endRecord
          = (M [] none, some (some (mkRecord (revAttrs [] (.cons n v r)) (revItems [] i)))) := rfl
      rw [h1]
      simp only []
      rw [mkRecord_rev]
      rfl
  | extant => rfl
  | int k n =>
    simp only [evsV, mfeedAll]
    have : (({} : MSt).feed (.num (numOfInt n))) = ({}, some (some (.int (classify n) n))) := by
      simp [MSt.feed, primValue, numValue_numOfInt]
    rw [this]
    rfl
  | float f => rfl
  | bool b => rfl
  | text s => rfl
  | data bs => rfl

end SwimVerif.ReconEq
