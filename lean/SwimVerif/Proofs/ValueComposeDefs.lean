/-
C01 composition, proof layer 1: the per-remote "timeline" (what was pushed to the remote, followed by what the pipe
still holds for it, followed by the lane's unsent value) and how the operations on one remote change it.
-/
import SwimVerif.Proofs.ValueCompose
import SwimVerif.Proofs.ValueSampling
import SwimVerif.Proofs.ValueLane

set_option linter.unusedSimpArgs false
set_option linter.unusedVariables false
namespace SwimVerif.VC
open WT (USys UOp ustep Registry Body Resp Special Kind UnlinkMsg bodiesFor pushedBodies UInv VInv valueOp)

/-- the body remote `r` will be sent for a frame, once the runtime reads it (events reach every linked remote) -/
def frameBody (r : Nat) : VL.Frame → Option Body
  | .event v => some (body v)
  | .syncEvent r' v => if r' = r then some (body v) else none
  | .synced _ => none

def pipeBodies (r : Nat) (p : List VL.Frame) : List Body := p.filterMap (frameBody r)

/-- the value the lane still owes an event for -/
def dirtyBody (s : VL.St) : List Body := if s.dirty then [body s.content] else []

def pushedTo (l : Nat) (x : Rem) : List Body := pushedBodies l x.sys.pushed

/-- pushed ++ in the pipe ++ unsent -/
def tl (l r : Nat) (lane : VL.St) (pipe : List VL.Frame) (x : Rem) : List Body :=
  pushedTo l x ++ pipeBodies r pipe ++ dirtyBody lane

@[simp] theorem pipeBodies_nil (r : Nat) : pipeBodies r [] = [] := rfl
theorem pipeBodies_append (r : Nat) (a b : List VL.Frame) : pipeBodies r (a ++ b) = pipeBodies r a ++ pipeBodies r b := by
  simp [pipeBodies, List.filterMap_append]
theorem pipeBodies_cons (r : Nat) (f : VL.Frame) (p : List VL.Frame) :
    pipeBodies r (f :: p) = (frameBody r f).toList ++ pipeBodies r p := by
  simp only [pipeBodies, List.filterMap_cons]
  cases frameBody r f <;> simp

/-! ### `upd` -/

@[simp] theorem upd_same (f : Nat → Rem) (r : Nat) (x : Rem) : upd f r x r = x := by simp [upd]
theorem upd_ne (f : Nat → Rem) {r r' : Nat} (x : Rem) (h : r' ≠ r) : upd f r x r' = f r' := by simp [upd, h]

/-! ### what the remote-level operations do to `pushed`, `linked`, the ghosts -/

theorem pushed_special (reg : Registry) (s : USys) (a : Special) : (ustep reg s (.special a)).pushed = s.pushed := rfl
theorem pushed_push (reg : Registry) (s : USys) (l : Nat) (resp : Resp) :
    (ustep reg s (.push l resp)).pushed = s.pushed ++ [(l, resp)] := rfl
theorem pushed_done (reg : Registry) (s : USys) : (ustep reg s .done).pushed = s.pushed := by
  simp only [ustep]; cases s.inflight <;> rfl

@[simp] theorem pushedTo_link (reg : Registry) (l n : Nat) (x : Rem) : pushedTo l (x.link reg l n) = pushedTo l x := rfl
@[simp] theorem pushedTo_done (reg : Registry) (l : Nat) (x : Rem) : pushedTo l (x.done reg) = pushedTo l x := by
  simp [pushedTo, Rem.done, pushed_done]
theorem pushedTo_push (reg : Registry) (l : Nat) (resp : Resp) (x : Rem) :
    pushedTo l (x.push reg l resp) = pushedTo l x ++ (WT.respBody? resp).toList := by
  simp only [pushedTo, Rem.push, pushed_push, WT.pushedBodies_append, WT.pushedBodies_single, if_true]
@[simp] theorem pushedTo_push_value (reg : Registry) (l v : Nat) (x : Rem) :
    pushedTo l (x.push reg l (.value [v])) = pushedTo l x ++ [body v] := by
  rw [pushedTo_push]; rfl
@[simp] theorem pushedTo_push_synced (reg : Registry) (l : Nat) (x : Rem) :
    pushedTo l (x.push reg l (.synced .value)) = pushedTo l x := by
  rw [pushedTo_push]; simp [WT.respBody?]

@[simp] theorem linked_link (reg : Registry) (l n : Nat) (x : Rem) : (x.link reg l n).linked = true := rfl
@[simp] theorem linked_push (reg : Registry) (l : Nat) (resp : Resp) (x : Rem) : (x.push reg l resp).linked = x.linked := rfl
@[simp] theorem linked_done (reg : Registry) (x : Rem) : (x.done reg).linked = x.linked := rfl
@[simp] theorem since_push (reg : Registry) (l : Nat) (resp : Resp) (x : Rem) : (x.push reg l resp).since = x.since := rfl
@[simp] theorem since_done (reg : Registry) (x : Rem) : (x.done reg).since = x.since := rfl
@[simp] theorem asked_link (reg : Registry) (l n : Nat) (x : Rem) : (x.link reg l n).asked = x.asked := rfl
@[simp] theorem asked_push (reg : Registry) (l : Nat) (resp : Resp) (x : Rem) : (x.push reg l resp).asked = x.asked := rfl
@[simp] theorem asked_done (reg : Registry) (x : Rem) : (x.done reg).asked = x.asked := rfl
theorem since_link (reg : Registry) (l n : Nat) (x : Rem) :
    (x.link reg l n).since = if x.linked then x.since else n := rfl

/-! ### the two runtime invariants of one remote's uplink system survive every operation that is not its unlink -/

structure RemOK (l : Nat) (x : Rem) : Prop where
  u : UInv x.sys
  v : VInv l x.sys

theorem remok_init (l : Nat) : RemOK l {} := ⟨WT.uinv_init, WT.vinv_init l⟩

theorem remok_link {l : Nat} {x : Rem} (h : RemOK l x) (reg : Registry) (n : Nat) : RemOK l (x.link reg l n) :=
  ⟨WT.uinv_step reg h.u (.special (.linked l)),
   WT.vinv_step reg l h.u h.v (.special (.linked l)) (by intro m hm; cases hm)⟩

theorem remok_push_value {l : Nat} {x : Rem} (h : RemOK l x) (reg : Registry) (b : WT.Bytes) :
    RemOK l (x.push reg l (.value b)) :=
  ⟨WT.uinv_step reg h.u (.push l (.value b)),
   WT.vinv_step reg l h.u h.v (.push l (.value b)) (fun _ => Or.inl ⟨b, rfl⟩)⟩

theorem remok_push_synced {l : Nat} {x : Rem} (h : RemOK l x) (reg : Registry) :
    RemOK l (x.push reg l (.synced .value)) :=
  ⟨WT.uinv_step reg h.u (.push l (.synced .value)),
   WT.vinv_step reg l h.u h.v (.push l (.synced .value)) (fun _ => Or.inr rfl)⟩

theorem remok_done {l : Nat} {x : Rem} (h : RemOK l x) (reg : Registry) : RemOK l (x.done reg) :=
  ⟨WT.uinv_step reg h.u .done, WT.vinv_step reg l h.u h.v .done trivial⟩

end SwimVerif.VC
