import SwimVerif.Proofs.Links

set_option linter.unusedSimpArgs false
set_option linter.unusedVariables false
namespace SwimVerif.WT

/-! ### The running total equals the actual number of links -/

def keysOf (f : List (Nat × LaneLinks)) : List Nat := f.map (·.1)

def lenAt (f : List (Nat × LaneLinks)) (id : Nat) : Nat :=
  match alGet f id with
  | some e => e.remotes.length
  | none => 0

theorem sumLinks_alSet (f : List (Nat × LaneLinks)) (id : Nat) (e' : LaneLinks) :
    sumLinks (alSet f id e') + lenAt f id = sumLinks f + e'.remotes.length := by
  induction f with
  | nil => simp [alSet, sumLinks, lenAt, alGet]
  | cons p rest ih =>
    obtain ⟨k, e⟩ := p
    by_cases hk : k = id
    · subst hk
      simp [alSet, sumLinks, lenAt, alGet]
      omega
    · simp only [alSet, hk, if_false, sumLinks, List.map_cons, List.sum_cons, lenAt, alGet] at ih ⊢
      omega

theorem keys_alSet (f : List (Nat × LaneLinks)) (id : Nat) (e' : LaneLinks) :
    keysOf (alSet f id e') = if id ∈ keysOf f then keysOf f else keysOf f ++ [id] := by
  induction f with
  | nil => simp [alSet, keysOf]
  | cons p rest ih =>
    obtain ⟨k, e⟩ := p
    by_cases hk : k = id
    · subst hk; simp [alSet, keysOf]
    · simp only [alSet, hk, if_false, keysOf, List.map_cons, List.mem_cons] at ih ⊢
      rw [ih]
      have : ¬ id = k := fun h => hk h.symm
      by_cases hm : id ∈ List.map (fun x => x.fst) rest <;> simp [hm, this]

theorem nodup_alSet {f : List (Nat × LaneLinks)} (h : (keysOf f).Nodup) (id : Nat) (e' : LaneLinks) :
    (keysOf (alSet f id e')).Nodup := by
  rw [keys_alSet]
  split
  · exact h
  · rename_i hm
    rw [List.nodup_append]
    refine ⟨h, by simp, ?_⟩
    intro a ha b hb
    simp at hb; subst hb
    intro hab; subst hab; exact hm ha

theorem alGet_none_of_not_mem {f : List (Nat × LaneLinks)} {id : Nat} (h : id ∉ keysOf f) : alGet f id = none := by
  induction f with
  | nil => rfl
  | cons p rest ih =>
    obtain ⟨k, e⟩ := p
    simp only [keysOf, List.map_cons, List.mem_cons, not_or] at h
    have : ¬ k = id := fun hh => h.1 hh.symm
    simp only [alGet, this, if_false]
    exact ih h.2

theorem alErase_of_not_mem {f : List (Nat × LaneLinks)} {id : Nat} (h : id ∉ keysOf f) : alErase f id = f := by
  induction f with
  | nil => rfl
  | cons p rest ih =>
    obtain ⟨k, e⟩ := p
    simp only [keysOf, List.map_cons, List.mem_cons, not_or] at h
    have : ¬ k = id := fun hh => h.1 hh.symm
    simp only [alErase, this, if_false]
    rw [ih h.2]

theorem sumLinks_alErase {f : List (Nat × LaneLinks)} (h : (keysOf f).Nodup) (id : Nat) :
    sumLinks (alErase f id) + lenAt f id = sumLinks f := by
  induction f with
  | nil => simp [alErase, sumLinks, lenAt, alGet]
  | cons p rest ih =>
    obtain ⟨k, e⟩ := p
    simp only [keysOf, List.map_cons, List.nodup_cons] at h
    by_cases hk : k = id
    · subst hk
      have : alErase rest k = rest := alErase_of_not_mem h.1
      simp [alErase, this, sumLinks, lenAt, alGet]
      omega
    · have ih' := ih h.2
      simp only [alErase, hk, if_false, sumLinks, List.map_cons, List.sum_cons, lenAt, alGet] at ih' ⊢
      omega

theorem keys_alErase_sub (f : List (Nat × LaneLinks)) (id : Nat) : (keysOf (alErase f id)).Sublist (keysOf f) := by
  induction f with
  | nil => exact List.Sublist.slnil
  | cons p rest ih =>
    obtain ⟨k, e⟩ := p
    by_cases hk : k = id
    · simp only [alErase, hk, if_true, keysOf, List.map_cons]
      exact List.Sublist.cons _ ih
    · simp only [alErase, hk, if_false, keysOf, List.map_cons]
      exact List.Sublist.cons_cons _ ih

theorem nodup_alErase {f : List (Nat × LaneLinks)} (h : (keysOf f).Nodup) (id : Nat) :
    (keysOf (alErase f id)).Nodup := (keys_alErase_sub f id).nodup h

/-! `setErase` on duplicate-free lists -/

theorem setErase_of_not_mem {l : List Nat} {x : Nat} (h : x ∉ l) : setErase l x = l := by
  induction l with
  | nil => rfl
  | cons y ys ih =>
    simp only [List.mem_cons, not_or] at h
    have : ¬ y = x := fun hh => h.1 hh.symm
    simp [setErase, this, ih h.2]

theorem length_setErase {l : List Nat} (hn : l.Nodup) {x : Nat} (hx : x ∈ l) :
    (setErase l x).length + 1 = l.length := by
  induction l with
  | nil => simp at hx
  | cons y ys ih =>
    simp only [List.nodup_cons] at hn
    by_cases hy : y = x
    · subst hy
      simp [setErase, setErase_of_not_mem hn.1]
    · have : x ∈ ys := by
        rcases List.mem_cons.mp hx with h | h
        · exact absurd h.symm hy
        · exact h
      simp [setErase, hy]
      exact ih hn.2 this

theorem setErase_sub (l : List Nat) (x : Nat) : (setErase l x).Sublist l := by
  induction l with
  | nil => exact List.Sublist.slnil
  | cons y ys ih =>
    by_cases hy : y = x
    · simp only [setErase, hy, if_true]; exact List.Sublist.cons _ ih
    · simp only [setErase, hy, if_false]; exact List.Sublist.cons_cons _ ih

/-- Structural invariant of the registry. -/
structure TInv (l : Links) : Prop where
  total : l.total = sumLinks l.forward
  keys : (keysOf l.forward).Nodup
  nodup : ∀ id e, alGet l.forward id = some e → e.remotes.Nodup

theorem tinv_init (a : Bool) : TInv { hasAgg := a } := by
  constructor
  · rfl
  · simp [keysOf]
  · intro id e h; simp [alGet] at h

theorem lenAt_le_sum {f : List (Nat × LaneLinks)} (h : (keysOf f).Nodup) (id : Nat) : lenAt f id ≤ sumLinks f := by
  have := sumLinks_alErase h id; omega

theorem tinv_congr {l l' : Links} (h : TInv l) (hf : l'.forward = l.forward) (ht : l'.total = l.total) : TInv l' := by
  constructor
  · rw [ht, hf]; exact h.total
  · rw [hf]; exact h.keys
  · intro id e he; rw [hf] at he; exact h.nodup id e he

theorem updEntry_forward (l : Links) (id : Nat) (e' : LaneLinks) (t : Nat) :
    (l.updEntry id e' t).forward = alSet l.forward id e' := by
  unfold Links.updEntry; simp only []; split <;> rfl

theorem updEntry_total (l : Links) (id : Nat) (e' : LaneLinks) (t : Nat) : (l.updEntry id e' t).total = t := by
  unfold Links.updEntry; simp only []; split <;> rfl

theorem tinv_updEntry {l : Links} (h : TInv l) (id : Nat) (e' : LaneLinks) (t : Nat) (hn : e'.remotes.Nodup)
    (ht : t + lenAt l.forward id = l.total + e'.remotes.length) : TInv (l.updEntry id e' t) := by
  constructor
  · rw [updEntry_total, updEntry_forward]
    have := sumLinks_alSet l.forward id e'
    have := h.total
    omega
  · rw [updEntry_forward]; exact nodup_alSet h.keys id e'
  · intro id2 e2 he
    rw [updEntry_forward, alGet_alSet] at he
    split at he
    · have : e2 = e' := (Option.some.inj he).symm
      subst this; exact hn
    · exact h.nodup id2 e2 he

theorem tinv_addRemote {l : Links} (h : TInv l) (id r : Nat) : TInv (l.addRemote id r) := by
  unfold Links.addRemote
  cases hg : alGet l.forward id with
  | none =>
    simp only [Option.getD_none]
    have hc : (({} : LaneLinks).remotes.contains r) = false := by simp
    rw [if_neg (by simp)]
    apply tinv_updEntry h
    · simp
    · simp [lenAt, hg]
  | some e =>
    simp only [Option.getD_some]
    split
    · constructor
      · have := sumLinks_alSet l.forward id e
        simp only [lenAt, hg] at this
        show l.total = sumLinks (alSet l.forward id e)
        have := h.total; omega
      · exact nodup_alSet h.keys id e
      · intro id2 e2 he
        simp only [alGet_alSet] at he
        split at he
        · have : e2 = e := (Option.some.inj he).symm
          subst this; exact h.nodup id _ hg
        · exact h.nodup id2 e2 he
    · rename_i hc
      apply tinv_updEntry h
      · have hn := h.nodup id e hg
        rw [List.nodup_append]
        refine ⟨hn, by simp, ?_⟩
        intro a ha b hb
        simp at hb; subst hb
        intro hab; subst hab
        exact hc (by simpa using ha)
      · simp [lenAt, hg]; omega

theorem tinv_removeFromLane {l : Links} (h : TInv l) (id r : Nat) : TInv (l.removeFromLane id r) := by
  unfold Links.removeFromLane
  split
  · exact h
  · rename_i e he
    split
    · rename_i hc
      have hn := h.nodup id e he
      have hm : r ∈ e.remotes := by simpa using hc
      have hl := length_setErase hn hm
      apply tinv_updEntry h
      · exact (setErase_sub e.remotes r).nodup hn
      · have hle := lenAt_le_sum h.keys id
        have ht := h.total
        simp only [lenAt, he] at hle ⊢
        omega
    · exact h

theorem tinv_foldl_remove (lanes : List Nat) (r : Nat) : ∀ (l : Links), TInv l →
    TInv (lanes.foldl (fun acc id => acc.removeFromLane id r) l) := by
  induction lanes with
  | nil => intro l h; exact h
  | cons id rest ih => intro l h; exact ih _ (tinv_removeFromLane h id r)

theorem tinv_insert {l : Links} (h : TInv l) (id r : Nat) : TInv (l.insert id r) :=
  tinv_congr (tinv_addRemote h id r) (by simp [Links.insert]) (by simp [Links.insert])

theorem tinv_removeCore {l : Links} (h : TInv l) (id r : Nat) : TInv (l.removeCore id r) := by
  unfold Links.removeCore
  split
  · exact tinv_congr (tinv_removeFromLane h id r) (by simp) (by simp)
  · exact h

theorem tinv_remove {l : Links} (h : TInv l) (id r : Nat) : TInv (l.remove id r).1 := by
  unfold Links.remove
  split
  · split
    · exact tinv_congr (tinv_removeCore h id r) rfl rfl
    · exact tinv_congr (tinv_removeCore h id r) rfl rfl
  · exact tinv_removeCore h id r

theorem tinv_removeRemote {l : Links} (h : TInv l) (r : Nat) : TInv (l.removeRemote r) := by
  unfold Links.removeRemote
  simp only []
  exact tinv_congr (tinv_foldl_remove ((alGet l.backwards r).getD []) r
    { l with backwards := alErase l.backwards r } (tinv_congr h rfl rfl)) (by simp) (by simp)

theorem tinv_dropLane {l : Links} (h : TInv l) (id : Nat) (e : LaneLinks) (he : alGet l.forward id = some e) :
    TInv (l.dropLane id e) := by
  have core : TInv { l with forward := alErase l.forward id, total := l.total - e.remotes.length } := by
    constructor
    · have := sumLinks_alErase h.keys id
      have ht := h.total
      simp only [lenAt, he] at this
      show l.total - e.remotes.length = sumLinks (alErase l.forward id)
      omega
    · exact nodup_alErase h.keys id
    · intro id2 e2 he2
      simp only [alGet_alErase] at he2
      split at he2
      · simp at he2
      · exact h.nodup id2 e2 he2
  unfold Links.dropLane
  split
  · exact tinv_congr core (by simp) (by simp)
  · exact tinv_congr core (by simp) (by simp)

theorem tinv_removeLane {l : Links} (h : TInv l) (id : Nat) : TInv (l.removeLane id).1 := by
  unfold Links.removeLane
  split
  · exact h
  · rename_i e he
    have f := removeLane_fold_fields id e.remotes (l.dropLane id e, [])
    exact tinv_congr (tinv_dropLane h id e he) f.1 f.2.2.2.2

end SwimVerif.WT
