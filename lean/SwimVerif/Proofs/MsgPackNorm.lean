/-
C16 — `mpNorm v` equals `v` under `Value::eq` (`ReconEq.veq`: integer kinds are ignored).
-/
import SwimVerif.Proofs.MsgPackFuel
import SwimVerif.Proofs.ReconEq

namespace SwimVerif.MsgPack
open SwimVerif.Recon
open SwimVerif.ReconEq (aeq ieq veq_refl)

mutual
theorem veq_norm : ∀ v, ReconEq.veq (mpNorm v) v = true
  | .record a i => by simp [mpNorm, ReconEq.veq, aeq_norm a, ieq_norm i]
  | .extant => by simp [mpNorm, ReconEq.veq]
  | .int k n => by cases k <;> simp [mpNorm, mkInt, ReconEq.veq]
  | .float f => by simp [mpNorm, veq_refl]
  | .bool b => by simp [mpNorm, ReconEq.veq]
  | .text s => by simp [mpNorm, ReconEq.veq]
  | .data bs => by simp [mpNorm, ReconEq.veq]
theorem aeq_norm : ∀ a, aeq (mpNormA a) a = true
  | .nil => by simp [mpNormA, aeq]
  | .cons n v r => by simp [mpNormA, aeq, veq_norm v, aeq_norm r]
theorem ieq_norm : ∀ i, ieq (mpNormI i) i = true
  | .nil => by simp [mpNormI, ieq]
  | .val v r => by simp [mpNormI, ieq, veq_norm v, ieq_norm r]
  | .slot k v r => by simp [mpNormI, ieq, veq_norm k, veq_norm v, ieq_norm r]
end

end SwimVerif.MsgPack
