/-
C09: finite floats — the two layouts the printers use for the shortest decimal of an `f64` (`ryu`, `{:e}`) are lexed
back as the same decimal.
-/
import SwimVerif.Proofs.Recon

set_option linter.unusedSimpArgs false
set_option linter.unusedVariables false
namespace SwimVerif.Recon

def AllDigits (l : List Char) : Prop := ∀ c ∈ l, isDigit c = true

theorem takeWhile_digits {ds : List Char} (h : AllDigits ds) {c : Char} (hc : isDigit c = false) (t : List Char) :
    (ds ++ c :: t).takeWhile isDigit = ds ∧ (ds ++ c :: t).dropWhile isDigit = c :: t :=
  ⟨takeWhile_append_stop h (by intro x hx; simp at hx; subst hx; exact hc),
   dropWhile_append_stop h (by intro x hx; simp at hx; subst hx; exact hc)⟩

theorem takeWhile_digits_end {ds rest : List Char} (h : AllDigits ds) (hr : TokEnd rest) :
    (ds ++ rest).takeWhile isDigit = ds ∧ (ds ++ rest).dropWhile isDigit = rest :=
  ⟨takeWhile_append_stop h (hr.stops isDigit_tokEnd), dropWhile_append_stop h (hr.stops isDigit_tokEnd)⟩

/-- Exponent text: `e`, an optional `-`, digits. -/
def expText (en : Bool) (eds : List Char) : List Char := 'e' :: ((if en then ['-'] else []) ++ eds)

theorem lexExponent_none {rest : List Char} (hr : TokEnd rest) : lexExponent rest = some (false, [], rest) := by
  rcases tokend_cases hr with rfl | ⟨c, r, rfl, hc⟩
  · rfl
  · have : ¬(c = 'e' ∨ c = 'E') := by
      rcases tokEnd_cases hc with rfl | rfl | rfl | rfl | rfl | rfl <;> decide
    simp [lexExponent, this]

theorem stripPlusMinus_digit {d : Char} (hd : isDigit d = true) (t : List Char) :
    stripPlusMinus (d :: t) = (false, d :: t) := by
  have hm : d ≠ '-' := digit_ne hd '-' (by decide)
  have hp : d ≠ '+' := digit_ne hd '+' (by decide)
  unfold stripPlusMinus
  split
  · rename_i heq; simp only [List.cons.injEq] at heq; exact absurd heq.1 hm
  · rename_i heq; simp only [List.cons.injEq] at heq; exact absurd heq.1 hp
  · rfl

theorem lexExponent_some (en : Bool) {eds rest : List Char} (hd : AllDigits eds) (hne : eds ≠ []) (hr : TokEnd rest) :
    lexExponent (expText en eds ++ rest) = some (en, eds, rest) := by
  obtain ⟨h1, h2⟩ := takeWhile_digits_end hd hr
  cases hds : eds with
  | nil => exact absurd hds hne
  | cons d ds' =>
    have hdd : isDigit d = true := hd d (by simp [hds])
    rw [hds] at h1 h2
    simp only [List.cons_append] at h1 h2
    cases en
    · simp only [expText, Bool.false_eq_true, ↓reduceIte, List.nil_append, List.cons_append, lexExponent, true_or,
        stripPlusMinus_digit hdd, h1, h2]
    · simp only [expText, ↓reduceIte, List.cons_append, List.nil_append, lexExponent, true_or, stripPlusMinus, h1, h2]

/-- `lexFloatBody` on `int . frac [exponent]`. -/
theorem lexFloatBody_dot (neg : Bool) {I Fr rest : List Char} (hI : AllDigits I) (hIne : I ≠ []) (hF : AllDigits Fr)
    (ex : Option (Bool × List Char)) (hex : ∀ p, ex = some p → AllDigits p.2 ∧ p.2 ≠ []) (hr : TokEnd rest) :
    lexFloatBody neg (I ++ '.' :: (Fr ++ ((match ex with | none => [] | some p => expText p.1 p.2) ++ rest))) =
      some (mkFloat neg I Fr (match ex with | none => false | some p => p.1) (match ex with | none => [] | some p => p.2),
        rest) := by
  obtain ⟨h1, h2⟩ := takeWhile_digits hI (show isDigit '.' = false by decide)
    (Fr ++ ((match ex with | none => [] | some p => expText p.1 p.2) ++ rest))
  unfold lexFloatBody
  rw [h1, h2]
  cases hIc : I with
  | nil => exact absurd hIc hIne
  | cons i0 I' =>
    simp only
    cases ex with
    | none =>
      simp only [List.nil_append]
      obtain ⟨h3, h4⟩ := takeWhile_digits_end hF hr
      rw [h3, h4, lexExponent_none hr]
    | some p =>
      obtain ⟨hp1, hp2⟩ := hex p rfl
      obtain ⟨h3, h4⟩ := takeWhile_digits hF (show isDigit 'e' = false by decide)
        (((if p.1 then ['-'] else []) ++ p.2) ++ rest)
      simp only [expText, List.cons_append] at h3 h4 ⊢
      rw [h3, h4]
      have := lexExponent_some p.1 hp1 hp2 hr
      simp only [expText, List.cons_append] at this
      rw [this]

/-- `lexFloatBody` on `int exponent` (no dot). -/
theorem lexFloatBody_exp (neg : Bool) {I rest : List Char} (hI : AllDigits I) (hIne : I ≠ []) (en : Bool)
    {eds : List Char} (he : AllDigits eds) (hene : eds ≠ []) (hr : TokEnd rest) :
    lexFloatBody neg (I ++ (expText en eds ++ rest)) = some (mkFloat neg I [] en eds, rest) := by
  have hx := takeWhile_digits hI (show isDigit 'e' = false by decide) (((if en then ['-'] else []) ++ eds) ++ rest)
  simp only [expText, List.cons_append] at hx ⊢
  obtain ⟨h1, h2⟩ := hx
  unfold lexFloatBody
  rw [h1, h2]
  have := lexExponent_some en he hene hr
  simp only [expText, List.cons_append] at this
  cases hIc : I with
  | nil => exact absurd hIc hIne
  | cons i0 I' =>
    simp only [List.append_assoc] at this
    simp [this]

theorem lexRadixBody_none' {ds rest : List Char} (tc tC : Char) (isD : Char → Bool) (radix : Nat) (neg : Bool)
    (hds : AllDigits ds) (htc : tc.toNat < 48 ∨ 57 < tc.toNat) (htC : tC.toNat < 48 ∨ 57 < tC.toNat)
    (hnext : ∀ x ∈ rest.head?, x ≠ tc ∧ x ≠ tC ∧ x ≠ '0') :
    lexRadixBody tc tC isD radix neg (ds ++ rest) = none := by
  unfold lexRadixBody
  split
  · rename_i t r heq
    have ht : t ≠ tc ∧ t ≠ tC := by
      cases ds with
      | nil =>
        simp only [List.nil_append] at heq
        subst heq
        exact absurd rfl (hnext '0' (by simp)).2.2
      | cons d ds' =>
        simp only [List.cons_append, List.cons.injEq] at heq
        cases ds' with
        | nil =>
          simp only [List.nil_append] at heq
          have hr := heq.2
          subst hr
          have := hnext t (by simp)
          exact ⟨this.1, this.2.1⟩
        | cons d2 ds'' =>
          simp only [List.cons_append, List.cons.injEq] at heq
          have hd2 : isDigit d2 = true := hds d2 (by simp)
          rw [← heq.2.1]
          exact ⟨digit_ne hd2 tc htc, digit_ne hd2 tC htC⟩
    simp [ht.1, ht.2]
  · rfl

/-- A number text that continues with `.` or `e` after its integer digits is handed to the float lexer. -/
theorem lexPrim_floatText (neg : Bool) {I t : List Char} (hI : AllDigits I) (hIne : I ≠ []) (c : Char)
    (hc : c = '.' ∨ c = 'e') :
    lexPrim ((if neg then ['-'] else []) ++ (I ++ c :: t)) =
      some (match lexFloatBody neg (I ++ c :: t) with | some r => .ok r | none => .err) := by
  cases hIc : I with
  | nil => exact absurd hIc hIne
  | cons d I' =>
    have hdd : isDigit d = true := hI d (by simp [hIc])
    have hI' : AllDigits (d :: I') := hIc ▸ hI
    have hss : stripSign ((if neg then ['-'] else []) ++ (d :: I' ++ c :: t)) = (neg, d :: I' ++ c :: t) := by
      cases neg
      · simp only [Bool.false_eq_true, ↓reduceIte, List.nil_append, List.cons_append, stripSign]
        have : d ≠ '-' := digit_ne hdd '-' (by decide)
        split
        · rename_i heq; simp only [List.cons.injEq] at heq; exact absurd heq.1 this
        · rfl
      · simp [stripSign]
    have hsp : stripPlusMinus ((if neg then ['-'] else []) ++ (d :: I' ++ c :: t)) = (neg, d :: I' ++ c :: t) := by
      cases neg
      · simpa using stripPlusMinus_digit hdd (I' ++ c :: t)
      · simp [stripPlusMinus]
    have hnext : ∀ (tc : Char), tc ≠ '.' → tc ≠ 'e' → ∀ x ∈ (c :: t).head?, x ≠ tc ∧ (x ≠ tc) ∧ x ≠ '0' := by
      intro tc h1 h2 x hx
      simp at hx; subst hx
      rcases hc with rfl | rfl
      · exact ⟨fun h => h1 h.symm, fun h => h1 h.symm, by decide⟩
      · exact ⟨fun h => h2 h.symm, fun h => h2 h.symm, by decide⟩
    have hb : lexRadix 'b' 'B' isBinDigit 2 ((if neg then ['-'] else []) ++ (d :: I' ++ c :: t)) = none := by
      unfold lexRadix; rw [hss]
      apply lexRadixBody_none' 'b' 'B' _ _ _ hI' (by decide) (by decide)
      intro x hx; simp at hx; subst hx
      rcases hc with rfl | rfl <;> decide
    have hx : lexRadix 'x' 'X' isHexDigit 16 ((if neg then ['-'] else []) ++ (d :: I' ++ c :: t)) = none := by
      unfold lexRadix; rw [hss]
      apply lexRadixBody_none' 'x' 'X' _ _ _ hI' (by decide) (by decide)
      intro x hx; simp at hx; subst hx
      rcases hc with rfl | rfl <;> decide
    have hcd : isDigit c = false := by rcases hc with rfl | rfl <;> decide
    obtain ⟨h1, h2⟩ := takeWhile_digits hI' hcd t
    have hnum : lexNumber ((if neg then ['-'] else []) ++ (d :: I' ++ c :: t)) = lexFloatBody neg (d :: I' ++ c :: t) := by
      unfold lexNumber
      rw [hb, hx]
      unfold lexDecimal
      rw [hss]
      unfold lexDecimalBody
      simp only [h1, h2]
      have : c = '.' ∨ c = 'e' ∨ c = 'E' := by rcases hc with h | h <;> simp [h]
      simp only [List.cons_append] at *
      simp only [this, ↓reduceIte, lexFloat, hsp]
    -- first character: `-` or a digit
    cases neg
    · simp only [Bool.false_eq_true, ↓reduceIte, List.nil_append, List.cons_append] at hnum ⊢
      simp only [lexPrim, digit_ne hdd '"' (by decide), ↓reduceIte, digit_not_identStart hdd, Bool.false_eq_true,
        digit_ne hdd '%' (by decide), hdd, true_or, hnum]
      cases lexFloatBody false (d :: (I' ++ c :: t)) <;> rfl
    · simp only [↓reduceIte, List.cons_append, List.nil_append] at hnum ⊢
      simp only [lexPrim, show ('-' : Char) ≠ '"' by decide, ↓reduceIte, show isIdentStart '-' = false by decide,
        Bool.false_eq_true, show ('-' : Char) ≠ '%' by decide, or_true, true_or, hnum]
      cases lexFloatBody true (d :: (I' ++ c :: t)) <;> rfl


theorem stripZeros_pow (m : Nat) (hm : m % 10 ≠ 0) : ∀ (j fuel : Nat) (e : Int), j < fuel →
    stripZeros fuel (m * 10 ^ j) e = (m, e + j)
  | 0, fuel, e, h => by
    obtain ⟨f, rfl⟩ : ∃ f, fuel = f + 1 := ⟨fuel - 1, by omega⟩
    have : m ≠ 0 := by intro h0; subst h0; simp at hm
    simp [stripZeros, this, hm]
  | j + 1, fuel, e, h => by
    obtain ⟨f, rfl⟩ : ∃ f, fuel = f + 1 := ⟨fuel - 1, by omega⟩
    have hm0 : m ≠ 0 := by intro h0; subst h0; simp at hm
    have hne : m * 10 ^ (j + 1) ≠ 0 := by
      have : 0 < m * 10 ^ (j + 1) := Nat.mul_pos (Nat.pos_of_ne_zero hm0) (Nat.pow_pos (by decide))
      omega
    have hmod : m * 10 ^ (j + 1) % 10 = 0 := by rw [Nat.pow_succ, ← Nat.mul_assoc]; exact Nat.mul_mod_left _ _
    have hdiv : m * 10 ^ (j + 1) / 10 = m * 10 ^ j := by
      rw [Nat.pow_succ, ← Nat.mul_assoc]; exact Nat.mul_div_cancel _ (by decide)
    rw [stripZeros]
    simp only [hne, ↓reduceIte, hmod, hdiv]
    rw [stripZeros_pow m hm j f (e + 1) (by omega)]
    simp only [Prod.mk.injEq, true_and]; omega

theorem stripZeros_zero (fuel : Nat) (e : Int) : stripZeros (fuel + 1) 0 e = (0, 0) := by simp [stripZeros]

theorem ofDigits_append (a b : List Char) :
    Nat.ofDigitChars 10 (a ++ b) 0 = Nat.ofDigitChars 10 a 0 * 10 ^ b.length + Nat.ofDigitChars 10 b 0 := by
  rw [Nat.ofDigitChars_append, Nat.ofDigitChars_eq_ofDigitChars_zero (l := b)]
  rw [Nat.mul_comm]

theorem ofDigits_zeros (n : Nat) : Nat.ofDigitChars 10 (List.replicate n '0') 0 = 0 := by simp

theorem ofDigits_natChars (m : Nat) : Nat.ofDigitChars 10 (natChars m) 0 = m := Nat.ofDigitChars_ten_toDigits

theorem zeros_digits (n : Nat) : AllDigits (List.replicate n '0') := by
  intro c hc; simp at hc; rw [hc.2]; decide

theorem allDigits_append {a b : List Char} (ha : AllDigits a) (hb : AllDigits b) : AllDigits (a ++ b) := by
  intro c hc; rcases List.mem_append.mp hc with h | h
  · exact ha c h
  · exact hb c h

/-- The exponent as `intChars` writes it: sign flag and digits. -/
theorem intChars_exp (z : Int) :
    ∃ en eds, 'e' :: intChars z = expText en eds ∧ AllDigits eds ∧ eds ≠ [] ∧
      (if en then -(Nat.ofDigitChars 10 eds 0 : Int) else (Nat.ofDigitChars 10 eds 0 : Int)) = z := by
  cases z with
  | ofNat n =>
    exact ⟨false, natChars n, by simp [expText, intChars], natChars_digits n, natChars_ne_nil n,
      by simp [ofDigits_natChars]⟩
  | negSucc n =>
    exact ⟨true, natChars (n + 1), by simp [expText, intChars], natChars_digits _, natChars_ne_nil _,
      by simp [ofDigits_natChars, Int.negSucc_eq]⟩

/-- `mkFloat` when the digits are exactly those of `m` (possibly after leading zeros) and no zero has to be stripped. -/
theorem mkFloat_exact (neg : Bool) {I Fr eds : List Char} (en : Bool) (m : Nat) (e : Int) (hm : m % 10 ≠ 0)
    (hv : Nat.ofDigitChars 10 (I ++ Fr) 0 = m)
    (he : (if en then -(Nat.ofDigitChars 10 eds 0 : Int) else (Nat.ofDigitChars 10 eds 0 : Int)) - Fr.length = e) :
    mkFloat neg I Fr en eds = .float (.fin neg m e) := by
  unfold mkFloat
  simp only [hv, he]
  have := stripZeros_pow m hm 0 (I.length + Fr.length + 1) e (by omega)
  simp at this
  simp [this]


theorem mkFloat_zero (neg : Bool) {I Fr eds : List Char} (en : Bool)
    (hv : Nat.ofDigitChars 10 (I ++ Fr) 0 = 0) : mkFloat neg I Fr en eds = .float (.fin neg 0 0) := by
  unfold mkFloat
  simp only [hv]
  rw [stripZeros_zero]

theorem take_drop_digits {ds : List Char} (h : AllDigits ds) (k : Nat) :
    AllDigits (ds.take k) ∧ AllDigits (ds.drop k) :=
  ⟨fun c hc => h c (List.mem_of_mem_take hc), fun c hc => h c (List.mem_of_mem_drop hc)⟩

theorem signText (neg : Bool) : (if neg then ['-'] else ([] : List Char)) = (if neg = true then ['-'] else []) := rfl

/-- `{:e}` layout of the shortest decimal is lexed back. -/
theorem lexPrim_expChars (neg : Bool) (m : Nat) (e : Int) (hc : m % 10 ≠ 0 ∨ (m = 0 ∧ e = 0)) {rest : List Char}
    (hr : TokEnd rest) :
    lexPrim (expChars (.fin neg m e) ++ rest) = some (.ok (.float (.fin neg m e), rest)) := by
  have hds := natChars_digits m
  have hne := natChars_ne_nil m
  obtain ⟨en, eds, hexp, hed, hedne, hez⟩ := intChars_exp (e + ((natChars m).length : Int) - 1)
  have hexp' : ∀ r : List Char, 'e' :: (intChars (e + ((natChars m).length : Int) - 1) ++ r) = expText en eds ++ r := by
    intro r; rw [← hexp]; rfl
  simp only [expChars]
  by_cases hL : (natChars m).length = 1
  · rw [if_pos hL]
    simp only [List.append_assoc, List.cons_append]
    rw [hexp']
    have := lexFloatBody_exp neg hds hne en hed hedne hr
    simp only [expText, List.cons_append] at this ⊢
    rw [lexPrim_floatText neg hds hne 'e' (Or.inr rfl), this]
    rcases hc with hm | ⟨rfl, rfl⟩
    · rw [mkFloat_exact neg en m e hm (by simp [ofDigits_natChars]) (by simp; rw [hL] at hez; omega)]
    · rw [mkFloat_zero neg en (by simp [ofDigits_natChars])]
  · have hm : m % 10 ≠ 0 := by
      rcases hc with hm | ⟨rfl, _⟩
      · exact hm
      · exact absurd (by decide : (natChars 0).length = 1) hL
    have hLpos : 1 ≤ (natChars m).length := by
      cases h : natChars m with
      | nil => exact absurd h hne
      | cons _ _ => simp
    obtain ⟨hI, hF⟩ := take_drop_digits hds 1
    have hIne : (natChars m).take 1 ≠ [] := by
      cases h : natChars m with
      | nil => exact absurd h hne
      | cons _ _ => simp
    rw [if_neg hL]
    simp only [List.append_assoc, List.cons_append]
    rw [hexp']
    rw [lexPrim_floatText neg hI hIne '.' (Or.inl rfl)]
    have := lexFloatBody_dot neg hI hIne hF (some (en, eds)) (by intro p hp; cases hp; exact ⟨hed, hedne⟩) hr
    simp only at this
    rw [this]
    rw [mkFloat_exact neg en m e hm (by rw [List.take_append_drop]; exact ofDigits_natChars m)
      (by simp only [List.length_drop]; omega)]


/-- `mkFloat` when `j` zeros have to be stripped. -/
theorem mkFloat_strip (neg : Bool) {I Fr : List Char} (m j : Nat) (e : Int) (hm : m % 10 ≠ 0)
    (hv : Nat.ofDigitChars 10 (I ++ Fr) 0 = m * 10 ^ j) (hj : j < I.length + Fr.length + 1)
    (he : (0 : Int) - Fr.length + j = e) :
    mkFloat neg I Fr false [] = .float (.fin neg m e) := by
  unfold mkFloat
  simp only [hv, Bool.false_eq_true, ↓reduceIte, Nat.ofDigitChars_nil]
  rw [stripZeros_pow m hm j _ _ hj]
  simp only [Int.ofNat_zero] at he ⊢
  rw [he]

theorem zero_digit : AllDigits ['0'] := by intro c hc; simp at hc; subst hc; decide

/-- `ryu` layout of the shortest decimal is lexed back. -/
theorem lexPrim_ryuChars (neg : Bool) (m : Nat) (e : Int) (hc : m % 10 ≠ 0 ∨ (m = 0 ∧ e = 0)) {rest : List Char}
    (hr : TokEnd rest) :
    lexPrim (ryuChars (.fin neg m e) ++ rest) = some (.ok (.float (.fin neg m e), rest)) := by
  have hds := natChars_digits m
  have hne := natChars_ne_nil m
  have hLpos : 1 ≤ (natChars m).length := by
    cases h : natChars m with
    | nil => exact absurd h hne
    | cons _ _ => simp
  simp only [ryuChars]
  by_cases hm0 : m = 0
  · -- zero
    have he0 : e = 0 := by
      rcases hc with h | h
      · subst hm0; simp at h
      · exact h.2
    subst hm0; subst he0
    rw [if_pos rfl]
    have := lexFloatBody_dot neg zero_digit (by simp) zero_digit none (by intro p hp; cases hp) hr
    simp only [List.cons_append, List.nil_append] at this
    have hshape : (if neg = true then ['-'] else []) ++ "0.0".toList ++ rest =
        (if neg = true then ['-'] else []) ++ (['0'] ++ '.' :: (['0'] ++ rest)) := by simp
    rw [hshape, lexPrim_floatText neg zero_digit (by simp) '.' (Or.inl rfl)]
    simp only [List.cons_append, List.nil_append, this]
    rw [mkFloat_zero neg false (by decide)]
  · have hm : m % 10 ≠ 0 := by
      rcases hc with h | h
      · exact h
      · exact absurd h.1 hm0
    rw [if_neg hm0]
    simp only [List.append_assoc]
    by_cases h1 : 0 ≤ e ∧ ((natChars m).length : Int) + e ≤ 16
    · -- digits, zeros, `.0`
      rw [if_pos h1]
      have hI : AllDigits (natChars m ++ List.replicate e.toNat '0') := allDigits_append hds (zeros_digits _)
      have hIne : natChars m ++ List.replicate e.toNat '0' ≠ [] := by simp [hne]
      have := lexFloatBody_dot neg hI hIne zero_digit none (by intro p hp; cases hp) hr
      simp only [List.nil_append] at this
      have hshape : natChars m ++ (List.replicate e.toNat '0' ++ ".0".toList) ++ rest =
          (natChars m ++ List.replicate e.toNat '0') ++ '.' :: (['0'] ++ rest) := by simp
      rw [hshape, lexPrim_floatText neg hI hIne '.' (Or.inl rfl), this]
      rw [mkFloat_strip neg m (e.toNat + 1) e hm
        (by rw [ofDigits_append, ofDigits_append, ofDigits_natChars, ofDigits_zeros]
            simp [Nat.pow_succ, Nat.mul_assoc, show Nat.ofDigitChars 10 ['0'] 0 = 0 by decide])
        (by simp only [List.length_append, List.length_replicate, List.length_cons, List.length_nil]; omega)
        (by simp only [List.length_cons, List.length_nil]; omega)]
    · rw [if_neg h1]
      by_cases h2 : 0 < ((natChars m).length : Int) + e ∧ ((natChars m).length : Int) + e ≤ 16
      · -- point inside the digits
        rw [if_pos h2]
        obtain ⟨hI, hF⟩ := take_drop_digits hds (((natChars m).length : Int) + e).toNat
        have hk : 1 ≤ (((natChars m).length : Int) + e).toNat ∧
            (((natChars m).length : Int) + e).toNat < (natChars m).length := by omega
        have hIne : (natChars m).take (((natChars m).length : Int) + e).toNat ≠ [] := by
          intro h
          have := congrArg List.length h
          simp only [List.length_take, List.length_nil] at this
          omega
        have := lexFloatBody_dot neg hI hIne hF none (by intro p hp; cases hp) hr
        simp only [List.nil_append] at this
        simp only [List.cons_append, List.append_assoc]
        rw [lexPrim_floatText neg hI hIne '.' (Or.inl rfl), this]
        rw [mkFloat_exact neg false m e hm (by rw [List.take_append_drop]; exact ofDigits_natChars m)
          (by simp only [List.length_drop]; simp; omega)]
      · rw [if_neg h2]
        by_cases h3 : -5 < ((natChars m).length : Int) + e ∧ ((natChars m).length : Int) + e ≤ 0
        · -- `0.` zeros digits
          rw [if_pos h3]
          have hF : AllDigits (List.replicate (-(((natChars m).length : Int) + e)).toNat '0' ++ natChars m) :=
            allDigits_append (zeros_digits _) hds
          have := lexFloatBody_dot neg zero_digit (by simp) hF none (by intro p hp; cases hp) hr
          simp only [List.nil_append, List.cons_append] at this
          simp only [List.cons_append, List.append_assoc]
          have hshape : ∀ t : List Char, '0' :: '.' :: t = ['0'] ++ '.' :: t := fun _ => rfl
          rw [hshape, lexPrim_floatText neg zero_digit (by simp) '.' (Or.inl rfl)]
          simp only [List.cons_append, List.nil_append, List.append_assoc] at this ⊢
          rw [this]
          rw [mkFloat_exact neg false m e hm
            (by have h0 : ∀ X : List Char, Nat.ofDigitChars 10 ('0' :: X) 0 = Nat.ofDigitChars 10 X 0 := by
                  intro X; rw [Nat.ofDigitChars_cons]; rfl
                show Nat.ofDigitChars 10 ('0' :: (List.replicate _ '0' ++ natChars m)) 0 = m
                rw [h0, ofDigits_append, ofDigits_zeros, ofDigits_natChars]; simp)
            (by simp; omega)]
        · rw [if_neg h3]
          obtain ⟨en, eds, hexp, hed, hedne, hez⟩ := intChars_exp (((natChars m).length : Int) + e - 1)
          have hexp' : ∀ r : List Char, 'e' :: (intChars (((natChars m).length : Int) + e - 1) ++ r) =
              expText en eds ++ r := by intro r; rw [← hexp]; rfl
          by_cases hL : (natChars m).length = 1
          · rw [if_pos hL]
            simp only [List.append_assoc, List.cons_append]
            rw [hexp']
            have := lexFloatBody_exp neg hds hne en hed hedne hr
            simp only [expText, List.cons_append] at this ⊢
            rw [lexPrim_floatText neg hds hne 'e' (Or.inr rfl), this]
            rw [mkFloat_exact neg en m e hm (by simp [ofDigits_natChars]) (by simp; rw [hL] at hez; omega)]
          · rw [if_neg hL]
            obtain ⟨hI, hF⟩ := take_drop_digits hds 1
            have hIne : (natChars m).take 1 ≠ [] := by
              cases h : natChars m with
              | nil => exact absurd h hne
              | cons _ _ => simp
            simp only [List.append_assoc, List.cons_append]
            rw [hexp']
            rw [lexPrim_floatText neg hI hIne '.' (Or.inl rfl)]
            have := lexFloatBody_dot neg hI hIne hF (some (en, eds)) (by intro p hp; cases hp; exact ⟨hed, hedne⟩) hr
            simp only at this
            rw [this]
            rw [mkFloat_exact neg en m e hm (by rw [List.take_append_drop]; exact ofDigits_natChars m)
              (by simp only [List.length_drop]; omega)]


/-- The canonical finite floats: shortest decimals (no trailing zero in the significand; zero is `0e0`). -/
def Flt.isCanon : Flt → Bool
  | .fin _ m e => m % 10 != 0 || (m == 0 && e == 0)
  | _ => false

theorem Flt.canon_cases {neg : Bool} {m : Nat} {e : Int} (h : (Flt.fin neg m e).isCanon = true) :
    m % 10 ≠ 0 ∨ (m = 0 ∧ e = 0) := by
  simp only [Flt.isCanon, Bool.or_eq_true, bne_iff_ne, ne_eq, Bool.and_eq_true, beq_iff_eq] at h
  exact h

/-- A primitive token starts with one of these characters. -/
theorem lexPrim_head {c : Char} {t : List Char} {r : Res (Value × List Char)} (h : lexPrim (c :: t) = some r) :
    c = '"' ∨ isIdentStart c = true ∨ c = '%' ∨ isDigit c = true ∨ c = '-' ∨ c = '+' ∨ c = '.' := by
  unfold lexPrim at h
  simp only at h
  by_cases h1 : c = '"'
  · exact Or.inl h1
  · by_cases h2 : isIdentStart c = true
    · exact Or.inr (Or.inl h2)
    · by_cases h3 : c = '%'
      · exact Or.inr (Or.inr (Or.inl h3))
      · by_cases h4 : isDigit c = true ∨ c = '-' ∨ c = '+' ∨ c = '.'
        · rcases h4 with h | h | h | h
          · exact Or.inr (Or.inr (Or.inr (Or.inl h)))
          · exact Or.inr (Or.inr (Or.inr (Or.inr (Or.inl h))))
          · exact Or.inr (Or.inr (Or.inr (Or.inr (Or.inr (Or.inl h)))))
          · exact Or.inr (Or.inr (Or.inr (Or.inr (Or.inr (Or.inr h)))))
        · simp [h1, h2, h3, h4] at h

end SwimVerif.Recon
