import SwimVerif.Proofs.UplinkSys

set_option linter.unusedSimpArgs false
set_option linter.unusedVariables false
namespace SwimVerif.WT

def respBody? : Resp → Option Body
  | .value b => some (.raw b)
  | .supply b => some (.raw b)
  | .map op => some (.map op)
  | .synced _ => none

theorem pushedBodies_append (l : Nat) (a b : List (Nat × Resp)) :
    pushedBodies l (a ++ b) = pushedBodies l a ++ pushedBodies l b := by
  simp [pushedBodies, List.filterMap_append]

theorem bodiesFor_append (l : Nat) (a b : List (Option Nat × Note)) :
    bodiesFor l (a ++ b) = bodiesFor l a ++ bodiesFor l b := by
  simp [bodiesFor, List.filterMap_append]

theorem pushedBodies_single (l lane : Nat) (r : Resp) :
    pushedBodies l [(lane, r)] = if lane = l then (respBody? r).toList else [] := by
  by_cases h : lane = l
  · subst h; cases r <;> simp [pushedBodies, respBody?]
  · simp [pushedBodies, h]

theorem mem_mqReplace (op : MapOp) (k : Nat) : ∀ (q q' : List MapOp), mqReplace op k q = some q' →
    ∀ x, x ∈ q' → x ∈ q ∨ x = op := by
  intro q
  induction q with
  | nil => intro q' h; simp [mqReplace] at h
  | cons e rest ih =>
    intro q' h x hx
    unfold mqReplace at h
    split at h
    · have : q' = op :: rest := (Option.some.inj h).symm
      subst this
      rcases List.mem_cons.mp hx with rfl | hm
      · right; rfl
      · left; exact List.mem_cons_of_mem _ hm
    · split at h
      · rename_i r hr
        have : q' = e :: r := (Option.some.inj h).symm
        subst this
        rcases List.mem_cons.mp hx with rfl | hm
        · left; exact List.mem_cons_self
        · rcases ih r hr x hm with h1 | h1
          · left; exact List.mem_cons_of_mem _ h1
          · right; exact h1
      · simp at h

theorem mem_mqPush (q : List MapOp) (op x : MapOp) (h : x ∈ mqPush q op) : x ∈ q ∨ x = op := by
  unfold mqPush at h
  split at h
  · simp at h; right; rw [h]; cases op <;> simp_all [MapOp.key?]
  · rename_i k hk
    split at h
    · rename_i q' hq; exact mem_mqReplace op k q q' hq x h
    · rcases List.mem_append.mp h with h1 | h1
      · left; exact h1
      · right; simpa using h1

/-! ### What each operation does to the buffers and which bodies a returned write carries -/

theorem specialWrite_bodies (reg : Registry) (a : Special) (l : Nat) :
    writeBodies l (some (specialWrite reg a)) = [] := by
  cases a <;> simp [writeBodies, specialWrite, tagNotes, bodiesFor]

theorem buf_pushSpecial (u : Uplinks) (a : Special) (reg : Registry) (l : Nat) (b : Body)
    (h : b ∈ bufBodies (u.pushSpecial a reg).1 l) : b ∈ bufBodies u l := by
  unfold Uplinks.pushSpecial at h
  split at h
  · exact h
  · cases a with
    | linked id => exact h
    | laneNotFound n => exact h
    | unlinked id m =>
      simp only [bufBodies, bufValue, bufSupply, bufMap, alGet_alErase] at h ⊢
      by_cases hid : id = l
      · subst hid; simp at h
      · simpa [hid] using h

theorem write_pushSpecial (u : Uplinks) (a : Special) (reg : Registry) (l : Nat) :
    writeBodies l (u.pushSpecial a reg).2 = [] := by
  unfold Uplinks.pushSpecial
  split
  · exact specialWrite_bodies reg a l
  · rfl

theorem directNotes_bodies (lane l : Nat) (ev : Resp) (name : Option Nat) :
    writeBodies l (some ⟨name, directNotes ev, some lane⟩) = if lane = l then (respBody? ev).toList else [] := by
  by_cases h : lane = l
  · subst h; cases ev <;> simp [writeBodies, tagNotes, bodiesFor, directNotes, respBody?]
  · cases ev <;> simp [writeBodies, tagNotes, bodiesFor, directNotes, respBody?, h]

/-- After a push, a lane's buffers hold only what they held before, or the pushed body. -/
theorem buf_push (u : Uplinks) (lane : Nat) (ev : Resp) (reg : Registry) (l : Nat) (b : Body)
    (h : b ∈ bufBodies (u.push lane ev reg).1 l) :
    b ∈ bufBodies u l ∨ (lane = l ∧ respBody? ev = some b) := by
  unfold Uplinks.push at h
  split at h
  · left; exact h
  · by_cases hl : lane = l
    · subst hl
      cases ev with
      | value x =>
        simp only [bufBodies, bufValue, bufSupply, bufMap, alGet_alSet_same, List.mem_append] at h ⊢
        rcases h with (h | h) | h
        · right; simp at h; simp [respBody?, h]
        · left; left; right; exact h
        · left; right; exact h
      | supply x =>
        simp only [bufBodies, bufValue, bufSupply, bufMap, alGet_alSet_same, List.mem_append] at h ⊢
        rcases h with (h | h) | h
        · left; left; left; exact h
        · simp only [List.map_append, List.mem_append, List.map_cons, List.map_nil, List.mem_singleton] at h
          rcases h with h | h
          · left; left; right
            cases hg : alGet u.supply lane with
            | none => simp [hg] at h
            | some up => simpa [hg] using h
          · right; simp [respBody?, h]
        · left; right; exact h
      | map op =>
        simp only [bufBodies, bufValue, bufSupply, bufMap, alGet_alSet_same, List.mem_append] at h ⊢
        rcases h with (h | h) | h
        · left; left; left; exact h
        · left; left; right; exact h
        · simp only [List.mem_map] at h
          obtain ⟨x, hx, rfl⟩ := h
          rcases mem_mqPush _ _ _ hx with h1 | h1
          · left; right
            cases hg : alGet u.map lane with
            | none => simp [hg] at h1
            | some up => simp [hg] at h1 ⊢; exact h1
          · right; simp [respBody?, h1]
      | synced k =>
        left
        cases k with
        | value =>
          simp only [bufBodies, bufValue, bufSupply, bufMap, alGet_alSet_same, List.mem_append] at h ⊢
          rcases h with (h | h) | h
          · left; left
            cases hg : alGet u.value lane with
            | none => simp [hg] at h
            | some up => simpa [hg] using h
          · left; right; exact h
          · right; exact h
        | supply =>
          simp only [bufBodies, bufValue, bufSupply, bufMap, alGet_alSet_same, List.mem_append] at h ⊢
          rcases h with (h | h) | h
          · left; left; exact h
          · left; right
            cases hg : alGet u.supply lane with
            | none => simp [hg] at h
            | some up => simpa [hg] using h
          · right; exact h
        | map =>
          simp only [bufBodies, bufValue, bufSupply, bufMap, alGet_alSet_same, List.mem_append] at h ⊢
          rcases h with (h | h) | h
          · left; left; exact h
          · left; right; exact h
          · right
            cases hg : alGet u.map lane with
            | none => simp [hg] at h
            | some up => simpa [hg] using h
    · left
      cases ev with
      | value x => simpa [bufBodies, bufValue, bufSupply, bufMap, alGet_alSet_ne _ _ hl] using h
      | supply x => simpa [bufBodies, bufValue, bufSupply, bufMap, alGet_alSet_ne _ _ hl] using h
      | map op => simpa [bufBodies, bufValue, bufSupply, bufMap, alGet_alSet_ne _ _ hl] using h
      | synced k => cases k <;> simpa [bufBodies, bufValue, bufSupply, bufMap, alGet_alSet_ne _ _ hl] using h

theorem write_push (u : Uplinks) (lane : Nat) (ev : Resp) (reg : Registry) (l : Nat) (b : Body)
    (h : b ∈ writeBodies l (u.push lane ev reg).2) : lane = l ∧ respBody? ev = some b := by
  unfold Uplinks.push at h
  split at h
  · rw [directNotes_bodies] at h
    split at h
    · rename_i hl
      refine ⟨hl, ?_⟩
      cases hr : respBody? ev with
      | none => simp [hr] at h
      | some x => simp [hr] at h; rw [h]
    · simp at h
  · cases ev with
    | synced k => cases k <;> simp [writeBodies] at h
    | value x => simp [writeBodies] at h
    | supply x => simp [writeBodies] at h
    | map op => simp [writeBodies] at h

theorem bufBodies_writeQueue (u : Uplinks) (q : List (Kind × Nat)) (l : Nat) :
    bufBodies { u with writeQueue := q } l = bufBodies u l := rfl

theorem buf_popEntry (u : Uplinks) (k : Kind) (l0 : Nat) (reg : Registry) (l : Nat) (b : Body)
    (h : b ∈ bufBodies (u.popEntry k l0 reg).1 l) : b ∈ bufBodies u l := by
  cases k with
  | value =>
    simp only [Uplinks.popEntry] at h
    cases hg : alGet u.value l0 with
    | none => simpa [hg] using h
    | some up =>
      simp only [hg] at h
      by_cases hl : l0 = l
      · subst hl
        simp only [bufBodies, bufValue, bufSupply, bufMap, alGet_alSet_same, List.mem_append] at h ⊢
        rcases h with (h | h) | h
        · simp at h
        · left; right; exact h
        · right; exact h
      · simpa [bufBodies, bufValue, bufSupply, bufMap, alGet_alSet_ne _ _ hl] using h
  | supply =>
    simp only [Uplinks.popEntry] at h
    cases hg : alGet u.supply l0 with
    | none => simpa [hg] using h
    | some up =>
      simp only [hg] at h
      by_cases hl : l0 = l
      · subst hl
        simp only [bufBodies, bufValue, bufSupply, bufMap, alGet_alSet_same, List.mem_append, hg] at h ⊢
        rcases h with (h | h) | h
        · left; left; exact h
        · left; right
          simp only [List.mem_map] at h ⊢
          obtain ⟨x, hx, rfl⟩ := h
          exact ⟨x, List.mem_of_mem_tail hx, rfl⟩
        · right; exact h
      · simpa [bufBodies, bufValue, bufSupply, bufMap, alGet_alSet_ne _ _ hl] using h
  | map =>
    simp only [Uplinks.popEntry] at h
    cases hg : alGet u.map l0 with
    | none => simpa [hg] using h
    | some up =>
      simp only [hg] at h
      by_cases hl : l0 = l
      · subst hl
        split at h
        · simp only [bufBodies, bufValue, bufSupply, bufMap, alGet_alSet_same, List.mem_append, hg] at h ⊢
          rcases h with (h | h) | h
          · left; left; exact h
          · left; right; exact h
          · simp at h
        · split at h
          · simp only [bufBodies, bufValue, bufSupply, bufMap, alGet_alSet_same, List.mem_append, hg] at h ⊢
            rcases h with (h | h) | h
            · left; left; exact h
            · left; right; exact h
            · simp at h
          · rename_i op rest hb
            simp only [bufBodies, bufValue, bufSupply, bufMap, alGet_alSet_same, List.mem_append, hg] at h ⊢
            rcases h with (h | h) | h
            · left; left; exact h
            · left; right; exact h
            · right
              simp only [List.mem_map] at h ⊢
              obtain ⟨x, hx, rfl⟩ := h
              exact ⟨x, by rw [hb]; exact List.mem_cons_of_mem _ hx, rfl⟩
      · split at h
        · simpa [bufBodies, bufValue, bufSupply, bufMap, alGet_alSet_ne _ _ hl] using h
        · split at h
          · simpa [bufBodies, bufValue, bufSupply, bufMap, alGet_alSet_ne _ _ hl] using h
          · simpa [bufBodies, bufValue, bufSupply, bufMap, alGet_alSet_ne _ _ hl] using h

def noteBody? : Note → Option Body
  | .event b => some b
  | _ => none

theorem bodiesFor_tag (l l0 : Nat) (name : Option Nat) (notes : List Note) :
    bodiesFor l (tagNotes ⟨name, notes, some l0⟩) = if l0 = l then notes.filterMap noteBody? else [] := by
  simp only [tagNotes, bodiesFor, List.filterMap_map]
  by_cases h : l0 = l
  · subst h
    simp only [if_true]
    congr 1
    funext n
    cases n <;> simp [noteBody?]
  · simp only [h, if_false]
    rw [List.filterMap_eq_nil_iff]
    intro n _
    cases n <;> simp [h]

theorem filterMap_synced (c : Bool) : (if c = true then [Note.synced] else []).filterMap noteBody? = [] := by
  cases c <;> simp [noteBody?]

theorem write_popEntry (u : Uplinks) (k : Kind) (l0 : Nat) (reg : Registry) (l : Nat) (b : Body)
    (h : b ∈ writeBodies l (u.popEntry k l0 reg).2) : b ∈ bufBodies u l := by
  cases k with
  | value =>
    simp only [Uplinks.popEntry] at h
    cases hg : alGet u.value l0 with
    | none => simp [hg, writeBodies] at h
    | some up =>
      simp only [hg] at h
      by_cases hne : ((if up.bp.pending = true then [Note.event (Body.raw up.bp.current)] else []) ++
          if up.sendSynced = true then [Note.synced] else []).isEmpty = true
      · rw [if_pos hne] at h; simp [writeBodies] at h
      · rw [if_neg hne] at h
        simp only [writeBodies, bodiesFor_tag] at h
        by_cases hl : l0 = l
        · subst hl
          simp only [if_true, List.filterMap_append, filterMap_synced, List.append_nil] at h
          by_cases hp : up.bp.pending = true
          · simp [hp, noteBody?] at h; subst h
            simp [bufBodies, bufValue, hg, hp]
          · simp [hp] at h
        · simp [hl] at h
  | supply =>
    simp only [Uplinks.popEntry] at h
    cases hg : alGet u.supply l0 with
    | none => simp [hg, writeBodies] at h
    | some up =>
      simp only [hg] at h
      cases hbp : up.bp with
      | nil =>
        cases hs : up.sendSynced <;>
          simp [hbp, hs, writeBodies, bodiesFor_tag, noteBody?] at h
      | cons x xs =>
        by_cases hl : l0 = l
        · subst hl
          cases hs : up.sendSynced <;>
            simp [hbp, hs, writeBodies, bodiesFor_tag, noteBody?] at h <;>
            (subst h; simp [bufBodies, bufSupply, hg, hbp])
        · cases hs : up.sendSynced <;>
            simp [hbp, hs, writeBodies, bodiesFor_tag, noteBody?, hl] at h
  | map =>
    simp only [Uplinks.popEntry] at h
    cases hg : alGet u.map l0 with
    | none => simp [hg, writeBodies] at h
    | some up =>
      simp only [hg] at h
      by_cases hs : up.sendSynced = true
      · rw [if_pos hs] at h
        simp only [writeBodies, bodiesFor_tag] at h
        by_cases hl : l0 = l
        · subst hl
          simp only [if_true, List.filterMap_append, List.filterMap_map] at h
          simp only [List.mem_append, List.mem_filterMap, Function.comp] at h
          rcases h with ⟨op, hop, hb⟩ | h
          · simp [noteBody?] at hb; subst hb
            simp only [bufBodies, bufMap, hg, List.mem_append, List.mem_map]
            right; exact ⟨op, hop, rfl⟩
          · simp [noteBody?] at h
        · simp [hl] at h
      · rw [if_neg hs] at h
        cases hbp : up.bp with
        | nil => simp [hbp, writeBodies] at h
        | cons op rest =>
          simp only [hbp, writeBodies, bodiesFor_tag] at h
          by_cases hl : l0 = l
          · subst hl
            simp [noteBody?] at h; subst h
            simp [bufBodies, bufMap, hg, hbp]
          · simp [hl] at h

theorem buf_writerHome (u : Uplinks) (b : Bool) (l : Nat) : bufBodies { u with writerHome := b } l = bufBodies u l := rfl
theorem buf_specialQueue (u : Uplinks) (q : List Special) (l : Nat) :
    bufBodies { u with specialQueue := q } l = bufBodies u l := rfl

theorem popLoop_bodies (reg : Registry) (l : Nat) (b : Body) : ∀ (fuel : Nat) (u : Uplinks),
    (b ∈ bufBodies (u.popLoop reg fuel).1 l ∨ b ∈ writeBodies l (u.popLoop reg fuel).2) → b ∈ bufBodies u l := by
  intro fuel
  induction fuel with
  | zero =>
    intro u h
    simp only [Uplinks.popLoop, writeBodies] at h
    rcases h with h | h
    · exact h
    · simp at h
  | succ fuel ih =>
    intro u h
    unfold Uplinks.popLoop at h
    cases hq : u.writeQueue with
    | nil =>
      simp only [hq, writeBodies] at h
      rcases h with h | h
      · exact h
      · simp at h
    | cons e rest =>
      obtain ⟨k0, l0⟩ := e
      simp only [hq] at h
      cases hr : (Uplinks.popEntry { u with writeQueue := rest } k0 l0 reg).2 with
      | some w =>
        simp only [hr] at h
        rcases h with h | h
        · exact buf_popEntry { u with writeQueue := rest } k0 l0 reg l b h
        · exact write_popEntry { u with writeQueue := rest } k0 l0 reg l b (by rw [hr]; exact h)
      | none =>
        simp only [hr] at h
        have := ih _ h
        exact buf_popEntry { u with writeQueue := rest } k0 l0 reg l b this

theorem replaceAndPop_bodies (u : Uplinks) (reg : Registry) (l : Nat) (b : Body)
    (h : b ∈ bufBodies (u.replaceAndPop reg).1 l ∨ b ∈ writeBodies l (u.replaceAndPop reg).2) :
    b ∈ bufBodies u l := by
  unfold Uplinks.replaceAndPop at h
  cases hs : u.specialQueue with
  | cons sp rest =>
    simp only [hs] at h
    rcases h with h | h
    · exact h
    · rw [specialWrite_bodies] at h; simp at h
  | nil =>
    simp only [hs] at h
    exact popLoop_bodies reg l b _ u h

/-- **No fabrication**: whatever sits in a lane's buffers, is in flight, or has been handed to the channel as an
event body for lane `l` was pushed for lane `l`. -/
structure FInv (s : USys) : Prop where
  buf : ∀ l b, b ∈ bufBodies s.up l → b ∈ pushedBodies l s.pushed
  sent : ∀ l b, b ∈ bodiesFor l s.sent → b ∈ pushedBodies l s.pushed

theorem sent_eq (s : USys) (l : Nat) :
    bodiesFor l s.sent = bodiesFor l s.delivered ++ writeBodies l s.inflight := by
  unfold USys.sent writeBodies
  rw [bodiesFor_append]
  cases s.inflight <;> simp [bodiesFor]

theorem finv_init : FInv {} := by
  constructor <;> intro l b h <;> simp [bufBodies, bufValue, bufSupply, bufMap, alGet, USys.sent, bodiesFor] at h

theorem finv_step (reg : Registry) {s : USys} (hu : UInv s) (h : FInv s) (op : UOp) : FInv (ustep reg s op) := by
  cases op with
  | special a =>
    simp only [ustep]
    constructor
    · intro l b hb; exact h.buf l b (buf_pushSpecial _ a reg l b hb)
    · intro l b hb
      rw [sent_eq] at hb
      simp only at hb
      have hw := write_pushSpecial s.up a reg l
      cases hr : (s.up.pushSpecial a reg).2 with
      | none =>
        simp only [hr] at hb
        exact h.sent l b (by rw [sent_eq]; exact hb)
      | some w =>
        simp only [hr] at hb hw
        rw [hw] at hb
        simp only [List.append_nil] at hb
        exact h.sent l b (by rw [sent_eq]; exact List.mem_append_left _ hb)
  | push lane resp =>
    simp only [ustep]
    constructor
    · intro l b hb
      rw [pushedBodies_append, pushedBodies_single]
      rcases buf_push _ lane resp reg l b hb with h1 | ⟨h1, h2⟩
      · exact List.mem_append_left _ (h.buf l b h1)
      · exact List.mem_append_right _ (by simp [h1, h2])
    · intro l b hb
      rw [sent_eq] at hb
      simp only at hb
      rw [pushedBodies_append, pushedBodies_single]
      cases hr : (s.up.push lane resp reg).2 with
      | none =>
        simp only [hr] at hb
        exact List.mem_append_left _ (h.sent l b (by rw [sent_eq]; exact hb))
      | some w =>
        simp only [hr] at hb
        rcases List.mem_append.mp hb with h1 | h1
        · exact List.mem_append_left _ (h.sent l b (by rw [sent_eq]; exact List.mem_append_left _ h1))
        · have := write_push s.up lane resp reg l b (by rw [hr]; exact h1)
          exact List.mem_append_right _ (by simp [this.1, this.2])
  | done =>
    simp only [ustep]
    cases hi : s.inflight with
    | none => simpa [hi] using h
    | some w =>
      simp only []
      constructor
      · intro l b hb
        exact h.buf l b (replaceAndPop_bodies s.up reg l b (Or.inl hb))
      · intro l b hb
        rw [sent_eq] at hb
        simp only at hb
        rw [bodiesFor_append] at hb
        rcases List.mem_append.mp hb with h1 | h1
        · apply h.sent l b
          rw [sent_eq, hi]
          simpa [writeBodies] using h1
        · exact h.buf l b (replaceAndPop_bodies s.up reg l b (Or.inr h1))

theorem finv_run (reg : Registry) {s : USys} (hu : UInv s) (h : FInv s) (ops : List UOp) :
    FInv (urun reg s ops) := by
  induction ops generalizing s with
  | nil => exact h
  | cons op ops ih => exact ih (uinv_step reg hu op) (finv_step reg hu h op)

end SwimVerif.WT
