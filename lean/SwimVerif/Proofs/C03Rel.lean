/-
C03 (map lane): the relation between a pending request of the monitor (two replicas + per-key history) and the
`SyncQueue` that serves it (`R`), and how single steps of the lane preserve it.

For a replica `rep` of the requesting remote, key by key (`Cons`): either the replica already holds a value the lane
held since the request, or an entry among the first `pending` entries of the event queue will overwrite it before
`synced`, or the key is still in the snapshot to be sent and the replica holds nothing for it.
-/
import SwimVerif.Proofs.C03Pop
import SwimVerif.Proofs.C03Mon

set_option linter.unusedVariables false
set_option linter.unusedSimpArgs false
namespace SwimVerif.ML

/-- emitting `a` overwrites key `k` in every replica -/
def covers (a : Act) (k : Nat) : Prop := a.key? = none ∨ a.key? = some k

def Covered (ev : List Act) (n k : Nat) : Prop := ∃ (i : Nat) (a : Act), i < n ∧ ev[i]? = some a ∧ covers a k

def Queued (ev : List Act) (n k : Nat) : Prop := ∃ (i : Nat) (a : Act), i < n ∧ ev[i]? = some a ∧ a.key? = some k

def Cons (ev : List Act) (rep : List (Nat × Nat)) (p : Pending) (sq : SyncQ) (k : Nat) : Prop :=
  alGet rep k ∈ allowedOf p k ∨ Covered ev sq.pending k ∨ (k ∈ sq.keys ∧ alGet rep k = none)

structure R (c : List (Nat × Nat)) (ev : List Act) (p : Pending) (sq : SyncQ) : Prop where
  r : p.r = sq.r
  cur_hist : ∀ k, alGet c k ∈ allowedOf p k
  linked : ∀ k, Cons ev p.linkedRep p sq k
  fresh : ∀ k, Cons ev p.freshRep p sq k
  clear_hist : ev[0]? = some .clear → ∀ k, none ∈ allowedOf p k ∨ Queued ev sq.pending k

/-! ### pairing of two lists -/

def Rel (P : Pending → SyncQ → Prop) : List Pending → List SyncQ → Prop
  | [], [] => True
  | p :: ps, q :: qs => P p q ∧ Rel P ps qs
  | _, _ => False

theorem rel_map {P P' : Pending → SyncQ → Prop} (f : Pending → Pending) (g : SyncQ → SyncQ)
    (h : ∀ p q, P p q → P' (f p) (g q)) : ∀ (ps : List Pending) (qs : List SyncQ), Rel P ps qs →
    Rel P' (ps.map f) (qs.map g) := by
  intro ps
  induction ps with
  | nil => intro qs hr; cases qs <;> simp_all [Rel]
  | cons p ps ih =>
    intro qs hr
    cases qs with
    | nil => simp [Rel] at hr
    | cons q qs =>
      simp only [Rel, List.map_cons] at hr ⊢
      exact ⟨h p q hr.1, ih qs hr.2⟩

theorem rel_mono {P P' : Pending → SyncQ → Prop} (h : ∀ p q, P p q → P' p q) (ps : List Pending) (qs : List SyncQ)
    (hr : Rel P ps qs) : Rel P' ps qs := by
  have := rel_map id id h ps qs hr
  simpa using this

theorem rel_map_left {P P' : Pending → SyncQ → Prop} (f : Pending → Pending)
    (h : ∀ p q, P p q → P' (f p) q) (ps : List Pending) (qs : List SyncQ) (hr : Rel P ps qs) :
    Rel P' (ps.map f) qs := by
  have := rel_map f id h ps qs hr
  simpa using this

theorem rel_append {P : Pending → SyncQ → Prop} (p : Pending) (q : SyncQ) (hp : P p q) :
    ∀ (ps : List Pending) (qs : List SyncQ), Rel P ps qs → Rel P (ps ++ [p]) (qs ++ [q]) := by
  intro ps
  induction ps with
  | nil => intro qs hr; cases qs <;> simp_all [Rel]
  | cons p0 ps ih =>
    intro qs hr
    cases qs with
    | nil => simp [Rel] at hr
    | cons q0 qs =>
      simp only [Rel, List.cons_append] at hr ⊢
      exact ⟨hr.1, ih qs hr.2⟩

theorem rel_nil_right {P : Pending → SyncQ → Prop} (ps : List Pending) (hr : Rel P ps []) : ps = [] := by
  cases ps with
  | nil => rfl
  | cons p ps => simp [Rel] at hr

theorem rel_any {P : Pending → SyncQ → Prop} (hP : ∀ p q, P p q → p.r = q.r) :
    ∀ (ps : List Pending) (qs : List SyncQ) (i : Nat) (q : SyncQ), Rel P ps qs → qs[i]? = some q →
    ps.any (fun p => decide (p.r = q.r)) = true := by
  intro ps
  induction ps with
  | nil => intro qs i q hr hq; cases qs <;> simp_all [Rel]
  | cons p ps ih =>
    intro qs i q hr hq
    cases qs with
    | nil => simp [Rel] at hr
    | cons q0 qs =>
      simp only [Rel] at hr
      cases i with
      | zero =>
        simp at hq; subst hq
        simp [hP p q0 hr.1]
      | succ i =>
        simp at hq
        simp [ih qs i q hr.2 hq]

theorem rel_updFirst {P : Pending → SyncQ → Prop} (hP : ∀ p q, P p q → p.r = q.r) (fr : Frame) (q q' : SyncQ)
    (hq' : q'.r = q.r) (hstep : ∀ p, P p q → P (p.apply fr) q') :
    ∀ (ps : List Pending) (qs : List SyncQ) (i : Nat), Rel P ps qs → (qs.map (·.r)).Nodup → qs[i]? = some q →
    Rel P (updFirst q.r fr ps) (qs.set i q') := by
  intro ps
  induction ps with
  | nil => intro qs i hr _ hq; cases qs <;> simp_all [Rel]
  | cons p ps ih =>
    intro qs i hr hn hq
    cases qs with
    | nil => simp [Rel] at hr
    | cons q0 qs =>
      simp only [Rel] at hr
      simp only [List.map_cons, List.nodup_cons] at hn
      cases i with
      | zero =>
        simp at hq; subst hq
        simp only [updFirst, hP p q0 hr.1, if_true, List.set_cons_zero, Rel]
        exact ⟨hstep p hr.1, hr.2⟩
      | succ i =>
        simp at hq
        have hmem : q.r ∈ qs.map (·.r) := List.mem_map.mpr ⟨q, List.mem_of_getElem? hq, rfl⟩
        have hne : ¬ p.r = q.r := by
          rw [hP p q0 hr.1]
          intro h; rw [h] at hn; exact hn.1 hmem
        simp only [updFirst, hne, if_false, List.set_cons_succ, Rel]
        exact ⟨hr.1, ih qs i hr.2 hn.2 hq⟩

theorem rel_erase {P : Pending → SyncQ → Prop} (hP : ∀ p q, P p q → p.r = q.r) (q : SyncQ) :
    ∀ (ps : List Pending) (qs : List SyncQ) (i : Nat), Rel P ps qs → (qs.map (·.r)).Nodup → qs[i]? = some q →
    ∃ p, ps.find? (fun p => decide (p.r = q.r)) = some p ∧ P p q ∧
      Rel P (ps.eraseP (fun p => decide (p.r = q.r))) (qs.eraseIdx i) := by
  intro ps
  induction ps with
  | nil => intro qs i hr _ hq; cases qs <;> simp_all [Rel]
  | cons p ps ih =>
    intro qs i hr hn hq
    cases qs with
    | nil => simp [Rel] at hr
    | cons q0 qs =>
      simp only [Rel] at hr
      simp only [List.map_cons, List.nodup_cons] at hn
      cases i with
      | zero =>
        simp at hq; subst hq
        refine ⟨p, ?_, hr.1, ?_⟩
        · simp [List.find?_cons, hP p q0 hr.1]
        · simp [List.eraseP_cons, hP p q0 hr.1, hr.2]
      | succ i =>
        simp at hq
        have hmem : q.r ∈ qs.map (·.r) := List.mem_map.mpr ⟨q, List.mem_of_getElem? hq, rfl⟩
        have hne : ¬ p.r = q.r := by
          rw [hP p q0 hr.1]
          intro h; rw [h] at hn; exact hn.1 hmem
        obtain ⟨p1, h1, h2, h3⟩ := ih qs i hr.2 hn.2 hq
        refine ⟨p1, ?_, h2, ?_⟩
        · simp [List.find?_cons, hne, h1]
        · simp only [List.eraseP_cons, hne, decide_false, cond_false, List.eraseIdx_cons_succ, Rel]
          exact ⟨hr.1, h3⟩

/-! ### monotonicity in the history -/

theorem cons_pext {ev : List Act} {rep : List (Nat × Nat)} {p p' : Pending} {sq : SyncQ} {k : Nat}
    (h : Cons ev rep p sq k) (he : ∀ x, x ∈ allowedOf p k → x ∈ allowedOf p' k) : Cons ev rep p' sq k := by
  rcases h with h | h | h
  · exact Or.inl (he _ h)
  · exact Or.inr (Or.inl h)
  · exact Or.inr (Or.inr h)

@[simp] theorem allowedOf_apply (p : Pending) (fr : Frame) (k : Nat) : allowedOf (p.apply fr) k = allowedOf p k := rfl

/-! ### a keyed push (update / remove of key `k`) -/

/-- how the queue changes when an action `a` for key `k` is pushed: replaced in place or appended -/
structure KeyedPush (ev ev' : List Act) (a : Act) (k : Nat) : Prop where
  key : a.key? = some k
  fwd : ∀ (i : Nat) (b : Act), ev[i]? = some b → ∃ b', ev'[i]? = some b' ∧ b'.key? = b.key?
  bwd : ∀ (i : Nat) (b' : Act), ev'[i]? = some b' → b' = a ∨ (ev[i]? = some b' ∧ b'.key? ≠ some k)
  has : ∃ (i : Nat), ev'[i]? = some a

theorem covered_keyedPush {ev ev' : List Act} {a : Act} {k : Nat} (h : KeyedPush ev ev' a k) {n j : Nat}
    (hc : Covered ev n j) : Covered ev' n j := by
  obtain ⟨i, b, hi, hb, hcov⟩ := hc
  obtain ⟨b', hb', hk⟩ := h.fwd i b hb
  exact ⟨i, b', hi, hb', by unfold covers at *; rwa [hk]⟩

theorem queued_keyedPush {ev ev' : List Act} {a : Act} {k : Nat} (h : KeyedPush ev ev' a k) {n j : Nat}
    (hc : Queued ev n j) : Queued ev' n j := by
  obtain ⟨i, b, hi, hb, hcov⟩ := hc
  obtain ⟨b', hb', hk⟩ := h.fwd i b hb
  exact ⟨i, b', hi, hb', by rwa [hk]⟩

theorem head_clear_keyedPush {ev ev' : List Act} {a : Act} {k : Nat} (h : KeyedPush ev ev' a k)
    (hc : ev'[0]? = some .clear) : ev[0]? = some .clear := by
  rcases h.bwd 0 .clear hc with h1 | h1
  · exact absurd h1.symm (key_ne_clear h.key)
  · exact h1.1

theorem R_keyedPush {c c' : List (Nat × Nat)} {ev ev' : List Act} {a : Act} {k : Nat} {nv : Option Nat}
    (h : KeyedPush ev ev' a k) (hc' : ∀ j, alGet c' j = if k = j then nv else alGet c j)
    {p : Pending} {sq : SyncQ} (hr : R c ev p sq) : R c' ev' (p.note k nv) sq := by
  have hx := pext_note p k nv
  constructor
  · exact hr.r
  · intro j
    rw [hc']
    by_cases hj : k = j
    · subst hj; simp only [if_true]; exact mem_note p k nv
    · simp only [hj, if_false]; exact hx.hist j _ (hr.cur_hist j)
  · intro j
    rcases cons_pext (hr.linked j) (hx.hist j) with h1 | h1 | h1
    · exact Or.inl h1
    · exact Or.inr (Or.inl (covered_keyedPush h h1))
    · exact Or.inr (Or.inr h1)
  · intro j
    rcases cons_pext (hr.fresh j) (hx.hist j) with h1 | h1 | h1
    · exact Or.inl h1
    · exact Or.inr (Or.inl (covered_keyedPush h h1))
    · exact Or.inr (Or.inr h1)
  · intro hcl j
    rcases hr.clear_hist (head_clear_keyedPush h hcl) j with h1 | h1
    · exact Or.inl (hx.hist j _ h1)
    · exact Or.inr (queued_keyedPush h h1)

/-! ### `clear` -/

theorem R_clear {c : List (Nat × Nat)} {ev : List Act} {p : Pending} {sq : SyncQ} (hr : R c ev p sq) :
    R [] [.clear] (noteKeys p (c.map (·.1))) sq := by
  have hx := pext_noteKeys (c.map (·.1)) p
  have hnone : ∀ j, none ∈ allowedOf (noteKeys p (c.map (·.1))) j := by
    intro j
    by_cases hj : j ∈ c.map (·.1)
    · exact mem_noteKeys _ p j hj
    · have : alGet c j = none := by
        cases hg : alGet c j with
        | none => rfl
        | some v => exact absurd (mem_keys_of_alGet c j (by rw [hg]; simp)) hj
      have := hr.cur_hist j
      rw [‹alGet c j = none›] at this
      exact hx.hist j _ this
  have hcov : ∀ j, Covered ev sq.pending j → Covered [Act.clear] sq.pending j := by
    rintro j ⟨i, b, hi, _, _⟩
    exact ⟨0, .clear, by omega, by simp, Or.inl rfl⟩
  constructor
  · rw [hx.r]; exact hr.r
  · intro j; simpa using hnone j
  · intro j
    unfold Cons
    rw [hx.linked]
    rcases cons_pext (hr.linked j) (hx.hist j) with h1 | h1 | h1
    · exact Or.inl h1
    · exact Or.inr (Or.inl (hcov j h1))
    · exact Or.inr (Or.inr h1)
  · intro j
    unfold Cons
    rw [hx.fresh]
    rcases cons_pext (hr.fresh j) (hx.hist j) with h1 | h1 | h1
    · exact Or.inl h1
    · exact Or.inr (Or.inl (hcov j h1))
    · exact Or.inr (Or.inr h1)
  · intro _ j; exact Or.inl (hnone j)

/-! ### a new request -/

theorem R_new (c rep : List (Nat × Nat)) (ev : List Act) (r : Nat)
    (hobs : ∀ k, (∀ (i : Nat) (a : Act), ev[i]? = some a → ¬ covers a k) → alGet rep k = alGet c k)
    (hcn : ev[0]? = some .clear → ∀ k, k ∉ qkeys ev → alGet c k = none) :
    R c ev { r := r, linkedRep := rep, freshRep := [], allowed := c.map (fun p => (p.1, [some p.2])) }
      ⟨r, c.map (·.1), ev.length⟩ := by
  constructor
  · rfl
  · intro k; rw [allowedOf_init]; simp
  · intro k
    by_cases hcov : ∃ (i : Nat) (a : Act), ev[i]? = some a ∧ covers a k
    · obtain ⟨i, a, hi, ha⟩ := hcov
      exact Or.inr (Or.inl ⟨i, a, (List.getElem?_eq_some_iff.mp hi).1, hi, ha⟩)
    · left
      rw [allowedOf_init]
      have := hobs k (fun i a hi ha => hcov ⟨i, a, hi, ha⟩)
      simp [this]
  · intro k
    cases hg : alGet c k with
    | none => left; rw [allowedOf_init]; simp [hg]
    | some v =>
      right; right
      exact ⟨mem_keys_of_alGet c k (by rw [hg]; simp), rfl⟩
  · intro hcl k
    by_cases hq : k ∈ qkeys ev
    · obtain ⟨i, a, hi, ha⟩ := qkeys_mem hq
      exact Or.inr ⟨i, a, (List.getElem?_eq_some_iff.mp hi).1, hi, ha⟩
    · left
      rw [allowedOf_init]
      simp [hcn hcl k hq]

/-! ### an event leaves the queue -/

/-- `update_sync_queues` on one queue -/
def SyncQ.afterEvent (sq : SyncQ) : Act → SyncQ
  | .upd k => { sq with keys := removeFirst k sq.keys, pending := sq.pending - 1 }
  | .rem k => { sq with keys := removeFirst k sq.keys, pending := sq.pending - 1 }
  | .clear => { sq with keys := [], pending := sq.pending - 1 }

theorem updateSyncs_eq_map (l : List SyncQ) (a : Act) : updateSyncs l a = l.map (fun sq => sq.afterEvent a) := by
  cases a <;> rfl

theorem mem_removeFirst_of_ne {k j : Nat} (hne : k ≠ j) : ∀ (l : List Nat), j ∈ l → j ∈ removeFirst k l := by
  intro l
  induction l with
  | nil => intro h; simp at h
  | cons x xs ih =>
    intro h
    unfold removeFirst
    by_cases hx : x = k
    · rw [if_pos hx]
      rcases List.mem_cons.mp h with h | h
      · exact absurd (hx ▸ h.symm) hne
      · exact h
    · rw [if_neg hx]
      rcases List.mem_cons.mp h with h | h
      · simp [h]
      · exact List.mem_cons_of_mem _ (ih h)

theorem afterEvent_r (sq : SyncQ) (a : Act) : (sq.afterEvent a).r = sq.r := by cases a <;> rfl
theorem afterEvent_pending (sq : SyncQ) (a : Act) : (sq.afterEvent a).pending = sq.pending - 1 := by cases a <;> rfl

theorem afterEvent_keys_keyed (sq : SyncQ) (a : Act) (k j : Nat) (hk : a.key? = some k) (hne : k ≠ j)
    (hj : j ∈ sq.keys) : j ∈ (sq.afterEvent a).keys := by
  cases a with
  | clear => simp [Act.key?] at hk
  | upd k' =>
    simp [Act.key?] at hk; subst hk
    exact mem_removeFirst_of_ne hne _ hj
  | rem k' =>
    simp [Act.key?] at hk; subst hk
    exact mem_removeFirst_of_ne hne _ hj

theorem covered_tail {a0 : Act} {rest : List Act} {n j : Nat} (h : Covered (a0 :: rest) n j) (h0 : ¬ covers a0 j) :
    Covered rest (n - 1) j := by
  obtain ⟨i, b, hi, hb, hc⟩ := h
  cases i with
  | zero => simp at hb; subst hb; exact absurd hc h0
  | succ i => exact ⟨i, b, by omega, by simpa using hb, hc⟩

/-- a keyed event (`update`/`remove` of `k`) is written; every replica now holds the lane's current value of `k` -/
theorem R_event_keyed {c : List (Nat × Nat)} {a0 : Act} {rest : List Act} {k : Nat} (hk : a0.key? = some k)
    (hch : ∀ (i : Nat), (a0 :: rest)[i]? = some .clear → i = 0) (fr : Frame)
    (hfr : ∀ (rep : List (Nat × Nat)) (j : Nat),
      alGet (applyFrame rep fr) j = if k = j then alGet c k else alGet rep j)
    {p : Pending} {sq : SyncQ} (hr : R c (a0 :: rest) p sq) : R c rest (p.apply fr) (sq.afterEvent a0) := by
  have hcons : ∀ (rep : List (Nat × Nat)) (j : Nat), Cons (a0 :: rest) rep p sq j →
      Cons rest (applyFrame rep fr) (p.apply fr) (sq.afterEvent a0) j := by
    intro rep j hc
    unfold Cons
    rw [hfr rep j, afterEvent_pending]
    by_cases hj : k = j
    · subst hj
      simp only [if_true, allowedOf_apply]
      exact Or.inl (hr.cur_hist k)
    · simp only [hj, if_false, allowedOf_apply]
      have h0 : ¬ covers a0 j := by
        unfold covers
        rw [hk]
        simp [hj]
      rcases hc with h1 | h1 | h1
      · exact Or.inl h1
      · exact Or.inr (Or.inl (covered_tail h1 h0))
      · exact Or.inr (Or.inr ⟨afterEvent_keys_keyed sq a0 k j hk hj h1.1, h1.2⟩)
  constructor
  · rw [afterEvent_r]; exact hr.r
  · exact hr.cur_hist
  · intro j; exact hcons p.linkedRep j (hr.linked j)
  · intro j; exact hcons p.freshRep j (hr.fresh j)
  · intro hcl
    have := hch 1 (by simpa using hcl)
    omega

/-- a `clear` is written; every replica is empty now -/
theorem R_event_clear {c : List (Nat × Nat)} {rest : List Act}
    (hch : ∀ (i : Nat), (Act.clear :: rest)[i]? = some .clear → i = 0)
    {p : Pending} {sq : SyncQ} (hr : R c (.clear :: rest) p sq) :
    R c rest (p.apply .clear) (sq.afterEvent .clear) := by
  have hcons : ∀ (j : Nat), Cons rest [] (p.apply .clear) (sq.afterEvent .clear) j := by
    intro j
    unfold Cons
    rw [afterEvent_pending]
    simp only [alGet_nil, allowedOf_apply]
    rcases hr.clear_hist (by simp) j with h1 | h1
    · exact Or.inl h1
    · obtain ⟨i, b, hi, hb, hkey⟩ := h1
      cases i with
      | zero => simp at hb; subst hb; simp [Act.key?] at hkey
      | succ i => exact Or.inr (Or.inl ⟨i, b, by omega, by simpa using hb, Or.inr hkey⟩)
  constructor
  · exact hr.r
  · exact hr.cur_hist
  · intro j; exact hcons j
  · intro j; exact hcons j
  · intro hcl
    have := hch 1 (by simpa using hcl)
    omega

/-! ### a snapshot key is served (written, or skipped because the key has vanished) -/

theorem R_sync_emit {c : List (Nat × Nat)} {ev : List Act} {r k v : Nat} {ks : List Nat} {n : Nat}
    (hv : alGet c k = some v) {p : Pending} (hr : R c ev p ⟨r, k :: ks, n⟩) :
    R c ev (p.apply (.sync r k v)) ⟨r, ks, n⟩ := by
  have hcons : ∀ (rep : List (Nat × Nat)) (j : Nat), Cons ev rep p ⟨r, k :: ks, n⟩ j →
      Cons ev (applyFrame rep (.sync r k v)) (p.apply (.sync r k v)) ⟨r, ks, n⟩ j := by
    intro rep j hc
    unfold Cons
    simp only [applyFrame, alGet_insertSorted, allowedOf_apply]
    by_cases hj : k = j
    · subst hj
      simp only [if_true]
      left; rw [← hv]; exact hr.cur_hist k
    · simp only [hj, if_false]
      rcases hc with h1 | h1 | h1
      · exact Or.inl h1
      · exact Or.inr (Or.inl h1)
      · refine Or.inr (Or.inr ⟨?_, h1.2⟩)
        rcases List.mem_cons.mp h1.1 with h2 | h2
        · exact absurd h2.symm hj
        · exact h2
  constructor
  · exact hr.r
  · exact hr.cur_hist
  · intro j; exact hcons p.linkedRep j (hr.linked j)
  · intro j; exact hcons p.freshRep j (hr.fresh j)
  · exact hr.clear_hist

theorem R_sync_skip {c : List (Nat × Nat)} {ev : List Act} {r k : Nat} {ks : List Nat} {n : Nat}
    (hv : alGet c k = none) {p : Pending} (hr : R c ev p ⟨r, k :: ks, n⟩) : R c ev p ⟨r, ks, n⟩ := by
  have hcons : ∀ (rep : List (Nat × Nat)) (j : Nat), Cons ev rep p ⟨r, k :: ks, n⟩ j → Cons ev rep p ⟨r, ks, n⟩ j := by
    intro rep j hc
    rcases hc with h1 | h1 | h1
    · exact Or.inl h1
    · exact Or.inr (Or.inl h1)
    · rcases List.mem_cons.mp h1.1 with h2 | h2
      · subst h2
        left; rw [h1.2, ← hv]; exact hr.cur_hist j
      · exact Or.inr (Or.inr ⟨h2, h1.2⟩)
  exact ⟨hr.r, hr.cur_hist, fun j => hcons _ j (hr.linked j), fun j => hcons _ j (hr.fresh j), hr.clear_hist⟩

/-! ### `synced` -/

/-- when the snapshot is exhausted and nothing that preceded the request is still queued, both replicas hold, for
every key, a value the lane held since the request -/
theorem R_synced {c : List (Nat × Nat)} {ev : List Act} {r n : Nat} (hn : n = 0 ∨ ev = []) {p : Pending}
    (hr : R c ev p ⟨r, [], n⟩) (keysSeen : List Nat) : syncedVerdict p keysSeen = none := by
  have hcons : ∀ (rep : List (Nat × Nat)) (j : Nat), Cons ev rep p ⟨r, [], n⟩ j → alGet rep j ∈ allowedOf p j := by
    intro rep j hc
    rcases hc with h1 | h1 | h1
    · exact h1
    · obtain ⟨i, b, hi, hb, _⟩ := h1
      rcases hn with hn | hn
      · simp only at hi; omega
      · subst hn; simp at hb
    · simp at h1
  have h1 : consistent p p.freshRep keysSeen = true := by
    simp only [consistent, List.all_eq_true]
    intro k _
    simpa using hcons _ k (hr.fresh k)
  have h2 : consistent p p.linkedRep keysSeen = true := by
    simp only [consistent, List.all_eq_true]
    intro k _
    simpa using hcons _ k (hr.linked k)
  simp [syncedVerdict, h1, h2]

end SwimVerif.ML
