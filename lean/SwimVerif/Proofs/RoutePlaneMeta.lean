/-
C18, plane level with introspection: `check_meta_collisions` and the server's route table
(`Model/RoutePlane.lean`).
-/
import SwimVerif.Proofs.RoutePlane
import SwimVerif.Model.RoutePlane

set_option linter.unusedSimpArgs false
set_option linter.unusedVariables false
namespace SwimVerif.Route

/-! ### the meta patterns are parsed constants -/

theorem patOfText_ok (s : Bytes) (h : (parsePattern s).toOption.isSome = true) :
    parsePattern s = .ok (patOfText s) := by
  unfold patOfText
  cases hp : parsePattern s with
  | error e => simp [hp, Except.toOption] at h
  | ok p => simp [Except.toOption]

theorem metaMesh_eq : metaMesh = ⟨some [115, 119, 105, 109, 111, 115], false, [.lit [109, 101, 116, 97, 58, 109, 101, 115, 104]]⟩ := by
  decide

theorem metaNode_eq : metaNode = ⟨some [115, 119, 105, 109, 111, 115], false,
    [.lit [109, 101, 116, 97, 58, 110, 111, 100, 101], .param [110, 111, 100, 101, 95, 117, 114, 105]]⟩ := by
  decide

theorem metaLane_eq : metaLane = ⟨some [115, 119, 105, 109, 111, 115], false,
    [.lit [109, 101, 116, 97, 58, 110, 111, 100, 101], .param [110, 111, 100, 101, 95, 117, 114, 105],
     .lit [108, 97, 110, 101], .param [108, 97, 110, 101, 95, 110, 97, 109, 101]]⟩ := by
  decide

theorem metaMesh_parsed : parsePattern Generated.meshPatternText = .ok metaMesh :=
  patOfText_ok _ (by decide)
theorem metaNode_parsed : parsePattern Generated.nodePatternText = .ok metaNode :=
  patOfText_ok _ (by decide)
theorem metaLane_parsed : parsePattern Generated.lanePatternText = .ok metaLane :=
  patOfText_ok _ (by decide)

theorem metaRows_eq : metaRows = [metaMesh, metaNode, metaLane] := by decide

/-! ### `are_ambiguous` is symmetric -/

theorem ambSegs_comm (l r : List Seg) : ambSegs l r = ambSegs r l := by
  induction l generalizing r with
  | nil => cases r <;> simp [ambSegs]
  | cons a ls ih =>
    cases r with
    | nil => simp [ambSegs]
    | cons b rs =>
      cases a <;> cases b <;> simp [ambSegs, ih rs]
      rename_i x y
      by_cases h : pctDecode x = pctDecode y
      · simp [h]
      · have h' : ¬ pctDecode y = pctDecode x := fun e => h e.symm
        simp [h, h']

theorem areAmbiguous_comm (p q : Pat) : areAmbiguous p q = areAmbiguous q p := ambSegs_comm _ _

/-! ### `PlaneBuilder::build`: the report is empty exactly when the Boolean model accepts -/

theorem maskIdx_nil (i : Nat) (m : List Bool) : maskIdx i m = [] ↔ ∀ b ∈ m, b = false := by
  induction m generalizing i with
  | nil => simp [maskIdx]
  | cons b rest ih =>
    cases b <;> simp [maskIdx, ih]

theorem ambMask_length (ps : List Pat) : (ambMask ps).length = ps.length := by
  induction ps with
  | nil => simp [ambMask]
  | cons p rest ih => simp [ambMask, ih]

theorem zipOr_false (f : Pat → Bool) (xs : List Pat) (ms : List Bool) (hl : ms.length = xs.length) :
    (∀ b ∈ List.zipWith (fun q m => f q || m) xs ms, b = false) ↔
      (∀ q ∈ xs, f q = false) ∧ (∀ b ∈ ms, b = false) := by
  induction xs generalizing ms with
  | nil =>
    cases ms with
    | nil => simp
    | cons _ _ => simp at hl
  | cons x rest ih =>
    cases ms with
    | nil => simp at hl
    | cons m ms' =>
      simp only [List.length_cons, Nat.add_right_cancel_iff] at hl
      simp only [List.zipWith_cons_cons, List.mem_cons, forall_eq_or_imp, Bool.or_eq_false_iff, ih ms' hl]
      constructor
      · rintro ⟨⟨h1, h2⟩, h3, h4⟩; exact ⟨⟨h1, h3⟩, h2, h4⟩
      · rintro ⟨⟨h1, h3⟩, h2, h4⟩; exact ⟨⟨h1, h2⟩, h3, h4⟩

theorem ambMask_false_iff (ps : List Pat) : (∀ b ∈ ambMask ps, b = false) ↔ buildOk ps = true := by
  induction ps with
  | nil => simp [ambMask, buildOk]
  | cons p rest ih =>
    simp only [ambMask, List.mem_cons, forall_eq_or_imp, zipOr_false (areAmbiguous p) rest (ambMask rest)
      (ambMask_length rest), ih, buildOk, Bool.and_eq_true, List.all_eq_true, Bool.not_eq_eq_eq_not, Bool.not_true,
      List.any_eq_false]
    constructor
    · rintro ⟨_, h2, h3⟩; exact ⟨fun q hq => by simpa using h2 q hq, h3⟩
    · rintro ⟨h2, h3⟩; exact ⟨fun q hq => by simpa using h2 q hq, fun q hq => by simpa using h2 q hq, h3⟩

theorem buildBad_nil_iff (ps : List Pat) : buildBad ps = [] ↔ buildOk ps = true := by
  unfold buildBad
  rw [maskIdx_nil, ambMask_false_iff]

/-! ### `check_meta_collisions` -/

/-- A row collides with none of the three meta-agent routes. -/
def metaFree (p : Pat) : Prop :=
  areAmbiguous metaMesh p = false ∧ areAmbiguous metaNode p = false ∧ areAmbiguous metaLane p = false

theorem metaLoop_routes_nil (a : MetaAcc) (i : Nat) (ps : List Pat) :
    (metaLoop a i ps).routes = [] ↔ a.routes = [] ∧ ∀ p ∈ ps, metaFree p := by
  induction ps generalizing a i with
  | nil => simp [metaLoop]
  | cons p rest ih =>
    simp only [metaLoop, ih, List.mem_cons, forall_eq_or_imp, metaFree]
    by_cases h : (areAmbiguous metaMesh p || areAmbiguous metaNode p || areAmbiguous metaLane p) = true
    · simp only [h, ↓reduceIte, List.append_eq_nil_iff, List.cons_ne_self, and_false, false_and, false_iff]
      rintro ⟨_, ⟨h0, h1, h2⟩, _⟩
      simp [h0, h1, h2] at h
    · simp only [h, Bool.false_eq_true, ↓reduceIte]
      simp only [Bool.or_eq_true, not_or, Bool.not_eq_true] at h
      simp [h.1.1, h.1.2, h.2]

theorem checkMeta_none_iff (ps : List Pat) : checkMeta ps = none ↔ ∀ p ∈ ps, metaFree p := by
  unfold checkMeta
  simp only [List.isEmpty_iff]
  constructor
  · intro h
    split at h
    · rename_i hr
      exact ((metaLoop_routes_nil {} 0 ps).mp hr).2
    · simp at h
  · intro h
    have : (metaLoop {} 0 ps).routes = [] := (metaLoop_routes_nil {} 0 ps).mpr ⟨rfl, h⟩
    simp [this]

/-! ### an accepted plane together with the checked meta routes is still an accepted table -/

theorem buildOk_append (ps qs : List Pat) :
    buildOk (ps ++ qs) = true ↔
      buildOk ps = true ∧ buildOk qs = true ∧ ∀ p ∈ ps, ∀ q ∈ qs, areAmbiguous p q = false := by
  induction ps with
  | nil => simp [buildOk]
  | cons p rest ih =>
    simp only [List.cons_append, buildOk, Bool.and_eq_true, List.all_eq_true, List.mem_append, ih,
      Bool.not_eq_eq_eq_not, Bool.not_true, List.mem_cons, forall_eq_or_imp]
    constructor
    · rintro ⟨h1, h2, h3, h4⟩
      exact ⟨⟨fun q hq => h1 q (Or.inl hq), h2⟩, h3, fun q hq => h1 q (Or.inr hq), h4⟩
    · rintro ⟨⟨h1, h2⟩, h3, h5, h4⟩
      exact ⟨fun q hq => hq.elim (h1 q) (h5 q), h2, h3, h4⟩

theorem node_lane_not_ambiguous : areAmbiguous metaNode metaLane = false := by decide
theorem mesh_node_not_ambiguous : areAmbiguous metaMesh metaNode = false := by decide
theorem mesh_lane_not_ambiguous : areAmbiguous metaMesh metaLane = false := by decide

theorem buildOk_with_meta (ps : List Pat) (hb : buildOk ps = true) (hm : checkMeta ps = none) :
    buildOk (ps ++ [metaNode, metaLane]) = true := by
  rw [buildOk_append]
  refine ⟨hb, ?_, ?_⟩
  · simp [buildOk, node_lane_not_ambiguous]
  · intro p hp q hq
    have := (checkMeta_none_iff ps).mp hm p hp
    simp only [List.mem_cons, List.not_mem_nil, or_false] at hq
    rcases hq with rfl | rfl
    · rw [areAmbiguous_comm]; exact this.2.1
    · rw [areAmbiguous_comm]; exact this.2.2

theorem buildOk_with_all_meta (ps : List Pat) (hb : buildOk ps = true) (hm : checkMeta ps = none) :
    buildOk (ps ++ metaRows) = true := by
  rw [metaRows_eq, buildOk_append]
  refine ⟨hb, ?_, ?_⟩
  · simp [buildOk, node_lane_not_ambiguous, mesh_node_not_ambiguous, mesh_lane_not_ambiguous]
  · intro p hp q hq
    have := (checkMeta_none_iff ps).mp hm p hp
    simp only [List.mem_cons, List.not_mem_nil, or_false] at hq
    rcases hq with rfl | rfl | rfl
    · rw [areAmbiguous_comm]; exact this.1
    · rw [areAmbiguous_comm]; exact this.2.1
    · rw [areAmbiguous_comm]; exact this.2.2

theorem registered_append (ps qs : List Pat) (h1 : Registered ps) (h2 : Registered qs) : Registered (ps ++ qs) := by
  intro p hp
  rcases List.mem_append.mp hp with h | h
  · exact h1 p h
  · exact h2 p h

theorem registered_meta : Registered [metaNode, metaLane] := by
  intro p hp
  simp only [List.mem_cons, List.not_mem_nil, or_false] at hp
  rcases hp with rfl | rfl
  · exact ⟨_, metaNode_parsed⟩
  · exact ⟨_, metaLane_parsed⟩

theorem registered_metaRows : Registered metaRows := by
  rw [metaRows_eq]
  intro p hp
  simp only [List.mem_cons, List.not_mem_nil, or_false] at hp
  rcases hp with rfl | rfl | rfl
  · exact ⟨_, metaMesh_parsed⟩
  · exact ⟨_, metaNode_parsed⟩
  · exact ⟨_, metaLane_parsed⟩

/-- `matchingRows` lists exactly `countP` rows. -/
theorem matchingRows_length (i : Nat) (sch : Option Bytes) (path : Bytes) (ps : List Pat) :
    (matchingRows i sch path ps).length = ps.countP (fun p => (p.unapplyUri sch path).isSome) := by
  induction ps generalizing i with
  | nil => simp [matchingRows]
  | cons p rest ih =>
    simp only [matchingRows, List.countP_cons]
    split <;> simp_all

end SwimVerif.Route
