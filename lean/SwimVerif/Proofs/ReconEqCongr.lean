/-
C15: `incremental_compare` only sees events up to `ReadEvent::eq` — replacing either stream by one that agrees with it
event by event (any spelling of the tokens) does not change the verdict (`cmpLoop_congr`).
-/
import SwimVerif.Proofs.ReconEqFinal

namespace SwimVerif.ReconEq
open SwimVerif.Recon

theorem Num.beq_trans (a b c : Num) (h1 : a.beq b = true) (h2 : b.beq c = true) : a.beq c = true := by
  cases a <;> cases b <;> simp [Num.beq, Num.intVal] at h1 <;> cases c <;> simp [Num.beq, Num.intVal] at h2 ⊢ <;>
    first
      | (subst h1; exact h2)
      | exact fltEq_trans _ _ _ h1 h2

theorem Event.beq_trans (a b c : Event) (h1 : a.beq b = true) (h2 : b.beq c = true) : a.beq c = true := by
  cases a <;> cases b <;> simp [Event.beq] at h1 <;> cases c <;> simp [Event.beq] at h2 ⊢ <;>
    first
      | (subst h1; exact h2)
      | exact Num.beq_trans _ _ _ h1 h2

/-- Events that compare equal compare alike with every third event. -/
theorem Event.beq_congr (e e' t : Event) (h : e.beq e' = true) : e.beq t = e'.beq t := by
  cases h1 : e.beq t with
  | true =>
    rw [Event.beq_symm] at h
    exact (Event.beq_trans _ _ _ h h1).symm
  | false =>
    cases h2 : e'.beq t with
    | false => rfl
    | true => rw [Event.beq_trans _ _ _ h h2] at h1; cases h1

theorem Event.beq_congr2 (e e' f f' : Event) (h : e.beq e' = true) (h' : f.beq f' = true) : e.beq f = e'.beq f' := by
  rw [Event.beq_congr e e' f h, Event.beq_symm e' f, Event.beq_congr f f' e' h', Event.beq_symm]

theorem evsAgree_symm (a b : List Event) (h : evsAgree a b = true) : evsAgree b a = true := by
  induction a generalizing b with
  | nil => cases b <;> simp [evsAgree] at h ⊢
  | cons e r ih =>
    cases b with
    | nil => simp [evsAgree] at h
    | cons f r' =>
      simp only [evsAgree, Bool.and_eq_true] at h ⊢
      exact ⟨by rw [Event.beq_symm]; exact h.1, ih r' h.2⟩

theorem evsAgree_trans (a b c : List Event) (h1 : evsAgree a b = true) (h2 : evsAgree b c = true) :
    evsAgree a c = true := by
  induction a generalizing b c with
  | nil => cases b <;> simp [evsAgree] at h1; exact h2
  | cons e r ih =>
    cases b with
    | nil => simp [evsAgree] at h1
    | cons f r' =>
      cases c with
      | nil => simp [evsAgree] at h2
      | cons g r'' =>
        simp only [evsAgree, Bool.and_eq_true] at h1 h2 ⊢
        exact ⟨Event.beq_trans _ _ _ h1.1 h2.1, ih r' r'' h1.2 h2.2⟩

/-- Relation between the results of a skip on two agreeing streams. -/
def PRel (p p' : Option (VV × Event × List SItem)) : Prop :=
  match p, p' with
  | none, none => True
  | some x, some y =>
    x.1 = y.1 ∧ x.2.1.beq y.2.1 = true ∧ ∃ l l', x.2.2 = l.map .ev ∧ y.2.2 = l'.map .ev ∧ evsAgree l l' = true
  | _, _ => False

theorem skipIf_congr (t : Event) (V : VV) (e e' : Event) (l l' : List Event) (he : e.beq e' = true)
    (hl : evsAgree l l' = true) : PRel (skipIf t V e (l.map .ev)) (skipIf t V e' (l'.map .ev)) := by
  unfold skipIf
  rw [← Event.beq_congr e e' t he, ← VV.feed_congr V e e' he]
  by_cases h : e.beq t = true
  · rw [if_pos h, if_pos h]
    cases l with
    | nil => cases l' <;> simp [evsAgree] at hl; simp [PRel]
    | cons x r =>
      cases l' with
      | nil => simp [evsAgree] at hl
      | cons x' r' =>
        simp only [evsAgree, Bool.and_eq_true] at hl
        simp only [List.map_cons, PRel]
        exact ⟨by first | rfl | trivial, hl.1, r, r', rfl, rfl, hl.2⟩
  · rw [if_neg h, if_neg h]
    simp only [PRel]
    exact ⟨by first | rfl | trivial, he, l, l', rfl, rfl, hl⟩

theorem skipBoth_congr (V : VV) (e e' : Event) (l l' : List Event) (he : e.beq e' = true)
    (hl : evsAgree l l' = true) : PRel (skipBoth V e (l.map .ev)) (skipBoth V e' (l'.map .ev)) := by
  unfold skipBoth
  have h := skipIf_congr .startBody V e e' l l' he hl
  cases h1 : skipIf .startBody V e (l.map .ev) with
  | none =>
    cases h2 : skipIf .startBody V e' (l'.map .ev) with
    | none => simp [PRel]
    | some y => rw [h1, h2] at h; exact h.elim
  | some x =>
    cases h2 : skipIf .startBody V e' (l'.map .ev) with
    | none => rw [h1, h2] at h; exact h.elim
    | some y =>
      rw [h1, h2] at h
      obtain ⟨hv, hb, m, m', hm, hm', hag⟩ := h
      simp only []
      rw [hm, hm', hv]
      exact skipIf_congr .endRecord y.1 x.2.1 y.2.1 m m' hb hag

/-- **The comparator sees events only up to `ReadEvent::eq`.** -/
theorem cmpLoop_congr (fuel : Nat) : ∀ (V1 V2 : VV) (a a' b b' : List Event), evsAgree a a' = true →
    evsAgree b b' = true →
    cmpLoop fuel V1 V2 (a.map .ev) (b.map .ev) = cmpLoop fuel V1 V2 (a'.map .ev) (b'.map .ev) := by
  induction fuel with
  | zero => intros; simp [cmpLoop]
  | succ n ih =>
    intro V1 V2 a a' b b' ha hb
    cases a with
    | nil =>
      cases a' with
      | cons _ _ => simp [evsAgree] at ha
      | nil =>
        cases b with
        | nil => cases b' <;> simp [evsAgree] at hb; rfl
        | cons e2 rb =>
          cases b' with
          | nil => simp [evsAgree] at hb
          | cons e2' rb' =>
            simp only [evsAgree, Bool.and_eq_true] at hb
            simp only [List.map_cons, List.map_nil, cmpLoop]
            have hi := ih V1 (V2.feed e2).1 [] [] rb rb' rfl hb.2
            simp only [List.map_nil] at hi
            rw [← VV.feed_congr V2 e2 e2' hb.1, hi]
    | cons e1 ra =>
      cases a' with
      | nil => simp [evsAgree] at ha
      | cons e1' ra' =>
        simp only [evsAgree, Bool.and_eq_true] at ha
        cases b with
        | nil =>
          cases b' with
          | cons _ _ => simp [evsAgree] at hb
          | nil =>
            simp only [List.map_cons, List.map_nil, cmpLoop]
            have hi := ih (V1.feed e1).1 V2 ra ra' [] [] ha.2 rfl
            simp only [List.map_nil] at hi
            rw [← VV.feed_congr V1 e1 e1' ha.1, hi]
        | cons e2 rb =>
          cases b' with
          | nil => simp [evsAgree] at hb
          | cons e2' rb' =>
            simp only [evsAgree, Bool.and_eq_true] at hb
            simp only [List.map_cons, cmpLoop]
            rw [← Event.beq_congr2 e1 e1' e2 e2' ha.1 hb.1, ← VV.feed_congr V1 e1 e1' ha.1,
              ← VV.feed_congr V2 e2 e2' hb.1, ih _ _ ra ra' rb rb' ha.2 hb.2]
            by_cases hm : e1.beq e2 = true
            · rw [if_pos hm, if_pos hm]
            · rw [if_neg hm, if_neg hm]
              have h1 := skipBoth_congr V1 e1 e1' ra ra' ha.1 ha.2
              have h2 := skipBoth_congr V2 e2 e2' rb rb' hb.1 hb.2
              cases k1 : skipBoth V1 e1 (ra.map .ev) with
              | none =>
                cases k1' : skipBoth V1 e1' (ra'.map .ev) with
                | none => simp
                | some _ => rw [k1, k1'] at h1; exact h1.elim
              | some p1 =>
                cases k1' : skipBoth V1 e1' (ra'.map .ev) with
                | none => rw [k1, k1'] at h1; exact h1.elim
                | some p1' =>
                  rw [k1, k1'] at h1
                  obtain ⟨hv1, hb1, m1, m1', hm1, hm1', hag1⟩ := h1
                  cases k2 : skipBoth V2 e2 (rb.map .ev) with
                  | none =>
                    cases k2' : skipBoth V2 e2' (rb'.map .ev) with
                    | none => simp
                    | some _ => rw [k2, k2'] at h2; exact h2.elim
                  | some p2 =>
                    cases k2' : skipBoth V2 e2' (rb'.map .ev) with
                    | none => rw [k2, k2'] at h2; exact h2.elim
                    | some p2' =>
                      rw [k2, k2'] at h2
                      obtain ⟨hv2, hb2, m2, m2', hm2, hm2', hag2⟩ := h2
                      simp only []
                      rw [← Event.beq_congr2 _ _ _ _ hb1 hb2, ← hv1, ← hv2,
                        ← VV.feed_congr p1.1 _ _ hb1, ← VV.feed_congr p2.1 _ _ hb2, hm1, hm1', hm2, hm2',
                        ih _ _ m1 m1' m2 m2' hag1 hag2]

theorem evsAgree_length (a b : List Event) (h : evsAgree a b = true) : a.length = b.length := by
  induction a generalizing b with
  | nil => cases b <;> simp [evsAgree] at h ⊢
  | cons e r ih =>
    cases b with
    | nil => simp [evsAgree] at h
    | cons f r' =>
      simp only [evsAgree, Bool.and_eq_true] at h
      simp [ih r' h.2]

/-- The text is valid Recon and its event stream is, up to the spelling of the tokens, the stream of its value in the
layout `ch` (white space, separators, new lines, radix, quoting … are free). -/
def inLayout (ch : List Char → Bool) (a : List Char) : Bool :=
  match parseValue a with
  | some v => (events a).2 == .fin && evsAgree (events a).1 (evsG ch v)
  | none => false

/-- From the comparator's verdict on two layout streams to `compare_recon_values` on texts that have these streams up
to spelling. -/
theorem compareRecon_of_streams (a b : List Char) (l1 l2 : List Event) (f1 : (events a).2 = .fin)
    (f2 : (events b).2 = .fin) (ag1 : evsAgree (events a).1 l1 = true) (ag2 : evsAgree (events b).1 l2 = true)
    (h : incrementalCompare (stream (l1, .fin)) (stream (l2, .fin)) = some true) : compareRecon a b = true := by
  have hs : ∀ l : List Event, stream (l, Term.fin) = l.map SItem.ev := by
    intro l; simp [stream]
  have e1 : eventsOf (run a) = ((events a).1, .fin) := by rw [← f1]; rfl
  have e2 : eventsOf (run b) = ((events b).1, .fin) := by rw [← f2]; rfl
  unfold compareRecon compareOf
  rw [e1, e2, hs, hs]
  rw [hs, hs] at h
  unfold incrementalCompare at h ⊢
  simp only [List.length_map] at h ⊢
  rw [cmpLoop_congr _ _ _ _ _ _ _ ag1 ag2, evsAgree_length _ _ ag1, evsAgree_length _ _ ag2, h]

end SwimVerif.ReconEq
