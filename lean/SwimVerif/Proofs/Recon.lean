/-
Helper lemmas for C09 (`Props/C09.lean`): escape/unescape tables are inverse, the quoting decision, list helpers.
-/
import SwimVerif.Model.Recon

set_option linter.unusedSimpArgs false
namespace SwimVerif.Recon
open SwimVerif.Generated.Recon


theorem lookupNat_mem {t : List (Nat × Nat)} {k v : Nat} (h : lookupNat t k = some v) : (k, v) ∈ t := by
  induction t with
  | nil => simp [lookupNat] at h
  | cons p r ih =>
    simp only [lookupNat] at h
    split at h
    · rename_i hk; cases h; simp [← hk]
    · simp [ih h]

/-- The two tables are inverse: the letter written for an escaped character is read back as that character. -/
theorem tables_inverse : ∀ p ∈ escapeTable,
    lookupNat unescapeTable (Char.ofNat p.2).toNat = some p.1 ∧ p.1 < 55296 := by decide

theorem ctl_digits : ∀ n, n < escapeCtlBound →
    hexDigitChar (n / 4096) ≠ 'u' ∧
    hexVal? (hexDigitChar (n / 4096)) = some 0 ∧ hexVal? (hexDigitChar (n / 256)) = some 0 ∧
    hexVal? (hexDigitChar (n / 16)) = some (n / 16) ∧ hexVal? (hexDigitChar n) = some (n % 16) := by decide

theorem backslash_escaped : lookupNat escapeTable ('\\').toNat ≠ none := by decide
theorem u_not_letter : lookupNat unescapeTable ('u').toNat = none := by decide

theorem Res.map_map {α β γ : Type} (f : α → β) (g : β → γ) (r : Res α) : (r.map f).map g = r.map (g ∘ f) := by
  cases r <;> rfl

theorem unesc_escapeChar (c : Char) (rest : List Char) :
    unescFrom .none (escapeChar c ++ rest) = (unescFrom .none rest).map (c :: ·) := by
  unfold escapeChar
  split
  · rename_i e he
    have hm := tables_inverse _ (lookupNat_mem he)
    simp only [List.cons_append, List.nil_append, unescFrom, ↓reduceIte, hm.1]
    rw [Char.ofNat_toNat]
  · rename_i hn
    split
    · rename_i hlt
      have hd := ctl_digits c.toNat hlt
      simp only [List.cons_append, List.nil_append, unescFrom, ↓reduceIte, u_not_letter, hd.1, hd.2.1, hd.2.2.1,
        hd.2.2.2.1, hd.2.2.2.2]
      have hval : 0 * 4096 + 0 * 256 + c.toNat / 16 * 16 + c.toNat % 16 = c.toNat := by omega
      have hns : isSurrogate c.toNat = false := by
        have : c.toNat < 32 := hlt
        simp only [isSurrogate, Bool.and_eq_false_iff, decide_eq_false_iff_not]; left; omega
      rw [hval, hns, Char.ofNat_toNat]; simp
    · have hc : c ≠ '\\' := by
        intro h; subst h; exact backslash_escaped hn
      simp only [List.cons_append, List.nil_append, unescFrom, hc, ↓reduceIte]

theorem unescape_escape (s : List Char) : unescape (escape s) = .ok s := by
  unfold unescape escape
  induction s with
  | nil => simp [unescFrom]
  | cons c s ih =>
    simp only [List.flatMap_cons]
    rw [unesc_escapeChar, ih]; rfl


/-- `head?` of the rest does not satisfy `p` (or the rest is empty). -/
def stopsAt (p : Char → Bool) (rest : List Char) : Prop := ∀ c ∈ rest.head?, p c = false

theorem takeWhile_append_stop {p : Char → Bool} {l rest : List Char} (h : ∀ x ∈ l, p x = true) (hs : stopsAt p rest) :
    (l ++ rest).takeWhile p = l := by
  induction l with
  | nil =>
    cases rest with
    | nil => rfl
    | cons c r => simp [List.takeWhile, hs c (by simp)]
  | cons a l ih =>
    have ha := h a (by simp)
    simp only [List.cons_append, List.takeWhile, ha]
    rw [ih (fun x hx => h x (by simp [hx]))]

theorem dropWhile_append_stop {p : Char → Bool} {l rest : List Char} (h : ∀ x ∈ l, p x = true) (hs : stopsAt p rest) :
    (l ++ rest).dropWhile p = rest := by
  induction l with
  | nil =>
    cases rest with
    | nil => rfl
    | cons c r => simp [List.dropWhile, hs c (by simp)]
  | cons a l ih =>
    have ha := h a (by simp)
    simp only [List.cons_append, List.dropWhile, ha]
    rw [ih (fun x hx => h x (by simp [hx]))]

theorem stopsAt_nil (p : Char → Bool) : stopsAt p [] := by intro c hc; simp at hc

theorem all_of_takeWhile_eq_self {p : Char → Bool} {l : List Char} (h : l.takeWhile p = l) : ∀ x ∈ l, p x = true := by
  induction l with
  | nil => simp
  | cons a l ih =>
    simp only [List.takeWhile] at h
    split at h
    · rename_i ha
      simp only [List.cons.injEq, true_and] at h
      intro x hx
      rcases List.mem_cons.mp hx with rfl | hx
      · exact ha
      · exact ih h x hx
    · simp at h

theorem lexIdent_eq_self_iff (s : List Char) :
    lexIdent s = some (s, []) ↔ ∃ c r, s = c :: r ∧ isIdentStart c = true ∧ ∀ x ∈ r, isIdentChar x = true := by
  cases s with
  | nil => simp [lexIdent]
  | cons c r =>
    simp only [lexIdent]
    split
    · rename_i h
      constructor
      · intro h1
        simp only [Option.some.injEq, Prod.mk.injEq, List.cons.injEq, true_and] at h1
        exact ⟨c, r, rfl, h, all_of_takeWhile_eq_self h1.1⟩
      · rintro ⟨c', r', heq, _, h2⟩
        cases heq
        have h3 := takeWhile_append_stop h2 (stopsAt_nil _)
        have h4 := dropWhile_append_stop h2 (stopsAt_nil _)
        simp only [List.append_nil] at h3 h4
        rw [h3, h4]
    · rename_i h
      simp only [reduceCtorEq, false_iff, not_exists, not_and]
      rintro c' r' heq h'; cases heq; exact absurd h' h

/-- The printer's quoting decision agrees with the tokenizer: a text is written bare exactly when the tokenizer
reads it back as one whole identifier token and it is not a reserved word (`true` / `false`). -/
theorem quote_decision_agrees (s : List Char) :
    isIdentifier s = true ↔ (lexIdent s = some (s, []) ∧ s ∉ reservedWords) := by
  rw [lexIdent_eq_self_iff]
  unfold isIdentifier
  by_cases hr : reservedWords.contains s = true
  · simp only [hr, ↓reduceIte, Bool.false_eq_true, false_iff, not_and, Decidable.not_not]
    intro _; simpa using hr
  · have hr' : s ∉ reservedWords := by simpa using hr
    simp only [hr, Bool.false_eq_true, ↓reduceIte, hr', not_false_eq_true, and_true]
    cases s with
    | nil => simp
    | cons c r =>
      simp only [Bool.and_eq_true, List.all_eq_true]
      constructor
      · rintro ⟨h1, h2⟩; exact ⟨c, r, rfl, h1, h2⟩
      · rintro ⟨c', r', heq, h1, h2⟩; cases heq; exact ⟨h1, h2⟩
end SwimVerif.Recon
