/-
Helper lemmas for C09 (`Props/C09.lean`): escape/unescape tables are inverse, the quoting decision, list helpers.
-/
import SwimVerif.Model.Recon

set_option linter.unusedSimpArgs false
namespace SwimVerif.Recon
open SwimVerif.Generated.Recon


theorem lookupNat_mem {t : List (Nat × Nat)} {k v : Nat} (h : lookupNat t k = some v) : (k, v) ∈ t := by
  induction t with
  | nil => simp [lookupNat] at h
  | cons p r ih =>
    simp only [lookupNat] at h
    split at h
    · rename_i hk; cases h; simp [← hk]
    · simp [ih h]

/-- The two tables are inverse: the letter written for an escaped character is read back as that character. -/
theorem tables_inverse : ∀ p ∈ escapeTable,
    lookupNat unescapeTable (Char.ofNat p.2).toNat = some p.1 ∧ p.1 < 55296 := by decide

theorem ctl_digits : ∀ n, n < escapeCtlBound →
    hexDigitChar (n / 4096) ≠ 'u' ∧
    hexVal? (hexDigitChar (n / 4096)) = some 0 ∧ hexVal? (hexDigitChar (n / 256)) = some 0 ∧
    hexVal? (hexDigitChar (n / 16)) = some (n / 16) ∧ hexVal? (hexDigitChar n) = some (n % 16) := by decide

theorem backslash_escaped : lookupNat escapeTable ('\\').toNat ≠ none := by decide
theorem u_not_letter : lookupNat unescapeTable ('u').toNat = none := by decide

theorem Res.map_map {α β γ : Type} (f : α → β) (g : β → γ) (r : Res α) : (r.map f).map g = r.map (g ∘ f) := by
  cases r <;> rfl

theorem unesc_escapeChar (c : Char) (rest : List Char) :
    unescFrom .none (escapeChar c ++ rest) = (unescFrom .none rest).map (c :: ·) := by
  unfold escapeChar
  split
  · rename_i e he
    have hm := tables_inverse _ (lookupNat_mem he)
    simp only [List.cons_append, List.nil_append, unescFrom, ↓reduceIte, hm.1]
    rw [Char.ofNat_toNat]
  · rename_i hn
    split
    · rename_i hlt
      have hd := ctl_digits c.toNat hlt
      simp only [List.cons_append, List.nil_append, unescFrom, ↓reduceIte, u_not_letter, hd.1, hd.2.1, hd.2.2.1,
        hd.2.2.2.1, hd.2.2.2.2]
      have hval : 0 * 4096 + 0 * 256 + c.toNat / 16 * 16 + c.toNat % 16 = c.toNat := by omega
      have hns : isSurrogate c.toNat = false := by
        have : c.toNat < 32 := hlt
        simp only [isSurrogate, Bool.and_eq_false_iff, decide_eq_false_iff_not]; left; omega
      rw [hval, hns, Char.ofNat_toNat]; simp
    · have hc : c ≠ '\\' := by
        intro h; subst h; exact backslash_escaped hn
      simp only [List.cons_append, List.nil_append, unescFrom, hc, ↓reduceIte]

theorem unescape_escape (s : List Char) : unescape (escape s) = .ok s := by
  unfold unescape escape
  induction s with
  | nil => simp [unescFrom]
  | cons c s ih =>
    simp only [List.flatMap_cons]
    rw [unesc_escapeChar, ih]; rfl


/-- `head?` of the rest does not satisfy `p` (or the rest is empty). -/
def stopsAt (p : Char → Bool) (rest : List Char) : Prop := ∀ c ∈ rest.head?, p c = false

theorem takeWhile_append_stop {p : Char → Bool} {l rest : List Char} (h : ∀ x ∈ l, p x = true) (hs : stopsAt p rest) :
    (l ++ rest).takeWhile p = l := by
  induction l with
  | nil =>
    cases rest with
    | nil => rfl
    | cons c r => simp [List.takeWhile, hs c (by simp)]
  | cons a l ih =>
    have ha := h a (by simp)
    simp only [List.cons_append, List.takeWhile, ha]
    rw [ih (fun x hx => h x (by simp [hx]))]

theorem dropWhile_append_stop {p : Char → Bool} {l rest : List Char} (h : ∀ x ∈ l, p x = true) (hs : stopsAt p rest) :
    (l ++ rest).dropWhile p = rest := by
  induction l with
  | nil =>
    cases rest with
    | nil => rfl
    | cons c r => simp [List.dropWhile, hs c (by simp)]
  | cons a l ih =>
    have ha := h a (by simp)
    simp only [List.cons_append, List.dropWhile, ha]
    rw [ih (fun x hx => h x (by simp [hx]))]

theorem stopsAt_nil (p : Char → Bool) : stopsAt p [] := by intro c hc; simp at hc

theorem all_of_takeWhile_eq_self {p : Char → Bool} {l : List Char} (h : l.takeWhile p = l) : ∀ x ∈ l, p x = true := by
  induction l with
  | nil => simp
  | cons a l ih =>
    simp only [List.takeWhile] at h
    split at h
    · rename_i ha
      simp only [List.cons.injEq, true_and] at h
      intro x hx
      rcases List.mem_cons.mp hx with rfl | hx
      · exact ha
      · exact ih h x hx
    · simp at h

theorem lexIdent_eq_self_iff (s : List Char) :
    lexIdent s = some (s, []) ↔ ∃ c r, s = c :: r ∧ isIdentStart c = true ∧ ∀ x ∈ r, isIdentChar x = true := by
  cases s with
  | nil => simp [lexIdent]
  | cons c r =>
    simp only [lexIdent]
    split
    · rename_i h
      constructor
      · intro h1
        simp only [Option.some.injEq, Prod.mk.injEq, List.cons.injEq, true_and] at h1
        exact ⟨c, r, rfl, h, all_of_takeWhile_eq_self h1.1⟩
      · rintro ⟨c', r', heq, _, h2⟩
        cases heq
        have h3 := takeWhile_append_stop h2 (stopsAt_nil _)
        have h4 := dropWhile_append_stop h2 (stopsAt_nil _)
        simp only [List.append_nil] at h3 h4
        rw [h3, h4]
    · rename_i h
      simp only [reduceCtorEq, false_iff, not_exists, not_and]
      rintro c' r' heq h'; cases heq; exact absurd h' h

/-- The printer's quoting decision agrees with the tokenizer: a text is written bare exactly when the tokenizer
reads it back as one whole identifier token and it is not a reserved word (`true` / `false`). -/
theorem quote_decision_agrees (s : List Char) :
    isIdentifier s = true ↔ (lexIdent s = some (s, []) ∧ s ∉ reservedWords) := by
  rw [lexIdent_eq_self_iff]
  unfold isIdentifier
  by_cases hr : reservedWords.contains s = true
  · simp only [hr, ↓reduceIte, Bool.false_eq_true, false_iff, not_and, Decidable.not_not]
    intro _; simpa using hr
  · have hr' : s ∉ reservedWords := by simpa using hr
    simp only [hr, Bool.false_eq_true, ↓reduceIte, hr', not_false_eq_true, and_true]
    cases s with
    | nil => simp
    | cons c r =>
      simp only [Bool.and_eq_true, List.all_eq_true]
      constructor
      · rintro ⟨h1, h2⟩; exact ⟨c, r, rfl, h1, h2⟩
      · rintro ⟨c', r', heq, h1, h2⟩; cases heq; exact ⟨h1, h2⟩

/-! ## Tokens of the compact layout are lexed back -/


/-- What may follow a token in the compact layout: nothing, or one of `, : ) }`. -/
def Delim (rest : List Char) : Prop := ∀ c ∈ rest.head?, c = ',' ∨ c = ':' ∨ c = ')' ∨ c = '}'

theorem Delim.nil : Delim [] := by intro c hc; simp at hc

theorem Delim.stops {p : Char → Bool} {rest : List Char} (h : Delim rest)
    (hp : p ',' = false ∧ p ':' = false ∧ p ')' = false ∧ p '}' = false) : stopsAt p rest := by
  intro c hc
  rcases h c hc with rfl | rfl | rfl | rfl
  · exact hp.1
  · exact hp.2.1
  · exact hp.2.2.1
  · exact hp.2.2.2

/-- Characters that end a token in any of the three layouts: `, : ) }`, a space, a line feed. -/
def tokEnd (c : Char) : Bool := c == ',' || c == ':' || c == ')' || c == '}' || c == ' ' || c == '\n'

/-- What may follow a token: nothing, or a `tokEnd` character. -/
def TokEnd (rest : List Char) : Prop := ∀ c ∈ rest.head?, tokEnd c = true

theorem tokEnd_cases {c : Char} (h : tokEnd c = true) :
    c = ',' ∨ c = ':' ∨ c = ')' ∨ c = '}' ∨ c = ' ' ∨ c = '\n' := by
  simp only [tokEnd, Bool.or_eq_true, beq_iff_eq] at h
  rcases h with ((((h | h) | h) | h) | h) | h <;> simp [h]

theorem TokEnd.nil : TokEnd [] := by intro c hc; simp at hc

theorem Delim.tok {rest : List Char} (h : Delim rest) : TokEnd rest := by
  intro c hc; rcases h c hc with rfl | rfl | rfl | rfl <;> decide

theorem TokEnd.stops {p : Char → Bool} {rest : List Char} (h : TokEnd rest)
    (hp : ∀ c, tokEnd c = true → p c = false) : stopsAt p rest := fun c hc => hp c (h c hc)

theorem identChar_tokEnd : ∀ c, tokEnd c = true → isIdentChar c = false := by
  intro c h; rcases tokEnd_cases h with rfl | rfl | rfl | rfl | rfl | rfl <;> decide

theorem isDigit_tokEnd : ∀ c, tokEnd c = true → isDigit c = false := by
  intro c h; rcases tokEnd_cases h with rfl | rfl | rfl | rfl | rfl | rfl <;> decide

theorem tokend_cases {rest : List Char} (hd : TokEnd rest) :
    rest = [] ∨ ∃ c r, rest = c :: r ∧ tokEnd c = true := by
  cases rest with
  | nil => exact Or.inl rfl
  | cons c r => exact Or.inr ⟨c, r, rfl, hd c (by simp)⟩

theorem identChar_delims : isIdentChar ',' = false ∧ isIdentChar ':' = false ∧ isIdentChar ')' = false ∧ isIdentChar '}' = false := by
  decide

theorem isDigit_delims : isDigit ',' = false ∧ isDigit ':' = false ∧ isDigit ')' = false ∧ isDigit '}' = false := by decide

theorem quote_not_identStart : isIdentStart '"' = false := by decide

/-- An identifier followed by a delimiter is lexed as that identifier. -/
theorem lexIdent_append {s rest : List Char} (hs : lexIdent s = some (s, [])) (hd : stopsAt isIdentChar rest) :
    lexIdent (s ++ rest) = some (s, rest) := by
  obtain ⟨c, r, rfl, hc, hr⟩ := (lexIdent_eq_self_iff s).mp hs
  simp only [List.cons_append, lexIdent, hc, ↓reduceIte]
  rw [takeWhile_append_stop hr hd, dropWhile_append_stop hr hd]

theorem lexPrim_ident {s rest : List Char} (hs : isIdentifier s = true) (hd : TokEnd rest) :
    lexPrim (s ++ rest) = some (.ok (.text s, rest)) := by
  obtain ⟨hl, hres⟩ := (quote_decision_agrees s).mp hs
  obtain ⟨c, r, rfl, hc, hr⟩ := (lexIdent_eq_self_iff s).mp hl
  have hq : c ≠ '"' := by intro h; subst h; simp [quote_not_identStart] at hc
  have := lexIdent_append hl (hd.stops identChar_tokEnd)
  simp only [List.cons_append] at this
  simp only [List.cons_append, lexPrim, hq, ↓reduceIte, hc, this]
  have h1 : (c :: r) ≠ "true".toList := by intro h; apply hres; rw [h]; decide
  have h2 : (c :: r) ≠ "false".toList := by intro h; apply hres; rw [h]; decide
  rw [if_neg h1, if_neg h2]

theorem lexPrim_bool (b : Bool) {rest : List Char} (hd : TokEnd rest) :
    lexPrim ((if b then "true".toList else "false".toList) ++ rest) = some (.ok (.bool b, rest)) := by
  have hs := hd.stops identChar_tokEnd
  cases b
  · have h : lexIdent ("false".toList ++ rest) = some ("false".toList, rest) := lexIdent_append (by decide) hs
    have h' : lexIdent ('f' :: 'a' :: 'l' :: 's' :: 'e' :: rest) = some ("false".toList, rest) := h
    simp [lexPrim, h', show isIdentStart 'f' = true by decide]
  · have h : lexIdent ("true".toList ++ rest) = some ("true".toList, rest) := lexIdent_append (by decide) hs
    have h' : lexIdent ('t' :: 'r' :: 'u' :: 'e' :: rest) = some ("true".toList, rest) := h
    simp [lexPrim, h', show isIdentStart 't' = true by decide]


theorem digit_range {c : Char} (h : isDigit c = true) : 48 ≤ c.toNat ∧ c.toNat ≤ 57 := by
  simp only [isDigit, Char.isDigit, Bool.and_eq_true, decide_eq_true_eq] at h
  have h1 := h.1
  have h2 := h.2
  simp only [ge_iff_le, UInt32.le_iff_toNat_le] at h1 h2
  exact ⟨h1, h2⟩

theorem natChars_digits (m : Nat) : ∀ c ∈ natChars m, isDigit c = true :=
  fun _ hc => Nat.isDigit_of_mem_toDigits (by decide) (by decide) hc

theorem natChars_ne_nil (m : Nat) : natChars m ≠ [] := Nat.toDigits_ne_nil

theorem digit_not_identStart {c : Char} (h : isDigit c = true) : isIdentStart c = false := by
  have hr := digit_range h
  have : ∀ n, n < 58 → 48 ≤ n → inRanges identStartRanges n = false := by decide
  exact this _ (by omega) hr.1

theorem digit_ne {c : Char} (h : isDigit c = true) (d : Char) (hd : d.toNat < 48 ∨ 57 < d.toNat) : c ≠ d := by
  intro he; subst he; have := digit_range h; omega

theorem delim_cases {rest : List Char} (hd : Delim rest) :
    rest = [] ∨ ∃ c r, rest = c :: r ∧ (c = ',' ∨ c = ':' ∨ c = ')' ∨ c = '}') := by
  cases rest with
  | nil => exact Or.inl rfl
  | cons c r => exact Or.inr ⟨c, r, rfl, hd c (by simp)⟩

/-- `0b…` / `0x…` do not match decimal digits followed by a delimiter. -/
theorem lexRadixBody_none {ds rest : List Char} (tc tC : Char) (isD : Char → Bool) (radix : Nat) (neg : Bool)
    (hds : ∀ c ∈ ds, isDigit c = true) (hd : TokEnd rest)
    (htc : (tc.toNat < 48 ∨ 57 < tc.toNat) ∧ tokEnd tc = false)
    (htC : (tC.toNat < 48 ∨ 57 < tC.toNat) ∧ tokEnd tC = false) :
    lexRadixBody tc tC isD radix neg (ds ++ rest) = none := by
  unfold lexRadixBody
  split
  · rename_i t r heq
    have ht : t ≠ tc ∧ t ≠ tC := by
      cases ds with
      | nil =>
        -- `rest` starts with `0`: impossible for a delimiter
        simp only [List.nil_append] at heq
        subst heq
        have h0 := hd '0' (by simp)
        have : tokEnd '0' = false := by decide
        rw [this] at h0; cases h0
      | cons d ds' =>
        simp only [List.cons_append, List.cons.injEq] at heq
        cases ds' with
        | nil =>
          simp only [List.nil_append] at heq
          have hr := heq.2
          subst hr
          have ht := hd t (by simp)
          constructor
          · intro h; subst h; rw [htc.2] at ht; cases ht
          · intro h; subst h; rw [htC.2] at ht; cases ht
        | cons d2 ds'' =>
          simp only [List.cons_append, List.cons.injEq] at heq
          have hd2 : isDigit d2 = true := hds d2 (by simp)
          rw [← heq.2.1]
          exact ⟨digit_ne hd2 tc htc.1, digit_ne hd2 tC htC.1⟩
    simp [ht.1, ht.2]
  · rfl

theorem lexNumber_nat (neg : Bool) (m : Nat) {rest : List Char} (hd : TokEnd rest) :
    lexNumber ((if neg then ['-'] else []) ++ natChars m ++ rest) = some (intValue neg m, rest) := by
  have hds := natChars_digits m
  have hne := natChars_ne_nil m
  have hss : stripSign ((if neg then ['-'] else []) ++ natChars m ++ rest) = (neg, natChars m ++ rest) := by
    cases neg
    · simp only [Bool.false_eq_true, ↓reduceIte, List.nil_append]
      cases hn : natChars m with
      | nil => exact absurd hn hne
      | cons d ds =>
        have hdd : isDigit d = true := hds d (by simp [hn])
        have : d ≠ '-' := digit_ne hdd '-' (by decide)
        simp only [List.cons_append, stripSign]
        split
        · rename_i heq; simp only [List.cons.injEq] at heq; exact absurd heq.1 this
        · rfl
    · simp [stripSign]
  have hb : lexRadix 'b' 'B' isBinDigit 2 ((if neg then ['-'] else []) ++ natChars m ++ rest) = none := by
    unfold lexRadix; rw [hss]
    exact lexRadixBody_none 'b' 'B' _ _ _ hds hd (by decide) (by decide)
  have hx : lexRadix 'x' 'X' isHexDigit 16 ((if neg then ['-'] else []) ++ natChars m ++ rest) = none := by
    unfold lexRadix; rw [hss]
    exact lexRadixBody_none 'x' 'X' _ _ _ hds hd (by decide) (by decide)
  unfold lexNumber
  rw [hb, hx]
  unfold lexDecimal
  rw [hss]
  unfold lexDecimalBody
  have hst := hd.stops isDigit_tokEnd
  rw [takeWhile_append_stop hds hst, dropWhile_append_stop hds hst]
  cases hn : natChars m with
  | nil => exact absurd hn hne
  | cons d ds =>
    have hv : Nat.ofDigitChars 10 (d :: ds) 0 = m := by rw [← hn]; exact Nat.ofDigitChars_ten_toDigits
    rcases tokend_cases hd with rfl | ⟨c, r, rfl, hc⟩
    · simp [hv]
    · have : ¬(c = '.' ∨ c = 'e' ∨ c = 'E') := by
        rcases tokEnd_cases hc with rfl | rfl | rfl | rfl | rfl | rfl <;> decide
      simp [this, hv]



theorem lexPrim_int (n : Int) {rest : List Char} (hd : TokEnd rest) :
    lexPrim (intChars n ++ rest) = some (.ok (.int (classify n) n, rest)) := by
  cases n with
  | ofNat m =>
    have h := lexNumber_nat false m hd
    simp only [Bool.false_eq_true, ↓reduceIte, List.nil_append] at h
    simp only [intChars]
    cases hn : natChars m with
    | nil => exact absurd hn (natChars_ne_nil m)
    | cons d ds =>
      have hdd : isDigit d = true := natChars_digits m d (by simp [hn])
      rw [hn] at h
      simp only [List.cons_append] at h ⊢
      simp only [lexPrim, digit_ne hdd '"' (by decide), ↓reduceIte, digit_not_identStart hdd, Bool.false_eq_true,
        digit_ne hdd '%' (by decide), hdd, true_or, h]
      simp [intValue]
  | negSucc m =>
    have h := lexNumber_nat true (m + 1) hd
    simp only [↓reduceIte, List.cons_append, List.nil_append] at h
    simp only [intChars, List.cons_append]
    simp only [lexPrim, show ('-' : Char) ≠ '"' by decide, ↓reduceIte, show isIdentStart '-' = false by decide,
      Bool.false_eq_true, show ('-' : Char) ≠ '%' by decide, or_true, true_or, h]
    simp [intValue, Int.negSucc_eq]


/-! ### string literals -/


theorem hexDigitChar_plain (k : Nat) : hexDigitChar k ≠ '"' ∧ hexDigitChar k ≠ '\\' := by
  have h : ∀ j, j < 16 → Nat.digitChar j ≠ '"' ∧ Nat.digitChar j ≠ '\\' := by decide
  exact h (k % 16) (Nat.mod_lt _ (by decide))

theorem quote_escaped : lookupNat escapeTable ('"').toNat ≠ none := by decide

theorem scanString_plain {c : Char} (h1 : c ≠ '"') (h2 : c ≠ '\\') (t : List Char) :
    scanString (c :: t) = (scanString t).map fun p => (c :: p.1, p.2) := by
  rw [scanString.eq_def]; simp [h1, h2]

theorem scanString_pair (d : Char) (t : List Char) :
    scanString ('\\' :: d :: t) = (scanString t).map fun p => ('\\' :: d :: p.1, p.2) := by
  rw [scanString]; simp

theorem scan_escapeChar (c : Char) (t : List Char) :
    scanString (escapeChar c ++ t) = (scanString t).map fun p => (escapeChar c ++ p.1, p.2) := by
  unfold escapeChar
  split
  · simp only [List.cons_append, List.nil_append, scanString_pair]
  · rename_i hn
    split
    · have a := hexDigitChar_plain (c.toNat / 4096)
      have b := hexDigitChar_plain (c.toNat / 256)
      have d := hexDigitChar_plain (c.toNat / 16)
      have e := hexDigitChar_plain c.toNat
      simp only [List.cons_append, List.nil_append, scanString_pair, scanString_plain a.1 a.2,
        scanString_plain b.1 b.2, scanString_plain d.1 d.2, scanString_plain e.1 e.2, Option.map_map]
      cases scanString t <;> rfl
    · have h1 : c ≠ '"' := by intro h; subst h; exact quote_escaped hn
      have h2 : c ≠ '\\' := by intro h; subst h; exact backslash_escaped hn
      simp only [List.cons_append, List.nil_append, scanString_plain h1 h2]

theorem scan_escape (s rest : List Char) : scanString (escape s ++ '"' :: rest) = some (escape s, rest) := by
  unfold escape
  induction s with
  | nil => rw [List.flatMap_nil, List.nil_append, scanString.eq_def]; simp
  | cons c s ih =>
    simp only [List.flatMap_cons, List.append_assoc]
    rw [scan_escapeChar, ih]; rfl

theorem table_keys_need_escape : ∀ p ∈ escapeTable, p.1 < needsEscapeBound ∨ needsEscapeChars.contains p.1 = true := by
  decide

theorem ctl_le_needs : escapeCtlBound ≤ needsEscapeBound := by decide

theorem lookupNat_none_of_not_key {t : List (Nat × Nat)} {k : Nat} (h : ∀ p ∈ t, p.1 ≠ k) : lookupNat t k = none := by
  induction t with
  | nil => rfl
  | cons p r ih =>
    simp only [lookupNat]
    rw [if_neg (h p (by simp))]
    exact ih (fun q hq => h q (by simp [hq]))

theorem escape_of_not_needs {s : List Char} (h : needsEscape s = false) : escape s = s := by
  unfold escape
  induction s with
  | nil => rfl
  | cons c s ih =>
    simp only [needsEscape, List.any_cons, Bool.or_eq_false_iff] at h
    have hc := h.1
    have hs : needsEscape s = false := h.2
    simp only [List.flatMap_cons]
    rw [ih hs]
    have hk : lookupNat escapeTable c.toNat = none := by
      apply lookupNat_none_of_not_key
      intro p hp hpk
      rcases table_keys_need_escape p hp with h1 | h1
      · rw [hpk] at h1; simp [h1] at hc
      · rw [hpk] at h1; rw [h1] at hc; simp at hc
    have hb : ¬ c.toNat < escapeCtlBound := by
      intro hlt
      have : c.toNat < needsEscapeBound := Nat.lt_of_lt_of_le hlt ctl_le_needs
      simp [this] at hc
    simp [escapeChar, hk, hb]

theorem stringLiteral_quoted {s : List Char} (h : isIdentifier s = false) :
    stringLiteral s = '"' :: (escape s ++ ['"']) := by
  unfold stringLiteral
  simp only [h, Bool.false_eq_true, ↓reduceIte]
  split
  · rfl
  · rename_i hn
    rw [escape_of_not_needs (by simpa using hn)]

theorem lexString_escape (s rest : List Char) : lexString ('"' :: (escape s ++ '"' :: rest)) = .ok (s, rest) := by
  simp only [lexString, scan_escape, unescape_escape, Res.map]

theorem lexPrim_quoted {s : List Char} (h : isIdentifier s = false) (rest : List Char) :
    lexPrim (stringLiteral s ++ rest) = some (.ok (.text s, rest)) := by
  rw [stringLiteral_quoted h]
  simp only [List.cons_append, List.append_assoc, List.nil_append]
  simp only [lexPrim, ↓reduceIte, lexString_escape, Res.map]

/-- Every text is lexed back from its literal. -/
theorem lexPrim_text (s : List Char) {rest : List Char} (hd : TokEnd rest) :
    lexPrim (stringLiteral s ++ rest) = some (.ok (.text s, rest)) := by
  cases h : isIdentifier s
  · exact lexPrim_quoted h rest
  · have : stringLiteral s = s := by simp [stringLiteral, h]
    rw [this]; exact lexPrim_ident h hd


/-! ### blobs -/


set_option maxRecDepth 8192 in
theorem b64_char_val : ∀ n, n < 64 → b64Val? (b64Char n) = some n := by decide
theorem b64_pad : b64Val? '=' = none := by decide
theorem b64_tokEnd : ∀ c, tokEnd c = true → b64Val? c = none := by
  intro c h; rcases tokEnd_cases h with rfl | rfl | rfl | rfl | rfl | rfl <;> decide

theorem lexB64_stop {fuel : Nat} {rest : List Char} (hd : TokEnd rest) : lexB64 (fuel + 1) rest = some ([], rest) := by
  rw [lexB64.eq_def]
  simp only
  split
  · rename_i a b c d r
    have ha : b64Val? a = none := b64_tokEnd a (hd a (by simp))
    simp [ha]
  · rfl

theorem lexB64_encode (bs : List Nat) (hb : ∀ b ∈ bs, b < 256) {rest : List Char} (hd : TokEnd rest) :
    ∀ fuel, bs.length < fuel → lexB64 fuel (b64Encode bs ++ rest) = some (bs, rest) := by
  fun_induction b64Encode bs with
  | case1 =>
    intro fuel hf
    cases fuel with
    | zero => omega
    | succ f => simpa using lexB64_stop hd
  | case2 a =>
    intro fuel hf
    cases fuel with
    | zero => omega
    | succ f =>
      have ha : a < 256 := hb a (by simp)
      have h1 := b64_char_val (a / 4) (by omega)
      have h2 := b64_char_val (a % 4 * 16) (by omega)
      simp only [List.cons_append, List.nil_append, lexB64, h1, h2, b64_pad, and_self, ↓reduceIte]
      have : a % 4 * 16 % 16 = 0 := by omega
      simp only [this, ↓reduceIte, Option.some.injEq, Prod.mk.injEq, List.cons.injEq, and_true]
      omega
  | case3 a b =>
    intro fuel hf
    cases fuel with
    | zero => omega
    | succ f =>
      have ha : a < 256 := hb a (by simp)
      have hb' : b < 256 := hb b (by simp)
      have h1 := b64_char_val (a / 4) (by omega)
      have h2 := b64_char_val (a % 4 * 16 + b / 16) (by omega)
      have h3 := b64_char_val (b % 16 * 4) (by omega)
      simp only [List.cons_append, List.nil_append, lexB64, h1, h2, h3, b64_pad, ↓reduceIte]
      have : b % 16 * 4 % 4 = 0 := by omega
      simp only [this, ↓reduceIte, Option.some.injEq, Prod.mk.injEq, List.cons.injEq, and_true]
      omega
  | case4 a b c r ih =>
    intro fuel hf
    cases fuel with
    | zero => omega
    | succ f =>
      have ha : a < 256 := hb a (by simp)
      have hb' : b < 256 := hb b (by simp)
      have hc : c < 256 := hb c (by simp)
      have h1 := b64_char_val (a / 4) (by omega)
      have h2 := b64_char_val (a % 4 * 16 + b / 16) (by omega)
      have h3 := b64_char_val (b % 16 * 4 + c / 64) (by omega)
      have h4 := b64_char_val (c % 64) (by omega)
      have ihr := ih (fun x hx => hb x (by simp [hx])) f (by simp at hf; omega)
      simp only [List.cons_append, lexB64, h1, h2, h3, h4, ihr, Option.some.injEq, Prod.mk.injEq, List.cons.injEq,
        and_true]
      omega

theorem b64Encode_length (bs : List Nat) : bs.length ≤ (b64Encode bs).length := by
  fun_induction b64Encode bs <;> simp <;> omega

theorem lexPrim_data (bs : List Nat) (hb : ∀ b ∈ bs, b < 256) {rest : List Char} (hd : TokEnd rest) :
    lexPrim ('%' :: (b64Encode bs ++ rest)) = some (.ok (.data bs, rest)) := by
  have h := lexB64_encode bs hb hd ((b64Encode bs).length + rest.length + 1)
    (by have := b64Encode_length bs; omega)
  simp [lexPrim, show isIdentStart '%' = false by decide, lexBlob, h]


/-! ## no panic -/

theorem Res.map_ne_panic {α β : Type} (f : α → β) {r : Res α} (h : r ≠ .panic) : r.map f ≠ .panic := by
  cases r <;> simp_all [Res.map]
theorem unescFrom_ne_panic (st : EscSt) (s : List Char) : unescFrom st s ≠ .panic := by
  fun_induction unescFrom st s <;> first
    | (intro h; cases h)
    | assumption
    | (apply Res.map_ne_panic; assumption)
theorem lexString_ne_panic (inp : List Char) : lexString inp ≠ .panic := by
  unfold lexString
  split
  · split
    · exact Res.map_ne_panic _ (unescFrom_ne_panic _ _)
    · intro h; cases h
  · intro h; cases h

theorem lexPrim_ne_panic (inp : List Char) : lexPrim inp ≠ some .panic := by
  unfold lexPrim
  split
  · simp
  · split
    · intro h; simp only [Option.some.injEq] at h; exact Res.map_ne_panic _ (lexString_ne_panic _) h
    · split
      · split <;> simp
      · split
        · split <;> simp
        · split
          · split <;> simp
          · simp

structure NP (f : Nat) : Prop where
  e : ∀ i, pElem f i ≠ .panic
  a : ∀ acc i, pAttrs f acc i ≠ .panic
  aa : ∀ acc i, pAfterAttr f acc i ≠ .panic
  it : ∀ k r i, pItems f k r i ≠ .panic
  av : ∀ k v i, pAfterValue f k v i ≠ .panic
  s : ∀ k v i, pSlot f k v i ≠ .panic
  as : ∀ k a v i, pAfterSlot f k a v i ≠ .panic

theorem np_all : ∀ f, NP f
  | 0 => ⟨by intro i; simp [pElem], by intro a i; simp [pAttrs], by intro a i; simp [pAfterAttr],
      by intro k r i; simp [pItems], by intro k v i; simp [pAfterValue], by intro k v i; simp [pSlot],
      by intro k a v i; simp [pAfterSlot]⟩
  | f + 1 => by
    have ih := np_all f
    have hl := lexPrim_ne_panic
    have hs := lexString_ne_panic
    refine ⟨?_, ?_, ?_, ?_, ?_, ?_, ?_⟩
    · intro i; rw [pElem.eq_def]; simp only
      split
      · exact ih.a _ _
      · have := ih.it .rb false ‹_›; split <;> simp_all
      · split
        · rename_i r h; intro hr; subst hr; exact hl _ h
        · simp
    · intro acc i; rw [pAttrs.eq_def]; simp only
      repeat' split
      all_goals first
        | (intro h; cases h; done)
        | exact ih.e _ | exact ih.a _ _ | exact ih.aa _ _ | exact ih.it _ _ _ | exact ih.av _ _ _ | exact ih.s _ _ _
        | exact ih.as _ _ _ _
        | (rename_i h; exact absurd h (ih.it _ _ _))
        | (rename_i h; exact absurd h (ih.e _))
        | (rename_i h _; exact absurd h (ih.it _ _ _))
        | (rename_i h; exact absurd h (hl _))
        | (rename_i h; exact absurd h (Res.map_ne_panic _ (hs _)))
        | (rename_i h; split at h
           · exact absurd h (Res.map_ne_panic _ (hs _))
           · split at h <;> cases h)
        | simp_all
    · intro acc i; rw [pAfterAttr.eq_def]; simp only
      repeat' split
      all_goals first
        | (intro h; cases h; done)
        | exact ih.e _ | exact ih.a _ _ | exact ih.aa _ _ | exact ih.it _ _ _ | exact ih.av _ _ _ | exact ih.s _ _ _
        | exact ih.as _ _ _ _
        | (rename_i h; exact absurd h (ih.it _ _ _))
        | (rename_i h; exact absurd h (ih.e _))
        | (rename_i h _; exact absurd h (ih.it _ _ _))
        | (rename_i h; exact absurd h (hl _))
        | (rename_i h; exact absurd h (Res.map_ne_panic _ (hs _)))
        | (rename_i h; split at h
           · exact absurd h (Res.map_ne_panic _ (hs _))
           · split at h <;> cases h)
        | simp_all
    · intro k r i; rw [pItems.eq_def]; simp only
      repeat' split
      all_goals first
        | (intro h; cases h; done)
        | exact ih.e _ | exact ih.a _ _ | exact ih.aa _ _ | exact ih.it _ _ _ | exact ih.av _ _ _ | exact ih.s _ _ _
        | exact ih.as _ _ _ _
        | (rename_i h; exact absurd h (ih.it _ _ _))
        | (rename_i h; exact absurd h (ih.e _))
        | (rename_i h _; exact absurd h (ih.it _ _ _))
        | (rename_i h; exact absurd h (hl _))
        | (rename_i h; exact absurd h (Res.map_ne_panic _ (hs _)))
        | (rename_i h; split at h
           · exact absurd h (Res.map_ne_panic _ (hs _))
           · split at h <;> cases h)
        | simp_all
    · intro k v i; rw [pAfterValue.eq_def]; simp only
      repeat' split
      all_goals first
        | (intro h; cases h; done)
        | exact ih.e _ | exact ih.a _ _ | exact ih.aa _ _ | exact ih.it _ _ _ | exact ih.av _ _ _ | exact ih.s _ _ _
        | exact ih.as _ _ _ _
        | (rename_i h; exact absurd h (ih.it _ _ _))
        | (rename_i h; exact absurd h (ih.e _))
        | (rename_i h _; exact absurd h (ih.it _ _ _))
        | (rename_i h; exact absurd h (hl _))
        | (rename_i h; exact absurd h (Res.map_ne_panic _ (hs _)))
        | (rename_i h; split at h
           · exact absurd h (Res.map_ne_panic _ (hs _))
           · split at h <;> cases h)
        | simp_all
    · intro k v i; rw [pSlot.eq_def]; simp only
      repeat' split
      all_goals first
        | (intro h; cases h; done)
        | exact ih.e _ | exact ih.a _ _ | exact ih.aa _ _ | exact ih.it _ _ _ | exact ih.av _ _ _ | exact ih.s _ _ _
        | exact ih.as _ _ _ _
        | (rename_i h; exact absurd h (ih.it _ _ _))
        | (rename_i h; exact absurd h (ih.e _))
        | (rename_i h _; exact absurd h (ih.it _ _ _))
        | (rename_i h; exact absurd h (hl _))
        | (rename_i h; exact absurd h (Res.map_ne_panic _ (hs _)))
        | (rename_i h; split at h
           · exact absurd h (Res.map_ne_panic _ (hs _))
           · split at h <;> cases h)
        | simp_all
    · intro k a v i; rw [pAfterSlot.eq_def]; simp only
      repeat' split
      all_goals first
        | (intro h; cases h; done)
        | exact ih.e _ | exact ih.a _ _ | exact ih.aa _ _ | exact ih.it _ _ _ | exact ih.av _ _ _ | exact ih.s _ _ _
        | exact ih.as _ _ _ _
        | (rename_i h; exact absurd h (ih.it _ _ _))
        | (rename_i h; exact absurd h (ih.e _))
        | (rename_i h _; exact absurd h (ih.it _ _ _))
        | (rename_i h; exact absurd h (hl _))
        | (rename_i h; exact absurd h (Res.map_ne_panic _ (hs _)))
        | (rename_i h; split at h
           · exact absurd h (Res.map_ne_panic _ (hs _))
           · split at h <;> cases h)
        | simp_all

theorem parseFuel_ne_panic (fuel : Nat) (inp : List Char) : parseFuel fuel inp ≠ .panic := by
  unfold parseFuel
  split
  · intro h; cases h
  · exact Res.map_ne_panic _ ((np_all fuel).e _)

theorem parse_ne_panic (inp : List Char) : parse inp ≠ .panic := parseFuel_ne_panic _ inp

end SwimVerif.Recon
