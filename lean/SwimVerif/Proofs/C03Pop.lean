/-
C03 (map lane): `WriteQueues::pop` and `MapLane::write_to_buffer`'s skipping loop (`popFrame`) as relations, and the
fuel of the loop is enough: it returns nothing only when the write queues are empty.
-/
import SwimVerif.Proofs.C03Queue

set_option linter.unusedVariables false
set_option linter.unusedSimpArgs false
namespace SwimVerif.ML

def IdxOk (w : WQ) : Prop := w.syncIndex < w.syncs.length ∨ w.syncIndex = 0

def WQ.flip (w : WQ) : WQ := { w with nextIsEvent := !w.nextIsEvent }

def syncedIdx (w : WQ) : Nat := if w.syncIndex ≥ (w.syncs.eraseIdx w.syncIndex).length then 0 else w.syncIndex

/-- what one `WriteQueues::pop` does -/
inductive PopR (w : WQ) : Option ToWrite → WQ → Prop
  | none : w.eq.events = [] → w.syncs = [] → PopR w none w.flip
  | event (a : Act) (rest : List Act) : w.eq.events = a :: rest →
      PopR w (some (.event a))
        { w.flip with eq := { events := rest, head := (w.eq.head + 1) % M64, emap := popEmap w.eq.emap a },
                      syncs := updateSyncs w.syncs a }
  | syncEvent (r k : Nat) (ks : List Nat) (p : Nat) : w.syncs[w.syncIndex]? = some ⟨r, k :: ks, p⟩ →
      PopR w (some (.syncEvent r k))
        { w.flip with syncs := w.syncs.set w.syncIndex ⟨r, ks, p⟩, syncIndex := (w.syncIndex + 1) % w.syncs.length }
  | synced (r p : Nat) : w.syncs[w.syncIndex]? = some ⟨r, [], p⟩ → (p = 0 ∨ w.eq.events = []) →
      PopR w (some (.synced r)) { w.flip with syncs := w.syncs.eraseIdx w.syncIndex, syncIndex := syncedIdx w }

theorem pop_spec (w : WQ) (h : IdxOk w) : PopR w w.pop.1 w.pop.2 := by
  unfold WQ.pop
  simp only []
  split
  · rename_i hc
    cases he : w.eq.events with
    | nil =>
      have hs : w.syncs = [] := by
        simp [he] at hc
        exact hc
      rw [pop_nil _ he]
      exact PopR.none he hs
    | cons a rest =>
      rw [pop_cons _ a rest he]
      exact PopR.event a rest he
  · rename_i hc
    have hne : w.syncs ≠ [] := by
      intro hs
      simp [hs] at hc
    have hlen : 0 < w.syncs.length := List.length_pos_iff.mpr hne
    have hidx : w.syncIndex < w.syncs.length := by
      rcases h with h | h
      · exact h
      · omega
    have hget : w.syncs[w.syncIndex]? = some w.syncs[w.syncIndex] := List.getElem?_eq_getElem hidx
    cases hsq : w.syncs[w.syncIndex] with
    | mk r keys p =>
      rw [hsq] at hget
      cases keys with
      | cons k ks =>
        simp only [hget]
        exact PopR.syncEvent r k ks p hget
      | nil =>
        simp only [hget]
        by_cases hp : p > 0
        · simp only [hp, if_true]
          cases he : w.eq.events with
          | nil =>
            rw [pop_nil _ he]
            exact PopR.synced r p hget (Or.inr he)
          | cons a rest =>
            rw [pop_cons _ a rest he]
            exact PopR.event a rest he
        · simp only [hp, if_false]
          exact PopR.synced r p hget (Or.inl (by omega))

/-! ### the measure that every successful pop decreases -/

def syncMeasure (l : List SyncQ) : Nat := (l.map (fun p => p.keys.length + 1)).sum

def wqMeasure (w : WQ) : Nat := w.eq.events.length + syncMeasure w.syncs

theorem foldl_syncMeasure (l : List SyncQ) : ∀ n, l.foldl (fun n p => n + p.keys.length + 1) n = n + syncMeasure l := by
  induction l with
  | nil => intro n; simp [syncMeasure]
  | cons x xs ih =>
    intro n
    simp only [List.foldl_cons, ih, syncMeasure, List.map_cons, List.sum_cons]
    omega

theorem fuelFor_eq (w : WQ) : fuelFor w = 2 * wqMeasure w + 4 := by
  simp [fuelFor, wqMeasure, foldl_syncMeasure]

theorem removeFirst_length_le (k : Nat) (l : List Nat) : (removeFirst k l).length ≤ l.length := by
  induction l with
  | nil => simp [removeFirst]
  | cons x xs ih =>
    unfold removeFirst
    split <;> simp <;> omega

theorem syncMeasure_updateSyncs (l : List SyncQ) (a : Act) : syncMeasure (updateSyncs l a) ≤ syncMeasure l := by
  induction l with
  | nil => cases a <;> simp [updateSyncs, syncMeasure]
  | cons x xs ih =>
    cases a with
    | upd k =>
      have := removeFirst_length_le k x.keys
      simp only [updateSyncs, syncMeasure, List.map_cons, List.sum_cons] at ih ⊢
      omega
    | rem k =>
      have := removeFirst_length_le k x.keys
      simp only [updateSyncs, syncMeasure, List.map_cons, List.sum_cons] at ih ⊢
      omega
    | clear =>
      simp only [updateSyncs, syncMeasure, List.map_cons, List.sum_cons, List.length_nil] at ih ⊢
      omega

theorem length_updateSyncs (l : List SyncQ) (a : Act) : (updateSyncs l a).length = l.length := by
  cases a <;> simp [updateSyncs]

theorem syncMeasure_set : ∀ (l : List SyncQ) (i r k : Nat) (ks : List Nat) (p : Nat), l[i]? = some ⟨r, k :: ks, p⟩ →
    syncMeasure (l.set i ⟨r, ks, p⟩) + 1 = syncMeasure l := by
  intro l
  induction l with
  | nil => intro i r k ks p h; simp at h
  | cons x xs ih =>
    intro i r k ks p h
    cases i with
    | zero =>
      simp at h; subst h
      simp [syncMeasure]
      omega
    | succ i =>
      simp at h
      have := ih i r k ks p h
      simp only [syncMeasure, List.set_cons_succ, List.map_cons, List.sum_cons] at this ⊢
      omega

theorem syncMeasure_eraseIdx : ∀ (l : List SyncQ) (i : Nat) (q : SyncQ), l[i]? = some q →
    syncMeasure (l.eraseIdx i) < syncMeasure l := by
  intro l
  induction l with
  | nil => intro i q h; simp at h
  | cons x xs ih =>
    intro i q h
    cases i with
    | zero => simp [syncMeasure]
    | succ i =>
      simp at h
      have := ih i q h
      simp only [syncMeasure, List.eraseIdx_cons_succ, List.map_cons, List.sum_cons] at this ⊢
      omega

theorem popR_measure {w : WQ} {t : ToWrite} {w' : WQ} (h : PopR w (some t) w') : wqMeasure w' < wqMeasure w := by
  cases h with
  | event a rest he =>
    have := syncMeasure_updateSyncs w.syncs a
    simp only [wqMeasure, WQ.flip, he, List.length_cons]
    omega
  | syncEvent r k ks p hg =>
    have := syncMeasure_set w.syncs w.syncIndex r k ks p hg
    simp only [wqMeasure, WQ.flip]
    omega
  | synced r p hg hp =>
    have := syncMeasure_eraseIdx w.syncs w.syncIndex _ hg
    simp only [wqMeasure, WQ.flip]
    omega

theorem popR_idxOk {w : WQ} {t : Option ToWrite} {w' : WQ} (h : PopR w t w') (hi : IdxOk w) : IdxOk w' := by
  cases h with
  | none he hs => exact hi
  | event a rest he =>
    simp only [IdxOk, WQ.flip, length_updateSyncs]
    exact hi
  | syncEvent r k ks p hg =>
    have hlt : w.syncIndex < w.syncs.length := (List.getElem?_eq_some_iff.mp hg).1
    simp only [IdxOk, WQ.flip, List.length_set]
    left
    exact Nat.mod_lt _ (by omega)
  | synced r p hg hp =>
    simp only [IdxOk, WQ.flip, syncedIdx]
    split
    · right; rfl
    · left; omega

/-! ### the skipping loop -/

/-- `MapLane::write_to_buffer`: what is written for a popped entry (nothing if the key has vanished) -/
def frameOf (c : List (Nat × Nat)) : ToWrite → Option Frame
  | .event (.upd k) => (alGet c k).map (Frame.upd k)
  | .event (.rem k) => some (.rem k)
  | .event .clear => some .clear
  | .syncEvent r k => (alGet c k).map (Frame.sync r k)
  | .synced r => some (.synced r)

inductive PF (c : List (Nat × Nat)) : WQ → Option Frame → WQ → Prop
  | stop (w : WQ) : w.eq.events = [] → w.syncs = [] → PF c w none w.flip
  | emit (w : WQ) (t : ToWrite) (w' : WQ) (f : Frame) : PopR w (some t) w' → frameOf c t = some f → PF c w (some f) w'
  | skip (w : WQ) (t : ToWrite) (w' : WQ) (res : Option Frame) (w'' : WQ) :
      PopR w (some t) w' → frameOf c t = none → PF c w' res w'' → PF c w res w''

theorem popFrame_PF (c : List (Nat × Nat)) : ∀ (fuel : Nat) (w : WQ), IdxOk w → wqMeasure w < fuel →
    PF c w (popFrame c fuel w).1 (popFrame c fuel w).2 := by
  intro fuel
  induction fuel with
  | zero => intro w _ h; omega
  | succ fuel ih =>
    intro w hi hm
    have hs := pop_spec w hi
    unfold popFrame
    generalize hp : w.pop = x at hs
    obtain ⟨t, w'⟩ := x
    simp only at hs ⊢
    cases t with
    | none =>
      cases hs with
      | none he hsy => exact PF.stop w he hsy
    | some t =>
      have hm' := popR_measure hs
      have hi' := popR_idxOk hs hi
      cases t with
      | event a =>
        cases a with
        | upd k =>
          simp only
          cases hv : alGet c k with
          | some v => exact PF.emit w _ w' _ hs (by simp [frameOf, hv])
          | none =>
            exact PF.skip w _ w' _ _ hs (by simp [frameOf, hv]) (ih w' hi' (by omega))
        | rem k => exact PF.emit w _ w' _ hs rfl
        | clear => exact PF.emit w _ w' _ hs rfl
      | syncEvent r k =>
        simp only
        cases hv : alGet c k with
        | some v => exact PF.emit w _ w' _ hs (by simp [frameOf, hv])
        | none =>
          exact PF.skip w _ w' _ _ hs (by simp [frameOf, hv]) (ih w' hi' (by omega))
      | synced r => exact PF.emit w _ w' _ hs rfl

theorem popFrame_fuelFor (c : List (Nat × Nat)) (w : WQ) (h : IdxOk w) :
    PF c w (popFrame c (fuelFor w) w).1 (popFrame c (fuelFor w) w).2 :=
  popFrame_PF c _ w h (by rw [fuelFor_eq]; omega)

theorem PF_idxOk {c : List (Nat × Nat)} {w : WQ} {res : Option Frame} {w' : WQ} (h : PF c w res w') (hi : IdxOk w) :
    IdxOk w' := by
  induction h with
  | stop w he hs => exact hi
  | emit w t w' f hp hf => exact popR_idxOk hp hi
  | skip w t w' res w'' hp hf hpf ih => exact ih (popR_idxOk hp hi)

end SwimVerif.ML
