/-
C11 (socket part): a text message sent as fragments with control frames in between is reassembled unchanged.
-/
import SwimVerif.Model.WsFrames

set_option linter.unusedSimpArgs false
namespace SwimVerif.WsFrames

theorem run_ctl (a : Asm) (cs : List Ctl) (fs : List Frame) : run a (ctlFrames cs ++ fs) = run a fs := by
  induction cs with
  | nil => rfl
  | cons c cs ih => cases c <;> simp [ctlFrames, run, step, ih]

/-- from any state of the buffer that matches the position in the message -/
theorem run_frag (buf : List Nat) (first : Bool) (chunks : List (List Nat × List Ctl)) (last : List Nat)
    (hb : first = true → buf = []) :
    run ⟨buf, !first⟩ (fragFrames first chunks last) = ({}, [.text (buf ++ chunks.flatMap (·.1) ++ last)]) := by
  induction chunks generalizing buf first with
  | nil =>
    cases first with
    | true => simp [fragFrames, run, step, hb rfl]
    | false => simp [fragFrames, run, step]
  | cons c rest ih =>
    obtain ⟨c, ctl⟩ := c
    have h := ih (buf ++ c) false (by simp)
    cases first with
    | true =>
      have hbuf := hb rfl
      subst hbuf
      simp only [fragFrames, run, step, Bool.not_true, Bool.false_eq_true, if_false, List.nil_append, if_true]
      rw [run_ctl]
      simpa using h
    | false =>
      simp only [fragFrames, run, step, Bool.not_false, Bool.not_true, Bool.false_eq_true, if_false]
      rw [run_ctl]
      simpa [List.append_assoc] using h

end SwimVerif.WsFrames
