/-
The WARP link language of the whole write task (C04): the decidable checker `langOk` over the structured model
trace, the input conditions `wellFormed` / `lanesFresh`, and the per-key view of the checker (`runNotes`, `lst`)
the proofs work with.
-/
import SwimVerif.Proofs.UplinkSys
import SwimVerif.Proofs.LinksAll

set_option linter.unusedSimpArgs false
set_option linter.unusedVariables false
namespace SwimVerif.WT

/-! ### The checker (statement level) -/

def frameOk (isOpen : Bool) : Note → Option Bool
  | .linked => some true
  | .unlinked .notFound => some isOpen
  | .unlinked _ => if isOpen then some false else none
  | .synced => if isOpen then some true else none
  | .event _ => if isOpen then some true else none

def langFrame (st : List (Nat × Bool)) (r : Nat) (f : Option Nat × Note) : Option (List (Nat × Bool)) :=
  match f.1 with
  | none => none
  | some name => (frameOk ((alGet st (r * 100000 + name)).getD false) f.2).map (alSet st (r * 100000 + name))

def langFrames (st : List (Nat × Bool)) (r : Nat) : List (Option Nat × Note) → Option (List (Nat × Bool))
  | [] => some st
  | f :: fs => match langFrame st r f with
    | some st' => langFrames st' r fs
    | none => none

/-- Frames come out of `done r` steps only. -/
def langOk : St → List (Nat × Bool) → List Ev → Bool
  | _, _, [] => true
  | s, st, e :: rest =>
    let x := step s e
    match e with
    | .done r _ => (match langFrames st r x.2.frames with
      | some st' => langOk x.1 st' rest
      | none => false)
    | _ => langOk x.1 st rest

/-- Events refer to registered lanes and a remote id is attached at most once. -/
def wellFormed : St → List Nat → List Ev → Bool
  | _, _, [] => true
  | s, seen, e :: rest =>
    (match e with
      | .event lane _ _ => decide (lane < s.reg.length)
      | .laneFailed lane => decide (lane < s.reg.length)
      | .attach r => !seen.contains r
      | _ => true) &&
    wellFormed (step s e).1 (match e with | .attach r => r :: seen | _ => seen) rest

/-- Every lane name is registered at most once and fits the key encoding `r * 100000 + name` of the checker
(the agent model rejects duplicate lane names before the runtime sees them; the encoding is the checker's). -/
def lanesFresh : St → List Ev → Bool
  | _, [] => true
  | s, e :: rest =>
    (match e with
      | .lane name _ => decide (name < 100000) && !s.reg.contains name
      | _ => true) &&
    lanesFresh (step s e).1 rest

/-! ### Per-key view -/

/-- The checker restricted to the notes of one (remote, lane name) key. -/
def runNotes : Bool → List Note → Option Bool
  | b, [] => some b
  | b, x :: xs => match frameOk b x with
    | some b' => runNotes b' xs
    | none => none

def isData : Note → Bool
  | .synced => true
  | .event _ => true
  | _ => false

def lkey (r n : Nat) : Nat := r * 100000 + n

def lst (st : List (Nat × Bool)) (k : Nat) : Bool := (alGet st k).getD false

theorem runNotes_append (b : Bool) (xs ys : List Note) :
    runNotes b (xs ++ ys) = (runNotes b xs).bind (fun b' => runNotes b' ys) := by
  induction xs generalizing b with
  | nil => rfl
  | cons x xs ih =>
    simp only [List.cons_append, runNotes]
    cases frameOk b x with
    | none => rfl
    | some b' => exact ih b'

theorem runNotes_data (ns : List Note) (h : ∀ x ∈ ns, isData x = true) : runNotes true ns = some true := by
  induction ns with
  | nil => rfl
  | cons x xs ih =>
    have hx := h x (by simp)
    have hxs : ∀ y ∈ xs, isData y = true := fun y hy => h y (by simp [hy])
    cases x with
    | linked => simp [isData] at hx
    | unlinked m => simp [isData] at hx
    | synced => simpa [runNotes, frameOk] using ih hxs
    | event b => simpa [runNotes, frameOk] using ih hxs

theorem runNotes_notFound (b : Bool) (ns : List Note) (h : ∀ x ∈ ns, x = Note.unlinked .notFound) :
    runNotes b ns = some b := by
  induction ns with
  | nil => rfl
  | cons x xs ih =>
    have hx := h x (by simp)
    subst hx
    have hxs : ∀ y ∈ xs, y = Note.unlinked .notFound := fun y hy => h y (by simp [hy])
    simpa [runNotes, frameOk] using ih hxs

theorem runNotes_snoc_linked (b : Bool) (xs : List Note) (h : runNotes b xs ≠ none) :
    runNotes b (xs ++ [.linked]) = some true := by
  rw [runNotes_append]
  cases hr : runNotes b xs with
  | none => exact absurd hr h
  | some b' => rfl

theorem runNotes_snoc_notFound (b : Bool) (xs : List Note) :
    runNotes b (xs ++ [.unlinked .notFound]) = runNotes b xs := by
  rw [runNotes_append]
  cases hr : runNotes b xs with
  | none => rfl
  | some b' => rfl

theorem runNotes_snoc_unlinked (b : Bool) (xs : List Note) (m : UnlinkMsg) (h : runNotes b xs = some true) :
    runNotes b (xs ++ [.unlinked m]) ≠ none := by
  rw [runNotes_append, h]
  cases m <;> simp [runNotes, frameOk]

theorem lst_alSet (st : List (Nat × Bool)) (k k' : Nat) (v : Bool) :
    lst (alSet st k v) k' = if k = k' then v else lst st k' := by
  unfold lst
  rw [alGet_alSet]
  split <;> rfl

/-- Delivering the notes of one write = running them on the key of (remote, lane name); other keys keep their
state. -/
theorem langFrames_notes (r n : Nat) : ∀ (notes : List Note) (st : List (Nat × Bool)) (b1 : Bool),
    runNotes (lst st (lkey r n)) notes = some b1 →
    ∃ st', langFrames st r (notes.map (fun x => (some n, x))) = some st' ∧ lst st' (lkey r n) = b1 ∧
      ∀ k, k ≠ lkey r n → lst st' k = lst st k := by
  intro notes
  induction notes with
  | nil =>
    intro st b1 h
    simp only [runNotes, Option.some.injEq] at h
    exact ⟨st, rfl, h, fun _ _ => rfl⟩
  | cons x xs ih =>
    intro st b1 h
    simp only [runNotes] at h
    cases hf : frameOk (lst st (lkey r n)) x with
    | none => rw [hf] at h; simp at h
    | some b' =>
      rw [hf] at h
      have hb' : lst (alSet st (lkey r n) b') (lkey r n) = b' := by rw [lst_alSet]; simp
      obtain ⟨st', h1, h2, h3⟩ := ih (alSet st (lkey r n) b') b1 (by rw [hb']; exact h)
      refine ⟨st', ?_, h2, ?_⟩
      · simp only [List.map_cons, langFrames, langFrame]
        have : frameOk ((alGet st (r * 100000 + n)).getD false) x = some b' := hf
        rw [this]
        exact h1
      · intro k hk
        rw [h3 k hk, lst_alSet]
        simp [Ne.symm hk]

/-- A `notFound` answer leaves every key as it is. -/
theorem langFrames_notFound (r n : Nat) (st : List (Nat × Bool)) :
    ∃ st', langFrames st r [(some n, Note.unlinked .notFound)] = some st' ∧ ∀ k, lst st' k = lst st k := by
  refine ⟨alSet st (r * 100000 + n) ((alGet st (r * 100000 + n)).getD false), ?_, ?_⟩
  · simp [langFrames, langFrame, frameOk]
  · intro k
    rw [lst_alSet]
    split
    · rename_i h; subst h; rfl
    · rfl

theorem lkey_inj {r r' n n' : Nat} (hn : n < 100000) (hn' : n' < 100000) (h : lkey r n = lkey r' n') :
    r = r' ∧ n = n' := by
  unfold lkey at h
  omega

end SwimVerif.WT
