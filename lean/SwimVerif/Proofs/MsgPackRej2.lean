/-
C16 — truncation at the token level, part 2: ext tokens (big integers), map / array headers, all primitive tokens.
-/
import SwimVerif.Proofs.MsgPackRej

namespace SwimVerif.MsgPack
open SwimVerif.Recon

/-! ### ext -/

theorem rdLenExt_prefix {k L ty : Nat} (hL : L < 256 ^ k) {payload p q : List Nat}
    (H : ∀ p q, q ≠ [] → p ++ q = ty :: payload → rdExtBody L p = none) (hq : q ≠ [])
    (h : p ++ q = be k L ++ (ty :: payload)) : rdLenExt k p = none := by
  rcases rdU_prefix hL hq h with h1 | ⟨p', h1, h2⟩
  · simp [rdLenExt, h1]
  · simp [rdLenExt, h1, H p' q hq h2]

theorem wExtMeta_rej (len ty : Nat) (h : len < U32) (payload : List Nat)
    (H : ∀ p q, q ≠ [] → p ++ q = ty :: payload → rdExtBody len p = none) :
    TokRej (wExtMeta len ty ++ payload) := by
  have hU : U32 = 4294967296 := rfl
  intro m r hw p q hq hpq
  unfold wExtMeta at hw
  by_cases c1 : len = 1
  · rw [if_pos c1] at hw; subst c1
    simp only [List.cons_append, List.nil_append, List.cons.injEq] at hw; obtain ⟨rfl, rfl⟩ := hw
    have : ∀ x, rdPrim 212 x = rdExtBody 1 x := by intro x; simp [rdPrim]
    rw [this]; exact H p q hq hpq
  rw [if_neg c1] at hw
  by_cases c2 : len = 2
  · rw [if_pos c2] at hw; subst c2
    simp only [List.cons_append, List.nil_append, List.cons.injEq] at hw; obtain ⟨rfl, rfl⟩ := hw
    have : ∀ x, rdPrim 213 x = rdExtBody 2 x := by intro x; simp [rdPrim]
    rw [this]; exact H p q hq hpq
  rw [if_neg c2] at hw
  by_cases c3 : len = 4
  · rw [if_pos c3] at hw; subst c3
    simp only [List.cons_append, List.nil_append, List.cons.injEq] at hw; obtain ⟨rfl, rfl⟩ := hw
    have : ∀ x, rdPrim 214 x = rdExtBody 4 x := by intro x; simp [rdPrim]
    rw [this]; exact H p q hq hpq
  rw [if_neg c3] at hw
  by_cases c4 : len = 8
  · rw [if_pos c4] at hw; subst c4
    simp only [List.cons_append, List.nil_append, List.cons.injEq] at hw; obtain ⟨rfl, rfl⟩ := hw
    have : ∀ x, rdPrim 215 x = rdExtBody 8 x := by intro x; simp [rdPrim]
    rw [this]; exact H p q hq hpq
  rw [if_neg c4] at hw
  by_cases c5 : len = 16
  · rw [if_pos c5] at hw; subst c5
    simp only [List.cons_append, List.nil_append, List.cons.injEq] at hw; obtain ⟨rfl, rfl⟩ := hw
    have : ∀ x, rdPrim 216 x = rdExtBody 16 x := by intro x; simp [rdPrim]
    rw [this]; exact H p q hq hpq
  rw [if_neg c5] at hw
  by_cases c6 : len < 256
  · rw [if_pos c6] at hw
    simp only [List.cons_append, List.nil_append, List.cons.injEq] at hw; obtain ⟨rfl, rfl⟩ := hw
    have : ∀ x, rdPrim 199 x = rdLenExt 1 x := by intro x; simp [rdPrim]
    rw [this]
    refine rdLenExt_prefix (k := 1) (L := len) (by omega) H hq ?_
    rw [be1 c6]; exact hpq
  rw [if_neg c6] at hw
  by_cases c7 : len < 65536
  · rw [if_pos c7] at hw
    simp only [List.cons_append, List.append_assoc, List.nil_append, List.cons.injEq] at hw; obtain ⟨rfl, rfl⟩ := hw
    have : ∀ x, rdPrim 200 x = rdLenExt 2 x := by intro x; simp [rdPrim]
    rw [this]
    exact rdLenExt_prefix (by simp only [Nat.reducePow]; omega) H hq hpq
  rw [if_neg c7] at hw
  simp only [List.cons_append, List.append_assoc, List.nil_append, List.cons.injEq] at hw; obtain ⟨rfl, rfl⟩ := hw
  have : ∀ x, rdPrim 201 x = rdLenExt 4 x := by intro x; simp [rdPrim]
  rw [this]
  exact rdLenExt_prefix (by simp only [Nat.reducePow]; omega) H hq hpq

theorem rdExtBody_big_prefix (len s : Nat) (nb : List Nat) (hb : nb.length + 1 = len) (p q : List Nat) (hq : q ≠ [])
    (h : p ++ q = 0 :: s :: nb) : rdExtBody len p = none := by
  cases p with
  | nil => simp [rdExtBody]
  | cons t p =>
    simp only [List.cons_append, List.cons.injEq] at h
    obtain ⟨rfl, h⟩ := h
    cases p with
    | nil => simp [rdExtBody]
    | cons s' p =>
      simp only [List.cons_append, List.cons.injEq] at h
      obtain ⟨rfl, h⟩ := h
      have := prefix_len hq h
      have h0 : ¬ len = 0 := by omega
      simp [rdExtBody, h0, takeN_short (show p.length < len - 1 by omega)]

theorem rdExtBody_ubig_prefix (len : Nat) (nb : List Nat) (hb : nb.length = len) (p q : List Nat) (hq : q ≠ [])
    (h : p ++ q = 1 :: nb) : rdExtBody len p = none := by
  cases p with
  | nil => simp [rdExtBody]
  | cons t p =>
    simp only [List.cons_append, List.cons.injEq] at h
    obtain ⟨rfl, h⟩ := h
    have := prefix_len hq h
    simp [rdExtBody, takeN_short (show p.length < len by omega)]

theorem big_rej (n : Int) (h : byteLen n.natAbs + 1 < U32) : TokRej (wBigInt n) :=
  wExtMeta_rej _ 0 h _ (fun p q hq hpq =>
    rdExtBody_big_prefix _ _ (natBytes n.natAbs) (by rw [natBytes_length]) p q hq hpq)

theorem ubig_rej (n : Int) (h : byteLen n.toNat < U32) : TokRej (wBigUint n) :=
  wExtMeta_rej _ 1 h _ (fun p q hq hpq =>
    rdExtBody_ubig_prefix _ (natBytes n.toNat) (natBytes_length _) p q hq hpq)

/-! ### all primitive tokens -/

/-- Truncation of the primitive tokens. -/
def PrimRej : Prop := ∀ v, isRec v = false → mpOk v = true → TokRej (wV v)

theorem tokRej_single (m : Nat) : TokRej [m] := by
  intro m' r hw p q hq hpq
  simp only [List.cons.injEq] at hw
  obtain ⟨-, rfl⟩ := hw
  have := prefix_len hq hpq
  simp at this

theorem primRej : PrimRej := by
  intro v hr hok
  cases v with
  | extant => exact tokRej_single 192
  | bool b => exact tokRej_single _
  | float d => simp [mpOk] at hok
  | record a i => simp [isRec] at hr
  | text s =>
    simp only [mpOk, decide_eq_true_eq] at hok
    simpa [wV] using text_rej s hok
  | data bs =>
    simp only [mpOk, Bool.and_eq_true, decide_eq_true_eq] at hok
    simpa [wV] using data_rej bs hok.1
  | int k n =>
    cases k with
    | big =>
      simp only [mpOk, kindOk, decide_eq_true_eq] at hok
      simpa [wV] using big_rej n hok
    | ubig =>
      simp only [mpOk, kindOk, Bool.and_eq_true, decide_eq_true_eq] at hok
      simpa [wV] using ubig_rej n hok.2
    | i32 => simpa [wV] using int_rej n
    | i64 => simpa [wV] using int_rej n
    | u32 => simpa [wV] using int_rej n
    | u64 => simpa [wV] using int_rej n

/-! ### map / array headers -/

theorem mapLen_rej (n : Nat) (hn : n < U32) (m : Nat) (r : List Nat) (hw : wMapLen n = m :: r) (p q : List Nat)
    (hq : q ≠ []) (hpq : p ++ q = r) : rdMapLen m p = none := by
  have hlen := prefix_len hq hpq
  unfold wMapLen at hw
  repeat' split at hw
  all_goals (simp only [List.cons.injEq] at hw; obtain ⟨rfl, rfl⟩ := hw)
  all_goals simp only [List.length_nil, be_length] at hlen
  · omega
  · simp [rdMapLen, rdU_short hlen]
  · simp [rdMapLen, rdU_short hlen]

theorem arrLen_rej (n : Nat) (hn : n < U32) (m : Nat) (r : List Nat) (hw : wArrLen n = m :: r) (p q : List Nat)
    (hq : q ≠ []) (hpq : p ++ q = r) : rdArrLen m p = none := by
  have hlen := prefix_len hq hpq
  unfold wArrLen at hw
  repeat' split at hw
  all_goals (simp only [List.cons.injEq] at hw; obtain ⟨rfl, rfl⟩ := hw)
  all_goals simp only [List.length_nil, be_length] at hlen
  · omega
  · simp [rdArrLen, rdU_short hlen]
  · simp [rdArrLen, rdU_short hlen]

end SwimVerif.MsgPack
