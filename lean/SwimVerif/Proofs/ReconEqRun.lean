/-
C15: the pushdown automaton (`step` / `runFrom`) on the output of the three printers — framework.
`ro` observes a run as the list of (event, implicit-record decision) pairs, `Run` is the big-step relation
"from stack `S` on input `inp` the automaton emits `O` and continues from `S'` on `rest`, in at most `K` steps".
-/
import SwimVerif.Proofs.ReconEqTok

namespace SwimVerif.ReconEq
open SwimVerif.Recon

/-- What `HashParser` sees of an emitted event: the event and, for a `StartAttribute`, whether it inserts a `StartBody`. -/
def obsOf (e : Emit) : Event × Bool :=
  (e.ev, match e.ev with
    | .startAttr _ => !e.more && isImplicitRecord e.rest
    | _ => false)

/-- A run, observed. -/
def ro (f : Nat) (S : List PS) (inp : List Char) : List (Event × Bool) × Term :=
  ((runFrom f S inp).1.map obsOf, (runFrom f S inp).2)

def pre (O : List (Event × Bool)) (r : List (Event × Bool) × Term) : List (Event × Bool) × Term := (O ++ r.1, r.2)

theorem pre_pre (A B : List (Event × Bool)) (r : List (Event × Bool) × Term) : pre A (pre B r) = pre (A ++ B) r := by
  simp [pre]

theorem pre_nil (r : List (Event × Bool) × Term) : pre [] r = r := by simp [pre]

def obsEmits (evs : List Event) (am : Bool) (rest : List Char) : List (Event × Bool) := (emits evs am rest).map obsOf

theorem ro_step_ok {S S' : List PS} {inp rest : List Char} {evs : List Event} {am : Bool}
    (h : step S inp = .ok evs am S' rest) (f : Nat) :
    ro (f + 1) S inp = pre (obsEmits evs am rest) (ro f S' rest) := by
  simp [ro, runFrom, h, pre, obsEmits]

theorem ro_fin (f : Nat) (inp : List Char) : ro (f + 1) [] inp = ([], .fin) := by
  simp [ro, runFrom, step]

/-- Plain events (no `StartAttribute`) are observed with the flag `false`. -/
def plain (evs : List Event) : List (Event × Bool) := evs.map fun e => (e, false)

def Event.isStartAttr : Event → Bool
  | .startAttr _ => true
  | _ => false

theorem obsEmits_plain (evs : List Event) (am : Bool) (rest : List Char) (h : ∀ e ∈ evs, e.isStartAttr = false) :
    obsEmits evs am rest = plain evs := by
  induction evs with
  | nil => rfl
  | cons e es ih =>
    have he : e.isStartAttr = false := h e (by simp)
    have hes : ∀ x ∈ es, x.isStartAttr = false := fun x hx => h x (by simp [hx])
    cases es with
    | nil => cases e <;> simp [Event.isStartAttr] at he <;> rfl
    | cons e2 es2 =>
      have := ih hes
      simp only [obsEmits, emits, List.map_cons, plain] at this ⊢
      rw [this]
      cases e <;> simp [Event.isStartAttr] at he <;> rfl

/-- The big-step relation with a step bound. -/
def Run (S : List PS) (inp : List Char) (O : List (Event × Bool)) (S' : List PS) (rest : List Char) (K : Nat) : Prop :=
  ∃ k, k ≤ K ∧ ∀ f, ro (k + f) S inp = pre O (ro f S' rest)

theorem Run.refl (S : List PS) (inp : List Char) : Run S inp [] S inp 0 :=
  ⟨0, Nat.le_refl _, fun f => by simp [pre_nil]⟩

theorem Run.of_step {S S' : List PS} {inp rest : List Char} {evs : List Event} {am : Bool}
    (h : step S inp = .ok evs am S' rest) : Run S inp (obsEmits evs am rest) S' rest 1 :=
  ⟨1, Nat.le_refl _, fun f => by rw [Nat.add_comm]; exact ro_step_ok h f⟩

theorem Run.trans {S1 S2 S3 : List PS} {i1 i2 i3 : List Char} {O1 O2 : List (Event × Bool)} {K1 K2 : Nat}
    (h1 : Run S1 i1 O1 S2 i2 K1) (h2 : Run S2 i2 O2 S3 i3 K2) : Run S1 i1 (O1 ++ O2) S3 i3 (K1 + K2) := by
  obtain ⟨k1, hk1, r1⟩ := h1
  obtain ⟨k2, hk2, r2⟩ := h2
  refine ⟨k1 + k2, by omega, fun f => ?_⟩
  rw [Nat.add_assoc, r1, r2, pre_pre]

theorem Run.mono {S S' : List PS} {inp rest : List Char} {O : List (Event × Bool)} {K K' : Nat}
    (h : Run S inp O S' rest K) (hk : K ≤ K') : Run S inp O S' rest K' := by
  obtain ⟨k, hk1, r⟩ := h
  exact ⟨k, by omega, r⟩

theorem Run.cast {S S' : List PS} {inp inp' rest : List Char} {O O' : List (Event × Bool)} {K : Nat}
    (h : Run S inp O S' rest K) (hi : inp = inp') (ho : O = O') : Run S inp' O' S' rest K := by
  subst hi ho; exact h

/-! ### `step` only looks past leading white space -/

theorem step_spaces (S : List PS) {w : List Char} (hw : Spaces w) (inp : List Char) :
    step S (w ++ inp) = step S inp := by
  cases S with
  | nil => rfl
  | cons top below =>
    unfold step
    rw [skipSpaces_spaces hw]

theorem skipSpaces_white_cons {w : List Char} (hw : White w) {x : Char} (hx : isMulti x = false) (t : List Char) :
    ∃ w', White w' ∧ skipSpaces (w ++ x :: t) = w' ++ x :: t := by
  induction w with
  | nil =>
    refine ⟨[], White.nil, ?_⟩
    have : isSpace x = false := by
      simp only [isMulti, Bool.or_eq_false_iff, decide_eq_false_iff_not] at hx
      simp [isSpace, hx.1.1.1, hx.1.1.2]
    simp [skipSpaces_cons this]
  | cons c w ih =>
    have hc := hw c (by simp)
    have hw' : White w := fun y hy => hw y (by simp [hy])
    rcases hc with rfl | rfl
    · obtain ⟨w', h1, h2⟩ := ih hw'
      exact ⟨w', h1, by simpa [skipSpaces, List.dropWhile, isSpace] using h2⟩
    · exact ⟨'\n' :: w, hw, by simp [skipSpaces, List.dropWhile, isSpace]⟩

/-- In the states that start with `multispace0` leading white space (spaces and new lines) is skipped. -/
theorem step_white_multi (top : PS) (below : List PS) (htop : top = .init ∨ ∃ k, top = .body k .startOrNl ∨ top = .body k .afterSep)
    {w : List Char} (hw : White w) {x : Char} (hx : isMulti x = false) (t : List Char) :
    step (top :: below) (w ++ x :: t) = step (top :: below) (x :: t) := by
  obtain ⟨w', hw', hs⟩ := skipSpaces_white_cons hw hx t
  have hxs : isSpace x = false := by
    simp only [isMulti, Bool.or_eq_false_iff, decide_eq_false_iff_not] at hx
    simp [isSpace, hx.1.1.1, hx.1.1.2]
  have hm : skipMulti (w' ++ x :: t) = x :: t := by rw [skipMulti_white hw']; exact skipMulti_cons hx t
  have hne : w' ++ x :: t ≠ [] := by simp
  unfold step
  rw [hs, skipSpaces_cons hxs]
  cases hwt : w' ++ x :: t with
  | nil => exact absurd hwt hne
  | cons y ys =>
    have hm' : skipMulti (y :: ys) = x :: t := by rw [← hwt]; exact hm
    rcases htop with rfl | ⟨k, rfl | rfl⟩ <;> simp only [hm', skipMulti_cons hx]

end SwimVerif.ReconEq
