/-
C15: the pushdown automaton (`step` / `runFrom`) on the output of the three printers — framework.
`ro` observes a run as the list of (event, implicit-record decision) pairs, `Run` is the big-step relation
"from stack `S` on input `inp` the automaton emits `O` and continues from `S'` on `rest`, in at most `K` steps".
-/
import SwimVerif.Proofs.ReconEqTok

namespace SwimVerif.ReconEq
open SwimVerif.Recon

/-- What `HashParser` sees of an emitted event: the event and, for a `StartAttribute`, whether it inserts a `StartBody`. -/
def obsOf (e : Emit) : Event × Bool :=
  (e.ev, match e.ev with
    | .startAttr _ => !e.more && isImplicitRecord e.rest
    | _ => false)

/-- A run, observed. -/
def ro (f : Nat) (S : List PS) (inp : List Char) : List (Event × Bool) × Term :=
  ((runFrom f S inp).1.map obsOf, (runFrom f S inp).2)

def pre (O : List (Event × Bool)) (r : List (Event × Bool) × Term) : List (Event × Bool) × Term := (O ++ r.1, r.2)

theorem pre_pre (A B : List (Event × Bool)) (r : List (Event × Bool) × Term) : pre A (pre B r) = pre (A ++ B) r := by
  simp [pre]

theorem pre_nil (r : List (Event × Bool) × Term) : pre [] r = r := by simp [pre]

def obsEmits (evs : List Event) (am : Bool) (rest : List Char) : List (Event × Bool) := (emits evs am rest).map obsOf

theorem ro_step_ok {S S' : List PS} {inp rest : List Char} {evs : List Event} {am : Bool}
    (h : step S inp = .ok evs am S' rest) (f : Nat) :
    ro (f + 1) S inp = pre (obsEmits evs am rest) (ro f S' rest) := by
  simp [ro, runFrom, h, pre, obsEmits]

theorem ro_fin (f : Nat) (inp : List Char) : ro (f + 1) [] inp = ([], .fin) := by
  simp [ro, runFrom, step]

/-- Plain events (no `StartAttribute`) are observed with the flag `false`. -/
def plain (evs : List Event) : List (Event × Bool) := evs.map fun e => (e, false)

def Event.isStartAttr : Event → Bool
  | .startAttr _ => true
  | _ => false

theorem obsEmits_plain (evs : List Event) (am : Bool) (rest : List Char) (h : ∀ e ∈ evs, e.isStartAttr = false) :
    obsEmits evs am rest = plain evs := by
  induction evs with
  | nil => rfl
  | cons e es ih =>
    have he : e.isStartAttr = false := h e (by simp)
    have hes : ∀ x ∈ es, x.isStartAttr = false := fun x hx => h x (by simp [hx])
    cases es with
    | nil => cases e <;> simp [Event.isStartAttr] at he <;> rfl
    | cons e2 es2 =>
      have := ih hes
      simp only [obsEmits, emits, List.map_cons, plain] at this ⊢
      rw [this]
      cases e <;> simp [Event.isStartAttr] at he <;> rfl

/-- The big-step relation with a step bound. -/
def Run (S : List PS) (inp : List Char) (O : List (Event × Bool)) (S' : List PS) (rest : List Char) (K : Nat) : Prop :=
  ∃ k, k ≤ K ∧ ∀ f, ro (k + f) S inp = pre O (ro f S' rest)

theorem Run.refl (S : List PS) (inp : List Char) : Run S inp [] S inp 0 :=
  ⟨0, Nat.le_refl _, fun f => by simp [pre_nil]⟩

theorem Run.of_step {S S' : List PS} {inp rest : List Char} {evs : List Event} {am : Bool}
    (h : step S inp = .ok evs am S' rest) : Run S inp (obsEmits evs am rest) S' rest 1 :=
  ⟨1, Nat.le_refl _, fun f => by rw [Nat.add_comm]; exact ro_step_ok h f⟩

theorem Run.trans {S1 S2 S3 : List PS} {i1 i2 i3 : List Char} {O1 O2 : List (Event × Bool)} {K1 K2 : Nat}
    (h1 : Run S1 i1 O1 S2 i2 K1) (h2 : Run S2 i2 O2 S3 i3 K2) : Run S1 i1 (O1 ++ O2) S3 i3 (K1 + K2) := by
  obtain ⟨k1, hk1, r1⟩ := h1
  obtain ⟨k2, hk2, r2⟩ := h2
  refine ⟨k1 + k2, by omega, fun f => ?_⟩
  rw [Nat.add_assoc, r1, r2, pre_pre]

theorem Run.mono {S S' : List PS} {inp rest : List Char} {O : List (Event × Bool)} {K K' : Nat}
    (h : Run S inp O S' rest K) (hk : K ≤ K') : Run S inp O S' rest K' := by
  obtain ⟨k, hk1, r⟩ := h
  exact ⟨k, by omega, r⟩

theorem Run.cast {S S' : List PS} {inp inp' rest : List Char} {O O' : List (Event × Bool)} {K : Nat}
    (h : Run S inp O S' rest K) (hi : inp = inp') (ho : O = O') : Run S inp' O' S' rest K := by
  subst hi ho; exact h

/-! ### `step` only looks past leading white space -/

theorem step_spaces (S : List PS) {w : List Char} (hw : Spaces w) (inp : List Char) :
    step S (w ++ inp) = step S inp := by
  cases S with
  | nil => rfl
  | cons top below =>
    unfold step
    rw [skipSpaces_spaces hw]

theorem skipSpaces_white_cons {w : List Char} (hw : White w) {x : Char} (hx : isMulti x = false) (t : List Char) :
    ∃ w', White w' ∧ skipSpaces (w ++ x :: t) = w' ++ x :: t := by
  induction w with
  | nil =>
    refine ⟨[], White.nil, ?_⟩
    have : isSpace x = false := by
      simp only [isMulti, Bool.or_eq_false_iff, decide_eq_false_iff_not] at hx
      simp [isSpace, hx.1.1.1, hx.1.1.2]
    simp [skipSpaces_cons this]
  | cons c w ih =>
    have hc := hw c (by simp)
    have hw' : White w := fun y hy => hw y (by simp [hy])
    rcases hc with rfl | rfl
    · obtain ⟨w', h1, h2⟩ := ih hw'
      exact ⟨w', h1, by simpa [skipSpaces, List.dropWhile, isSpace] using h2⟩
    · exact ⟨'\n' :: w, hw, by simp [skipSpaces, List.dropWhile, isSpace]⟩

/-- In the states that start with `multispace0` leading white space (spaces and new lines) is skipped. -/
theorem step_white_multi (top : PS) (below : List PS) (htop : top = .init ∨ ∃ k, top = .body k .startOrNl ∨ top = .body k .afterSep)
    {w : List Char} (hw : White w) {x : Char} (hx : isMulti x = false) (t : List Char) :
    step (top :: below) (w ++ x :: t) = step (top :: below) (x :: t) := by
  obtain ⟨w', hw', hs⟩ := skipSpaces_white_cons hw hx t
  have hxs : isSpace x = false := by
    simp only [isMulti, Bool.or_eq_false_iff, decide_eq_false_iff_not] at hx
    simp [isSpace, hx.1.1.1, hx.1.1.2]
  have hm : skipMulti (w' ++ x :: t) = x :: t := by rw [skipMulti_white hw']; exact skipMulti_cons hx t
  have hne : w' ++ x :: t ≠ [] := by simp
  unfold step
  rw [hs, skipSpaces_cons hxs]
  cases hwt : w' ++ x :: t with
  | nil => exact absurd hwt hne
  | cons y ys =>
    have hm' : skipMulti (y :: ys) = x :: t := by rw [← hwt]; exact hm
    rcases htop with rfl | ⟨k, rfl | rfl⟩ <;> simp only [hm', skipMulti_cons hx]

end SwimVerif.ReconEq

namespace SwimVerif.ReconEq
open SwimVerif.Recon

/-! ### item positions -/

/-- The three states in which the next thing is a value. -/
def ItemStart (p : PS) : Prop := ∃ k, p = .body k .startOrNl ∨ p = .body k .afterSep ∨ p = .body k .slot

/-- The state after that value. -/
def afterOf : PS → PS
  | .body k .slot => .body k .afterSlot
  | .body k _ => .body k .afterValue
  | p => p

theorem popAfterItem_itemStart {cur : PS} (h : ItemStart cur) (below : List PS) :
    popAfterItem (cur :: below) = some (afterOf cur :: below) := by
  obtain ⟨k, rfl | rfl | rfl⟩ := h <;> rfl

/-- Where `K::end_state_change()` leads (`none` = the `panic!` arm of `after_item`). -/
def endStack (k : Kind) (below : List PS) : Option (List PS) :=
  match k with
  | .ab => some (popAfterAttr below)
  | .rb => popAfterItem below

theorem endBody_eq (k : Kind) (evs : List Event) (below : List PS) (rest : List Char) {S' : List PS}
    (h : endStack k below = some S') : endBody k evs below rest = .ok evs false S' rest := by
  cases k
  · simp only [endStack, Option.some.injEq] at h; subst h; rfl
  · simp only [endStack] at h; simp [endBody, h]

/-- The step that reads a value (token, attribute or brace), common to the three item-start states. -/
def valueStep (cur : PS) (below : List PS) (inp : List Char) : Step :=
  match lexPrimM true inp with
  | .ok e rest => .ok [e] false (afterOf cur :: below) rest
  | .inc => .inc
  | .err =>
    match attrStep true cur below inp with
    | .err =>
      (match inp with
       | '{' :: rest => .ok [.startBody] false (.body .rb .startOrNl :: cur :: below) rest
       | _ => .err)
    | r => r

theorem lineEndM_ok_start {x : Char} (hx : okStart x = true) (t : List Char) : lineEndM (x :: t) = .err := by
  have n3 := okStart_ne hx '\r' (by decide)
  have n4 := okStart_ne hx '\n' (by decide)
  unfold lineEndM
  split
  · rename_i heq; cases heq
  · rename_i heq; simp only [List.cons.injEq] at heq; exact absurd heq.1 n4
  · rename_i heq; simp only [List.cons.injEq] at heq; exact absurd heq.1 n3
  · rename_i heq; simp only [List.cons.injEq] at heq; exact absurd heq.1 n3
  · rfl

theorem step_value {cur : PS} (hc : ItemStart cur) (below : List PS) {x : Char} (hx : okStart x = true) (t : List Char) :
    step (cur :: below) (x :: t) = valueStep cur below (x :: t) := by
  obtain ⟨k, rfl | rfl | rfl⟩ := hc
  all_goals
    obtain ⟨f1, f2, f3, f4, f5, _⟩ := okStart_facts hx k
    unfold step valueStep
    simp only [skipSpaces_cons f2, skipMulti_cons f1]
  · unfold stepNotAfterItem
    cases hl : lexPrimM true (x :: t) <;> simp only [afterOf]
    simp only [f4, Bool.false_eq_true, ↓reduceIte, f5, f3]
    cases ha : attrStep true (.body k .startOrNl) below (x :: t) <;> simp only []
    by_cases hb : x = '{'
    · subst hb; simp
    · simp only [hb, ↓reduceIte]
      split
      · rename_i heq; simp only [List.cons.injEq] at heq; exact absurd heq.1 hb
      · rfl
  · unfold stepNotAfterItem
    cases hl : lexPrimM true (x :: t) <;> simp only [afterOf]
    simp only [f4, Bool.false_eq_true, ↓reduceIte, f5, f3]
    cases ha : attrStep true (.body k .afterSep) below (x :: t) <;> simp only []
    by_cases hb : x = '{'
    · subst hb; simp
    · simp only [hb, ↓reduceIte]
      split
      · rename_i heq; simp only [List.cons.injEq] at heq; exact absurd heq.1 hb
      · rfl
  · unfold stepSlotValue
    cases hl : lexPrimM true (x :: t) <;> simp only [afterOf]
    simp only [lineEndM_ok_start hx, f4, Bool.false_eq_true, ↓reduceIte, f3]
    cases ha : attrStep true (.body k .slot) below (x :: t) <;> simp only []
    by_cases hb : x = '{'
    · subst hb; simp
    · simp only [hb, ↓reduceIte]
      split
      · rename_i heq; simp only [List.cons.injEq] at heq; exact absurd heq.1 hb
      · rfl

end SwimVerif.ReconEq

namespace SwimVerif.ReconEq
open SwimVerif.Recon

/-! ### closing a body, separators, colons -/

theorem close_facts (k : Kind) :
    primStart k.close = false ∧ isSep k.close = false ∧ k.close ≠ ':' ∧ k.close ≠ '\n' ∧ k.close ≠ '\r' := by
  cases k <;> decide

theorem lineEndM_close (k : Kind) (t : List Char) : lineEndM (k.close :: t) = .err := by
  obtain ⟨_, _, _, h4, h5⟩ := close_facts k
  unfold lineEndM
  split
  · rename_i heq; cases heq
  · rename_i heq; simp only [List.cons.injEq] at heq; exact absurd heq.1 h4
  · rename_i heq; simp only [List.cons.injEq] at heq; exact absurd heq.1 h5
  · rename_i heq; simp only [List.cons.injEq] at heq; exact absurd heq.1 h5
  · rfl

/-- In `StartOrNl` / `AfterSep` the closing delimiter ends the body (`Extant` first if an item is required). -/
theorem step_close_start (k : Kind) (req : Bool) (below : List PS) {S' : List PS} (hS : endStack k below = some S')
    (rest : List Char) :
    step (.body k (if req then .afterSep else .startOrNl) :: below) (k.close :: rest)
      = .ok (if req then [.extant, kindEndEvent k] else [kindEndEvent k]) false S' rest := by
  obtain ⟨h1, h2, h3, _, _⟩ := close_facts k
  have hm := close_not_multi k
  have hs := close_not_space k
  cases req <;>
    simp only [step, skipSpaces_cons hs, skipMulti_cons hm, stepNotAfterItem, lexPrimM_not_start true h1, h2,
      Bool.false_eq_true, ↓reduceIte, h3, endBody_eq k _ below rest hS]

/-- In `AfterValue` / `AfterSlot` the closing delimiter ends the body. -/
theorem step_close_after (k : Kind) (slotOk : Bool) (below : List PS) {S' : List PS} (hS : endStack k below = some S')
    (rest : List Char) :
    step (.body k (if slotOk then .afterValue else .afterSlot) :: below) (k.close :: rest)
      = .ok [kindEndEvent k] false S' rest := by
  obtain ⟨h1, h2, h3, _, _⟩ := close_facts k
  have hs := close_not_space k
  cases slotOk <;>
    simp only [step, skipSpaces_cons hs, stepAfterItem, lineEndM_close, h2, Bool.false_eq_true, ↓reduceIte, h3,
      Bool.false_and, Bool.true_and, decide_false, endBody_eq k _ below rest hS]

/-- After the last item: optional end-of-block white space, then the closing delimiter. -/
theorem run_close_after (k : Kind) (slotOk : Bool) (below : List PS) {S' : List PS} (hS : endStack k below = some S')
    {e : List Char} (he : EndW e) (rest : List Char) :
    Run (.body k (if slotOk then .afterValue else .afterSlot) :: below) (e ++ k.close :: rest)
      [(kindEndEvent k, false)] S' rest 2 := by
  rcases he with hsp | ⟨s, rfl, hsp⟩
  · have h := step_close_after k slotOk below hS rest
    rw [← step_spaces _ hsp] at h
    exact ((Run.of_step h).mono (by omega)).cast rfl (obsEmits_plain _ _ _ (by simp [kindEndEvent]; cases k <;> simp [Event.isStartAttr]))
  · have h1 : step (.body k (if slotOk then .afterValue else .afterSlot) :: below) ('\n' :: s ++ k.close :: rest)
        = .ok [] false (.body k .startOrNl :: below) (s ++ k.close :: rest) := by
      cases slotOk <;> simp [step, skipSpaces, List.dropWhile, isSpace, stepAfterItem, lineEndM]
    have h2 := step_close_start k false below hS rest
    simp only [Bool.false_eq_true, ↓reduceIte] at h2
    rw [← step_spaces _ hsp] at h2
    have r := (Run.of_step h1).trans (Run.of_step h2)
    refine r.cast rfl ?_
    rw [obsEmits_plain _ _ _ (by simp), obsEmits_plain _ _ _ (by cases k <;> simp [kindEndEvent, Event.isStartAttr])]
    rfl

/-- Empty item list (or a trailing `Extant` after a separator): white space, then the closing delimiter. -/
theorem run_close_start (k : Kind) (req : Bool) (below : List PS) {S' : List PS} (hS : endStack k below = some S')
    {w : List Char} (hw : White w) (rest : List Char) :
    Run (.body k (if req then .afterSep else .startOrNl) :: below) (w ++ k.close :: rest)
      (plain (if req then [.extant, kindEndEvent k] else [kindEndEvent k])) S' rest 1 := by
  have h := step_close_start k req below hS rest
  rw [← step_white_multi _ below (Or.inr ⟨k, by cases req <;> simp⟩) hw (close_not_multi k)] at h
  refine (Run.of_step h).cast rfl (obsEmits_plain _ _ _ ?_)
  cases req <;> cases k <;> simp [kindEndEvent, Event.isStartAttr]

/-- A separator after an item. -/
theorem step_comma_after (k : Kind) (slotOk : Bool) (below : List PS) (rest : List Char) :
    step (.body k (if slotOk then .afterValue else .afterSlot) :: below) (',' :: rest)
      = .ok [] false (.body k .afterSep :: below) rest := by
  cases slotOk <;>
    simp [step, skipSpaces_cons comma_not_space, stepAfterItem, lineEndM, sep_comma]

/-- A separator where a value could stand: the item is `Extant`. -/
theorem step_comma_start (k : Kind) (req : Bool) (below : List PS) (rest : List Char) :
    step (.body k (if req then .afterSep else .startOrNl) :: below) (',' :: rest)
      = .ok [.extant] false (.body k .afterSep :: below) rest := by
  have hp : primStart ',' = false := by decide
  cases req <;>
    simp [step, skipSpaces_cons comma_not_space, skipMulti_cons comma_not_multi, stepNotAfterItem,
      lexPrimM_not_start true hp, sep_comma]

/-- A separator after the colon of a slot: the value is `Extant`. -/
theorem step_comma_slot (k : Kind) (below : List PS) (rest : List Char) :
    step (.body k .slot :: below) (',' :: rest) = .ok [.extant] false (.body k .afterSep :: below) rest := by
  have hp : primStart ',' = false := by decide
  simp [step, skipSpaces_cons comma_not_space, stepSlotValue, lexPrimM_not_start true hp, lineEndM, sep_comma]

/-- The colon after a key. -/
theorem step_colon_after (k : Kind) (below : List PS) (rest : List Char) :
    step (.body k .afterValue :: below) (':' :: rest) = .ok [.slot] false (.body k .slot :: below) rest := by
  obtain ⟨c1, c2, c3⟩ := colon_facts k
  simp [step, skipSpaces_cons c2, stepAfterItem, lineEndM, c3, colon_ne_close k]

/-- A colon where a key could stand: the key is `Extant`. -/
theorem step_colon_start (k : Kind) (req : Bool) (below : List PS) (rest : List Char) :
    step (.body k (if req then .afterSep else .startOrNl) :: below) (':' :: rest)
      = .ok [.extant, .slot] false (.body k .slot :: below) rest := by
  obtain ⟨c1, c2, c3⟩ := colon_facts k
  have hp : primStart ':' = false := by decide
  cases req <;>
    simp [step, skipSpaces_cons c2, skipMulti_cons c1, stepNotAfterItem, lexPrimM_not_start true hp, c3]

/-- The closing delimiter after the colon of a slot: the value is `Extant`. -/
theorem step_close_slot (k : Kind) (below : List PS) {S' : List PS} (hS : endStack k below = some S') (rest : List Char) :
    step (.body k .slot :: below) (k.close :: rest) = .ok [.extant, kindEndEvent k] false S' rest := by
  obtain ⟨h1, h2, h3, _, _⟩ := close_facts k
  simp only [step, skipSpaces_cons (close_not_space k), stepSlotValue, lexPrimM_not_start true h1, lineEndM_close, h2,
    Bool.false_eq_true, ↓reduceIte, endBody_eq k _ below rest hS]

end SwimVerif.ReconEq
