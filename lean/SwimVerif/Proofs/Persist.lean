/-
C05: the invariant of `persist_response; handle_event` composed with the whole write-task model:
* every body waiting anywhere in the write task has been handed to the store (if its lane is persistent),
* the log is ordered: every event frame of a persistent lane is preceded by the store operation for its state,
* the durable store is the fold of the logged store operations.
-/
import SwimVerif.Proofs.PersistStore
import SwimVerif.Proofs.PersistWT

namespace SwimVerif.Persist
open SwimVerif.WT

/-- The state carried by body `b` of lane `l` has been handed to the store (vacuous for a transient lane). -/
def Covered (cfg : Cfg) (log : List Entry) (l : Nat) (b : Body) : Prop :=
  ∀ sid, cfg.sid l = some sid → ∃ op, storeOpOf sid b = some op ∧ Entry.store op ∈ log

/-- Every event frame in the log is preceded by the store operation for the state it carries. -/
def Ordered (cfg : Cfg) (log : List Entry) : Prop :=
  ∀ pre post r l b, log = pre ++ Entry.send r (some l) (.event b) :: post → Covered cfg pre l b

theorem covered_mono {cfg : Cfg} {log : List Entry} (more : List Entry) {l : Nat} {b : Body}
    (h : Covered cfg log l b) : Covered cfg (log ++ more) l b := by
  intro sid hs
  obtain ⟨op, h1, h2⟩ := h sid hs
  exact ⟨op, h1, List.mem_append_left _ h2⟩

theorem ordered_nil (cfg : Cfg) : Ordered cfg [] := by
  intro pre post r l b h
  have := congrArg List.length h
  simp at this

theorem ordered_append {cfg : Cfg} {log new : List Entry} (h : Ordered cfg log)
    (hnew : ∀ pre2 post2 r l b, new = pre2 ++ Entry.send r (some l) (.event b) :: post2 →
      Covered cfg (log ++ pre2) l b) : Ordered cfg (log ++ new) := by
  intro pre post r l b heq
  rcases List.append_eq_append_iff.mp heq with ⟨a', h1, h2⟩ | ⟨c', h1, h2⟩
  · -- pre = log ++ a', new = a' ++ send :: post
    subst h1
    exact hnew a' post r l b h2
  · -- log = pre ++ c', send :: post = c' ++ new
    cases c' with
    | nil =>
      simp only [List.append_nil, List.nil_append] at h1 h2
      subst h1
      have := hnew [] post r l b h2.symm
      simpa using this
    | cons x c'' =>
      simp only [List.cons_append, List.cons.injEq] at h2
      obtain ⟨hx, _⟩ := h2
      subst hx
      exact h pre c'' r l b h1

theorem ordered_prefix {cfg : Cfg} {a b : List Entry} (h : Ordered cfg (a ++ b)) : Ordered cfg a := by
  intro pre post r l bd heq
  exact h pre (post ++ b) r l bd (by rw [heq]; simp)

theorem storeOps_append (a b : List Entry) : storeOps (a ++ b) = storeOps a ++ storeOps b := by
  induction a with
  | nil => rfl
  | cons e rest ih => cases e <;> simp [storeOps, ih]

theorem storeOps_sentBy (s : WT.St) (e : WT.Ev) : storeOps (sentBy s e) = [] := by
  have hmap : ∀ (r : Nat) (lid : Option Nat) (ns : List Note),
      storeOps (ns.map (fun n => Entry.send r lid n)) = [] := by
    intro r lid ns
    induction ns with
    | nil => rfl
    | cons n rest ih => simpa [storeOps] using ih
  cases e with
  | done r ok =>
    rw [sentBy_done]
    cases ok with
    | false => rfl
    | true =>
      simp only [↓reduceIte]
      cases inflightOf s r with
      | none => rfl
      | some w => exact hmap r w.lid w.notes
  | _ => rfl

theorem mem_storeOps {op : SOp Nat} {log : List Entry} : op ∈ storeOps log ↔ Entry.store op ∈ log := by
  induction log with
  | nil => simp [storeOps]
  | cons e rest ih => cases e <;> simp [storeOps, ih]

structure PInv (cfg : Cfg) (s : PSt) : Prop where
  pend : PendingOK (Covered cfg s.log) s.wt
  ord : Ordered cfg s.log
  fold : s.store = foldStore (storeOps s.log)
  /-- every store operation in the log is addressed to the store id of some (persistent) item -/
  sids : ∀ op, Entry.store op ∈ s.log → ∃ item, cfg.sid item = some op.sid

theorem pinv_init (cfg : Cfg) : PInv cfg {} :=
  ⟨pendingOK_init _, ordered_nil cfg, rfl, by intro op h; simp at h⟩

theorem pinv_wtStep {cfg : Cfg} {s : PSt} (h : PInv cfg s) (e : WT.Ev) (hnew : NewOK (Covered cfg s.log) e) :
    PInv cfg (wtStep s e) := by
  refine ⟨?_, ?_, ?_, ?_⟩
  · exact pendingOK_mono (fun l b hc => covered_mono _ hc) (pendingOK_step h.pend e hnew)
  · apply ordered_append h.ord
    intro pre2 post2 r l b heq
    apply covered_mono
    exact sentBy_ok h.pend e r l b (by rw [heq]; simp)
  · simp only [wtStep, storeOps_append, storeOps_sentBy, List.append_nil]
    exact h.fold
  · intro op hop
    simp only [wtStep, List.mem_append] at hop
    rcases hop with hop | hop
    · exact h.sids op hop
    · have := mem_storeOps.mpr hop
      rw [storeOps_sentBy] at this
      simp at this

/-- `persist_response` stores exactly the state that the response's body carries. -/
theorem persistOp_covers (sid : Nat) (target : Option Nat) (r : Resp) (b : Body) (hb : respBody? r = some b) :
    persistOp (some sid) (.lane target r) = storeOpOf sid b := by
  cases r with
  | value x => simp [respBody?] at hb; subst hb; rfl
  | supply x => simp [respBody?] at hb; subst hb; rfl
  | map op => simp [respBody?] at hb; subst hb; rfl
  | synced k => simp [respBody?] at hb

theorem persistOp_sid (storeId : Option Nat) (d : RespData) (op : SOp Nat) (h : persistOp storeId d = some op) :
    storeId = some op.sid := by
  cases storeId with
  | none => simp [persistOp] at h
  | some sid =>
    cases d with
    | lane t r => cases r <;> simp [persistOp] at h <;> subst h <;> rfl
    | storeValue b => simp [persistOp] at h; subst h; rfl
    | storeMap o => simp [persistOp] at h; subst h; rfl

theorem pinv_step {cfg : Cfg} {s : PSt} (h : PInv cfg s) (e : PEv) : PInv cfg (pstep cfg s e) := by
  cases e with
  | other e =>
    simp only [pstep]
    split
    · exact h
    · split
      · exact h
      · rename_i hl
        apply pinv_wtStep h
        cases e <;> simp [NewOK, isLaneEvent] at hl ⊢
  | resp item d storeOk =>
    simp only [pstep]
    split
    · exact h
    · cases hp : persistOp (cfg.sid item) d with
      | none =>
        simp only []
        cases d with
        | lane target r =>
          simp only []
          apply pinv_wtStep h
          intro b hb sid hs
          rw [hs, persistOp_covers sid target r b hb] at hp
          cases r <;> simp [respBody?] at hb <;> subst hb <;> simp [storeOpOf] at hp
        | storeValue b => exact h
        | storeMap op => exact h
      | some op =>
        simp only []
        by_cases hok : storeOk = true
        · simp only [hok, ↓reduceIte]
          -- the state after the store call
          have h1 : PInv cfg { s with store := applyStore s.store op, log := s.log ++ [.store op] } := by
            refine ⟨?_, ?_, ?_, ?_⟩
            · exact pendingOK_mono (fun l b hc => covered_mono _ hc) h.pend
            · apply ordered_append h.ord
              intro pre2 post2 r l b heq
              have := congrArg List.length heq
              cases pre2 <;> simp at heq
            · simp only [storeOps_append, storeOps, foldStore, List.foldl_append, List.foldl]
              rw [h.fold]; rfl
            · intro op' hop
              simp only [List.mem_append, List.mem_singleton] at hop
              rcases hop with hop | hop
              · exact h.sids op' hop
              · cases hop
                exact ⟨item, persistOp_sid _ _ _ hp⟩
          cases d with
          | lane target r =>
            simp only []
            apply pinv_wtStep h1
            intro b hb sid hs
            rw [hs, persistOp_covers sid target r b hb] at hp
            exact ⟨op, hp, by simp⟩
          | storeValue b => exact h1
          | storeMap o => exact h1
        · simp only [hok]
          exact ⟨h.pend, h.ord, h.fold, h.sids⟩

theorem pinv_run {cfg : Cfg} {s : PSt} (h : PInv cfg s) (evs : List PEv) : PInv cfg (prun cfg s evs) := by
  induction evs generalizing s with
  | nil => exact h
  | cons e rest ih => exact ih (pinv_step h e)

end SwimVerif.Persist
