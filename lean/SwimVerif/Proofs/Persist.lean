/-
C05: the invariant of `persist_response; handle_event` composed with the whole write-task model and with the
registration of lanes / stores (initial endpoints and `AddLane` / `AddStore` at run time):
* every body waiting anywhere in the write task belongs to a registered lane and has been handed to the store (if
  its lane's stream was built with a store id),
* the log is ordered: every event frame of a persistent lane is preceded by the store operation for its state,
* the durable store is the fold of the logged store operations,
* a lane's store id is fixed when it is registered (ids are handed out once).
-/
import SwimVerif.Proofs.PersistStore
import SwimVerif.Proofs.PersistWT
import SwimVerif.Proofs.AssocList

namespace SwimVerif.Persist
open SwimVerif.WT

/-! ### The lane registry only grows, and only by registration -/

@[simp] theorem reg_pushSpecial (s : WT.St) (r : Nat) (a : Special) : (s.pushSpecial r a).1.reg = s.reg := by
  unfold St.pushSpecial; split <;> rfl

@[simp] theorem reg_pushWrite (s : WT.St) (r lane : Nat) (ev : Resp) : (s.pushWrite r lane ev).1.reg = s.reg := by
  unfold St.pushWrite; split <;> rfl

@[simp] theorem reg_removeRemote (s : WT.St) (r : Nat) (why : Reason) : (s.removeRemote r why).1.reg = s.reg := by
  unfold St.removeRemote; simp only []; split <;> rfl

@[simp] theorem reg_stepOrphan (s : WT.St) (r : Nat) (ok : Bool) : (stepOrphan s r ok).1.reg = s.reg := by
  unfold stepOrphan; split <;> rfl

theorem reg_foldSpecial {α : Type} (f : α → Nat × Special) (xs : List α) (acc : WT.St × List Nat) :
    (xs.foldl (fun (acc : WT.St × List Nat) x =>
      let y := acc.1.pushSpecial (f x).1 (f x).2; (y.1, acc.2 ++ y.2)) acc).1.reg = acc.1.reg := by
  induction xs generalizing acc with
  | nil => rfl
  | cons x rest ih => simp only [List.foldl]; rw [ih]; simp

theorem reg_foldWrite (lane : Nat) (ev : Resp) (xs : List Nat) (acc : WT.St × List Nat) :
    (xs.foldl (fun (acc : WT.St × List Nat) r =>
      let x := acc.1.pushWrite r lane ev; (x.1, acc.2 ++ x.2)) acc).1.reg = acc.1.reg := by
  induction xs generalizing acc with
  | nil => rfl
  | cons x rest ih => simp only [List.foldl]; rw [ih]; simp

/-- Only `register_lane` changes the registry: it appends the new lane's name (the lane's id is its index). -/
theorem reg_step (s : WT.St) (e : WT.Ev) :
    (WT.step s e).1.reg = (match e with | .lane name _ => s.reg ++ [name] | _ => s.reg) := by
  cases e with
  | lane name rep => simp only [WT.step]; split <;> rfl
  | attach r => simp only [WT.step]; split <;> rfl
  | link r name => simp only [WT.step]; split <;> simp
  | unlink r name =>
    simp only [WT.step]
    split
    · split <;> simp
    · rfl
  | unknown r name => simp [WT.step]
  | event lane target resp =>
    simp only [WT.step]
    split
    · split
      · rfl
      · split <;> simp
    · split
      · rfl
      · exact reg_foldWrite lane resp _ _
  | done r ok =>
    simp only [WT.step]
    split
    · simp
    · split
      · simp
      · split <;> simp
  | laneFailed lane =>
    simp only [WT.step]
    exact reg_foldSpecial (fun (p : Nat × Bool) => (p.1, Special.unlinked lane .none)) _ _
  | prune r => simp only [WT.step]; split <;> simp
  | stop =>
    simp only [WT.step]
    exact reg_foldSpecial (fun (p : Nat × Nat) => (p.2, Special.unlinked p.1 .none)) _ _
  | snapshot => rfl

theorem reg_step_other (s : WT.St) (e : WT.Ev) (h : isLaneEvent e = false) : (WT.step s e).1.reg = s.reg := by
  rw [reg_step]; cases e <;> simp [isLaneEvent] at h ⊢

/-! ### Covered / ordered -/

/-- Body `b` belongs to a registered lane `l` (`l < n`, ids are indices into the registry) and the state it carries
has been handed to the store (vacuous if the lane's stream was built without a store id). `m`: lane id ↦ store id. -/
def Covered (m : List (Nat × Nat)) (n : Nat) (log : List Entry) (l : Nat) (b : Body) : Prop :=
  l < n ∧ ∀ sid, alGet m l = some sid → ∃ op, storeOpOf sid b = some op ∧ Entry.store op ∈ log

/-- Every event frame in the log is preceded by the store operation for the state it carries. -/
def Ordered (m : List (Nat × Nat)) (n : Nat) (log : List Entry) : Prop :=
  ∀ pre post r l b, log = pre ++ Entry.send r (some l) (.event b) :: post → Covered m n pre l b

theorem covered_mono {m : List (Nat × Nat)} {n : Nat} {log : List Entry} (more : List Entry) {l : Nat} {b : Body}
    (h : Covered m n log l b) : Covered m n (log ++ more) l b := by
  refine ⟨h.1, ?_⟩
  intro sid hs
  obtain ⟨op, h1, h2⟩ := h.2 sid hs
  exact ⟨op, h1, List.mem_append_left _ h2⟩

/-- Registering the next lane (id `n`) does not disturb what is known about the lanes registered before. -/
theorem covered_reg {m : List (Nat × Nat)} {n : Nat} {log : List Entry} {l : Nat} {b : Body} (sid' : Nat)
    (h : Covered m n log l b) : Covered (alSet m n sid') (n + 1) log l b ∧ Covered m (n + 1) log l b := by
  have hl := h.1
  refine ⟨⟨by omega, ?_⟩, ⟨by omega, h.2⟩⟩
  intro sid hs
  rw [alGet_alSet_ne _ _ (by omega)] at hs
  exact h.2 sid hs

theorem ordered_nil (m : List (Nat × Nat)) (n : Nat) : Ordered m n [] := by
  intro pre post r l b h
  have := congrArg List.length h
  simp at this

theorem ordered_append {m : List (Nat × Nat)} {n : Nat} {log new : List Entry} (h : Ordered m n log)
    (hnew : ∀ pre2 post2 r l b, new = pre2 ++ Entry.send r (some l) (.event b) :: post2 →
      Covered m n (log ++ pre2) l b) : Ordered m n (log ++ new) := by
  intro pre post r l b heq
  rcases List.append_eq_append_iff.mp heq with ⟨a', h1, h2⟩ | ⟨c', h1, h2⟩
  · -- pre = log ++ a', new = a' ++ send :: post
    subst h1
    exact hnew a' post r l b h2
  · -- log = pre ++ c', send :: post = c' ++ new
    cases c' with
    | nil =>
      simp only [List.append_nil, List.nil_append] at h1 h2
      subst h1
      have := hnew [] post r l b h2.symm
      simpa using this
    | cons x c'' =>
      simp only [List.cons_append, List.cons.injEq] at h2
      obtain ⟨hx, _⟩ := h2
      subst hx
      exact h pre c'' r l b h1

theorem ordered_prefix {m : List (Nat × Nat)} {n : Nat} {a b : List Entry} (h : Ordered m n (a ++ b)) :
    Ordered m n a := by
  intro pre post r l bd heq
  exact h pre (post ++ b) r l bd (by rw [heq]; simp)

theorem ordered_reg {m : List (Nat × Nat)} {n : Nat} {log : List Entry} (sid' : Nat) (h : Ordered m n log) :
    Ordered (alSet m n sid') (n + 1) log ∧ Ordered m (n + 1) log :=
  ⟨fun pre post r l b heq => (covered_reg sid' (h pre post r l b heq)).1,
   fun pre post r l b heq => (covered_reg sid' (h pre post r l b heq)).2⟩

theorem storeOps_append (a b : List Entry) : storeOps (a ++ b) = storeOps a ++ storeOps b := by
  induction a with
  | nil => rfl
  | cons e rest ih => cases e <;> simp [storeOps, ih]

theorem storeOps_sentBy (s : WT.St) (e : WT.Ev) : storeOps (sentBy s e) = [] := by
  have hmap : ∀ (r : Nat) (lid : Option Nat) (ns : List Note),
      storeOps (ns.map (fun n => Entry.send r lid n)) = [] := by
    intro r lid ns
    induction ns with
    | nil => rfl
    | cons n rest ih => simpa [storeOps] using ih
  cases e with
  | done r ok =>
    rw [sentBy_done]
    cases ok with
    | false => rfl
    | true =>
      simp only [↓reduceIte]
      cases inflightOf s r with
      | none => rfl
      | some w => exact hmap r w.lid w.notes
  | _ => rfl

theorem mem_storeOps {op : SOp Nat} {log : List Entry} : op ∈ storeOps log ↔ Entry.store op ∈ log := by
  induction log with
  | nil => simp [storeOps]
  | cons e rest ih => cases e <;> simp [storeOps, ih]

structure PInv (s : PSt) : Prop where
  pend : PendingOK (Covered s.laneSid s.wt.reg.length s.log) s.wt
  ord : Ordered s.laneSid s.wt.reg.length s.log
  fold : s.store = foldStore (storeOps s.log)
  /-- every store operation in the log is addressed to the store id of some registered (persistent) item -/
  sids : ∀ op, Entry.store op ∈ s.log →
    ∃ item, alGet s.laneSid item = some op.sid ∨ alGet s.storeSid item = some op.sid
  /-- store ids are only held by registered lanes / stores (so the next registration cannot overwrite one) -/
  lbound : ∀ l sid, alGet s.laneSid l = some sid → l < s.wt.reg.length
  sbound : ∀ i sid, alGet s.storeSid i = some sid → i < s.storeCounter

theorem pinv_init : PInv {} :=
  ⟨pendingOK_init _, ordered_nil _ _, rfl, by intro op h; simp at h,
   by intro l sid h; simp [alGet] at h, by intro l sid h; simp [alGet] at h⟩

/-- A write-task step that registers nothing. -/
theorem pinv_wtStep {s : PSt} (h : PInv s) (e : WT.Ev) (hreg : (WT.step s.wt e).1.reg = s.wt.reg)
    (hnew : NewOK (Covered s.laneSid s.wt.reg.length s.log) e) : PInv (wtStep s e) := by
  refine ⟨?_, ?_, ?_, ?_, ?_, h.sbound⟩
  · simp only [wtStep, hreg]
    exact pendingOK_mono (fun l b hc => covered_mono _ hc) (pendingOK_step h.pend e hnew)
  · simp only [wtStep, hreg]
    apply ordered_append h.ord
    intro pre2 post2 r l b heq
    apply covered_mono
    exact sentBy_ok h.pend e r l b (by rw [heq]; simp)
  · simp only [wtStep, storeOps_append, storeOps_sentBy, List.append_nil]
    exact h.fold
  · intro op hop
    simp only [wtStep, List.mem_append] at hop
    rcases hop with hop | hop
    · exact h.sids op hop
    · have := mem_storeOps.mpr hop
      rw [storeOps_sentBy] at this
      simp at this
  · simp only [wtStep, hreg]
    exact h.lbound

theorem sentBy_lane (s : WT.St) (name : Nat) (rep : Bool) : sentBy s (.lane name rep) = [] := rfl

theorem reg_length_lane (s : WT.St) (name : Nat) (rep : Bool) :
    (WT.step s (.lane name rep)).1.reg.length = s.reg.length + 1 := by
  rw [reg_step]; simp

/-- Registration of a lane whose stream is built with store id `sid` (`register_lane` gives it the next id). -/
theorem pinv_register_some {s : PSt} (h : PInv s) (name : Nat) (rep : Bool) (sid : Nat) :
    PInv (wtStep { s with laneSid := alSet s.laneSid s.wt.reg.length sid } (.lane name rep)) := by
  refine ⟨?_, ?_, ?_, ?_, ?_, h.sbound⟩
  · simp only [wtStep, sentBy_lane, List.append_nil, reg_length_lane]
    exact pendingOK_mono (fun l b hc => (covered_reg sid hc).1) (pendingOK_step h.pend _ trivial)
  · simp only [wtStep, sentBy_lane, List.append_nil, reg_length_lane]
    exact (ordered_reg sid h.ord).1
  · simp only [wtStep, sentBy_lane, List.append_nil]
    exact h.fold
  · intro op hop
    simp only [wtStep, sentBy_lane, List.append_nil] at hop ⊢
    obtain ⟨item, hi | hi⟩ := h.sids op hop
    · refine ⟨item, Or.inl ?_⟩
      have := h.lbound item _ hi
      rw [alGet_alSet_ne _ _ (by omega)]
      exact hi
    · exact ⟨item, Or.inr hi⟩
  · intro l x hl
    simp only [wtStep, reg_length_lane] at hl ⊢
    rw [alGet_alSet] at hl
    split at hl
    · omega
    · have := h.lbound l x hl; omega

/-- Registration of a lane whose stream is built with `store_id = None`. -/
theorem pinv_register_none {s : PSt} (h : PInv s) (name : Nat) (rep : Bool) :
    PInv (wtStep s (.lane name rep)) := by
  refine ⟨?_, ?_, ?_, ?_, ?_, h.sbound⟩
  · simp only [wtStep, sentBy_lane, List.append_nil, reg_length_lane]
    exact pendingOK_mono (fun l b hc => (covered_reg 0 hc).2) (pendingOK_step h.pend _ trivial)
  · simp only [wtStep, sentBy_lane, List.append_nil, reg_length_lane]
    exact (ordered_reg 0 h.ord).2
  · simp only [wtStep, sentBy_lane, List.append_nil]
    exact h.fold
  · intro op hop
    simp only [wtStep, sentBy_lane, List.append_nil] at hop ⊢
    exact h.sids op hop
  · intro l x hl
    simp only [wtStep, reg_length_lane] at hl ⊢
    have := h.lbound l x hl; omega

/-- `persist_response` stores exactly the state that the response's body carries. -/
theorem persistOp_covers (sid : Nat) (target : Option Nat) (r : Resp) (b : Body) (hb : respBody? r = some b) :
    persistOp (some sid) (.lane target r) = storeOpOf sid b := by
  cases r with
  | value x => simp [respBody?] at hb; subst hb; rfl
  | supply x => simp [respBody?] at hb; subst hb; rfl
  | map op => simp [respBody?] at hb; subst hb; rfl
  | synced k => simp [respBody?] at hb

theorem persistOp_sid (storeId : Option Nat) (d : RespData) (op : SOp Nat) (h : persistOp storeId d = some op) :
    storeId = some op.sid := by
  cases storeId with
  | none => simp [persistOp] at h
  | some sid =>
    cases d with
    | lane t r => cases r <;> simp [persistOp] at h <;> subst h <;> rfl
    | storeValue b => simp [persistOp] at h; subst h; rfl
    | storeMap o => simp [persistOp] at h; subst h; rfl

theorem reg_step_event (s : WT.St) (l : Nat) (t : Option Nat) (r : Resp) : (WT.step s (.event l t r)).1.reg = s.reg := by
  rw [reg_step]

theorem pinv_step (cfg : Cfg) {s : PSt} (h : PInv s) (e : PEv) : PInv (pstep cfg s e) := by
  cases e with
  | other e =>
    simp only [pstep]
    split
    · exact h
    · split
      · exact h
      · rename_i hl
        have hl' : isLaneEvent e = false := by simpa using hl
        apply pinv_wtStep h e (reg_step_other _ _ hl')
        cases e <;> simp [NewOK, isLaneEvent] at hl' ⊢
  | addStore name idOk =>
    simp only [pstep]
    split
    · exact h
    · split
      · split
        · refine ⟨h.pend, h.ord, h.fold, ?_, h.lbound, ?_⟩
          · intro op hop
            obtain ⟨item, hi | hi⟩ := h.sids op hop
            · exact ⟨item, Or.inl hi⟩
            · refine ⟨item, Or.inr ?_⟩
              have := h.sbound item _ hi
              simp only []
              rw [alGet_alSet_ne _ _ (by omega)]
              exact hi
          · intro i x hi
            simp only [] at hi ⊢
            rw [alGet_alSet] at hi
            split at hi
            · omega
            · have := h.sbound i x hi; omega
        · exact ⟨h.pend, h.ord, h.fold, h.sids, h.lbound, h.sbound⟩
      · exact h
  | addLane late name kind transient reporter idOk =>
    simp only [pstep]
    split
    · exact h
    · split
      · split
        · exact pinv_register_some h name reporter _
        · exact ⟨h.pend, h.ord, h.fold, h.sids, h.lbound, h.sbound⟩
      · exact pinv_register_none h name reporter
  | resp item d storeOk =>
    simp only [pstep]
    split
    · exact h
    · by_cases hregd : s.registered item d = true
      · simp only [hregd, ↓reduceIte]
        cases hp : persistOp (s.sidOf item d) d with
        | none =>
          simp only []
          cases d with
          | lane target r =>
            simp only []
            apply pinv_wtStep h _ (reg_step_event _ _ _ _)
            intro b hb
            refine ⟨by simpa [PSt.registered] using hregd, ?_⟩
            intro sid hs
            simp only [PSt.sidOf] at hp
            rw [hs, persistOp_covers sid target r b hb] at hp
            cases r <;> simp [respBody?] at hb <;> subst hb <;> simp [storeOpOf] at hp
          | storeValue b => exact h
          | storeMap op => exact h
        | some op =>
          simp only []
          by_cases hok : storeOk = true
          · simp only [hok, ↓reduceIte]
            -- the state after the store call
            have h1 : PInv { s with store := applyStore s.store op, log := s.log ++ [.store op] } := by
              refine ⟨?_, ?_, ?_, ?_, h.lbound, h.sbound⟩
              · exact pendingOK_mono (fun l b hc => covered_mono _ hc) h.pend
              · apply ordered_append h.ord
                intro pre2 post2 r l b heq
                have := congrArg List.length heq
                cases pre2 <;> simp at heq
              · simp only [storeOps_append, storeOps, foldStore, List.foldl_append, List.foldl]
                rw [h.fold]; rfl
              · intro op' hop
                simp only [List.mem_append, List.mem_singleton] at hop
                rcases hop with hop | hop
                · exact h.sids op' hop
                · cases hop
                  have hsid := persistOp_sid _ _ _ hp
                  cases d with
                  | lane t r => exact ⟨item, Or.inl hsid⟩
                  | storeValue b => exact ⟨item, Or.inr hsid⟩
                  | storeMap o => exact ⟨item, Or.inr hsid⟩
            cases d with
            | lane target r =>
              simp only []
              apply pinv_wtStep h1 _ (reg_step_event _ _ _ _)
              intro b hb
              refine ⟨by simpa [PSt.registered] using hregd, ?_⟩
              intro sid hs
              simp only [PSt.sidOf] at hp
              rw [hs, persistOp_covers sid target r b hb] at hp
              exact ⟨op, hp, by simp⟩
            | storeValue b => exact h1
            | storeMap o => exact h1
          · simp only [hok]
            exact ⟨h.pend, h.ord, h.fold, h.sids, h.lbound, h.sbound⟩
      · simp only [hregd]
        exact h

theorem pinv_run (cfg : Cfg) {s : PSt} (h : PInv s) (evs : List PEv) : PInv (prun cfg s evs) := by
  induction evs generalizing s with
  | nil => exact h
  | cons e rest ih => exact ih (pinv_step cfg h e)

/-! ### A lane's store id is fixed at registration -/

theorem reg_length_wtStep_le (s : PSt) (e : WT.Ev) : s.wt.reg.length ≤ (wtStep s e).wt.reg.length := by
  simp only [wtStep, reg_step]
  cases e <;> simp

/-- One step never changes the store id of a lane that is already registered, and never unregisters a lane. -/
theorem pstep_laneSid (cfg : Cfg) {s : PSt} (e : PEv) {l : Nat} (hl : l < s.wt.reg.length) :
    alGet (pstep cfg s e).laneSid l = alGet s.laneSid l ∧ s.wt.reg.length ≤ (pstep cfg s e).wt.reg.length := by
  cases e with
  | other e =>
    simp only [pstep]
    split
    · exact ⟨rfl, Nat.le_refl _⟩
    · split
      · exact ⟨rfl, Nat.le_refl _⟩
      · exact ⟨rfl, reg_length_wtStep_le s e⟩
  | addStore name idOk =>
    simp only [pstep]
    split
    · exact ⟨rfl, Nat.le_refl _⟩
    · split
      · split <;> exact ⟨rfl, Nat.le_refl _⟩
      · exact ⟨rfl, Nat.le_refl _⟩
  | addLane late name kind transient reporter idOk =>
    simp only [pstep]
    split
    · exact ⟨rfl, Nat.le_refl _⟩
    · split
      · split
        · refine ⟨?_, ?_⟩
          · simp only [wtStep]
            exact alGet_alSet_ne _ _ (by omega)
          · exact reg_length_wtStep_le _ _
        · exact ⟨rfl, Nat.le_refl _⟩
      · exact ⟨rfl, reg_length_wtStep_le _ _⟩
  | resp item d storeOk =>
    simp only [pstep]
    split
    · exact ⟨rfl, Nat.le_refl _⟩
    · split
      · split
        · split
          · cases d with
            | lane target r => exact ⟨rfl, reg_length_wtStep_le _ _⟩
            | storeValue b => exact ⟨rfl, Nat.le_refl _⟩
            | storeMap o => exact ⟨rfl, Nat.le_refl _⟩
          · exact ⟨rfl, Nat.le_refl _⟩
        · cases d with
          | lane target r => exact ⟨rfl, reg_length_wtStep_le _ _⟩
          | storeValue b => exact ⟨rfl, Nat.le_refl _⟩
          | storeMap o => exact ⟨rfl, Nat.le_refl _⟩
      · exact ⟨rfl, Nat.le_refl _⟩

theorem prun_laneSid (cfg : Cfg) (evs : List PEv) {s : PSt} {l : Nat} (hl : l < s.wt.reg.length) :
    alGet (prun cfg s evs).laneSid l = alGet s.laneSid l ∧ l < (prun cfg s evs).wt.reg.length := by
  induction evs generalizing s with
  | nil => exact ⟨rfl, hl⟩
  | cons e rest ih =>
    have h1 := pstep_laneSid cfg e hl
    have h2 := ih (s := pstep cfg s e) (by omega)
    exact ⟨by simp only [prun, List.foldl] at h2 ⊢; rw [h2.1, h1.1], by simpa [prun] using h2.2⟩

theorem prun_append (cfg : Cfg) (s : PSt) (a b : List PEv) : prun cfg s (a ++ b) = prun cfg (prun cfg s a) b := by
  simp [prun, List.foldl_append]

/-- What a (successful) registration does: the lane gets the next id and its stream the store id `laneStoreId`. -/
theorem pstep_addLane {cfg : Cfg} {s : PSt} (h : PInv s) (hlive : s.failed = false)
    (late : Bool) (name : Nat) (kind : UKind) (transient rep : Bool) :
    (pstep cfg s (.addLane late name kind transient rep true)).wt.reg.length = s.wt.reg.length + 1 ∧
    alGet (pstep cfg s (.addLane late name kind transient rep true)).laneSid s.wt.reg.length =
      laneStoreId cfg late name kind transient ∧
    (pstep cfg s (.addLane late name kind transient rep true)).failed = false := by
  simp only [pstep, hlive]
  cases hs : laneStoreId cfg late name kind transient with
  | none =>
    simp only [wtStep, reg_length_lane, hlive, Bool.false_eq_true, ↓reduceIte, true_and, and_true]
    cases hg : alGet s.laneSid s.wt.reg.length with
    | none => rfl
    | some x => have := h.lbound _ _ hg; omega
  | some sid =>
    simp only [wtStep, reg_length_lane, Bool.false_eq_true, ↓reduceIte, alGet_alSet_same, and_self]

end SwimVerif.Persist
