import SwimVerif.Model.CommandLane
import SwimVerif.Proofs.SupplyLane

set_option linter.unusedVariables false
set_option linter.unusedSimpArgs false
namespace SwimVerif.CL

/-! ### views -/

theorem invoked_append (a b : List Entry) : invoked (a ++ b) = invoked a ++ invoked b := by
  induction a with
  | nil => rfl
  | cons e rest ih => cases e <;> simp [invoked, ih]

theorem pushedItems_append (a b : List Entry) : pushedItems (a ++ b) = pushedItems a ++ pushedItems b := by
  induction a with
  | nil => rfl
  | cons e rest ih => cases e <;> simp [pushedItems, ih]

@[simp] theorem invoked_pushes (as : List Nat) : invoked (as.map .push) = [] := by
  induction as with
  | nil => rfl
  | cons a rest ih => simp [invoked, ih]

@[simp] theorem pushedItems_pushes (as : List Nat) : pushedItems (as.map .push) = as := by
  induction as with
  | nil => rfl
  | cons a rest ih => simp [pushedItems, ih]

theorem validCmds_append (a b : List Body) : validCmds (a ++ b) = validCmds a ++ validCmds b := by
  induction a with
  | nil => rfl
  | cons e rest ih => cases e <;> simp [validCmds, ih]

/-! ### `supplyAll`, `doCommand` in closed form -/

theorem supplyAll_eq (as : List Nat) : ∀ (s : St), supplyAll s as =
    { s with sup := { s.sup with lane := { s.sup.lane with eventQ := s.sup.lane.eventQ ++ as },
                                 dirty := s.sup.dirty || !as.isEmpty },
             trace := s.trace ++ as.map .push } := by
  induction as with
  | nil => intro s; simp [supplyAll]
  | cons a rest ih =>
    intro s
    rw [supplyAll, ih]
    simp [Sup.Lane.push]

/-- the log entries one valid command causes -/
def Handler.entries (h : Handler) (v : Nat) : List Entry :=
  [.inv v] ++ (match h.selfCmd v with
    | some u => [.inv u] ++ (h.pushes u).map .push
    | none => []) ++ (h.pushes v).map .push

theorem invoked_entries (h : Handler) (v : Nat) : invoked (h.entries v) = h.expand v := by
  unfold Handler.entries Handler.expand
  cases h.selfCmd v <;> simp [invoked, invoked_append]

theorem pushedItems_entries (h : Handler) (v : Nat) : pushedItems (h.entries v) = h.supplied v := by
  unfold Handler.entries Handler.supplied
  cases h.selfCmd v <;> simp [pushedItems, pushedItems_append]

/-- the command the lane remembers after handling `v` -/
def Handler.lastCmd (h : Handler) (v : Nat) : Nat := (h.selfCmd v).getD v

theorem doCommand_eq (h : Handler) (s : St) (v : Nat) : doCommand h s v =
    { s with cmd := { s.cmd with lane := { prev := some (h.lastCmd v), dirty := true }, dirty := true },
             sup := { s.sup with lane := { s.sup.lane with eventQ := s.sup.lane.eventQ ++ h.supplied v },
                                 dirty := s.sup.dirty || !(h.supplied v).isEmpty },
             ad := h.adAfter s.ad v,
             trace := s.trace ++ h.entries v } := by
  unfold doCommand Handler.entries Handler.supplied Handler.lastCmd Handler.adAfter
  cases hs : h.selfCmd v with
  | none => simp [setCommand, CmdLane.command, supplyAll_eq, sendAll, hs]
  | some u =>
    simp only [setCommand, CmdLane.command, supplyAll_eq, sendAll, hs]
    simp [Bool.or_assoc]
    cases h.pushes u <;> cases h.pushes v <;> simp

/-! ### the invariant -/

/-- bodies of the commands addressed to the command lane -/
def cmdBodies : List Ev → List Body
  | [] => []
  | .command .cmd b :: rest => b :: cmdBodies rest
  | _ :: rest => cmdBodies rest

structure Inv (h : Handler) (s : St) : Prop where
  /-- the handler ran once per valid command, in order, with its value (plus what handlers command themselves) -/
  handler : invoked s.trace = (validCmds s.received).flatMap h.expand
  supplied : pushedItems s.trace = (validCmds s.received).flatMap h.supplied
  /-- supply items: written ++ queued = supplied -/
  fifo : Sup.events s.sup.handed ++ s.sup.lane.eventQ = pushedItems s.trace
  syncs : Sup.synceds s.sup.handed ++ s.sup.lane.syncQ = s.sup.requested
  /-- queued work keeps the lane in `dirty_items` … -/
  owed : (s.sup.lane.eventQ ≠ [] ∨ s.sup.lane.syncQ ≠ []) → s.sup.dirty = true
  /-- … and a dirty lane has a write in flight (so `WriteComplete` will come and the next item will be written) -/
  progress : s.sup.dirty = true → s.sup.out.inflight.isSome = true
  home : s.sup.out.home = s.sup.out.inflight.isNone
  /-- the lane's output channel is a FIFO: read ++ waiting ++ in flight = written -/
  pipe : s.sup.taken ++ s.sup.out.chan ++ s.sup.out.inflight.toList = s.sup.handed

theorem inv_init (h : Handler) : Inv h {} := by
  constructor <;> simp [invoked, validCmds, pushedItems, Sup.events, Sup.synceds]

/-- what `dirty_items.retain` preserves and establishes for the supply lane -/
structure SupOk (p : SupSide) (items : List Nat) : Prop where
  fifo : Sup.events p.handed ++ p.lane.eventQ = items
  syncs : Sup.synceds p.handed ++ p.lane.syncQ = p.requested
  owed : (p.lane.eventQ ≠ [] ∨ p.lane.syncQ ≠ []) → p.dirty = true
  home : p.out.home = p.out.inflight.isNone
  pipe : p.taken ++ p.out.chan ++ p.out.inflight.toList = p.handed

theorem write_none (l : Sup.Lane Nat) (hn : l.write.2.1 = none) :
    l.eventQ = [] ∧ l.syncQ = [] ∧ l.write.1 = l ∧ l.write.2.2 = .done := by
  unfold Sup.Lane.write at hn ⊢
  cases hs : l.syncQ with
  | cons r rest => simp [hs] at hn
  | nil =>
    cases he : l.eventQ with
    | cons a rest => simp [hs, he] at hn
    | nil => simp [hs, he, Sup.Lane.result]

theorem retainSup_ok {p : SupSide} {items : List Nat} (h : SupOk p items) :
    SupOk (retainSup p) items ∧ ((retainSup p).dirty = true → (retainSup p).out.inflight.isSome = true) := by
  unfold retainSup
  by_cases hc : (p.dirty && p.out.home) = true
  · rw [if_pos hc]
    obtain ⟨e1, e2, e3⟩ := Sup.write_spec p.lane
    have hhome : p.out.home = true := by simp at hc; exact hc.2
    have hin : p.out.inflight = none := by
      have := h.home; rw [hhome] at this
      cases hi : p.out.inflight with
      | none => rfl
      | some f => simp [hi] at this
    cases hw : p.lane.write with
    | mk l' rest =>
      obtain ⟨fo, res⟩ := rest
      have h1 : p.lane.write.1 = l' := by rw [hw]
      have h2 : p.lane.write.2.1 = fo := by rw [hw]
      have h3 : p.lane.write.2.2 = res := by rw [hw]
      rw [h1, h2] at e1 e2
      rw [h1, h3] at e3
      cases fo with
      | some f =>
        simp only []
        refine ⟨⟨?_, ?_, ?_, ?_, ?_⟩, ?_⟩
        · show Sup.events (p.handed ++ [f]) ++ l'.eventQ = items
          rw [Sup.events_append, List.append_assoc, ← h.fifo]
          simp only [Option.toList] at e1
          rw [← e1]
        · show Sup.synceds (p.handed ++ [f]) ++ l'.syncQ = p.requested
          rw [Sup.synceds_append, List.append_assoc, ← h.syncs]
          simp only [Option.toList] at e2
          rw [← e2]
        · intro hq
          show (res == Sup.WriteResult.dataStillAvailable) = true
          rw [e3]
          unfold Sup.Lane.result
          rcases hq with hq | hq
          · cases hq' : l'.eventQ with
            | nil => exact absurd hq' hq
            | cons a r => simp
          · cases hq' : l'.syncQ with
            | nil => exact absurd hq' hq
            | cons a r => simp
        · simp
        · show p.taken ++ p.out.chan ++ [f] = p.handed ++ [f]
          rw [← h.pipe, hin]; simp
        · intro _; simp
      | none =>
        obtain ⟨q1, q2, q3, q4⟩ := write_none p.lane h2
        have hl : l' = p.lane := by rw [← h1, q3]
        have hr : res = .done := by rw [← h3, q4]
        subst hl
        simp only [hr]
        refine ⟨⟨h.fifo, h.syncs, ?_, h.home, h.pipe⟩, ?_⟩
        · intro hq; rcases hq with hq | hq
          · exact absurd q1 hq
          · exact absurd q2 hq
        · intro hd; simp at hd
  · rw [if_neg hc]
    refine ⟨h, fun hd => ?_⟩
    have hhome : p.out.home = false := by
      cases hh : p.out.home with
      | false => rfl
      | true => simp [hd, hh] at hc
    have := h.home; rw [hhome] at this
    cases hi : p.out.inflight with
    | none => simp [hi] at this
    | some f => rfl

theorem supOk_of_inv {h : Handler} {s : St} (hi : Inv h s) : SupOk s.sup (pushedItems s.trace) :=
  ⟨hi.fifo, hi.syncs, hi.owed, hi.home, hi.pipe⟩

/-- the loop iteration ends with `retain`: anything that keeps the handler / FIFO facts and `SupOk` keeps `Inv` -/
theorem inv_retain {h : Handler} {s : St}
    (h1 : invoked s.trace = (validCmds s.received).flatMap h.expand)
    (h2 : pushedItems s.trace = (validCmds s.received).flatMap h.supplied)
    (h3 : SupOk s.sup (pushedItems s.trace)) : Inv h (retain s) := by
  obtain ⟨k, kp⟩ := retainSup_ok h3
  exact ⟨h1, h2, k.fifo, k.syncs, k.owed, kp, k.home, k.pipe⟩

/-- the loop iteration without `check_cmds` and the ad hoc channel (they do not touch what `Inv` is about) -/
def stepCore (h : Handler) (s : St) : Ev → St
  | .read l => readLane s l
  | .readCmd => s
  | e => retain (handleEv h s e)

theorem inv_stepCore (h : Handler) {s : St} (hi : Inv h s) (e : Ev) : Inv h (stepCore h s e) := by
  have hs := supOk_of_inv hi
  cases e with
  | read l =>
    cases l with
    | cmd =>
      simp only [stepCore, readLane]
      cases hc : s.cmd.out.chan with
      | nil => simpa [hc] using hi
      | cons f rest => exact ⟨hi.handler, hi.supplied, hi.fifo, hi.syncs, hi.owed, hi.progress, hi.home, hi.pipe⟩
    | sup =>
      simp only [stepCore, readLane]
      cases hc : s.sup.out.chan with
      | nil => simpa [hc] using hi
      | cons f rest =>
        refine ⟨hi.handler, hi.supplied, hi.fifo, hi.syncs, hi.owed, hi.progress, hi.home, ?_⟩
        show (s.sup.taken ++ [f]) ++ rest ++ s.sup.out.inflight.toList = s.sup.handed
        rw [← hi.pipe, hc]; simp
  | command l b =>
    cases l with
    | sup => exact inv_retain hi.handler hi.supplied hs
    | cmd =>
      cases b with
      | bad =>
        refine inv_retain (s := { s with received := s.received ++ [Body.bad] }) ?_ ?_ hs
        · show invoked s.trace = (validCmds (s.received ++ [Body.bad])).flatMap h.expand
          rw [validCmds_append]; simpa [validCmds] using hi.handler
        · show pushedItems s.trace = (validCmds (s.received ++ [Body.bad])).flatMap h.supplied
          rw [validCmds_append]; simpa [validCmds] using hi.supplied
      | ok v =>
        show Inv h (retain (doCommand h { s with received := s.received ++ [Body.ok v] } v))
        rw [doCommand_eq]
        refine inv_retain ?_ ?_ ?_
        · show invoked (s.trace ++ h.entries v) = (validCmds (s.received ++ [Body.ok v])).flatMap h.expand
          rw [invoked_append, invoked_entries, validCmds_append, hi.handler]; simp [validCmds]
        · show pushedItems (s.trace ++ h.entries v) = (validCmds (s.received ++ [Body.ok v])).flatMap h.supplied
          rw [pushedItems_append, pushedItems_entries, validCmds_append, hi.supplied]; simp [validCmds]
        · refine ⟨?_, hs.syncs, ?_, hs.home, hs.pipe⟩
          · show Sup.events s.sup.handed ++ (s.sup.lane.eventQ ++ h.supplied v) = pushedItems (s.trace ++ h.entries v)
            rw [pushedItems_append, pushedItems_entries, ← List.append_assoc, hi.fifo]
          · intro hq
            show (s.sup.dirty || !(h.supplied v).isEmpty) = true
            rcases hq with hq | hq
            · have hq' : s.sup.lane.eventQ ++ h.supplied v ≠ [] := hq
              by_cases hd : s.sup.dirty = true
              · simp [hd]
              · have he : s.sup.lane.eventQ = [] := by
                  cases hx : s.sup.lane.eventQ with
                  | nil => rfl
                  | cons a r => exact absurd (hi.owed (Or.inl (by simp [hx]))) hd
                rw [he] at hq'
                cases hy : h.supplied v with
                | nil => simp [hy] at hq'
                | cons a r => simp
            · have := hi.owed (Or.inr hq); simp [this]
  | sync l r =>
    cases l with
    | cmd => exact inv_retain hi.handler hi.supplied hs
    | sup =>
      show Inv h (retain { s with sup := { s.sup with lane := s.sup.lane.sync r, dirty := true,
                                                        requested := s.sup.requested ++ [r] } })
      refine inv_retain hi.handler hi.supplied ⟨hs.fifo, ?_, fun _ => rfl, hs.home, hs.pipe⟩
      show Sup.synceds s.sup.handed ++ (s.sup.lane.syncQ ++ [r]) = s.sup.requested ++ [r]
      rw [← List.append_assoc, hi.syncs]
  | writeDone l =>
    cases l with
    | cmd =>
      simp only [stepCore, handleEv]
      cases hc : s.cmd.out.inflight with
      | none => exact inv_retain hi.handler hi.supplied hs
      | some f => exact inv_retain hi.handler hi.supplied hs
    | sup =>
      simp only [stepCore, handleEv]
      cases hc : s.sup.out.inflight with
      | none => exact inv_retain hi.handler hi.supplied hs
      | some f =>
        refine inv_retain hi.handler hi.supplied ⟨hs.fifo, hs.syncs, hs.owed, by simp, ?_⟩
        show s.sup.taken ++ (s.sup.out.chan ++ [f]) ++ [] = s.sup.handed
        rw [← hi.pipe, hc]; simp
  | readCmd => exact hi
  | cmdSendDone =>
    simp only [stepCore, handleEv]
    split
    · exact inv_retain hi.handler hi.supplied hs
    · split
      · exact inv_retain hi.handler hi.supplied hs
      · exact inv_retain hi.handler hi.supplied hs

/-- the facts of `Inv` only look at `sup`, `trace` and `received` -/
theorem inv_congr {h : Handler} {s s' : St} (hi : Inv h s) (h1 : s'.sup = s.sup) (h2 : s'.trace = s.trace)
    (h3 : s'.received = s.received) : Inv h s' := by
  obtain ⟨a, b, c, d, e, f, g, i⟩ := hi
  constructor <;> simp only [h1, h2, h3] <;> assumption

@[simp] theorem checkCmds_sup (s : St) : (checkCmds s).sup = s.sup := by unfold checkCmds; split <;> rfl
@[simp] theorem checkCmds_cmd (s : St) : (checkCmds s).cmd = s.cmd := by unfold checkCmds; split <;> rfl
@[simp] theorem checkCmds_trace (s : St) : (checkCmds s).trace = s.trace := by unfold checkCmds; split <;> rfl
@[simp] theorem checkCmds_received (s : St) : (checkCmds s).received = s.received := by
  unfold checkCmds; split <;> rfl
@[simp] theorem readCmd_sup (s : St) : (readCmd s).sup = s.sup := by unfold readCmd; split <;> rfl
@[simp] theorem readCmd_trace (s : St) : (readCmd s).trace = s.trace := by unfold readCmd; split <;> rfl
@[simp] theorem readCmd_received (s : St) : (readCmd s).received = s.received := by unfold readCmd; split <;> rfl

theorem step_core (h : Handler) (s : St) (e : Ev) :
    (step h s e).sup = (stepCore h s e).sup ∧ (step h s e).trace = (stepCore h s e).trace ∧
    (step h s e).received = (stepCore h s e).received := by
  cases e with
  | read l => exact ⟨rfl, rfl, rfl⟩
  | readCmd => simp [step, stepCore]
  | cmdSendDone => exact ⟨rfl, rfl, rfl⟩
  | writeDone l => exact ⟨rfl, rfl, rfl⟩
  | sync l r => simp [step, stepCore, Ev.runsHandler, retain]
  | command l b =>
    cases l with
    | sup => simp [step, stepCore, Ev.runsHandler, retain]
    | cmd => cases b <;> simp [step, stepCore, Ev.runsHandler, retain]

theorem inv_step (h : Handler) {s : St} (hi : Inv h s) (e : Ev) : Inv h (step h s e) := by
  obtain ⟨h1, h2, h3⟩ := step_core h s e
  exact inv_congr (inv_stepCore h hi e) h1 h2 h3

theorem inv_run (h : Handler) (evs : List Ev) : ∀ (s : St), Inv h s → Inv h (run h s evs) := by
  induction evs with
  | nil => intro s hi; exact hi
  | cons e rest ih => intro s hi; exact ih _ (inv_step h hi e)

/-! ### `received` is what the events delivered -/

theorem retain_received (s : St) : (retain s).received = s.received := rfl

theorem stepCore_received (h : Handler) (s : St) (e : Ev) :
    (stepCore h s e).received = s.received ++ cmdBodies [e] := by
  cases e with
  | read l => cases l <;> simp only [stepCore, readLane] <;> (try split) <;> simp [cmdBodies]
  | readCmd => simp [stepCore, cmdBodies]
  | cmdSendDone => simp only [stepCore, handleEv]; split <;> (try split) <;> simp [retain, cmdBodies]
  | command l b =>
    cases l with
    | sup => simp [stepCore, handleEv, retain, cmdBodies]
    | cmd =>
      cases b with
      | bad => simp [stepCore, handleEv, retain, cmdBodies]
      | ok v => simp [stepCore, handleEv, retain, cmdBodies, doCommand_eq]
  | sync l r => cases l <;> simp [stepCore, handleEv, retain, cmdBodies]
  | writeDone l =>
    cases l <;> simp only [stepCore, handleEv] <;> split <;> simp [retain, cmdBodies]

theorem step_received (h : Handler) (s : St) (e : Ev) : (step h s e).received = s.received ++ cmdBodies [e] := by
  rw [(step_core h s e).2.2]; exact stepCore_received h s e

theorem cmdBodies_cons (e : Ev) (rest : List Ev) : cmdBodies (e :: rest) = cmdBodies [e] ++ cmdBodies rest := by
  cases e with
  | command l b => cases l <;> simp [cmdBodies]
  | sync l r => simp [cmdBodies]
  | writeDone l => simp [cmdBodies]
  | read l => simp [cmdBodies]
  | cmdSendDone => simp [cmdBodies]
  | readCmd => simp [cmdBodies]

theorem run_received (h : Handler) (evs : List Ev) : ∀ (s : St),
    (run h s evs).received = s.received ++ cmdBodies evs := by
  induction evs with
  | nil => intro s; simp [run, cmdBodies]
  | cons e rest ih =>
    intro s
    show (run h (step h s e) rest).received = _
    rw [ih, step_received, cmdBodies_cons e rest, List.append_assoc]

end SwimVerif.CL
