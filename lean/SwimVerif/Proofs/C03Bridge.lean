/-
C03 (map lane): from the typed trace predicate to the line-level one (`modelTraceOk`: the monitor `Mon.step` run on
the rendered lines of the model, exactly what the check runs on implementation traces). The two agree on every trace
whose lines survive the round trip render → parse (`lineProtoOk`, decidable).
-/
import SwimVerif.Proofs.C03Trace

set_option linter.unusedVariables false
set_option linter.unusedSimpArgs false
namespace SwimVerif.ML

def Op.render : Op → String
  | .update k v => s!"upd {k} {v}"
  | .remove k => s!"rem {k}"
  | .clear => "clr"
  | .sync r => s!"sync {r}"
  | .write => "write"
  | .dropFirst n => s!"drop {n}"
  | .takeFirst n => s!"take {n}"

/-- the monitor accepts the model's trace of these operations -/
def modelTraceOk : St → Mon → List Op → Bool
  | _, _, [] => true
  | s, m, op :: rest =>
    let x := stepLine s op.render
    let y := m.step op.render x.2
    y.2.isNone && modelTraceOk x.1 y.1 rest

deriving instance DecidableEq for Op

def renderOut : Option (WriteResult × Option Frame) → String
  | some (r, some f) => s!"{r.render} {f.render}"
  | some (r, none) => s!"{r.render} -"
  | none => "ok"

/-- the line of an operation parses back to the operation -/
def opLineOk (op : Op) : Bool :=
  decide (parseOp op.render = some op) && decide (words op.render ≠ ["new"]) && decide (words op.render ≠ ["map"])

/-- the answer of the lane parses back to what was written -/
def outLineOk : Option (WriteResult × Option Frame) → Bool
  | some (r, some f) =>
    decide (words (renderOut (some (r, some f))) = [r.render, f.render]) && decide (f.render ≠ "-") &&
      decide (parseFrame f.render = some f)
  | some (r, none) => decide (words (renderOut (some (r, none))) = [r.render, "-"]) && decide (r = .noData)
  | none => true

/-- render → parse is the identity on every line of the model's trace of `ops` -/
def lineProtoOk : St → List Op → Bool
  | _, [] => true
  | s, op :: rest => opLineOk op && outLineOk (step s op).2 && lineProtoOk (step s op).1 rest

theorem stepLine_render (s : St) (op : Op) (h : opLineOk op = true) :
    stepLine s op.render = ((step s op).1, renderOut (step s op).2) := by
  simp only [opLineOk, Bool.and_eq_true, decide_eq_true_eq] at h
  obtain ⟨⟨h1, h2⟩, h3⟩ := h
  unfold stepLine
  split
  · rename_i hw; exact absurd hw h2
  · rename_i hw; exact absurd hw h3
  · simp only [h1]
    rfl

theorem stepUpd_eq (fr : Frame) (r : Nat) (ps : List Pending) : Mon.step.upd fr r ps = updFirst r fr ps := by
  induction ps with
  | nil => simp [Mon.step.upd, updFirst]
  | cons p ps ih =>
    unfold Mon.step.upd updFirst
    rw [ih]
    rfl

theorem monStep_frame (m : Mon) (fr : Frame) :
    (match fr with
      | .upd k v =>
        if alGet m.cur k ≠ some v then (m, some "map-event-value-not-current")
        else ({ m with rep := applyFrame m.rep fr,
                       pend := m.pend.map (fun p => { p with linkedRep := applyFrame p.linkedRep fr,
                                                               freshRep := applyFrame p.freshRep fr }) }, none)
      | .rem _ | .clear =>
        ({ m with rep := applyFrame m.rep fr,
                  pend := m.pend.map (fun p => { p with linkedRep := applyFrame p.linkedRep fr,
                                                          freshRep := applyFrame p.freshRep fr }) }, none)
      | .sync r k v =>
        if alGet m.cur k ≠ some v then (m, some "sync-event-value-not-current")
        else if !(m.pend.any (·.r = r)) then (m, some "sync-event-for-no-request")
        else ({ m with pend := Mon.step.upd fr r m.pend }, none)
      | .synced r =>
        match m.pend.find? (·.r = r) with
        | none => (m, some "synced-without-request")
        | some p =>
          let m' := { m with pend := m.pend.eraseP (·.r = r) }
          if !(consistent p p.freshRep m.keysSeen) then (m', some "snapshot-inconsistent-fresh-remote")
          else if !(consistent p p.linkedRep m.keysSeen) then (m', some "snapshot-inconsistent-linked-remote")
          else (m', none)) = m.frameT fr := by
  cases fr with
  | upd k v => rfl
  | rem k => rfl
  | clear => rfl
  | sync r k v => simp only [Mon.frameT, stepUpd_eq]
  | synced r =>
    simp only [Mon.frameT]
    cases m.pend.find? (·.r = r) with
    | none => rfl
    | some p =>
      simp only [syncedVerdict]
      split
      · rfl
      · split <;> rfl

end SwimVerif.ML

namespace SwimVerif.ML

theorem step_write_out (s : St) :
    (∃ r f, (step s .write).2 = some (r, some f)) ∨ (step s .write).2 = some (.noData, none) := by
  simp only [step]
  cases hx : (popFrame s.content (fuelFor s.wq) s.wq).1 with
  | some f => left; exact ⟨_, f, rfl⟩
  | none => right; rfl

theorem step_nonwrite_out (s : St) (op : Op) (h : op ≠ .write) : (step s op).2 = none := by
  cases op <;> first | rfl | exact absurd rfl h

theorem monStep_render (m : Mon) (s : St) (op : Op) (h1 : opLineOk op = true) (h2 : outLineOk (step s op).2 = true) :
    m.step op.render (renderOut (step s op).2) = m.stepT op (step s op).2 := by
  simp only [opLineOk, Bool.and_eq_true, decide_eq_true_eq] at h1
  obtain ⟨⟨hp, hn1⟩, hn2⟩ := h1
  unfold Mon.step
  split
  · rename_i hw; exact absurd hw hn1
  · rename_i hw; exact absurd hw hn2
  · simp only [hp]
    cases op with
    | update k v => rfl
    | remove k =>
      simp only [Mon.stepT, Mon.opT]
      split <;> rfl
    | clear => rfl
    | sync r => rfl
    | dropFirst n => rfl
    | takeFirst n => rfl
    | write =>
      rcases step_write_out s with ⟨r, f, hx⟩ | hx
      · rw [hx] at h2 ⊢
        simp only [outLineOk, Bool.and_eq_true, decide_eq_true_eq] at h2
        obtain ⟨⟨hw, hd⟩, hpf⟩ := h2
        simp only [hw, hd, if_false, hpf, Mon.stepT]
        exact monStep_frame m f
      · rw [hx] at h2 ⊢
        simp only [outLineOk, Bool.and_eq_true, decide_eq_true_eq] at h2
        simp only [h2.1, if_true, Mon.stepT, Mon.noDataT]
        have : WriteResult.render .noData = "nodata" := rfl
        simp only [this, ne_eq, not_true_eq_false, if_false]
        split
        · rfl
        · split <;> rfl

theorem modelTraceOk_eq_traceOkT : ∀ (ops : List Op) (s : St) (m : Mon), lineProtoOk s ops = true →
    modelTraceOk s m ops = traceOkT s m ops := by
  intro ops
  induction ops with
  | nil => intro s m _; rfl
  | cons op rest ih =>
    intro s m h
    simp only [lineProtoOk, Bool.and_eq_true] at h
    obtain ⟨⟨h1, h2⟩, h3⟩ := h
    unfold modelTraceOk traceOkT
    simp only [stepLine_render s op h1, monStep_render m s op h1 h2]
    rw [ih _ _ h3]

end SwimVerif.ML
