import SwimVerif.Model.CommandOutput
import SwimVerif.Proofs.AssocList

set_option linter.unusedSimpArgs false
set_option linter.unusedVariables false
namespace SwimVerif.Cmd

/-- `Sup A X`: `X` is what flows out for the appended commands `A` when the only thing that may ever happen to a
command is: a trailing *overwritable* command is superseded by the very next command appended. -/
inductive Sup : List Cmd → List Cmd → Prop
  | nil : Sup [] []
  | snoc {A X : List Cmd} (c : Cmd) : Sup A X → Sup (A ++ [c]) (X ++ [c])
  | supersede {A X : List Cmd} (o c : Cmd) :
      Sup (A ++ [o]) (X ++ [o]) → o.overwrite = true → Sup (A ++ [o] ++ [c]) (X ++ [c])

/-- A command that may not be overwritten is never dropped. -/
theorem sup_keeps_non_overwritable {A X : List Cmd} (h : Sup A X) :
    ∀ c, c ∈ A → c.overwrite = false → c ∈ X := by
  induction h with
  | nil => intro c hc; simp at hc
  | snoc c' _ ih =>
    intro c hc hn
    rcases List.mem_append.mp hc with h1 | h1
    · exact List.mem_append_left _ (ih c h1 hn)
    · simp at h1; subst h1; simp
  | supersede o c' hs ho ih =>
    intro c hc hn
    rcases List.mem_append.mp hc with h1 | h1
    · have := ih c h1 hn
      rcases List.mem_append.mp this with h2 | h2
      · exact List.mem_append_left _ h2
      · simp at h2; subst h2; rw [ho] at hn; simp at hn
    · simp at h1; subst h1; simp

/-- Nothing is invented, duplicated or reordered: the flow is a subsequence of what was appended. -/
theorem sup_sublist {A X : List Cmd} (h : Sup A X) : X.Sublist A := by
  induction h with
  | nil => exact List.Sublist.slnil
  | snoc c _ ih => exact List.Sublist.append ih (List.Sublist.refl _)
  | supersede o c hs ho ih =>
    have h1 : (_ : List Cmd).Sublist _ := (List.sublist_append_left _ [o]).trans ih
    exact List.Sublist.append h1 (List.Sublist.refl _)

/-- The newest command for a target is never the one that is dropped. -/
theorem sup_last {A X : List Cmd} (h : Sup A X) : A.getLast? = X.getLast? := by
  cases h <;> simp

/-! ### the invariant -/

/-- Per target: the flow is a supersession of the appended commands, and `offset` sits either at the end of the
buffer or just before a trailing overwritable record which is also the newest appended command. -/
structure TInvC (s : St) (t : Nat) : Prop where
  sup : Sup (s.appendedFor t) (s.flow t)
  off : (getBuf s t).offset = (getBuf s t).recs.length ∨
    ∃ P0 o A0, (getBuf s t).recs = P0 ++ [o] ∧ (getBuf s t).offset = P0.length ∧ o.overwrite = true ∧
      s.appendedFor t = A0 ++ [o]

structure InvC (s : St) : Prop where
  per : ∀ t, TInvC s t
  idle : s.writerHome = true → s.inflight = []

theorem cmdsFor_append (t : Nat) (a b : List (Nat × Cmd)) : cmdsFor t (a ++ b) = cmdsFor t a ++ cmdsFor t b := by
  simp [cmdsFor, List.filter_append]

theorem cmdsFor_single (t t' : Nat) (c : Cmd) : cmdsFor t [(t', c)] = if t' = t then [c] else [] := by
  by_cases h : t' = t <;> simp [cmdsFor, h]

theorem cmdsFor_map (t t' : Nat) (cs : List Cmd) :
    cmdsFor t (cs.map (fun c => (t', c))) = if t' = t then cs else [] := by
  by_cases h : t' = t
  · subst h; simp [cmdsFor, List.filter_map, Function.comp_def]
  · simp [cmdsFor, h, List.filter_map, Function.comp_def]

theorem invc_init : InvC {} := by
  refine ⟨fun t => ⟨?_, ?_⟩, fun _ => rfl⟩
  · simp [St.appendedFor, St.flow, cmdsFor, getBuf, alGet]; exact Sup.nil
  · left; simp [getBuf, alGet]

theorem getBuf_set (s : St) (t t' : Nat) (b : LaneBuffer) (bufs' : List (Nat × LaneBuffer))
    (h : bufs' = alSet s.bufs t b) :
    (alGet bufs' t').getD {} = if t = t' then b else getBuf s t' := by
  subst h
  rw [alGet_alSet]
  by_cases ht : t = t' <;> simp [ht, getBuf]

theorem invc_append {s : St} (h : InvC s) (t : Nat) (c : Cmd) : InvC (doAppend s t c) := by
  refine ⟨fun t' => ?_, fun hh => h.idle hh⟩
  have hp := h.per t'
  by_cases ht : t = t'
  · subst ht
    have hbuf : getBuf (doAppend s t c) t =
        { recs := (getBuf s t).recs.take (getBuf s t).offset ++ [c],
          offset := if c.overwrite then ((getBuf s t).recs.take (getBuf s t).offset).length
                    else ((getBuf s t).recs.take (getBuf s t).offset).length + 1 } := by
      simp [getBuf, doAppend, alGet_alSet]
    have happ : (doAppend s t c).appendedFor t = s.appendedFor t ++ [c] := by
      simp [St.appendedFor, doAppend, cmdsFor_append, cmdsFor_single]
    have hflow : (doAppend s t c).flow t =
        cmdsFor t s.channel ++ cmdsFor t s.inflight ++ ((getBuf s t).recs.take (getBuf s t).offset ++ [c]) := by
      simp only [St.flow, hbuf]; rfl
    rcases hp.off with hoff | ⟨P0, o, A0, hrecs, hoff, hov, hA⟩
    · -- offset at the end: nothing is truncated
      have htake : (getBuf s t).recs.take (getBuf s t).offset = (getBuf s t).recs := by
        rw [hoff]; exact List.take_length
      constructor
      · rw [happ, hflow, htake, ← List.append_assoc]
        exact Sup.snoc c hp.sup
      · rw [hbuf, htake]
        cases hc : c.overwrite with
        | true =>
          right
          exact ⟨(getBuf s t).recs, c, s.appendedFor t, rfl, by simp, hc, happ⟩
        | false => left; simp
    · -- a trailing overwritable record is superseded
      have htake : (getBuf s t).recs.take (getBuf s t).offset = P0 := by
        rw [hrecs, hoff]; simp
      have hsup := hp.sup
      simp only [St.flow, hrecs] at hsup
      rw [hA, ← List.append_assoc] at hsup
      constructor
      · rw [happ, hflow, htake, hA, ← List.append_assoc]
        exact Sup.supersede o c hsup hov
      · rw [hbuf, htake]
        cases hc : c.overwrite with
        | true =>
          right
          exact ⟨P0, c, A0 ++ [o], rfl, by simp, hc, by rw [happ, hA]⟩
        | false => left; simp
  · have hbuf : getBuf (doAppend s t c) t' = getBuf s t' := by
      simp [getBuf, doAppend, alGet_alSet, ht]
    have happ : (doAppend s t c).appendedFor t' = s.appendedFor t' := by
      simp [St.appendedFor, doAppend, cmdsFor_append, cmdsFor_single, ht]
    have hflow : (doAppend s t c).flow t' = s.flow t' := by
      simp only [St.flow, hbuf]; rfl
    exact ⟨by rw [happ, hflow]; exact hp.sup, by rw [hbuf, happ]; exact hp.off⟩

def bufOf (bufs : List (Nat × LaneBuffer)) (t : Nat) : LaneBuffer := (alGet bufs t).getD {}

theorem drain_spec (t : Nat) : ∀ (dirty : List Nat) (bufs : List (Nat × LaneBuffer)) (acc : List (Nat × Cmd)),
    cmdsFor t (drainDirty dirty bufs acc).2 ++ (bufOf (drainDirty dirty bufs acc).1 t).recs =
      cmdsFor t acc ++ (bufOf bufs t).recs ∧
    (bufOf (drainDirty dirty bufs acc).1 t = bufOf bufs t ∨
      ((bufOf (drainDirty dirty bufs acc).1 t).recs = [] ∧ (bufOf (drainDirty dirty bufs acc).1 t).offset = 0)) := by
  intro dirty
  induction dirty with
  | nil => intro bufs acc; exact ⟨rfl, Or.inl rfl⟩
  | cons d rest ih =>
    intro bufs acc
    simp only [drainDirty]
    cases hg : alGet bufs d with
    | none => simpa using ih bufs acc
    | some b =>
      simp only []
      have := ih (alSet bufs d { recs := [], offset := 0 }) (acc ++ b.recs.map (fun c => (d, c)))
      by_cases hd : d = t
      · subst hd
        have hb : bufOf (alSet bufs d { recs := [], offset := 0 }) d = { recs := [], offset := 0 } := by
          simp [bufOf]
        rw [hb] at this
        constructor
        · rw [this.1, cmdsFor_append, cmdsFor_map]
          simp [bufOf, hg]
        · right
          rcases this.2 with h1 | h1
          · rw [h1]; exact ⟨rfl, rfl⟩
          · exact h1
      · have hb : bufOf (alSet bufs d { recs := [], offset := 0 }) t = bufOf bufs t := by
          simp [bufOf, alGet_alSet_ne _ _ hd]
        rw [hb] at this
        constructor
        · rw [this.1, cmdsFor_append, cmdsFor_map]
          simp [hd]
        · exact this.2

theorem sup_off_empty {s : St} {t : Nat} : ∀ (b : LaneBuffer), b.recs = [] → b.offset = 0 →
    (b.offset = b.recs.length ∨ ∃ P0 o A0, b.recs = P0 ++ [o] ∧ b.offset = P0.length ∧ o.overwrite = true ∧
      s.appendedFor t = A0 ++ [o]) := by
  intro b h1 h2; left; rw [h1, h2]; rfl

theorem invc_write {s : St} (h : InvC s) : InvC (doWrite s) := by
  unfold doWrite
  cases hh : s.writerHome with
  | false => simpa [hh] using h
  | true =>
    simp only [Bool.not_true, Bool.false_eq_true, if_false]
    have hin := h.idle hh
    cases hd : s.dirty with
    | nil => exact h
    | cons t rest =>
      simp only []
      cases hg : alGet s.bufs t with
      | none => exact h
      | some b =>
        simp only []
        by_cases hr : rest.isEmpty = true
        · rw [if_pos hr]
          refine ⟨fun t' => ?_, fun hf => by simp at hf⟩
          have hp := h.per t'
          by_cases ht : t = t'
          · subst ht
            have hb : getBuf s t = b := by simp [getBuf, hg]
            constructor
            · have := hp.sup
              simp only [St.flow, St.appendedFor, hin, hb] at this ⊢
              simp only [getBuf, alGet_alSet_same, Option.getD_some, cmdsFor_map, if_true]
              simpa [cmdsFor] using this
            · left; simp [getBuf]
          · constructor
            · have := hp.sup
              simp only [St.flow, St.appendedFor, hin] at this ⊢
              simp only [getBuf, alGet_alSet_ne _ _ ht, cmdsFor_map, ht, if_false]
              simpa [cmdsFor, getBuf] using this
            · have := hp.off
              simp only [getBuf, alGet_alSet_ne _ _ ht, St.appendedFor] at this ⊢
              exact this
        · rw [if_neg hr]
          refine ⟨fun t' => ?_, fun hf => by simp at hf⟩
          have hp := h.per t'
          have hds := drain_spec t' (t :: rest) s.bufs []
          rw [← hd] at hds
          constructor
          · have hs := hp.sup
            have e := hds.1
            simp only [hd] at e
            have e0 : cmdsFor t' ([] : List (Nat × Cmd)) = [] := rfl
            rw [e0, List.nil_append] at e
            simp only [St.flow, St.appendedFor, hin, e0, List.append_nil] at hs ⊢
            show Sup (cmdsFor t' s.appended)
              (cmdsFor t' s.channel ++ cmdsFor t' (drainDirty (t :: rest) s.bufs []).2 ++
                (bufOf (drainDirty (t :: rest) s.bufs []).1 t').recs)
            rw [List.append_assoc, e]
            exact hs
          · rcases hds.2 with h1 | h1
            · have := hp.off
              simp only [getBuf, St.appendedFor, bufOf, hd] at this h1 ⊢
              rw [h1]; exact this
            · left
              simp only [getBuf, bufOf, hd] at h1 ⊢
              rw [h1.1, h1.2]; rfl

theorem invc_done {s : St} (h : InvC s) : InvC (doDone s) := by
  unfold doDone
  split
  · exact h
  · refine ⟨fun t => ?_, fun _ => rfl⟩
    have hp := h.per t
    constructor
    · have := hp.sup
      simp only [St.flow, St.appendedFor, getBuf, cmdsFor_append] at this ⊢
      simpa [cmdsFor] using this
    · exact hp.off

theorem invc_step {s : St} (h : InvC s) (op : Op) : InvC (step s op) := by
  cases op with
  | append t c => exact invc_append h t c
  | write => exact invc_write h
  | done => exact invc_done h

theorem invc_run {s : St} (h : InvC s) (ops : List Op) : InvC (run s ops) := by
  induction ops generalizing s with
  | nil => exact h
  | cons op rest ih => exact ih (invc_step h op)

end SwimVerif.Cmd
