/-
C03 (map lane): the inductive invariant linking the lane (`ML.St`: content, event queue, sync queues with their
`pending` counters) and the monitor (`ML.Mon`: reference map, observer replica, pending requests with two replicas
and per-key histories); preservation by the operations that write nothing.
-/
import SwimVerif.Proofs.C03Rel

set_option linter.unusedVariables false
set_option linter.unusedSimpArgs false
namespace SwimVerif.ML

/-- event queue vs. lane content vs. the replica `rep` of an observer that was linked all along -/
structure QC (c rep : List (Nat × Nat)) (ev : List Act) : Prop where
  upd_present : ∀ (i k : Nat), ev[i]? = some (.upd k) → alGet c k ≠ none
  rem_absent : ∀ (i k : Nat), ev[i]? = some (.rem k) → alGet c k = none
  obs : ∀ k, (∀ (i : Nat) (a : Act), ev[i]? = some a → ¬ covers a k) → alGet rep k = alGet c k
  clear_none : ev[0]? = some .clear → ∀ k, k ∉ qkeys ev → alGet c k = none

/-- `seen`: remotes that have requested a sync so far; `U`: keys of the `update` operations so far -/
structure Inv (s : St) (m : Mon) (seen U : List Nat) : Prop where
  cur_eq : m.cur = s.content
  cur_sorted : Sorted s.content
  rep_sorted : Sorted m.rep
  eqinv : EQInv s.wq.eq
  qc : QC s.content m.rep s.wq.eq.events
  idx : IdxOk s.wq
  rel : Rel (R s.content s.wq.eq.events) m.pend s.wq.syncs
  distinct : (s.wq.syncs.map (·.r)).Nodup
  seen_r : ∀ q, q ∈ s.wq.syncs → q.r ∈ seen
  keysU : ∀ k, k ∈ qkeys s.wq.eq.events → k ∈ U
  contU : ∀ k, alGet s.content k ≠ none → k ∈ U

theorem inv_init : Inv {} {} [] [] := by
  constructor
  · rfl
  · simp [Sorted]
  · simp [Sorted]
  · exact eqinv_init
  · constructor <;> simp
  · right; rfl
  · simp [Rel]
  · simp
  · intro q hq; simp at hq
  · intro k hk; simp [qkeys] at hk
  · intro k hk; simp at hk

/-! ### pushing a keyed action -/

theorem push_keyed_spec {q : EQ} (h : EQInv q) (a : Act) (k : Nat) (hk : a.key? = some k)
    (hb : k ∉ qkeys q.events → q.events.length < M64) :
    EQInv (q.push a) ∧ KeyedPush q.events (q.push a).events a k ∧
      (∀ j, j ∈ qkeys (q.push a).events → j = k ∨ j ∈ qkeys q.events) := by
  cases hs : q.slot k with
  | some i =>
    obtain ⟨b, hi, hbk⟩ := (slot_some_iff h k i).mp hs
    have hil : i < q.events.length := (List.getElem?_eq_some_iff.mp hi).1
    rw [push_hit q a k i hk hs]
    refine ⟨eqinv_push_hit h a b k i hk hi hbk, ⟨hk, ?_, ?_, ?_⟩, ?_⟩
    · intro j c hj
      by_cases hij : i = j
      · subst hij
        rw [hi] at hj
        have : b = c := by simpa using hj
        subst this
        exact ⟨a, by simp [List.getElem?_set, hil], by rw [hk, hbk]⟩
      · exact ⟨c, by simp [List.getElem?_set, hij, hj], rfl⟩
    · intro j c hj
      simp only [List.getElem?_set] at hj
      by_cases hij : i = j
      · subst hij
        simp [hil] at hj
        exact Or.inl hj.symm
      · simp only [hij, if_false] at hj
        right
        refine ⟨hj, ?_⟩
        intro hck
        exact hij (idx_unique q.events i j b c k h.nodup hi hj hbk hck)
    · exact ⟨i, by simp [List.getElem?_set, hil]⟩
    · intro j hj
      simp only at hj
      rw [qkeys_set q.events i a b hi (by rw [hk, hbk])] at hj
      exact Or.inr hj
  | none =>
    have hm := (slot_none_iff h k).mp hs
    rw [push_miss q a k hk hs]
    refine ⟨eqinv_push_miss h a k hk hm (hb hm), ⟨hk, ?_, ?_, ?_⟩, ?_⟩
    · intro j c hj
      have hjl : j < q.events.length := (List.getElem?_eq_some_iff.mp hj).1
      exact ⟨c, by simp only; rw [List.getElem?_append_left hjl]; exact hj, rfl⟩
    · intro j c hj
      simp only [List.getElem?_append] at hj
      split at hj
      · right
        refine ⟨hj, ?_⟩
        intro hck
        exact hm (mem_qkeys hj hck)
      · left
        cases hjj : j - q.events.length with
        | zero => simp [hjj] at hj; exact hj.symm
        | succ n => simp [hjj] at hj
    · exact ⟨q.events.length, by simp⟩
    · intro j hj
      simp only at hj
      rw [qkeys_append q.events a k hk] at hj
      rcases List.mem_append.mp hj with hj | hj
      · exact Or.inr hj
      · left; simpa using hj

theorem QC_keyedPush {c c' rep : List (Nat × Nat)} {ev ev' : List Act} {a : Act} {k : Nat} {nv : Option Nat}
    (hq : QC c rep ev) (h : KeyedPush ev ev' a k)
    (ha : (a = .upd k ∧ nv ≠ none) ∨ (a = .rem k ∧ nv = none))
    (hc' : ∀ j, alGet c' j = if k = j then nv else alGet c j) : QC c' rep ev' := by
  have hcov : covers a k := Or.inr h.key
  constructor
  · intro i j hi
    rw [hc']
    rcases h.bwd i _ hi with h1 | h1
    · rcases ha with ha | ha
      · rw [ha.1] at h1
        have : j = k := by simpa using h1
        subst this
        simp [ha.2]
      · rw [ha.1] at h1
        cases h1
    · have hne : ¬ k = j := by
        intro hkj
        exact h1.2 (by simp [Act.key?, hkj])
      simp only [hne, if_false]
      exact hq.upd_present i j h1.1
  · intro i j hi
    rw [hc']
    rcases h.bwd i _ hi with h1 | h1
    · rcases ha with ha | ha
      · rw [ha.1] at h1
        cases h1
      · rw [ha.1] at h1
        have : j = k := by simpa using h1
        subst this
        simp [ha.2]
    · have hne : ¬ k = j := by
        intro hkj
        exact h1.2 (by simp [Act.key?, hkj])
      simp only [hne, if_false]
      exact hq.rem_absent i j h1.1
  · intro j hno
    rw [hc']
    have hne : ¬ k = j := by
      intro hkj
      subst hkj
      obtain ⟨i, hi⟩ := h.has
      exact hno i a hi hcov
    simp only [hne, if_false]
    apply hq.obs
    intro i b hb hcb
    obtain ⟨b', hb', hkey⟩ := h.fwd i b hb
    exact hno i b' hb' (by unfold covers at *; rwa [hkey])
  · intro hcl j hj
    rw [hc']
    have hne : ¬ k = j := by
      intro hkj
      subst hkj
      obtain ⟨i, hi⟩ := h.has
      exact hj (mem_qkeys hi h.key)
    simp only [hne, if_false]
    apply hq.clear_none (head_clear_keyedPush h hcl)
    intro hjq
    obtain ⟨i, b, hb, hbk⟩ := qkeys_mem hjq
    obtain ⟨b', hb', hkey⟩ := h.fwd i b hb
    exact hj (mem_qkeys hb' (by rw [hkey, hbk]))

@[simp] theorem pushAct_content (s : St) (a : Act) : (pushAct s a).content = s.content := rfl
@[simp] theorem pushAct_eq (s : St) (a : Act) : (pushAct s a).wq.eq = s.wq.eq.push a := rfl
@[simp] theorem pushAct_syncs (s : St) (a : Act) : (pushAct s a).wq.syncs = s.wq.syncs := rfl
@[simp] theorem pushAct_syncIndex (s : St) (a : Act) : (pushAct s a).wq.syncIndex = s.wq.syncIndex := rfl

/-- the events queued are fewer than 2^64 as long as the keys updated so far are -/
theorem events_length_lt {s : St} {m : Mon} {seen U : List Nat} (h : Inv s m seen U) (k : Nat) (U' : List Nat)
    (hkU : k ∈ U') (hUU : ∀ x, x ∈ U → x ∈ U') (hlen : U'.length + 1 ≤ M64) (hm : k ∉ qkeys s.wq.eq.events) :
    s.wq.eq.events.length < M64 := by
  have hn : (qkeys s.wq.eq.events ++ [k]).Nodup :=
    List.nodup_append.mpr ⟨h.eqinv.nodup, by simp, by
      intro x hx y hy
      simp at hy; subst hy
      intro hxy; subst hxy; exact hm hx⟩
  have h1 := nodup_subset_length_le _ U' hn (by
    intro x hx
    rcases List.mem_append.mp hx with hx | hx
    · exact hUU x (h.keysU x hx)
    · have : x = k := by simpa using hx
      subst this; exact hkU)
  have h2 := length_le_qkeys s.wq.eq.events h.eqinv.clear_head
  simp only [List.length_append, List.length_cons, List.length_nil] at h1
  omega

theorem R_pext {c : List (Nat × Nat)} {ev : List Act} {p p' : Pending} {sq : SyncQ} (hr : R c ev p sq)
    (hx : PExt p p') : R c ev p' sq := by
  constructor
  · rw [hx.r]; exact hr.r
  · intro j; exact hx.hist j _ (hr.cur_hist j)
  · intro j
    unfold Cons
    rw [hx.linked]
    exact cons_pext (hr.linked j) (hx.hist j)
  · intro j
    unfold Cons
    rw [hx.fresh]
    exact cons_pext (hr.fresh j) (hx.hist j)
  · intro hcl j
    rcases hr.clear_hist hcl j with h1 | h1
    · exact Or.inl (hx.hist j _ h1)
    · exact Or.inr h1

/-- `update k v` / `remove k` of a present key: content changes at `k`, an action for `k` is pushed -/
theorem inv_keyed {s : St} {m : Mon} {seen U : List Nat} (h : Inv s m seen U) (a : Act) (k : Nat) (nv : Option Nat)
    (c' : List (Nat × Nat)) (U' : List Nat)
    (ha : (a = .upd k ∧ nv ≠ none) ∨ (a = .rem k ∧ nv = none))
    (hc' : ∀ j, alGet c' j = if k = j then nv else alGet s.content j) (hsorted : Sorted c')
    (hkU : k ∈ U') (hUU : ∀ x, x ∈ U → x ∈ U') (hlen : U'.length + 1 ≤ M64) :
    Inv (pushAct { s with content := c' } a) (({ m with cur := c' }).change k nv) seen U' := by
  have hk : a.key? = some k := by
    rcases ha with ha | ha <;> rw [ha.1] <;> rfl
  obtain ⟨he, hkp, hqk⟩ := push_keyed_spec h.eqinv a k hk (events_length_lt h k U' hkU hUU hlen)
  constructor
  · rfl
  · exact hsorted
  · exact h.rep_sorted
  · exact he
  · exact QC_keyedPush h.qc hkp ha hc'
  · exact h.idx
  · simp only [change_pend, pushAct_content, pushAct_eq, pushAct_syncs]
    exact rel_map_left _ (fun p q hr => R_keyedPush hkp hc' hr) _ _ h.rel
  · exact h.distinct
  · exact h.seen_r
  · intro j hj
    rcases hqk j hj with hj | hj
    · subst hj; exact hkU
    · exact hUU j (h.keysU j hj)
  · intro j hj
    simp only [pushAct_content] at hj
    rw [hc'] at hj
    by_cases hkj : k = j
    · subst hkj; exact hkU
    · simp only [hkj, if_false] at hj
      exact hUU j (h.contU j hj)

theorem inv_update {s : St} {m : Mon} {seen U : List Nat} (h : Inv s m seen U) (k v : Nat)
    (hlen : (k :: U).length + 1 ≤ M64) :
    Inv (step s (.update k v)).1 (m.opT (.update k v)) seen (k :: U) := by
  have := inv_keyed h (.upd k) k (some v) (insertSorted k v s.content) (k :: U) (Or.inl ⟨rfl, by simp⟩)
    (fun j => alGet_insertSorted k v s.content j) (sorted_insertSorted k v _ h.cur_sorted)
    (List.mem_cons_self ..) (fun x hx => List.mem_cons_of_mem _ hx) hlen
  simp only [step, Mon.opT, h.cur_eq]
  exact this

/-- removal of one key (by `remove`, `drop` or `take`), present or not -/
theorem inv_rmKey {s : St} {m : Mon} {seen U : List Nat} (h : Inv s m seen U) (k : Nat) (hlen : U.length + 1 ≤ M64) :
    Inv (doRemove s k) (m.rmKey k) seen U := by
  unfold doRemove Mon.rmKey
  rw [h.cur_eq]
  cases hg : alGet s.content k with
  | some v =>
    simp only
    exact inv_keyed h (.rem k) k none (alErase s.content k) U (Or.inr ⟨rfl, rfl⟩)
      (fun j => alGet_alErase s.content k j) (sorted_alErase _ k h.cur_sorted)
      (h.contU k (by rw [hg]; simp)) (fun x hx => hx) hlen
  | none =>
    simp only
    rw [alErase_absent _ k hg]
    constructor
    · rfl
    · exact h.cur_sorted
    · exact h.rep_sorted
    · exact h.eqinv
    · exact h.qc
    · exact h.idx
    · simp only [change_pend]
      exact rel_map_left _ (fun p q hr => R_pext hr (pext_note p k none)) _ _ h.rel
    · exact h.distinct
    · exact h.seen_r
    · exact h.keysU
    · exact h.contU

theorem inv_rmKeys {seen U : List Nat} (hlen : U.length + 1 ≤ M64) : ∀ (ks : List Nat) (s : St) (m : Mon),
    Inv s m seen U → Inv (ks.foldl doRemove s) (ks.foldl Mon.rmKey m) seen U := by
  intro ks
  induction ks with
  | nil => intro s m h; exact h
  | cons k ks ih => intro s m h; exact ih _ _ (inv_rmKey h k hlen)

theorem inv_remove {s : St} {m : Mon} {seen U : List Nat} (h : Inv s m seen U) (k : Nat) (hlen : U.length + 1 ≤ M64) :
    Inv (step s (.remove k)).1 (m.opT (.remove k)) seen U := by
  simp only [step, Mon.opT]
  cases hg : alGet m.cur k with
  | some v =>
    simp only [Option.isSome_some, if_true]
    exact inv_rmKey h k hlen
  | none =>
    simp only [Option.isSome_none, Bool.false_eq_true, if_false]
    have : doRemove s k = s := by
      unfold doRemove
      rw [← h.cur_eq, hg]
    rw [this]
    exact h

theorem inv_clear {s : St} {m : Mon} {seen U : List Nat} (h : Inv s m seen U) :
    Inv (step s .clear).1 (m.opT .clear) seen U := by
  simp only [step, Mon.opT]
  constructor
  · rfl
  · simp [Sorted]
  · rw [clearT_rep]; exact h.rep_sorted
  · exact eqinv_push_clear s.wq.eq
  · simp only [pushAct_content, pushAct_eq, push_clear, clearT_rep]
    constructor
    · intro i k hi
      cases i with
      | zero => simp at hi
      | succ i => simp at hi
    · intro i k hi; simp
    · intro k hno
      exact absurd (Or.inl rfl) (hno 0 .clear (by simp))
    · intro _ k _; simp
  · exact h.idx
  · simp only [pushAct_content, pushAct_eq, push_clear, pushAct_syncs, clearT_pend, h.cur_eq]
    exact rel_map_left _ (fun p q hr => R_clear hr) _ _ h.rel
  · exact h.distinct
  · exact h.seen_r
  · intro k hk
    simp [push_clear, qkeys, List.filterMap_cons, Act.key?] at hk
  · intro k hk
    simp at hk

theorem inv_sync {s : St} {m : Mon} {seen U : List Nat} (h : Inv s m seen U) (r : Nat) (hr : r ∉ seen) :
    Inv (step s (.sync r)).1 (m.opT (.sync r)) (r :: seen) U := by
  simp only [step, Mon.opT, Mon.syncT]
  constructor
  · exact h.cur_eq
  · exact h.cur_sorted
  · exact h.rep_sorted
  · exact h.eqinv
  · exact h.qc
  · rcases h.idx with hi | hi
    · left; simp only [List.length_append, List.length_cons, List.length_nil]; omega
    · right; exact hi
  · simp only
    apply rel_append _ _ _ _ _ h.rel
    rw [h.cur_eq]
    exact R_new s.content m.rep s.wq.eq.events r h.qc.obs h.qc.clear_none
  · simp only [List.map_append, List.map_cons, List.map_nil]
    refine List.nodup_append.mpr ⟨h.distinct, by simp, ?_⟩
    intro x hx y hy
    simp at hy; subst hy
    intro hxy; subst hxy
    obtain ⟨q, hq, hqr⟩ := List.mem_map.mp hx
    exact hr (hqr ▸ h.seen_r q hq)
  · intro q hq
    simp only at hq
    rcases List.mem_append.mp hq with hq | hq
    · exact List.mem_cons_of_mem _ (h.seen_r q hq)
    · have : q = ⟨r, s.content.map (·.1), s.wq.eq.events.length⟩ := by simpa using hq
      subst this
      exact List.mem_cons_self ..
  · exact h.keysU
  · exact h.contU

theorem inv_dropFirst {s : St} {m : Mon} {seen U : List Nat} (h : Inv s m seen U) (n : Nat) (hlen : U.length + 1 ≤ M64) :
    Inv (step s (.dropFirst n)).1 (m.opT (.dropFirst n)) seen U := by
  simp only [step, Mon.opT, h.cur_eq]
  exact inv_rmKeys hlen _ s m h

theorem inv_takeFirst {s : St} {m : Mon} {seen U : List Nat} (h : Inv s m seen U) (n : Nat) (hlen : U.length + 1 ≤ M64) :
    Inv (step s (.takeFirst n)).1 (m.opT (.takeFirst n)) seen U := by
  simp only [step, Mon.opT, h.cur_eq]
  exact inv_rmKeys hlen _ s m h

end SwimVerif.ML
