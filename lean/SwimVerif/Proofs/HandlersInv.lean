/-
Invariants of the C06 reference semantics (transferred to the small-step machine by `run_eq_eval`):
state invariants (`eval_inv`: trace only grows, `previous` slots consumed), outcome properties (`eval_outcome`: no
fuel error, no depth error for rank-decreasing lifecycles), and the agent main loop (on_start first, nothing after
the end).
-/
import SwimVerif.Proofs.Handlers
import SwimVerif.Model.HandlersIO

namespace SwimVerif.Handlers

/-! ### generic state invariant -/

theorem eval_inv (I : St → Prop) (trig : Trig)
    (hlog : ∀ st e, I st → I (st.log e))
    (hspawn : ∀ st a, I st → I (st.spawn a))
    (hset : ∀ st l n, I st → I (trig (vid l) ((st.setV l n).addDirty (vid l))).1)
    (hupd : ∀ st m k n, I st → I (trig (mid m) ((st.updM m k n).addDirty (mid m))).1)
    (hrem : ∀ st m k, I st → I (trig (mid m) ((st.remM m k).addDirty (mid m))).1)
    (hclr : ∀ st m, I st → I (trig (mid m) ((st.clrM m).addDirty (mid m))).1)
    (h : H) : ∀ st, I st → I (eval trig h st).1 := by
  have hseq : ∀ (r : St × Outcome) (k : St → St × Outcome), I r.1 → (∀ s, I s → I (k s).1) → I (seqThen r k).1 := by
    intro r k h1 h2
    obtain ⟨s, o⟩ := r
    cases o with
    | ok => exact h2 s h1
    | err e => exact h1
  induction h with
  | emit e => intro st hi; exact hlog st e hi
  | getLog l => intro st hi; exact hlog st _ hi
  | copy s d k => intro st hi; exact hset _ d _ (hlog st _ hi)
  | set l n => intro st hi; exact hset st l n hi
  | mupd m k n => intro st hi; exact hupd st m k n hi
  | mrem m k => intro st hi; exact hrem st m k hi
  | mclr m => intro st hi; exact hclr st m hi
  | mgetLog m k => intro st hi; exact hlog st _ hi
  | mxf m k f =>
    intro st hi
    simp only [eval]
    rcases xfM_cases st m k f with ⟨v2, _, h⟩ | ⟨v, _, _, h⟩ | ⟨_, _, h⟩
    · rw [h]; exact hupd st m k v2 hi
    · rw [h]; exact hrem st m k hi
    · rw [h]; exact hi
  | mwithLog m k => intro st hi; exact hlog st _ hi
  | remMulti m keys =>
    intro st hi
    simp only [eval]
    induction keys generalizing st with
    | nil => exact hi
    | cons k rest ih => exact hseq _ _ (hrem st m k hi) ih
  | fby a b iha ihb => intro st hi; exact hseq _ _ (iha st hi) ihb
  | athen a b iha ihb => intro st hi; exact hseq _ _ (iha st hi) ihb
  | snd b ih => intro st hi; exact ih st hi
  | seqNil => intro st hi; exact hi
  | seqCons a t iha iht =>
    intro st hi; simp only [eval]
    refine hseq _ _ (iha st hi) ?_
    intro s hs; cases seqNext t with
    | none => exact hs
    | some x => exact iht s hs
  | seqRun a t iha iht =>
    intro st hi; simp only [eval]
    refine hseq _ _ (iha st hi) ?_
    intro s hs; cases seqNext t with
    | none => exact hs
    | some x => exact iht s hs
  | left a ih => intro st hi; exact ih st hi
  | right a ih => intro st hi; exact ih st hi
  | optNone => intro st hi; exact hi
  | optSome a ih => intro st hi; exact ih st hi
  | fail => intro st hi; exact hi
  | stop => intro st hi; exact hi
  | suspend a => intro st hi; exact hspawn st a hi
  | done => intro st hi; exact hi

/-! ### which items a handler may modify directly -/

def mods : H → List Nat
  | .copy _ d _ => [vid d]
  | .set l _ => [vid l]
  | .mupd m _ _ => [mid m]
  | .mrem m _ => [mid m]
  | .mclr m => [mid m]
  | .mxf m _ _ => [mid m]
  | .remMulti m _ => [mid m]
  | .fby a b => mods a ++ mods b
  | .athen a b => mods a ++ mods b
  | .snd b => mods b
  | .seqCons h t => mods h ++ mods t
  | .seqRun h t => mods h ++ mods t
  | .left a => mods a
  | .right a => mods a
  | .optSome a => mods a
  | _ => []

/-! ### generic outcome property -/

theorem eval_outcome (Bad : Err → Prop) (G : Nat → Prop) (trig : Trig)
    (h1 : ¬ Bad .effect) (h2 : ¬ Bad .stop) (h3 : ¬ Bad .afterDone)
    (ht : ∀ j, G j → ∀ st e, (trig j st).2 = .err e → ¬ Bad e)
    (h : H) : ∀ st, (∀ j, j ∈ mods h → G j) → ∀ e, (eval trig h st).2 = .err e → ¬ Bad e := by
  have hseq : ∀ (r : St × Outcome) (k : St → St × Outcome),
      (∀ e, r.2 = .err e → ¬ Bad e) → (∀ s e, (k s).2 = .err e → ¬ Bad e) →
      ∀ e, (seqThen r k).2 = .err e → ¬ Bad e := by
    intro r k h1 h2 e he
    obtain ⟨s, o⟩ := r
    cases o with
    | ok => exact h2 s e he
    | err e' => simp [seqThen] at he; subst he; exact h1 e' rfl
  induction h with
  | emit e => intro st _ e he; simp [eval] at he
  | getLog l => intro st _ e he; simp [eval] at he
  | copy s d k => intro st hg e he; exact ht _ (hg _ (by simp [mods])) _ e he
  | set l n => intro st hg e he; exact ht _ (hg _ (by simp [mods])) _ e he
  | mupd m k n => intro st hg e he; exact ht _ (hg _ (by simp [mods])) _ e he
  | mrem m k => intro st hg e he; exact ht _ (hg _ (by simp [mods])) _ e he
  | mclr m => intro st hg e he; exact ht _ (hg _ (by simp [mods])) _ e he
  | mgetLog m k => intro st _ e he; simp [eval] at he
  | mxf m k f =>
    intro st hg e he
    simp only [eval] at he
    split at he
    · exact ht _ (hg _ (by simp [mods])) _ e he
    · simp at he
  | mwithLog m k => intro st _ e he; simp [eval] at he
  | remMulti m keys =>
    intro st hg
    simp only [eval]
    induction keys generalizing st with
    | nil => intro e he; simp [evalRem] at he
    | cons k rest ih =>
      exact hseq _ _ (fun e he => ht _ (hg _ (by simp [mods])) _ e he)
        (fun s => ih s (fun j hj => hg j (by simpa [mods] using hj)))
  | fby a b iha ihb =>
    intro st hg
    exact hseq _ _ (iha st (fun j hj => hg j (by simp [mods, hj])))
      (fun s => ihb s (fun j hj => hg j (by simp [mods, hj])))
  | athen a b iha ihb =>
    intro st hg
    exact hseq _ _ (iha st (fun j hj => hg j (by simp [mods, hj])))
      (fun s => ihb s (fun j hj => hg j (by simp [mods, hj])))
  | snd b ih => intro st hg; exact ih st (fun j hj => hg j (by simpa [mods] using hj))
  | seqNil => intro st _ e he; simp [eval] at he
  | seqCons a t iha iht =>
    intro st hg; simp only [eval]
    refine hseq _ _ (iha st (fun j hj => hg j (by simp [mods, hj]))) ?_
    intro s; cases seqNext t with
    | none => intro e he; simp at he
    | some x => exact iht s (fun j hj => hg j (by simp [mods, hj]))
  | seqRun a t iha iht =>
    intro st hg; simp only [eval]
    refine hseq _ _ (iha st (fun j hj => hg j (by simp [mods, hj]))) ?_
    intro s; cases seqNext t with
    | none => intro e he; simp at he
    | some x => exact iht s (fun j hj => hg j (by simp [mods, hj]))
  | left a ih => intro st hg; exact ih st (fun j hj => hg j (by simpa [mods] using hj))
  | right a ih => intro st hg; exact ih st (fun j hj => hg j (by simpa [mods] using hj))
  | optNone => intro st _ e he; simp [eval] at he
  | optSome a ih => intro st hg; exact ih st (fun j hj => hg j (by simpa [mods] using hj))
  | fail => intro st _ e he; simp [eval] at he; subst he; exact h1
  | stop => intro st _ e he; simp [eval] at he; subst he; exact h2
  | suspend a => intro st _ e he; simp [eval] at he
  | done => intro st _ e he; simp [eval] at he; subst he; exact h3

/-! ### the lifecycle handler built by `item_event` -/

/-- The only error `item_event` itself can raise is the indexing panic. -/
theorem consequence_error (P : Prog) (id : Nat) (st st' : St) (e : Err)
    (h : consequence P id st = (st', some (.error e))) : e = .panic := by
  unfold consequence at h
  split at h
  · split at h <;> simp at h
  · split at h
    · simp at h
    · split at h
      · split at h
        · simp at h
        · rename_i ev _
          cases ev with
          | update k old =>
            simp only at h
            split at h <;> simp at h
            exact h.2.symm
          | remove k old => simp at h
          | clear b => simp at h
      · simp at h

theorem refD_no_fuel (P : Prog) : ∀ d id st e, (refD P d id st).2 = .err e → ¬ (e = .fuel) := by
  intro d
  induction d with
  | zero =>
    intro id st e he
    simp only [refD] at he
    rcases hc : consequence P id st with ⟨st', c⟩
    rw [hc] at he
    cases c <;> simp at he <;> (subst he; simp)
  | succ d ih =>
    intro id st e he
    simp only [refD] at he
    rcases hc : consequence P id st with ⟨st', c⟩
    rw [hc] at he
    cases c with
    | none => simp at he
    | some x =>
      cases x with
      | error e' =>
        simp at he; subst he
        rw [consequence_error P id st st' e' hc]; simp
      | ok h =>
        simp only at he
        exact eval_outcome (· = .fuel) (fun _ => True) (refD P d) (by simp) (by simp) (by simp)
          (fun j _ s e => ih j s e) h st' (fun _ _ => trivial) e he

theorem eval_no_fuel (trig : Trig) (ht : ∀ id st e, (trig id st).2 = .err e → ¬ (e = .fuel)) (h : H) (st : St) :
    (eval trig h st).2 ≠ .err .fuel := by
  intro he
  exact eval_outcome (· = .fuel) (fun _ => True) trig (by simp) (by simp) (by simp)
    (fun j _ s e => ht j s e) h st (fun _ _ => trivial) .fuel he rfl

/-! ### rank-decreasing lifecycles terminate -/

def nItems : Nat := nv + nm

/-- The handlers of item `i` modify only items with a larger id. -/
def acyclicB (P : Prog) : Bool :=
  ((List.range nv).all fun l =>
    (mods (getH P.onEvent l) ++ mods (getH P.onSet l)).all fun j => decide (vid l < j)) &&
  ((List.range nm).all fun m =>
    (mods (getH P.onUpd m) ++ mods (getH P.onRem m) ++ mods (getH P.onClr m)).all fun j => decide (mid m < j))

def Acyclic (P : Prog) : Prop := acyclicB P = true

instance (P : Prog) : Decidable (Acyclic P) := inferInstanceAs (Decidable (acyclicB P = true))

theorem mods_bracket (en ex : Ev) (b : H) : mods (bracket en b ex) = mods b := by
  simp [bracket, mods]

theorem consequence_mods (P : Prog) (hP : Acyclic P) (id : Nat) (st st' : St) (h : H)
    (hc : consequence P id st = (st', some (.ok h))) : ∀ j, j ∈ mods h → id < j := by
  unfold Acyclic acyclicB at hP
  simp only [Bool.and_eq_true, List.all_eq_true, List.mem_range, decide_eq_true_eq, List.mem_append] at hP
  unfold consequence at hc
  split at hc
  · rename_i hlt
    split at hc
    · simp only [Prod.mk.injEq, Option.some.injEq, Except.ok.injEq] at hc
      obtain ⟨_, hh⟩ := hc
      subst hh
      intro j hj
      simp only [mods, mods_bracket, List.mem_append] at hj
      have := hP.1 id hlt j hj
      simpa [vid] using this
    · simp at hc
  · rename_i hge
    split at hc
    · simp at hc
    · rename_i hlt2
      split at hc
      · split at hc
        · simp at hc
        · rename_i ev _
          have hm : id - nv < nm := by omega
          cases ev with
          | update k old =>
            simp only at hc
            split at hc <;> simp at hc
            obtain ⟨_, hh⟩ := hc
            subst hh
            intro j hj
            rw [mods_bracket] at hj
            have := hP.2 (id - nv) hm j (Or.inl (Or.inl hj))
            simp only [mid] at this; omega
          | remove k old =>
            simp at hc
            obtain ⟨_, hh⟩ := hc
            subst hh
            intro j hj
            rw [mods_bracket] at hj
            have := hP.2 (id - nv) hm j (Or.inl (Or.inr hj))
            simp only [mid] at this; omega
          | clear b =>
            simp at hc
            obtain ⟨_, hh⟩ := hc
            subst hh
            intro j hj
            rw [mods_bracket] at hj
            have := hP.2 (id - nv) hm j (Or.inr hj)
            simp only [mid] at this; omega
      · simp at hc

theorem consequence_unknown (P : Prog) (id : Nat) (st : St) (h : nItems ≤ id) :
    consequence P id st = (st, none) := by
  unfold consequence
  have h1 : ¬ id < nv := by simp only [nItems] at h; omega
  have h2 : nv + nm ≤ id := h
  simp [h1, h2]

theorem refD_no_depth (P : Prog) (hP : Acyclic P) : ∀ d j, nItems ≤ j + d →
    ∀ st e, (refD P d j st).2 = .err e → ¬ (e = .depth) := by
  intro d
  induction d with
  | zero =>
    intro j hj st e he
    simp only [refD, consequence_unknown P j st (by omega)] at he
    simp at he
  | succ d ih =>
    intro j hj st e he
    simp only [refD] at he
    rcases hc : consequence P j st with ⟨st', c⟩
    rw [hc] at he
    cases c with
    | none => simp at he
    | some x =>
      cases x with
      | error e' =>
        simp at he; subst he
        rw [consequence_error P j st st' e' hc]; simp
      | ok h =>
        simp only at he
        have hm := consequence_mods P hP j st st' h hc
        exact eval_outcome (· = .depth) (fun i => nItems ≤ i + d) (refD P d) (by simp) (by simp) (by simp)
          (fun i hi s e => ih i hi s e) h st' (fun i hi => by have := hm i hi; omega) e he

theorem eval_no_depth (P : Prog) (hP : Acyclic P) (d r : Nat) (hr : nItems ≤ r + d) (h : H) (st : St)
    (hm : ∀ j, j ∈ mods h → r ≤ j) : (eval (refD P d) h st).2 ≠ .err .depth := by
  intro he
  exact eval_outcome (· = .depth) (fun i => nItems ≤ i + d) (refD P d) (by simp) (by simp) (by simp)
    (fun i hi s e => refD_no_depth P hP d i hi s e) h st (fun i hi => by have := hm i hi; omega) .depth he rfl

/-! ### the `previous` slots -/

/-- Every `previous` slot (of the lanes that exist) is empty, except possibly that of the items satisfying `ex`. -/
def SlotsOk (ex : Nat → Prop) (st : St) : Prop :=
  (∀ i v, i < nv → st.vals[i]? = some v → ¬ ex (vid i) → v.previous = none) ∧
  (∀ i x, i < nm → st.maps[i]? = some x → ¬ ex (mid i) → x.previous = none)

def SlotsEmpty (st : St) : Prop := SlotsOk (fun _ => False) st

theorem SlotsOk.weaken {ex : Nat → Prop} {st : St} (h : SlotsEmpty st) : SlotsOk ex st :=
  ⟨fun i v hi hv _ => h.1 i v hi hv (by simp), fun i x hi hx _ => h.2 i x hi hx (by simp)⟩

theorem slots_setV (st : St) (l : Nat) (n : Int) (h : SlotsEmpty st) : SlotsOk (· = vid l) (st.setV l n) := by
  unfold St.setV
  split
  · refine ⟨?_, fun i x hi hx _ => h.2 i x hi hx (by simp)⟩
    intro i v hi hv hne
    simp only [vid] at hne
    rw [List.getElem?_set_ne (fun hh => hne hh.symm)] at hv
    exact h.1 i v hi hv (by simp)
  · exact SlotsOk.weaken h

theorem slots_maps_set (st : St) (m : Nat) (y : MLane) (h : SlotsEmpty st) :
    SlotsOk (· = mid m) { st with maps := st.maps.set m y } := by
  refine ⟨fun i v hi hv _ => h.1 i v hi hv (by simp), ?_⟩
  intro i x hi hx hne
  simp only [mid] at hne
  rw [List.getElem?_set_ne (fun hh => hne (by omega))] at hx
  exact h.2 i x hi hx (by simp)

theorem slots_updM (st : St) (m k : Nat) (n : Int) (h : SlotsEmpty st) : SlotsOk (· = mid m) (st.updM m k n) := by
  unfold St.updM
  split
  · exact slots_maps_set st m _ h
  · exact SlotsOk.weaken h

theorem slots_remM (st : St) (m k : Nat) (h : SlotsEmpty st) : SlotsOk (· = mid m) (st.remM m k) := by
  unfold St.remM
  split
  · split
    · exact slots_maps_set st m _ h
    · exact SlotsOk.weaken h
  · exact SlotsOk.weaken h

theorem slots_clrM (st : St) (m : Nat) (h : SlotsEmpty st) : SlotsOk (· = mid m) (st.clrM m) := by
  unfold St.clrM
  split
  · exact slots_maps_set st m _ h
  · exact SlotsOk.weaken h

theorem eval_slots (trig : Trig) (ht : ∀ id st, SlotsOk (· = id) st → SlotsEmpty (trig id st).1) (h : H) (st : St)
    (hs : SlotsEmpty st) : SlotsEmpty (eval trig h st).1 :=
  eval_inv SlotsEmpty trig (fun _ _ h => h) (fun _ _ h => h)
    (fun st l n h => ht _ _ (slots_setV st l n h))
    (fun st m k n h => ht _ _ (slots_updM st m k n h))
    (fun st m k h => ht _ _ (slots_remM st m k h))
    (fun st m h => ht _ _ (slots_clrM st m h)) h st hs

theorem getElem?_lt {α : Type} (l : List α) (i : Nat) (a : α) (h : l[i]? = some a) : i < l.length := by
  rcases Nat.lt_or_ge i l.length with h' | h'
  · exact h'
  · rw [List.getElem?_eq_none h'] at h; cases h

/-- `item_event` empties the slot of the item it is called for. -/
theorem consequence_slots (P : Prog) (id : Nat) (st : St) (h : SlotsOk (· = id) st) :
    SlotsEmpty (consequence P id st).1 := by
  unfold consequence
  split
  · rename_i hlt
    split
    · rename_i v hv
      refine ⟨?_, fun i x hi hx _ => h.2 i x hi hx (by simp only [mid]; omega)⟩
      intro i w hi hw _
      by_cases hid : id = i
      · subst hid
        simp only [List.getElem?_set_self (getElem?_lt _ _ _ hv), Option.some.injEq] at hw
        subst hw; rfl
      · simp only at hw
        rw [List.getElem?_set_ne hid] at hw
        exact h.1 i w hi hw (by simp only [vid]; omega)
    · rename_i hv
      refine ⟨?_, fun i x hi hx _ => h.2 i x hi hx (by simp only [mid]; omega)⟩
      intro i w hi hw _
      by_cases hid : id = i
      · subst hid; rw [hv] at hw; cases hw
      · exact h.1 i w hi hw (by simp only [vid]; omega)
  · rename_i hge
    split
    · rename_i hbig
      exact ⟨fun i v hi hv _ => h.1 i v hi hv (by simp only [vid]; omega),
             fun i x hi hx _ => h.2 i x hi hx (by simp only [mid]; omega)⟩
    · rename_i hsmall
      split
      · rename_i x hx
        split
        · rename_i hprev
          refine ⟨fun i v hi hv _ => h.1 i v hi hv (by simp only [vid]; omega), ?_⟩
          intro i y hi hy _
          by_cases hid : id - nv = i
          · subst hid; rw [hx] at hy; cases hy; exact hprev
          · exact h.2 i y hi hy (by simp only [mid]; omega)
        · refine ⟨fun i v hi hv _ => h.1 i v hi hv (by simp only [vid]; omega), ?_⟩
          intro i y hi hy _
          by_cases hid : id - nv = i
          · subst hid
            simp only [List.getElem?_set_self (getElem?_lt _ _ _ hx), Option.some.injEq] at hy
            subst hy; rfl
          · simp only at hy
            rw [List.getElem?_set_ne hid] at hy
            exact h.2 i y hi hy (by simp only [mid]; omega)
      · rename_i hx
        refine ⟨fun i v hi hv _ => h.1 i v hi hv (by simp only [vid]; omega), ?_⟩
        intro i y hi hy _
        by_cases hid : id - nv = i
        · subst hid; rw [hx] at hy; cases hy
        · exact h.2 i y hi hy (by simp only [mid]; omega)

theorem refD_slots (P : Prog) : ∀ d id st, SlotsOk (· = id) st → SlotsEmpty (refD P d id st).1 := by
  intro d
  induction d with
  | zero =>
    intro id st hs
    have := consequence_slots P id st hs
    simp only [refD]
    generalize consequence P id st = r at this ⊢
    obtain ⟨st', c⟩ := r
    cases c <;> exact this
  | succ d ih =>
    intro id st hs
    have := consequence_slots P id st hs
    simp only [refD]
    generalize consequence P id st = r at this ⊢
    obtain ⟨st', c⟩ := r
    cases c with
    | none => exact this
    | some x =>
      cases x with
      | error e => exact this
      | ok h => exact eval_slots (refD P d) (ih) h st' this

/-! ### what `item_event` builds -/

/-- Value lane: `on_event new` followed by `on_set prev new`, the slot emptied. -/
theorem refD_value (P : Prog) (d l : Nat) (st : St) (w : VLane) (hl : l < nv) (hw : st.vals[l]? = some w) :
    refD P (d + 1) (vid l) st =
      eval (refD P d)
        (.fby (bracket (.enEvent l w.content) (getH P.onEvent l) (.exEvent l))
              (bracket (.enSet l w.previous w.content) (getH P.onSet l) (.exSet l)))
        { st with vals := st.vals.set l { w with previous := none } } := by
  simp only [refD, consequence, vid, hl, ↓reduceIte, hw]

/-- The handler of a pending map event. -/
def mapHandler (P : Prog) (m : Nat) (x : MLane) : MEv → Except Err H
  | .update k old =>
    match alGet x.content k with
    | some new => .ok (bracket (.enUpd m k old new) (getH P.onUpd m) (.exUpd m))
    | none => .error .panic
  | .remove k old => .ok (bracket (.enRem m k old) (getH P.onRem m) (.exRem m))
  | .clear before => .ok (bracket (.enClr m before) (getH P.onClr m) (.exClr m))

/-- Map lane with a pending event: the one handler of that event, the slot emptied. -/
theorem refD_map (P : Prog) (d m : Nat) (st : St) (x : MLane) (ev : MEv) (hm : m < nm)
    (hx : st.maps[m]? = some x) (hp : x.previous = some ev) :
    refD P (d + 1) (mid m) st =
      match mapHandler P m x ev with
      | .ok h => eval (refD P d) h { st with maps := st.maps.set m { x with previous := none } }
      | .error e => ({ st with maps := st.maps.set m { x with previous := none } }, .err e) := by
  have h1 : ¬ (nv + m < nv) := by omega
  have h2 : ¬ (nv + nm ≤ nv + m) := by omega
  have h3 : nv + m - nv = m := by omega
  simp only [refD, consequence, mid, h1, h2, h3, ↓reduceIte, hx, hp]
  cases ev with
  | update k old =>
    simp only [mapHandler]
    cases alGet x.content k <;> rfl
  | remove k old => rfl
  | clear b => rfl

/-- Map lane without a pending event: nothing runs. -/
theorem refD_map_idle (P : Prog) (d m : Nat) (st : St) (x : MLane) (hm : m < nm)
    (hx : st.maps[m]? = some x) (hp : x.previous = none) : refD P d (mid m) st = (st, .ok) := by
  have h1 : ¬ (nv + m < nv) := by omega
  have h2 : ¬ (nv + nm ≤ nv + m) := by omega
  have h3 : nv + m - nv = m := by omega
  cases d <;> simp only [refD, consequence, mid, h1, h2, h3, ↓reduceIte, hx, hp]

/-! ### the trace only grows -/

def Extends (t0 : List Ev) (st : St) : Prop := ∃ new, st.trace = new ++ t0

theorem refD_extends (P : Prog) (t0 : List Ev) : ∀ d id st, Extends t0 st → Extends t0 (refD P d id st).1 := by
  have hc : ∀ id st, Extends t0 st → Extends t0 (consequence P id st).1 := by
    intro id st h
    unfold consequence
    repeat' split
    all_goals exact h
  intro d
  induction d with
  | zero =>
    intro id st hs
    have := hc id st hs
    simp only [refD]
    generalize consequence P id st = r at this ⊢
    obtain ⟨st', c⟩ := r
    cases c <;> exact this
  | succ d ih =>
    intro id st hs
    have := hc id st hs
    simp only [refD]
    generalize consequence P id st = r at this ⊢
    obtain ⟨st', c⟩ := r
    cases c with
    | none => exact this
    | some x =>
      cases x with
      | error e => exact this
      | ok h =>
        refine eval_inv (Extends t0) (refD P d) ?_ (fun _ _ h => h) ?_ ?_ ?_ ?_ h st' this
        · intro s e ⟨new, hn⟩; exact ⟨e :: new, by simp [St.log, hn]⟩
        · intro s l n hh; apply ih; unfold St.setV St.addDirty; split <;> exact hh
        · intro s m k n hh; apply ih; unfold St.updM St.addDirty; split <;> exact hh
        · intro s m k hh; apply ih; unfold St.remM St.addDirty; repeat' split
          all_goals exact hh
        · intro s m hh; apply ih; unfold St.clrM St.addDirty; split <;> exact hh

theorem topRun_extends (P : Prog) (t0 : List Ev) (h : H) (st : St) (hs : Extends t0 st) :
    Extends t0 (topRun P h st).1 := by
  unfold topRun
  rw [trigD_eq_refD, run_eq_eval]
  refine eval_inv (Extends t0) (refD P maxDepth) ?_ (fun _ _ h => h) ?_ ?_ ?_ ?_ h st hs
  · intro s e ⟨new, hn⟩; exact ⟨e :: new, by simp [St.log, hn]⟩
  · intro s l n hh; apply refD_extends; unfold St.setV St.addDirty; split <;> exact hh
  · intro s m k n hh; apply refD_extends; unfold St.updM St.addDirty; split <;> exact hh
  · intro s m k hh; apply refD_extends; unfold St.remM St.addDirty; repeat' split
    all_goals exact hh
  · intro s m hh; apply refD_extends; unfold St.clrM St.addDirty; split <;> exact hh

theorem shutdown_extends (t0 : List Ev) (a : Agent) (st : St) (hs : Extends t0 st) :
    Extends t0 (shutdown a st).st := by
  unfold shutdown
  have := topRun_extends a.prog t0 (bracket (.enTop .stop) a.prog.onStop (.exTop .stop)) st hs
  generalize topRun a.prog (bracket (.enTop .stop) a.prog.onStop (.exTop .stop)) st = r at this ⊢
  obtain ⟨st', o⟩ := r
  cases o with
  | ok => exact this
  | err e => cases e <;> exact this

theorem drain_extends (t0 : List Ev) : ∀ n (a : Agent), Extends t0 a.st → Extends t0 (drain n a).st := by
  intro n
  induction n with
  | zero => intro a h; exact h
  | succ n ih =>
    intro a h
    simp only [drain]
    cases hsu : a.st.susp with
    | nil => exact h
    | cons x rest =>
      simp only
      have := topRun_extends a.prog t0 (bracket (.enTop .susp) x (.exTop .susp)) { a.st with susp := rest } h
      generalize topRun a.prog (bracket (.enTop .susp) x (.exTop .susp)) { a.st with susp := rest } = r at this ⊢
      obtain ⟨st', o⟩ := r
      cases o with
      | ok => exact ih _ this
      | err e =>
        cases e
        case stop => exact shutdown_extends t0 a st' this
        all_goals exact this

/-- A bracketed top-level handler records its entry mark before anything else. -/
theorem topRun_bracket (P : Prog) (en ex : Ev) (body : H) (st : St) :
    Extends (en :: st.trace) (topRun P (bracket en body ex) st).1 := by
  have h0 : topRun P (bracket en body ex) st
      = topRun P (.seqCons body (.seqCons (.emit ex) .seqNil)) (st.log en) := by
    unfold topRun
    rw [run_eq_eval, run_eq_eval]
    simp [bracket, eval, seqThen, seqNext]
  rw [h0]
  exact topRun_extends P _ _ _ ⟨[], by simp [St.log]⟩

/-- `on_stop`: everything recorded from the shutdown on comes after the entry mark of `on_stop`, and the agent is
not running afterwards. -/
theorem shutdown_last (a : Agent) (st : St) :
    (shutdown a st).phase ≠ .running ∧ Extends (.enTop .stop :: st.trace) (shutdown a st).st := by
  unfold shutdown
  have := topRun_bracket a.prog (.enTop .stop) (.exTop .stop) a.prog.onStop st
  generalize topRun a.prog (bracket (.enTop .stop) a.prog.onStop (.exTop .stop)) st = r at this ⊢
  obtain ⟨st', o⟩ := r
  cases o with
  | ok => exact ⟨by simp, this⟩
  | err e => cases e <;> exact ⟨by simp, this⟩

/-- `on_start` is the first handler of an agent: the oldest trace entry is its entry mark. -/
theorem start_first (P : Prog) : (start P).st.trace.getLast? = some (.enTop .start) := by
  have key : Extends [.enTop .start] (start P).st := by
    unfold start
    have h0 : topRun P (bracket (.enTop .start) P.onStart (.exTop .start)) St.init
        = topRun P (.seqCons P.onStart (.seqCons (.emit (.exTop .start)) .seqNil)) (St.init.log (.enTop .start)) := by
      unfold topRun
      rw [run_eq_eval, run_eq_eval]
      simp [bracket, eval, seqThen, seqNext]
    rw [h0]
    have := topRun_extends P [.enTop .start] (.seqCons P.onStart (.seqCons (.emit (.exTop .start)) .seqNil))
      (St.init.log (.enTop .start)) ⟨[], by simp [St.log, St.init]⟩
    generalize topRun P (.seqCons P.onStart (.seqCons (.emit (.exTop .start)) .seqNil))
      (St.init.log (.enTop .start)) = r at this ⊢
    obtain ⟨st', o⟩ := r
    cases o with
    | ok => exact drain_extends _ _ _ this
    | err e => exact this
  obtain ⟨new, hn⟩ := key
  rw [hn]; simp

/-- Nothing is executed for an agent that is not running. -/
theorem apiLine_dead (a : Agent) (hp : a.phase ≠ .running) (line : String) :
    (apiLine (some a) line).1 = some a ∨ (∃ ps, words line = "agent" :: ps) := by
  unfold apiLine
  split
  · right; exact ⟨_, by assumption⟩
  · left; simp [hp]
  · left
    split
    · simp_all
    · rfl
  · left
    split
    · simp_all
    · rfl

end SwimVerif.Handlers
