import SwimVerif.Model.LinksSys
import SwimVerif.Proofs.AssocList

set_option linter.unusedSimpArgs false
set_option linter.unusedVariables false
namespace SwimVerif.WT

/-- The lane part: every lane with a reporter reports the size of its remote set. -/
def LaneOk (l : Links) : Prop :=
  ∀ id e, alGet l.forward id = some e → e.hasReporter = true →
    ∃ c, alGet l.lane id = some c ∧ c.links = e.remotes.length

/-- Reported = actual, lane by lane and in aggregate. -/
structure RInv (l : Links) : Prop where
  lane : LaneOk l
  agg : l.hasAgg = true → l.agg.links = l.total

theorem rinv_init (a : Bool) : RInv { hasAgg := a } := by
  constructor
  · intro id e h; simp [alGet] at h
  · intro _; rfl

/-! field lemmas -/

@[simp] theorem setLaneLinks_forward (l : Links) (id n : Nat) : (l.setLaneLinks id n).forward = l.forward := rfl
@[simp] theorem setLaneLinks_total (l : Links) (id n : Nat) : (l.setLaneLinks id n).total = l.total := rfl
@[simp] theorem setLaneLinks_hasAgg (l : Links) (id n : Nat) : (l.setLaneLinks id n).hasAgg = l.hasAgg := rfl
@[simp] theorem setLaneLinks_agg (l : Links) (id n : Nat) : (l.setLaneLinks id n).agg = l.agg := rfl
@[simp] theorem setLaneLinks_backwards (l : Links) (id n : Nat) : (l.setLaneLinks id n).backwards = l.backwards := rfl

theorem setLaneLinks_lane (l : Links) (id n id' : Nat) :
    alGet (l.setLaneLinks id n).lane id' =
      if id = id' then some { (alGet l.lane id).getD {} with links := n } else alGet l.lane id' := by
  simp [Links.setLaneLinks, alGet_alSet]

@[simp] theorem setAgg_forward (l : Links) : l.setAgg.forward = l.forward := by unfold Links.setAgg; split <;> rfl
@[simp] theorem setAgg_lane (l : Links) : l.setAgg.lane = l.lane := by unfold Links.setAgg; split <;> rfl
@[simp] theorem setAgg_total (l : Links) : l.setAgg.total = l.total := by unfold Links.setAgg; split <;> rfl
@[simp] theorem setAgg_hasAgg (l : Links) : l.setAgg.hasAgg = l.hasAgg := by unfold Links.setAgg; split <;> rfl
@[simp] theorem setAgg_backwards (l : Links) : l.setAgg.backwards = l.backwards := by unfold Links.setAgg; split <;> rfl
theorem setAgg_agg (l : Links) (h : l.hasAgg = true) : l.setAgg.agg.links = l.total := by
  unfold Links.setAgg; simp [h]

/-- `setAgg` re-establishes the aggregate part whatever happened to `total`, and keeps the lane part. -/
theorem rinv_setAgg {l : Links} (h : LaneOk l) : RInv l.setAgg := by
  constructor
  · intro id e he hr
    rw [setAgg_forward] at he
    rw [setAgg_lane]
    exact h id e he hr
  · intro ha
    rw [setAgg_hasAgg] at ha
    rw [setAgg_agg l ha, setAgg_total]

/-- Updating one forward entry (and, if it has a reporter, its reported count) keeps the lane part. -/
theorem lane_part_updEntry {l : Links} (h : LaneOk l) (id : Nat) (e' : LaneLinks) (t : Nat) :
    LaneOk (l.updEntry id e' t) := by
  intro id2 e2 he hr
  unfold Links.updEntry at he ⊢
  simp only [] at he ⊢
  by_cases hrp : e'.hasReporter = true
  · rw [if_pos hrp] at he ⊢
    rw [setLaneLinks_forward] at he
    simp only [alGet_alSet] at he
    rw [setLaneLinks_lane]
    by_cases hid : id = id2
    · subst hid
      simp only [if_true] at he ⊢
      have : e2 = e' := (Option.some.inj he).symm
      subst this
      exact ⟨_, rfl, rfl⟩
    · simp only [hid, if_false] at he ⊢
      exact h id2 e2 he hr
  · rw [if_neg hrp] at he ⊢
    simp only [alGet_alSet] at he
    by_cases hid : id = id2
    · subst hid
      simp only [if_true] at he
      have : e2 = e' := (Option.some.inj he).symm
      subst this
      exact absurd hr hrp
    · simp only [hid, if_false] at he
      exact h id2 e2 he hr

theorem rinv_congr {l l' : Links} (h : RInv l) (hf : l'.forward = l.forward) (hl : l'.lane = l.lane)
    (ha : l'.hasAgg = l.hasAgg) (hg : l'.agg = l.agg) (ht : l'.total = l.total) : RInv l' := by
  constructor
  · intro id e he hr; rw [hf] at he; rw [hl]; exact h.lane id e he hr
  · intro hh; rw [ha] at hh; rw [hg, ht]; exact h.agg hh

theorem getD_forward_hasReporter {l : Links} {id : Nat} (hr : ((alGet l.forward id).getD {}).hasReporter = true) :
    alGet l.forward id = some ((alGet l.forward id).getD {}) := by
  cases hg : alGet l.forward id with
  | none => simp [hg] at hr
  | some e => simp

theorem lane_part_addRemote {l : Links} (h : LaneOk l) (id r : Nat) : LaneOk (l.addRemote id r) := by
  unfold Links.addRemote
  split
  · intro id2 e2 he hr
    simp only [alGet_alSet] at he
    by_cases hid : id = id2
    · subst hid
      simp only [if_true] at he
      have : e2 = _ := (Option.some.inj he).symm
      subst this
      exact h id _ (getD_forward_hasReporter hr) hr
    · simp only [hid, if_false] at he
      exact h id2 e2 he hr
  · exact lane_part_updEntry h id _ _

theorem rinv_insert {l : Links} (h : RInv l) (id r : Nat) : RInv (l.insert id r) :=
  rinv_congr (rinv_setAgg (lane_part_addRemote h.lane id r)) rfl rfl rfl rfl rfl

theorem laneOk_removeFromLane {l : Links} (h : LaneOk l) (id r : Nat) : LaneOk (l.removeFromLane id r) := by
  unfold Links.removeFromLane
  split
  · exact h
  · split
    · exact lane_part_updEntry h id _ _
    · exact h

theorem laneOk_congr {l l' : Links} (h : LaneOk l) (hf : l'.forward = l.forward) (hl : l'.lane = l.lane) :
    LaneOk l' := by
  intro id e he hr; rw [hf] at he; rw [hl]; exact h id e he hr

theorem rinv_removeCore {l : Links} (h : RInv l) (id r : Nat) : RInv (l.removeCore id r) := by
  unfold Links.removeCore
  split
  · exact rinv_setAgg (laneOk_removeFromLane h.lane id r)
  · exact h

theorem rinv_remove {l : Links} (h : RInv l) (id r : Nat) : RInv (l.remove id r).1 := by
  unfold Links.remove
  split
  · split
    · exact rinv_congr (rinv_removeCore h id r) rfl rfl rfl rfl rfl
    · exact rinv_congr (rinv_removeCore h id r) rfl rfl rfl rfl rfl
  · exact rinv_removeCore h id r

theorem laneOk_foldl_remove (lanes : List Nat) (r : Nat) : ∀ (l : Links), LaneOk l →
    LaneOk (lanes.foldl (fun acc id => acc.removeFromLane id r) l) := by
  induction lanes with
  | nil => intro l h; exact h
  | cons id rest ih => intro l h; exact ih _ (laneOk_removeFromLane h id r)

theorem rinv_removeRemote {l : Links} (h : RInv l) (r : Nat) : RInv (l.removeRemote r) := by
  unfold Links.removeRemote
  apply rinv_setAgg
  apply laneOk_foldl_remove
  exact laneOk_congr h.lane rfl rfl

/-! `remove_lane` -/

theorem laneOk_eraseForward {l : Links} (h : LaneOk l) (id : Nat) (t : Nat) :
    LaneOk { l with forward := alErase l.forward id, total := t } := by
  intro id2 e2 he hr
  simp only [alGet_alErase] at he
  split at he
  · simp at he
  · exact h id2 e2 he hr

theorem laneOk_setLaneLinks_absent {l : Links} (h : LaneOk l) (id n : Nat) (ha : alGet l.forward id = none) :
    LaneOk (l.setLaneLinks id n) := by
  intro id2 e2 he hr
  rw [setLaneLinks_forward] at he
  rw [setLaneLinks_lane]
  by_cases hid : id = id2
  · subst hid; rw [ha] at he; simp at he
  · simp only [hid, if_false]; exact h id2 e2 he hr

theorem unlinkBack_fields (id : Nat) (acc : Links × List (Nat × Bool)) (r : Nat) :
    (unlinkBack id acc r).1.forward = acc.1.forward ∧ (unlinkBack id acc r).1.lane = acc.1.lane ∧
    (unlinkBack id acc r).1.hasAgg = acc.1.hasAgg ∧ (unlinkBack id acc r).1.agg = acc.1.agg ∧
    (unlinkBack id acc r).1.total = acc.1.total := by
  unfold unlinkBack
  split
  · split <;> exact ⟨rfl, rfl, rfl, rfl, rfl⟩
  · exact ⟨rfl, rfl, rfl, rfl, rfl⟩

theorem removeLane_fold_fields (id : Nat) (rs : List Nat) : ∀ (acc : Links × List (Nat × Bool)),
    (rs.foldl (unlinkBack id) acc).1.forward = acc.1.forward ∧ (rs.foldl (unlinkBack id) acc).1.lane = acc.1.lane ∧
    (rs.foldl (unlinkBack id) acc).1.hasAgg = acc.1.hasAgg ∧ (rs.foldl (unlinkBack id) acc).1.agg = acc.1.agg ∧
    (rs.foldl (unlinkBack id) acc).1.total = acc.1.total := by
  induction rs with
  | nil => intro acc; exact ⟨rfl, rfl, rfl, rfl, rfl⟩
  | cons r rest ih =>
    intro acc
    simp only [List.foldl]
    have h1 := ih (unlinkBack id acc r)
    have h2 := unlinkBack_fields id acc r
    exact ⟨h1.1.trans h2.1, h1.2.1.trans h2.2.1, h1.2.2.1.trans h2.2.2.1, h1.2.2.2.1.trans h2.2.2.2.1,
      h1.2.2.2.2.trans h2.2.2.2.2⟩

theorem rinv_dropLane {l : Links} (h : RInv l) (id : Nat) (e : LaneLinks) : RInv (l.dropLane id e) := by
  unfold Links.dropLane
  apply rinv_setAgg
  split
  · apply laneOk_setLaneLinks_absent (laneOk_eraseForward h.lane id _)
    simp [alGet_alErase]
  · exact laneOk_eraseForward h.lane id _

theorem rinv_removeLane {l : Links} (h : RInv l) (id : Nat) : RInv (l.removeLane id).1 := by
  unfold Links.removeLane
  split
  · exact h
  · rename_i e he
    have f := removeLane_fold_fields id e.remotes (l.dropLane id e, [])
    exact rinv_congr (rinv_dropLane h id e) f.1 f.2.1 f.2.2.1 f.2.2.2.1 f.2.2.2.2

end SwimVerif.WT
