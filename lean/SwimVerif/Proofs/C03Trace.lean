/-
C03 (map lane): the monitor accepts every trace of the lane model (typed form: operations and frames, not lines).
-/
import SwimVerif.Proofs.C03Write

set_option linter.unusedVariables false
set_option linter.unusedSimpArgs false
namespace SwimVerif.ML

/-- the monitor on one operation and what the lane answered -/
def Mon.stepT (m : Mon) : Op → Option (WriteResult × Option Frame) → Mon × Option String
  | .write, some (_, some f) => m.frameT f
  | .write, _ => (m, m.noDataT)
  | op, _ => (m.opT op, none)

/-- the monitor accepts the model's trace of these operations (typed form of `modelTraceOk`) -/
def traceOkT : St → Mon → List Op → Bool
  | _, _, [] => true
  | s, m, op :: rest =>
    let x := step s op
    let y := m.stepT op x.2
    y.2.isNone && traceOkT x.1 y.1 rest

/-- every sync request comes from a remote that has not requested a sync before -/
def syncIdsFresh : List Nat → List Op → Bool
  | _, [] => true
  | seen, .sync r :: rest => !seen.contains r && syncIdsFresh (r :: seen) rest
  | seen, _ :: rest => syncIdsFresh seen rest

theorem inv_write {s : St} {m : Mon} {seen U : List Nat} (h : Inv s m seen U) :
    (m.stepT .write (step s .write).2).2 = none ∧
    Inv (step s .write).1 (m.stepT .write (step s .write).2).1 seen U := by
  have hpf := popFrame_fuelFor s.content s.wq h.idx
  have := inv_PF (seen := seen) (U := U) hpf m h
  simp only [step]
  cases hx : (popFrame s.content (fuelFor s.wq) s.wq).1 with
  | some f =>
    simp only [Mon.stepT]
    exact this.1 f hx
  | none =>
    simp only [Mon.stepT]
    obtain ⟨hi, he, hs⟩ := this.2 hx
    exact ⟨noData_ok hi he hs, hi⟩

theorem traceOkT_of_inv : ∀ (ops : List Op) (s : St) (m : Mon) (seen U : List Nat), Inv s m seen U →
    syncIdsFresh seen ops = true → U.length + ops.length + 1 ≤ M64 → traceOkT s m ops = true := by
  intro ops
  induction ops with
  | nil => intro s m seen U _ _ _; rfl
  | cons op rest ih =>
    intro s m seen U h hf hl
    simp only [List.length_cons] at hl
    unfold traceOkT
    simp only [Bool.and_eq_true]
    cases op with
    | update k v =>
      refine ⟨rfl, ih _ _ seen (k :: U) (inv_update h k v (by simp only [List.length_cons]; omega)) hf
        (by simp only [List.length_cons]; omega)⟩
    | remove k => exact ⟨rfl, ih _ _ seen U (inv_remove h k (by omega)) hf (by omega)⟩
    | clear => exact ⟨rfl, ih _ _ seen U (inv_clear h) hf (by omega)⟩
    | sync r =>
      simp only [syncIdsFresh, Bool.and_eq_true, Bool.not_eq_true', List.contains_eq_mem, decide_eq_false_iff_not] at hf
      exact ⟨rfl, ih _ _ (r :: seen) U (inv_sync h r hf.1) hf.2 (by omega)⟩
    | write =>
      obtain ⟨h1, h2⟩ := inv_write h
      refine ⟨by rw [h1]; rfl, ih _ _ seen U h2 hf (by omega)⟩
    | dropFirst n => exact ⟨rfl, ih _ _ seen U (inv_dropFirst h n (by omega)) hf (by omega)⟩
    | takeFirst n => exact ⟨rfl, ih _ _ seen U (inv_takeFirst h n (by omega)) hf (by omega)⟩

theorem traceOkT_init (ops : List Op) (hf : syncIdsFresh [] ops = true) (hl : ops.length < M64) :
    traceOkT {} {} ops = true :=
  traceOkT_of_inv ops {} {} [] [] inv_init hf (by simp only [List.length_nil]; omega)

/-- lane and monitor side by side -/
def jointRun : St → Mon → List Op → St × Mon
  | s, m, [] => (s, m)
  | s, m, op :: rest => jointRun (step s op).1 (m.stepT op (step s op).2).1 rest

theorem inv_jointRun : ∀ (ops : List Op) (s : St) (m : Mon) (seen U : List Nat), Inv s m seen U →
    syncIdsFresh seen ops = true → U.length + ops.length + 1 ≤ M64 →
    ∃ seen' U', Inv (jointRun s m ops).1 (jointRun s m ops).2 seen' U' := by
  intro ops
  induction ops with
  | nil => intro s m seen U h _ _; exact ⟨seen, U, h⟩
  | cons op rest ih =>
    intro s m seen U h hf hl
    simp only [List.length_cons] at hl
    unfold jointRun
    cases op with
    | update k v =>
      exact ih _ _ seen (k :: U) (inv_update h k v (by simp only [List.length_cons]; omega)) hf
        (by simp only [List.length_cons]; omega)
    | remove k => exact ih _ _ seen U (inv_remove h k (by omega)) hf (by omega)
    | clear => exact ih _ _ seen U (inv_clear h) hf (by omega)
    | sync r =>
      simp only [syncIdsFresh, Bool.and_eq_true, Bool.not_eq_true', List.contains_eq_mem, decide_eq_false_iff_not] at hf
      exact ih _ _ (r :: seen) U (inv_sync h r hf.1) hf.2 (by omega)
    | write => exact ih _ _ seen U (inv_write h).2 hf (by omega)
    | dropFirst n => exact ih _ _ seen U (inv_dropFirst h n (by omega)) hf (by omega)
    | takeFirst n => exact ih _ _ seen U (inv_takeFirst h n (by omega)) hf (by omega)

end SwimVerif.ML
