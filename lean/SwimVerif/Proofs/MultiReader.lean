/-
Helper lemmas for C11 (multiplexer part): the data view (queues, histories) and per-source FIFO.
-/
import SwimVerif.Model.MultiReader

set_option linter.unusedSimpArgs false
set_option linter.unusedVariables false
namespace SwimVerif.MultiReader

/-! ### the data view: what the sources hold and what was pushed / delivered -/

structure Data where
  qs : List (List Nat)
  pushed : List (Nat × Nat)
  delivered : List (Nat × Nat)

def data (st : St) : Data := ⟨st.sources.map (·.q), st.pushed, st.delivered⟩

def proj (l : List (Nat × Nat)) (s : Nat) : List Nat := (l.filter (fun p => p.1 == s)).map (·.2)

/-- per source: delivered ++ still queued = pushed; histories mention existing sources only -/
structure FifoD (d : Data) : Prop where
  fifo : ∀ s, proj d.delivered s ++ d.qs.getD s [] = proj d.pushed s
  pr : ∀ p ∈ d.pushed, p.1 < d.qs.length
  dr : ∀ p ∈ d.delivered, p.1 < d.qs.length

theorem map_q_modify (l : List Source) (s : Nat) (f : Source → Source) (h : ∀ x, (f x).q = x.q) :
    (l.modify s f).map (·.q) = l.map (·.q) := by
  apply List.ext_getElem?
  intro j
  simp only [List.getElem?_map, List.getElem?_modify]
  cases l[j]? with
  | none => rfl
  | some a => by_cases e : s = j <;> simp [e, h]

theorem data_setSource_waker (st : St) (s : Nat) (f : Source → Source) (h : ∀ x, (f x).q = x.q) :
    data (setSource st s f) = data st := by
  simp [data, setSource, map_q_modify _ _ _ h]

theorem data_slabInsert (st : St) (src : Nat) : data (slabInsert st src).1 = data st := by
  unfold slabInsert
  split
  · rfl
  · split <;> rfl

theorem data_enter (st : St) (c : Nat) : data (enter st c) = data st := rfl

theorem data_advance (fuel : Nat) (st : St) (start : Nat) : data (advance fuel st start).1 = data st := by
  induction fuel generalizing st with
  | zero => rfl
  | succ n ih =>
    unfold advance
    by_cases h1 : (enter st (nextIdx st)).localF ≠ []
    · rw [if_pos h1]; rfl
    · rw [if_neg h1]
      by_cases h2 : start = nextIdx st
      · rw [if_pos h2]; rfl
      · rw [if_neg h2, ih]; rfl

theorem data_popMin (st : St) : data (popMin st).1 = data st := by
  unfold popMin; split <;> rfl

theorem data_flush (st : St) : data (flush st) = data st := by
  unfold flush; split <;> rfl

theorem data_getNext (st : St) : data (getNext st).1 = data st := by
  unfold getNext
  by_cases h1 : st.localF ≠ []
  · rw [if_pos h1, data_popMin]
  · rw [if_neg h1]
    split
    · rw [data_popMin, data_advance, data_flush]
    · rw [data_advance, data_flush]

theorem data_fire (st : St) (s : Nat) : data (fire st s).1 = data st := by
  unfold fire
  split
  · simp [data, setSource, map_q_modify]
  · rfl

theorem getD_modify {α : Type} (l : List α) (i j : Nat) (f : α → α) (d : α) :
    (l.modify i f).getD j d = if i = j ∧ j < l.length then f (l.getD j d) else l.getD j d := by
  simp only [List.getD_eq_getElem?_getD, List.getElem?_modify]
  by_cases h : i = j
  · subst h
    by_cases h2 : i < l.length
    · simp [h2]
    · simp [h2]
  · simp [h]

theorem proj_append (l : List (Nat × Nat)) (p : Nat × Nat) (s : Nat) :
    proj (l ++ [p]) s = if p.1 = s then proj l s ++ [p.2] else proj l s := by
  unfold proj
  rw [List.filter_append, List.map_append]
  by_cases h : p.1 = s <;> simp [h]

theorem proj_nil_of_range (l : List (Nat × Nat)) (n s : Nat) (h : ∀ p ∈ l, p.1 < n) (hs : n ≤ s) : proj l s = [] := by
  unfold proj
  rw [List.map_eq_nil_iff, List.filter_eq_nil_iff]
  intro p hp
  have := h p hp
  simp only [beq_iff_eq]
  omega

/-- `add`: a new source with an empty queue -/
theorem fifo_add_source (d : Data) (h : FifoD d) : FifoD ⟨d.qs ++ [[]], d.pushed, d.delivered⟩ := by
  constructor
  · intro s
    simp only [List.getD_eq_getElem?_getD, List.getElem?_append]
    have := h.fifo s
    simp only [List.getD_eq_getElem?_getD] at this
    by_cases hs : s < d.qs.length
    · simp only [hs, if_true]; exact this
    · simp only [hs, if_false]
      have h1 := proj_nil_of_range d.delivered d.qs.length s h.dr (by omega)
      have h2 := proj_nil_of_range d.pushed d.qs.length s h.pr (by omega)
      rw [h1, h2]
      cases hx : ([[]] : List (List Nat))[s - d.qs.length]? with
      | none => rfl
      | some v =>
        have : v = [] := by
          cases hq : s - d.qs.length with
          | zero => rw [hq] at hx; simpa using hx.symm
          | succ n => rw [hq] at hx; simp at hx
        simp [this]
  · intro p hp; have := h.pr p hp; simp only [List.length_append, List.length_singleton]; omega
  · intro p hp; have := h.dr p hp; simp only [List.length_append, List.length_singleton]; omega

/-- `push`: the item goes to the back of the source's queue and of its pushed history -/
theorem fifo_push (d : Data) (h : FifoD d) (s x : Nat) (hs : s < d.qs.length) :
    FifoD ⟨d.qs.modify s (· ++ [x]), d.pushed ++ [(s, x)], d.delivered⟩ := by
  constructor
  · intro s'
    rw [getD_modify, proj_append]
    have := h.fifo s'
    by_cases e : s = s'
    · subst e
      simp only [hs, and_self, if_true]
      rw [← this, List.append_assoc]
    · simp only [e, false_and, if_false]; exact this
  · intro p hp
    simp only [List.length_modify]
    rw [List.mem_append] at hp
    rcases hp with hp | hp
    · exact h.pr p hp
    · simp only [List.mem_singleton] at hp; subst hp; exact hs
  · intro p hp; simp only [List.length_modify]; exact h.dr p hp

/-- delivery: the head of a source's queue moves to the delivered history -/
theorem fifo_deliver (d : Data) (h : FifoD d) (s x : Nat) (rest : List Nat) (hs : s < d.qs.length)
    (hq : d.qs.getD s [] = x :: rest) :
    FifoD ⟨d.qs.modify s (fun _ => rest), d.pushed, d.delivered ++ [(s, x)]⟩ := by
  constructor
  · intro s'
    rw [getD_modify, proj_append]
    have := h.fifo s'
    by_cases e : s = s'
    · subst e
      simp only [hs, and_self, if_true]
      rw [← this, hq, List.append_assoc]; rfl
    · simp only [e, false_and, if_false]; exact this
  · intro p hp; simp only [List.length_modify]; exact h.pr p hp
  · intro p hp
    simp only [List.length_modify]
    rw [List.mem_append] at hp
    rcases hp with hp | hp
    · exact h.dr p hp
    · simp only [List.mem_singleton] at hp; subst hp; exact hs

def FifoInv (st : St) : Prop := FifoD (data st)

theorem fifoInv_init : FifoInv init := by
  constructor
  · intro s; simp [data, init, proj]
  · intro p hp; simp [data, init] at hp
  · intro p hp; simp [data, init] at hp

theorem data_add (st : St) : data (add st) = ⟨(data st).qs ++ [[]], (data st).pushed, (data st).delivered⟩ := by
  unfold add
  simp only
  split
  · show data (slabInsert _ _).1 = _
    rw [data_slabInsert]; simp [data]
  · show data (slabInsert _ _).1 = _
    rw [data_slabInsert]; simp [data]

theorem fifoInv_add (st : St) (h : FifoInv st) : FifoInv (add st) := by
  unfold FifoInv; rw [data_add]; exact fifo_add_source _ h

theorem fifoInv_addMany (k : Nat) (st : St) (h : FifoInv st) : FifoInv (addMany k st) := by
  induction k generalizing st with
  | zero => exact h
  | succ n ih => exact ih _ (fifoInv_add st h)

theorem data_deliver (st : St) (s idx x : Nat) (rest : List Nat) :
    data (deliver st s idx x rest) =
      ⟨(data st).qs.modify s (fun _ => rest), (data st).pushed, (data st).delivered ++ [(s, x)]⟩ := by
  simp only [data, deliver, setSource]
  congr 1
  apply List.ext_getElem?
  intro j
  simp only [List.getElem?_map, List.getElem?_modify]
  cases st.sources[j]? with
  | none => rfl
  | some a => by_cases e : s = j <;> simp [e]

theorem data_park (st : St) (s idx : Nat) : data (park st s idx) = data st :=
  data_setSource_waker st s (fun src => { src with waker := some (st.cur, idx) }) (fun _ => rfl)

theorem fifoInv_pollNext (fuel : Nat) (st : St) (h : FifoInv st) : FifoInv (pollNext fuel st).1 := by
  induction fuel generalizing st with
  | zero => exact h
  | succ n ih =>
    unfold pollNext
    have hg : FifoInv (getNext st).1 := by unfold FifoInv; rw [data_getNext]; exact h
    generalize (getNext st).1 = st1 at *
    cases (getNext st).2 with
    | none => simp only; split <;> exact hg
    | some idx =>
      simp only
      cases hsl : slabGet st1 (idx + st1.cur * bucketSize) with
      | none => exact ih st1 hg
      | some s =>
        simp only
        cases hq : (st1.sources.getD s {}).q with
        | nil =>
          simp only
          split
          · exact ih _ hg
          · apply ih
            unfold FifoInv
            rw [data_park]; exact hg
        | cons x rest =>
          simp only
          have hq' : (data st1).qs.getD s [] = x :: rest := by
            simp only [data, List.getD_eq_getElem?_getD, List.getElem?_map] at *
            cases hs : st1.sources[s]? with
            | none => simp [hs] at hq
            | some a => simpa [hs] using hq
          have hs : s < (data st1).qs.length := by
            simp only [data, List.length_map]
            rcases Nat.lt_or_ge s st1.sources.length with h' | h'
            · exact h'
            · simp [List.getD_eq_getElem?_getD, List.getElem?_eq_none_iff.mpr h'] at hq
          unfold FifoInv
          rw [data_deliver]
          exact fifo_deliver (data st1) hg s x rest hs hq'

theorem fifoInv_step (st : St) (h : FifoInv st) (op : Op) : FifoInv (step st op).1 := by
  cases op with
  | add => exact fifoInv_add st h
  | addn k => exact fifoInv_addMany k st h
  | push s x =>
    simp only [step]
    split
    · split
      · exact h
      · rename_i hs _
        unfold FifoInv
        rw [data_fire]
        have := fifo_push (data st) h s x (by simpa [data] using hs)
        have e : data { setSource st s (fun src => { src with q := src.q ++ [x] }) with pushed := st.pushed ++ [(s, x)] } =
            ⟨(data st).qs.modify s (· ++ [x]), (data st).pushed ++ [(s, x)], (data st).delivered⟩ := by
          simp only [data, setSource]
          congr 1
          apply List.ext_getElem?
          intro j
          simp only [List.getElem?_map, List.getElem?_modify]
          cases st.sources[j]? with
          | none => rfl
          | some a => by_cases e : s = j <;> simp [e]
        rw [e]; exact this
    · exact h
  | close s =>
    simp only [step]
    split
    · unfold FifoInv
      rw [data_fire, data_setSource_waker st s (fun src => { src with closed := true }) (fun _ => rfl)]; exact h
    · exact h
  | poll =>
    simp only [step, poll]
    have := fifoInv_pollNext (flagCount st + 2) st h
    split <;> (rename_i heq; rw [heq] at this; exact this)
  | empty => exact h

theorem fifoInv_run (st : St) (h : FifoInv st) (ops : List Op) : FifoInv (run st ops) := by
  induction ops generalizing st with
  | nil => exact h
  | cons op ops ih => exact ih _ (fifoInv_step st h op)

end SwimVerif.MultiReader
