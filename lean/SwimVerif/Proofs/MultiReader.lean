/-
Helper lemmas for C11 (multiplexer part).
-/
import SwimVerif.Model.MultiReader

namespace SwimVerif.MultiReader

end SwimVerif.MultiReader
