/-
Map lane `Drop(n)` / `Take(n)` (`drop_or_take` in `Model/MapLane.lean`): the lane's map is kept strictly sorted by key
along every run, and removing the first `n` keys / all keys after the first `n` one by one (each through
`MapStoreInner::remove`) leaves exactly `content.drop n` / `content.take n`.
-/
import SwimVerif.Model.MapLane
import SwimVerif.Proofs.AssocKeys

set_option linter.unusedVariables false
namespace SwimVerif.ML

/-- the lane's map is strictly sorted by key (the `BTreeMap` backing) -/
def KeySorted (c : List (Nat × Nat)) : Prop := (alKeys c).Pairwise (· < ·)

theorem keySorted_nil : KeySorted [] := by simp [KeySorted]

theorem KeySorted.nodup {c : List (Nat × Nat)} (h : KeySorted c) : (alKeys c).Nodup :=
  List.Pairwise.imp (fun hlt => Nat.ne_of_lt hlt) h

theorem mem_keys_insertSorted (k v : Nat) : ∀ (c : List (Nat × Nat)) (x : Nat),
    x ∈ alKeys (insertSorted k v c) → x = k ∨ x ∈ alKeys c := by
  intro c
  induction c with
  | nil => intro x h; simp [insertSorted] at h; exact Or.inl h
  | cons p rest ih =>
    obtain ⟨k', v'⟩ := p
    intro x h
    unfold insertSorted at h
    by_cases h1 : k < k'
    · rw [if_pos h1] at h; simpa using h
    · rw [if_neg h1] at h
      by_cases h2 : k = k'
      · rw [if_pos h2] at h
        simp only [alKeys_cons, List.mem_cons] at h ⊢
        rcases h with h | h
        · exact Or.inl h
        · exact Or.inr (Or.inr h)
      · rw [if_neg h2] at h
        simp only [alKeys_cons, List.mem_cons] at h ⊢
        rcases h with h | h
        · exact Or.inr (Or.inl h)
        · rcases ih x h with h | h
          · exact Or.inl h
          · exact Or.inr (Or.inr h)

theorem keySorted_insertSorted (k v : Nat) : ∀ (c : List (Nat × Nat)), KeySorted c → KeySorted (insertSorted k v c) := by
  intro c
  induction c with
  | nil => intro _; simp [insertSorted, KeySorted]
  | cons p rest ih =>
    obtain ⟨k', v'⟩ := p
    intro h
    have hc : (∀ x, x ∈ alKeys rest → k' < x) ∧ KeySorted rest := by simpa [KeySorted] using h
    unfold insertSorted
    by_cases h1 : k < k'
    · rw [if_pos h1]
      simp only [KeySorted, alKeys_cons, List.pairwise_cons]
      refine ⟨?_, hc.1, hc.2⟩
      intro x hx; simp at hx
      rcases hx with hx | hx
      · omega
      · have := hc.1 x hx; omega
    · rw [if_neg h1]
      by_cases h2 : k = k'
      · rw [if_pos h2]; subst h2
        simp only [KeySorted, alKeys_cons, List.pairwise_cons]
        exact ⟨hc.1, hc.2⟩
      · rw [if_neg h2]
        simp only [KeySorted, alKeys_cons, List.pairwise_cons]
        refine ⟨?_, ih hc.2⟩
        intro x hx
        rcases mem_keys_insertSorted k v rest x hx with hx | hx
        · omega
        · exact hc.1 x hx

theorem keySorted_alErase {c : List (Nat × Nat)} (k : Nat) (h : KeySorted c) : KeySorted (alErase c k) := by
  unfold KeySorted; rw [alKeys_alErase]; exact List.Pairwise.sublist List.filter_sublist h

/-! ### `doRemove` on the map -/

@[simp] theorem pushAct_content (s : St) (a : Act) : (pushAct s a).content = s.content := rfl

theorem doRemove_content (s : St) (k : Nat) : (doRemove s k).content = alErase s.content k := by
  unfold doRemove
  cases hg : alGet s.content k with
  | none => simp only []; exact (alErase_of_not_mem (alGet_eq_none_iff.mp hg)).symm
  | some v => rfl

theorem foldl_doRemove_content : ∀ (ks : List Nat) (s : St),
    (ks.foldl doRemove s).content = ks.foldl alErase s.content := by
  intro ks
  induction ks with
  | nil => intro s; rfl
  | cons k ks ih => intro s; simp only [List.foldl_cons]; rw [ih, doRemove_content]

theorem keySorted_foldl_alErase : ∀ (ks : List Nat) (c : List (Nat × Nat)), KeySorted c → KeySorted (ks.foldl alErase c) := by
  intro ks
  induction ks with
  | nil => intro c h; exact h
  | cons k ks ih => intro c h; exact ih _ (keySorted_alErase k h)

theorem alErase_append (a b : List (Nat × Nat)) (k : Nat) : alErase (a ++ b) k = alErase a k ++ alErase b k := by
  induction a with
  | nil => rfl
  | cons p rest ih =>
    obtain ⟨k', v'⟩ := p
    by_cases h : k' = k <;> simp [alErase, h, ih]

theorem alKeys_append (a b : List (Nat × Nat)) : alKeys (a ++ b) = alKeys a ++ alKeys b := by simp [alKeys]

/-- erasing the keys of a prefix, one by one, leaves the rest -/
theorem foldl_alErase_prefix : ∀ (pre post : List (Nat × Nat)), (alKeys (pre ++ post)).Nodup →
    (alKeys pre).foldl alErase (pre ++ post) = post := by
  intro pre
  induction pre with
  | nil => intro post _; rfl
  | cons p pre ih =>
    obtain ⟨k, v⟩ := p
    intro post hn
    have hn' : k ∉ alKeys (pre ++ post) ∧ (alKeys (pre ++ post)).Nodup := by simpa using hn
    simp only [alKeys_cons, List.foldl_cons, List.cons_append]
    have : alErase ((k, v) :: (pre ++ post)) k = pre ++ post := by
      simp [alErase, alErase_of_not_mem hn'.1]
    rw [this]; exact ih post hn'.2

/-- erasing the keys of a suffix, one by one, leaves the prefix -/
theorem foldl_alErase_suffix (pre : List (Nat × Nat)) : ∀ (post : List (Nat × Nat)), (alKeys (pre ++ post)).Nodup →
    (alKeys post).foldl alErase (pre ++ post) = pre := by
  intro post
  induction post with
  | nil => intro _; simp
  | cons p post ih =>
    obtain ⟨k, v⟩ := p
    intro hn
    rw [alKeys_append, alKeys_cons] at hn
    have h1 : k ∉ alKeys pre := by
      intro hm; exact (List.nodup_append.mp hn).2.2 k hm k (by simp) rfl
    have h2 : k ∉ alKeys post := by
      have := (List.nodup_append.mp hn).2.1; simp at this; exact this.1
    have h3 : (alKeys (pre ++ post)).Nodup := by
      rw [alKeys_append]
      exact hn.sublist (List.Sublist.append_left (List.sublist_cons_self _ _) _)
    simp only [alKeys_cons, List.foldl_cons]
    have : alErase (pre ++ (k, v) :: post) k = pre ++ post := by
      rw [alErase_append, alErase_of_not_mem h1]
      simp [alErase, alErase_of_not_mem h2]
    rw [this]; exact ih h3

theorem dropFirst_content (s : St) (n : Nat) (h : KeySorted s.content) :
    (step s (.dropFirst n)).1.content = s.content.drop n := by
  show ((((s.content.map (·.1)).take n).foldl doRemove s)).content = _
  rw [foldl_doRemove_content, ← List.map_take]
  have := foldl_alErase_prefix (s.content.take n) (s.content.drop n) (by rw [List.take_append_drop]; exact h.nodup)
  rw [List.take_append_drop] at this
  exact this

theorem takeFirst_content (s : St) (n : Nat) (h : KeySorted s.content) :
    (step s (.takeFirst n)).1.content = s.content.take n := by
  show ((((s.content.map (·.1)).drop n).foldl doRemove s)).content = _
  rw [foldl_doRemove_content, ← List.map_drop]
  have := foldl_alErase_suffix (s.content.take n) (s.content.drop n) (by rw [List.take_append_drop]; exact h.nodup)
  rw [List.take_append_drop] at this
  exact this

/-! ### the map stays sorted along every run -/

theorem step_content (s : St) (op : Op) :
    (step s op).1.content =
      match op with
      | .update k v => insertSorted k v s.content
      | .remove k => alErase s.content k
      | .clear => []
      | .sync _ => s.content
      | .write => s.content
      | .dropFirst n => ((s.content.map (·.1)).take n).foldl alErase s.content
      | .takeFirst n => ((s.content.map (·.1)).drop n).foldl alErase s.content := by
  cases op with
  | update k v => rfl
  | remove k => exact doRemove_content s k
  | clear => rfl
  | sync r => rfl
  | write =>
    show (match (popFrame s.content (fuelFor s.wq) s.wq).1 with
      | some f => (({ s with wq := (popFrame s.content (fuelFor s.wq) s.wq).2 } : St),
          some (if (popFrame s.content (fuelFor s.wq) s.wq).2.isEmpty then WriteResult.done else .more, some f))
      | none => ({ s with wq := (popFrame s.content (fuelFor s.wq) s.wq).2 }, some (.noData, none))).1.content = _
    cases (popFrame s.content (fuelFor s.wq) s.wq).1 <;> rfl
  | dropFirst n => exact foldl_doRemove_content _ s
  | takeFirst n => exact foldl_doRemove_content _ s

theorem keySorted_step {s : St} (h : KeySorted s.content) (op : Op) : KeySorted (step s op).1.content := by
  rw [step_content]
  cases op with
  | update k v => exact keySorted_insertSorted k v _ h
  | remove k => exact keySorted_alErase k h
  | clear => exact keySorted_nil
  | sync r => exact h
  | write => exact h
  | dropFirst n => exact keySorted_foldl_alErase _ _ h
  | takeFirst n => exact keySorted_foldl_alErase _ _ h

theorem keySorted_run : ∀ (ops : List Op) (s : St), KeySorted s.content → KeySorted (run s ops).content := by
  intro ops
  induction ops with
  | nil => intro s h; exact h
  | cons op ops ih => intro s h; exact ih _ (keySorted_step h op)

end SwimVerif.ML
