/-
C15, mixed layouts (an attribute body explicit on one side, implicit on the other): the relation between the two
validators' stacks that `<ValueValidator as PartialEq>::eq` cannot see (`SR`), and the single iterations of
`incremental_compare` (match, skip `StartBody`, skip `EndRecord`, skip both) as lemmas about `Ok`.
-/
import SwimVerif.Proofs.ReconEqCongr

namespace SwimVerif.ReconEq
open SwimVerif.Recon

/-- Stacks bottom first: equal, except that where one side has an attribute builder holding the items `c`, the other
may have an empty attribute builder with a `NoKey` builder holding `c` above it (the explicit body record). -/
inductive SRb : List BuilderState → List BuilderState → Prop
  | nil : SRb [] []
  | same (f : BuilderState) {s t : List BuilderState} : SRb s t → SRb (f :: s) (f :: t)
  | left (c : ItemCollection) {s t : List BuilderState} :
      SRb s t → SRb (F .attr true 0 {} :: F .noKey true 0 c :: s) (F .attr true 0 c :: t)
  | right (c : ItemCollection) {s t : List BuilderState} :
      SRb s t → SRb (F .attr true 0 c :: s) (F .attr true 0 {} :: F .noKey true 0 c :: t)

theorem SRb_refl : (l : List BuilderState) → SRb l l
  | [] => .nil
  | f :: l => .same f (SRb_refl l)

theorem SRb_symm {l m : List BuilderState} (h : SRb l m) : SRb m l := by
  induction h with
  | nil => exact .nil
  | same f _ ih => exact .same f ih
  | left c _ ih => exact .right c ih
  | right c _ ih => exact .left c ih

theorem SRb_append {a b c d : List BuilderState} (h : SRb a b) (h' : SRb c d) : SRb (a ++ c) (b ++ d) := by
  induction h with
  | nil => exact h'
  | same f _ ih => exact .same f ih
  | left c _ ih => exact .left c ih
  | right c _ ih => exact .right c ih

theorem absorb_SRb {l m : List BuilderState} (h : SRb l m) : ∀ il al,
    (absorbNoKey l il al).1 = (absorbNoKey m il al).1 ∧ (absorbNoKey l il al).2.1 = (absorbNoKey m il al).2.1 ∧
    SRb (absorbNoKey l il al).2.2 (absorbNoKey m il al).2.2 := by
  induction h with
  | nil => intro il al; exact ⟨rfl, rfl, .nil⟩
  | same f h' ih =>
    intro il al
    by_cases hk : f.key = .noKey
    · simp only [absorbNoKey, hk, ↓reduceIte]
      exact ih _ _
    · simp only [absorbNoKey, hk, ↓reduceIte]
      exact ⟨by first | rfl | trivial, by first | rfl | trivial, .same f h'⟩
  | left c h' _ =>
    intro il al
    exact ⟨rfl, rfl, .left c h'⟩
  | right c h' _ =>
    intro il al
    exact ⟨rfl, rfl, .right c h'⟩

theorem absorb_noKey_cons (c : ItemCollection) (s : List BuilderState) :
    absorbNoKey (F .noKey true 0 c :: s) ({} : ItemCollection).itemsLen 0 = absorbNoKey s c.itemsLen 0 := by
  have h0 : ({} : ItemCollection).itemsLen = 0 := rfl
  simp [absorbNoKey, h0]

theorem stacksEq_SRb (fuel : Nat) : ∀ l m : List BuilderState, SRb l m → stacksEq fuel l m = true := by
  induction fuel with
  | zero => intro l m _; simp [stacksEq]
  | succ n ih =>
    intro l m h
    cases h with
    | nil => simp [stacksEq]
    | same f h' =>
      obtain ⟨h1, h2, h3⟩ := absorb_SRb h' f.items.itemsLen f.attrs
      simp only [stacksEq, h1, h2, and_self, ↓reduceIte]
      exact ih _ _ h3
    | left c h' =>
      obtain ⟨h1, h2, h3⟩ := absorb_SRb h' c.itemsLen 0
      simp only [stacksEq]
      rw [absorb_noKey_cons]
      simp only [h1, h2, and_self, ↓reduceIte]
      exact ih _ _ h3
    | right c h' =>
      obtain ⟨h1, h2, h3⟩ := absorb_SRb h' c.itemsLen 0
      simp only [stacksEq]
      rw [absorb_noKey_cons]
      simp only [h1, h2, and_self, ↓reduceIte]
      exact ih _ _ h3

/-- The relation on stacks kept top first (as the model keeps them). -/
def SR (s t : List BuilderState) : Prop := SRb s.reverse t.reverse

theorem SR.refl (s : List BuilderState) : SR s s := SRb_refl _

theorem SR.symm {s t : List BuilderState} (h : SR s t) : SR t s := SRb_symm h

theorem SR.same (f : BuilderState) {s t : List BuilderState} (h : SR s t) : SR (f :: s) (f :: t) := by
  unfold SR
  simp only [List.reverse_cons]
  exact SRb_append h (SRb_refl [f])

theorem SR.left (c : ItemCollection) {s t : List BuilderState} (h : SR s t) :
    SR (F .noKey true 0 c :: F .attr true 0 {} :: s) (F .attr true 0 c :: t) := by
  unfold SR
  simp only [List.reverse_cons, List.append_assoc, List.cons_append, List.nil_append]
  exact SRb_append h (.left c .nil)

theorem beq_of_SR {s t : List BuilderState} (sk : Option ValueType) (h : SR s t) : (S s sk).beq (S t sk) = true := by
  unfold VV.beq
  simp only [↓reduceIte]
  exact stacksEq_SRb _ _ _ h

/-! ### `incremental_compare`, one iteration at a time -/

/-- The loop answers `Some(true)` from here (for every sufficient amount of fuel). -/
def Ok (V1 V2 : VV) (a b : List Event) : Prop :=
  ∀ fuel, a.length + b.length < fuel → cmpLoop fuel V1 V2 (a.map .ev) (b.map .ev) = some true

theorem Ok.symm {V1 V2 : VV} {a b : List Event} (h : Ok V1 V2 a b) : Ok V2 V1 b a := by
  intro fuel hf
  rw [cmpLoop_symm]
  exact h fuel (by omega)

theorem Ok_nil {V1 V2 : VV} (h : V1.beq V2 = true) : Ok V1 V2 [] [] := by
  intro fuel hf
  cases fuel with
  | zero => omega
  | succ n => simp [cmpLoop, h]

theorem afterIter_of_beq {V1 V2 : VV} (h : V1.beq V2 = true) : afterIter V1 V2 = none := by
  unfold afterIter; simp [h]

theorem Ok_match {V1 V2 : VV} {e1 e2 : Event} {a b : List Event} (he : e1.beq e2 = true)
    (hb : (V1.feed e1).1.beq (V2.feed e2).1 = true) (hk : Ok (V1.feed e1).1 (V2.feed e2).1 a b) :
    Ok V1 V2 (e1 :: a) (e2 :: b) := by
  intro fuel hf
  cases fuel with
  | zero => omega
  | succ n =>
    simp only [List.map_cons, cmpLoop, he, ↓reduceIte]
    rw [afterIter_of_beq hb]
    exact hk n (by simp at hf; omega)

theorem isBrace_false {e : Event} (h : e.isBrace = false) : e.beq .startBody = false ∧ e.beq .endRecord = false := by
  simpa [Event.isBrace] using h

/-- Only an `EndRecord` can complete a value. -/
theorem feed_snd_none (V : VV) (e : Event) (h : e.beq .endRecord = false) : (V.feed e).2 = none := by
  cases e <;> simp [Event.beq] at h <;> (unfold VV.feed; repeat' split) <;> first | rfl | simp_all [Event.isPrim]

/-- One iteration that skips a `StartBody` on the left and then matches. -/
theorem Ok_skipSB_left {V1 V2 : VV} {e1 e2 : Event} {a b : List Event} (h1 : e1.isBrace = false)
    (h2 : e2.isBrace = false) (he : e1.beq e2 = true)
    (hb : ((V1.feed .startBody).1.feed e1).1.beq (V2.feed e2).1 = true)
    (hk : Ok ((V1.feed .startBody).1.feed e1).1 (V2.feed e2).1 a b) :
    Ok V1 V2 (.startBody :: e1 :: a) (e2 :: b) := by
  intro fuel hf
  cases fuel with
  | zero => omega
  | succ n =>
    have b1 := isBrace_false h1
    have b2 := isBrace_false h2
    have hne : Event.beq .startBody e2 = false := by rw [Event.beq_symm]; exact b2.1
    have s1 : skipBoth V1 .startBody (SItem.ev e1 :: a.map .ev) = some ((V1.feed .startBody).1, e1, a.map .ev) := by
      simp [skipBoth, skipIf, Event.beq_refl, b1.2]
    have s2 : skipBoth V2 e2 (b.map .ev) = some (V2, e2, b.map .ev) := by
      simp [skipBoth, skipIf, b2.1, b2.2]
    simp only [List.map_cons, cmpLoop, hne, Bool.false_eq_true, ↓reduceIte, s1, s2, he]
    rw [feed_snd_none _ e1 b1.2, feed_snd_none _ e2 b2.2, afterIter_of_beq hb]
    simp only [↓reduceIte]
    exact hk n (by simp at hf; omega)

/-- One iteration that skips an `EndRecord` on the left and then matches. -/
theorem Ok_skipER_left {V1 V2 : VV} {e1 e2 : Event} {a b : List Event} (h1 : e1.isBrace = false)
    (h2 : e2.isBrace = false) (he : e1.beq e2 = true)
    (hb : ((V1.feed .endRecord).1.feed e1).1.beq (V2.feed e2).1 = true)
    (hk : Ok ((V1.feed .endRecord).1.feed e1).1 (V2.feed e2).1 a b) :
    Ok V1 V2 (.endRecord :: e1 :: a) (e2 :: b) := by
  intro fuel hf
  cases fuel with
  | zero => omega
  | succ n =>
    have b1 := isBrace_false h1
    have b2 := isBrace_false h2
    have hne : Event.beq .endRecord e2 = false := by rw [Event.beq_symm]; exact b2.2
    have hsb : Event.beq .endRecord .startBody = false := rfl
    have s1 : skipBoth V1 .endRecord (SItem.ev e1 :: a.map .ev) = some ((V1.feed .endRecord).1, e1, a.map .ev) := by
      simp [skipBoth, skipIf, Event.beq_refl, hsb]
    have s2 : skipBoth V2 e2 (b.map .ev) = some (V2, e2, b.map .ev) := by
      simp [skipBoth, skipIf, b2.1, b2.2]
    simp only [List.map_cons, cmpLoop, hne, Bool.false_eq_true, ↓reduceIte, s1, s2, he]
    rw [feed_snd_none _ e1 b1.2, feed_snd_none _ e2 b2.2, afterIter_of_beq hb]
    simp only [↓reduceIte]
    exact hk n (by simp at hf; omega)

/-- One iteration that skips `StartBody, EndRecord` on the left, `EndRecord` on the right, and then matches. -/
theorem Ok_skip2_left {V1 V2 : VV} {e1 e2 : Event} {a b : List Event} (he : e1.beq e2 = true)
    (hs : (((V1.feed .startBody).1.feed .endRecord).1.feed e1).2 = ((V2.feed .endRecord).1.feed e2).2)
    (hb : (((V1.feed .startBody).1.feed .endRecord).1.feed e1).1.beq ((V2.feed .endRecord).1.feed e2).1 = true)
    (hk : Ok (((V1.feed .startBody).1.feed .endRecord).1.feed e1).1 ((V2.feed .endRecord).1.feed e2).1 a b) :
    Ok V1 V2 (.startBody :: .endRecord :: e1 :: a) (.endRecord :: e2 :: b) := by
  intro fuel hf
  cases fuel with
  | zero => omega
  | succ n =>
    have hne : Event.beq .startBody .endRecord = false := rfl
    have hsb : Event.beq .endRecord .startBody = false := rfl
    have s1 : skipBoth V1 .startBody (SItem.ev .endRecord :: SItem.ev e1 :: a.map .ev)
        = some (((V1.feed .startBody).1.feed .endRecord).1, e1, a.map .ev) := by
      simp [skipBoth, skipIf, Event.beq_refl]
    have s2 : skipBoth V2 .endRecord (SItem.ev e2 :: b.map .ev) = some ((V2.feed .endRecord).1, e2, b.map .ev) := by
      simp [skipBoth, skipIf, Event.beq_refl, hsb]
    simp only [List.map_cons, cmpLoop, hne, Bool.false_eq_true, ↓reduceIte, s1, s2, he]
    rw [if_pos hs, afterIter_of_beq hb]
    exact hk n (by simp at hf; omega)

/-- The next iteration is a plain match (no skip is needed at the head of the two streams). -/
def Ready (V1 V2 : VV) (a b : List Event) : Prop :=
  ∃ e1 e2 a' b', a = e1 :: a' ∧ b = e2 :: b' ∧ e1.beq e2 = true ∧ (V1.feed e1).2 = (V2.feed e2).2 ∧
    (V1.feed e1).1.beq (V2.feed e2).1 = true ∧ Ok (V1.feed e1).1 (V2.feed e2).1 a' b'

theorem Ready.ok {V1 V2 : VV} {a b : List Event} (h : Ready V1 V2 a b) : Ok V1 V2 a b := by
  obtain ⟨e1, e2, a', b', rfl, rfl, he, _, hb, hk⟩ := h
  exact Ok_match he hb hk

theorem Ready_match {V1 V2 : VV} {e1 e2 : Event} {a b : List Event} (he : e1.beq e2 = true)
    (hn : e1.beq .endRecord = false)
    (hb : (V1.feed e1).1.beq (V2.feed e2).1 = true) (hk : Ok (V1.feed e1).1 (V2.feed e2).1 a b) :
    Ready V1 V2 (e1 :: a) (e2 :: b) := by
  refine ⟨e1, e2, a, b, rfl, rfl, he, ?_, hb, hk⟩
  rw [feed_snd_none _ e1 hn, feed_snd_none _ e2 (by rw [← Event.beq_congr e1 e2 _ he]; exact hn)]

end SwimVerif.ReconEq
