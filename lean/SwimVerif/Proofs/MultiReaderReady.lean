/-
C11 (multiplexer part): the readiness invariant of `MultiReader` — a registered stream that has something to
deliver always has its flag set somewhere (local, queue or bucket flags); a stream without a flag holds the waker
that will set it.
-/
import SwimVerif.Proofs.MultiReader

set_option linter.unusedSimpArgs false
set_option linter.unusedVariables false
namespace SwimVerif.MultiReader

/-! ### flag sets -/

theorem mem_fInsert (s : List Nat) (i j : Nat) : j ∈ fInsert s i ↔ j = i ∨ j ∈ s := by
  unfold fInsert
  by_cases h : s.contains i = true
  · rw [if_pos h]
    constructor
    · intro hj; exact Or.inr hj
    · rintro (rfl | hj)
      · simpa using h
      · exact hj
  · rw [if_neg h]; simp

theorem mem_fUnion (s t : List Nat) (j : Nat) : j ∈ fUnion s t ↔ j ∈ s ∨ j ∈ t := by
  unfold fUnion
  induction t generalizing s with
  | nil => simp
  | cons x xs ih =>
    simp only [List.foldl_cons, ih, mem_fInsert, List.mem_cons]
    constructor
    · rintro ((rfl | h) | h)
      · exact Or.inr (Or.inl rfl)
      · exact Or.inl h
      · exact Or.inr (Or.inr h)
    · rintro (h | rfl | h)
      · exact Or.inl (Or.inr h)
      · exact Or.inl (Or.inl rfl)
      · exact Or.inr h

theorem mem_fErase (s : List Nat) (i j : Nat) : j ∈ fErase s i ↔ j ∈ s ∧ j ≠ i := by
  simp [fErase]

theorem fMin_mem (s : List Nat) (i : Nat) (h : fMin s = some i) : i ∈ s := by
  induction s generalizing i with
  | nil => simp [fMin] at h
  | cons x xs ih =>
    unfold fMin at h
    cases hm : fMin xs with
    | none => simp [hm] at h; subst h; simp
    | some m =>
      simp only [hm, Option.some.injEq] at h
      have := ih m hm
      rcases Nat.le_total x m with hle | hle
      · rw [Nat.min_eq_left hle] at h; subst h; simp
      · rw [Nat.min_eq_right hle] at h; subst h; exact List.mem_cons_of_mem _ this

theorem fMin_none (s : List Nat) (h : fMin s = none) : s = [] := by
  cases s with
  | nil => rfl
  | cons x xs => unfold fMin at h; cases hm : fMin xs <;> simp [hm] at h

theorem getD_set_list (l : List (List Nat)) (c b : Nat) :
    (l.set c []).getD b [] = if c = b then [] else l.getD b [] := by
  simp only [List.getD_eq_getElem?_getD, List.getElem?_set]
  by_cases h : c = b
  · subst h
    by_cases h2 : c < l.length <;> simp [h2]
  · simp [h]


theorem getD_modify_list (l : List (List Nat)) (c b : Nat) (f : List Nat → List Nat) :
    (l.modify c f).getD b [] = if c = b ∧ b < l.length then f (l.getD b []) else l.getD b [] :=
  getD_modify l c b f []

/-! ### the invariant -/

theorem hB : bucketSize = 64 := rfl

/-- stream (bucket `b`, index `i`) will be polled: its bit is in the bucket's flags, or the bucket is the current
one and the bit is in the local or the queue flags -/
def flagged (st : St) (b i : Nat) : Prop :=
  i ∈ st.buckets.getD b [] ∨ (b = st.cur ∧ (i ∈ st.localF ∨ i ∈ st.queueF))

/-- the source at key `k` has nothing to deliver and holds the waker that flags `k` -/
def parked (st : St) (k s : Nat) : Prop :=
  (st.sources.getD s {}).waker = some (k / bucketSize, k % bucketSize) ∧
  (st.sources.getD s {}).q = [] ∧ (st.sources.getD s {}).closed = false

/-- well-formedness of the bookkeeping -/
structure WF (st : St) : Prop where
  cur_lt : st.cur < st.buckets.length
  cover : st.entries.length ≤ st.buckets.length * bucketSize
  src_lt : ∀ (k s : Nat), st.entries[k]? = some (Entry.occ s) → s < st.sources.length
  inj : ∀ (k k' s : Nat), st.entries[k]? = some (Entry.occ s) → st.entries[k']? = some (Entry.occ s) → k = k'
  loc_lt : ∀ i ∈ st.localF, i < bucketSize
  que_lt : ∀ i ∈ st.queueF, i < bucketSize
  buc_lt : ∀ b, ∀ i ∈ st.buckets.getD b [], i < bucketSize
  wak_lt : ∀ s b i, (st.sources.getD s {}).waker = some (b, i) → i < bucketSize

/-- every registered stream, except possibly the one at key `ex` (the one being polled), is flagged or parked -/
def Ready (st : St) (ex : Option Nat) : Prop :=
  ∀ (k s : Nat), ex ≠ some k → st.entries[k]? = some (Entry.occ s) →
    flagged st (k / bucketSize) (k % bucketSize) ∨ parked st k s

/-! ### `get_next_stream` -/

theorem wf_enter (st : St) (c : Nat) (h : WF st) (hc : c < st.buckets.length) : WF (enter st c) := by
  refine ⟨?_, ?_, h.src_lt, h.inj, ?_, h.que_lt, ?_, h.wak_lt⟩
  · simp [enter, hc]
  · simp only [enter, List.length_set]; exact h.cover
  · intro i hi; exact h.buc_lt c i hi
  · intro b i hi
    simp only [enter, getD_set_list] at hi
    by_cases e : c = b
    · simp [e] at hi
    · simp only [e, if_false] at hi; exact h.buc_lt b i hi

theorem flagged_enter (st : St) (c b i : Nat) (hl : st.localF = []) (hq : st.queueF = [])
    (hf : flagged st b i) : flagged (enter st c) b i := by
  unfold flagged at *
  rw [hl, hq] at hf
  have hf' : i ∈ st.buckets.getD b [] := by
    rcases hf with h | ⟨_, h | h⟩
    · exact h
    · simp at h
    · simp at h
  by_cases e : c = b
  · subst e; right; exact ⟨rfl, Or.inl hf'⟩
  · left; simp only [enter, getD_set_list, e, if_false]; exact hf'

theorem nextIdx_lt (st : St) (h : st.cur < st.buckets.length) : nextIdx st < st.buckets.length := by
  unfold nextIdx
  split <;> omega

/-- what `advance` keeps and what it may only grow -/
structure Adv (st r : St) : Prop where
  wf : WF r
  entries : r.entries = st.entries
  sources : r.sources = st.sources
  queue : r.queueF = []
  grow : ∀ b i, flagged st b i → flagged r b i

theorem advance_spec (fuel : Nat) (st : St) (start : Nat) (h : WF st) (hl : st.localF = []) (hq : st.queueF = []) :
    Adv st (advance fuel st start).1 := by
  induction fuel generalizing st with
  | zero => exact ⟨h, rfl, rfl, hq, fun _ _ hf => hf⟩
  | succ n ih =>
    have hc := nextIdx_lt st h.cur_lt
    have hwf := wf_enter st (nextIdx st) h hc
    have hgrow : ∀ b i, flagged st b i → flagged (enter st (nextIdx st)) b i :=
      fun b i hf => flagged_enter st _ b i hl hq hf
    have hbase : Adv st (enter st (nextIdx st)) := ⟨hwf, rfl, rfl, hq, hgrow⟩
    unfold advance
    by_cases h1 : (enter st (nextIdx st)).localF ≠ []
    · rw [if_pos h1]; exact hbase
    · rw [if_neg h1]
      by_cases h2 : start = nextIdx st
      · rw [if_pos h2]; exact hbase
      · rw [if_neg h2]
        have hl' : (enter st (nextIdx st)).localF = [] := by simpa using h1
        have r := ih (enter st (nextIdx st)) hwf hl' hq
        exact ⟨r.wf, r.entries, r.sources, r.queue, fun b i hf => r.grow b i (hgrow b i hf)⟩

theorem flush_spec (st : St) (h : WF st) (hl : st.localF = []) :
    WF (flush st) ∧ (flush st).entries = st.entries ∧ (flush st).sources = st.sources ∧
    (flush st).localF = [] ∧ (flush st).queueF = [] ∧ (∀ b i, flagged st b i → flagged (flush st) b i) := by
  unfold flush
  by_cases hq : st.queueF ≠ []
  · rw [if_pos hq]
    refine ⟨⟨?_, ?_, h.src_lt, h.inj, h.loc_lt, ?_, ?_, h.wak_lt⟩, rfl, rfl, hl, rfl, ?_⟩
    · simp only [List.length_modify]; exact h.cur_lt
    · simp only [List.length_modify]; exact h.cover
    · intro i hi; simp at hi
    · intro b i hi
      simp only [getD_modify_list] at hi
      split at hi
      · rw [mem_fUnion] at hi
        rcases hi with hi | hi
        · exact h.buc_lt b i hi
        · exact h.que_lt i hi
      · exact h.buc_lt b i hi
    · intro b i hf
      unfold flagged at *
      simp only [getD_modify_list]
      rcases hf with hf | ⟨e, hf | hf⟩
      · left
        split
        · rw [mem_fUnion]; exact Or.inl hf
        · exact hf
      · right; exact ⟨e, Or.inl hf⟩
      · left
        subst e
        rw [if_pos ⟨rfl, h.cur_lt⟩, mem_fUnion]; exact Or.inr hf
  · rw [if_neg hq]
    have hq' : st.queueF = [] := by simpa using hq
    exact ⟨h, rfl, rfl, hl, hq', fun _ _ hf => hf⟩

/-- `popMin` takes one flag `i` of the current bucket; only stream (cur, i) can lose its flag -/
theorem popMin_spec (st : St) (h : WF st) :
    WF (popMin st).1 ∧ (popMin st).1.entries = st.entries ∧ (popMin st).1.sources = st.sources ∧
    (popMin st).1.cur = st.cur ∧
    (∀ idx, (popMin st).2 = some idx → idx < bucketSize ∧
        ∀ b i, flagged st b i → (b, i) ≠ (st.cur, idx) → flagged (popMin st).1 b i) ∧
    ((popMin st).2 = none → ∀ b i, flagged st b i → flagged (popMin st).1 b i) := by
  unfold popMin
  cases hm : fMin st.localF with
  | none => exact ⟨h, rfl, rfl, rfl, by simp, fun _ _ _ hf => hf⟩
  | some m =>
    have hmem := fMin_mem _ _ hm
    refine ⟨⟨h.cur_lt, h.cover, h.src_lt, h.inj, ?_, h.que_lt, h.buc_lt, h.wak_lt⟩, rfl, rfl, rfl, ?_, by simp⟩
    · intro i hi; rw [mem_fErase] at hi; exact h.loc_lt i hi.1
    · intro idx hidx
      simp only [Option.some.injEq] at hidx
      subst hidx
      refine ⟨h.loc_lt m hmem, ?_⟩
      intro b i hf hne
      unfold flagged at *
      rcases hf with hf | ⟨e, hf | hf⟩
      · exact Or.inl hf
      · right
        refine ⟨e, Or.inl ?_⟩
        rw [mem_fErase]
        refine ⟨hf, ?_⟩
        intro e2; subst e2; subst e; exact hne rfl
      · exact Or.inr ⟨e, Or.inr hf⟩

/-- `get_next_stream`: the bookkeeping stays well-formed, the slab and the sources are untouched, and every stream
keeps its flag except the one that is returned -/
theorem getNext_spec (st : St) (h : WF st) :
    WF (getNext st).1 ∧ (getNext st).1.entries = st.entries ∧ (getNext st).1.sources = st.sources ∧
    (∀ idx, (getNext st).2 = some idx → idx < bucketSize ∧
        ∀ b i, flagged st b i → (b, i) ≠ ((getNext st).1.cur, idx) → flagged (getNext st).1 b i) ∧
    ((getNext st).2 = none → ∀ b i, flagged st b i → flagged (getNext st).1 b i) := by
  unfold getNext
  by_cases h1 : st.localF ≠ []
  · rw [if_pos h1]
    have p := popMin_spec st h
    refine ⟨p.1, p.2.1, p.2.2.1, ?_, p.2.2.2.2.2⟩
    intro idx hidx
    have := p.2.2.2.2.1 idx hidx
    rw [p.2.2.2.1]; exact this
  · rw [if_neg h1]
    have hl : st.localF = [] := by simpa using h1
    have f := flush_spec st h hl
    have a := advance_spec ((flush st).buckets.length + 1) (flush st) (flush st).cur f.1 f.2.2.2.1 f.2.2.2.2.1
    generalize (advance ((flush st).buckets.length + 1) (flush st) (flush st).cur) = r at *
    have grow : ∀ b i, flagged st b i → flagged r.1 b i := fun b i hf => a.grow b i (f.2.2.2.2.2 b i hf)
    by_cases h2 : r.2 = true
    · rw [if_pos h2]
      have p := popMin_spec r.1 a.wf
      refine ⟨p.1, by rw [p.2.1, a.entries, f.2.1], by rw [p.2.2.1, a.sources, f.2.2.1], ?_, ?_⟩
      · intro idx hidx
        have := p.2.2.2.2.1 idx hidx
        rw [p.2.2.2.1]
        exact ⟨this.1, fun b i hf hne => this.2 b i (grow b i hf) hne⟩
      · intro hn b i hf; exact p.2.2.2.2.2 hn b i (grow b i hf)
    · rw [if_neg h2]
      exact ⟨a.wf, by rw [a.entries, f.2.1], by rw [a.sources, f.2.2.1], by simp, fun _ b i hf => grow b i hf⟩


/-! ### `poll_next` -/

theorem slabGet_some (st : St) (key s : Nat) : slabGet st key = some s ↔ st.entries[key]? = some (Entry.occ s) := by
  unfold slabGet
  cases h : st.entries[key]? with
  | none => simp
  | some e => cases e <;> simp

theorem key_split (k cur idx : Nat) (hidx : idx < bucketSize) :
    (k / bucketSize, k % bucketSize) = (cur, idx) ↔ k = idx + cur * bucketSize := by
  simp only [hB] at *
  constructor
  · intro h
    simp only [Prod.mk.injEq] at h
    omega
  · intro h
    subst h
    simp only [Prod.mk.injEq]
    omega

theorem parked_congr (st st' : St) (k s : Nat) (h : st'.sources.getD s {} = st.sources.getD s {}) :
    parked st' k s ↔ parked st k s := by
  unfold parked; rw [h]

theorem pollNext_inv (fuel : Nat) (st : St) (hw : WF st) (hr : Ready st none) :
    WF (pollNext fuel st).1 ∧ Ready (pollNext fuel st).1 none := by
  induction fuel generalizing st with
  | zero => exact ⟨hw, hr⟩
  | succ n ih =>
    unfold pollNext
    have g := getNext_spec st hw
    generalize hgs : (getNext st).1 = st1 at *
    generalize hgo : (getNext st).2 = o at *
    obtain ⟨gw, ge, gs, gsome, gnone⟩ := g
    cases o with
    | none =>
      have hr1 : Ready st1 none := by
        intro k s _ hk
        rw [ge] at hk
        rcases hr k s (by simp) hk with hf | hp
        · exact Or.inl (gnone rfl _ _ hf)
        · exact Or.inr ((parked_congr st st1 k s (by rw [gs])).mpr hp)
      simp only
      split <;> exact ⟨gw, hr1⟩
    | some idx =>
      simp only
      obtain ⟨hidx, hkeep⟩ := gsome idx rfl
      -- every stream but the returned one is still flagged or parked
      have hr1 : Ready st1 (some (idx + st1.cur * bucketSize)) := by
        intro k s hne hk
        rw [ge] at hk
        rcases hr k s (by simp) hk with hf | hp
        · left
          apply hkeep _ _ hf
          intro e
          rw [key_split k st1.cur idx hidx] at e
          exact hne (by rw [e])
        · exact Or.inr ((parked_congr st st1 k s (by rw [gs])).mpr hp)
      cases hsl : slabGet st1 (idx + st1.cur * bucketSize) with
      | none =>
        simp only
        apply ih st1 gw
        intro k s _ hk
        by_cases e : k = idx + st1.cur * bucketSize
        · subst e
          rw [← slabGet_some] at hk
          rw [hk] at hsl; cases hsl
        · exact hr1 k s (by intro h; cases h; exact e rfl) hk
      | some s =>
        simp only
        have hocc : st1.entries[idx + st1.cur * bucketSize]? = some (Entry.occ s) := (slabGet_some _ _ _).mp hsl
        have hother : ∀ k s', k ≠ idx + st1.cur * bucketSize → st1.entries[k]? = some (Entry.occ s') → s' ≠ s := by
          intro k s' hne hk e
          subst e
          exact hne (gw.inj _ _ _ hk hocc)
        cases hq : (st1.sources.getD s {}).q with
        | cons x rest =>
          simp only
          constructor
          · refine ⟨gw.cur_lt, gw.cover, ?_, gw.inj, gw.loc_lt, ?_, gw.buc_lt, ?_⟩
            · intro k s' hk
              simp only [deliver, setSource, List.length_modify]
              exact gw.src_lt k s' hk
            · intro i hi
              simp only [deliver, mem_fInsert] at hi
              rcases hi with rfl | hi
              · exact hidx
              · exact gw.que_lt i hi
            · intro s' b i hwk
              simp only [deliver, setSource, getD_modify] at hwk
              split at hwk
              · exact gw.wak_lt s' b i hwk
              · exact gw.wak_lt s' b i hwk
          · intro k s' _ hk
            have hk' : st1.entries[k]? = some (Entry.occ s') := hk
            by_cases e : k = idx + st1.cur * bucketSize
            · left
              have := (key_split k st1.cur idx hidx).mpr e
              simp only [Prod.mk.injEq] at this
              unfold flagged
              right
              refine ⟨this.1, Or.inr ?_⟩
              simp only [deliver, mem_fInsert]
              exact Or.inl this.2
            · have hs' := hother k s' e hk'
              rcases hr1 k s' (by intro h; cases h; exact e rfl) hk' with hf | hp
              · left
                unfold flagged at *
                rcases hf with hf | ⟨e1, hf | hf⟩
                · exact Or.inl hf
                · exact Or.inr ⟨e1, Or.inl hf⟩
                · right
                  refine ⟨e1, Or.inr ?_⟩
                  simp only [deliver, mem_fInsert]; exact Or.inr hf
              · right
                apply (parked_congr st1 _ k s' _).mpr hp
                simp only [deliver, setSource, getD_modify]
                have : ¬ (s = s' ∧ s' < st1.sources.length) := fun h => hs' h.1.symm
                rw [if_neg this]
        | nil =>
          simp only
          by_cases hcl : (st1.sources.getD s {}).closed = true
          · rw [if_pos hcl]
            apply ih
            · refine ⟨gw.cur_lt, ?_, ?_, ?_, gw.loc_lt, gw.que_lt, gw.buc_lt, gw.wak_lt⟩
              · simp only [slabRemove, List.length_set]; exact gw.cover
              · intro k s' hk
                simp only [slabRemove, List.getElem?_set] at hk
                by_cases e : idx + st1.cur * bucketSize = k
                · simp only [e, if_true] at hk
                  split at hk <;> simp at hk
                · simp only [e, if_false] at hk
                  exact gw.src_lt k s' hk
              · intro k k' s' hk hk'
                simp only [slabRemove, List.getElem?_set] at hk hk'
                by_cases e : idx + st1.cur * bucketSize = k
                · simp only [e, if_true] at hk
                  split at hk <;> simp at hk
                · by_cases e' : idx + st1.cur * bucketSize = k'
                  · simp only [e', if_true] at hk'
                    split at hk' <;> simp at hk'
                  · simp only [e, e', if_false] at hk hk'
                    exact gw.inj k k' s' hk hk'
            · intro k s' _ hk
              simp only [slabRemove, List.getElem?_set] at hk
              by_cases e : idx + st1.cur * bucketSize = k
              · simp only [e, if_true] at hk
                split at hk <;> simp at hk
              · simp only [e, if_false] at hk
                rcases hr1 k s' (by intro h; cases h; exact e rfl) hk with hf | hp
                · exact Or.inl hf
                · exact Or.inr hp
          · rw [if_neg hcl]
            have hcl' : (st1.sources.getD s {}).closed = false := by simpa using hcl
            have hslt : s < st1.sources.length := gw.src_lt _ _ hocc
            apply ih
            · refine ⟨gw.cur_lt, gw.cover, ?_, gw.inj, gw.loc_lt, gw.que_lt, gw.buc_lt, ?_⟩
              · intro k s' hk
                simp only [park, setSource, List.length_modify]
                exact gw.src_lt k s' hk
              · intro s' b i hwk
                simp only [park, setSource, getD_modify] at hwk
                split at hwk
                · simp only [Option.some.injEq, Prod.mk.injEq] at hwk
                  rw [← hwk.2]; exact hidx
                · exact gw.wak_lt s' b i hwk
            · intro k s' _ hk
              have hk' : st1.entries[k]? = some (Entry.occ s') := hk
              by_cases e : k = idx + st1.cur * bucketSize
              · right
                have hss : s' = s := by
                  subst e; rw [hocc] at hk'; cases hk'; rfl
                subst hss
                have hsplit := (key_split k st1.cur idx hidx).mpr e
                simp only [Prod.mk.injEq] at hsplit
                unfold parked
                simp only [park, setSource, getD_modify, hslt, and_self, if_true]
                refine ⟨?_, hq, hcl'⟩
                rw [hsplit.1, hsplit.2]
              · have hs' := hother k s' e hk'
                rcases hr1 k s' (by intro h; cases h; exact e rfl) hk' with hf | hp
                · exact Or.inl hf
                · right
                  apply (parked_congr st1 _ k s' _).mpr hp
                  simp only [park, setSource, getD_modify]
                  have : ¬ (s = s' ∧ s' < st1.sources.length) := fun h => hs' h.1.symm
                  rw [if_neg this]


/-! ### `add` -/

/-- the flag `add` sets for the new key -/
def flagKey (st : St) (key : Nat) : St :=
  if key / bucketSize = st.cur then { st with localF := fInsert st.localF (key % bucketSize) }
  else { st with buckets := bucketSet st.buckets (key / bucketSize) (key % bucketSize) }

theorem add_eq (st : St) :
    add st = flagKey (slabInsert { st with sources := st.sources ++ [{}] } st.sources.length).1
      (slabInsert { st with sources := st.sources ++ [{}] } st.sources.length).2 := rfl

theorem getD_append_default (l : List Source) (s : Nat) :
    (l ++ [({} : Source)]).getD s ({} : Source) = l.getD s ({} : Source) := by
  simp only [List.getD_eq_getElem?_getD, List.getElem?_append]
  by_cases h : s < l.length
  · simp [h]
  · simp only [h, if_false]
    have : l[s]? = none := List.getElem?_eq_none_iff.mpr (by omega)
    rw [this]
    cases hq : s - l.length with
    | zero => simp
    | succ n => simp

theorem mod_lt_B (k : Nat) : k % bucketSize < bucketSize := by simp only [hB]; omega

theorem flagKey_spec (st : St) (key : Nat) (h : WF st) :
    WF (flagKey st key) ∧ (flagKey st key).entries = st.entries ∧ (flagKey st key).sources = st.sources ∧
    (∀ b i, flagged st b i → flagged (flagKey st key) b i) ∧
    (key / bucketSize ≤ st.buckets.length → flagged (flagKey st key) (key / bucketSize) (key % bucketSize)) ∧
    st.buckets.length ≤ (flagKey st key).buckets.length ∧
    (key / bucketSize = st.buckets.length → (flagKey st key).buckets.length = st.buckets.length + 1) := by
  unfold flagKey
  by_cases hc : key / bucketSize = st.cur
  · rw [if_pos hc]
    refine ⟨⟨h.cur_lt, h.cover, h.src_lt, h.inj, ?_, h.que_lt, h.buc_lt, h.wak_lt⟩, rfl, rfl, ?_, ?_, Nat.le_refl _, ?_⟩
    · intro i hi
      rw [mem_fInsert] at hi
      rcases hi with rfl | hi
      · exact mod_lt_B key
      · exact h.loc_lt i hi
    · intro b i hf
      unfold flagged at *
      rcases hf with hf | ⟨e, hf | hf⟩
      · exact Or.inl hf
      · exact Or.inr ⟨e, Or.inl ((mem_fInsert _ _ _).mpr (Or.inr hf))⟩
      · exact Or.inr ⟨e, Or.inr hf⟩
    · intro _
      unfold flagged
      exact Or.inr ⟨hc, Or.inl ((mem_fInsert _ _ _).mpr (Or.inl rfl))⟩
    · intro e; have := h.cur_lt; omega
  · rw [if_neg hc]
    unfold bucketSet
    by_cases hb : key / bucketSize < st.buckets.length
    · rw [if_pos hb]
      refine ⟨⟨?_, ?_, h.src_lt, h.inj, h.loc_lt, h.que_lt, ?_, h.wak_lt⟩, rfl, rfl, ?_, ?_, ?_, ?_⟩
      · simp only [List.length_modify]; exact h.cur_lt
      · simp only [List.length_modify]; exact h.cover
      · intro b i hi
        simp only [getD_modify_list] at hi
        split at hi
        · rw [mem_fInsert] at hi
          rcases hi with rfl | hi
          · exact mod_lt_B key
          · exact h.buc_lt b i hi
        · exact h.buc_lt b i hi
      · intro b i hf
        unfold flagged at *
        rcases hf with hf | hf
        · left
          simp only [getD_modify_list]
          split
          · exact (mem_fInsert _ _ _).mpr (Or.inr hf)
          · exact hf
        · exact Or.inr hf
      · intro _
        unfold flagged
        left
        rw [getD_modify_list, if_pos ⟨rfl, hb⟩]
        exact (mem_fInsert _ _ _).mpr (Or.inl rfl)
      · simp only [List.length_modify]; exact Nat.le_refl _
      · intro e; omega
    · rw [if_neg hb]
      refine ⟨⟨?_, ?_, h.src_lt, h.inj, h.loc_lt, h.que_lt, ?_, h.wak_lt⟩, rfl, rfl, ?_, ?_, ?_, ?_⟩
      · simp only [List.length_append, List.length_singleton]; have := h.cur_lt; omega
      · simp only [List.length_append, List.length_singleton]
        have := h.cover
        simp only [hB] at *
        omega
      · intro b i hi
        simp only [List.getD_eq_getElem?_getD, List.getElem?_append] at hi
        by_cases hbl : b < st.buckets.length
        · simp only [hbl, if_true] at hi
          exact h.buc_lt b i (by simpa [List.getD_eq_getElem?_getD] using hi)
        · simp only [hbl, if_false] at hi
          cases hq : b - st.buckets.length with
          | zero =>
            rw [hq] at hi
            simp at hi
            subst hi; exact mod_lt_B key
          | succ n => rw [hq] at hi; simp at hi
      · intro b i hf
        unfold flagged at *
        rcases hf with hf | hf
        · left
          simp only [List.getD_eq_getElem?_getD, List.getElem?_append] at *
          by_cases hbl : b < st.buckets.length
          · simp only [hbl, if_true]; exact hf
          · have : st.buckets[b]? = none := List.getElem?_eq_none_iff.mpr (by omega)
            rw [this] at hf; simp at hf
        · exact Or.inr hf
      · intro hle
        have e : key / bucketSize = st.buckets.length := by omega
        unfold flagged
        left
        rw [e]
        simp [List.getD_eq_getElem?_getD]
      · simp only [List.length_append, List.length_singleton]; omega
      · intro _; simp only [List.length_append, List.length_singleton]

theorem add_inv (st : St) (hw : WF st) (hr : Ready st none) : WF (add st) ∧ Ready (add st) none := by
  rw [add_eq]
  -- the new (default) source changes no lookup
  have hw0 : WF { st with sources := st.sources ++ [{}] } := by
    refine ⟨hw.cur_lt, hw.cover, ?_, hw.inj, hw.loc_lt, hw.que_lt, hw.buc_lt, ?_⟩
    · intro k s hk
      have := hw.src_lt k s hk
      simp only [List.length_append, List.length_singleton]; omega
    · intro s b i hwk
      simp only [getD_append_default] at hwk
      exact hw.wak_lt s b i hwk
  have hr0 : Ready { st with sources := st.sources ++ [{}] } none := by
    intro k s hne hk
    rcases hr k s hne hk with hf | hp
    · exact Or.inl hf
    · right
      unfold parked at *
      simp only [getD_append_default]; exact hp
  generalize hst0 : ({ st with sources := st.sources ++ [{}] } : St) = st0 at *
  have hlen : st0.sources.length = st.sources.length + 1 := by subst hst0; simp
  have hent : st0.entries = st.entries := by subst hst0; rfl
  have hfresh : ∀ (k s : Nat), st0.entries[k]? = some (Entry.occ s) → s ≠ st.sources.length := by
    intro k s hk e
    rw [hent] at hk
    have := hw.src_lt k s hk
    omega
  unfold slabInsert
  by_cases h1 : st0.next = st0.entries.length
  · -- a new slab slot
    rw [if_pos h1]
    simp only
    generalize hst1 : ({ st0 with entries := st0.entries ++ [Entry.occ st.sources.length], next := st0.next + 1 } : St) = st1
    have hcov := hw0.cover
    have hw1 : WF { st1 with buckets := st1.buckets } → True := fun _ => trivial
    have e1 : st1.entries = st0.entries ++ [Entry.occ st.sources.length] := by subst hst1; rfl
    have eb : st1.buckets = st0.buckets := by subst hst1; rfl
    have es : st1.sources = st0.sources := by subst hst1; rfl
    have ec : st1.cur = st0.cur := by subst hst1; rfl
    have el : st1.localF = st0.localF := by subst hst1; rfl
    have eq : st1.queueF = st0.queueF := by subst hst1; rfl
    -- well-formed except for `cover`, which needs the new bucket
    have hocc1 : ∀ (k s : Nat), st1.entries[k]? = some (Entry.occ s) →
        (k < st0.entries.length ∧ st0.entries[k]? = some (Entry.occ s)) ∨ (k = st0.entries.length ∧ s = st.sources.length) := by
      intro k s hk
      rw [e1, List.getElem?_append] at hk
      by_cases hlt : k < st0.entries.length
      · simp only [hlt, if_true] at hk; exact Or.inl ⟨hlt, hk⟩
      · simp only [hlt, if_false] at hk
        cases hq : k - st0.entries.length with
        | zero => rw [hq] at hk; simp at hk; exact Or.inr ⟨by omega, hk.symm⟩
        | succ n => rw [hq] at hk; simp at hk
    have hflag_eq : ∀ b i, flagged st0 b i ↔ flagged st1 b i := by
      intro b i; unfold flagged; rw [eb, ec, el, eq]
    -- the state before flagging satisfies everything but `cover`
    have hkey_le : st0.next / bucketSize ≤ st1.buckets.length := by
      rw [eb, h1]
      simp only [hB] at *
      omega
    -- build WF of the flagged state by hand (flagKey_spec needs WF of its input; give it a relaxed cover)
    have hw1' : WF { st1 with entries := st0.entries } := by
      refine ⟨?_, ?_, ?_, ?_, ?_, ?_, ?_, ?_⟩
      · show st1.cur < st1.buckets.length; rw [ec, eb]; exact hw0.cur_lt
      · show st0.entries.length ≤ st1.buckets.length * bucketSize; rw [eb]; exact hw0.cover
      · intro k s hk; show s < st1.sources.length; rw [es]; exact hw0.src_lt k s hk
      · exact hw0.inj
      · show ∀ i ∈ st1.localF, _; rw [el]; exact hw0.loc_lt
      · show ∀ i ∈ st1.queueF, _; rw [eq]; exact hw0.que_lt
      · show ∀ b, ∀ i ∈ st1.buckets.getD b [], _; rw [eb]; exact hw0.buc_lt
      · show ∀ s b i, (st1.sources.getD s {}).waker = some (b, i) → _; rw [es]; exact hw0.wak_lt
    have fk := flagKey_spec { st1 with entries := st0.entries } st0.next hw1'
    -- flagKey does not look at the entries
    have hfk_eq : flagKey st1 st0.next = { flagKey { st1 with entries := st0.entries } st0.next with entries := st1.entries } := by
      unfold flagKey
      split <;> rfl
    rw [hfk_eq]
    obtain ⟨fw, fe, fs, fgrow, fnew, flen, flen1⟩ := fk
    generalize hfst : flagKey { st1 with entries := st0.entries } st0.next = fst at *
    constructor
    · refine ⟨fw.cur_lt, ?_, ?_, ?_, fw.loc_lt, fw.que_lt, fw.buc_lt, fw.wak_lt⟩
      · show st1.entries.length ≤ fst.buckets.length * bucketSize
        rw [e1]
        simp only [List.length_append, List.length_singleton]
        have hb1 : (({ st1 with entries := st0.entries } : St)).buckets.length = st0.buckets.length := by
          show st1.buckets.length = _; rw [eb]
        rw [hb1] at flen flen1
        by_cases hnb : st0.next / bucketSize = st0.buckets.length
        · have := flen1 hnb
          simp only [hB] at *
          omega
        · simp only [hB] at *
          omega
      · intro k s hk
        show s < fst.sources.length
        rw [fs]
        show s < st1.sources.length
        rw [es, hlen]
        rcases hocc1 k s hk with ⟨_, h0⟩ | ⟨_, h0⟩
        · have := hw0.src_lt k s h0; omega
        · omega
      · intro k k' s hk hk'
        rcases hocc1 k s hk with ⟨_, h0⟩ | ⟨hk0, hs0⟩
        · rcases hocc1 k' s hk' with ⟨_, h0'⟩ | ⟨_, hs0'⟩
          · exact hw0.inj k k' s h0 h0'
          · exact absurd hs0' (hfresh k s h0)
        · rcases hocc1 k' s hk' with ⟨_, h0'⟩ | ⟨hk0', _⟩
          · exact absurd hs0 (hfresh k' s h0')
          · omega
    · intro k s _ hk
      have hk1 : st1.entries[k]? = some (Entry.occ s) := hk
      rcases hocc1 k s hk1 with ⟨_, h0⟩ | ⟨hk0, _⟩
      · rcases hr0 k s (by simp) h0 with hf | hp
        · left
          have := fgrow _ _ ((hflag_eq _ _).mp hf)
          unfold flagged at *
          exact this
        · right
          unfold parked at *
          show (fst.sources.getD s {}).waker = _ ∧ _
          rw [fs]; show (st1.sources.getD s {}).waker = _ ∧ _
          rw [es]; exact hp
      · left
        have hk' : k = st0.next := by omega
        subst hk'
        have := fnew (by
          show st0.next / bucketSize ≤ st1.buckets.length
          exact hkey_le)
        unfold flagged at *
        exact this
  · rw [if_neg h1]
    cases hv : st0.entries[st0.next]? with
    | none =>
      simp only
      have fk := flagKey_spec st0 st0.next hw0
      obtain ⟨fw, fe, fs, fgrow, _, _, _⟩ := fk
      refine ⟨fw, ?_⟩
      intro k s hne hk
      rw [fe] at hk
      rcases hr0 k s hne hk with hf | hp
      · exact Or.inl (fgrow _ _ hf)
      · right; unfold parked at *; rw [fs]; exact hp
    | some e =>
      cases e with
      | occ s0 =>
        simp only
        have fk := flagKey_spec st0 st0.next hw0
        obtain ⟨fw, fe, fs, fgrow, _, _, _⟩ := fk
        refine ⟨fw, ?_⟩
        intro k s hne hk
        rw [fe] at hk
        rcases hr0 k s hne hk with hf | hp
        · exact Or.inl (fgrow _ _ hf)
        · right; unfold parked at *; rw [fs]; exact hp
      | vac n =>
        simp only
        -- a vacant slot is reused
        have hnlt : st0.next < st0.entries.length := by
          rcases Nat.lt_or_ge st0.next st0.entries.length with h' | h'
          · exact h'
          · rw [List.getElem?_eq_none_iff.mpr h'] at hv; cases hv
        generalize hst1 : ({ st0 with entries := st0.entries.set st0.next (Entry.occ st.sources.length), next := n } : St) = st1
        have e1 : st1.entries = st0.entries.set st0.next (Entry.occ st.sources.length) := by subst hst1; rfl
        have hocc1 : ∀ (k s : Nat), st1.entries[k]? = some (Entry.occ s) →
            (k ≠ st0.next ∧ st0.entries[k]? = some (Entry.occ s)) ∨ (k = st0.next ∧ s = st.sources.length) := by
          intro k s hk
          rw [e1, List.getElem?_set] at hk
          by_cases e : st0.next = k
          · simp only [e, if_true] at hk
            split at hk
            · simp at hk; exact Or.inr ⟨e.symm, hk.symm⟩
            · cases hk
          · simp only [e, if_false] at hk
            exact Or.inl ⟨fun h => e h.symm, hk⟩
        have hw1 : WF st1 := by
          subst hst1
          refine ⟨hw0.cur_lt, ?_, ?_, ?_, hw0.loc_lt, hw0.que_lt, hw0.buc_lt, hw0.wak_lt⟩
          · simp only [List.length_set]; exact hw0.cover
          · intro k s hk
            rcases hocc1 k s hk with ⟨_, h0⟩ | ⟨_, h0⟩
            · exact hw0.src_lt k s h0
            · show s < st0.sources.length; omega
          · intro k k' s hk hk'
            rcases hocc1 k s hk with ⟨_, h0⟩ | ⟨hk0, hs0⟩
            · rcases hocc1 k' s hk' with ⟨_, h0'⟩ | ⟨_, hs0'⟩
              · exact hw0.inj k k' s h0 h0'
              · exact absurd hs0' (hfresh k s h0)
            · rcases hocc1 k' s hk' with ⟨_, h0'⟩ | ⟨hk0', _⟩
              · exact absurd hs0 (hfresh k' s h0')
              · omega
        have fk := flagKey_spec st1 st0.next hw1
        obtain ⟨fw, fe, fs, fgrow, fnew, _, _⟩ := fk
        refine ⟨fw, ?_⟩
        intro k s hne hk
        rw [fe] at hk
        have hflag_eq : ∀ b i, flagged st0 b i → flagged st1 b i := by
          intro b i hf; subst hst1; exact hf
        rcases hocc1 k s hk with ⟨_, h0⟩ | ⟨hk0, _⟩
        · rcases hr0 k s hne h0 with hf | hp
          · exact Or.inl (fgrow _ _ (hflag_eq _ _ hf))
          · right
            unfold parked at *
            rw [fs]; subst hst1; exact hp
        · left
          subst hk0
          apply fnew
          have hcov := hw0.cover
          have : st1.buckets = st0.buckets := by subst hst1; rfl
          rw [this]
          simp only [hB] at *
          omega


/-! ### `push` / `close`: the source changes, then fires the waker it holds -/

theorem waker_setSource (st : St) (s s' : Nat) (f : Source → Source) (hf : ∀ x, (f x).waker = x.waker) :
    ((setSource st s f).sources.getD s' {}).waker = (st.sources.getD s' {}).waker := by
  simp only [setSource, getD_modify]
  split
  · exact hf _
  · rfl

theorem source_setSource_ne (st : St) (s s' : Nat) (f : Source → Source) (h : s ≠ s') :
    (setSource st s f).sources.getD s' {} = st.sources.getD s' {} := by
  simp only [setSource, getD_modify]
  have : ¬ (s = s' ∧ s' < st.sources.length) := fun e => h e.1
  rw [if_neg this]

theorem touch_inv (st : St) (s : Nat) (f : Source → Source) (hf : ∀ x, (f x).waker = x.waker)
    (hw : WF st) (hr : Ready st none) :
    WF (fire (setSource st s f) s).1 ∧ Ready (fire (setSource st s f) s).1 none := by
  have hw1 : WF (setSource st s f) := by
    refine ⟨hw.cur_lt, hw.cover, ?_, hw.inj, hw.loc_lt, hw.que_lt, hw.buc_lt, ?_⟩
    · intro k s' hk
      simp only [setSource, List.length_modify]; exact hw.src_lt k s' hk
    · intro s' b i hwk
      rw [waker_setSource st s s' f hf] at hwk
      exact hw.wak_lt s' b i hwk
  unfold fire
  cases hwk : ((setSource st s f).sources.getD s {}).waker with
  | none =>
    simp only
    refine ⟨hw1, ?_⟩
    intro k s' hne hk
    rcases hr k s' hne hk with hfl | hp
    · exact Or.inl hfl
    · by_cases e : s = s'
      · subst e
        rw [waker_setSource st s s f hf] at hwk
        unfold parked at hp
        rw [hwk] at hp
        cases hp.1
      · right
        unfold parked at *
        rw [source_setSource_ne st s s' f e]; exact hp
  | some p =>
    obtain ⟨b, i⟩ := p
    simp only
    have hilt : i < bucketSize := hw1.wak_lt s b i hwk
    constructor
    · refine ⟨?_, ?_, ?_, hw1.inj, hw1.loc_lt, hw1.que_lt, ?_, ?_⟩
      · simp only [List.length_modify]; exact hw1.cur_lt
      · simp only [List.length_modify]; exact hw1.cover
      · intro k s' hk
        simp only [setSource, List.length_modify]
        exact hw.src_lt k s' hk
      · intro b' j hj
        simp only [getD_modify_list] at hj
        split at hj
        · rw [mem_fInsert] at hj
          rcases hj with rfl | hj
          · exact hilt
          · exact hw1.buc_lt b' j hj
        · exact hw1.buc_lt b' j hj
      · intro s' b' j hwk'
        simp only [setSource, getD_modify] at hwk'
        split at hwk'
        · simp at hwk'
        · split at hwk'
          · exact hw.wak_lt s' b' j (by rw [← hf]; exact hwk')
          · exact hw.wak_lt s' b' j hwk'
    · intro k s' hne hk
      have hk0 : st.entries[k]? = some (Entry.occ s') := hk
      have grow : ∀ b' j, flagged st b' j →
          flagged { setSource (setSource st s f) s (fun src => { src with waker := none }) with
            buckets := (setSource st s f).buckets.modify b (fun fl => fInsert fl i) } b' j := by
        intro b' j hfl
        unfold flagged at *
        rcases hfl with hfl | hfl
        · left
          simp only [getD_modify_list]
          split
          · exact (mem_fInsert _ _ _).mpr (Or.inr hfl)
          · exact hfl
        · exact Or.inr hfl
      rcases hr k s' hne hk0 with hfl | hp
      · exact Or.inl (grow _ _ hfl)
      · by_cases e : s = s'
        · subst e
          left
          rw [waker_setSource st s s f hf] at hwk
          unfold parked at hp
          rw [hwk] at hp
          simp only [Option.some.injEq, Prod.mk.injEq] at hp
          obtain ⟨⟨hb, hi⟩, _, _⟩ := hp
          have hklt : k < st.entries.length := by
            rcases Nat.lt_or_ge k st.entries.length with h' | h'
            · exact h'
            · rw [List.getElem?_eq_none_iff.mpr h'] at hk0; cases hk0
          have hblt : b < st.buckets.length := by
            have := hw.cover
            simp only [hB] at *
            omega
          unfold flagged
          left
          rw [← hb, ← hi]
          show i ∈ ((setSource st s f).buckets.modify b (fun fl => fInsert fl i)).getD b []
          rw [getD_modify_list, if_pos ⟨rfl, by simpa [setSource] using hblt⟩]
          exact (mem_fInsert _ _ _).mpr (Or.inl rfl)
        · right
          unfold parked at *
          have e1 := source_setSource_ne (setSource st s f) s s' (fun src => { src with waker := none }) e
          have e2 := source_setSource_ne st s s' f e
          show ((setSource (setSource st s f) s _).sources.getD s' {}).waker = _ ∧ _
          rw [e1, e2]; exact hp

theorem inv_init : WF init ∧ Ready init none := by
  constructor
  · refine ⟨by decide, by decide, ?_, ?_, ?_, ?_, ?_, ?_⟩
    · intro k s hk; simp [init] at hk
    · intro k k' s hk; simp [init] at hk
    · intro i hi; simp [init] at hi
    · intro i hi; simp [init] at hi
    · intro b i hi
      simp only [init, List.getD_eq_getElem?_getD] at hi
      cases b with
      | zero => simp at hi
      | succ n => simp at hi
    · intro s b i hwk; simp [init] at hwk
  · intro k s _ hk; simp [init] at hk

theorem addMany_inv (k : Nat) (st : St) (hw : WF st) (hr : Ready st none) :
    WF (addMany k st) ∧ Ready (addMany k st) none := by
  induction k generalizing st with
  | zero => exact ⟨hw, hr⟩
  | succ n ih => exact ih _ (add_inv st hw hr).1 (add_inv st hw hr).2

theorem step_inv (st : St) (op : Op) (hw : WF st) (hr : Ready st none) :
    WF (step st op).1 ∧ Ready (step st op).1 none := by
  cases op with
  | add => exact add_inv st hw hr
  | addn k => exact addMany_inv k st hw hr
  | push s x =>
    simp only [step]
    split
    · split
      · exact ⟨hw, hr⟩
      · have := touch_inv st s (fun src => { src with q := src.q ++ [x] }) (fun _ => rfl) hw hr
        -- the ghost field `pushed` plays no role
        have e : fire { setSource st s (fun src => { src with q := src.q ++ [x] }) with pushed := st.pushed ++ [(s, x)] } s =
            ({ (fire (setSource st s (fun src => { src with q := src.q ++ [x] })) s).1 with pushed := st.pushed ++ [(s, x)] },
             (fire (setSource st s (fun src => { src with q := src.q ++ [x] })) s).2) := by
          unfold fire
          simp only [setSource]
          split <;> rfl
        rw [e]
        exact ⟨⟨this.1.cur_lt, this.1.cover, this.1.src_lt, this.1.inj, this.1.loc_lt, this.1.que_lt, this.1.buc_lt,
          this.1.wak_lt⟩, this.2⟩
    · exact ⟨hw, hr⟩
  | close s =>
    simp only [step]
    split
    · exact touch_inv st s (fun src => { src with closed := true }) (fun _ => rfl) hw hr
    · exact ⟨hw, hr⟩
  | poll =>
    simp only [step, poll]
    have := pollNext_inv (flagCount st + 2) st hw hr
    split <;> (rename_i heq; rw [heq] at this; exact this)
  | empty => exact ⟨hw, hr⟩

theorem run_inv (st : St) (ops : List Op) (hw : WF st) (hr : Ready st none) :
    WF (run st ops) ∧ Ready (run st ops) none := by
  induction ops generalizing st with
  | nil => exact ⟨hw, hr⟩
  | cons op ops ih => exact ih _ (step_inv st op hw hr).1 (step_inv st op hw hr).2

end SwimVerif.MultiReader
