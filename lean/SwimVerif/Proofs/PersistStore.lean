/-
Lemmas for C05, store side: the keyed map, `apply_map`, the fold of store operations, and the init protocol
(`ValueInit` / `MapInit` → `value_like_init` / `map_like_init`).
-/
import SwimVerif.Model.Persist
import SwimVerif.Proofs.AssocList

set_option linter.unusedSectionVars false
set_option linter.unusedSimpArgs false
namespace SwimVerif.Persist

section
variable {κ : Type} [DecidableEq κ]

/-! ### keyed map -/

@[simp] theorem kGet_nil (k : κ) : kGet ([] : List (κ × Bytes)) k = none := rfl

theorem kGet_kSet (m : List (κ × Bytes)) (k k' : κ) (v : Bytes) :
    kGet (kSet m k v) k' = if k = k' then some v else kGet m k' := by
  induction m with
  | nil => simp [kSet, kGet]
  | cons p rest ih =>
    obtain ⟨a, b⟩ := p
    by_cases h1 : a = k
    · subst h1
      by_cases h2 : a = k' <;> simp [kSet, kGet, h2]
    · by_cases h2 : a = k'
      · subst h2
        have : ¬ k = a := fun h => h1 h.symm
        simp [kSet, kGet, h1, this]
      · simp [kSet, kGet, h1, h2, ih]

theorem kGet_kErase (m : List (κ × Bytes)) (k k' : κ) :
    kGet (kErase m k) k' = if k = k' then none else kGet m k' := by
  induction m with
  | nil => simp [kErase, kGet]
  | cons p rest ih =>
    obtain ⟨a, b⟩ := p
    by_cases h1 : a = k
    · subst h1
      by_cases h2 : a = k'
      · subst h2; simp [kErase, ih]
      · simp [kErase, kGet, h2, ih]
    · by_cases h2 : a = k'
      · subst h2
        have : ¬ k = a := fun h => h1 h.symm
        simp [kErase, kGet, h1, this]
      · simp [kErase, kGet, h1, h2, ih]

/-- No key occurs twice. -/
def NoDup : List (κ × Bytes) → Prop
  | [] => True
  | p :: rest => kGet rest p.1 = none ∧ NoDup rest

theorem noDup_kSet (m : List (κ × Bytes)) (k : κ) (v : Bytes) (h : NoDup m) : NoDup (kSet m k v) := by
  induction m with
  | nil => simp [kSet, NoDup]
  | cons p rest ih =>
    obtain ⟨a, b⟩ := p
    obtain ⟨h1, h2⟩ := h
    by_cases ha : a = k
    · subst ha
      simpa [kSet, NoDup] using ⟨h1, h2⟩
    · simp only [kSet, ha, ↓reduceIte, NoDup]
      refine ⟨?_, ih h2⟩
      rw [kGet_kSet]
      have : ¬ k = a := fun h => ha h.symm
      simpa [this] using h1

theorem noDup_kErase (m : List (κ × Bytes)) (k : κ) (h : NoDup m) : NoDup (kErase m k) := by
  induction m with
  | nil => simp [kErase, NoDup]
  | cons p rest ih =>
    obtain ⟨a, b⟩ := p
    obtain ⟨h1, h2⟩ := h
    by_cases ha : a = k
    · simpa [kErase, ha] using ih h2
    · simp only [kErase, ha, ↓reduceIte, NoDup]
      refine ⟨?_, ih h2⟩
      rw [kGet_kErase]
      split
      · rfl
      · simpa using h1

theorem noDup_applyK (m : List (κ × Bytes)) (op : KOp κ) (h : NoDup m) : NoDup (applyK m op) := by
  cases op with
  | upd k v => exact noDup_kSet m k v h
  | rem k => exact noDup_kErase m k h
  | clear => simp [applyK, NoDup]

theorem noDup_foldl (ops : List (KOp κ)) (m : List (κ × Bytes)) (h : NoDup m) : NoDup (ops.foldl applyK m) := by
  induction ops generalizing m with
  | nil => exact h
  | cons op rest ih => exact ih _ (noDup_applyK m op h)

/-- `apply_map` on the stored list is the specification step on the map as a function. -/
theorem kGet_applyK (m : List (κ × Bytes)) (op : KOp κ) : kGet (applyK m op) = specApply (kGet m) op := by
  funext k
  cases op with
  | upd k0 v => simp [applyK, specApply, kGet_kSet]
  | rem k0 => simp [applyK, specApply, kGet_kErase]
  | clear => simp [applyK, specApply]

theorem kGet_foldl (ops : List (KOp κ)) (m : List (κ × Bytes)) :
    kGet (ops.foldl applyK m) = ops.foldl specApply (kGet m) := by
  induction ops generalizing m with
  | nil => rfl
  | cons op rest ih => simp only [List.foldl]; rw [ih, kGet_applyK]

/-! ### the fold of store operations, per store id -/

theorem readMap_applyStore (s : StoreState κ) (op : SOp κ) (sid : Nat) :
    (applyStore s op).readMap sid = (mapOpsFor sid [op]).foldl applyK (s.readMap sid) := by
  cases op with
  | put i b => simp [applyStore, StoreState.readMap, mapOpsFor]
  | map i o =>
    by_cases h : i = sid
    · subst h; simp [applyStore, StoreState.readMap, mapOpsFor]
    · simp [applyStore, StoreState.readMap, mapOpsFor, h, alGet_alSet_ne]

theorem mapOpsFor_cons (sid : Nat) (op : SOp κ) (rest : List (SOp κ)) :
    mapOpsFor sid (op :: rest) = mapOpsFor sid [op] ++ mapOpsFor sid rest := by
  cases op with
  | put i b => simp [mapOpsFor]
  | map i o => by_cases h : i = sid <;> simp [mapOpsFor, h]

theorem mapOpsFor_append (sid : Nat) (a b : List (SOp κ)) :
    mapOpsFor sid (a ++ b) = mapOpsFor sid a ++ mapOpsFor sid b := by
  induction a with
  | nil => simp [mapOpsFor]
  | cons op rest ih =>
    rw [List.cons_append, mapOpsFor_cons, ih, mapOpsFor_cons sid op rest, List.append_assoc]

theorem readMap_foldl (ops : List (SOp κ)) (s : StoreState κ) (sid : Nat) :
    (ops.foldl applyStore s).readMap sid = (mapOpsFor sid ops).foldl applyK (s.readMap sid) := by
  induction ops generalizing s with
  | nil => rfl
  | cons op rest ih =>
    simp only [List.foldl]
    rw [ih, readMap_applyStore, mapOpsFor_cons sid op rest, List.foldl_append]

theorem getValue_applyStore (s : StoreState κ) (op : SOp κ) (sid : Nat) :
    (applyStore s op).getValue sid = (lastPut sid [op]).orElse (fun _ => s.getValue sid) := by
  cases op with
  | put i b =>
    by_cases h : i = sid
    · subst h; simp [applyStore, StoreState.getValue, lastPut]
    · simp [applyStore, StoreState.getValue, lastPut, h, alGet_alSet_ne]
  | map i o => simp [applyStore, StoreState.getValue, lastPut]

theorem getValue_foldl (ops : List (SOp κ)) (s : StoreState κ) (sid : Nat) :
    (ops.foldl applyStore s).getValue sid = (lastPut sid ops).orElse (fun _ => s.getValue sid) := by
  induction ops generalizing s with
  | nil => simp [lastPut]
  | cons op rest ih =>
    simp only [List.foldl]
    rw [ih, getValue_applyStore]
    cases op with
    | put i b =>
      cases hl : lastPut sid rest <;> simp [lastPut, hl]
    | map i o => simp [lastPut]

theorem lastPut_append (sid : Nat) (a b : List (SOp κ)) :
    lastPut sid (a ++ b) = (lastPut sid b).orElse (fun _ => lastPut sid a) := by
  induction a with
  | nil => cases h : lastPut sid b <;> simp [lastPut, h]
  | cons op rest ih =>
    cases op with
    | put i v =>
      simp only [List.cons_append, lastPut, ih]
      cases lastPut sid b <;> simp
    | map i o => simpa [lastPut] using ih

@[simp] theorem sid_put (i : Nat) (b : Bytes) : (SOp.put i b : SOp κ).sid = i := rfl
@[simp] theorem sid_map (i : Nat) (o : KOp κ) : (SOp.map i o : SOp κ).sid = i := rfl

theorem lastPut_filter (sid : Nat) (ops : List (SOp κ)) :
    lastPut sid (ops.filter (fun o => o.sid = sid)) = lastPut sid ops := by
  induction ops with
  | nil => rfl
  | cons o rest ih =>
    cases o with
    | put i b =>
      by_cases hi : i = sid
      · simp [List.filter_cons, hi, lastPut, ih]
      · simp only [List.filter_cons, sid_put, hi, decide_false, lastPut, Bool.false_eq_true, ↓reduceIte]
        rw [ih]
        cases lastPut sid rest <;> simp
    | map i o =>
      by_cases hi : i = sid
      · simp [List.filter_cons, hi, lastPut, ih]
      · simp [List.filter_cons, hi, lastPut, ih]

theorem mapOpsFor_filter (sid : Nat) (ops : List (SOp κ)) :
    mapOpsFor sid (ops.filter (fun o => o.sid = sid)) = mapOpsFor sid ops := by
  induction ops with
  | nil => rfl
  | cons o rest ih =>
    cases o with
    | put i b => by_cases hi : i = sid <;> simp [List.filter_cons, hi, mapOpsFor, ih]
    | map i o => by_cases hi : i = sid <;> simp [List.filter_cons, hi, mapOpsFor, ih]

theorem kGet_nil_fun : kGet ([] : List (κ × Bytes)) = fun _ => none := by funext k; rfl

/-! ### the init protocol -/

theorem initStream_commands {μ : Type} (l : List μ) :
    initStream (l.map InitMsg.command ++ [InitMsg.initComplete]) = l := by
  induction l with
  | nil => simp [initStream]
  | cons x rest ih => simp [initStream, ih]

/-- `ValueInit` then `value_like_init` hands the stored value over unchanged. -/
theorem valueLikeInit_valueInitMsgs (stored : Option Bytes) : valueLikeInit (valueInitMsgs stored) = stored := by
  cases stored <;> simp [valueLikeInit, valueInitMsgs, initStream]

omit [DecidableEq κ] in
theorem mapInit_stream (m : List (κ × Bytes)) :
    initStream (mapInitMsgs m) = m.map (fun p => KOp.upd p.1 p.2) := by
  have := initStream_commands (m.map (fun p => KOp.upd p.1 p.2))
  simpa [mapInitMsgs, List.map_map, Function.comp_def] using this

theorem kGet_foldl_updates (m acc : List (κ × Bytes)) (h : NoDup m) (k : κ) :
    kGet ((m.map (fun p => KOp.upd p.1 p.2)).foldl applyK acc) k = (kGet m k).orElse (fun _ => kGet acc k) := by
  induction m generalizing acc with
  | nil => simp
  | cons p rest ih =>
    obtain ⟨a, b⟩ := p
    obtain ⟨h1, h2⟩ := h
    simp only [List.map_cons, List.foldl_cons]
    rw [ih _ h2]
    by_cases ha : a = k
    · subst ha
      simp only [] at h1
      simp [applyK, kGet_kSet, kGet, h1]
    · simp [applyK, kGet_kSet, kGet, ha]

/-- `MapInit` then `map_like_init` rebuilds exactly the stored entries. -/
theorem kGet_mapLikeInit (m : List (κ × Bytes)) (h : NoDup m) (k : κ) :
    kGet (mapLikeInit (mapInitMsgs m)) k = kGet m k := by
  unfold mapLikeInit
  rw [mapInit_stream, kGet_foldl_updates m [] h k]
  cases kGet m k <;> simp

end

end SwimVerif.Persist
