/-
C15: a whole printed document — the run of the automaton from `[Init]` over `print st v`, including the switch to
the final-segment parser when a token or an attribute name ends exactly at the end of the input.
-/
import SwimVerif.Proofs.ReconEqPrinted

namespace SwimVerif.ReconEq
open SwimVerif.Recon

/-! ### streaming versus complete tokens -/

theorem lexIdentM_sc (inp : List Char) :
    (∀ a r, lexIdentM true inp = .ok a r → lexIdentM false inp = .ok a r) ∧
    (lexIdentM true inp = .err → lexIdentM false inp = .err) ∧ lexIdentM false inp ≠ .inc := by
  unfold lexIdentM
  cases inp with
  | nil => simp
  | cons c r =>
    by_cases hc : isIdentStart c = true
    · simp only [hc, ↓reduceIte, Bool.true_and, Bool.false_and, Bool.false_eq_true]
      by_cases he : (r.dropWhile isIdentChar).isEmpty = true
      · simp [he]
      · simp [he]
    · simp [hc]

theorem lexRadixM_sc (tc tC : Char) (isD : Char → Bool) (radix : Nat) (inp : List Char) :
    (∀ a r, lexRadixM true tc tC isD radix inp = .ok a r → lexRadixM false tc tC isD radix inp = .ok a r) ∧
    (lexRadixM true tc tC isD radix inp = .err → lexRadixM false tc tC isD radix inp = .err) ∧
    lexRadixM false tc tC isD radix inp ≠ .inc := by
  unfold lexRadixM
  match (stripSign inp).2 with
  | [] => simp
  | [c] => by_cases hc : c = '0' <;> simp [hc]
  | c :: t :: r' =>
    by_cases hc : c = '0' ∧ (t = tc ∨ t = tC)
    · simp only [hc, and_self, ↓reduceIte]
      cases htw : r'.takeWhile isD with
      | nil => cases hdw : r'.dropWhile isD <;> simp
      | cons d ds => cases hdw : r'.dropWhile isD <;> simp
    · simp [hc]

theorem lexFloatM_sc (inp : List Char) :
    (∀ a r, lexFloatM true inp = .ok a r → lexFloatM false inp = .ok a r) ∧
    (lexFloatM true inp = .err → lexFloatM false inp = .err) ∧ lexFloatM false inp ≠ .inc := by
  unfold lexFloatM
  by_cases hi : fltInc inp = true
  · simp only [hi, Bool.and_self, ↓reduceIte, Bool.false_and, Bool.false_eq_true]
    refine ⟨by simp, by simp, ?_⟩
    split <;> simp
  · simp only [hi, Bool.and_false, Bool.false_eq_true, ↓reduceIte, Bool.false_and]
    split
    · rename_i f rest _
      cases rest <;> simp
    · simp

theorem lexDecimalM_sc (inp : List Char) :
    (∀ a r, lexDecimalM true inp = .ok a r → lexDecimalM false inp = .ok a r) ∧
    (lexDecimalM true inp = .err → lexDecimalM false inp = .err) ∧ lexDecimalM false inp ≠ .inc := by
  obtain ⟨f1, f2, f3⟩ := lexFloatM_sc inp
  unfold lexDecimalM
  cases inp with
  | nil => simp
  | cons a t =>
    simp only
    match (stripSign (a :: t)).2 with
    | [] => simpa using f3
    | x :: r =>
      simp only
      cases htw : (x :: r).takeWhile isDigit with
      | nil => exact ⟨f1, f2, f3⟩
      | cons d ds =>
        cases hdw : (x :: r).dropWhile isDigit with
        | nil => simp
        | cons c rest =>
          simp only
          by_cases hc : c = '.' ∨ c = 'e' ∨ c = 'E'
          · simp only [hc, ↓reduceIte]; exact ⟨f1, f2, f3⟩
          · simp [hc]

theorem lexNumM_sc (inp : List Char) :
    (∀ a r, lexNumM true inp = .ok a r → lexNumM false inp = .ok a r) ∧
    (lexNumM true inp = .err → lexNumM false inp = .err) ∧ lexNumM false inp ≠ .inc := by
  obtain ⟨b1, b2, b3⟩ := lexRadixM_sc 'b' 'B' isBinDigit 2 inp
  obtain ⟨x1, x2, x3⟩ := lexRadixM_sc 'x' 'X' isHexDigit 16 inp
  obtain ⟨d1, d2, d3⟩ := lexDecimalM_sc inp
  unfold lexNumM
  cases inp with
  | nil => simp
  | cons a t =>
    simp only
    cases hb : lexRadixM true 'b' 'B' isBinDigit 2 (a :: t) with
    | ok n r =>
      rw [b1 n r hb]
      simp
    | inc =>
      simp only
      refine ⟨by simp, by simp, ?_⟩
      cases hbf : lexRadixM false 'b' 'B' isBinDigit 2 (a :: t) with
      | ok n r => simp
      | inc => exact absurd hbf b3
      | err =>
        simp only
        cases hxf : lexRadixM false 'x' 'X' isHexDigit 16 (a :: t) with
        | ok n r => simp
        | inc => exact absurd hxf x3
        | err => simpa using d3
    | err =>
      rw [b2 hb]
      simp only
      cases hx : lexRadixM true 'x' 'X' isHexDigit 16 (a :: t) with
      | ok n r => rw [x1 n r hx]; simp
      | inc =>
        simp only
        refine ⟨by simp, by simp, ?_⟩
        cases hxf : lexRadixM false 'x' 'X' isHexDigit 16 (a :: t) with
        | ok n r => simp
        | inc => exact absurd hxf x3
        | err => simpa using d3
      | err => rw [x2 hx]; simp only; exact ⟨d1, d2, d3⟩

theorem lexBlobM_sc (inp : List Char) :
    (∀ a r, lexBlobM true inp = .ok a r → lexBlobM false inp = .ok a r) ∧
    (lexBlobM true inp = .err → lexBlobM false inp = .err) ∧ lexBlobM false inp ≠ .inc := by
  unfold lexBlobM
  cases inp with
  | nil => simp
  | cons c r =>
    by_cases hc : c = '%'
    · simp only [hc, ↓reduceIte, Bool.true_and, Bool.false_and, Bool.false_eq_true]
      by_cases hi : b64Inc (r.length + 1) r = true
      · simp only [hi, ↓reduceIte]
        refine ⟨by simp, by simp, ?_⟩
        split <;> simp
      · simp only [hi, Bool.false_eq_true, ↓reduceIte]
        split <;> simp
    · simp [hc]

/-- The complete token alternative without the string literal (what the final-segment parsers use), as a function of
`lexPrimM false` when the input does not start a string literal. -/
theorem lexPrimFinal_of_complete {inp : List Char} {e : Event} {r : List Char} (hs : lexStr inp = .err)
    (h : lexPrimM false inp = .ok e r) : lexPrimFinal inp = .ok e r := by
  unfold lexPrimM at h
  rw [hs] at h
  simp only at h
  unfold lexPrimFinal
  cases hi : lexIdentM false inp with
  | ok s r' => rw [hi] at h; simpa using h
  | inc => exact absurd hi (lexIdentM_sc inp).2.2
  | err =>
    rw [hi] at h
    simp only at h ⊢
    cases hn : lexNumM false inp with
    | ok n r' => rw [hn] at h; simpa using h
    | inc => exact absurd hn (lexNumM_sc inp).2.2
    | err =>
      rw [hn] at h
      simp only at h ⊢
      cases hb : lexBlobM false inp with
      | ok bs r' => rw [hb] at h; simpa using h
      | inc => exact absurd hb (lexBlobM_sc inp).2.2
      | err => rw [hb] at h; simp at h

/-- A token that the complete lexers read to the very end of the input: the streaming alternative either reads the
same token (a string literal) or runs into the end of the input, and then the final-segment lexers read it. -/
theorem lexPrimM_at_eof {inp : List Char} {e : Event} (h : lexPrimM false inp = .ok e []) :
    lexPrimM true inp = .ok e [] ∨ (lexPrimM true inp = .inc ∧ lexPrimFinal inp = .ok e []) := by
  obtain ⟨i1, i2, _⟩ := lexIdentM_sc inp
  obtain ⟨n1, n2, _⟩ := lexNumM_sc inp
  obtain ⟨b1, b2, _⟩ := lexBlobM_sc inp
  have hcopy := h
  unfold lexPrimM at h ⊢
  cases hs : lexStr inp with
  | ok s r => rw [hs] at h; simp only at h ⊢; exact Or.inl h
  | inc => rw [hs] at h; simp at h
  | err =>
    have hfin := lexPrimFinal_of_complete hs hcopy
    rw [hs] at h
    simp only at h ⊢
    cases hit : lexIdentM true inp with
    | ok s r => rw [i1 s r hit] at h; exact Or.inl (by simpa using h)
    | inc => exact Or.inr ⟨rfl, hfin⟩
    | err =>
      rw [i2 hit] at h
      simp only at h ⊢
      cases hnt : lexNumM true inp with
      | ok n r => rw [n1 n r hnt] at h; exact Or.inl (by simpa using h)
      | inc => exact Or.inr ⟨rfl, hfin⟩
      | err =>
        rw [n2 hnt] at h
        simp only at h ⊢
        cases hbt : lexBlobM true inp with
        | ok bs r => rw [b1 bs r hbt] at h; exact Or.inl (by simpa using h)
        | inc => exact Or.inr ⟨rfl, hfin⟩
        | err => rw [b2 hbt] at h; simp at h

end SwimVerif.ReconEq

namespace SwimVerif.ReconEq
open SwimVerif.Recon

/-! ### runs that end -/

/-- From stack `S` on input `inp` the automaton emits `O` and finishes (the parser is done, or the final-segment
parser accepted the rest), in at most `K` steps. -/
def Fin (S : List PS) (inp : List Char) (O : List (Event × Bool)) (K : Nat) : Prop :=
  ∃ k, k ≤ K ∧ ∀ f, ro (k + f) S inp = (O, Term.fin)

theorem Fin.empty (rest : List Char) : Fin [] rest [] 1 :=
  ⟨1, Nat.le_refl _, fun f => by rw [Nat.add_comm]; exact ro_fin f rest⟩

theorem Run.fin {S S' : List PS} {inp rest : List Char} {O1 O2 : List (Event × Bool)} {K1 K2 : Nat}
    (h1 : Run S inp O1 S' rest K1) (h2 : Fin S' rest O2 K2) : Fin S inp (O1 ++ O2) (K1 + K2) := by
  obtain ⟨k1, hk1, r1⟩ := h1
  obtain ⟨k2, hk2, r2⟩ := h2
  refine ⟨k1 + k2, by omega, fun f => ?_⟩
  rw [Nat.add_assoc, r1, r2]
  simp [pre]

theorem Fin.mono {S : List PS} {inp : List Char} {O : List (Event × Bool)} {K K' : Nat} (h : Fin S inp O K)
    (hk : K ≤ K') : Fin S inp O K' := by
  obtain ⟨k, hk1, r⟩ := h
  exact ⟨k, by omega, r⟩

theorem Fin.cast {S : List PS} {inp inp' : List Char} {O O' : List (Event × Bool)} {K : Nat} (h : Fin S inp O K)
    (hi : inp = inp') (ho : O = O') : Fin S inp' O' K := by
  subst hi ho; exact h

theorem Fin.congr {S : List PS} {x y : List Char} {O : List (Event × Bool)} {K : Nat} (h : Fin S y O K)
    (hxy : skipSpaces x = skipSpaces y) : Fin S x O K := by
  obtain ⟨k, hk, r⟩ := h
  exact ⟨k, hk, fun f => by rw [ro_congr _ _ hxy]; exact r f⟩

theorem fin_of_final {S S'' : List PS} {inp rest : List Char} {evs : List Event} {am : Bool}
    (h : step S inp = .inc) (hf : finalStep S inp = .ok evs am S'' rest) : Fin S inp (obsEmits evs am rest) 1 :=
  ⟨1, Nat.le_refl _, fun f => by rw [Nat.add_comm]; simp [ro, runFrom, h, hf, obsEmits]⟩

/-! ### attribute names at the end of the input -/

theorem lexName_eof (nm : List Char) : lexName (attrName nm) = .inc ∨ lexName (attrName nm) = .ok nm [] := by
  unfold lexName
  rw [attrName_eq]
  cases h : isIdentifier nm
  · rw [stringLiteral_quoted h]
    have := lexStr_of_lexString (lexString_escape nm [])
    rw [this]; exact Or.inr rfl
  · obtain ⟨hl, _⟩ := (quote_decision_agrees nm).mp h
    obtain ⟨c, cs, rfl, hc, hr⟩ := (lexIdent_eq_self_iff nm).mp hl
    have hq : c ≠ '"' := by intro h'; subst h'; simp [quote_not_identStart] at hc
    have : stringLiteral (c :: cs) = c :: cs := by simp [stringLiteral, h]
    rw [this]
    have hstr : lexStr (c :: cs) = .err := by simp [lexStr, hq]
    rw [hstr]
    left
    have hdw : cs.dropWhile isIdentChar = [] := by
      have := dropWhile_append_stop (p := isIdentChar) (l := cs) (rest := []) hr (stopsAt_nil _)
      simpa using this
    simp [lexIdentM, hc, hdw]

theorem lexAttr_eof (nm : List Char) : lexAttr ('@' :: attrName nm) = .inc := by
  unfold lexAttr
  simp only [↓reduceIte]
  rcases lexName_eof nm with h | h <;> rw [h]

theorem lexAttrFinal_name (nm : List Char) : lexAttrFinal ('@' :: attrName nm) = .ok nm [] := by
  unfold lexAttrFinal
  simp only [↓reduceIte]
  rw [attrName_eq]
  cases h : isIdentifier nm
  · rw [stringLiteral_quoted h]
    have := lexStr_of_lexString (lexString_escape nm [])
    simp [lexStrC, this]
  · obtain ⟨hl, _⟩ := (quote_decision_agrees nm).mp h
    obtain ⟨c, cs, rfl, hc, hr⟩ := (lexIdent_eq_self_iff nm).mp hl
    have hq : c ≠ '"' := by intro h'; subst h'; simp [quote_not_identStart] at hc
    have : stringLiteral (c :: cs) = c :: cs := by simp [stringLiteral, h]
    rw [this]
    have hstr : lexStrC (c :: cs) = .err := by simp [lexStrC, lexStr, hq]
    rw [hstr]
    simp only
    have := lexIdentM_of_lexIdent false hl (by simp)
    exact this

theorem lexPrimFinal_at (t : List Char) : lexPrimFinal ('@' :: t) = .err := by
  have h := lexPrimM_not_start false (show primStart '@' = false by decide) t
  unfold lexPrimM at h
  simp only [lexStr, show ('@' : Char) ≠ '"' by decide, ↓reduceIte] at h
  unfold lexPrimFinal
  cases hi : lexIdentM false ('@' :: t) with
  | ok s r => rw [hi] at h; simp at h
  | inc => rw [hi] at h; simp at h
  | err =>
    rw [hi] at h; simp only at h ⊢
    cases hn : lexNumM false ('@' :: t) with
    | ok n r => rw [hn] at h; simp at h
    | inc => rw [hn] at h; simp at h
    | err =>
      rw [hn] at h; simp only at h ⊢
      cases hb : lexBlobM false ('@' :: t) with
      | ok bs r => rw [hb] at h; simp at h
      | inc => rfl
      | err => rfl

/-- A document that ends in a body-less attribute `@name`: the final-segment parser supplies its events and the empty
body of the record. -/
theorem fin_last_attr (cur0 : PS) (hc : cur0 = .init ∨ cur0 = .afterAttr) (hctx : AttrCtx false cur0 []) (nm : List Char) :
    Fin [cur0] ('@' :: attrName nm)
      [(.startAttr nm, false), (.endAttr, false), (.startBody, false), (.endRecord, false)] 1 := by
  have hstep : step [cur0] ('@' :: attrName nm) = .inc := by
    rw [hctx]; simp [attrStep, lexAttr_eof]
  have hfin : finalStep [cur0] ('@' :: attrName nm)
      = .ok [.startAttr nm, .endAttr, .startBody, .endRecord] true [] [] := by
    rcases hc with rfl | rfl
    · simp [finalStep, skipMulti_cons (show isMulti '@' = false by decide), lexPrimFinal_at, lexAttrFinal_name]
    · simp [finalStep, skipSpaces_cons at_facts.1, lexPrimFinal_at, lexAttrFinal_name]
  exact (fin_of_final hstep hfin).cast rfl (by simp [obsEmits, emits, obsOf])

end SwimVerif.ReconEq

namespace SwimVerif.ReconEq
open SwimVerif.Recon

/-! ### whole documents -/

theorem tokEnd_nil : TokEnd [] := by intro c hc; simp at hc

theorem primEv_plain {x : Value} (hp : x.isPrim = true) : (primEv x).isStartAttr = false := by
  cases x <;> simp [Value.isPrim] at hp <;> rfl

/-- A primitive value as the whole document. -/
theorem top_prim (st : Style) {x : Value} (hp : x.isPrim = true) (hxw : x.wf = true) :
    Fin [.init] (printV st 0 x) (obsV x) 2 := by
  rw [printV_prim_style st 0 hp]
  obtain ⟨c, t, hc, hps⟩ := head_prim 0 hp hxw
  have hl := lexPrimM_printed false 0 hp hxw (rest := []) tokEnd_nil (by intro h; cases h)
  rw [List.append_nil] at hl
  have hstep : step [.init] (printV .compact 0 x) = .ok [primEv x] false [] [] := by
    rw [hc] at hl ⊢
    obtain ⟨f1, f2, _⟩ := okStart_facts (okStart_of_prim hps) .rb
    simp [step, skipSpaces_cons f2, skipMulti_cons f1, stepInit, hl]
  refine ((Run.of_step hstep).fin (Fin.empty [])).cast rfl ?_
  rw [List.append_nil, obsV_prim hp, obsEmits_plain _ _ _ (by intro e he; simp at he; subst he; exact primEv_plain hp)]
  rfl

/-- The attributes after the first, when the record has no body: the last one may be cut off by the end of the
input. -/
theorem top_attrs (st : Style) (i : Nat) : (r : Attrs) → r.wf = true →
    Fin [.afterAttr] (if r.isEmpty = true then [] else pad st ++ printAttrs st i r)
      (obsA r ++ [(.startBody, false), (.endRecord, false)]) (4 * r.size + 1)
  | .nil, _ => by
    simp only [Attrs.isEmpty, ↓reduceIte, obsA, List.nil_append]
    have h1 : step [.afterAttr] [] = .inc := by simp [step, skipSpaces]
    have h2 : finalStep [.afterAttr] [] = .ok [.startBody, .endRecord] false [] [] := by simp [finalStep, skipSpaces]
    exact ((fin_of_final h1 h2).cast rfl (by simp [obsEmits, emits, obsOf])).mono (by omega)
  | .cons n2 v2 r2, hw => by
    simp only [Attrs.wf, Bool.and_eq_true] at hw
    simp only [Attrs.isEmpty, Bool.false_eq_true, ↓reduceIte]
    refine Fin.congr ?_ (skipSpaces_spaces (pad_spaces st) _)
    rw [printAttrs_cons']
    by_cases hlast : v2 = .extant ∧ r2 = .nil
    · obtain ⟨rfl, rfl⟩ := hlast
      simp only [printA, Attrs.isEmpty, ↓reduceIte, List.nil_append, List.append_nil]
      refine ((fin_last_attr .afterAttr (Or.inr rfl) (attrCtx_afterAttr []) n2).mono (by omega)).cast rfl ?_
      simp [obsA, implicitBody, obsB]
    · have hmore : v2 = .extant → (if r2.isEmpty = true then [] else pad st ++ printAttrs st i r2) ≠ [] ∧
          ∀ x ∈ (if r2.isEmpty = true then [] else pad st ++ printAttrs st i r2).head?, isIdentChar x = false ∧ x ≠ '(' := by
        intro hv
        cases r2 with
        | nil => exact absurd ⟨hv, rfl⟩ hlast
        | cons n3 v3 r3 =>
          simp only [Attrs.isEmpty, Bool.false_eq_true, ↓reduceIte]
          rw [printAttrs_cons']
          cases st <;> simp [pad] <;> decide
      have h1 := attr_one (rh_all (v2.size + 1)) n2 v2 (Nat.le_refl _) hw.1 st i false .afterAttr []
        (attrCtx_afterAttr []) _ hmore
      have h2 := top_attrs st i r2 hw.2
      simp only [attrBase, Bool.false_eq_true, ↓reduceIte] at h1
      refine ((h1.fin h2).mono (by simp [Attrs.size]; omega)).cast rfl ?_
      rw [obsA_cons]
      try simp

/-- **The automaton on a printed document**: from the initial state, over the text any of the three printers gives for a
well-formed value, the parser emits exactly the value's event stream (with the implicit-record decisions of the
structure) and finishes. -/
theorem top_fin (st : Style) (v : Value) (hw : v.wf = true) : Fin [.init] (print st v) (obsV v) (4 * v.size + 4) := by
  unfold print
  cases v with
  | extant =>
    have h1 : step [.init] [] = .inc := by simp [step, skipSpaces]
    have h2 : finalStep [.init] [] = .ok [.extant] false [] [] := by simp [finalStep, skipMulti]
    have : printV st 0 .extant = [] := by simp [printV]
    rw [this]
    exact ((fin_of_final h1 h2).cast rfl (by simp [obsEmits, emits, obsOf, obsV])).mono (by omega)
  | float x => exact (top_prim st rfl hw).mono (by omega)
  | int k m => exact (top_prim st rfl hw).mono (by omega)
  | bool b => exact (top_prim st rfl hw).mono (by omega)
  | text s => exact (top_prim st rfl hw).mono (by omega)
  | data bs => exact (top_prim st rfl hw).mono (by omega)
  | record a its =>
    simp only [Value.wf, Bool.and_eq_true, Bool.not_eq_true', Bool.or_eq_true] at hw
    obtain ⟨⟨⟨haw, hiw⟩, hnse⟩, hsole⟩ := hw
    have ih := rh_all (a.size + its.size + 2)
    cases a with
    | nil =>
      rw [printV_record_nil']
      have h1 : step [.init] ('{' :: (startBlock st 0 its.length ++ (printItems st (inner st 0 its.length) 0 true true its ++
          ((if its.length = 0 then [] else endBlock st 0) ++ ['}']))))
          = .ok [.startBody] false [.body .rb .startOrNl]
              (startBlock st 0 its.length ++ (printItems st (inner st 0 its.length) 0 true true its ++
                ((if its.length = 0 then [] else endBlock st 0) ++ ['}']))) := by
        simp [step, skipSpaces_cons (show isSpace '{' = false by decide), skipMulti_cons (show isMulti '{' = false by decide),
          stepInit, lexPrimM_not_start false (show primStart '{' = false by decide),
          attrStep_not_at false .init [] (show ('{' : Char) ≠ '@' by decide)]
      have h2 := ih.items its (by omega) hiw st .rb (inner st 0 its.length) 0 true [] [] [] false
        (startBlock st 0 its.length) (if its.length = 0 then [] else endBlock st 0)
        (startBlock_white st 0 _) (endBlockOpt_endw st 0 _) rfl (fun _ => hnse) (by intro h; cases h)
      simp only [Bool.false_eq_true, ↓reduceIte, Kind.close] at h2
      refine ((((Run.of_step h1).trans h2).fin (Fin.empty [])).mono (by simp [Value.size, Attrs.size]; omega)).cast rfl ?_
      simp [obsEmits, emits, obsOf, obsV, obsA, kindEndEvent]
    | cons nm w r =>
      simp only [Attrs.wf, Bool.and_eq_true] at haw
      rw [printV_record_cons', printAttrs_cons']
      simp only [List.cons_append, List.append_assoc]
      by_cases h0 : its.length = 0
      · have hnil : its = .nil := by cases its <;> simp [Items.length] at h0 <;> rfl
        subst hnil
        simp only [Items.length, ↓reduceIte, List.append_nil]
        by_cases hlast : w = .extant ∧ r = .nil
        · obtain ⟨rfl, rfl⟩ := hlast
          simp only [printA, Attrs.isEmpty, ↓reduceIte, List.nil_append, List.append_nil]
          refine ((fin_last_attr .init (Or.inl rfl) (attrCtx_init []) nm).mono (by omega)).cast rfl ?_
          simp [obsV, obsA, obsI, implicitBody, obsB]
        · have hmore : w = .extant → (if r.isEmpty = true then [] else pad st ++ printAttrs st 0 r) ≠ [] ∧
              ∀ x ∈ (if r.isEmpty = true then [] else pad st ++ printAttrs st 0 r).head?, isIdentChar x = false ∧ x ≠ '(' := by
            intro hv
            cases r with
            | nil => exact absurd ⟨hv, rfl⟩ hlast
            | cons n3 v3 r3 =>
              simp only [Attrs.isEmpty, Bool.false_eq_true, ↓reduceIte]
              rw [printAttrs_cons']
              cases st <;> simp [pad] <;> decide
          have h1 := attr_one ih nm w (by simp [Attrs.size]; omega) haw.1 st 0 false .init [] (attrCtx_init []) _ hmore
          have h2 := top_attrs st 0 r haw.2
          simp only [attrBase, Bool.false_eq_true, ↓reduceIte] at h1
          refine ((h1.fin h2).mono (by simp [Value.size, Attrs.size]; omega)).cast rfl ?_
          simp [obsV, obsI, obsA_cons]
      · -- a body follows the attributes
        have key : ∀ (tail : List Char) (Ob : List (Event × Bool)) (Kb : Nat), AttrFollow' tail → tail ≠ [] →
            Fin [.afterAttr] tail Ob Kb → Kb ≤ 4 * its.size + 6 →
            Fin [.init]
              ('@' :: (attrName nm ++ (printA st 0 w ++ ((if r.isEmpty = true then [] else pad st ++ printAttrs st 0 r) ++ tail))))
              (obsA (.cons nm w r) ++ Ob) (4 * (Value.record (.cons nm w r) its).size + 4) := by
          intro tail Ob Kb hfol htne hbody hKb
          obtain ⟨hm1, hm2⟩ := more_head st 0 r hfol htne
          have h1 := attr_one ih nm w (by simp [Attrs.size]; omega) haw.1 st 0 false .init [] (attrCtx_init []) _
            (fun _ => ⟨hm1, hm2⟩)
          have h2 := ih.attrs r (by simp [Attrs.size]; omega) haw.2 st 0 [] tail hfol htne
          simp only [attrBase, Bool.false_eq_true, ↓reduceIte] at h1
          refine (((h1.trans h2).fin hbody).mono (by simp [Value.size, Attrs.size]; omega)).cast rfl ?_
          rw [obsA_cons]
          try simp
        by_cases h1 : its.isSoleVal = true
        · simp only [h0, ↓reduceIte, h1]
          cases its with
          | nil => simp [Items.length] at h0
          | slot _ _ _ => simp [Items.isSoleVal] at h1
          | val x xs =>
            cases xs with
            | val _ _ => simp [Items.isSoleVal] at h1
            | slot _ _ _ => simp [Items.isSoleVal] at h1
            | nil =>
              have hxp : x.isPrim = true := by
                rcases hsole with h | h
                · rcases h with h | h
                  · simp [Attrs.isEmpty] at h
                  · simp [Items.isSoleVal] at h
                · simpa [Items.isSolePrim] using h
              have hxw : x.wf = true := by simp only [Items.wf, Bool.and_eq_true] at hiw; exact hiw.1
              simp only [printItems, ↓reduceIte, List.nil_append, List.append_nil]
              rw [printV_prim_style st 0 hxp]
              obtain ⟨c, t, hc, hps⟩ := head_prim 0 hxp hxw
              have hl := lexPrimM_printed false 0 hxp hxw (rest := []) tokEnd_nil (by intro h; cases h)
              rw [List.append_nil] at hl
              obtain ⟨_, f2, _⟩ := okStart_facts (okStart_of_prim hps) .rb
              have hsp : Spaces [' '] := by intro y hy; simp at hy; exact hy
              have hplain : ∀ e ∈ [Event.startBody, primEv x, Event.endRecord], e.isStartAttr = false := by
                intro e he; simp at he
                rcases he with rfl | rfl | rfl
                · rfl
                · exact primEv_plain hxp
                · rfl
              have hbody : Fin [.afterAttr] (' ' :: printV .compact 0 x)
                  [(.startBody, false), (primEv x, false), (.endRecord, false)] 2 := by
                have hsk := step_spaces [.afterAttr] hsp (printV .compact 0 x)
                simp only [List.cons_append, List.nil_append] at hsk
                rcases lexPrimM_at_eof hl with h | ⟨ha, hb⟩
                · have hstep : step [.afterAttr] (' ' :: printV .compact 0 x)
                      = .ok [.startBody, primEv x, .endRecord] false [] [] := by
                    rw [hsk]
                    rw [hc] at h ⊢
                    simp [step, skipSpaces_cons f2, stepAfterAttr, h, popAfterItem]
                  refine ((Run.of_step hstep).fin (Fin.empty [])).cast rfl ?_
                  rw [List.append_nil, obsEmits_plain _ _ _ hplain]; rfl
                · have hstep : step [.afterAttr] (' ' :: printV .compact 0 x) = .inc := by
                    rw [hsk]
                    rw [hc] at ha ⊢
                    simp [step, skipSpaces_cons f2, stepAfterAttr, ha]
                  have hfs : finalStep [.afterAttr] (' ' :: printV .compact 0 x)
                      = .ok [.startBody, primEv x, .endRecord] false [] [] := by
                    have hk : skipSpaces (' ' :: printV .compact 0 x) = printV .compact 0 x := by
                      have := skipSpaces_spaces hsp (printV .compact 0 x)
                      simp only [List.cons_append, List.nil_append] at this
                      rw [this, hc, skipSpaces_cons f2]
                    rw [hc] at hk hb
                    rw [hc]
                    simp [finalStep, hk, hb]
                  refine ((fin_of_final hstep hfs).mono (by omega)).cast rfl ?_
                  rw [obsEmits_plain _ _ _ hplain]; rfl
              have := key _ _ 2 (by intro y hy; simp at hy; simp [← hy]) (by simp) hbody (by omega)
              refine this.cast (by simp) ?_
              simp [obsV, obsI, obsV_prim hxp]
        · simp only [h0, ↓reduceIte, h1, Bool.false_eq_true]
          have hfol : AttrFollow' (pad st ++ '{' :: (startBlock st 0 its.length ++
              (printItems st (inner st 0 its.length) 0 true true its ++ (endBlock st 0 ++ ['}'])))) := by
            cases st <;> (intro y hy; simp [pad] at hy; simp [← hy])
          have hb1 := Run.of_step (step_afterAttr_brace [] (pad_spaces st)
            (startBlock st 0 its.length ++ (printItems st (inner st 0 its.length) 0 true true its ++
              (endBlock st 0 ++ ['}']))))
          have hb2 := ih.items its (by omega) hiw st .rb (inner st 0 its.length) 0 true
            [] [] [] false (startBlock st 0 its.length) (endBlock st 0)
            (startBlock_white st 0 _) (endBlock_endw st 0) rfl (fun _ => hnse) (by intro h; cases h)
          simp only [Bool.false_eq_true, ↓reduceIte, Kind.close] at hb2
          have hb := (hb1.trans hb2).fin (Fin.empty [])
          have := key _ _ _ hfol (by cases st <;> simp [pad]) hb (by omega)
          refine this.cast (by simp) ?_
          simp [obsV, obsEmits, emits, obsOf, kindEndEvent]

end SwimVerif.ReconEq
