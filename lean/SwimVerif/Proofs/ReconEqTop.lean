/-
C15: a whole printed document — the run of the automaton from `[Init]` over `print st v`, including the switch to
the final-segment parser when a token or an attribute name ends exactly at the end of the input.
-/
import SwimVerif.Proofs.ReconEqPrinted

namespace SwimVerif.ReconEq
open SwimVerif.Recon

/-! ### streaming versus complete tokens -/

theorem lexIdentM_sc (inp : List Char) :
    (∀ a r, lexIdentM true inp = .ok a r → lexIdentM false inp = .ok a r) ∧
    (lexIdentM true inp = .err → lexIdentM false inp = .err) ∧ lexIdentM false inp ≠ .inc := by
  unfold lexIdentM
  cases inp with
  | nil => simp
  | cons c r =>
    by_cases hc : isIdentStart c = true
    · simp only [hc, ↓reduceIte, Bool.true_and, Bool.false_and, Bool.false_eq_true]
      by_cases he : (r.dropWhile isIdentChar).isEmpty = true
      · simp [he]
      · simp [he]
    · simp [hc]

theorem lexRadixM_sc (tc tC : Char) (isD : Char → Bool) (radix : Nat) (inp : List Char) :
    (∀ a r, lexRadixM true tc tC isD radix inp = .ok a r → lexRadixM false tc tC isD radix inp = .ok a r) ∧
    (lexRadixM true tc tC isD radix inp = .err → lexRadixM false tc tC isD radix inp = .err) ∧
    lexRadixM false tc tC isD radix inp ≠ .inc := by
  unfold lexRadixM
  match (stripSign inp).2 with
  | [] => simp
  | [c] => by_cases hc : c = '0' <;> simp [hc]
  | c :: t :: r' =>
    by_cases hc : c = '0' ∧ (t = tc ∨ t = tC)
    · simp only [hc, and_self, ↓reduceIte]
      cases htw : r'.takeWhile isD with
      | nil => cases hdw : r'.dropWhile isD <;> simp
      | cons d ds => cases hdw : r'.dropWhile isD <;> simp
    · simp [hc]

theorem lexFloatM_sc (inp : List Char) :
    (∀ a r, lexFloatM true inp = .ok a r → lexFloatM false inp = .ok a r) ∧
    (lexFloatM true inp = .err → lexFloatM false inp = .err) ∧ lexFloatM false inp ≠ .inc := by
  unfold lexFloatM
  by_cases hi : fltInc inp = true
  · simp only [hi, Bool.and_self, ↓reduceIte, Bool.false_and, Bool.false_eq_true]
    refine ⟨by simp, by simp, ?_⟩
    split <;> simp
  · simp only [hi, Bool.and_false, Bool.false_eq_true, ↓reduceIte, Bool.false_and]
    split
    · rename_i f rest _
      cases rest <;> simp
    · simp

theorem lexDecimalM_sc (inp : List Char) :
    (∀ a r, lexDecimalM true inp = .ok a r → lexDecimalM false inp = .ok a r) ∧
    (lexDecimalM true inp = .err → lexDecimalM false inp = .err) ∧ lexDecimalM false inp ≠ .inc := by
  obtain ⟨f1, f2, f3⟩ := lexFloatM_sc inp
  unfold lexDecimalM
  cases inp with
  | nil => simp
  | cons a t =>
    simp only
    match (stripSign (a :: t)).2 with
    | [] => simpa using f3
    | x :: r =>
      simp only
      cases htw : (x :: r).takeWhile isDigit with
      | nil => exact ⟨f1, f2, f3⟩
      | cons d ds =>
        cases hdw : (x :: r).dropWhile isDigit with
        | nil => simp
        | cons c rest =>
          simp only
          by_cases hc : c = '.' ∨ c = 'e' ∨ c = 'E'
          · simp only [hc, ↓reduceIte]; exact ⟨f1, f2, f3⟩
          · simp [hc]

theorem lexNumM_sc (inp : List Char) :
    (∀ a r, lexNumM true inp = .ok a r → lexNumM false inp = .ok a r) ∧
    (lexNumM true inp = .err → lexNumM false inp = .err) ∧ lexNumM false inp ≠ .inc := by
  obtain ⟨b1, b2, b3⟩ := lexRadixM_sc 'b' 'B' isBinDigit 2 inp
  obtain ⟨x1, x2, x3⟩ := lexRadixM_sc 'x' 'X' isHexDigit 16 inp
  obtain ⟨d1, d2, d3⟩ := lexDecimalM_sc inp
  unfold lexNumM
  cases inp with
  | nil => simp
  | cons a t =>
    simp only
    cases hb : lexRadixM true 'b' 'B' isBinDigit 2 (a :: t) with
    | ok n r =>
      rw [b1 n r hb]
      simp
    | inc =>
      simp only
      refine ⟨by simp, by simp, ?_⟩
      cases hbf : lexRadixM false 'b' 'B' isBinDigit 2 (a :: t) with
      | ok n r => simp
      | inc => exact absurd hbf b3
      | err =>
        simp only
        cases hxf : lexRadixM false 'x' 'X' isHexDigit 16 (a :: t) with
        | ok n r => simp
        | inc => exact absurd hxf x3
        | err => simpa using d3
    | err =>
      rw [b2 hb]
      simp only
      cases hx : lexRadixM true 'x' 'X' isHexDigit 16 (a :: t) with
      | ok n r => rw [x1 n r hx]; simp
      | inc =>
        simp only
        refine ⟨by simp, by simp, ?_⟩
        cases hxf : lexRadixM false 'x' 'X' isHexDigit 16 (a :: t) with
        | ok n r => simp
        | inc => exact absurd hxf x3
        | err => simpa using d3
      | err => rw [x2 hx]; simp only; exact ⟨d1, d2, d3⟩

theorem lexBlobM_sc (inp : List Char) :
    (∀ a r, lexBlobM true inp = .ok a r → lexBlobM false inp = .ok a r) ∧
    (lexBlobM true inp = .err → lexBlobM false inp = .err) ∧ lexBlobM false inp ≠ .inc := by
  unfold lexBlobM
  cases inp with
  | nil => simp
  | cons c r =>
    by_cases hc : c = '%'
    · simp only [hc, ↓reduceIte, Bool.true_and, Bool.false_and, Bool.false_eq_true]
      by_cases hi : b64Inc (r.length + 1) r = true
      · simp only [hi, ↓reduceIte]
        refine ⟨by simp, by simp, ?_⟩
        split <;> simp
      · simp only [hi, Bool.false_eq_true, ↓reduceIte]
        split <;> simp
    · simp [hc]

/-- The complete token alternative without the string literal (what the final-segment parsers use), as a function of
`lexPrimM false` when the input does not start a string literal. -/
theorem lexPrimFinal_of_complete {inp : List Char} {e : Event} {r : List Char} (hs : lexStr inp = .err)
    (h : lexPrimM false inp = .ok e r) : lexPrimFinal inp = .ok e r := by
  unfold lexPrimM at h
  rw [hs] at h
  simp only at h
  unfold lexPrimFinal
  cases hi : lexIdentM false inp with
  | ok s r' => rw [hi] at h; simpa using h
  | inc => exact absurd hi (lexIdentM_sc inp).2.2
  | err =>
    rw [hi] at h
    simp only at h ⊢
    cases hn : lexNumM false inp with
    | ok n r' => rw [hn] at h; simpa using h
    | inc => exact absurd hn (lexNumM_sc inp).2.2
    | err =>
      rw [hn] at h
      simp only at h ⊢
      cases hb : lexBlobM false inp with
      | ok bs r' => rw [hb] at h; simpa using h
      | inc => exact absurd hb (lexBlobM_sc inp).2.2
      | err => rw [hb] at h; simp at h

/-- A token that the complete lexers read to the very end of the input: the streaming alternative either reads the
same token (a string literal) or runs into the end of the input, and then the final-segment lexers read it. -/
theorem lexPrimM_at_eof {inp : List Char} {e : Event} (h : lexPrimM false inp = .ok e []) :
    lexPrimM true inp = .ok e [] ∨ (lexPrimM true inp = .inc ∧ lexPrimFinal inp = .ok e []) := by
  obtain ⟨i1, i2, _⟩ := lexIdentM_sc inp
  obtain ⟨n1, n2, _⟩ := lexNumM_sc inp
  obtain ⟨b1, b2, _⟩ := lexBlobM_sc inp
  have hcopy := h
  unfold lexPrimM at h ⊢
  cases hs : lexStr inp with
  | ok s r => rw [hs] at h; simp only at h ⊢; exact Or.inl h
  | inc => rw [hs] at h; simp at h
  | err =>
    have hfin := lexPrimFinal_of_complete hs hcopy
    rw [hs] at h
    simp only at h ⊢
    cases hit : lexIdentM true inp with
    | ok s r => rw [i1 s r hit] at h; exact Or.inl (by simpa using h)
    | inc => exact Or.inr ⟨rfl, hfin⟩
    | err =>
      rw [i2 hit] at h
      simp only at h ⊢
      cases hnt : lexNumM true inp with
      | ok n r => rw [n1 n r hnt] at h; exact Or.inl (by simpa using h)
      | inc => exact Or.inr ⟨rfl, hfin⟩
      | err =>
        rw [n2 hnt] at h
        simp only at h ⊢
        cases hbt : lexBlobM true inp with
        | ok bs r => rw [b1 bs r hbt] at h; exact Or.inl (by simpa using h)
        | inc => exact Or.inr ⟨rfl, hfin⟩
        | err => rw [b2 hbt] at h; simp at h

end SwimVerif.ReconEq
