/-
Composition of the two coalescing layers of a map lane (C02, `compose`), at specification level: the agent's key-only
event queue (`AgentQ`, values read when the event is written) feeds the runtime's per-remote operation queue (`MQSys`),
which feeds the remote. Whenever both queues are empty, the remote's replica is the lane's map — for every interleaving
of lane operations, event writes and deliveries.
-/
import SwimVerif.Proofs.AgentMapQueue
import SwimVerif.Proofs.MapQueueSampled

set_option linter.unusedSimpArgs false
set_option linter.unusedVariables false
namespace SwimVerif.WT

def emptyMap : KMap := fun _ => none

/-- the head of the agent's queue resolved against the lane's map: what an event write emits (`to_operation`) -/
def resolveHead (content : KMap) : List MapOp → Option MapOp
  | [] => none
  | .upd k _ :: _ => (content k).map (MapOp.upd k)
  | .rem k :: _ => some (.rem k)
  | .clear :: _ => some .clear

def emitOf (s : AgentQ) : Option MapOp := resolveHead s.content s.queue

/-- what a step of the agent hands to the runtime: only event writes (`AOp.pop`) emit -/
def emitted (s : AgentQ) : AOp → Option MapOp
  | .pop => emitOf s
  | .update _ _ => none
  | .remove _ => none
  | .clear => none

def applyOpt (m : KMap) : Option MapOp → KMap
  | some e => applyOp m e
  | none => m

def pushOpt (rt : MQSys) : Option MapOp → MQSys
  | some e => mqStep rt (.push e)
  | none => rt

theorem aStep_rep (s : AgentQ) (op : AOp) : (aStep s op).rep = applyOpt s.rep (emitted s op) := by
  cases op with
  | update k v => rfl
  | remove k => simp only [aStep, emitted, applyOpt]; cases s.content k <;> rfl
  | clear => rfl
  | pop =>
    simp only [aStep, emitted, emitOf]
    cases hq : s.queue with
    | nil => rfl
    | cons e rest =>
      cases e with
      | upd k v =>
        simp only [resolveHead]
        cases hc : s.content k with
        | none => rfl
        | some v' => simp only [Option.map, applyOpt, applyOp]; rfl
      | rem k => simp only [resolveHead, applyOpt, applyOp]; rfl
      | clear => simp only [resolveHead, applyOpt, applyOp]

/-- agent + runtime queue (one remote) -/
structure CSys where
  a : AgentQ := {}
  rt : MQSys := {}

inductive COp
  | lane (op : AOp)     -- a lane operation, or an event write (`AOp.pop`) whose output enters the runtime queue
  | deliver             -- the runtime pops one operation and sends it to the remote

def cStep (s : CSys) : COp → CSys
  | .lane op => { a := aStep s.a op, rt := pushOpt s.rt (emitted s.a op) }
  | .deliver => { s with rt := mqStep s.rt .pop }

def cRun (s : CSys) (ops : List COp) : CSys := ops.foldl cStep s

/-- the remote's replica: everything delivered, applied in order to the empty map -/
def CSys.remote (s : CSys) : KMap := applyAll emptyMap s.rt.popped

structure CInv (s : CSys) : Prop where
  agent : AInv s.a
  wf : WFQ s.rt.queue
  /-- the agent-side observer replica is the fold of everything handed to the runtime -/
  rep : s.a.rep = applyAll emptyMap s.rt.pushed
  fold : applyAll emptyMap (s.rt.popped ++ s.rt.queue) = applyAll emptyMap s.rt.pushed

theorem cinv_init : CInv {} := ⟨ainv_init, wfq_nil, rfl, rfl⟩

theorem mq_step_refines {rt : MQSys} (hw : WFQ rt.queue)
    (hf : applyAll emptyMap (rt.popped ++ rt.queue) = applyAll emptyMap rt.pushed) (op : MQOp) :
    WFQ (mqStep rt op).queue ∧
    applyAll emptyMap ((mqStep rt op).popped ++ (mqStep rt op).queue) = applyAll emptyMap (mqStep rt op).pushed :=
  mq_refines emptyMap [op] rt hw hf

theorem cinv_step {s : CSys} (h : CInv s) (op : COp) : CInv (cStep s op) := by
  cases op with
  | deliver =>
    have := mq_step_refines h.wf h.fold .pop
    refine ⟨h.agent, this.1, ?_, this.2⟩
    show s.a.rep = applyAll emptyMap (mqStep s.rt .pop).pushed
    have hp : (mqStep s.rt .pop).pushed = s.rt.pushed := by
      simp only [mqStep]; cases s.rt.queue <;> rfl
    rw [hp]; exact h.rep
  | lane o =>
    have ha : AInv (aStep s.a o) := ainv_step h.agent o
    cases he : emitted s.a o with
    | none =>
      refine ⟨ha, ?_, ?_, ?_⟩
      · show WFQ (pushOpt s.rt (emitted s.a o)).queue
        rw [he]; exact h.wf
      · show (aStep s.a o).rep = applyAll emptyMap (pushOpt s.rt (emitted s.a o)).pushed
        rw [aStep_rep, he]; exact h.rep
      · show applyAll emptyMap ((pushOpt s.rt (emitted s.a o)).popped ++ (pushOpt s.rt (emitted s.a o)).queue) =
          applyAll emptyMap (pushOpt s.rt (emitted s.a o)).pushed
        rw [he]; exact h.fold
    | some e =>
      have := mq_step_refines h.wf h.fold (.push e)
      refine ⟨ha, ?_, ?_, ?_⟩
      · show WFQ (pushOpt s.rt (emitted s.a o)).queue
        rw [he]; exact this.1
      · show (aStep s.a o).rep = applyAll emptyMap (pushOpt s.rt (emitted s.a o)).pushed
        rw [aStep_rep, he]
        show applyOp s.a.rep e = applyAll emptyMap (s.rt.pushed ++ [e])
        rw [applyAll_append, ← h.rep]; rfl
      · show applyAll emptyMap ((pushOpt s.rt (emitted s.a o)).popped ++ (pushOpt s.rt (emitted s.a o)).queue) =
          applyAll emptyMap (pushOpt s.rt (emitted s.a o)).pushed
        rw [he]; exact this.2

theorem cinv_run : ∀ (ops : List COp) (s : CSys), CInv s → CInv (cRun s ops) := by
  intro ops
  induction ops with
  | nil => intro s h; exact h
  | cons op rest ih => intro s h; exact ih _ (cinv_step h op)

/-- **compose**: both queues empty ⇒ the remote's replica is the lane's map -/
theorem cinv_converged {s : CSys} (h : CInv s) (ha : s.a.queue = []) (hr : s.rt.queue = []) :
    s.remote = s.a.content := by
  have h1 := h.fold
  rw [hr, List.append_nil] at h1
  unfold CSys.remote
  rw [h1, ← h.rep]
  exact ainv_quiescent h.agent ha

/-- in between: the remote, brought up to date with what is still queued in the runtime, is the agent-side observer -/
theorem cinv_remote_catches_up {s : CSys} (h : CInv s) : applyAll s.remote s.rt.queue = s.a.rep := by
  unfold CSys.remote
  rw [← applyAll_append, h.fold, h.rep]

/-! ### per-key sampling through both layers -/

/-- an emitted update carries the value the lane holds for that key at that moment -/
theorem emitOf_upd_current {s : AgentQ} {k : Nat} {v : Bytes} (h : emitOf s = some (.upd k v)) :
    s.content k = some v := by
  unfold emitOf at h
  cases hq : s.queue with
  | nil => simp [hq, resolveHead] at h
  | cons e rest =>
    rw [hq] at h
    cases e with
    | upd k' v' =>
      simp only [resolveHead] at h
      cases hc : s.content k' with
      | none => simp [hc] at h
      | some w => simp [hc] at h; obtain ⟨h1, h2⟩ := h; subst h1; subst h2; exact hc
    | rem k' => simp [resolveHead] at h
    | clear => simp [resolveHead] at h

/-- a remove is emitted only while the lane's map lacks the key -/
theorem emitOf_rem_absent {s : AgentQ} (hi : AInv s) {k : Nat} (h : emitOf s = some (.rem k)) :
    s.content k = none := by
  unfold emitOf at h
  cases hq : s.queue with
  | nil => simp [hq, resolveHead] at h
  | cons e rest =>
    rw [hq] at h
    cases e with
    | upd k' v' =>
      simp only [resolveHead] at h
      cases hc : s.content k' <;> simp [hc] at h
    | rem k' =>
      simp [resolveHead] at h; subst h
      have := hi.per k'
      rw [hq] at this
      simp [findKey, MapOp.key?, isRem] at this
      exact this.2
    | clear => simp [resolveHead] at h

theorem csampled_step {s : CSys} (h : CInv s) (x : Nat) (hs : Sampled x s.rt) (op : COp) :
    Sampled x (cStep s op).rt := by
  cases op with
  | deliver => exact sampled_pop x hs
  | lane o =>
    show Sampled x (pushOpt s.rt (emitted s.a o))
    cases emitted s.a o with
    | none => exact hs
    | some e => exact sampled_push h.wf x hs e

theorem csampled_run (x : Nat) : ∀ (ops : List COp) (s : CSys), CInv s → Sampled x s.rt →
    Sampled x (cRun s ops).rt := by
  intro ops
  induction ops with
  | nil => intro s _ h; exact h
  | cons op rest ih => intro s hi h; exact ih _ (cinv_step hi op) (csampled_step hi x h op)

end SwimVerif.WT
