/-
C10 — every modelled codec is lawful for its encoder (so the generic theorem applies).
-/
import SwimVerif.Proofs.Frames
import SwimVerif.Model.FrameCodecs

set_option linter.unusedSimpArgs false
set_option linter.unusedVariables false
namespace SwimVerif.Frames
open SwimVerif.Generated.Wire

/-- Decide the remaining `if`s by arithmetic. -/
macro "ifs" : tactic => `(tactic| repeat (first | rfl | omega | intro _ | (split <;> try (first | rfl | omega))))

/-- Laws of a stateless parser. -/
structure PLawful {α : Type} (p : Parser α) (enc : α → List Nat) (ok : α → Prop) : Prop where
  enc_ne : ∀ m, ok m → enc m ≠ []
  complete : ∀ m, ok m → ∀ tail, p (enc m ++ tail) = (tail, .item m)
  prefix_more : ∀ m, ok m → ∀ pre q, pre ++ q = enc m → q ≠ [] → p pre = (pre, .more)

theorem Lawful.ofParser {α : Type} {p : Parser α} {enc : α → List Nat} {ok : α → Prop} (P : PLawful p enc ok) :
    Lawful (Dec.ofParser p) enc ok (fun _ => True) where
  wf_init := trivial
  view_init := rfl
  enc_ne := P.enc_ne
  complete := by
    intro m hm s buf tail _ hv
    simp only [Dec.ofParser, List.nil_append] at hv ⊢
    subst hv; rw [P.complete m hm]
  prefix_more := by
    intro m hm pre q hpq hq s buf _ hv
    simp only [Dec.ofParser, List.nil_append] at hv ⊢
    subst hv; rw [P.prefix_more m hm buf q hpq hq]; simp

/-! ### WithLengthBytesCodec -/

theorem be8_ne (n : Nat) : be 8 n ≠ [] := by
  intro h; have := congrArg List.length h; simp at this

theorem wlb_lawful : PLawful wlb encWlb okBytes where
  enc_ne := by intro m _ h; simp [encWlb] at h; exact be8_ne _ h.1
  complete := by
    intro m hm tail
    have hlt : m.length < M64 := by unfold okBytes at hm; omega
    have h8 : rd (be 8 m.length) = m.length := rd_be8 hlt
    unfold okBytes at hm
    simp [wlb, encWlb, wlbLenSize, h8, List.take_append, List.drop_append]
    ifs
  prefix_more := by
    intro m hm pre q hpq hq
    have hlt : m.length < M64 := by unfold okBytes at hm; omega
    have h8 : rd (be 8 m.length) = m.length := rd_be8 hlt
    have hql : 0 < q.length := List.length_pos_iff.mpr hq
    have hlen := congrArg List.length hpq
    simp [encWlb] at hlen
    by_cases h : pre.length < 8
    · simp [wlb, wlbLenSize, h]
    · obtain ⟨p', h1, h2⟩ := split_of_le (a := be 8 m.length) (b := m) hpq (by simp; omega)
      subst h1
      have hl2 := congrArg List.length h2
      simp at hl2
      unfold okBytes at hm
      simp [wlb, wlbLenSize, h8, List.take_append]
      ifs

/-! ### map operations -/

@[simp] theorem take_be8 (n : Nat) (l : List Nat) : List.take 8 (be 8 n ++ l) = be 8 n :=
  List.take_left' (be_length 8 n)
@[simp] theorem drop_be8 (n : Nat) (l : List Nat) : List.drop 8 (be 8 n ++ l) = l :=
  List.drop_left' (be_length 8 n)
@[simp] theorem drop9_be8 (n t : Nat) (l : List Nat) : List.drop 9 (be 8 n ++ t :: l) = l := by
  show List.drop (8 + 1) _ = _
  rw [← List.drop_drop, drop_be8]; rfl

theorem hd_append {a : List Nat} (b : List Nat) (h : a ≠ []) : hd (a ++ b) = hd a := by
  cases a with
  | nil => exact absurd rfl h
  | cons x l => rfl

theorem rawMapOp_update_frame (total : Nat) (frame tail : List Nat) (hf : frame.length = total)
    (ht : hd frame = mapUpdate) (h9 : 9 ≤ total) (hM : 8 + total < M64) :
    rawMapOp (be 8 total ++ (frame ++ tail)) = rawMapOpUpdateFrame total frame tail := by
  have h8 : rd (be 8 total) = total := rd_be8 (by omega)
  have hh : hd (frame ++ tail) = mapUpdate := by
    rw [hd_append]; exact ht
    intro h0; subst h0; simp at hf; omega
  simp [rawMapOp, rawMapOpUpdate, h8, hh, hf, mapLenSize, mapTagSize, List.take_left' hf, List.drop_left' hf]
  ifs

theorem rawMapOpUpdateFrame_ok (k v tail : List Nat) (hk : k.length < SZ) (hv : v.length < SZ) :
    rawMapOpUpdateFrame (k.length + v.length + 8 + 1) (mapUpdate :: (be 8 k.length ++ (k ++ v))) tail
      = (tail, .item (.update k v)) := by
  have h2 : rd (be 8 k.length) = k.length := rd_be8 (by omega)
  simp [rawMapOpUpdateFrame, h2, mapLenSize, mapTagSize]
  ifs

theorem rawMapOp_complete (m : MapOp) (hm : okMapOp m) (tail : List Nat) :
    rawMapOp (encMapOp m ++ tail) = (tail, .item m) := by
  cases m with
  | update k v =>
    obtain ⟨hk, hv⟩ := hm
    have := rawMapOp_update_frame (k.length + v.length + 8 + 1) (mapUpdate :: (be 8 k.length ++ (k ++ v))) tail
      (by simp; omega) rfl (by omega) (by omega)
    simp only [encMapOp, mapLenSize, mapTagSize, List.append_assoc] at this ⊢
    rw [this, rawMapOpUpdateFrame_ok k v tail hk hv]
  | remove k =>
    have hk : k.length < SZ := hm
    have h8 : rd (be 8 (k.length + 1)) = k.length + 1 := rd_be8 (by omega)
    simp [rawMapOp, rawMapOpRemove, encMapOp, h8, mapLenSize, mapTagSize, mapUpdate, mapRemove]
    ifs
  | clear =>
    have h8 : rd (be 8 1) = 1 := rd_be8 (by omega)
    simp [rawMapOp, encMapOp, h8, mapLenSize, mapTagSize, mapUpdate, mapRemove, mapClear]
    omega

theorem frame_prefix {pre q body : List Nat} {n t : Nat} (h : pre ++ q = be 8 n ++ (t :: body))
    (hl : 9 ≤ pre.length) : ∃ p', pre = be 8 n ++ (t :: p') ∧ body = p' ++ q := by
  have h' : pre ++ q = (be 8 n ++ [t]) ++ body := by simp [h]
  obtain ⟨p', h1, h2⟩ := split_of_le h' (by simp; omega)
  exact ⟨p', by simp [h1], h2⟩

theorem rawMapOp_prefix (m : MapOp) (hm : okMapOp m) (pre q : List Nat) (hpq : pre ++ q = encMapOp m)
    (hq : q ≠ []) : rawMapOp pre = (pre, .more) := by
  have hql : 0 < q.length := List.length_pos_iff.mpr hq
  by_cases h : pre.length < 9
  · simp [rawMapOp, mapLenSize, mapTagSize, h]
  · cases m with
    | update k v =>
      obtain ⟨hk, hv⟩ := hm
      simp only [encMapOp, mapLenSize, mapTagSize] at hpq
      obtain ⟨p', h1, h2⟩ := frame_prefix hpq (by omega)
      have hl := congrArg List.length h2
      simp at hl
      have h8 : rd (be 8 (k.length + v.length + 8 + 1)) = k.length + v.length + 8 + 1 := rd_be8 (by omega)
      subst h1
      simp [rawMapOp, rawMapOpUpdate, h8, mapLenSize, mapTagSize]
      ifs
    | remove k =>
      have hk : k.length < SZ := hm
      simp only [encMapOp, mapLenSize, mapTagSize] at hpq
      obtain ⟨p', h1, h2⟩ := frame_prefix hpq (by omega)
      have hl := congrArg List.length h2
      simp at hl
      have h8 : rd (be 8 (k.length + 1)) = k.length + 1 := rd_be8 (by omega)
      subst h1
      simp [rawMapOp, rawMapOpRemove, h8, mapLenSize, mapTagSize, mapUpdate, mapRemove]
      ifs
    | clear =>
      have hl := congrArg List.length hpq
      simp [encMapOp] at hl
      omega

theorem rawMapOp_lawful : PLawful rawMapOp encMapOp okMapOp where
  enc_ne := by intro m _ h; cases m <;> simp [encMapOp] at h <;> exact be8_ne _ h.1
  complete := rawMapOp_complete
  prefix_more := rawMapOp_prefix

/-! ### map messages -/

@[simp] theorem drop17_be8 (n t m : Nat) (l : List Nat) :
    List.drop 17 (be 8 n ++ t :: (be 8 m ++ l)) = l := by
  show List.drop (9 + 8) _ = _
  rw [← List.drop_drop, drop9_be8, drop_be8]

theorem encMapOp_shape (m : MapOp) :
    ∃ n t body, encMapOp m = be 8 n ++ (t :: body) ∧ t ≠ mapTake ∧ t ≠ mapDrop := by
  cases m with
  | update k v => exact ⟨_, _, _, rfl, by decide, by decide⟩
  | remove k => exact ⟨_, _, _, rfl, by decide, by decide⟩
  | clear => exact ⟨_, _, _, rfl, by decide, by decide⟩

theorem rawMapMsg_complete (m : MapMsg) (hm : okMapMsg m) (tail : List Nat) :
    rawMapMsg (encMapMsg m ++ tail) = (tail, .item m) := by
  cases m with
  | op o =>
    obtain ⟨n, t, body, he, h1, h2⟩ := encMapOp_shape o
    have hc := rawMapOp_complete o hm tail
    simp only [encMapMsg]
    simp only [he, List.append_assoc, List.cons_append] at hc ⊢
    simp [rawMapMsg, mapTagSize, mapLenSize, h1, h2, hc, Out.map]
    ifs
  | take n =>
    have hn : n < M64 := hm
    have h8 : rd (be 8 9) = 9 := rd_be8 (by omega)
    have h9 : rd (be 8 n) = n := rd_be8 hn
    simp [rawMapMsg, encMapMsg, mapTagSize, mapLenSize, h8, h9, mapTake, mapDrop]
    ifs
  | drop n =>
    have hn : n < M64 := hm
    have h8 : rd (be 8 9) = 9 := rd_be8 (by omega)
    have h9 : rd (be 8 n) = n := rd_be8 hn
    simp [rawMapMsg, encMapMsg, mapTagSize, mapLenSize, h8, h9, mapTake, mapDrop]
    ifs

theorem rawMapMsg_prefix (m : MapMsg) (hm : okMapMsg m) (pre q : List Nat) (hpq : pre ++ q = encMapMsg m)
    (hq : q ≠ []) : rawMapMsg pre = (pre, .more) := by
  have hql : 0 < q.length := List.length_pos_iff.mpr hq
  by_cases h : pre.length < 9
  · simp [rawMapMsg, mapLenSize, mapTagSize, h]
  · cases m with
    | op o =>
      obtain ⟨n, t, body, he, h1, h2⟩ := encMapOp_shape o
      have hc := rawMapOp_prefix o hm pre q hpq hq
      simp only [encMapMsg, he] at hpq
      obtain ⟨p', e1, e2⟩ := frame_prefix hpq (by omega)
      subst e1
      simp [rawMapMsg, mapTagSize, mapLenSize, h1, h2, hc, Out.map]
    | take n =>
      have h8 : rd (be 8 9) = 9 := rd_be8 (by omega)
      simp only [encMapMsg, mapLenSize, mapTagSize] at hpq
      obtain ⟨p', e1, e2⟩ := frame_prefix hpq (by omega)
      have hl := congrArg List.length e2
      simp at hl
      subst e1
      simp [rawMapMsg, mapTagSize, mapLenSize, h8, mapTake, mapDrop]
      ifs
    | drop n =>
      have h8 : rd (be 8 9) = 9 := rd_be8 (by omega)
      simp only [encMapMsg, mapLenSize, mapTagSize] at hpq
      obtain ⟨p', e1, e2⟩ := frame_prefix hpq (by omega)
      have hl := congrArg List.length e2
      simp at hl
      subst e1
      simp [rawMapMsg, mapTagSize, mapLenSize, h8, mapTake, mapDrop]
      ifs

theorem rawMapMsg_lawful : PLawful rawMapMsg encMapMsg okMapMsg where
  enc_ne := by
    intro m hm h
    cases m with
    | op o => exact rawMapOp_lawful.enc_ne o hm h
    | take n => simp [encMapMsg] at h
    | drop n => simp [encMapMsg] at h
  complete := rawMapMsg_complete
  prefix_more := rawMapMsg_prefix

/-! ### lane request / response wrappers (over any lawful body parser) -/

variable {β : Type} {p : Parser β} {enc : β → List Nat} {ok : β → Prop}

theorem laneRequest_lawful (P : PLawful p enc ok) :
    Lawful (laneRequest p) (encLaneReq enc) (okLaneReq ok) (fun _ => True) where
  wf_init := trivial
  view_init := rfl
  enc_ne := by intro m _ h; cases m <;> simp [encLaneReq] at h
  complete := by
    intro m hm s buf tail _ hv
    cases s with
    | header =>
      simp only [laneRequest, List.nil_append] at hv ⊢
      subst hv
      cases m with
      | command b =>
        simp [laneReqStep, encLaneReq, tagLen, laneReqBody, P.complete b hm tail]
      | sync id =>
        have hid : id.length = 16 := hm
        simp [laneReqStep, encLaneReq, tagLen, idLen, laneCommand, laneSync, hid, List.take_left' hid,
          List.drop_left' hid]
        ifs
      | initComplete =>
        simp [laneReqStep, encLaneReq, tagLen, laneCommand, laneSync, laneInitDone]
    | body =>
      simp only [laneRequest] at hv ⊢
      cases m with
      | command b =>
        simp [encLaneReq] at hv
        subst hv
        simp [laneReqStep, laneReqBody, P.complete b hm tail]
      | sync id => simp [encLaneReq, laneCommand, laneSync] at hv
      | initComplete => simp [encLaneReq, laneCommand, laneInitDone] at hv
  prefix_more := by
    intro m hm pre q hpq hq s buf _ hv
    have hql : 0 < q.length := List.length_pos_iff.mpr hq
    cases s with
    | header =>
      simp only [laneRequest, List.nil_append] at hv ⊢
      subst hv
      cases buf with
      | nil => simp [laneReqStep, tagLen]
      | cons t pre' =>
        cases m with
        | command b =>
          simp [encLaneReq] at hpq
          obtain ⟨e1, e2⟩ := hpq
          subst e1
          simp [laneReqStep, tagLen, laneReqBody, P.prefix_more b hm pre' q e2 hq]
        | sync id =>
          have hid : id.length = 16 := hm
          simp [encLaneReq] at hpq
          obtain ⟨e1, e2⟩ := hpq
          subst e1
          have hl := congrArg List.length e2
          simp at hl
          have h17 : pre'.length + 1 < 17 := by omega
          simp [laneReqStep, tagLen, idLen, laneCommand, laneSync, h17]
        | initComplete =>
          simp [encLaneReq] at hpq
          exact absurd hpq.2.2 hq
    | body =>
      simp only [laneRequest] at hv ⊢
      cases m with
      | command b =>
        subst hv
        simp [encLaneReq] at hpq
        simp [laneReqStep, laneReqBody, P.prefix_more b hm buf q hpq hq]
      | sync id => subst hv; simp [encLaneReq, laneCommand, laneSync] at hpq
      | initComplete => subst hv; simp [encLaneReq, laneCommand, laneInitDone] at hpq

theorem laneResponse_lawful (P : PLawful p enc ok) :
    Lawful (laneResponse p) (encLaneResp enc) (okLaneResp ok) wfResp where
  wf_init := trivial
  view_init := rfl
  enc_ne := by intro m _ h; cases m <;> simp [encLaneResp] at h
  complete := by
    intro m hm s buf tail hwf hv
    cases s with
    | header =>
      simp only [laneResponse, List.nil_append] at hv ⊢
      subst hv
      cases m with
      | event b =>
        simp [laneRespStep, encLaneResp, tagLen, laneRespBody, P.complete b hm tail]
      | initialized =>
        simp [laneRespStep, encLaneResp, tagLen, laneEvent, laneInitialized]
      | syncEvent id b =>
        obtain ⟨hid, hb⟩ := hm
        simp [laneRespStep, encLaneResp, tagLen, idLen, laneEvent, laneInitialized, laneSync, hid,
          List.take_left' hid, List.drop_left' hid, laneRespBody, P.complete b hb tail]
        ifs
      | synced id =>
        have hid : id.length = 16 := hm
        simp [laneRespStep, encLaneResp, tagLen, idLen, laneEvent, laneInitialized, laneSync, laneSyncComplete,
          hid, List.take_left' hid, List.drop_left' hid]
        ifs
    | std =>
      simp only [laneResponse] at hv ⊢
      cases m with
      | event b =>
        simp [encLaneResp] at hv
        subst hv
        simp [laneRespStep, laneRespBody, P.complete b hm tail]
      | initialized => simp [encLaneResp, laneEvent, laneInitialized] at hv
      | syncEvent id b => simp [encLaneResp, laneEvent, laneSync] at hv
      | synced id => simp [encLaneResp, laneEvent, laneSyncComplete] at hv
    | sync id0 =>
      have hid0 : id0.length = 16 := hwf
      simp only [laneResponse] at hv ⊢
      cases m with
      | event b => simp [encLaneResp, laneEvent, laneSync] at hv
      | initialized => simp [encLaneResp, laneSync, laneInitialized] at hv
      | syncEvent id b =>
        obtain ⟨hid, hb⟩ := hm
        simp [encLaneResp] at hv
        have := List.append_inj hv (by omega)
        obtain ⟨e1, e2⟩ := this
        subst e1 e2
        simp [laneRespStep, laneRespBody, P.complete b hb tail]
      | synced id => simp [encLaneResp, laneSync, laneSyncComplete] at hv
  prefix_more := by
    intro m hm pre q hpq hq s buf hwf hv
    have hql : 0 < q.length := List.length_pos_iff.mpr hq
    cases s with
    | header =>
      simp only [laneResponse, List.nil_append] at hv ⊢
      subst hv
      cases buf with
      | nil => simp [laneRespStep, tagLen, wfResp]
      | cons t pre' =>
        cases m with
        | event b =>
          simp [encLaneResp] at hpq
          obtain ⟨e1, e2⟩ := hpq
          subst e1
          simp [laneRespStep, tagLen, laneRespBody, P.prefix_more b hm pre' q e2 hq, wfResp]
        | initialized =>
          simp [encLaneResp] at hpq
          exact absurd hpq.2.2 hq
        | syncEvent id b =>
          obtain ⟨hid, hb⟩ := hm
          simp [encLaneResp] at hpq
          obtain ⟨e1, e2⟩ := hpq
          subst e1
          by_cases h16 : pre'.length < 16
          · simp [laneRespStep, tagLen, idLen, laneEvent, laneInitialized, laneSync, h16, wfResp]
          · obtain ⟨p'', f1, f2⟩ := split_of_le e2 (by omega)
            subst f1
            have hn : ¬ (16 + p''.length < 16) := by omega
            simp [laneRespStep, tagLen, idLen, laneEvent, laneInitialized, laneSync, hid, List.take_left' hid,
              List.drop_left' hid, laneRespBody, P.prefix_more b hb p'' q f2.symm hq, wfResp, hn]
        | synced id =>
          have hid : id.length = 16 := hm
          simp [encLaneResp] at hpq
          obtain ⟨e1, e2⟩ := hpq
          subst e1
          have hl := congrArg List.length e2
          simp at hl
          have h16 : pre'.length < 16 := by omega
          simp [laneRespStep, tagLen, idLen, laneEvent, laneInitialized, laneSync, laneSyncComplete, h16, wfResp]
    | std =>
      simp only [laneResponse] at hv ⊢
      subst hv
      cases m with
      | event b =>
        simp [encLaneResp] at hpq
        simp [laneRespStep, laneRespBody, P.prefix_more b hm buf q hpq hq, wfResp]
      | initialized => simp [encLaneResp, laneEvent, laneInitialized] at hpq
      | syncEvent id b => simp [encLaneResp, laneEvent, laneSync] at hpq
      | synced id => simp [encLaneResp, laneEvent, laneSyncComplete] at hpq
    | sync id0 =>
      have hid0 : id0.length = 16 := hwf
      simp only [laneResponse] at hv ⊢
      subst hv
      cases m with
      | event b => simp [encLaneResp, laneEvent, laneSync] at hpq
      | initialized => simp [encLaneResp, laneSync, laneInitialized] at hpq
      | syncEvent id b =>
        obtain ⟨hid, hb⟩ := hm
        simp [encLaneResp] at hpq
        have := List.append_inj hpq (by omega)
        obtain ⟨e1, e2⟩ := this
        subst e1
        simp [laneRespStep, laneRespBody, P.prefix_more b hb buf q e2 hq, wfResp, hid0]
      | synced id =>
        simp [encLaneResp, laneSync, laneSyncComplete] at hpq


/-! ### store protocol -/

theorem storeInit_lawful (P : PLawful p enc ok) :
    Lawful (storeInit p) (encStoreInit enc) (okStoreInit ok) (fun _ => True) where
  wf_init := trivial
  view_init := rfl
  enc_ne := by intro m _ h; cases m <;> simp [encStoreInit] at h
  complete := by
    intro m hm s buf tail _ hv
    cases s with
    | header =>
      simp only [storeInit, List.nil_append] at hv ⊢
      subst hv
      cases m with
      | command b => simp [storeInitStep, encStoreInit, tagLen, storeInitBody, P.complete b hm tail]
      | initComplete => simp [storeInitStep, encStoreInit, tagLen, laneCommand, laneInitDone]
    | body =>
      simp only [storeInit] at hv ⊢
      cases m with
      | command b =>
        simp [encStoreInit] at hv
        subst hv
        simp [storeInitStep, storeInitBody, P.complete b hm tail]
      | initComplete => simp [encStoreInit, laneCommand, laneInitDone] at hv
  prefix_more := by
    intro m hm pre q hpq hq s buf _ hv
    cases s with
    | header =>
      simp only [storeInit, List.nil_append] at hv ⊢
      subst hv
      cases buf with
      | nil => simp [storeInitStep, tagLen]
      | cons t pre' =>
        cases m with
        | command b =>
          simp [encStoreInit] at hpq
          obtain ⟨e1, e2⟩ := hpq
          subst e1
          simp [storeInitStep, tagLen, storeInitBody, P.prefix_more b hm pre' q e2 hq]
        | initComplete =>
          simp [encStoreInit] at hpq
          exact absurd hpq.2.2 hq
    | body =>
      simp only [storeInit] at hv ⊢
      cases m with
      | command b =>
        subst hv
        simp [encStoreInit] at hpq
        simp [storeInitStep, storeInitBody, P.prefix_more b hm buf q hpq hq]
      | initComplete => subst hv; simp [encStoreInit, laneCommand, laneInitDone] at hpq

theorem storeInitialized_lawful : PLawful storeInitialized encStoreInitialized (fun _ => True) where
  enc_ne := by intro m _ h; simp [encStoreInitialized] at h
  complete := by intro m _ tail; simp [storeInitialized, encStoreInitialized, tagLen]
  prefix_more := by
    intro m _ pre q hpq hq
    cases pre with
    | nil => simp [storeInitialized, tagLen]
    | cons a l => simp [encStoreInitialized] at hpq; exact absurd hpq.2.2 hq

/-- The header guard `remaining() <= TAG_LEN` needs the body encoding to be non-empty (it always is: every
body codec writes at least a length). -/
theorem storeResponse_lawful (P : PLawful p enc ok) :
    Lawful (storeResponse p) (encStoreResp enc) ok (fun _ => True) where
  wf_init := trivial
  view_init := rfl
  enc_ne := by intro m _ h; simp [encStoreResp] at h
  complete := by
    intro m hm s buf tail _ hv
    have hne := P.enc_ne m hm
    cases s with
    | header =>
      simp only [storeResponse, List.nil_append] at hv ⊢
      subst hv
      have hl : 0 < (enc m).length := List.length_pos_iff.mpr hne
      have : ¬ ((enc m).length + tail.length + 1 ≤ 1) := by omega
      simp [storeRespStep, encStoreResp, tagLen, storeRespBody, P.complete m hm tail, this]
    | body =>
      simp only [storeResponse] at hv ⊢
      simp [encStoreResp] at hv
      subst hv
      simp [storeRespStep, storeRespBody, P.complete m hm tail]
  prefix_more := by
    intro m hm pre q hpq hq s buf _ hv
    cases s with
    | header =>
      simp only [storeResponse, List.nil_append] at hv ⊢
      subst hv
      cases buf with
      | nil => simp [storeRespStep, tagLen]
      | cons t pre' =>
        simp [encStoreResp] at hpq
        obtain ⟨e1, e2⟩ := hpq
        subst e1
        cases pre' with
        | nil => simp [storeRespStep, tagLen]
        | cons a l =>
          simp [storeRespStep, tagLen, storeRespBody, P.prefix_more m hm (a :: l) q e2 hq]
    | body =>
      simp only [storeResponse] at hv ⊢
      subst hv
      simp [encStoreResp] at hpq
      simp [storeRespStep, storeRespBody, P.prefix_more m hm buf q hpq hq]

/-! ### DownlinkOperationDecoder -/

theorem dl_enc_ne : ∀ m, okBytes m → encWlb m ≠ [] := by intro m _ h; simp [encWlb] at h; exact be8_ne _ h.1
theorem dl_complete : ∀ m, okBytes m → ∀ tail, downlinkOp (encWlb m ++ tail) = (tail, .item m) := by
    intro m hm tail
    unfold okBytes at hm
    have h8 : rd (be 8 m.length) = m.length := rd_be8 (by omega)
    simp [downlinkOp, encWlb, lenSize, h8]
    ifs
theorem dl_prefix : ∀ m, okBytes m → ∀ pre q, pre ++ q = encWlb m → q ≠ [] → downlinkOp pre = (pre, .more) := by
    intro m hm pre q hpq hq
    unfold okBytes at hm
    have h8 : rd (be 8 m.length) = m.length := rd_be8 (by omega)
    have hql : 0 < q.length := List.length_pos_iff.mpr hq
    have hlen := congrArg List.length hpq
    simp [encWlb] at hlen
    by_cases h : pre.length < 8
    · have : ¬ (8 ≤ pre.length) := by omega
      simp [downlinkOp, lenSize, this]
    · obtain ⟨p', h1, h2⟩ := split_of_le (a := be 8 m.length) (b := m) hpq (by simp; omega)
      subst h1
      have hl2 := congrArg List.length h2
      simp at hl2
      simp only [downlinkOp, lenSize, take_be8, drop_be8, h8, List.length_append, be_length]
      ifs

theorem downlinkOp_lawful : PLawful downlinkOp encWlb okBytes where
  enc_ne := dl_enc_ne
  complete := dl_complete
  prefix_more := dl_prefix

/-! ### routed request / response messages -/

theorem rd_be4 {n : Nat} (h : n < 4294967296) : rd (be 4 n) = n := rd_be_lt (by simpa using h)

/-- Reading the fixed 32-byte header. -/
theorem hdr_parts (origin : Bytes) (a b c : Nat) (rest : Bytes) (ho : origin.length = 16) :
    (origin ++ (be 4 a ++ (be 4 b ++ (be 8 c ++ rest)))).take 16 = origin ∧
    ((origin ++ (be 4 a ++ (be 4 b ++ (be 8 c ++ rest)))).drop 16).take 4 = be 4 a ∧
    ((origin ++ (be 4 a ++ (be 4 b ++ (be 8 c ++ rest)))).drop 20).take 4 = be 4 b ∧
    ((origin ++ (be 4 a ++ (be 4 b ++ (be 8 c ++ rest)))).drop 24).take 8 = be 8 c ∧
    (origin ++ (be 4 a ++ (be 4 b ++ (be 8 c ++ rest)))).drop 32 = rest ∧
    (origin ++ (be 4 a ++ (be 4 b ++ (be 8 c ++ rest)))).length = 32 + rest.length := by
  have d16 : (origin ++ (be 4 a ++ (be 4 b ++ (be 8 c ++ rest)))).drop 16 = be 4 a ++ (be 4 b ++ (be 8 c ++ rest)) :=
    List.drop_left' ho
  have d20 : (origin ++ (be 4 a ++ (be 4 b ++ (be 8 c ++ rest)))).drop 20 = be 4 b ++ (be 8 c ++ rest) := by
    show List.drop (16 + 4) _ = _
    rw [← List.drop_drop, d16]; exact List.drop_left' (be_length 4 a)
  have d24 : (origin ++ (be 4 a ++ (be 4 b ++ (be 8 c ++ rest)))).drop 24 = be 8 c ++ rest := by
    show List.drop (20 + 4) _ = _
    rw [← List.drop_drop, d20]; exact List.drop_left' (be_length 4 b)
  have d32 : (origin ++ (be 4 a ++ (be 4 b ++ (be 8 c ++ rest)))).drop 32 = rest := by
    show List.drop (24 + 8) _ = _
    rw [← List.drop_drop, d24]; exact List.drop_left' (be_length 8 c)
  refine ⟨List.take_left' ho, ?_, ?_, ?_, d32, ?_⟩
  · rw [d16]; exact List.take_left' (be_length 4 a)
  · rw [d20]; exact List.take_left' (be_length 4 b)
  · rw [d24]; exact List.take_left' (be_length 8 c)
  · simp [ho]; omega

/-- `msgAfterHeader` on a buffer whose header, node and lane are in place. -/
theorem msgAfterHeader_ok {α : Type} (origin node lane rest : Bytes) (a b c : Nat) (ho : origin.length = 16)
    (hn : utf8Valid node = true) (hl : utf8Valid lane = true)
    (k : Bytes → Bytes → Bytes → Bytes → Bytes × Out α) :
    msgAfterHeader (origin ++ (be 4 a ++ (be 4 b ++ (be 8 c ++ (node ++ (lane ++ rest)))))) node.length lane.length k
      = k origin node lane rest := by
  obtain ⟨h1, _, _, _, h5, _⟩ := hdr_parts origin a b c (node ++ (lane ++ rest)) ho
  simp only [msgAfterHeader, h5, h1, List.take_left, List.drop_left, hn, hl, if_true]

structure OkAddr (origin node lane : Bytes) : Prop where
  ho : origin.length = 16
  hn : node.length < 4294967296
  hl : lane.length < 4294967296
  un : utf8Valid node = true
  ul : utf8Valid lane = true

/-- One complete frame in front of `rest'` (the body, if any, and whatever follows). -/
theorem rawRequest_frame (origin node lane rest : Bytes) (tag len : Nat) (A : OkAddr origin node lane)
    (hlen : len < OPSH) (htag : tag < 8) (hr : len ≤ rest.length) :
    rawRequest (origin ++ (be 4 node.length ++ (be 4 lane.length ++ (be 8 (len + tag * OPSH) ++
        (node ++ (lane ++ rest))))))
      = if tag = msgLink ∧ len = 0 then (rest, .item ⟨origin, node, lane, .link⟩)
        else if tag = msgSync ∧ len = 0 then (rest, .item ⟨origin, node, lane, .sync⟩)
        else if tag = msgUnlink ∧ len = 0 then (rest, .item ⟨origin, node, lane, .unlink⟩)
        else if tag = msgCommand then (rest.drop len, .item ⟨origin, node, lane, .command (rest.take len)⟩)
        else (rest.drop len, .err) := by
  obtain ⟨h1, h2, h3, h4, h5, h6⟩ :=
    hdr_parts origin node.length lane.length (len + tag * OPSH) (node ++ (lane ++ rest)) A.ho
  have r2 := rd_be4 A.hn
  have r3 := rd_be4 A.hl
  have r4 : rd (be 8 (len + tag * OPSH)) = len + tag * OPSH := rd_be8 (by omega)
  have m1 : (len + tag * OPSH) % OPSH = len := by omega
  have m2 : (len + tag * OPSH) / OPSH = tag := by omega
  unfold rawRequest
  rw [h2, h3, h4, r2, r3, r4, m1, m2, h6, msgAfterHeader_ok origin node lane rest _ _ _ A.ho A.un A.ul]
  have e1 : ¬ (32 + (node ++ (lane ++ rest)).length < headerInitLen) := by simp [headerInitLen]
  have e2 : ¬ (32 + (node ++ (lane ++ rest)).length < headerInitLen + node.length + lane.length + len) := by
    simp [headerInitLen]; omega
  rw [if_neg e1, if_neg e2]

/-- Well-formed address, and a frame size that fits the 61-bit length field. -/
def okReqMsg (m : ReqMsg) : Prop :=
  OkAddr m.origin m.node m.lane ∧ (encReqMsg m).length < OPSH

theorem encReqMsg_shape (m : ReqMsg) :
    ∃ tag len body, tag < 8 ∧ body.length = len ∧
      (m.env = .link ∧ tag = msgLink ∧ len = 0 ∨ m.env = .sync ∧ tag = msgSync ∧ len = 0 ∨
       m.env = .unlink ∧ tag = msgUnlink ∧ len = 0 ∨ m.env = .command body ∧ tag = msgCommand) ∧
      encReqMsg m = m.origin ++ (be 4 m.node.length ++ (be 4 m.lane.length ++ (be 8 (len + tag * OPSH) ++
        (m.node ++ (m.lane ++ body))))) := by
  obtain ⟨o, n, l, e⟩ := m
  cases e with
  | link => exact ⟨msgLink, 0, [], by decide, rfl, Or.inl ⟨rfl, rfl, rfl⟩, by simp [encReqMsg, msgHeader]⟩
  | sync => exact ⟨msgSync, 0, [], by decide, rfl, Or.inr (Or.inl ⟨rfl, rfl, rfl⟩), by simp [encReqMsg, msgHeader]⟩
  | unlink =>
    exact ⟨msgUnlink, 0, [], by decide, rfl, Or.inr (Or.inr (Or.inl ⟨rfl, rfl, rfl⟩)), by simp [encReqMsg, msgHeader]⟩
  | command b =>
    exact ⟨msgCommand, b.length, b, by decide, rfl, Or.inr (Or.inr (Or.inr ⟨rfl, rfl⟩)),
      by simp [encReqMsg, msgHeader]⟩

theorem rawRequest_complete (m : ReqMsg) (hm : okReqMsg m) (tail : Bytes) :
    rawRequest (encReqMsg m ++ tail) = (tail, .item m) := by
  obtain ⟨tag, len, body, htag, hbl, hk, henc⟩ := encReqMsg_shape m
  obtain ⟨A, hb⟩ := hm
  have hlen : len < OPSH := by
    have := congrArg List.length henc
    simp at this
    omega
  have := rawRequest_frame m.origin m.node m.lane (body ++ tail) tag len A hlen htag (by simp; omega)
  rw [henc]
  simp only [List.append_assoc] at this ⊢
  rw [this]
  obtain ⟨o, n, l, e⟩ := m
  rcases hk with ⟨he, ht, hl0⟩ | ⟨he, ht, hl0⟩ | ⟨he, ht, hl0⟩ | ⟨he, ht⟩
  · simp only at he; subst he ht hl0
    have : body = [] := List.eq_nil_of_length_eq_zero hbl
    subst this; simp
  · simp only at he; subst he ht hl0
    have : body = [] := List.eq_nil_of_length_eq_zero hbl
    subst this; simp [msgSync, msgLink]
  · simp only at he; subst he ht hl0
    have : body = [] := List.eq_nil_of_length_eq_zero hbl
    subst this; simp [msgSync, msgLink, msgUnlink]
  · simp only at he; subst he ht hbl
    simp [msgSync, msgLink, msgUnlink, msgCommand]

theorem rawRequest_prefix (m : ReqMsg) (hm : okReqMsg m) (pre q : Bytes) (hpq : pre ++ q = encReqMsg m)
    (hq : q ≠ []) : rawRequest pre = (pre, .more) := by
  have hql : 0 < q.length := List.length_pos_iff.mpr hq
  by_cases h : pre.length < 32
  · simp [rawRequest, headerInitLen, h]
  · obtain ⟨tag, len, body, htag, hbl, hk, henc⟩ := encReqMsg_shape m
    obtain ⟨A, hb⟩ := hm
    have hlenc := congrArg List.length henc
    simp [A.ho] at hlenc
    have hlen : len < OPSH := by omega
    rw [henc] at hpq
    have hpq' : pre ++ q = (m.origin ++ (be 4 m.node.length ++ (be 4 m.lane.length ++ be 8 (len + tag * OPSH)))) ++
        (m.node ++ (m.lane ++ body)) := by simp [hpq]
    obtain ⟨p', e1, e2⟩ := split_of_le hpq' (by simp [A.ho]; omega)
    have e1' : pre = m.origin ++ (be 4 m.node.length ++ (be 4 m.lane.length ++ (be 8 (len + tag * OPSH) ++ p'))) := by
      simp [e1]
    have hl2 := congrArg List.length e2
    simp at hl2
    obtain ⟨h1, h2, h3, h4, h5, h6⟩ := hdr_parts m.origin m.node.length m.lane.length (len + tag * OPSH) p' A.ho
    have r2 := rd_be4 A.hn
    have r3 := rd_be4 A.hl
    have r4 : rd (be 8 (len + tag * OPSH)) = len + tag * OPSH := rd_be8 (by omega)
    have m1 : (len + tag * OPSH) % OPSH = len := by omega
    unfold rawRequest
    rw [e1']
    rw [h2, h3, h4, r2, r3, r4, m1, h6]
    have c1 : ¬ (32 + p'.length < headerInitLen) := by simp [headerInitLen]
    have c2 : 32 + p'.length < headerInitLen + m.node.length + m.lane.length + len := by
      simp [headerInitLen]; omega
    rw [if_neg c1, if_pos c2]

theorem rawRequest_lawful : PLawful rawRequest encReqMsg okReqMsg where
  enc_ne := by
    intro m hm h
    obtain ⟨tag, len, body, _, _, _, henc⟩ := encReqMsg_shape m
    have := congrArg List.length (henc.symm.trans h)
    simp [hm.1.ho] at this
  complete := rawRequest_complete
  prefix_more := rawRequest_prefix
theorem rawResponse_frame (origin node lane rest : Bytes) (tag len : Nat) (A : OkAddr origin node lane)
    (hlen : len < OPSH) (htag : tag < 8) (hr : len ≤ rest.length) :
    rawResponse (origin ++ (be 4 node.length ++ (be 4 lane.length ++ (be 8 (len + tag * OPSH) ++
        (node ++ (lane ++ rest))))))
      = if tag = msgLinked ∧ len = 0 then (rest, .item ⟨origin, node, lane, .linked⟩)
        else if tag = msgSynced ∧ len = 0 then (rest, .item ⟨origin, node, lane, .synced⟩)
        else if tag = msgUnlinked then
          (if len = 0 then (rest, .item ⟨origin, node, lane, .unlinked none⟩)
           else (rest.drop len, .item ⟨origin, node, lane, .unlinked (some (rest.take len))⟩))
        else if tag = msgEvent then (rest.drop len, .item ⟨origin, node, lane, .event (rest.take len)⟩)
        else (rest.drop len, .err) := by
  obtain ⟨h1, h2, h3, h4, h5, h6⟩ :=
    hdr_parts origin node.length lane.length (len + tag * OPSH) (node ++ (lane ++ rest)) A.ho
  have r2 := rd_be4 A.hn
  have r3 := rd_be4 A.hl
  have r4 : rd (be 8 (len + tag * OPSH)) = len + tag * OPSH := rd_be8 (by omega)
  have m1 : (len + tag * OPSH) % OPSH = len := by omega
  have m2 : (len + tag * OPSH) / OPSH = tag := by omega
  unfold rawResponse
  rw [h2, h3, h4, r2, r3, r4, m1, m2, h6, msgAfterHeader_ok origin node lane rest _ _ _ A.ho A.un A.ul]
  have e1 : ¬ (32 + (node ++ (lane ++ rest)).length < headerInitLen) := by simp [headerInitLen]
  have e2 : ¬ (32 + (node ++ (lane ++ rest)).length < headerInitLen + node.length + lane.length + len) := by
    simp [headerInitLen]; omega
  rw [if_neg e1, if_neg e2]

/-- Well-formed address, a frame size that fits the 61-bit length field, and not the one message whose wire
form is shared with another (`Unlinked(Some(b""))` is written exactly like `Unlinked(None)`). -/
def okRespMsg (m : RespMsg) : Prop :=
  OkAddr m.origin m.node m.lane ∧ (encRespMsg m).length < OPSH ∧ m.env ≠ .unlinked (some [])

theorem encRespMsg_shape (m : RespMsg) (hne : m.env ≠ .unlinked (some [])) :
    ∃ tag len body, tag < 8 ∧ body.length = len ∧
      (m.env = .linked ∧ tag = msgLinked ∧ len = 0 ∨ m.env = .synced ∧ tag = msgSynced ∧ len = 0 ∨
       m.env = .unlinked none ∧ tag = msgUnlinked ∧ len = 0 ∨
       m.env = .unlinked (some body) ∧ tag = msgUnlinked ∧ len ≠ 0 ∨ m.env = .event body ∧ tag = msgEvent) ∧
      encRespMsg m = m.origin ++ (be 4 m.node.length ++ (be 4 m.lane.length ++ (be 8 (len + tag * OPSH) ++
        (m.node ++ (m.lane ++ body))))) := by
  obtain ⟨o, n, l, e⟩ := m
  cases e with
  | linked => exact ⟨msgLinked, 0, [], by decide, rfl, Or.inl ⟨rfl, rfl, rfl⟩, by simp [encRespMsg, msgHeader]⟩
  | synced =>
    exact ⟨msgSynced, 0, [], by decide, rfl, Or.inr (Or.inl ⟨rfl, rfl, rfl⟩), by simp [encRespMsg, msgHeader]⟩
  | unlinked b =>
    cases b with
    | none =>
      exact ⟨msgUnlinked, 0, [], by decide, rfl, Or.inr (Or.inr (Or.inl ⟨rfl, rfl, rfl⟩)),
        by simp [encRespMsg, msgHeader]⟩
    | some b =>
      have hb : b ≠ [] := by intro h; subst h; exact hne rfl
      exact ⟨msgUnlinked, b.length, b, by decide, rfl,
        Or.inr (Or.inr (Or.inr (Or.inl ⟨rfl, rfl, fun h => hb (List.eq_nil_of_length_eq_zero h)⟩))),
        by simp [encRespMsg, msgHeader]⟩
  | event b =>
    exact ⟨msgEvent, b.length, b, by decide, rfl, Or.inr (Or.inr (Or.inr (Or.inr ⟨rfl, rfl⟩))),
      by simp [encRespMsg, msgHeader]⟩

theorem rawResponse_complete (m : RespMsg) (hm : okRespMsg m) (tail : Bytes) :
    rawResponse (encRespMsg m ++ tail) = (tail, .item m) := by
  obtain ⟨A, hb, hne⟩ := hm
  obtain ⟨tag, len, body, htag, hbl, hk, henc⟩ := encRespMsg_shape m hne
  have hlen : len < OPSH := by
    have := congrArg List.length henc
    simp at this
    omega
  have := rawResponse_frame m.origin m.node m.lane (body ++ tail) tag len A hlen htag (by simp; omega)
  rw [henc]
  simp only [List.append_assoc] at this ⊢
  rw [this]
  obtain ⟨o, n, l, e⟩ := m
  rcases hk with ⟨he, ht, hl0⟩ | ⟨he, ht, hl0⟩ | ⟨he, ht, hl0⟩ | ⟨he, ht, hl0⟩ | ⟨he, ht⟩
  · simp only at he; subst he ht hl0
    have : body = [] := List.eq_nil_of_length_eq_zero hbl
    subst this; simp
  · simp only at he; subst he ht hl0
    have : body = [] := List.eq_nil_of_length_eq_zero hbl
    subst this; simp [msgSynced, msgLinked]
  · simp only at he; subst he ht hl0
    have : body = [] := List.eq_nil_of_length_eq_zero hbl
    subst this; simp [msgSynced, msgLinked, msgUnlinked]
  · simp only at he; subst he ht hbl
    simp [msgSynced, msgLinked, msgUnlinked, hl0]
  · simp only at he; subst he ht hbl
    simp [msgSynced, msgLinked, msgUnlinked, msgEvent]

theorem rawResponse_prefix (m : RespMsg) (hm : okRespMsg m) (pre q : Bytes) (hpq : pre ++ q = encRespMsg m)
    (hq : q ≠ []) : rawResponse pre = (pre, .more) := by
  have hql : 0 < q.length := List.length_pos_iff.mpr hq
  by_cases h : pre.length < 32
  · simp [rawResponse, headerInitLen, h]
  · obtain ⟨A, hb, hne⟩ := hm
    obtain ⟨tag, len, body, htag, hbl, hk, henc⟩ := encRespMsg_shape m hne
    have hlenc := congrArg List.length henc
    simp [A.ho] at hlenc
    have hlen : len < OPSH := by omega
    rw [henc] at hpq
    have hpq' : pre ++ q = (m.origin ++ (be 4 m.node.length ++ (be 4 m.lane.length ++ be 8 (len + tag * OPSH)))) ++
        (m.node ++ (m.lane ++ body)) := by simp [hpq]
    obtain ⟨p', e1, e2⟩ := split_of_le hpq' (by simp [A.ho]; omega)
    have e1' : pre = m.origin ++ (be 4 m.node.length ++ (be 4 m.lane.length ++ (be 8 (len + tag * OPSH) ++ p'))) := by
      simp [e1]
    have hl2 := congrArg List.length e2
    simp at hl2
    obtain ⟨h1, h2, h3, h4, h5, h6⟩ := hdr_parts m.origin m.node.length m.lane.length (len + tag * OPSH) p' A.ho
    have r2 := rd_be4 A.hn
    have r3 := rd_be4 A.hl
    have r4 : rd (be 8 (len + tag * OPSH)) = len + tag * OPSH := rd_be8 (by omega)
    have m1 : (len + tag * OPSH) % OPSH = len := by omega
    unfold rawResponse
    rw [e1']
    rw [h2, h3, h4, r2, r3, r4, m1, h6]
    have c1 : ¬ (32 + p'.length < headerInitLen) := by simp [headerInitLen]
    have c2 : 32 + p'.length < headerInitLen + m.node.length + m.lane.length + len := by
      simp [headerInitLen]; omega
    rw [if_neg c1, if_pos c2]

theorem rawResponse_lawful : PLawful rawResponse encRespMsg okRespMsg where
  enc_ne := by
    intro m hm h
    obtain ⟨tag, len, body, _, _, _, henc⟩ := encRespMsg_shape m hm.2.2
    have := congrArg List.length (henc.symm.trans h)
    simp [hm.1.ho] at this
  complete := rawResponse_complete
  prefix_more := rawResponse_prefix

end SwimVerif.Frames
