/-
No lost wake-up for the two-load `Receiver::poll`, for every interleaving (`Model/CoordPoll.lean`).
-/
import SwimVerif.Model.CoordPoll

set_option linter.unusedVariables false
namespace SwimVerif.CoordPoll

structure Inv (s : St) : Prop where
  len : s.owes.length = s.bits.length
  /-- a wake-up is owed only once every flag is set -/
  j1 : anyOwes s = true → allSet s = true
  /-- a receiver that has registered and has not been woken still has its waker in the `AtomicWaker` -/
  j3 : (s.rpc = .registered ∨ s.rpc = .pending) → s.woken = false → s.slot = true
  /-- **no lost wake-up**: a receiver that was told `Pending`, with every flag set, has been woken — or the voter that
  set the last flag has yet to execute its `waker.wake()` -/
  p : s.twoLoads = true → s.rpc = .pending → allSet s = true → s.woken = true ∨ anyOwes s = true

theorem all_set_true (l : List Bool) (i : Nat) (h : l.all id = true) : (l.set i true).all id = true := by
  rw [List.all_eq_true] at h ⊢
  intro x hx
  rcases List.mem_or_eq_of_mem_set hx with hm | he
  · exact h x hm
  · rw [he]; rfl

theorem all_set_false (l : List Bool) (i : Nat) (hi : i < l.length) : (l.set i false).all id = false := by
  rw [List.all_eq_false]
  exact ⟨false, List.mem_iff_getElem.mpr ⟨i, by simpa using hi, by simp⟩, by simp⟩

theorem any_set_true (l : List Bool) (i : Nat) (hi : i < l.length) : (l.set i true).any id = true := by
  rw [List.any_eq_true]
  exact ⟨true, List.mem_iff_getElem.mpr ⟨i, by simpa using hi, by simp⟩, rfl⟩

theorem inv_init (n : Nat) (b : Bool) : Inv (init n b) := by
  refine ⟨by simp [init], ?_, ?_, ?_⟩
  · intro h; simp [anyOwes, init] at h
  · intro h; simp [init] at h
  · intro _ h; simp [init] at h

theorem inv_rpc {s : St} (h : Inv s) (r : RPC) (h1 : r ≠ .registered) (h2 : r ≠ .pending) : Inv { s with rpc := r } :=
  ⟨h.len, h.j1, fun hr => by rcases hr with hr | hr; exact absurd hr h1; exact absurd hr h2,
   fun _ hr => absurd hr h2⟩

theorem inv_step {s : St} (h : Inv s) (e : Ev) : Inv (step s e) := by
  cases e with
  | fetchOr i =>
    simp only [step]
    split
    · rename_i hc
      simp only [Bool.and_eq_true, decide_eq_true_eq] at hc
      split
      · rename_i hall
        refine ⟨by simp [h.len], fun _ => hall, h.j3, fun _ _ _ => Or.inr ?_⟩
        exact any_set_true _ _ (by rw [h.len]; exact hc.1)
      · rename_i hall
        refine ⟨by simp [h.len], ?_, h.j3, ?_⟩
        · intro ho; exact all_set_true _ _ (h.j1 ho)
        · intro _ _ ha; exact absurd ha hall
    · exact h
  | wake i =>
    simp only [step]
    split
    · split
      · refine ⟨by simp [h.len], ?_, fun _ hw => by simp at hw, fun _ _ _ => Or.inl rfl⟩
        intro ho
        -- something was owed before as well
        exact h.j1 (by
          simp only [anyOwes, List.any_eq_true] at ho ⊢
          rename_i hown _
          exact ⟨true, by
            have : s.owes.getD i false = true := hown
            rw [List.getD_eq_getElem?_getD] at this
            cases hg : s.owes[i]? with
            | none => simp [hg] at this
            | some b => simp [hg] at this; exact this ▸ List.mem_of_getElem? hg, rfl⟩)
      · rename_i hown hslot
        have hall : allSet s = true := h.j1 (by
          simp only [anyOwes, List.any_eq_true]
          exact ⟨true, by
            have : s.owes.getD i false = true := hown
            rw [List.getD_eq_getElem?_getD] at this
            cases hg : s.owes[i]? with
            | none => simp [hg] at this
            | some b => simp [hg] at this; exact this ▸ List.mem_of_getElem? hg, rfl⟩)
        refine ⟨by simp [h.len], fun _ => hall, h.j3, ?_⟩
        intro ht hp _
        -- pending and not woken would mean the waker is still stored: it is not
        cases hw : s.woken with
        | true => exact Or.inl rfl
        | false => exact absurd (h.j3 (Or.inr hp) hw) hslot
    · exact h
  | rescind i =>
    simp only [step]
    split
    · rename_i hc
      simp only [Bool.and_eq_true, decide_eq_true_eq, Bool.not_eq_true'] at hc
      have hna : (s.bits.set i false).all id = false := all_set_false _ _ hc.1.1
      refine ⟨by simp [h.len], ?_, h.j3, ?_⟩
      · intro ho; have := h.j1 ho; rw [hc.2] at this; cases this
      · intro _ _ ha; have : (s.bits.set i false).all id = true := ha; rw [hna] at this; cases this
    · exact h
  | load1 =>
    simp only [step]
    split
    · rename_i hi
      split
      · exact inv_rpc h _ (by decide) (by decide)
      · exact inv_rpc h _ (by decide) (by decide)
    · exact h
  | register =>
    simp only [step]
    split
    · refine ⟨h.len, h.j1, fun _ _ => rfl, ?_⟩
      intro ht hr
      have : s.twoLoads = true := ht
      simp [this] at hr
    · exact h
  | load2 =>
    simp only [step]
    split
    · rename_i hreg
      split
      · exact inv_rpc h _ (by decide) (by decide)
      · rename_i hna
        exact ⟨h.len, h.j1, fun _ hw => h.j3 (Or.inl hreg) hw, fun _ _ ha => absurd ha hna⟩
    · exact h
  | repoll =>
    simp only [step]
    split
    · exact inv_rpc h _ (by decide) (by decide)
    · exact h

theorem inv_run {s : St} (h : Inv s) (evs : List Ev) : Inv (run s evs) := by
  induction evs generalizing s with
  | nil => exact h
  | cons e evs ih => exact ih (inv_step h e)

end SwimVerif.CoordPoll
