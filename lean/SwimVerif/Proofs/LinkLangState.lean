/-
The link-language invariant of all attached remotes (`SInv`) under the operations of the remote tracker
(`St.pushSpecial`, `St.pushWrite`) and under the iterations of `unlink_all` / `remove_lane` / broadcast (C04).
`L r l` = remote `r` counts as linked to lane id `l`.
-/
import SwimVerif.Proofs.LinkLangFlow
import SwimVerif.Proofs.LinkLangLinks

set_option linter.unusedSimpArgs false
set_option linter.unusedVariables false
namespace SwimVerif.WT

/-- Checker state of remote `r`, by lane name. -/
def bOf (st : List (Nat × Bool)) (r : Nat) (n : Nat) : Bool := lst st (lkey r n)

def SInv (reg : Registry) (st : List (Nat × Bool)) (L : Nat → Nat → Prop) (rs : List (Nat × Remote)) : Prop :=
  ∀ r rem, alGet rs r = some rem → PInv reg (bOf st r) (L r) rem.up rem.inflight

/-- Update the entry of an attached remote. -/
def updR (rs : List (Nat × Remote)) (r : Nat) (f : Remote → Remote) : List (Nat × Remote) :=
  match alGet rs r with
  | none => rs
  | some rem => alSet rs r (f rem)

theorem alGet_updR (rs : List (Nat × Remote)) (r : Nat) (f : Remote → Remote) (r' : Nat) :
    alGet (updR rs r f) r' = if r = r' then (alGet rs r).map f else alGet rs r' := by
  unfold updR
  cases hg : alGet rs r with
  | none =>
    simp only []
    split
    · rename_i h; subst h; simp [hg]
    · rfl
  | some rem =>
    simp only [alGet_alSet]
    split <;> simp

def sameDom (rs rs' : List (Nat × Remote)) : Prop := ∀ r, alGet rs' r = none ↔ alGet rs r = none

theorem sameDom_refl (rs : List (Nat × Remote)) : sameDom rs rs := fun _ => Iff.rfl

theorem sameDom_trans {a b c : List (Nat × Remote)} (h1 : sameDom a b) (h2 : sameDom b c) : sameDom a c :=
  fun r => (h2 r).trans (h1 r)

theorem sameDom_updR (rs : List (Nat × Remote)) (r : Nat) (f : Remote → Remote) : sameDom rs (updR rs r f) := by
  intro r'
  rw [alGet_updR]
  split
  · rename_i h; subst h
    cases alGet rs r <;> simp
  · rfl

theorem sinv_updR {reg : Registry} {st : List (Nat × Bool)} {L L' : Nat → Nat → Prop} {rs : List (Nat × Remote)}
    (hs : SInv reg st L rs) (r : Nat) (f : Remote → Remote)
    (hf : ∀ rem, alGet rs r = some rem → PInv reg (bOf st r) (L' r) (f rem).up (f rem).inflight)
    (hL : ∀ r' l, r' ≠ r → L' r' l → L r' l) : SInv reg st L' (updR rs r f) := by
  intro r' rem' hg
  rw [alGet_updR] at hg
  split at hg
  · rename_i h; subst h
    cases hr : alGet rs r with
    | none => rw [hr] at hg; simp at hg
    | some rem =>
      rw [hr] at hg
      simp only [Option.map_some, Option.some.injEq] at hg
      subst hg
      exact hf rem hr
  · rename_i h
    exact pinv_mono (hs r' rem' hg) (fun l hl => hL r' l (fun e => h e.symm) hl)

theorem sinv_mono {reg : Registry} {st : List (Nat × Bool)} {L L' : Nat → Nat → Prop} {rs : List (Nat × Remote)}
    (hs : SInv reg st L rs) (hL : ∀ r l, L' r l → L r l) : SInv reg st L' rs :=
  fun r rem hg => pinv_mono (hs r rem hg) (hL r)

/-! ### the remote tracker -/

def psRemote (reg : Registry) (a : Special) (rem : Remote) : Remote :=
  { up := (rem.up.pushSpecial a reg).1, inflight := schedI (rem.up.pushSpecial a reg).2 rem.inflight }

def pwRemote (reg : Registry) (lane : Nat) (ev : Resp) (rem : Remote) : Remote :=
  { up := (rem.up.push lane ev reg).1, inflight := schedI (rem.up.push lane ev reg).2 rem.inflight }

theorem pushSpecial_eq (s : St) (r : Nat) (a : Special) :
    (s.pushSpecial r a).1 = { s with remotes := updR s.remotes r (psRemote s.reg a) } := by
  unfold St.pushSpecial St.remote? updR
  cases alGet s.remotes r with
  | none => rfl
  | some rem =>
    simp only [St.sched, psRemote, schedI]
    cases (rem.up.pushSpecial a s.reg).2 <;> rfl

theorem pushWrite_eq (s : St) (r : Nat) (lane : Nat) (ev : Resp) :
    (s.pushWrite r lane ev).1 = { s with remotes := updR s.remotes r (pwRemote s.reg lane ev) } := by
  unfold St.pushWrite St.remote? updR
  cases alGet s.remotes r with
  | none => rfl
  | some rem =>
    simp only [St.sched, pwRemote, schedI]
    cases (rem.up.push lane ev s.reg).2 <;> rfl

/-- What a remote-tracker operation leaves alone. -/
structure Same (s s' : St) : Prop where
  reg : s'.reg = s.reg
  links : s'.links = s.links
  orphans : s'.orphans = s.orphans
  dom : sameDom s.remotes s'.remotes

theorem same_refl (s : St) : Same s s := ⟨rfl, rfl, rfl, sameDom_refl _⟩

theorem same_trans {a b c : St} (h1 : Same a b) (h2 : Same b c) : Same a c :=
  ⟨h2.reg.trans h1.reg, h2.links.trans h1.links, h2.orphans.trans h1.orphans, sameDom_trans h1.dom h2.dom⟩

theorem same_pushSpecial (s : St) (r : Nat) (a : Special) : Same s (s.pushSpecial r a).1 := by
  rw [pushSpecial_eq]; exact ⟨rfl, rfl, rfl, sameDom_updR _ _ _⟩

theorem same_pushWrite (s : St) (r : Nat) (lane : Nat) (ev : Resp) : Same s (s.pushWrite r lane ev).1 := by
  rw [pushWrite_eq]; exact ⟨rfl, rfl, rfl, sameDom_updR _ _ _⟩

theorem sinv_pushSpecial_linked {s : St} {st : List (Nat × Bool)} {L L' : Nat → Nat → Prop}
    (hs : SInv s.reg st L s.remotes) (r id : Nat) (hid : id < s.reg.length)
    (hL : ∀ r' l', L' r' l' → L r' l' ∨ (r' = r ∧ l' = id)) :
    SInv s.reg st L' (s.pushSpecial r (.linked id)).1.remotes := by
  rw [pushSpecial_eq]
  apply sinv_updR hs
  · intro rem hg
    exact pinv_linked (hs r rem hg) id hid (fun l hl => (hL r l hl).imp (fun x => x) (·.2))
  · intro r' l hne hl
    rcases hL r' l hl with h | ⟨h, _⟩
    · exact h
    · exact absurd h hne

theorem sinv_pushSpecial_unlinked {s : St} {st : List (Nat × Bool)} {L L' : Nat → Nat → Prop}
    (hs : SInv s.reg st L s.remotes) (hnd : s.reg.Nodup) (r id : Nat) (msg : UnlinkMsg) (hlk : L r id)
    (hL : ∀ r' l', L' r' l' → L r' l' ∧ ¬ (r' = r ∧ l' = id)) :
    SInv s.reg st L' (s.pushSpecial r (.unlinked id msg)).1.remotes := by
  rw [pushSpecial_eq]
  apply sinv_updR hs
  · intro rem hg
    exact pinv_unlinked (hs r rem hg) hnd id msg hlk
      (fun l hl => ⟨(hL r l hl).1, fun e => (hL r l hl).2 ⟨rfl, e⟩⟩)
  · intro r' l _ hl
    exact (hL r' l hl).1

theorem sinv_pushSpecial_notFound {s : St} {st : List (Nat × Bool)} {L : Nat → Nat → Prop}
    (hs : SInv s.reg st L s.remotes) (r name : Nat) :
    SInv s.reg st L (s.pushSpecial r (.laneNotFound name)).1.remotes := by
  rw [pushSpecial_eq]
  apply sinv_updR hs
  · intro rem hg
    exact pinv_notFound (hs r rem hg) name
  · intro r' l _ hl
    exact hl

theorem sinv_pushWrite {s : St} {st : List (Nat × Bool)} {L : Nat → Nat → Prop}
    (hs : SInv s.reg st L s.remotes) (r lane : Nat) (ev : Resp) (hlk : L r lane) :
    SInv s.reg st L (s.pushWrite r lane ev).1.remotes := by
  rw [pushWrite_eq]
  apply sinv_updR hs
  · intro rem hg
    exact pinv_push (hs r rem hg) lane ev hlk
  · intro r' l _ hl
    exact hl

/-! ### iterations -/

/-- `unlink_all` / `remove_lane`: one `unlinked` per listed (lane, remote) pair. -/
def foldUnl (m : UnlinkMsg) (ps : List (Nat × Nat)) (s : St) : St :=
  ps.foldl (fun s p => (s.pushSpecial p.2 (.unlinked p.1 m)).1) s

theorem sinv_foldUnl (m : UnlinkMsg) (st : List (Nat × Bool)) : ∀ (ps : List (Nat × Nat)) (s : St)
    (L : Nat → Nat → Prop), ps.Nodup → s.reg.Nodup → SInv s.reg st L s.remotes → (∀ p ∈ ps, L p.2 p.1) →
    Same s (foldUnl m ps s) ∧ SInv s.reg st (fun r l => L r l ∧ (l, r) ∉ ps) (foldUnl m ps s).remotes := by
  intro ps
  induction ps with
  | nil =>
    intro s L _ _ hs _
    exact ⟨same_refl s, sinv_mono hs (fun r l h => h.1)⟩
  | cons p ps ih =>
    intro s L hnd hreg hs hp
    simp only [foldUnl, List.foldl]
    have hsame := same_pushSpecial s p.2 (.unlinked p.1 m)
    have h1 : SInv s.reg st (fun r l => L r l ∧ ¬ (r = p.2 ∧ l = p.1))
        (s.pushSpecial p.2 (.unlinked p.1 m)).1.remotes :=
      sinv_pushSpecial_unlinked hs hreg p.2 p.1 m (hp p (by simp)) (fun r' l' h => h)
    have hnd' := List.nodup_cons.mp hnd
    have := ih (s.pushSpecial p.2 (.unlinked p.1 m)).1 (fun r l => L r l ∧ ¬ (r = p.2 ∧ l = p.1)) hnd'.2
      (by rw [hsame.reg]; exact hreg) (by rw [hsame.reg]; exact h1)
      (by
        intro q hq
        refine ⟨hp q (by simp [hq]), ?_⟩
        intro ⟨e1, e2⟩
        apply hnd'.1
        have : q = p := Prod.ext e2 e1
        rw [← this]; exact hq)
    refine ⟨same_trans hsame this.1, ?_⟩
    have h2 := this.2
    rw [hsame.reg] at h2
    apply sinv_mono h2
    intro r l ⟨hl, hm⟩
    simp only [List.mem_cons, not_or] at hm
    refine ⟨⟨hl, ?_⟩, hm.2⟩
    intro ⟨e1, e2⟩
    apply hm.1
    exact Prod.ext e2 e1

/-- broadcast: the same response is pushed for every linked remote. -/
def foldPush (lane : Nat) (ev : Resp) (rs : List Nat) (s : St) : St :=
  rs.foldl (fun s r => (s.pushWrite r lane ev).1) s

theorem sinv_foldPush (lane : Nat) (ev : Resp) (st : List (Nat × Bool)) (L : Nat → Nat → Prop) :
    ∀ (rs : List Nat) (s : St), SInv s.reg st L s.remotes → (∀ r ∈ rs, L r lane) →
    Same s (foldPush lane ev rs s) ∧ SInv s.reg st L (foldPush lane ev rs s).remotes := by
  intro rs
  induction rs with
  | nil => intro s hs _; exact ⟨same_refl s, hs⟩
  | cons r rs ih =>
    intro s hs hr
    simp only [foldPush, List.foldl]
    have hsame := same_pushWrite s r lane ev
    have h1 := sinv_pushWrite hs r lane ev (hr r (by simp))
    have := ih (s.pushWrite r lane ev).1 (by rw [hsame.reg]; exact h1) (fun r' hr' => hr r' (by simp [hr']))
    refine ⟨same_trans hsame this.1, ?_⟩
    have h2 := this.2
    rw [hsame.reg] at h2
    exact h2

/-! The folds of `step` carry the list of scheduled remotes along; their state component is the plain fold. -/

theorem stop_fold_fst (ps : List (Nat × Nat)) : ∀ (s : St) (acc : List Nat),
    (ps.foldl (fun (acc : St × List Nat) (p : Nat × Nat) =>
      let x := acc.1.pushSpecial p.2 (.unlinked p.1 .none); (x.1, acc.2 ++ x.2)) (s, acc)).1 =
    foldUnl .none ps s := by
  induction ps with
  | nil => intro s acc; rfl
  | cons p ps ih => intro s acc; simp only [List.foldl, foldUnl]; exact ih _ _

theorem laneFailed_fold_fst (lane : Nat) (ps : List (Nat × Bool)) : ∀ (s : St) (acc : List Nat),
    (ps.foldl (fun (acc : St × List Nat) (p : Nat × Bool) =>
      let x := acc.1.pushSpecial p.1 (.unlinked lane .none); (x.1, acc.2 ++ x.2)) (s, acc)).1 =
    foldUnl .none ((ps.map (·.1)).map (fun r => (lane, r))) s := by
  induction ps with
  | nil => intro s acc; rfl
  | cons p ps ih => intro s acc; simp only [List.foldl, foldUnl, List.map_cons]; exact ih _ _

theorem broadcast_fold_fst (lane : Nat) (ev : Resp) (rs : List Nat) : ∀ (s : St) (acc : List Nat),
    (rs.foldl (fun (acc : St × List Nat) r =>
      let x := acc.1.pushWrite r lane ev; (x.1, acc.2 ++ x.2)) (s, acc)).1 = foldPush lane ev rs s := by
  induction rs with
  | nil => intro s acc; rfl
  | cons r rs ih => intro s acc; simp only [List.foldl, foldPush]; exact ih _ _

end SwimVerif.WT
