import SwimVerif.Proofs.UplinkFlow

set_option linter.unusedSimpArgs false
set_option linter.unusedVariables false
namespace SwimVerif.WT

/-! ### C01: what a remote is sent for a value lane is an in-order sampling of what the lane pushed, ending with
the newest value -/

def valueOp (l : Nat) : UOp → Prop
  | .special a => ∀ m, a ≠ .unlinked l m
  | .push lane r => lane = l → (∃ b, r = .value b) ∨ r = .synced .value
  | .done => True

/-- `view` = everything sent (or in flight) followed by what still waits in the overwrite buffer. -/
def valueView (l : Nat) (s : USys) : List Body := bodiesFor l s.sent ++ bufValue s.up l

structure VInv (l : Nat) (s : USys) : Prop where
  sub : (valueView l s).Sublist (pushedBodies l s.pushed)
  last : pushedBodies l s.pushed ≠ [] → (valueView l s).getLast? = (pushedBodies l s.pushed).getLast?
  nos : bufSupply s.up l = []
  nom : bufMap s.up l = []

theorem vinv_init (l : Nat) : VInv l {} := by
  constructor <;> simp [valueView, USys.sent, bodiesFor, bufSupply, bufValue, bufMap, alGet, pushedBodies]

theorem vinv_step (reg : Registry) (l : Nat) {s : USys} (hu : UInv s) (h : VInv l s) (op : UOp)
    (hop : valueOp l op) : VInv l (ustep reg s op) := by
  cases op with
  | special a =>
    obtain ⟨e1, e2, e3⟩ := bufs_pushSpecial s.up a reg l hop
    have hview : valueView l (ustep reg s (.special a)) = valueView l s := by
      simp only [ustep, valueView, sent_eq, e1]
      have hw := write_pushSpecial s.up a reg l
      cases hr : (s.up.pushSpecial a reg).2 with
      | none => rfl
      | some w =>
        simp only [hr] at hw ⊢
        rw [hw]
        have hhome : s.up.writerHome = true := by
          cases hh : s.up.writerHome with
          | true => rfl
          | false => simp [Uplinks.pushSpecial, hh] at hr
        rw [hu.w.mp hhome]; simp [writeBodies]
    exact ⟨by rw [hview]; exact h.sub, by intro hne; rw [hview]; exact h.last hne,
      by simp only [ustep]; rw [e2]; exact h.nos, by simp only [ustep]; rw [e3]; exact h.nom⟩
  | push lane resp =>
    have hpushed : (ustep reg s (.push lane resp)).pushed = s.pushed ++ [(lane, resp)] := rfl
    have hup : (ustep reg s (.push lane resp)).up = (s.up.push lane resp reg).1 := rfl
    by_cases hl : lane = l
    · subst hl
      cases hh : s.up.writerHome with
      | true =>
        obtain ⟨e1, e2, e3, e4⟩ := push_home s.up lane resp reg lane hh
        have hin := hu.w.mp hh
        obtain ⟨b1, b2, b3⟩ := bufs_empty_of_home hu hh lane
        have hw : (s.up.push lane resp reg).2 = some ⟨reg.nameFor lane, directNotes resp, some lane⟩ := by
          simp [Uplinks.push, hh]
        have hview : valueView lane (ustep reg s (.push lane resp)) = valueView lane s ++ (respBody? resp).toList := by
          simp only [ustep, valueView, sent_eq, e1, b1, List.append_nil, hin]
          simp only [hw]
          rw [← hw, e4]
          simp [writeBodies]
        refine ⟨?_, ?_, by rw [hup, e2]; exact h.nos, by rw [hup, e3]; exact h.nom⟩
        · rw [hview, hpushed, pushedBodies_append, pushedBodies_single]
          simp only [if_true]
          exact List.Sublist.append h.sub (List.Sublist.refl _)
        · intro hne
          rw [hpushed] at hne
          rw [hview, hpushed, pushedBodies_append, pushedBodies_single]
          simp only [if_true]
          cases hb : respBody? resp with
          | none =>
            simp only [Option.toList, List.append_nil]
            apply h.last
            rw [pushedBodies_append, pushedBodies_single, hb] at hne
            simpa using hne
          | some b => simp [Option.toList]
      | false =>
        rcases hop rfl with ⟨b, rfl⟩ | rfl
        · obtain ⟨e1, e2, e3, e4⟩ := push_away_value s.up lane b reg hh
          have hw : (s.up.push lane (.value b) reg).2 = none := by simp [Uplinks.push, hh]
          have hview : valueView lane (ustep reg s (.push lane (.value b))) = bodiesFor lane s.sent ++ [.raw b] := by
            simp only [ustep, valueView, sent_eq, e1, hw]
          refine ⟨?_, ?_, by rw [hup, e2]; exact h.nos, by rw [hup, e3]; exact h.nom⟩
          · rw [hview, hpushed, pushedBodies_append, pushedBodies_single]
            simp only [if_true, respBody?, Option.toList]
            exact List.Sublist.append ((List.sublist_append_left _ _).trans h.sub) (List.Sublist.refl _)
          · intro _
            rw [hview, hpushed, pushedBodies_append, pushedBodies_single]
            simp [respBody?, Option.toList]
        · obtain ⟨e1, e2, e3, e4⟩ := push_away_synced s.up lane .value reg hh
          have hw : (s.up.push lane (.synced .value) reg).2 = none := by simp [Uplinks.push, hh]
          have hview : valueView lane (ustep reg s (.push lane (.synced .value))) = valueView lane s := by
            simp only [ustep, valueView, sent_eq, e1, hw]
          have hp : pushedBodies lane (s.pushed ++ [(lane, Resp.synced Kind.value)]) = pushedBodies lane s.pushed := by
            rw [pushedBodies_append, pushedBodies_single]; simp [respBody?, Option.toList]
          exact ⟨by rw [hview, hpushed, hp]; exact h.sub,
            by intro hne; rw [hpushed, hp] at hne; rw [hview, hpushed, hp]; exact h.last hne,
            by rw [hup, e2]; exact h.nos, by rw [hup, e3]; exact h.nom⟩
    · obtain ⟨e1, e2, e3, e4⟩ := push_other s.up lane resp reg l hl
      have hp : pushedBodies l (s.pushed ++ [(lane, resp)]) = pushedBodies l s.pushed := by
        rw [pushedBodies_append, pushedBodies_single]; simp [hl]
      have hview : valueView l (ustep reg s (.push lane resp)) = valueView l s := by
        simp only [ustep, valueView, sent_eq, e1]
        cases hr : (s.up.push lane resp reg).2 with
        | none => rfl
        | some w =>
          simp only [hr] at e4 ⊢
          rw [e4]
          have hhome : s.up.writerHome = true := by
            cases hh : s.up.writerHome with
            | true => rfl
            | false =>
              cases resp with
              | synced k => cases k <;> simp [Uplinks.push, hh] at hr
              | value b => simp [Uplinks.push, hh] at hr
              | supply b => simp [Uplinks.push, hh] at hr
              | map op => simp [Uplinks.push, hh] at hr
          rw [hu.w.mp hhome]; simp [writeBodies]
      exact ⟨by rw [hview, hpushed, hp]; exact h.sub,
        by intro hne; rw [hpushed, hp] at hne; rw [hview, hpushed, hp]; exact h.last hne,
        by rw [hup, e2]; exact h.nos, by rw [hup, e3]; exact h.nom⟩
  | done =>
    cases hi : s.inflight with
    | none => simpa [ustep, hi] using h
    | some w =>
      have hup : (ustep reg s .done).up = (s.up.replaceAndPop reg).1 := by simp [ustep, hi]
      obtain ⟨wv, ws, wm, hw, hv, hs, hm⟩ := (split_replaceAndPop s.up reg l).ex
      rw [h.nos] at hs
      rw [h.nom] at hm
      have hs' : ws = [] ∧ bufSupply (s.up.replaceAndPop reg).1 l = [] := by
        simpa [List.append_eq_nil_iff] using hs
      have hm' : wm = [] ∧ bufMap (s.up.replaceAndPop reg).1 l = [] := by
        simpa [List.append_eq_nil_iff] using hm
      have hview : valueView l (ustep reg s .done) = valueView l s := by
        simp only [ustep, hi, valueView, sent_eq]
        rw [bodiesFor_append, hw, hs'.1, hm'.1]
        simp only [List.append_nil, writeBodies]
        rw [List.append_assoc, List.append_assoc, hv, List.append_assoc]
      have hpushed : (ustep reg s .done).pushed = s.pushed := by simp [ustep, hi]
      exact ⟨by rw [hview, hpushed]; exact h.sub,
        by intro hne; rw [hpushed] at hne; rw [hview, hpushed]; exact h.last hne,
        by rw [hup]; exact hs'.2, by rw [hup]; exact hm'.2⟩

theorem vinv_run (reg : Registry) (l : Nat) : ∀ (ops : List UOp) (s : USys), UInv s → VInv l s →
    (∀ op, op ∈ ops → valueOp l op) → VInv l (urun reg s ops) := by
  intro ops
  induction ops with
  | nil => intro s _ h _; exact h
  | cons op rest ih =>
    intro s hu h hall
    exact ih _ (uinv_step reg hu op) (vinv_step reg l hu h op (hall op List.mem_cons_self))
      (fun o ho => hall o (List.mem_cons_of_mem _ ho))

end SwimVerif.WT
